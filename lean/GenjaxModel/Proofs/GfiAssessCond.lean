import GenjaxModel.Proofs.GfiAssess
import GenjaxModel.Proofs.GfiRegen
import Mathlib.Algebra.Group.Int.Defs
/-!
  `score = -assess(choices)` for EVERY program, Cond at any depth included (C01, C02, C03, C05).

  A Cond trace keeps both branch traces; its choice map is the leafwise `where`-merge
  `CM.mergeCheck check (choices of true branch) (choices of false branch)`, and
  `GF.assess (.cond t f)` evaluates BOTH branches on that merged map and selects by the check.
  So what has to be shown is
   1. `assess` only reads what it looks up: it gives the same result on every map that *extends*
      the given one (`CM.Ext`, `assess_ext`),
   2. whether `assess` raises depends neither on the leaf values nor on the arguments, only on the
      shape of the map (`CM.Shape`, `assess_shape`),
   3. the merged map extends the selected branch's map and has the shape of the other one
      (`CM.mergeCheck_rel`),
   4. the induction of `coh_assess_partial`, now with the Cond case (`coh_assess`).
-/
namespace Genjax

/-! ## the relation "y covers x" on choice maps, parametrised by the relation on leaves -/

/-- `CM.Rel L x y`: leaves are related by `L`; for dict nodes every address that `x` resolves
    (`find?`, i.e. first occurrence) is resolved by `y` to a related sub-map (extra addresses in `y`
    are allowed); vectorised maps are related lane by lane (same number of lanes). -/
inductive CM.Rel (L : Val → Val → Prop) : CM → CM → Prop
  | leaf {v w : Val} : L v w → CM.Rel L (.leaf v) (.leaf w)
  | node {a b : CML} :
      (∀ k, (a.find? k).isSome → (b.find? k).isSome) →
      (∀ k va vb, a.find? k = some va → b.find? k = some vb → CM.Rel L va vb) →
      CM.Rel L (.node a) (.node b)
  | lanes {a b : CML} :
      a.toList.length = b.toList.length →
      (∀ (i : Nat) va vb, a.toList[i]? = some va → b.toList[i]? = some vb → CM.Rel L va vb) →
      CM.Rel L (.lanes a) (.lanes b)

/-- `y` extends `x`: same leaves, every address of `x` present in `y` with an extension -/
abbrev CM.Ext : CM → CM → Prop := CM.Rel Eq
/-- `y` has the shape of `x` on `x`'s addresses (leaf values arbitrary) -/
abbrev CM.Shape : CM → CM → Prop := CM.Rel (fun _ _ => True)

/-- the dict-level relation in the form it is used: look-ups succeed and are related -/
def CML.RelN (L : Val → Val → Prop) (a b : CML) : Prop :=
  ∀ k va, a.find? k = some va → ∃ vb, b.find? k = some vb ∧ CM.Rel L va vb

theorem CM.Rel.node_iff {L : Val → Val → Prop} {a b : CML} :
    CM.Rel L (.node a) (.node b) ↔ CML.RelN L a b := by
  constructor
  · intro h
    cases h with
    | node h1 h2 =>
      intro k va hk
      have := h1 k (by simp [hk])
      obtain ⟨vb, hvb⟩ := Option.isSome_iff_exists.mp this
      exact ⟨vb, hvb, h2 k va vb hk hvb⟩
  · intro h
    refine .node ?_ ?_
    · intro k hk
      obtain ⟨va, hva⟩ := Option.isSome_iff_exists.mp hk
      obtain ⟨vb, hvb, _⟩ := h k va hva
      simp [hvb]
    · intro k va vb hka hkb
      obtain ⟨vb', hvb', hr⟩ := h k va hka
      rw [hkb] at hvb'
      cases hvb'
      exact hr

theorem CM.Rel.lanes_iff {L : Val → Val → Prop} {a b : CML} :
    CM.Rel L (.lanes a) (.lanes b) ↔ List.Forall₂ (CM.Rel L) a.toList b.toList := by
  constructor
  · intro h
    cases h with
    | lanes h1 h2 =>
      generalize a.toList = la at h1 h2
      generalize b.toList = lb at h1 h2
      induction la generalizing lb with
      | nil => cases lb with
        | nil => exact .nil
        | cons _ _ => simp at h1
      | cons x la ih => cases lb with
        | nil => simp at h1
        | cons y lb =>
          refine .cons (h2 0 x y (by simp) (by simp)) (ih lb (by simpa using h1) ?_)
          intro i va vb ha hb
          exact h2 (i + 1) va vb (by simpa using ha) (by simpa using hb)
  · intro h
    generalize hla : a.toList = la at h
    generalize hlb : b.toList = lb at h
    refine .lanes ?_ ?_
    · rw [hla, hlb]
      clear hla hlb
      induction h with
      | nil => rfl
      | cons _ _ ih => simp [ih]
    · rw [hla, hlb]
      clear hla hlb
      induction h with
      | nil => intro i va vb ha; simp at ha
      | cons h1 _ ih =>
        intro i va vb ha hb
        cases i with
        | zero =>
          simp only [List.getElem?_cons_zero, Option.some.injEq] at ha hb
          subst ha hb; exact h1
        | succ i => exact ih i va vb (by simpa using ha) (by simpa using hb)

theorem CM.Rel.leaf_iff {L : Val → Val → Prop} {v : Val} {y : CM} :
    CM.Rel L (.leaf v) y ↔ ∃ w, y = .leaf w ∧ L v w := by
  constructor
  · intro h; cases h with | leaf h => exact ⟨_, rfl, h⟩
  · rintro ⟨w, rfl, h⟩; exact .leaf h

theorem CM.Rel.node_left {L : Val → Val → Prop} {a : CML} {y : CM} (h : CM.Rel L (.node a) y) :
    ∃ b, y = .node b ∧ CML.RelN L a b := by
  cases h with | node h1 h2 => exact ⟨_, rfl, CM.Rel.node_iff.mp (.node h1 h2)⟩

theorem CM.Rel.lanes_left {L : Val → Val → Prop} {a : CML} {y : CM} (h : CM.Rel L (.lanes a) y) :
    ∃ b, y = .lanes b ∧ List.Forall₂ (CM.Rel L) a.toList b.toList := by
  cases h with | lanes h1 h2 => exact ⟨_, rfl, CM.Rel.lanes_iff.mp (.lanes h1 h2)⟩

theorem CML.find?_mem : (l : CML) → (k : String) → (v : CM) → l.find? k = some v → v ∈ l.toList
  | .nil, k, v, h => by simp [CML.find?] at h
  | .cons k' v' rest, k, v, h => by
      simp only [CML.find?] at h
      simp only [CML.toList, List.mem_cons]
      split at h
      · simp at h; exact .inl h.symm
      · exact .inr (CML.find?_mem rest k v h)

private theorem forall2_refl_of_mem {α : Type} {r : α → α → Prop} :
    (l : List α) → (∀ x ∈ l, r x x) → List.Forall₂ r l l
  | [], _ => .nil
  | x :: l, h => .cons (h x (by simp)) (forall2_refl_of_mem l (fun y hy => h y (by simp [hy])))

mutual
  /-- `Rel L` is reflexive when `L` is -/
  theorem CM.Rel.refl {L : Val → Val → Prop} (hL : ∀ v, L v v) : (x : CM) → CM.Rel L x x
    | .leaf v => .leaf (hL v)
    | .node a => CM.Rel.node_iff.mpr (fun k va hk =>
        ⟨va, hk, CML.rel_refl hL a va (CML.find?_mem a k va hk)⟩)
    | .lanes a => CM.Rel.lanes_iff.mpr (forall2_refl_of_mem _ (CML.rel_refl hL a))
  theorem CML.rel_refl {L : Val → Val → Prop} (hL : ∀ v, L v v) :
      (l : CML) → ∀ v ∈ l.toList, CM.Rel L v v
    | .nil, v, h => by simp [CML.toList] at h
    | .cons k v' rest, v, h => by
        simp only [CML.toList, List.mem_cons] at h
        rcases h with h | h
        · rw [h]; exact CM.Rel.refl hL v'
        · exact CML.rel_refl hL rest v h
end

/-! ## 3. the merged map covers both branch maps -/

theorem CML.find?_erase_ne : (b : CML) → (k k' : String) → k' ≠ k →
    (b.erase k).find? k' = b.find? k'
  | .nil, k, k', _ => by simp [CML.erase, CML.find?]
  | .cons k0 v rest, k, k', hne => by
      by_cases hk : k = k0
      · subst hk
        simp [CML.erase, CML.find?, hne]
      · simp only [CML.erase, hk, if_false, CML.find?]
        rw [CML.find?_erase_ne rest k k' hne]

section Merge
variable (c : Bool) (L1 L2 : Val → Val → Prop)
  (h1 : ∀ v w, L1 v (if c then v else w)) (h2 : ∀ v w, L2 w (if c then v else w))

set_option linter.unusedSectionVars false in
include h1 h2 in
mutual
  /-- the leafwise `where`-merge of two maps is related to both of them -/
  theorem CM.mergeCheck_rel : (a b m : CM) → CM.mergeCheck c a b = some m →
      CM.Rel L1 a m ∧ CM.Rel L2 b m
    | .leaf va, b, m, h => by
        cases b <;> simp only [CM.mergeCheck, Option.some.injEq, reduceCtorEq] at h
        subst h
        exact ⟨.leaf (h1 _ _), .leaf (h2 _ _)⟩
    | .node a, b, m, h => by
        cases b <;> simp only [CM.mergeCheck, Option.map_eq_some_iff, reduceCtorEq] at h
        obtain ⟨m', hm', rfl⟩ := h
        have := CML.mergeCheck_rel a _ m' hm'
        exact ⟨CM.Rel.node_iff.mpr this.1, CM.Rel.node_iff.mpr this.2⟩
    | .lanes a, b, m, h => by
        cases b <;> simp only [CM.mergeCheck, Option.map_eq_some_iff, reduceCtorEq] at h
        obtain ⟨m', hm', rfl⟩ := h
        have := CML.mergeLanes_rel a _ m' hm'
        exact ⟨CM.Rel.lanes_iff.mpr this.1, CM.Rel.lanes_iff.mpr this.2⟩
  theorem CML.mergeCheck_rel : (a b m : CML) → CML.mergeCheck c a b = some m →
      CML.RelN L1 a m ∧ CML.RelN L2 b m
    | .nil, b, m, h => by
        simp only [CML.mergeCheck, Option.some.injEq] at h
        subst h
        refine ⟨fun k va hk => by simp [CML.find?] at hk, fun k vb hk => ⟨vb, hk, ?_⟩⟩
        exact CM.Rel.refl (fun v => by simpa using h2 v v) vb
    | .cons k v rest, b, m, h => by
        simp only [CML.mergeCheck] at h
        split at h
        · rename_i v' hv'
          simp only [Option.bind_eq_bind, Option.bind_eq_some_iff, Option.pure_def,
            Option.some.injEq] at h
          obtain ⟨mv, hmv, r, hr, rfl⟩ := h
          have ihv := CM.mergeCheck_rel v v' mv hmv
          have ihr := CML.mergeCheck_rel rest (b.erase k) r hr
          constructor
          · intro k' va hk'
            simp only [CML.find?] at hk' ⊢
            split
            · rename_i hkk; simp only [hkk, if_true, Option.some.injEq] at hk'
              subst hk'; exact ⟨_, rfl, ihv.1⟩
            · rename_i hkk; simp only [hkk, if_false] at hk'
              exact ihr.1 k' va hk'
          · intro k' vb hk'
            simp only [CML.find?]
            split
            · rename_i hkk; subst hkk
              rw [hv'] at hk'; cases hk'
              exact ⟨_, rfl, ihv.2⟩
            · rename_i hkk
              exact ihr.2 k' vb (by rw [CML.find?_erase_ne b k k' hkk]; exact hk')
        · rename_i hv'
          simp only [Option.bind_eq_bind, Option.bind_eq_some_iff, Option.pure_def,
            Option.some.injEq] at h
          obtain ⟨r, hr, rfl⟩ := h
          have ihr := CML.mergeCheck_rel rest b r hr
          constructor
          · intro k' va hk'
            simp only [CML.find?] at hk' ⊢
            split
            · rename_i hkk; simp only [hkk, if_true, Option.some.injEq] at hk'
              subst hk'
              exact ⟨_, rfl, CM.Rel.refl (fun v => by simpa using h1 v v) _⟩
            · rename_i hkk; simp only [hkk, if_false] at hk'
              exact ihr.1 k' va hk'
          · intro k' vb hk'
            simp only [CML.find?]
            split
            · rename_i hkk; subst hkk
              rw [hv'] at hk'; cases hk'
            · exact ihr.2 k' vb hk'
  theorem CML.mergeLanes_rel : (a b m : CML) → CML.mergeLanes c a b = some m →
      List.Forall₂ (CM.Rel L1) a.toList m.toList ∧ List.Forall₂ (CM.Rel L2) b.toList m.toList
    | .nil, b, m, h => by
        cases b <;> simp only [CML.mergeLanes, Option.some.injEq, reduceCtorEq] at h
        subst h
        exact ⟨.nil, .nil⟩
    | .cons k v rest, b, m, h => by
        cases b with
        | nil => simp [CML.mergeLanes] at h
        | cons k' v' rest' =>
          simp only [CML.mergeLanes, Option.bind_eq_bind, Option.bind_eq_some_iff, Option.pure_def,
            Option.some.injEq] at h
          obtain ⟨mv, hmv, r, hr, rfl⟩ := h
          have ihv := CM.mergeCheck_rel v v' mv hmv
          have ihr := CML.mergeLanes_rel rest rest' r hr
          exact ⟨.cons ihv.1 ihr.1, .cons ihv.2 ihr.2⟩
end
end Merge

/-- check = true: the merged map extends the true branch's map and has the shape of the false
    branch's map (on the latter's addresses) -/
theorem CM.mergeCheck_true {a b m : CM} (h : CM.mergeCheck true a b = some m) :
    CM.Ext a m ∧ CM.Shape b m :=
  CM.mergeCheck_rel true Eq (fun _ _ => True) (fun _ _ => rfl) (fun _ _ => trivial) a b m h

/-- check = false: symmetric -/
theorem CM.mergeCheck_false {a b m : CM} (h : CM.mergeCheck false a b = some m) :
    CM.Shape a m ∧ CM.Ext b m :=
  CM.mergeCheck_rel false (fun _ _ => True) Eq (fun _ _ => trivial) (fun _ _ => rfl) a b m h

/-! ## 1. `assess` is monotone under extension of the choice map -/

section Lists
variable {α β : Type}

private theorem forall2_len {r : α → α → Prop} {a b : List α}
    (h : List.Forall₂ r a b) : a.length = b.length := by
  induction h with
  | nil => rfl
  | cons _ _ ih => simp [ih]

theorem forLanes_rel_some (r : α → α → Prop) (f : Nat → α → Option β)
    (hf : ∀ i x y b, r x y → f i x = some b → f i y = some b) :
    ∀ (xs ys : List α) (i : Nat) (bs : List β), List.Forall₂ r xs ys →
      forLanes f i xs = some bs → forLanes f i ys = some bs := by
  intro xs ys i bs hxy
  induction hxy generalizing i bs with
  | nil => exact id
  | cons hab _ ih =>
    intro h
    simp only [forLanes, Option.bind_eq_bind, Option.bind_eq_some_iff, Option.pure_def,
      Option.some.injEq] at h ⊢
    obtain ⟨b, hb, bs', hbs', rfl⟩ := h
    exact ⟨b, hf _ _ _ _ hab hb, bs', ih _ _ hbs', rfl⟩

theorem forSteps_rel_some (r : α → α → Prop) (f : Val → Nat → α → Option (β × Val))
    (hf : ∀ c i x y b, r x y → f c i x = some b → f c i y = some b) :
    ∀ (xs ys : List α) (c : Val) (i : Nat) (res : List β × Val), List.Forall₂ r xs ys →
      forSteps f c i xs = some res → forSteps f c i ys = some res := by
  intro xs ys c i res hxy
  induction hxy generalizing c i res with
  | nil => exact id
  | cons hab _ ih =>
    intro h
    simp only [forSteps, Option.bind_eq_bind, Option.bind_eq_some_iff, Option.pure_def,
      Option.some.injEq] at h ⊢
    obtain ⟨⟨b, c1⟩, hb, ⟨bs', c2⟩, hbs', rfl⟩ := h
    exact ⟨(b, c1), hf _ _ _ _ _ hab hb, (bs', c2), ih _ _ _ hbs', rfl⟩

theorem forLanes_rel_defined (r : α → α → Prop) (f f' : Nat → α → Option β)
    (hf : ∀ i x y, r x y → (∃ b, f i x = some b) → ∃ b, f' i y = some b) :
    ∀ (xs ys : List α) (i : Nat), List.Forall₂ r xs ys →
      (∃ bs, forLanes f i xs = some bs) → ∃ bs, forLanes f' i ys = some bs := by
  intro xs ys i hxy
  induction hxy generalizing i with
  | nil => intro _; exact ⟨[], rfl⟩
  | cons hab _ ih =>
    rintro ⟨bs, h⟩
    simp only [forLanes, Option.bind_eq_bind, Option.bind_eq_some_iff, Option.pure_def,
      Option.some.injEq] at h ⊢
    obtain ⟨b, hb, bs', hbs', rfl⟩ := h
    obtain ⟨b2, hb2⟩ := hf _ _ _ hab ⟨b, hb⟩
    obtain ⟨bs2, hbs2⟩ := ih _ ⟨bs', hbs'⟩
    exact ⟨_, b2, hb2, bs2, hbs2, rfl⟩

theorem forSteps_rel_defined (r : α → α → Prop) (f f' : Val → Nat → α → Option (β × Val))
    (hf : ∀ c c' i x y, r x y → (∃ b, f c i x = some b) → ∃ b, f' c' i y = some b) :
    ∀ (xs ys : List α) (c c' : Val) (i : Nat), List.Forall₂ r xs ys →
      (∃ res, forSteps f c i xs = some res) → ∃ res, forSteps f' c' i ys = some res := by
  intro xs ys c c' i hxy
  induction hxy generalizing c c' i with
  | nil => intro _; exact ⟨_, rfl⟩
  | cons hab _ ih =>
    rintro ⟨res, h⟩
    simp only [forSteps, Option.bind_eq_bind, Option.bind_eq_some_iff, Option.pure_def,
      Option.some.injEq] at h ⊢
    obtain ⟨⟨b, c1⟩, hb, ⟨bs', c2⟩, hbs', rfl⟩ := h
    obtain ⟨⟨b2, d1⟩, hb2⟩ := hf _ c' _ _ _ hab ⟨_, hb⟩
    obtain ⟨⟨bs2, d2⟩, hbs2⟩ := ih c1 d1 _ ⟨_, hbs'⟩
    exact ⟨_, (b2, d1), hb2, (bs2, d2), hbs2, rfl⟩
end Lists

section Mono
variable {R : Type} [Zero R] [Add R] (P : Prims R)

mutual
  /-- `assess` reads the choice map only through look-ups: on a map that extends `x` it returns
      what it returns on `x` -/
  theorem assess_ext_gf : (g : GF) → ∀ (x y : CM) (args : List Val) (r : R × Val),
      CM.Ext x y → g.assess P x args = some r → g.assess P y args = some r
    | .dist d, x, y, args, r, hxy, h => by
        cases x <;> simp only [GF.assess, reduceCtorEq] at h
        obtain ⟨w, rfl, rfl⟩ := CM.Rel.leaf_iff.mp hxy
        simpa only [GF.assess] using h
    | .fn body, x, y, args, r, hxy, h => by
        cases x <;> simp only [GF.assess, reduceCtorEq] at h
        obtain ⟨b, rfl, hb⟩ := hxy.node_left
        simp only [GF.assess]
        exact assess_ext_body body _ _ _ _ _ hb h
    | .vmap g axes n, x, y, args, r, hxy, h => by
        cases x <;> simp only [GF.assess, reduceCtorEq] at h
        obtain ⟨b, rfl, hb⟩ := hxy.lanes_left
        simp only [GF.assess, Option.bind_eq_bind, Option.bind_eq_some_iff, Option.pure_def,
          Option.some.injEq] at h ⊢
        obtain ⟨u, hlen, rs, hrs, rfl⟩ := h
        refine ⟨u, ?_, rs, ?_, rfl⟩
        · simpa only [lenIs, ← forall2_len hb] using hlen
        · exact forLanes_rel_some CM.Ext (fun i xi => g.assess P xi (laneArgs axes args i))
            (fun i x y b hxy hx => assess_ext_gf g x y _ b hxy hx) _ _ _ _ hb hrs
    | .scan g n, x, y, args, r, hxy, h => by
        cases x <;> simp only [GF.assess, reduceCtorEq] at h
        obtain ⟨b, rfl, hb⟩ := hxy.lanes_left
        simp only [GF.assess, Option.bind_eq_bind, Option.bind_eq_some_iff, Option.pure_def,
          Option.some.injEq] at h ⊢
        obtain ⟨u, hlen, rs, hrs, rfl⟩ := h
        refine ⟨u, ?_, rs, ?_, rfl⟩
        · simpa only [lenIs, ← forall2_len hb] using hlen
        · refine forSteps_rel_some CM.Ext _ (fun c i x y b hxy hx => ?_) _ _ _ _ _ hb hrs
          simp only [Option.bind_eq_some_iff] at hx ⊢
          obtain ⟨p, hp, hb⟩ := hx
          exact ⟨p, assess_ext_gf g x y _ p hxy hp, hb⟩
    | .cond t f, x, y, args, r, hxy, h => by
        simp only [GF.assess, Option.bind_eq_bind, Option.bind_eq_some_iff, Option.pure_def,
          Option.some.injEq] at h ⊢
        obtain ⟨p, hp, q, hq, rfl⟩ := h
        exact ⟨p, assess_ext_gf t x y _ p hxy hp, q, assess_ext_gf f x y _ q hxy hq, rfl⟩
  theorem assess_ext_body : (b : Body) → ∀ (x y : CML) (env : List Val) (seen : List String)
      (r : R × Val), CML.RelN Eq x y → b.assess P x env seen = some r →
      b.assess P y env seen = some r
    | .ret e, x, y, env, seen, r, hxy, h => by
        simpa only [Body.assess] using h
    | .call addr g es rest, x, y, env, seen, r, hxy, h => by
        simp only [Body.assess] at h ⊢
        split at h
        · simp at h
        rename_i hseen
        simp only [hseen, Bool.false_eq_true, if_false]
        split at h
        · simp at h
        rename_i sub hsub
        obtain ⟨sub', hsub', hrel⟩ := hxy addr sub hsub
        simp only [hsub']
        simp only [Option.bind_eq_bind, Option.bind_eq_some_iff, Option.pure_def,
          Option.some.injEq] at h ⊢
        obtain ⟨p, hp, q, hq, rfl⟩ := h
        exact ⟨p, assess_ext_gf g sub sub' _ p hrel hp, q,
          assess_ext_body rest x y _ _ q hxy hq, rfl⟩
end

/-! ## 2. whether `assess` raises depends only on the shape of the map -/

mutual
  /-- definedness of `assess` is independent of leaf values and of the arguments -/
  theorem assess_shape_gf : (g : GF) → ∀ (x y : CM) (args args' : List Val),
      CM.Shape x y → (∃ r, g.assess P x args = some r) → ∃ r, g.assess P y args' = some r
    | .dist d, x, y, args, args', hxy, ⟨r, h⟩ => by
        cases x <;> simp only [GF.assess, reduceCtorEq] at h
        obtain ⟨w, rfl, _⟩ := CM.Rel.leaf_iff.mp hxy
        exact ⟨(P.lp d args' w, w), by simp only [GF.assess]⟩
    | .fn body, x, y, args, args', hxy, ⟨r, h⟩ => by
        cases x <;> simp only [GF.assess, reduceCtorEq] at h
        obtain ⟨b, rfl, hb⟩ := hxy.node_left
        simp only [GF.assess]
        exact assess_shape_body body _ _ _ _ _ hb ⟨r, h⟩
    | .vmap g axes n, x, y, args, args', hxy, ⟨r, h⟩ => by
        cases x <;> simp only [GF.assess, reduceCtorEq] at h
        obtain ⟨b, rfl, hb⟩ := hxy.lanes_left
        simp only [GF.assess, Option.bind_eq_bind, Option.bind_eq_some_iff, Option.pure_def,
          Option.some.injEq] at h ⊢
        obtain ⟨u, hlen, rs, hrs, rfl⟩ := h
        obtain ⟨rs', hrs'⟩ := forLanes_rel_defined CM.Shape
          (fun i xi => g.assess P xi (laneArgs axes args i))
          (fun i xi => g.assess P xi (laneArgs axes args' i))
          (fun i x y hxy hx => assess_shape_gf g x y _ _ hxy hx) _ _ 0 hb ⟨rs, hrs⟩
        refine ⟨_, u, ?_, rs', hrs', rfl⟩
        simpa only [lenIs, ← forall2_len hb] using hlen
    | .scan g n, x, y, args, args', hxy, ⟨r, h⟩ => by
        cases x <;> simp only [GF.assess, reduceCtorEq] at h
        obtain ⟨b, rfl, hb⟩ := hxy.lanes_left
        simp only [GF.assess, Option.bind_eq_bind, Option.bind_eq_some_iff, Option.pure_def,
          Option.some.injEq] at h ⊢
        obtain ⟨u, hlen, rs, hrs, rfl⟩ := h
        obtain ⟨rs', hrs'⟩ := forSteps_rel_defined CM.Shape
          (fun c i xi => (g.assess P xi [c, (args.getD 1 .nil).nth i]).bind
            fun p => some ((p.1, p.2.snd), p.2.fst))
          (fun c i xi => (g.assess P xi [c, (args'.getD 1 .nil).nth i]).bind
            fun p => some ((p.1, p.2.snd), p.2.fst))
          (fun c c' i x y hxy hx => by
            obtain ⟨b, hb⟩ := hx
            simp only [Option.bind_eq_some_iff] at hb ⊢
            obtain ⟨p, hp, _⟩ := hb
            obtain ⟨p', hp'⟩ := assess_shape_gf g x y _ [c', (args'.getD 1 .nil).nth i] hxy ⟨p, hp⟩
            exact ⟨_, p', hp', rfl⟩) _ _ (args.getD 0 .nil) (args'.getD 0 .nil) 0 hb ⟨rs, hrs⟩
        refine ⟨_, u, ?_, rs', hrs', rfl⟩
        simpa only [lenIs, ← forall2_len hb] using hlen
    | .cond t f, x, y, args, args', hxy, ⟨r, h⟩ => by
        simp only [GF.assess, Option.bind_eq_bind, Option.bind_eq_some_iff, Option.pure_def,
          Option.some.injEq] at h ⊢
        obtain ⟨p, hp, q, hq, rfl⟩ := h
        obtain ⟨p', hp'⟩ := assess_shape_gf t x y _ (args'.drop 1) hxy ⟨p, hp⟩
        obtain ⟨q', hq'⟩ := assess_shape_gf f x y _ (args'.drop 1) hxy ⟨q, hq⟩
        exact ⟨_, p', hp', q', hq', rfl⟩
  theorem assess_shape_body : (b : Body) → ∀ (x y : CML) (env env' : List Val)
      (seen : List String), CML.RelN (fun _ _ => True) x y →
      (∃ r, b.assess P x env seen = some r) → ∃ r, b.assess P y env' seen = some r
    | .ret e, x, y, env, env', seen, hxy, _ => ⟨(0, e.eval env'), by simp only [Body.assess]⟩
    | .call addr g es rest, x, y, env, env', seen, hxy, ⟨r, h⟩ => by
        simp only [Body.assess] at h ⊢
        split at h
        · simp at h
        rename_i hseen
        simp only [hseen, Bool.false_eq_true, if_false]
        split at h
        · simp at h
        rename_i sub hsub
        obtain ⟨sub', hsub', hrel⟩ := hxy addr sub hsub
        simp only [hsub']
        simp only [Option.bind_eq_bind, Option.bind_eq_some_iff, Option.pure_def,
          Option.some.injEq] at h ⊢
        obtain ⟨p, hp, q, hq, rfl⟩ := h
        obtain ⟨p', hp'⟩ := assess_shape_gf g sub sub' _ (es.map (·.eval env')) hrel ⟨p, hp⟩
        obtain ⟨q', hq'⟩ := assess_shape_body rest x y _ (env' ++ [p'.2]) _ hxy ⟨q, hq⟩
        exact ⟨_, p', hp', q', hq', rfl⟩
end

/-- 1. in `isSome`-free form: see `assess_ext_gf` -/
theorem assess_ext (g : GF) (x y : CM) (args : List Val) (r : R × Val)
    (hxy : CM.Ext x y) (h : g.assess P x args = some r) : g.assess P y args = some r :=
  assess_ext_gf P g x y args r hxy h

/-- 2. definedness of `assess` depends only on the shape of the choice map -/
theorem assess_shape (g : GF) (x y : CM) (args args' : List Val)
    (hxy : CM.Shape x y) (h : (g.assess P x args).isSome) : (g.assess P y args').isSome := by
  obtain ⟨r, hr⟩ := Option.isSome_iff_exists.mp h
  obtain ⟨r', hr'⟩ := assess_shape_gf P g x y args args' hxy ⟨r, hr⟩
  simp [hr']

end Mono

/-! ## 4. coherent traces: `assess(choices) = (-score, retval)`, Cond included -/

section Obs
variable {R : Type} [Zero R] [Add R]

private theorem scoreSum_eq' : (l : TrL R) → l.scoreSum = sumR (l.toList.map Tr.score)
  | .nil => by simp [TrL.scoreSum, TrL.toList, sumR]
  | .cons k t rest => by simp [TrL.scoreSum, TrL.toList, sumR, scoreSum_eq' rest]

end Obs

section Choices
variable {R : Type}

private theorem retvals_eq' : (l : TrL R) → l.retvals = Val.ofList (l.toList.map Tr.retval)
  | .nil => by simp [TrL.retvals, TrL.toList, Val.ofList]
  | .cons k t rest => by simp [TrL.retvals, TrL.toList, Val.ofList, retvals_eq' rest]

private theorem outs_eq' : (l : TrL R) →
    l.outs = Val.ofList (l.toList.map (fun t => t.retval.snd))
  | .nil => by simp [TrL.outs, TrL.toList, Val.ofList]
  | .cons k t rest => by simp [TrL.outs, TrL.toList, Val.ofList, outs_eq' rest]

private theorem forall2_length' {α β : Type} {r : α → β → Prop} {a : List α} {b : List β}
    (h : List.Forall₂ r a b) : a.length = b.length := by
  induction h with
  | nil => rfl
  | cons _ _ ih => simp [ih]

end Choices

section Main
variable {R : Type} [AddCommGroup R] (P : Prims R)

omit P in
private theorem sumR_neg' (l : List R) : sumR (l.map (fun r => -r)) = - sumR l := by
  induction l with
  | nil => simp [sumR]
  | cons a l ih => simp [sumR, ih]; abel

private theorem lanes_assess' (coh : List Val → Tr R → Prop) (axes : List Bool) (args : List Val)
    (f : Nat → CM → Option (R × Val))
    (hf : ∀ i t c, coh (laneArgs axes args i) t → t.choices = some c →
      f i c = some (-t.score, t.retval)) :
    ∀ (ts : List (Tr R)) (xs : List CM) (i : Nat),
      List.Forall₂ (fun t c => t.choices = some c) ts xs →
      lanesCoh coh axes args i ts →
      forLanes f i xs = some (ts.map fun t => (-t.score, t.retval)) := by
  intro ts
  induction ts with
  | nil => intro xs i h _; cases h; simp [forLanes]
  | cons t ts ih =>
    intro xs i h hc
    cases h with
    | cons h1 h2 =>
      obtain ⟨hc1, hc2⟩ := hc
      simp [forLanes, hf i t _ hc1 h1, ih _ _ h2 hc2]

private theorem steps_assess' (coh : List Val → Tr R → Prop) (xsv : Val)
    (f : Val → Nat → CM → Option ((R × Val) × Val))
    (hf : ∀ c i t x, coh [c, xsv.nth i] t → t.choices = some x →
      f c i x = some ((-t.score, t.retval.snd), t.retval.fst)) :
    ∀ (ts : List (Tr R)) (xs : List CM) (c : Val) (i : Nat) (c' : Val),
      List.Forall₂ (fun t c => t.choices = some c) ts xs →
      stepsCoh coh xsv c i ts c' →
      forSteps f c i xs = some (ts.map (fun t => (-t.score, t.retval.snd)), c') := by
  intro ts
  induction ts with
  | nil => intro xs c i c' h hc; cases h; simp [stepsCoh] at hc; simp [forSteps, hc]
  | cons t ts ih =>
    intro xs c i c' h hc
    cases h with
    | cons h1 h2 =>
      obtain ⟨hc1, hc2⟩ := hc
      simp [forSteps, hf c i t _ hc1 h1, ih _ _ _ _ h2 hc2]

mutual
  theorem coh_assess_gf' : (g : GF) → ∀ (args : List Val) (t : Tr R) (x : CM),
      g.Coh P args t → t.choices = some x → g.assess P x args = some (-t.score, t.retval)
    | .dist d, args, t, x, h, hx => by
        cases t <;> simp only [GF.Coh] at h
        simp only [Tr.choices, Option.some.injEq] at hx
        subst hx h
        simp [GF.assess, Tr.score, Tr.retval]
    | .fn body, args, t, x, h, hx => by
        cases t <;> simp only [GF.Coh] at h
        rename_i subs r s
        obtain ⟨hb, rfl, rfl⟩ := h
        simp only [Tr.choices, Option.map_eq_some_iff] at hx
        obtain ⟨xl, hxl, rfl⟩ := hx
        simp only [GF.assess, Tr.score, Tr.retval]
        exact coh_assess_body' body args subs xl [] hb hxl (by simp)
    | .vmap g axes n, args, t, x, h, hx => by
        cases t <;> simp only [GF.Coh] at h
        rename_i lanes
        obtain ⟨hlen, hl⟩ := h
        simp only [Tr.choices, Option.map_eq_some_iff] at hx
        obtain ⟨xl, hxl, rfl⟩ := hx
        have hF := TrL.choices_toList lanes xl hxl
        have := lanes_assess' (fun a t => g.Coh P a t) axes args
          (fun i xi => g.assess P xi (laneArgs axes args i))
          (fun i t c hc hch => coh_assess_gf' g _ t c hc hch) _ _ 0 hF hl
        have hlen' : xl.toList.length = n := by rw [← forall2_length' hF, hlen]
        simp only [GF.assess, this, lenIs, hlen']
        simp [Tr.score, Tr.retval, scoreSum_eq', retvals_eq', ← sumR_neg', Function.comp_def]
    | .scan g n, args, t, x, h, hx => by
        cases t <;> simp only [GF.Coh] at h
        rename_i steps c
        obtain ⟨hlen, hl⟩ := h
        simp only [Tr.choices, Option.map_eq_some_iff] at hx
        obtain ⟨xl, hxl, rfl⟩ := hx
        have hF := TrL.choices_toList steps xl hxl
        have := steps_assess' (fun a t => g.Coh P a t) (args.getD 1 .nil)
          (fun c i xi => do
              let __x ← GF.assess P g xi [c, (args.getD 1 Val.nil).nth i]
              pure ((__x.1, __x.2.snd), __x.2.fst))
          (fun c i t x hc hch => by
            have := coh_assess_gf' g _ t x hc hch
            simp only [this]; rfl) _ _ _ 0 _ hF hl
        have hlen' : xl.toList.length = n := by rw [← forall2_length' hF, hlen]
        simp only [GF.assess, this, lenIs, hlen']
        simp [Tr.score, Tr.retval, scoreSum_eq', outs_eq', ← sumR_neg', Function.comp_def]
    | .cond tg fg, args, t, x, h, hx => by
        cases t <;> simp only [GF.Coh] at h
        rename_i c a b
        obtain ⟨hc, ha, hb⟩ := h
        simp only [Tr.choices, Option.bind_eq_bind, Option.bind_eq_some_iff] at hx
        obtain ⟨xa, hxa, xb, hxb, hm⟩ := hx
        have iha := coh_assess_gf' tg _ a xa ha hxa
        have ihb := coh_assess_gf' fg _ b xb hb hxb
        cases c with
        | true =>
          obtain ⟨he, hs⟩ := CM.mergeCheck_true hm
          have h1 := assess_ext_gf P tg xa x _ _ he iha
          obtain ⟨q, h2⟩ := assess_shape_gf P fg xb x _ (args.drop 1) hs ⟨_, ihb⟩
          simp only [GF.assess, h1, h2, ← hc, Tr.score, Tr.retval]
          rfl
        | false =>
          obtain ⟨hs, he⟩ := CM.mergeCheck_false hm
          have h2 := assess_ext_gf P fg xb x _ _ he ihb
          obtain ⟨q, h1⟩ := assess_shape_gf P tg xa x _ (args.drop 1) hs ⟨_, iha⟩
          simp only [GF.assess, h1, h2, ← hc, Tr.score, Tr.retval]
          rfl
  theorem coh_assess_body' : (b : Body) →
      ∀ (env : List Val) (subs : TrL R) (xl : CML) (seen : List String),
      b.Coh P env subs → subs.choices = some xl → (∀ a ∈ b.addrs, a ∉ seen) →
      b.assess P xl env seen = some (-(b.scoreOf subs), b.retOf env subs)
    | .ret e, env, subs, xl, seen, _, _, _ => by
        simp [Body.assess, Body.scoreOf, Body.retOf]
    | .call addr g es rest, env, subs, xl, seen, h, hx, hseen => by
        simp only [Body.Coh] at h
        obtain ⟨hnot, t, hft, hgc, hrc⟩ := h
        obtain ⟨c, hc, hfc⟩ := TrL.choices_find subs xl hx addr t hft
        have h1 := coh_assess_gf' g _ t c hgc hc
        have h2 := coh_assess_body' rest (env ++ [t.retval]) subs xl (addr :: seen) hrc hx (by
          intro a ha
          simp only [List.mem_cons, not_or]
          refine ⟨?_, hseen a (by simp [Body.addrs, ha])⟩
          rintro rfl; exact hnot ha)
        have h3 : seen.contains addr = false := by
          simpa using hseen addr (by simp [Body.addrs])
        simp only [Body.assess, h3, hfc, h1, Body.scoreOf, Body.retOf, hft]
        simp [h2]
        abel
end

/-- L6 for EVERY program (Cond at any depth: inside Fn, Vmap, Scan, Cond of Cond):
    if a coherent trace has a choice map `x` (`get_choices()` does not raise), `assess` accepts `x`
    under the recorded arguments and returns `(-score, retval)`.
    Supersedes `coh_assess_partial` (which needed `g.condFree`). -/
theorem coh_assess (g : GF) (args : List Val) (t : Tr R) (h : g.Coh P args t)
    (x : CM) (hx : t.choices = some x) : g.assess P x args = some (-t.score, t.retval) :=
  coh_assess_gf' P g args t x h hx

end Main

/-! ## 5. when does a trace built by the operations have a choice map?

  `get_choices()` of a Cond trace raises when the two branch maps do not merge (a leaf against a
  dict, vectorised maps of different length).  Whether they merge depends only on the *shape* of the
  two maps, and for the traces the operations build (`GF.Canon`, coherent) the shape is determined by
  the program alone: `GF.skel` is the program's static choice-map skeleton (every leaf value replaced
  by `.nil`); it exists iff at every Cond the skeletons of the two branches merge
  ("compatible branches").  `canon_choices_skel`: the skeleton of the trace's choice map IS the
  program's skeleton, as partial values — so the choice map exists iff the program's skeleton does. -/

mutual
  /-- shape of a choice map: leaf values forgotten -/
  def CM.skel : CM → CM
    | .leaf _ => .leaf .nil
    | .node l => .node l.skel
    | .lanes l => .lanes l.skel
  def CML.skel : CML → CML
    | .nil => .nil
    | .cons k v r => .cons k v.skel r.skel
end

/-- `n` lanes of the same skeleton (keys `""` as the operations build them) -/
def skelLanes : Nat → Option CM → Option CML
  | 0, _ => some .nil
  | n + 1, s => do
      let x ← s
      let r ← skelLanes n s
      pure (.cons "" x r)

mutual
  /-- static choice-map skeleton of a program; `none` = some Cond has branches whose choice maps
      cannot be merged (then `get_choices()` raises on every trace of the program that reaches it) -/
  def GF.skel : GF → Option CM
    | .dist _ => some (.leaf .nil)
    | .fn body => body.skel.map .node
    | .vmap g _ n => (skelLanes n g.skel).map .lanes
    | .scan g n => (skelLanes n g.skel).map .lanes
    | .cond t f => do CM.mergeCheck true (← t.skel) (← f.skel)
  def Body.skel : Body → Option CML
    | .ret _ => some .nil
    | .call addr g _ rest => do pure (.cons addr (← g.skel) (← rest.skel))
end

theorem CML.find?_skel : (l : CML) → (k : String) → l.skel.find? k = (l.find? k).map CM.skel
  | .nil, k => by simp [CML.skel, CML.find?]
  | .cons k' v r, k => by
      simp only [CML.skel, CML.find?]
      split
      · simp
      · exact CML.find?_skel r k

theorem CML.erase_skel : (l : CML) → (k : String) → (l.erase k).skel = l.skel.erase k
  | .nil, k => by simp [CML.skel, CML.erase]
  | .cons k' v r, k => by
      simp only [CML.skel, CML.erase]
      split
      · rfl
      · simp only [CML.skel, CML.erase_skel r k]

mutual
  /-- merging commutes with forgetting the leaf values (and does not depend on the check) -/
  theorem CM.mergeCheck_skel (c c' : Bool) : (a b : CM) →
      (CM.mergeCheck c a b).map CM.skel = CM.mergeCheck c' a.skel b.skel
    | .leaf va, b => by
        cases b <;> simp [CM.mergeCheck, CM.skel]
    | .node a, b => by
        cases b <;> simp only [CM.mergeCheck, CM.skel, Option.map_none]
        rw [← CML.mergeCheck_skel c c' a _, Option.map_map, Option.map_map]
        rfl
    | .lanes a, b => by
        cases b <;> simp only [CM.mergeCheck, CM.skel, Option.map_none]
        rw [← CML.mergeLanes_skel c c' a _, Option.map_map, Option.map_map]
        rfl
  theorem CML.mergeCheck_skel (c c' : Bool) : (a b : CML) →
      (CML.mergeCheck c a b).map CML.skel = CML.mergeCheck c' a.skel b.skel
    | .nil, b => by simp [CML.mergeCheck, CML.skel]
    | .cons k v rest, b => by
        simp only [CML.mergeCheck, CML.skel, CML.find?_skel]
        cases hb : b.find? k with
        | none =>
          simp only [Option.map_none]
          rw [← CML.mergeCheck_skel c c' rest b]
          cases CML.mergeCheck c rest b <;> simp [CML.skel]
        | some v' =>
          simp only [Option.map_some]
          rw [← CM.mergeCheck_skel c c' v v', ← CML.erase_skel,
            ← CML.mergeCheck_skel c c' rest (b.erase k)]
          cases CM.mergeCheck c v v' <;> cases CML.mergeCheck c rest (b.erase k) <;>
            simp [CML.skel]
  theorem CML.mergeLanes_skel (c c' : Bool) : (a b : CML) →
      (CML.mergeLanes c a b).map CML.skel = CML.mergeLanes c' a.skel b.skel
    | .nil, b => by cases b <;> simp [CML.mergeLanes, CML.skel]
    | .cons k v rest, b => by
        cases b with
        | nil => simp [CML.mergeLanes, CML.skel]
        | cons k' v' rest' =>
          simp only [CML.mergeLanes, CML.skel]
          rw [← CM.mergeCheck_skel c c' v v', ← CML.mergeLanes_skel c c' rest rest']
          cases CM.mergeCheck c v v' <;> cases CML.mergeLanes c rest rest' <;> simp [CML.skel]
end

section Skel
variable {R : Type} [Zero R] [Add R] [Neg R] (P : Prims R)

omit [Zero R] [Add R] [Neg R] in
private theorem lanes_choices_skel (p : Tr R → Prop) (coh : List Val → Tr R → Prop)
    (axes : List Bool) (args : List Val) (s : Option CM)
    (h : ∀ a t, p t → coh a t → t.choices.map CM.skel = s) :
    ∀ (l : TrL R) (i : Nat), lanesCanon p l → lanesCoh coh axes args i l.toList →
      l.choices.map CML.skel = skelLanes l.toList.length s
  | .nil, i, _, _ => by simp [TrL.choices, TrL.toList, skelLanes, CML.skel]
  | .cons k t rest, i, hc, hl => by
      simp only [lanesCanon] at hc
      obtain ⟨rfl, hp, hc'⟩ := hc
      simp only [TrL.toList, lanesCoh] at hl
      have h1 := h _ t hp hl.1
      have h2 := lanes_choices_skel p coh axes args s h rest (i + 1) hc' hl.2
      simp only [TrL.choices, TrL.toList, List.length_cons, skelLanes]
      rw [← h2, ← h1]
      cases t.choices <;> cases rest.choices <;> simp [CML.skel]

omit [Zero R] [Add R] [Neg R] in
private theorem steps_choices_skel (p : Tr R → Prop) (coh : List Val → Tr R → Prop)
    (xs : Val) (s : Option CM)
    (h : ∀ a t, p t → coh a t → t.choices.map CM.skel = s) :
    ∀ (l : TrL R) (c : Val) (i : Nat) (c' : Val), lanesCanon p l →
      stepsCoh coh xs c i l.toList c' → l.choices.map CML.skel = skelLanes l.toList.length s
  | .nil, c, i, c', _, _ => by simp [TrL.choices, TrL.toList, skelLanes, CML.skel]
  | .cons k t rest, c, i, c', hc, hl => by
      simp only [lanesCanon] at hc
      obtain ⟨rfl, hp, hc'⟩ := hc
      simp only [TrL.toList, stepsCoh] at hl
      have h1 := h _ t hp hl.1
      have h2 := steps_choices_skel p coh xs s h rest _ (i + 1) c' hc' hl.2
      simp only [TrL.choices, TrL.toList, List.length_cons, skelLanes]
      rw [← h2, ← h1]
      cases t.choices <;> cases rest.choices <;> simp [CML.skel]

mutual
  theorem canon_choices_skel_gf : (g : GF) → ∀ (args : List Val) (t : Tr R),
      g.Canon t → g.Coh P args t → t.choices.map CM.skel = g.skel
    | .dist d, args, t, hc, h => by
        cases t <;> simp only [GF.Coh] at h
        simp [Tr.choices, GF.skel, CM.skel]
    | .fn body, args, t, hc, h => by
        cases t <;> simp only [GF.Coh] at h
        rename_i subs r s
        simp only [GF.Canon] at hc
        have := canon_choices_skel_body body args subs subs hc h.1 (fun _ _ => rfl)
        simp only [Tr.choices, GF.skel, ← this, Option.map_map]
        rfl
    | .vmap g axes n, args, t, hc, h => by
        cases t <;> simp only [GF.Coh] at h
        rename_i lanes
        simp only [GF.Canon] at hc
        have := lanes_choices_skel (fun t => g.Canon t) (fun a t => g.Coh P a t) axes args g.skel
          (fun a t hp hq => canon_choices_skel_gf g a t hp hq) lanes 0 hc h.2
        rw [h.1] at this
        simp only [Tr.choices, GF.skel, ← this, Option.map_map]
        rfl
    | .scan g n, args, t, hc, h => by
        cases t <;> simp only [GF.Coh] at h
        rename_i steps c
        simp only [GF.Canon] at hc
        have := steps_choices_skel (fun t => g.Canon t) (fun a t => g.Coh P a t)
          (args.getD 1 .nil) g.skel
          (fun a t hp hq => canon_choices_skel_gf g a t hp hq) steps _ 0 c hc h.2
        rw [h.1] at this
        simp only [Tr.choices, GF.skel, ← this, Option.map_map]
        rfl
    | .cond tg fg, args, t, hc, h => by
        cases t <;> simp only [GF.Coh] at h
        rename_i c a b
        simp only [GF.Canon] at hc
        have h1 := canon_choices_skel_gf tg _ a hc.1 h.2.1
        have h2 := canon_choices_skel_gf fg _ b hc.2 h.2.2
        simp only [Tr.choices, GF.skel, ← h1, ← h2]
        cases a.choices <;> cases b.choices <;> simp [CM.mergeCheck_skel c true]
  theorem canon_choices_skel_body : (b : Body) → ∀ (env : List Val) (full tl : TrL R),
      b.CanonL tl → b.Coh P env full → (∀ a ∈ b.addrs, full.find? a = tl.find? a) →
      tl.choices.map CML.skel = b.skel
    | .ret e, env, full, tl, hc, h, hf => by
        cases tl <;> simp only [Body.CanonL] at hc
        simp [TrL.choices, Body.skel, CML.skel]
    | .call addr g es rest, env, full, tl, hc, h, hf => by
        cases tl <;> simp only [Body.CanonL] at hc
        rename_i k t tl'
        obtain ⟨rfl, hgc, hrc⟩ := hc
        simp only [Body.Coh] at h
        obtain ⟨hnot, t', hft, hgh, hrh⟩ := h
        have : full.find? k = some t := by
          rw [hf k (by simp [Body.addrs])]; simp [TrL.find?]
        rw [this] at hft
        cases hft
        have h1 := canon_choices_skel_gf g _ t hgc hgh
        have h2 := canon_choices_skel_body rest _ full tl' hrc hrh (by
          intro a ha
          rw [hf a (by simp [Body.addrs, ha])]
          have : a ≠ k := by rintro rfl; exact hnot ha
          simp [TrL.find?, this])
        simp only [TrL.choices, Body.skel, ← h1, ← h2]
        cases t.choices <;> cases tl'.choices <;> simp [CML.skel]
end

/-- For a coherent trace in the shape the operations build (`GF.Canon`), the skeleton of the choice
    map is the program's static skeleton — as partial values: `get_choices()` raises exactly when
    the program has no skeleton (some Cond has branches that cannot be merged). -/
theorem canon_choices_skel (g : GF) (args : List Val) (t : Tr R) (hc : g.Canon t)
    (h : g.Coh P args t) : t.choices.map CM.skel = g.skel :=
  canon_choices_skel_gf P g args t hc h

theorem canon_choices_some (g : GF) (args : List Val) (t : Tr R) (hc : g.Canon t)
    (h : g.Coh P args t) (hs : g.skel.isSome) : ∃ x, t.choices = some x := by
  have := canon_choices_skel P g args t hc h
  cases ht : t.choices with
  | none => rw [ht] at this; rw [← this] at hs; simp at hs
  | some x => exact ⟨x, rfl⟩

theorem canon_choices_none (g : GF) (args : List Val) (t : Tr R) (hc : g.Canon t)
    (h : g.Coh P args t) (hs : g.skel = none) : t.choices = none := by
  have := canon_choices_skel P g args t hc h
  rw [hs] at this
  simpa using this

end Skel

/-! ## 6. the traces built by the operations -/

section OpsSkel
variable {R : Type} [AddCommGroup R] (P : Prims R) (cfg : Cfg)

/-- `simulate`: the trace's choice map has the program's skeleton (in particular it exists iff the
    program's skeleton exists) -/
theorem simulate_choices_skel (g : GF) (args : List Val) (t : Tr R)
    (h : g.simulate P args = some t) : t.choices.map CM.skel = g.skel :=
  canon_choices_skel P g args t (simulate_canon P g args t h) (simulate_coh P g args t h)

theorem generate_choices_skel (g : GF) (x : Option CM) (args : List Val) (t : Tr R) (w : R)
    (h : g.generate P cfg x args = some (t, w)) : t.choices.map CM.skel = g.skel :=
  canon_choices_skel P g args t (generate_canon P cfg g x args t w h)
    (generate_coh P cfg g x args t w h)

theorem update_choices_skel (g : GF) (t : Tr R) (x : Option CM) (args : List Val) (t' : Tr R)
    (w : R) (d : Option CM) (h : g.update P cfg t x args = some (t', w, d)) :
    t'.choices.map CM.skel = g.skel :=
  canon_choices_skel P g args t' (update_canon P cfg g t x args t' w d h)
    (update_coh P cfg g t x args t' w d h)

theorem regenerate_choices_skel (g : GF) (t : Tr R) (s : Sel) (args : List Val) (t' : Tr R)
    (w : R) (d : Option CM) (h : g.regenerate P cfg t s args = some (t', w, d)) :
    t'.choices.map CM.skel = g.skel :=
  canon_choices_skel P g args t' (regenerate_canon P cfg g t s args t' w d h)
    (regenerate_coh P cfg g t s args t' w d h)

/-- canonical shape is preserved by any finite history of update / regenerate steps -/
theorem history_canon (g : GF) (t : Tr R) (a : List Val) (ht : g.Canon t) (ops : List Op)
    (t' : Tr R) (a' : List Val) (h : applyOps P cfg g t a ops = some (t', a')) : g.Canon t' := by
  induction ops generalizing t a with
  | nil =>
    simp only [applyOps, Option.some.injEq, Prod.mk.injEq] at h
    obtain ⟨rfl, rfl⟩ := h; exact ht
  | cons op ops ih =>
    simp only [applyOps] at h
    split at h
    · rename_i t1 a1 w1 hop
      refine ih t1 a1 ?_ h
      cases op with
      | update x args =>
        simp only [applyOp, Option.map_eq_some_iff, Prod.mk.injEq] at hop
        obtain ⟨⟨t2, w2, d2⟩, hu, rfl, rfl, _⟩ := hop
        exact update_canon P cfg g t x _ _ _ _ hu
      | regenerate s args =>
        simp only [applyOp, Option.map_eq_some_iff, Prod.mk.injEq] at hop
        obtain ⟨⟨t2, w2, d2⟩, hu, rfl, rfl, _⟩ := hop
        exact regenerate_canon P cfg g t s _ _ _ _ hu
    · exact absurd h (by simp)

theorem history_choices_skel (g : GF) (t : Tr R) (a : List Val) (hc : g.Canon t)
    (ht : g.Coh P a t) (ops : List Op) (t' : Tr R) (a' : List Val)
    (h : applyOps P cfg g t a ops = some (t', a')) : t'.choices.map CM.skel = g.skel :=
  canon_choices_skel P g a' t' (history_canon P cfg g t a hc ops t' a' h)
    (history_coh P cfg g t a ht ops t' a' h)

omit [AddCommGroup R] in
/-- a choice map exists iff its skeleton does -/
theorem choices_of_skel {t : Tr R} {s : Option CM} (h : t.choices.map CM.skel = s)
    (hs : s.isSome) : ∃ x, t.choices = some x := by
  cases ht : t.choices with
  | none => rw [ht] at h; rw [← h] at hs; simp at hs
  | some x => exact ⟨x, rfl⟩

end OpsSkel

/-! ## a concrete instance for the non-vacuity examples in Props/C01, C02, C03, C05 -/

/-- a concrete primitive family with integer log densities -/
def condExP : Prims ℤ where
  lp := fun d _ v => (d : ℤ) + 2 * v.toRat.num
  draw := fun d _ => .num ((d + 3 : Nat) : Rat)

/-- `cond(check, fn: x ~ d1(a); return x, fn: x ~ d2(); y ~ d5(x); return x + y)`:
    two Fn branches sharing the address `"x"` -/
def condExG : GF :=
  .cond (.fn (.call "x" (.dist 1) [.var 0] (.ret (.var 1))))
        (.fn (.call "x" (.dist 2) [] (.call "y" (.dist 5) [.var 1] (.ret (.add (.var 1) (.var 2))))))

/-- a scan step `cond(carry, …, …)`: the carry returned by one branch selects the other branch
    at the next step -/
def condExStep : GF :=
  .cond (.fn (.call "x" (.dist 1) [.var 0] (.ret (.pair (.const 0) (.var 1)))))
        (.fn (.call "x" (.dist 2) [] (.call "y" (.dist 5) [.var 1]
          (.ret (.pair (.const 1) (.add (.var 1) (.var 2)))))))

/-- Cond at depth: a Fn calling a Scan of a Cond and a Vmap of a Cond of a Cond -/
def condExDeep : GF :=
  .fn (.call "s" (.scan condExStep 3) [.const 1, .var 0]
      (.call "v" (.vmap (.cond condExG (.fn (.call "x" (.dist 3) [] (.ret (.var 1)))))
            [true, false, false] 2)
          [.var 1, .const 1, .sumv (.var 2)]
        (.ret (.var 3))))

def condExDeepArgs : List Val := [Val.ofList [.num 7, .num 8, .num 9], Val.ofList [.num 0, .num 1]]

/-- executable form of "simulate succeeds, the trace has a choice map, and `assess` on it returns
    `(-score, retval)`" (so that large instances can be checked by kernel evaluation) -/
def simulateAssessCheck (P : Prims ℤ) (g : GF) (args : List Val) : Bool :=
  match g.simulate P args with
  | some t =>
    match t.choices with
    | some x => decide (g.assess P x args = some (-t.score, t.retval))
    | none => false
  | none => false

theorem simulateAssessCheck_iff (P : Prims ℤ) (g : GF) (args : List Val) :
    simulateAssessCheck P g args = true ↔
      ∃ t x, g.simulate P args = some t ∧ t.choices = some x ∧
        g.assess P x args = some (-t.score, t.retval) := by
  unfold simulateAssessCheck
  cases hs : g.simulate P args with
  | none => simp
  | some t =>
    cases hx : t.choices with
    | none => simp [hx]
    | some x => simp [hx]

end Genjax
