import GenjaxModel.Proofs.GfiLawTotal
/-!
  The law of `simulate`, in the forms used by `Props/C01.lean`, and concrete instances for the
  non-vacuity examples (exact rational arithmetic).
-/
namespace Genjax
open Smc Smc.FinDist

section Main
variable {K : Type} [Field K]

/-- the probability `assessP` assigns to a choice map (0 when it raises) -/
def pmassOf (o : Option (K × Val)) : K :=
  match o with
  | none => 0
  | some pr => pr.1

theorem massOf_one (o : Option (K × Val)) : massOf o (fun _ => 1) = pmassOf o := by
  cases o with
  | none => rfl
  | some pr => simp [massOf, pmassOf]

section CondFree
variable {R : Type} [Zero R] [Add R] [Neg R] (pd : PD K) (P : Prims R)

/-- the law for Cond-free programs; the only hypothesis on the primitives is `pd.WF` -/
theorem simD_law_condFree (hpd : pd.WF) (g : GF) (hcf : g.condFree = true) (args : List Val)
    (x : CM) (ψ : Val → K) (hs : g.skel = some x.skel) :
    E (g.simD pd P args) (optK (choicesAre x ψ)) = massOf (g.assessP pd x args) ψ :=
  law_gf pd P hpd g (condFree_lawHyp_gf pd P g hcf) args x ψ hs

end CondFree

variable {R : Type} [AddCommGroup R] (pd : PD K) (P : Prims R)

/-- the law for every program whose Conds are `condOK` -/
theorem simD_law (hpd : pd.WF) (hnorm : pd.Normalised) (g : GF) (hc : g.condOK = true)
    (args : List Val) (x : CM) (ψ : Val → K) (hs : g.skel = some x.skel) :
    E (g.simD pd P args) (optK (choicesAre x ψ)) = massOf (g.assessP pd x args) ψ :=
  law_gf pd P hpd g (lawHyp_of_condOK_gf pd P hnorm g hc) args x ψ hs

/-- choice maps that do not have the program's static shape have probability 0 -/
theorem simD_law_off_shape (g : GF) (args : List Val) (x : CM) (ψ : Val → K)
    (hs : g.skel ≠ some x.skel) : E (g.simD pd P args) (optK (choicesAre x ψ)) = 0 := by
  rw [← E_optK_zero (g.simD pd P args)]
  apply E_optK_congr
  intro t ht
  have := simD_choices_skel pd P g args t ht
  simp only [choicesAre]
  rw [if_neg]
  intro hx
  rw [hx] at this
  exact hs this.symm

/-- never raising, as an expectation: the successful outcomes carry all the mass -/
theorem simD_mass_some (hnorm : pd.Normalised) (g : GF) (hn : g.noCollide = true)
    (args : List Val) : E (g.simD pd P args) (optK fun _ => (1 : K)) = 1 := by
  have h1 := simD_mass pd P hnorm g args
  unfold mass at h1
  refine Eq.trans ?_ h1
  apply E_congr_supp
  intro o ho
  cases o with
  | none => exact absurd ho (simD_nofail pd P g hn args)
  | some t => rfl

end Main

/-! ## concrete instances (exact rationals) -/

/-- primitives on `Rat`:
    `d = 0`: coin on `{0, 1}` with `P(1) = params[0]`;
    `d ≥ 1`: three values `{0, 1, 2}` with masses `1/2, 1/3, 1/6` -/
def lawExPD : PD Rat where
  support := fun d _ => match d with
    | 0 => [.num 0, .num 1]
    | _ => [.num 0, .num 1, .num 2]
  pm := fun d a v => match d with
    | 0 =>
      let p := (a.getD 0 .nil).toRat
      if v = .num 1 then p else if v = .num 0 then 1 - p else 0
    | _ => if v = .num 0 then 1/2 else if v = .num 1 then 1/3 else if v = .num 2 then 1/6 else 0

/-- scores are irrelevant for the law: any log density will do -/
def lawExP : Prims Int := ⟨fun d _ v => (d : Int) + v.toRat.num, fun _ _ => .num 0⟩

theorem lawExPD_wf : lawExPD.WF := by
  constructor
  · intro d a
    cases d <;> simp [lawExPD]
  · intro d a v hv
    cases d with
    | zero =>
      simp only [lawExPD, List.mem_cons, List.not_mem_nil, or_false, not_or] at hv
      simp [lawExPD, hv.1, hv.2]
    | succ n =>
      simp only [lawExPD, List.mem_cons, List.not_mem_nil, or_false, not_or] at hv
      simp [lawExPD, hv.1, hv.2.1, hv.2.2]

theorem lawExPD_normalised : lawExPD.Normalised := by
  intro d a
  cases d with
  | zero =>
    simp [lawExPD, sumK]
  | succ n =>
    simp [lawExPD, sumK]
    norm_num

/-- two sites, the second depends on the first (one argument, unused):
    `x ~ coin(1/3); y ~ coin(1/4 + x/2); return x + y` -/
def lawExG : GF :=
  .fn (.call "x" (.dist 0) [.const (1/3)]
      (.call "y" (.dist 0) [.add (.const (1/4)) (.mul (.var 1) (.const (1/2)))]
        (.ret (.add (.var 1) (.var 2)))))

def lawExX (x y : Rat) : CM :=
  .node (.cons "x" (.leaf (.num x)) (.cons "y" (.leaf (.num y)) .nil))

/-- a Scan over a Vmap: the carry is the running sum; each step draws two lanes, lane `j` a coin with
    `P(1) = (carry + xs[i] + j) / 8`, and returns (carry + sum of the lanes, the lanes) -/
def lawExStep : GF :=
  .fn (.call "v" (.vmap (.dist 0) [true] 2)
        [.pair (.mul (.add (.var 0) (.var 1)) (.const (1/8)))
               (.mul (.add (.add (.var 0) (.var 1)) (.const 1)) (.const (1/8)))]
      (.ret (.pair (.add (.var 0) (.sumv (.var 2))) (.var 2))))

def lawExScan : GF := .scan lawExStep 2

def lawExScanArgs : List Val := [.num 1, Val.ofList [.num 1, .num 2]]

def lawExLane (a b : Rat) : CM :=
  .node (.cons "v" (.lanes (.cons "" (.leaf (.num a)) (.cons "" (.leaf (.num b)) .nil))) .nil)

def lawExScanX (a b c d : Rat) : CM :=
  .lanes (.cons "" (lawExLane a b) (.cons "" (lawExLane c d) .nil))

/-- a Cond whose branches have the same shape (address `"x"`) and different distributions -/
def lawExCond : GF :=
  .cond (.fn (.call "x" (.dist 0) [.const (1/3)] (.ret (.var 0))))
        (.fn (.call "x" (.dist 1) [] (.ret (.add (.var 0) (.const 10)))))

/-- a Cond whose branches have DIFFERENT shapes: `{x}` against `{x, y}` -/
def lawExCondBad : GF :=
  .cond (.fn (.call "x" (.dist 0) [.const (1/2)] (.ret (.var 0))))
        (.fn (.call "x" (.dist 0) [.const (1/2)] (.call "y" (.dist 0) [.const (1/2)] (.ret (.var 0)))))

/-- for a Cond with branches of different shapes the law FAILS: the merged choice map
    `{x: 1, y: 1}` of `lawExCondBad` (true branch selected) has probability
    `P(x = 1 in the true branch) · P(y = 1 in the hidden false branch) = 1/4`, whereas `assess`
    reports the density of the selected branch alone, `1/2` (and summing `assess` over the four
    merged maps gives 2, not 1) -/
theorem simD_law_fails_on_mixed_cond :
    lawExCondBad.skel = some (lawExX 1 1).skel ∧
    E (lawExCondBad.simD lawExPD lawExP [.num 1]) (optK (choicesAre (lawExX 1 1) fun _ => 1)) = 1/4 ∧
    lawExCondBad.assessP lawExPD (lawExX 1 1) [.num 1] = some (1/2, .num 1) := by
  refine ⟨by decide +kernel, by decide +kernel, by decide +kernel⟩

end Genjax
