import GenjaxModel.Model.ViElbo
import GenjaxModel.Proofs.GfiGenSum
import GenjaxModel.Proofs.GfiAssessCond
import GenjaxModel.Proofs.GfiCohInv
import GenjaxModel.Proofs.Adev
import Mathlib.Algebra.BigOperators.Group.Finset.Basic
/-!
  C17: the ELBO objective of `elbo_factory` in terms of the generative-function model
  (`Model/ViElbo.lean`).

  1. `elbo_value`            per draw: objective = assess(merged).1 + score = log p(x,z) − log q(z)
  2. merge precedence        what `merge(constraint, z)` holds at every address; `assess` reads the
                             choice map only through `find?`, so it sees exactly (x, z)
  3. `elbo_E_fn`             E over `q.simD` of any function of the linear-domain ratio is the finite
                             sum Σ_z q(z) · g(p(x,z)/q(z))     (via the law of `simulate`, C01)
     `elbo_unbiased`         importance-sampling identity  E_q[p(x,z)/q(z)] = Σ_z p(x,z)
     `elbo_expect_log`       E_q[log p/q] = Σ_z q(z) (log p(x,z) − log q(z))
  4. `elbo_tight_at_posterior`  q(z) = p(x,z)/p(x)  ⇒  EVERY draw's ratio is p(x)
  5. `elbo_le_log_evidence`  E_q[log p/q] ≤ log Σ_z p(x,z)   (real logarithm, Gibbs' inequality)
  6. `elbo_exp`              tie of the log-domain objective to the linear-domain ratio
-/
namespace Genjax.Vi
open Genjax Smc Smc.FinDist

/-! ## 1. the value of one draw (log domain) -/

section Value
variable {R : Type} [AddCommGroup R] (P : Prims R)

/-- Per draw, for a coherent trace `t` of the family (every trace `simulate` / `simD` builds is
    coherent): the objective is `assess(merge(constraint, z)).1 + score(t)`, the family's `assess`
    accepts `z`, and `score(t) = −(log q(z))`, so the objective is `log p(x,z) − log q(z)`. -/
theorem elbo_value (p : GF) (pargs : List Val) (q : GF) (qargs : List Val) (xobs : CM) (t : Tr R)
    (hcoh : q.Coh P qargs t) (z : CM) (hz : t.choices = some z) (m : CM)
    (hm : CM.mergeNoCheck xobs z = some m) (lp : R) (r : Val)
    (hp : p.assess P m pargs = some (lp, r)) :
    elboDraw P p pargs xobs t = some (lp + t.score) ∧
    ∃ lq, q.assess P z qargs = some (lq, t.retval) ∧ t.score = -lq ∧ lp + t.score = lp - lq := by
  refine ⟨by simp [elboDraw, hz, hm, hp], -t.score, ?_, ?_, ?_⟩
  · exact coh_assess P q qargs t hcoh z hz
  · simp
  · simp [sub_eq_add_neg]

/-- conversely: whenever the objective is defined it has that form -/
theorem elbo_value_of_some (p : GF) (pargs : List Val) (q : GF) (qargs : List Val) (xobs : CM)
    (t : Tr R) (hcoh : q.Coh P qargs t) (v : R) (h : elboDraw P p pargs xobs t = some v) :
    ∃ z m lp r lq, t.choices = some z ∧ CM.mergeNoCheck xobs z = some m ∧
      p.assess P m pargs = some (lp, r) ∧ q.assess P z qargs = some (lq, t.retval) ∧
      v = lp - lq := by
  simp only [elboDraw, Option.bind_eq_bind, Option.pure_def, Option.bind_eq_some_iff,
    Option.some.injEq] at h
  obtain ⟨z, hz, m, hm, ⟨lp, r⟩, hp, rfl⟩ := h
  obtain ⟨_, lq, hq, _, he⟩ := elbo_value P p pargs q qargs xobs t hcoh z hz m hm lp r hp
  exact ⟨z, m, lp, r, lq, hz, hm, hp, hq, he⟩

/-- the body of `elbo` run with the probe sampler -/
theorem elbo_value_simulate (p : GF) (pargs : List Val) (q : GF) (qargs : List Val) (xobs : CM)
    (t : Tr R) (ht : q.simulate P qargs = some t) (z : CM) (hz : t.choices = some z) (m : CM)
    (hm : CM.mergeNoCheck xobs z = some m) (lp : R) (r : Val)
    (hp : p.assess P m pargs = some (lp, r)) :
    elboSim P p pargs q qargs xobs = some (lp + t.score) ∧
    ∃ lq, q.assess P z qargs = some (lq, t.retval) ∧ lp + t.score = lp - lq := by
  obtain ⟨h1, lq, h2, _, h3⟩ :=
    elbo_value P p pargs q qargs xobs t (simulate_coh P q qargs t ht) z hz m hm lp r hp
  refine ⟨?_, lq, h2, h3⟩
  simp only [elboSim, ht, Option.bind_eq_bind, Option.bind_some]
  exact h1

end Value

/-! ## 2. merge precedence -/

section Merge

/-- what `Fn.merge(x, x_)` (no check) leaves at an address, from what the two sides carry there:
    two dicts merge recursively, otherwise the SECOND side wins, keys of one side only are kept -/
def mergeAt : Option CM → Option CM → Option CM
  | some (.node u), some (.node v) => (CML.mergeNoCheck u v).map .node
  | _, some v => some v
  | u, none => u

theorem mergeAt_none_right (u : Option CM) : mergeAt u none = u := by
  cases u with
  | none => rfl
  | some c => cases c <;> rfl

theorem mergeAt_none_left (v : Option CM) : mergeAt none v = v := by
  cases v <;> rfl

/-- on a shared address whose values are not both dicts the second side wins -/
theorem mergeAt_second_wins (c c' : CM) (h : ∀ u v, c = .node u → c' = .node v → False) :
    mergeAt (some c) (some c') = some c' := by
  cases c with
  | node u =>
    cases c' with
    | node v => exact (h u v rfl rfl).elim
    | leaf _ => rfl
    | lanes _ => rfl
  | leaf _ => rfl
  | lanes _ => rfl

theorem CML.find?_erase_ne : ∀ (b : CML) (a k : String), k ≠ a →
    (b.erase a).find? k = b.find? k
  | .nil, a, k, _ => by simp [CML.erase]
  | .cons k' v rest, a, k, h => by
    simp only [CML.erase]
    by_cases h1 : a = k'
    · subst h1
      simp [CML.find?, h]
    · simp only [h1, if_false, CML.find?]
      rw [CML.find?_erase_ne rest a k h]

/-- **merge precedence, address by address**: whatever `merge(a, b)` returns holds at every address
    `k` exactly `mergeAt (a at k) (b at k)` -/
theorem CML.find?_mergeNoCheck : ∀ (a b m : CML), CML.mergeNoCheck a b = some m →
    ∀ k, m.find? k = mergeAt (a.find? k) (b.find? k)
  | .nil, b, m, h, k => by
    simp only [CML.mergeNoCheck, Option.some.injEq] at h
    subst h
    simp only [CML.find?, mergeAt_none_left]
  | .cons k' v rest, b, m, h, k => by
    simp only [CML.mergeNoCheck] at h
    cases hb : b.find? k' with
    | none =>
      simp only [hb, Option.bind_eq_bind, Option.pure_def, Option.bind_eq_some_iff,
        Option.some.injEq] at h
      obtain ⟨r, hr, rfl⟩ := h
      have ih := CML.find?_mergeNoCheck rest b r hr k
      simp only [CML.find?]
      by_cases hk : k = k'
      · subst hk
        simp only [if_true, hb, mergeAt_none_right]
      · simp only [hk, if_false, ih]
    | some v' =>
      simp only [hb] at h
      by_cases hk : k = k'
      · subst hk
        simp only [CML.find?, if_true, hb]
        split at h
        · simp only [Option.bind_eq_bind, Option.pure_def, Option.bind_eq_some_iff,
            Option.some.injEq] at h
          obtain ⟨mm, hmm, r, hr, rfl⟩ := h
          simp [CML.find?, mergeAt, hmm]
        · rename_i hnn
          simp only [Option.bind_eq_bind, Option.pure_def, Option.bind_eq_some_iff,
            Option.some.injEq] at h
          obtain ⟨r, hr, rfl⟩ := h
          simp only [CML.find?, if_true]
          exact (mergeAt_second_wins v v' (fun u w hu hw => hnn u w hu hw)).symm
      · have key : ∃ c r, CML.mergeNoCheck rest (b.erase k') = some r ∧ m = .cons k' c r := by
          split at h
          · simp only [Option.bind_eq_bind, Option.pure_def, Option.bind_eq_some_iff,
              Option.some.injEq] at h
            obtain ⟨mm, hmm, r, hr, rfl⟩ := h
            exact ⟨_, r, hr, rfl⟩
          · simp only [Option.bind_eq_bind, Option.pure_def, Option.bind_eq_some_iff,
              Option.some.injEq] at h
            obtain ⟨r, hr, rfl⟩ := h
            exact ⟨_, r, hr, rfl⟩
        obtain ⟨c, r, hr, rfl⟩ := key
        have ih := CML.find?_mergeNoCheck rest (b.erase k') r hr k
        simp only [CML.find?, hk, if_false, ih, CML.find?_erase_ne b k' k hk]

/-- disjoint address sets: `merge` does not raise -/
theorem CML.mergeNoCheck_disjoint_some : ∀ (a b : CML),
    (∀ k, (a.find? k).isSome → b.find? k = none) → ∃ m, CML.mergeNoCheck a b = some m
  | .nil, b, _ => ⟨b, by simp [CML.mergeNoCheck]⟩
  | .cons k' v rest, b, h => by
    have hb : b.find? k' = none := h k' (by simp [CML.find?])
    obtain ⟨r, hr⟩ := CML.mergeNoCheck_disjoint_some rest b (fun k hk => h k (by
      simp only [CML.find?]
      split
      · rfl
      · exact hk))
    exact ⟨.cons k' v r, by simp [CML.mergeNoCheck, hb, hr]⟩

/-- **disjoint address sets** (observed addresses in the constraint, latent ones in the family's
    choices): `merge(constraint, z)` does not raise, agrees with the constraint on every observed
    address and with `z` on every other address -/
theorem merge_disjoint (xs zs : CML) (hdis : ∀ k, (xs.find? k).isSome → zs.find? k = none) :
    ∃ m, CM.mergeNoCheck (.node xs) (.node zs) = some (.node m) ∧
      (∀ k, (xs.find? k).isSome → m.find? k = xs.find? k) ∧
      (∀ k, xs.find? k = none → m.find? k = zs.find? k) := by
  obtain ⟨m, hm⟩ := CML.mergeNoCheck_disjoint_some xs zs hdis
  refine ⟨m, by simp [CM.mergeNoCheck, hm], ?_, ?_⟩
  · intro k hk
    rw [CML.find?_mergeNoCheck xs zs m hm k, hdis k hk, mergeAt_none_right]
  · intro k hk
    rw [CML.find?_mergeNoCheck xs zs m hm k, hk, mergeAt_none_left]

/-- **shared address**: where both the constraint and the family's choices carry a value (not both
    dicts) the family's draw wins - the second argument of `merge` takes precedence -/
theorem merge_shared_second_wins (xs zs m : CML) (h : CML.mergeNoCheck xs zs = some m) (k : String)
    (c c' : CM) (hx : xs.find? k = some c) (hz : zs.find? k = some c')
    (hnn : ∀ u v, c = .node u → c' = .node v → False) : m.find? k = some c' := by
  rw [CML.find?_mergeNoCheck xs zs m h k, hx, hz, mergeAt_second_wins c c' hnn]

mutual
  theorem CM.mergeNoCheck_total_aux : (c : CM) → ∀ u, c = .node u → ∀ b,
      ∃ m, CML.mergeNoCheck u b = some m
    | .node u, _, rfl, b => CML.mergeNoCheck_total u b
    | .leaf _, _, h, _ => by cases h
    | .lanes _, _, h, _ => by cases h
  /-- `Fn.merge` of two dicts (no check) never raises, whatever they share -/
  theorem CML.mergeNoCheck_total : (a : CML) → ∀ b, ∃ m, CML.mergeNoCheck a b = some m
    | .nil, b => ⟨b, by simp [CML.mergeNoCheck]⟩
    | .cons k v rest, b => by
      simp only [CML.mergeNoCheck]
      cases hb : b.find? k with
      | none =>
        obtain ⟨r, hr⟩ := CML.mergeNoCheck_total rest b
        exact ⟨.cons k v r, by simp [hr]⟩
      | some v' =>
        obtain ⟨r, hr⟩ := CML.mergeNoCheck_total rest (b.erase k)
        simp only []
        split
        · rename_i a a'
          obtain ⟨mm, hmm⟩ := CM.mergeNoCheck_total_aux (.node a) a rfl a'
          exact ⟨.cons k (.node mm) r, by simp [hr, hmm]⟩
        · exact ⟨.cons k v' r, by simp [hr]⟩
end

/-- the top-level `merge(constraint, z)` of two dicts is defined and is a dict -/
theorem merge_node_total (xs zs : CML) :
    ∃ m, CM.mergeNoCheck (.node xs) (.node zs) = some (.node m) := by
  obtain ⟨m, hm⟩ := CML.mergeNoCheck_total xs zs
  exact ⟨m, by simp [CM.mergeNoCheck, hm]⟩

/-- concatenation of two dicts (the pair "(x, z)" as one map) -/
def CML.app : CML → CML → CML
  | .nil, b => b
  | .cons k v rest, b => .cons k v (CML.app rest b)

theorem CML.find?_app : ∀ (a b : CML) (k : String),
    (CML.app a b).find? k = (a.find? k).or (b.find? k)
  | .nil, b, k => by simp [CML.app, CML.find?]
  | .cons k' v rest, b, k => by
    simp only [CML.app, CML.find?]
    split
    · simp
    · exact CML.find?_app rest b k

section Congr
variable {R : Type} [Zero R] [Add R] (P : Prims R)

/-- the Assess handler reads the choice map only through `find?` -/
theorem Body.assess_congr_find : ∀ (body : Body) (x x' : CML) (env : List Val) (seen : List String),
    (∀ k, x.find? k = x'.find? k) → body.assess P x env seen = body.assess P x' env seen
  | .ret e, x, x', env, seen, _ => by simp [Body.assess]
  | .call addr g es rest, x, x', env, seen, h => by
    simp only [Body.assess, h addr]
    split
    · rfl
    · cases x'.find? addr with
      | none => rfl
      | some sub =>
        simp only []
        cases g.assess P sub (es.map (·.eval env)) with
        | none => rfl
        | some lr =>
          simp only [Option.bind_eq_bind, Option.bind_some]
          rw [Body.assess_congr_find rest x x' (env ++ [lr.2]) (addr :: seen) h]

end Congr

section CongrP
variable {K : Type} [One K] [Mul K] (pd : PD K)

theorem Body.assessP_congr_find : ∀ (body : Body) (x x' : CML) (env : List Val) (seen : List String),
    (∀ k, x.find? k = x'.find? k) → body.assessP pd x env seen = body.assessP pd x' env seen
  | .ret e, x, x', env, seen, _ => by simp [Body.assessP]
  | .call addr g es rest, x, x', env, seen, h => by
    simp only [Body.assessP, h addr]
    split
    · rfl
    · cases x'.find? addr with
      | none => rfl
      | some sub =>
        simp only []
        cases g.assessP pd sub (es.map (·.eval env)) with
        | none => rfl
        | some lr =>
          simp only [Option.bind_eq_bind, Option.bind_some]
          rw [Body.assessP_congr_find rest x x' (env ++ [lr.2]) (addr :: seen) h]

end CongrP

/-- **the assess call sees exactly (x, z)**: with disjoint address sets the merged map the target is
    assessed on is indistinguishable (for `assess` of an `Fn` target, log and linear domain) from the
    constraint followed by the family's choices -/
theorem merge_assess_sees_xz {R : Type} [Zero R] [Add R] (P : Prims R) {K : Type} [One K]
    [Mul K] (pd : PD K) (xs zs : CML) (hdis : ∀ k, (xs.find? k).isSome → zs.find? k = none) :
    ∃ m, CM.mergeNoCheck (.node xs) (.node zs) = some (.node m) ∧
      ∀ (body : Body) (pargs : List Val),
        (GF.fn body).assess P (.node m) pargs = (GF.fn body).assess P (.node (CML.app xs zs)) pargs ∧
        (GF.fn body).assessP pd (.node m) pargs = (GF.fn body).assessP pd (.node (CML.app xs zs)) pargs := by
  obtain ⟨m, hm, h1, h2⟩ := merge_disjoint xs zs hdis
  have hfind : ∀ k, m.find? k = (CML.app xs zs).find? k := by
    intro k
    rw [CML.find?_app]
    cases hx : xs.find? k with
    | none => rw [h2 k hx]; rfl
    | some c => rw [h1 k (by simp [hx]), hx]; rfl
  refine ⟨m, hm, fun body pargs => ⟨?_, ?_⟩⟩
  · simp only [GF.assess]
    exact Body.assess_congr_find P body _ _ _ _ hfind
  · simp only [GF.assessP]
    exact Body.assessP_congr_find pd body _ _ _ _ hfind

end Merge

/-! ## 3. expectations over the family's draws (linear domain) -/

section Expect
variable {K : Type} [Field K] {R : Type} [AddCommGroup R] (pd : PD K) (P : Prims R)

omit [AddCommGroup R] in
theorem elboRatio_of_choices (p : GF) (pargs : List Val) (q : GF) (qargs : List Val) (xobs : CM)
    (t : Tr R) (z : CM) (hz : t.choices = some z) :
    elboRatio pd p pargs q qargs xobs t = elboRatioZ pd p pargs q qargs xobs z := by
  simp [elboRatio, hz]

/-- **the expectation of any function of the per-draw ratio is a finite sum over the family's choice
    maps**, each weighted with the mass `q.assessP` computes - through the law of `simulate` (C01).
    `Z`: any list of distinct choice maps of the family's static shape that contains every choice
    map `simulate` can produce (`coversB` is an executable check). -/
theorem elbo_E_fn (hpd : pd.WF) (hnorm : pd.Normalised) (p : GF) (pargs : List Val) (q : GF)
    (hc : q.condOK = true) (qargs : List Val) (xobs : CM) (Z : List CM) (hnd : Z.Nodup)
    (hcov : ∀ t, some t ∈ supp (q.simD pd P qargs) → ∃ z ∈ Z, t.choices = some z)
    (hshape : ∀ z ∈ Z, q.skel = some z.skel) (g : Option K → K) :
    E (q.simD pd P qargs) (optK fun t => g (elboRatio pd p pargs q qargs xobs t))
      = sumK (Z.map fun z => pmassOf (q.assessP pd z qargs) * g (elboRatioZ pd p pargs q qargs xobs z)) := by
  rw [E_split_choices _ _ Z hnd hcov]
  congr 1
  apply List.map_congr_left
  intro z hz
  have h1 : E (q.simD pd P qargs)
      (optK fun t => if t.choices = some z then g (elboRatio pd p pargs q qargs xobs t) else 0)
      = E (q.simD pd P qargs)
          (optK fun t => g (elboRatioZ pd p pargs q qargs xobs z) * choicesAre z (fun _ => 1) t) := by
    apply E_optK_congr
    intro t _
    simp only [choicesAre]
    split
    · rename_i h
      rw [elboRatio_of_choices pd p pargs q qargs xobs t z h, mul_one]
    · rw [mul_zero]
  rw [h1, E_optK_mul_left, simD_law pd P hpd hnorm q hc qargs z (fun _ => 1) (hshape z hz),
    massOf_one, mul_comm]

/-- **unbiasedness (importance-sampling identity)**: `E_{z~q}[p(x,z)/q(z)] = Σ_z p(x,z)`, the
    evidence, whenever `q` dominates `p(x,·)` (`q(z) = 0 → p(x,z) = 0` on `Z`).  Guards: `q.assessP`
    is defined on `Z` (`hdef`; implied by `q.noCollide`, see `elbo_unbiased'`); where the target's
    `merge`/`assess` raises both sides count 0. -/
theorem elbo_unbiased (hpd : pd.WF) (hnorm : pd.Normalised) (p : GF) (pargs : List Val) (q : GF)
    (hc : q.condOK = true) (qargs : List Val) (xobs : CM) (Z : List CM) (hnd : Z.Nodup)
    (hcov : ∀ t, some t ∈ supp (q.simD pd P qargs) → ∃ z ∈ Z, t.choices = some z)
    (hshape : ∀ z ∈ Z, q.skel = some z.skel)
    (hdef : ∀ z ∈ Z, (q.assessP pd z qargs).isSome)
    (hac : ∀ z ∈ Z, pmassOf (q.assessP pd z qargs) = 0 →
      (elboJoint pd p pargs xobs z).getD 0 = 0) :
    E (q.simD pd P qargs) (optK fun t => (elboRatio pd p pargs q qargs xobs t).getD 0)
      = sumK (Z.map fun z => (elboJoint pd p pargs xobs z).getD 0) := by
  rw [elbo_E_fn pd P hpd hnorm p pargs q hc qargs xobs Z hnd hcov hshape (fun o => o.getD 0)]
  congr 1
  apply List.map_congr_left
  intro z hz
  have hd := hdef z hz
  have ha := hac z hz
  cases hq : q.assessP pd z qargs with
  | none => simp [hq] at hd
  | some qr =>
    obtain ⟨qq, r⟩ := qr
    cases hj : elboJoint pd p pargs xobs z with
    | none => simp [elboRatioZ, hj]
    | some pp =>
      simp only [hq, hj, pmassOf, Option.getD_some] at ha
      simp only [elboRatioZ, hj, hq, pmassOf, Option.bind_eq_bind, Option.bind_some,
        Option.pure_def, Option.getD_some]
      by_cases h0 : qq = 0
      · rw [ha h0, h0]; simp
      · field_simp

/-- `elbo_unbiased` with the definedness guard discharged from the program: no `Fn` body of the
    family traces an address twice -/
theorem elbo_unbiased' (hpd : pd.WF) (hnorm : pd.Normalised) (p : GF) (pargs : List Val) (q : GF)
    (hn : q.noCollide = true) (hc : q.condOK = true) (qargs : List Val) (xobs : CM) (Z : List CM)
    (hnd : Z.Nodup)
    (hcov : ∀ t, some t ∈ supp (q.simD pd P qargs) → ∃ z ∈ Z, t.choices = some z)
    (hshape : ∀ z ∈ Z, q.skel = some z.skel)
    (hac : ∀ z ∈ Z, pmassOf (q.assessP pd z qargs) = 0 →
      (elboJoint pd p pargs xobs z).getD 0 = 0) :
    E (q.simD pd P qargs) (optK fun t => (elboRatio pd p pargs q qargs xobs t).getD 0)
      = sumK (Z.map fun z => (elboJoint pd p pargs xobs z).getD 0) :=
  elbo_unbiased pd P hpd hnorm p pargs q hc qargs xobs Z hnd hcov hshape
    (fun z hz => assessP_defined pd q hn hc z qargs (hshape z hz)) hac

/-- the masses `q.assessP` assigns to `Z` sum to 1 (the family never raises) -/
theorem elbo_qmass_sum (hpd : pd.WF) (hnorm : pd.Normalised) (q : GF) (hn : q.noCollide = true)
    (hc : q.condOK = true) (qargs : List Val) (Z : List CM) (hnd : Z.Nodup)
    (hcov : ∀ t, some t ∈ supp (q.simD pd P qargs) → ∃ z ∈ Z, t.choices = some z)
    (hshape : ∀ z ∈ Z, q.skel = some z.skel) :
    sumK (Z.map fun z => pmassOf (q.assessP pd z qargs)) = 1 := by
  have h := elbo_E_fn pd P hpd hnorm q [] q hc qargs (.node .nil) Z hnd hcov hshape (fun _ => 1)
  simp only [mul_one] at h
  rw [← h]
  exact simD_mass_some pd P hnorm q hn qargs

/-- **the log-domain expectation** `E_q[log p(x,z) − log q(z)] = Σ_z q(z) (log p(x,z) − log q(z))`
    for an abstract `log` with `log (a / b) = log a − log b` on non-zero arguments - the
    definition-unfolding lemma, plus the law of `simulate`.  Guards: on `Z` the joint and the family's
    mass are defined and non-zero (so that no totalised `0` enters). -/
theorem elbo_expect_log (log : K → K) (hlog : ∀ a b, a ≠ 0 → b ≠ 0 → log (a / b) = log a - log b)
    (hpd : pd.WF) (hnorm : pd.Normalised) (p : GF) (pargs : List Val) (q : GF)
    (hc : q.condOK = true) (qargs : List Val) (xobs : CM) (Z : List CM) (hnd : Z.Nodup)
    (hcov : ∀ t, some t ∈ supp (q.simD pd P qargs) → ∃ z ∈ Z, t.choices = some z)
    (hshape : ∀ z ∈ Z, q.skel = some z.skel)
    (hJ : ∀ z ∈ Z, ∃ pp, elboJoint pd p pargs xobs z = some pp ∧ pp ≠ 0)
    (hQ : ∀ z ∈ Z, ∃ qq r, q.assessP pd z qargs = some (qq, r) ∧ qq ≠ 0) :
    E (q.simD pd P qargs) (optK fun t => (elboRatio pd p pargs q qargs xobs t).elim 0 log)
      = sumK (Z.map fun z => pmassOf (q.assessP pd z qargs) *
          (log ((elboJoint pd p pargs xobs z).getD 0) - log (pmassOf (q.assessP pd z qargs)))) := by
  rw [elbo_E_fn pd P hpd hnorm p pargs q hc qargs xobs Z hnd hcov hshape (fun o => o.elim 0 log)]
  congr 1
  apply List.map_congr_left
  intro z hz
  obtain ⟨pp, hj, hpp⟩ := hJ z hz
  obtain ⟨qq, r, hq, hqq⟩ := hQ z hz
  simp only [elboRatioZ, hj, hq, pmassOf, Option.bind_eq_bind, Option.bind_some, Option.pure_def,
    Option.elim_some, Option.getD_some, hlog pp qq hpp hqq]

end Expect

/-! ## 4. tightness at the posterior -/

section Tight
variable {K : Type} [Field K] (pd : PD K)

/-- **tight at the posterior, per draw**: if the family's mass at the drawn `z` is
    `p(x,z) / p(x)` (stated through the `assessP` masses), the draw's ratio is `p(x)` - by
    `elbo_tight` (`C17_elbo_tight`).  Guards: `p(x,z) ≠ 0`, `p(x) ≠ 0`. -/
theorem elbo_tight_at_posterior {R : Type} (p : GF) (pargs : List Val) (q : GF) (qargs : List Val)
    (xobs : CM) (px : K) (hpx : px ≠ 0) (t : Tr R) (z : CM) (hz : t.choices = some z) (pp : K)
    (hj : elboJoint pd p pargs xobs z = some pp) (hpp : pp ≠ 0)
    (hpost : pmassOf (q.assessP pd z qargs) = pp / px) :
    elboRatio pd p pargs q qargs xobs t = some px := by
  rw [elboRatio_of_choices pd p pargs q qargs xobs t z hz]
  cases hq : q.assessP pd z qargs with
  | none =>
    rw [hq] at hpost
    simp only [pmassOf] at hpost
    exact absurd hpost.symm (div_ne_zero hpp hpx)
  | some qr =>
    rw [hq] at hpost
    simp only [pmassOf] at hpost
    simp only [elboRatioZ, hj, hq, Option.bind_eq_bind, Option.bind_some, Option.pure_def, hpost,
      elbo_tight pp px hpp hpx]

/-- … hence EVERY draw of the family: each trace `simD` can produce has ratio exactly `p(x)` when
    the family's law on `Z` is the posterior `p(x,z)/p(x)` -/
theorem elbo_tight_every_draw {R : Type} [Zero R] [Add R] [Neg R] (P : Prims R) (p : GF)
    (pargs : List Val) (q : GF) (qargs : List Val) (xobs : CM) (px : K) (hpx : px ≠ 0)
    (Z : List CM)
    (hcov : ∀ t, some t ∈ supp (q.simD pd P qargs) → ∃ z ∈ Z, t.choices = some z)
    (hpost : ∀ z ∈ Z, ∃ pp, elboJoint pd p pargs xobs z = some pp ∧ pp ≠ 0 ∧
      pmassOf (q.assessP pd z qargs) = pp / px)
    (t : Tr R) (ht : some t ∈ supp (q.simD pd P qargs)) :
    elboRatio pd p pargs q qargs xobs t = some px := by
  obtain ⟨z, hzZ, hz⟩ := hcov t ht
  obtain ⟨pp, hj, hpp, hpo⟩ := hpost z hzZ
  exact elbo_tight_at_posterior pd p pargs q qargs xobs px hpx t z hz pp hj hpp hpo

end Tight

/-! ## 5. below the log evidence in expectation (real logarithm) -/

section Gibbs
variable {R : Type} [AddCommGroup R] (pd : PD ℝ) (P : Prims R)

theorem sumK_eq_finset_sum {α : Type} [DecidableEq α] (l : List α) (hl : l.Nodup) (f : α → ℝ) :
    sumK (l.map f) = ∑ a ∈ l.toFinset, f a := by
  induction l with
  | nil => simp [sumK]
  | cons a l ih =>
    have hl' := List.nodup_cons.mp hl
    rw [List.map_cons, sumK_cons, List.toFinset_cons, Finset.sum_insert (by simpa using hl'.1),
      ih hl'.2]

/-- **`E_q[log p(x,z)/q(z)] ≤ log Σ_z p(x,z)`** for a family given by `simD` on a finite program:
    `elbo_le_evidence` (`C17_elbo_le_evidence`, Gibbs' inequality) over the finite set `Z` of the
    family's choice maps.  Guards: on `Z` the joint is defined and positive, the family's mass is
    positive; the family never raises (`noCollide`). -/
theorem elbo_le_log_evidence (hpd : pd.WF) (hnorm : pd.Normalised) (p : GF) (pargs : List Val)
    (q : GF) (hn : q.noCollide = true) (hc : q.condOK = true) (qargs : List Val) (xobs : CM)
    (Z : List CM) (hnd : Z.Nodup)
    (hcov : ∀ t, some t ∈ supp (q.simD pd P qargs) → ∃ z ∈ Z, t.choices = some z)
    (hshape : ∀ z ∈ Z, q.skel = some z.skel)
    (hJ : ∀ z ∈ Z, ∃ pp, elboJoint pd p pargs xobs z = some pp ∧ 0 < pp)
    (hQ : ∀ z ∈ Z, 0 < pmassOf (q.assessP pd z qargs)) :
    E (q.simD pd P qargs) (optK fun t => (elboRatio pd p pargs q qargs xobs t).elim 0 Real.log)
      ≤ Real.log (sumK (Z.map fun z => (elboJoint pd p pargs xobs z).getD 0)) := by
  rw [elbo_E_fn pd P hpd hnorm p pargs q hc qargs xobs Z hnd hcov hshape
    (fun o => o.elim 0 Real.log)]
  have hsum := elbo_qmass_sum pd P hpd hnorm q hn hc qargs Z hnd hcov hshape
  rw [sumK_eq_finset_sum Z hnd] at hsum ⊢
  rw [sumK_eq_finset_sum Z hnd]
  have hmain := elbo_le_evidence Z.toFinset (fun z => pmassOf (q.assessP pd z qargs))
    (fun z => (elboJoint pd p pargs xobs z).getD 0)
    (fun z hz => hQ z (List.mem_toFinset.mp hz))
    (fun z hz => by
      obtain ⟨pp, hj, hpp⟩ := hJ z (List.mem_toFinset.mp hz)
      simp only [hj, Option.getD_some]
      exact hpp)
    hsum
  refine le_trans (le_of_eq ?_) hmain
  apply Finset.sum_congr rfl
  intro z hz
  have hzZ := List.mem_toFinset.mp hz
  obtain ⟨pp, hj, _⟩ := hJ z hzZ
  have hq := hQ z hzZ
  cases hqa : q.assessP pd z qargs with
  | none => simp [hqa, pmassOf] at hq
  | some qr =>
    simp only [elboRatioZ, hj, hqa, pmassOf, Option.bind_eq_bind, Option.bind_some,
      Option.pure_def, Option.elim_some, Option.getD_some]

end Gibbs

/-! ## 6. tie of the log-domain objective to the linear-domain ratio -/

section Tie
variable {K : Type} [Field K] {R : Type} [AddCommGroup R] (pd : PD K) (P : Prims R)

/-- If the masses are the exponentials of the log densities (`pm = e ∘ lp` for a map `e` with
    `e 0 = 1`, `e (a + b) = e a · e b` - on a GROUP of log weights this makes every mass non-zero, so
    the tie speaks about strictly positive densities), then for every coherent trace of the family
    `e` of the log-domain objective `elboDraw` is the linear-domain ratio `elboRatio`; either both
    raise or neither. -/
theorem elbo_exp (e : R → K) (he0 : e 0 = 1) (hadd : ∀ a b, e (a + b) = e a * e b)
    (hpm : ∀ d a v, pd.pm d a v = e (P.lp d a v)) (p : GF) (pargs : List Val) (q : GF)
    (qargs : List Val) (xobs : CM) (t : Tr R) (hcoh : q.Coh P qargs t) :
    (elboDraw P p pargs xobs t).map e = elboRatio pd p pargs q qargs xobs t := by
  cases hz : t.choices with
  | none => simp [elboDraw, elboRatio, hz]
  | some z =>
    rw [elboRatio_of_choices pd p pargs q qargs xobs t z hz]
    cases hm : CM.mergeNoCheck xobs z with
    | none => simp [elboDraw, elboRatioZ, elboJoint, hz, hm]
    | some m =>
      have hP := assessP_eq_exp_assess e he0 hadd pd P hpm p m pargs
      have hQ := assessP_eq_exp_assess e he0 hadd pd P hpm q z qargs
      rw [coh_assess P q qargs t hcoh z hz] at hQ
      cases hp : p.assess P m pargs with
      | none =>
        rw [hp] at hP
        simp [elboDraw, elboRatioZ, elboJoint, hz, hm, hp, hP]
      | some lr =>
        rw [hp] at hP
        have hinv : e t.score * e (-t.score) = 1 := by rw [← hadd, add_neg_cancel, he0]
        have hne : e (-t.score) ≠ 0 := fun h0 => by rw [h0, mul_zero] at hinv; exact zero_ne_one hinv
        simp only [elboDraw, elboRatioZ, elboJoint, hz, hm, hp, hP, hQ, Option.map_some,
          Option.bind_eq_bind, Option.bind_some, Option.pure_def, hadd, Option.some.injEq]
        field_simp
        rw [mul_assoc, hinv, mul_one]

end Tie


/-! ## concrete instances for the non-vacuity examples of `Props/C17.lean` -/

section Instances

/-- target: `b ~ coin(1/2); z ~ three(1/2, 1/3, 1/6); y ~ coin(1/8 + b/2 + z/8); return y`
    (primitives `lawExPD`) -/
def elboExP : GF :=
  .fn (.call "b" (.dist 0) [.const (1/2)]
      (.call "z" (.dist 1) []
        (.call "y" (.dist 0)
          [.add (.const (1/8)) (.add (.mul (.var 0) (.const (1/2))) (.mul (.var 1) (.const (1/8))))]
          (.ret (.var 2)))))

/-- family: `b ~ coin(theta); z ~ three; return b` (argument 0 = theta) -/
def elboExQ : GF :=
  .fn (.call "b" (.dist 0) [.var 0] (.call "z" (.dist 1) [] (.ret (.var 1))))

/-- constraint `{y: 1}` -/
def elboExObs : CM := .node (.cons "y" (.leaf (.num 1)) .nil)

def elboExZ1 (b z : Rat) : CM :=
  .node (.cons "b" (.leaf (.num b)) (.cons "z" (.leaf (.num z)) .nil))

/-- the six choice maps of the family -/
def elboExZ : List CM :=
  [elboExZ1 0 0, elboExZ1 0 1, elboExZ1 0 2, elboExZ1 1 0, elboExZ1 1 1, elboExZ1 1 2]

/-- target `b ~ coin(1/2); y ~ coin(1/4 + b/2)`; with `y = 1`: `p(x) = 1/2`, posterior `P(b=1) = 3/4` -/
def tightExP : GF :=
  .fn (.call "b" (.dist 0) [.const (1/2)]
      (.call "y" (.dist 0) [.add (.const (1/4)) (.mul (.var 0) (.const (1/2)))] (.ret (.var 1))))

/-- family `b ~ coin(theta)` -/
def tightExQ : GF := .fn (.call "b" (.dist 0) [.var 0] (.ret (.var 1)))

def tightExZ : List CM :=
  [.node (.cons "b" (.leaf (.num 0)) .nil), .node (.cons "b" (.leaf (.num 1)) .nil)]

/-- a family that ALSO proposes a value at the observed address `y` -/
def sharedExQ : GF :=
  .fn (.call "b" (.dist 0) [.var 0] (.call "y" (.dist 0) [.const (1/4)] (.ret (.var 1))))

/-- a coin over ℝ: `P(1) = params[0]` (a rational, cast) -/
noncomputable def realCoin : PD ℝ where
  support := fun _ _ => [.num 0, .num 1]
  pm := fun _ a v =>
    if v = .num 1 then ((a.getD 0 .nil).toRat : ℝ)
    else if v = .num 0 then 1 - ((a.getD 0 .nil).toRat : ℝ) else 0

theorem realCoin_wf : realCoin.WF := by
  constructor
  · intro d a; simp [realCoin]
  · intro d a v hv
    simp only [realCoin, List.mem_cons, List.not_mem_nil, or_false, not_or] at hv
    simp [realCoin, hv.1, hv.2]

theorem realCoin_normalised : realCoin.Normalised := by
  intro d a
  simp [realCoin, sumK]

/-- the hypotheses of `elbo_le_log_evidence` on `tightExP` / `tightExQ` with `theta = 1/3` over ℝ -/
theorem realCoin_instance :
    (tightExQ.noCollide = true ∧ tightExQ.condOK = true ∧ tightExZ.Nodup) ∧
    (∀ t, some t ∈ supp (tightExQ.simD realCoin lawExP [.num (1/3)]) →
      ∃ z ∈ tightExZ, t.choices = some z) ∧
    (∀ z ∈ tightExZ, tightExQ.skel = some z.skel) ∧
    (∀ z ∈ tightExZ, ∃ pp, elboJoint realCoin tightExP [] elboExObs z = some pp ∧ 0 < pp) ∧
    (∀ z ∈ tightExZ, 0 < pmassOf (tightExQ.assessP realCoin z [.num (1/3)])) := by
  refine ⟨⟨by decide +kernel, by decide +kernel, by decide +kernel⟩, ?_, by decide +kernel, ?_, ?_⟩
  · intro t ht
    simp [tightExQ, GF.simD, Body.simD, bindO, FinDist.bind, pureO, FinDist.pure, supp, realCoin,
      TrL.find?] at ht
    rcases ht with rfl | rfl <;> simp [tightExZ, Tr.choices, TrL.choices, TrL.snoc]
  · intro z hz
    simp only [tightExZ, List.mem_cons, List.not_mem_nil, or_false] at hz
    rcases hz with rfl | rfl
    · simp [elboJoint, elboExObs, CM.mergeNoCheck, CML.mergeNoCheck, CML.find?, tightExP,
        GF.assessP, Body.assessP, realCoin, Expr.eval, Val.toRat]
      norm_num
    · simp [elboJoint, elboExObs, CM.mergeNoCheck, CML.mergeNoCheck, CML.find?, tightExP,
        GF.assessP, Body.assessP, realCoin, Expr.eval, Val.toRat]
      norm_num
  · intro z hz
    simp only [tightExZ, List.mem_cons, List.not_mem_nil, or_false] at hz
    rcases hz with rfl | rfl
    · simp [pmassOf, tightExQ, GF.assessP, Body.assessP, CML.find?, realCoin, Expr.eval, Val.toRat]
      norm_num
    · simp [pmassOf, tightExQ, GF.assessP, Body.assessP, CML.find?, realCoin, Expr.eval, Val.toRat]

end Instances

end Genjax.Vi
