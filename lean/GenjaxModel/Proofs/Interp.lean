import GenjaxModel.Model.Interp
namespace Genjax.Interp

theorem holds_iff_sites (j : J) : j.holds = !j.sites.isEmpty := by
  induction j with
  | done => rfl
  | prim r ih => simpa [J.holds, J.sites] using ih
  | site i r _ => simp [J.holds, J.sites]
  | call k b r ihb ihr =>
    simp only [J.holds, J.sites, ihb, ihr]
    cases b.sites <;> cases r.sites <;> simp

theorem holds_false_sites (j : J) (h : j.holds = false) : j.sites = [] := by
  rw [holds_iff_sites] at h
  simpa using h

/-- when the guarded interpreter returns, it has handled every site of the Jaxpr, each once, in order -/
theorem run_handles_all (j : J) (h : List Nat) (hr : run j = some h) : h = j.sites := by
  induction j generalizing h with
  | done => simp [run] at hr; simp [J.sites, hr]
  | prim r ih => exact ih h (by simpa [run] using hr)
  | site i r ih =>
    simp only [run, Option.map_eq_some_iff] at hr
    obtain ⟨h', hr', rfl⟩ := hr
    simp [J.sites, ih h' hr']
  | call k b r ihb ihr =>
    cases k with
    | rebind =>
      simp only [run] at hr
      split at hr
      · simp at hr
      · rename_i hb
        simp [J.sites, holds_false_sites b (by simpa using hb), ihr h hr]
    | interp =>
      simp only [run, Option.bind_eq_some_iff, Option.map_eq_some_iff] at hr
      obtain ⟨hb, hb', hr2, hr2', rfl⟩ := hr
      simp [J.sites, ihb hb hb', ihr hr2 hr2']
    | inline =>
      simp only [run, Option.bind_eq_some_iff, Option.map_eq_some_iff] at hr
      obtain ⟨hb, hb', hr2, hr2', rfl⟩ := hr
      simp [J.sites, ihb hb hb', ihr hr2 hr2']

/-- it raises exactly when it reaches an opaque equation that holds a site -/
theorem run_none_iff_blocked (j : J) : run j = none ↔ j.blocked = true := by
  induction j with
  | done => simp [run, J.blocked]
  | prim r ih => simpa [run, J.blocked] using ih
  | site i r ih => simpa [run, J.blocked] using ih
  | call k b r ihb ihr =>
    cases k with
    | rebind =>
      simp only [run, J.blocked, Bool.or_eq_true]
      split
      · rename_i hb; simp [hb]
      · rename_i hb; simp [hb, ihr]
    | interp =>
      simp only [run, J.blocked, Bool.or_eq_true, ← ihb, ← ihr]
      cases run b <;> cases run r <;> simp
    | inline =>
      simp only [run, J.blocked, Bool.or_eq_true, ← ihb, ← ihr]
      cases run b <;> cases run r <;> simp

/-- the unguarded interpreter splits the sites into handled and escaped … -/
theorem runOld_partition (j : J) : ((runOld j).1 ++ (runOld j).2).Perm j.sites := by
  induction j with
  | done => simp [runOld, J.sites]
  | prim r ih => simpa [runOld, J.sites] using ih
  | site i r ih => simpa [runOld, J.sites] using ih
  | call k b r ihb ihr =>
    cases k with
    | rebind =>
      simp only [runOld, J.sites]
      have : ((runOld r).1 ++ (b.sites ++ (runOld r).2)).Perm (b.sites ++ ((runOld r).1 ++ (runOld r).2)) := by
        rw [← List.append_assoc, ← List.append_assoc]
        exact List.Perm.append_right _ List.perm_append_comm
      exact this.trans (List.Perm.append_left _ ihr)
    | interp =>
      simp only [runOld, J.sites]
      have : (((runOld b).1 ++ (runOld r).1) ++ ((runOld b).2 ++ (runOld r).2)).Perm
          (((runOld b).1 ++ (runOld b).2) ++ ((runOld r).1 ++ (runOld r).2)) := by
        simp only [List.append_assoc]
        apply List.Perm.append_left
        rw [← List.append_assoc, ← List.append_assoc]
        exact List.Perm.append_right _ List.perm_append_comm
      exact this.trans (List.Perm.append ihb ihr)
    | inline =>
      simp only [runOld, J.sites]
      have : (((runOld b).1 ++ (runOld r).1) ++ ((runOld b).2 ++ (runOld r).2)).Perm
          (((runOld b).1 ++ (runOld b).2) ++ ((runOld r).1 ++ (runOld r).2)) := by
        simp only [List.append_assoc]
        apply List.Perm.append_left
        rw [← List.append_assoc, ← List.append_assoc]
        exact List.Perm.append_right _ List.perm_append_comm
      exact this.trans (List.Perm.append ihb ihr)

/-- … and a site escapes it exactly when the guarded interpreter raises -/
theorem runOld_escapes_iff (j : J) : (runOld j).2 ≠ [] ↔ run j = none := by
  rw [run_none_iff_blocked]
  induction j with
  | done => simp [runOld, J.blocked]
  | prim r ih => simpa [runOld, J.blocked] using ih
  | site i r ih => simpa [runOld, J.blocked] using ih
  | call k b r ihb ihr =>
    cases k with
    | rebind =>
      simp only [runOld, J.blocked, Bool.or_eq_true, ← ihr, holds_iff_sites]
      cases hb : b.sites <;> simp
    | interp =>
      simp only [runOld, J.blocked, Bool.or_eq_true, ← ihb, ← ihr]
      simp only [ne_eq, List.append_eq_nil_iff, not_and]
      by_cases h1 : (runOld b).2 = [] <;> by_cases h2 : (runOld r).2 = [] <;> simp [h1, h2]
    | inline =>
      simp only [runOld, J.blocked, Bool.or_eq_true, ← ihb, ← ihr]
      simp only [ne_eq, List.append_eq_nil_iff, not_and]
      by_cases h1 : (runOld b).2 = [] <;> by_cases h2 : (runOld r).2 = [] <;> simp [h1, h2]

/-- when nothing escapes, both interpreters handle the same sites -/
theorem runOld_eq_run (j : J) (h : run j ≠ none) : run j = some (runOld j).1 := by
  induction j with
  | done => simp [run, runOld]
  | prim r ih => simpa [run, runOld] using ih (by simpa [run] using h)
  | site i r ih =>
    have := ih (by intro hn; apply h; simp [run, hn])
    simp [run, runOld, this]
  | call k b r ihb ihr =>
    cases k with
    | rebind =>
      simp only [run] at h ⊢
      split
      · rename_i hb; simp [hb] at h
      · rename_i hb; simp only [hb] at h; simpa [runOld] using ihr (by simpa using h)
    | interp =>
      have hb : run b ≠ none := by intro hn; apply h; simp [run, hn]
      have hr : run r ≠ none := by
        intro hn; apply h; simp only [run, hn]; cases run b <;> simp
      simp [run, runOld, ihb hb, ihr hr]
    | inline =>
      have hb : run b ≠ none := by intro hn; apply h; simp [run, hn]
      have hr : run r ≠ none := by
        intro hn; apply h; simp only [run, hn]; cases run b <;> simp
      simp [run, runOld, ihb hb, ihr hr]

/-! ### Splicing the bodies of `inline` calls (the ADEV pre-pass, the State rule) changes nothing the interpreter does -/

theorem sites_append (a b : J) : (a.append b).sites = a.sites ++ b.sites := by
  induction a with
  | done => rfl
  | prim r ih => simpa [J.append, J.sites] using ih
  | site i r ih => simp [J.append, J.sites, ih]
  | call k c r _ ihr => simp [J.append, J.sites, ihr, List.append_assoc]

theorem runOld_append (a b : J) :
    runOld (a.append b) = ((runOld a).1 ++ (runOld b).1, (runOld a).2 ++ (runOld b).2) := by
  induction a with
  | done => simp [J.append, runOld]
  | prim r ih => simpa [J.append, runOld] using ih
  | site i r ih => simp [J.append, runOld, ih]
  | call k c r _ ihr =>
    cases k <;> simp [J.append, runOld, ihr, List.append_assoc]

theorem noInline_append (a b : J) (ha : a.noInline = true) (hb : b.noInline = true) :
    (a.append b).noInline = true := by
  induction a with
  | done => simpa [J.append] using hb
  | prim r ih => simpa [J.append, J.noInline] using ih (by simpa [J.noInline] using ha)
  | site i r ih => simpa [J.append, J.noInline] using ih (by simpa [J.noInline] using ha)
  | call k c r _ ihr =>
    cases k with
    | inline => simp [J.noInline] at ha
    | interp =>
      simp only [J.noInline, Bool.and_eq_true] at ha
      simp [J.append, J.noInline, ha.1, ihr ha.2]
    | rebind =>
      simp only [J.noInline] at ha
      simp [J.append, J.noInline, ihr ha]

theorem inlineCalls_noInline (j : J) : j.inlineCalls.noInline = true := by
  induction j with
  | done => rfl
  | prim r ih => simpa [J.inlineCalls, J.noInline] using ih
  | site i r ih => simpa [J.inlineCalls, J.noInline] using ih
  | call k b r ihb ihr =>
    cases k with
    | inline => exact noInline_append _ _ ihb ihr
    | interp => simp [J.inlineCalls, J.noInline, ihb, ihr]
    | rebind => simp [J.inlineCalls, J.noInline, ihr]

theorem inlineCalls_sites (j : J) : j.inlineCalls.sites = j.sites := by
  induction j with
  | done => rfl
  | prim r ih => simpa [J.inlineCalls, J.sites] using ih
  | site i r ih => simp [J.inlineCalls, J.sites, ih]
  | call k b r ihb ihr =>
    cases k with
    | inline => simp [J.inlineCalls, J.sites, sites_append, ihb, ihr]
    | interp => simp [J.inlineCalls, J.sites, ihb, ihr]
    | rebind => simp [J.inlineCalls, J.sites, ihr]

/-- the interpreter handles and loses the same sites before and after the splice -/
theorem inlineCalls_runOld (j : J) : runOld j.inlineCalls = runOld j := by
  induction j with
  | done => rfl
  | prim r ih => simpa [J.inlineCalls, runOld] using ih
  | site i r ih => simp [J.inlineCalls, runOld, ih]
  | call k b r ihb ihr =>
    cases k with
    | inline => simp [J.inlineCalls, runOld, runOld_append, ihb, ihr]
    | interp => simp [J.inlineCalls, runOld, ihb, ihr]
    | rebind => simp [J.inlineCalls, runOld, ihr]

theorem noInline_siteInline (j : J) (h : j.noInline = true) : j.siteInline = false := by
  induction j with
  | done => rfl
  | prim r ih => simpa [J.siteInline] using ih (by simpa [J.noInline] using h)
  | site i r ih => simpa [J.siteInline] using ih (by simpa [J.noInline] using h)
  | call k b r ihb ihr =>
    cases k with
    | inline => simp [J.noInline] at h
    | interp =>
      simp only [J.noInline, Bool.and_eq_true] at h
      simp [J.siteInline, ihb h.1, ihr h.2]
    | rebind =>
      simp only [J.noInline] at h
      simp [J.siteInline, ihr h]

end Genjax.Interp
