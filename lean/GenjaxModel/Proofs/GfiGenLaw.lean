import GenjaxModel.Proofs.GfiDistSupp
/-!
  C02, the weight half: `generate` is a properly weighted sampler.  For Cond-free programs, every
  constraint map (none, partial, full), every test function `φ` of the trace,

      E_{(t, w) ∼ generateD g x args} [ w · φ(t) ] = E_{t ∼ simD g args} [ 1{t agrees with x} · φ(t) ]

  (`generateD_law`); with `φ = 1`: the expected importance weight is the probability, under the
  program's own distribution, of the constrained event — the marginal likelihood of the constraints.
-/
namespace Genjax
open Smc Smc.FinDist

mutual
  /-- every Vmap of the program accepts an empty constraint in variant `cfg` (the code as it is
      raises for `None` / `{}` when the axis size has to be inferred from a mapped argument) -/
  def GF.vmapOK (cfg : Cfg) : GF → Bool
    | .dist _ => true
    | .fn body => body.vmapOK cfg
    | .vmap g axes _ => (cfg.vmapEmptyConstraint || !axes.any id) && g.vmapOK cfg
    | .scan g _ => g.vmapOK cfg
    | .cond t f => t.vmapOK cfg && f.vmapOK cfg
  def Body.vmapOK (cfg : Cfg) : Body → Bool
    | .ret _ => true
    | .call _ g _ rest => g.vmapOK cfg && rest.vmapOK cfg
end

section Aux
variable {K : Type} [Field K] {R : Type} {α β : Type}

/-- product of the per-lane agreement indicators (0 on a length mismatch) -/
def agreeZip (A : α → Tr R → K) : List α → List (Tr R) → K
  | [], [] => 1
  | a :: as, t :: ts => A a t * agreeZip A as ts
  | _, _ => 0

theorem agreeZip_length_ne (A : α → Tr R → K) :
    ∀ (l : List α) (ts : List (Tr R)), l.length ≠ ts.length → agreeZip A l ts = 0
  | [], [], h => absurd rfl h
  | [], _ :: _, _ => rfl
  | _ :: _, [], _ => rfl
  | a :: as, t :: ts, h => by
      simp only [agreeZip]
      rw [agreeZip_length_ne A as ts (by simpa using h), mul_zero]

theorem agreeZip_one (A : α → Tr R → K) (hA : ∀ a t, A a t = 1) :
    ∀ (l : List α) (ts : List (Tr R)), l.length = ts.length → agreeZip A l ts = 1
  | [], [], _ => rfl
  | [], _ :: _, h => by simp at h
  | _ :: _, [], h => by simp at h
  | a :: as, t :: ts, h => by
      simp only [agreeZip]
      rw [hA, agreeZip_one A hA as ts (by simpa using h), mul_one]

theorem TrL.agreePos_ofList : ∀ (ts : List (Tr R)) (xs : CML),
    (TrL.ofList ts).agreePos (K := K) xs = agreeZip (fun x t => t.agS x) xs.toList ts
  | [], .nil => rfl
  | [], .cons _ _ _ => rfl
  | _ :: _, .nil => rfl
  | t :: ts, .cons k x xr => by
      simp only [TrL.ofList, TrL.agreePos, CML.toList, agreeZip, TrL.agreePos_ofList ts xr]

/-- drop from the second list as many entries as the first one has -/
def TrL.dropLen : TrL R → TrL R → TrL R
  | .nil, l => l
  | .cons _ _ p, .cons _ _ l => dropLen p l
  | .cons _ _ _, .nil => .nil

theorem TrL.dropLen_append : ∀ (p tl : TrL R), TrL.dropLen p (p.append tl) = tl
  | .nil, _ => rfl
  | .cons _ _ p, tl => by simp only [TrL.append, TrL.dropLen, TrL.dropLen_append p tl]

theorem forLanesD_length_fd (f : Nat → α → FinDist K (Option β)) :
    ∀ (l : List α) (i : Nat) (bs : List β), some bs ∈ supp (forLanesD f i l) →
      bs.length = l.length
  | [], i, bs, h => by
      cases mem_supp_pureO h
      rfl
  | a :: as, i, bs, h => by
      simp only [forLanesD] at h
      obtain ⟨b, _, h⟩ := mem_supp_bindO h
      obtain ⟨bs', hbs', h⟩ := mem_supp_bindO h
      cases mem_supp_pureO h
      simp [forLanesD_length_fd f as (i + 1) bs' hbs']

theorem forStepsD_length_fd (f : Val → Nat → α → FinDist K (Option (β × Val))) :
    ∀ (l : List α) (c : Val) (i : Nat) (r : List β × Val), some r ∈ supp (forStepsD f c i l) →
      r.1.length = l.length
  | [], c, i, r, h => by
      cases mem_supp_pureO h
      rfl
  | a :: as, c, i, r, h => by
      simp only [forStepsD] at h
      obtain ⟨p, _, h⟩ := mem_supp_bindO h
      obtain ⟨q, hq, h⟩ := mem_supp_bindO h
      cases mem_supp_pureO h
      simp [forStepsD_length_fd f as p.2 (i + 1) q hq]

/-- lanes: properly weighted lane by lane gives properly weighted as a list -/
theorem lanes_gen (G : Nat → α → FinDist K (Option (Tr R × K)))
    (S : Nat → FinDist K (Option (Tr R))) (A : α → Tr R → K) (l : List α)
    (hG : ∀ i a, a ∈ l → ∀ φ : Tr R → K,
      E (G i a) (optK fun tw => tw.2 * φ tw.1) = E (S i) (optK fun t => A a t * φ t)) :
    ∀ (i : Nat) (Ψ : List (Tr R) → K),
      E (forLanesD G i l) (optK fun tws => prodK (tws.map (·.2)) * Ψ (tws.map (·.1)))
        = E (forLanesD (fun i (_ : Unit) => S i) i (List.replicate l.length ()))
            (optK fun ts => agreeZip A l ts * Ψ ts) := by
  induction l with
  | nil =>
    intro i Ψ
    simp only [forLanesD, List.length_nil, List.replicate_zero, E_pureO, optK_some, List.map_nil,
      prodK, agreeZip]
  | cons a as ih =>
    intro i Ψ
    have ih' := ih (fun i b hb => hG i b (List.mem_cons_of_mem _ hb))
    simp only [forLanesD, List.length_cons, List.replicate_succ]
    rw [E_bindO, E_bindO]
    have h1 : (fun tw : Tr R × K => E (bindO (forLanesD G (i + 1) as) fun bs => pureO (tw :: bs))
          (optK fun tws => prodK (tws.map (·.2)) * Ψ (tws.map (·.1))))
        = fun tw => tw.2 * (fun t => E (forLanesD (fun i (_ : Unit) => S i) (i + 1)
            (List.replicate as.length ())) (optK fun ts => agreeZip A as ts * Ψ (t :: ts))) tw.1 := by
      funext tw
      rw [E_bindO]
      simp only [E_pureO, optK_some, List.map_cons, prodK, mul_assoc]
      rw [E_optK_mul_left]
      congr 1
      exact ih' (i + 1) (fun ts => Ψ (tw.1 :: ts))
    rw [h1]
    refine (hG i a List.mem_cons_self (fun t => E (forLanesD (fun i (_ : Unit) => S i) (i + 1)
            (List.replicate as.length ())) (optK fun ts => agreeZip A as ts * Ψ (t :: ts)))).trans ?_
    congr 1
    funext o
    cases o with
    | none => rfl
    | some t =>
      simp only [optK_some]
      rw [E_bindO, ← E_optK_mul_left]
      simp only [E_pureO, optK_some, agreeZip, mul_assoc]

/-- steps: the same with the carry threaded through the return values -/
theorem steps_gen (G : Val → Nat → α → FinDist K (Option (Tr R × K)))
    (S : Val → Nat → FinDist K (Option (Tr R))) (A : α → Tr R → K) (l : List α)
    (hG : ∀ c i a, a ∈ l → ∀ φ : Tr R → K,
      E (G c i a) (optK fun tw => tw.2 * φ tw.1) = E (S c i) (optK fun t => A a t * φ t)) :
    ∀ (c : Val) (i : Nat) (Ψ : List (Tr R) → Val → K),
      E (forStepsD (fun c i a => bindO (G c i a) fun tw => pureO (tw, tw.1.retval.fst)) c i l)
          (optK fun r => prodK (r.1.map (·.2)) * Ψ (r.1.map (·.1)) r.2)
        = E (forStepsD (fun c i (_ : Unit) => bindO (S c i) fun t => pureO (t, t.retval.fst)) c i
              (List.replicate l.length ()))
            (optK fun r => agreeZip A l r.1 * Ψ r.1 r.2) := by
  induction l with
  | nil =>
    intro c i Ψ
    simp only [forStepsD, List.length_nil, List.replicate_zero, E_pureO, optK_some, List.map_nil,
      prodK, agreeZip]
  | cons a as ih =>
    intro c i Ψ
    have ih' := ih (fun c i b hb => hG c i b (List.mem_cons_of_mem _ hb))
    simp only [forStepsD, List.length_cons, List.replicate_succ]
    rw [E_bindO, E_bindO, E_bindO, E_bindO]
    have h1 : (fun tw : Tr R × K => E (pureO (tw, tw.1.retval.fst))
          (optK fun p : (Tr R × K) × Val => E (bindO (forStepsD
              (fun c i a => bindO (G c i a) fun tw => pureO (tw, tw.1.retval.fst)) p.2 (i + 1) as)
              fun q => pureO (p.1 :: q.1, q.2))
            (optK fun r => prodK (r.1.map (·.2)) * Ψ (r.1.map (·.1)) r.2)))
        = fun tw => tw.2 * (fun t => E (forStepsD
              (fun c i (_ : Unit) => bindO (S c i) fun t => pureO (t, t.retval.fst))
              t.retval.fst (i + 1) (List.replicate as.length ()))
            (optK fun r => agreeZip A as r.1 * Ψ (t :: r.1) r.2)) tw.1 := by
      funext tw
      rw [E_pureO, optK_some, E_bindO]
      simp only [E_pureO, optK_some, List.map_cons, prodK, mul_assoc]
      rw [E_optK_mul_left]
      congr 1
      exact ih' tw.1.retval.fst (i + 1) (fun ts c' => Ψ (tw.1 :: ts) c')
    rw [h1]
    refine (hG c i a List.mem_cons_self (fun t => E (forStepsD
              (fun c i (_ : Unit) => bindO (S c i) fun t => pureO (t, t.retval.fst))
              t.retval.fst (i + 1) (List.replicate as.length ()))
            (optK fun r => agreeZip A as r.1 * Ψ (t :: r.1) r.2))).trans ?_
    congr 1
    funext o
    cases o with
    | none => rfl
    | some t =>
      simp only [optK_some]
      rw [E_pureO, optK_some, E_bindO, ← E_optK_mul_left]
      simp only [E_pureO, optK_some, agreeZip, mul_assoc]

/-- a constraint of the wrong kind: the agreement indicator vanishes on the whole support -/
theorem E_agree_zero (d : FinDist K (Option (Tr R))) (x : CM) (φ : Tr R → K)
    (h : ∀ t, some t ∈ supp d → t.agS (K := K) x = 0) :
    E d (optK fun t => t.agT (some x) * φ t) = 0 := by
  rw [← E_optK_zero d]
  apply E_optK_congr
  intro t ht
  simp only [Tr.agT, h t ht, zero_mul]

end Aux

section Gen
variable {K : Type} [Field K] {R : Type} [AddCommGroup R]
variable (pd : PD K) (P : Prims R) (cfg : Cfg)

mutual
  theorem gen_gf (hpd : pd.WF) : (g : GF) → g.condFree = true → g.vmapOK cfg = true →
      ∀ (ox : Option CM) (args : List Val) (φ : Tr R → K),
      E (g.generateD pd P cfg ox args) (optK fun tw => tw.2 * φ tw.1)
        = E (g.simD pd P args) (optK fun t => t.agT ox * φ t)
    | .dist d, _, _, none, args, φ => by
        simp only [GF.generateD, GF.simD, E, List.map_map]
        rfl
    | .dist d, _, _, some (.leaf v0), args, φ => by
        simp only [GF.generateD, E_pureO, optK_some]
        simp only [GF.simD, E, List.map_map]
        have : ((fun x : Option (Tr R) × K => x.2 * optK (fun t => t.agT (some (CM.leaf v0)) * φ t) x.1) ∘
            fun v => (some (Tr.leaf v (-P.lp d args v)), pd.pm d args v))
            = fun v => pd.pm d args v *
                (if v = v0 then (fun v => φ (Tr.leaf v (-P.lp d args v))) v else 0) := by
          funext v
          simp only [Function.comp, optK_some, Tr.agT, Tr.agS]
          by_cases h : v = v0
          · subst h; simp
          · have h' : ¬ v0 = v := fun e => h e.symm
            simp [h, h']
        rw [this, sumK_indicator_fd _ (hpd.nodup d args)]
        split
        · rfl
        · rename_i h
          rw [hpd.off d args v0 h, zero_mul]
    | .dist d, _, _, some (.node xs), args, φ => by
        simp only [GF.generateD, E_failO, optK_none]
        refine (E_agree_zero _ _ _ fun t ht => ?_).symm
        have hc := simD_canon_gf pd P _ _ _ ht
        cases t <;> simp only [GF.Canon] at hc
        simp only [Tr.agS]
    | .dist d, _, _, some (.lanes xs), args, φ => by
        simp only [GF.generateD, E_failO, optK_none]
        refine (E_agree_zero _ _ _ fun t ht => ?_).symm
        have hc := simD_canon_gf pd P _ _ _ ht
        cases t <;> simp only [GF.Canon] at hc
        simp only [Tr.agS]
    | .fn body, _, _, none, args, φ => by
        simp only [GF.generateD, GF.simD]
        rw [E_bindO, E_bindO]
        simp only [E_pureO, optK_some, Tr.agT]
    | .fn body, hcf, hv, some (.node xs), args, φ => by
        simp only [GF.condFree] at hcf
        simp only [GF.vmapOK] at hv
        simp only [GF.generateD, GF.simD]
        rw [E_bindO, E_bindO]
        simp only [E_pureO, optK_some, Tr.agT, Tr.agS]
        have := gen_body hpd body hcf hv xs args .nil 0 1 (fun r => φ (.fn r.1 r.2.1 r.2.2))
        rw [one_mul] at this
        exact this
    | .fn body, _, _, some (.leaf v), args, φ => by
        simp only [GF.generateD, E_failO, optK_none]
        refine (E_agree_zero _ _ _ fun t ht => ?_).symm
        have hc := simD_canon_gf pd P _ _ _ ht
        cases t <;> simp only [GF.Canon] at hc
        simp only [Tr.agS]
    | .fn body, _, _, some (.lanes xs), args, φ => by
        simp only [GF.generateD, E_failO, optK_none]
        refine (E_agree_zero _ _ _ fun t ht => ?_).symm
        have hc := simD_canon_gf pd P _ _ _ ht
        cases t <;> simp only [GF.Canon] at hc
        simp only [Tr.agS]
    | .vmap g axes n, hcf, hv, none, args, φ => by
        simp only [GF.condFree] at hcf
        simp only [GF.vmapOK, Bool.and_eq_true] at hv
        simp only [GF.generateD, GF.simD, hv.1, if_true]
        rw [E_bindO, E_bindO]
        simp only [E_pureO, optK_some, Tr.agT, one_mul]
        have := lanes_gen (fun i (_ : Unit) => g.generateD pd P cfg none (laneArgs axes args i))
          (fun i => g.simD pd P (laneArgs axes args i)) (fun _ t => t.agT none)
          (List.replicate n ())
          (fun i a _ φ' => gen_gf hpd g hcf hv.2 none _ φ') 0
          (fun ts => φ (.vec (TrL.ofList ts)))
        rw [List.length_replicate] at this
        refine this.trans ?_
        apply E_optK_congr
        intro ts hts
        rw [agreeZip_one (fun (_ : Unit) (t : Tr R) => t.agT (K := K) none) (fun _ _ => rfl) _ _
          (by rw [forLanesD_length_fd _ _ _ _ hts]), one_mul]
    | .vmap g axes n, hcf, hv, some (.lanes xs), args, φ => by
        simp only [GF.condFree] at hcf
        simp only [GF.vmapOK, Bool.and_eq_true] at hv
        simp only [GF.generateD, GF.simD]
        split
        · rename_i hlen
          rw [E_bindO, E_bindO]
          simp only [E_pureO, optK_some, Tr.agT, Tr.agS, TrL.agreePos_ofList]
          have := lanes_gen (fun i xi => g.generateD pd P cfg (some xi) (laneArgs axes args i))
            (fun i => g.simD pd P (laneArgs axes args i)) (fun xi t => t.agS xi) xs.toList
            (fun i a _ φ' => gen_gf hpd g hcf hv.2 (some a) _ φ') 0
            (fun ts => φ (.vec (TrL.ofList ts)))
          rw [hlen] at this
          exact this
        · rename_i hlen
          rw [E_failO, optK_none, E_bindO]
          simp only [E_pureO, optK_some, Tr.agT, Tr.agS, TrL.agreePos_ofList]
          rw [← E_optK_zero (forLanesD (fun i (_ : Unit) => g.simD pd P (laneArgs axes args i)) 0
            (List.replicate n ()))]
          apply E_optK_congr
          intro ts hts
          have hl := forLanesD_length_fd _ _ _ _ hts
          rw [List.length_replicate] at hl
          rw [agreeZip_length_ne _ _ _ (by rw [hl]; exact hlen), zero_mul]
    | .vmap g axes n, _, _, some (.leaf v), args, φ => by
        simp only [GF.generateD, E_failO, optK_none]
        refine (E_agree_zero _ _ _ fun t ht => ?_).symm
        have hc := simD_canon_gf pd P _ _ _ ht
        cases t <;> simp only [GF.Canon] at hc
        simp only [Tr.agS]
    | .vmap g axes n, _, _, some (.node xs), args, φ => by
        simp only [GF.generateD, E_failO, optK_none]
        refine (E_agree_zero _ _ _ fun t ht => ?_).symm
        have hc := simD_canon_gf pd P _ _ _ ht
        cases t <;> simp only [GF.Canon] at hc
        simp only [Tr.agS]
    | .scan g n, hcf, hv, none, args, φ => by
        simp only [GF.condFree] at hcf
        simp only [GF.vmapOK] at hv
        simp only [GF.generateD, GF.simD]
        rw [E_bindO, E_bindO]
        simp only [E_pureO, optK_some, Tr.agT, one_mul]
        have := steps_gen (fun c i (_ : Unit) =>
            g.generateD pd P cfg none [c, (args.getD 1 .nil).nth i])
          (fun c i => g.simD pd P [c, (args.getD 1 .nil).nth i]) (fun _ t => t.agT none)
          (List.replicate n ())
          (fun c i a _ φ' => gen_gf hpd g hcf hv none _ φ') (args.getD 0 .nil) 0
          (fun ts c' => φ (.scan (TrL.ofList ts) c'))
        rw [List.length_replicate] at this
        refine this.trans ?_
        apply E_optK_congr
        intro r hr
        rw [agreeZip_one (fun (_ : Unit) (t : Tr R) => t.agT (K := K) none) (fun _ _ => rfl) _ _
          (by rw [forStepsD_length_fd _ _ _ _ _ hr]), one_mul]
    | .scan g n, hcf, hv, some (.lanes xs), args, φ => by
        simp only [GF.condFree] at hcf
        simp only [GF.vmapOK] at hv
        simp only [GF.generateD, GF.simD]
        split
        · rename_i hlen
          rw [E_bindO, E_bindO]
          simp only [E_pureO, optK_some, Tr.agT, Tr.agS, TrL.agreePos_ofList]
          have := steps_gen (fun c i xi =>
              g.generateD pd P cfg (some xi) [c, (args.getD 1 .nil).nth i])
            (fun c i => g.simD pd P [c, (args.getD 1 .nil).nth i]) (fun xi t => t.agS xi)
            xs.toList
            (fun c i a _ φ' => gen_gf hpd g hcf hv (some a) _ φ') (args.getD 0 .nil) 0
            (fun ts c' => φ (.scan (TrL.ofList ts) c'))
          rw [hlen] at this
          exact this
        · rename_i hlen
          rw [E_failO, optK_none, E_bindO]
          simp only [E_pureO, optK_some, Tr.agT, Tr.agS, TrL.agreePos_ofList]
          rw [← E_optK_zero (forStepsD (fun c i (_ : Unit) =>
              bindO (g.simD pd P [c, (args.getD 1 .nil).nth i]) fun t => pureO (t, t.retval.fst))
            (args.getD 0 .nil) 0 (List.replicate n ()))]
          apply E_optK_congr
          intro r hr
          have hl := forStepsD_length_fd _ _ _ _ _ hr
          rw [List.length_replicate] at hl
          rw [agreeZip_length_ne _ _ _ (by rw [hl]; exact hlen), zero_mul]
    | .scan g n, _, _, some (.leaf v), args, φ => by
        simp only [GF.generateD, E_failO, optK_none]
        refine (E_agree_zero _ _ _ fun t ht => ?_).symm
        have hc := simD_canon_gf pd P _ _ _ ht
        cases t <;> simp only [GF.Canon] at hc
        simp only [Tr.agS]
    | .scan g n, _, _, some (.node xs), args, φ => by
        simp only [GF.generateD, E_failO, optK_none]
        refine (E_agree_zero _ _ _ fun t ht => ?_).symm
        have hc := simD_canon_gf pd P _ _ _ ht
        cases t <;> simp only [GF.Canon] at hc
        simp only [Tr.agS]
    | .cond t f, hcf, _, _, _, _ => by simp [GF.condFree] at hcf
  theorem gen_body (hpd : pd.WF) : (body : Body) → body.condFree = true →
      body.vmapOK cfg = true → ∀ (xs : CML) (env : List Val) (subs : TrL R) (s : R) (w : K)
      (Φ : TrL R × Val × R → K),
      E (body.generateD pd P cfg xs env subs s w) (optK fun r => r.2.2.2 * Φ (r.1, r.2.1, r.2.2.1))
        = w * E (body.simD pd P env subs s)
            (optK fun r => (TrL.dropLen subs r.1).agreeAll xs * Φ r)
    | .ret e, _, _, xs, env, subs, s, w, Φ => by
        simp only [Body.generateD, Body.simD, E_pureO, optK_some]
        have := TrL.dropLen_append subs .nil
        rw [TrL.append_nil] at this
        rw [this]
        simp only [TrL.agreeAll, one_mul]
    | .call addr g es rest, hcf, hv, xs, env, subs, s, w, Φ => by
        simp only [Body.condFree, Bool.and_eq_true] at hcf
        simp only [Body.vmapOK, Bool.and_eq_true] at hv
        simp only [Body.generateD, Body.simD]
        split
        · simp only [E_failO, optK_none, mul_zero]
        · rw [E_bindO, E_bindO]
          have h1 : (fun tw : Tr R × K => E (rest.generateD pd P cfg xs (env ++ [tw.1.retval])
                (subs.snoc addr tw.1) (s + tw.1.score) (w * tw.2))
                (optK fun r => r.2.2.2 * Φ (r.1, r.2.1, r.2.2.1)))
              = fun tw => tw.2 * (fun t => w * E (rest.simD pd P (env ++ [t.retval])
                  (subs.snoc addr t) (s + t.score))
                  (optK fun r => (TrL.dropLen (subs.snoc addr t) r.1).agreeAll xs * Φ r)) tw.1 := by
            funext tw
            rw [gen_body hpd rest hcf.2 hv.2 xs _ _ _ (w * tw.2) Φ]
            ring
          rw [h1]
          refine (gen_gf hpd g hcf.1 hv.1 (xs.find? addr) _ (fun t => w * E (rest.simD pd P
              (env ++ [t.retval]) (subs.snoc addr t) (s + t.score))
              (optK fun r => (TrL.dropLen (subs.snoc addr t) r.1).agreeAll xs * Φ r))).trans ?_
          rw [← E_optK_mul_left]
          apply E_optK_congr
          intro t _
          rw [← mul_assoc, mul_comm (t.agT (xs.find? addr)) w, mul_assoc, ← E_optK_mul_left]
          congr 1
          apply E_optK_congr
          intro r hr
          obtain ⟨tl, _, htl⟩ := simD_canon_body pd P rest _ _ _ r hr
          rw [htl, TrL.dropLen_append]
          rw [TrL.snoc_append, TrL.dropLen_append]
          simp only [TrL.agreeAll, Tr.agT]
          cases xs.find? addr <;> simp only [mul_assoc]
end

/-- **`generate` is properly weighted** (Cond-free programs): for every constraint map `ox` (none,
    partial, full, or of the wrong shape — then both sides are 0), every argument list and every test
    function `φ` of the trace,
    `E_{(t,w) ∼ generateD}[w · φ(t)] = E_{t ∼ simD}[1{t agrees with the constraints} · φ(t)]`. -/
theorem generateD_law (hpd : pd.WF) (g : GF) (hcf : g.condFree = true)
    (hv : g.vmapOK cfg = true) (ox : Option CM) (args : List Val) (φ : Tr R → K) :
    E (g.generateD pd P cfg ox args) (optK fun tw => tw.2 * φ tw.1)
      = E (g.simD pd P args) (optK fun t => t.agT ox * φ t) :=
  gen_gf pd P cfg hpd g hcf hv ox args φ

end Gen

end Genjax
