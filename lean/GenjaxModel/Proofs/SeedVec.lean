import GenjaxModel.Model.SeedVec
import GenjaxModel.Proofs.Seed
import Mathlib.Data.List.Nodup
import Mathlib.Data.List.Forall2
/-!
  C07, vectorised sites: a site under `modular_vmap`s is one Seed site (one key, one sampler call
  with the lane counts prepended to `sample_shape`); keys stay pairwise distinct in any program;
  lanes read pairwise different entries of the joint draw.
-/
namespace Genjax.Seed

/-! ### the rebound sampler's shapes -/

/-- sizes of the unbatched / batched levels, outermost first -/
def unbSizes (levels : List Level) : List Nat := (levels.filter fun lv => !lv.2).map (·.1)
def batSizes (levels : List Level) : List Nat := (levels.filter fun lv => lv.2).map (·.1)

@[simp] theorem unbSizes_nil : unbSizes [] = [] := rfl
@[simp] theorem batSizes_nil : batSizes [] = [] := rfl
@[simp] theorem unbSizes_cons_false (n : Nat) (r : List Level) :
    unbSizes ((n, false) :: r) = n :: unbSizes r := by simp [unbSizes]
@[simp] theorem unbSizes_cons_true (n : Nat) (r : List Level) :
    unbSizes ((n, true) :: r) = unbSizes r := by simp [unbSizes]
@[simp] theorem batSizes_cons_false (n : Nat) (r : List Level) :
    batSizes ((n, false) :: r) = batSizes r := by simp [batSizes]
@[simp] theorem batSizes_cons_true (n : Nat) (r : List Level) :
    batSizes ((n, true) :: r) = n :: batSizes r := by simp [batSizes]

theorem rebindAll_eq (levels : List Level) (own : List Nat) :
    rebindAll levels own = { ss := unbSizes levels ++ own, pb := batSizes levels } := by
  induction levels with
  | nil => rfl
  | cons lv rest ih =>
    obtain ⟨n, b⟩ := lv
    have : rebindAll ((n, b) :: rest) own = rebind (n, b) (rebindAll rest own) := rfl
    rw [this, ih]
    cases b <;> simp [rebind]

theorem rebindAll_ret (levels : List Level) (own : List Nat) :
    (rebindAll levels own).ret = unbSizes levels ++ own ++ batSizes levels := by
  rw [rebindAll_eq]; rfl

theorem unbSizes_unbatched (lanes : List Nat) : unbSizes (lanes.map fun n => (n, false)) = lanes := by
  induction lanes with
  | nil => rfl
  | cons n r ih => simp [ih]

theorem batSizes_unbatched (lanes : List Nat) : batSizes (lanes.map fun n => (n, false)) = [] := by
  induction lanes with
  | nil => rfl
  | cons n r ih => simp [ih]

/-- a nest of unbatched vmaps (`in_axes=()`, `repeat`): `sample_shape = lanes ++ own` -/
theorem rebindAll_unbatched (lanes own : List Nat) :
    rebindAll (lanes.map fun n => (n, false)) own = { ss := lanes ++ own, pb := [] } := by
  rw [rebindAll_eq, unbSizes_unbatched, batSizes_unbatched]

/-- one level: the returned shape and the declared axis are those of `Vmap.ruleOut` (repaired rule) -/
theorem rebind_one_ruleOut (n : Nat) (b : Bool) (own : List Nat) (cfg : Vmap.Cfg) :
    (rebindAll [(n, b)] own).ret = (Vmap.ruleOut cfg ⟨own, b⟩ n).1 ∧
    declaredAxis (n, b) { ss := own, pb := [] } = (Vmap.ruleOut ⟨true⟩ ⟨own, b⟩ n).2 ∧
    declaredAxis (n, b) { ss := own, pb := [] } = Vmap.laneAxis ⟨own, b⟩ := by
  cases b <;> simp [rebindAll, rebind, VShape.ret, Vmap.ruleOut, declaredAxis, Vmap.laneAxis]

/-- after `jax.vmap` has moved the declared axis to the front every lane holds an array of the
    site's own sample_shape -/
theorem rebind_one_moveFront (n : Nat) (b : Bool) (own : List Nat) :
    Vmap.moveFront (rebindAll [(n, b)] own).ret (declaredAxis (n, b) { ss := own, pb := [] })
      = n :: own := by
  cases b
  · simp [rebindAll, rebind, VShape.ret, declaredAxis, Vmap.moveFront]
  · simp [rebindAll, rebind, VShape.ret, declaredAxis, Vmap.moveFront, List.getD_eq_getElem?_getD,
      List.eraseIdx_append_of_length_le]

/-! ### a vectorised site is a site -/

def Call.entry (c : Call) : Nat × List Nat × KP := (c.id, c.iters, c.key)

mutual
  theorem VStmt.calls_erase : ∀ (s : VStmt) (k : KP) (it : List Nat),
      (s.calls k it).1.map Call.entry = (s.erase.keys k it).1 ∧ (s.calls k it).2 = (s.erase.keys k it).2
    | .vsite id levels own, k, it => by
      simp [VStmt.calls, VStmt.erase, Stmt.keys, Call.entry]
    | .cond taken, k, it => by
      have ih := VProg.calls_erase taken (.R k) it
      simp only [VStmt.calls, VStmt.erase, Stmt.keys]
      exact ⟨ih.1, trivial⟩
    | .scan body n, k, it => by
      have ih := fun j => (VProg.calls_erase body (.fold (.R k) j) (it ++ [j])).1
      simp only [VStmt.calls, VStmt.erase, Stmt.keys, List.map_flatMap, ih, and_self]
    | .other, k, it => by
      simp [VStmt.calls, VStmt.erase, Stmt.keys]
  theorem VProg.calls_erase : ∀ (p : VProg) (k : KP) (it : List Nat),
      (p.calls k it).1.map Call.entry = (p.erase.keys k it).1 ∧ (p.calls k it).2 = (p.erase.keys k it).2
    | .nil, k, it => by simp [VProg.calls, VProg.erase, Prog.keys]
    | .cons s rest, k, it => by
      have ih1 := VStmt.calls_erase s k it
      have ih2 := VProg.calls_erase rest (s.calls k it).2 it
      simp only [VProg.calls, VProg.erase, Prog.keys, List.map_append]
      rw [ih1.1, ih2.1, ih2.2, ih1.2]
      exact ⟨rfl, rfl⟩
end

/-- the (id, iterations, key) triples of the sampler calls are exactly the model keys of the
    program in which every vectorised site is an ordinary site -/
theorem siteCalls_entries (p : VProg) : (siteCalls p).map Call.entry = siteKeys p.erase :=
  (VProg.calls_erase p .root []).1

theorem siteCalls_keys (p : VProg) :
    (siteCalls p).map (·.key) = (siteKeys p.erase).map fun e => e.2.2 := by
  rw [← siteCalls_entries, List.map_map]
  rfl

/-- composition with scans / conds: the keys of all sampler calls are pairwise distinct -/
theorem siteCalls_keys_nodup (p : VProg) : ((siteCalls p).map (·.key)).Nodup := by
  rw [siteCalls_keys]
  exact siteKeys_nodup p.erase

theorem siteCalls_no_ancestor (p : VProg) (a b : Call) (ha : a ∈ siteCalls p) (hb : b ∈ siteCalls p)
    (hne : a.key ≠ b.key) : KP.under a.key b.key = false := by
  have ha' : a.entry ∈ siteKeys p.erase := by
    rw [← siteCalls_entries]; exact List.mem_map_of_mem ha
  have hb' : b.entry ∈ siteKeys p.erase := by
    rw [← siteCalls_entries]; exact List.mem_map_of_mem hb
  exact siteKeys_no_ancestor p.erase a.entry b.entry ha' hb' hne

/-- exactly one call, with one key, whatever the lane counts -/
theorem vsite_calls (id : Nat) (levels : List Level) (own : List Nat) (k : KP) (it : List Nat) :
    (VStmt.vsite id levels own).calls k it
      = ([{ id := id, iters := it, key := .R k, sampleShape := unbSizes levels ++ own,
            retShape := unbSizes levels ++ own ++ batSizes levels }], .L k) := by
  simp only [VStmt.calls, rebindAll_ret]
  rw [rebindAll_eq]

/-- every call of a run has `retShape = sampleShape ++ (parameter batch shape)` -/
theorem VShape_ret_prefix (levels : List Level) (own : List Nat) :
    (rebindAll levels own).ret = (rebindAll levels own).ss ++ batSizes levels := by
  rw [rebindAll_eq]; rfl

/-! ### multi-indices -/

theorem mem_indices {s ix : List Nat} : ix ∈ indices s ↔ List.Forall₂ (· < ·) ix s := by
  induction s generalizing ix with
  | nil =>
    simp [indices]
  | cons n s ih =>
    simp only [indices, List.mem_flatMap, List.mem_range, List.mem_map]
    constructor
    · rintro ⟨i, hi, t, ht, rfl⟩
      exact List.Forall₂.cons hi (ih.mp ht)
    · intro h
      cases h with
      | cons hi ht => exact ⟨_, hi, _, ih.mpr ht, rfl⟩

theorem indices_nodup (s : List Nat) : (indices s).Nodup := by
  induction s with
  | nil => simp [indices]
  | cons n s ih =>
    simp only [indices]
    rw [List.nodup_flatMap]
    refine ⟨fun i _ => ih.map (fun a b h => by simpa using h), ?_⟩
    refine List.Pairwise.imp ?_ (List.nodup_range (n := n))
    intro i j hij
    simp only [Function.onFun, List.disjoint_left, List.mem_map]
    rintro x ⟨a, _, rfl⟩ ⟨b, _, hb⟩
    simp only [List.cons.injEq] at hb
    exact hij hb.1.symm

/-- all scalar draws of a run — (key of the sampler call, position in the returned array) — are
    pairwise distinct -/
theorem allDraws_nodup (p : VProg) : (allDraws p).Nodup := by
  unfold allDraws
  rw [List.nodup_flatMap]
  refine ⟨fun c _ => (indices_nodup _).map (fun a b h => by simpa using h), ?_⟩
  have h := siteCalls_keys_nodup p
  unfold List.Nodup at h
  rw [List.pairwise_map] at h
  refine h.imp ?_
  intro a b hab
  simp only [Function.onFun, List.disjoint_left, List.mem_map]
  rintro x ⟨_, _, rfl⟩ ⟨_, _, hb⟩
  simp only [Prod.mk.injEq] at hb
  exact hab hb.1.symm

/-! ### lanes read different entries -/

/-- lane coordinates `ls` are valid for the levels -/
def ValidLane (levels : List Level) (ls : List Nat) : Prop :=
  List.Forall₂ (fun i (lv : Level) => i < lv.1) ls levels

theorem unbIdx_forall₂ {levels : List Level} {ls : List Nat} (h : ValidLane levels ls) :
    List.Forall₂ (· < ·) (unbIdx levels ls) (unbSizes levels) := by
  unfold ValidLane at h
  induction h with
  | nil => simp [unbIdx]
  | @cons i lv ls lvs hi _ ih =>
    obtain ⟨n, b⟩ := lv
    cases b
    · rw [unbSizes_cons_false]
      exact List.Forall₂.cons hi ih
    · rw [unbSizes_cons_true]
      exact ih

theorem batIdx_forall₂ {levels : List Level} {ls : List Nat} (h : ValidLane levels ls) :
    List.Forall₂ (· < ·) (batIdx levels ls) (batSizes levels) := by
  unfold ValidLane at h
  induction h with
  | nil => simp [batIdx]
  | @cons i lv ls lvs hi _ ih =>
    obtain ⟨n, b⟩ := lv
    cases b
    · rw [batSizes_cons_false]
      exact ih
    · rw [batSizes_cons_true]
      exact List.Forall₂.cons hi ih

/-- a valid lane reads, for every position of the site's own shape, an entry of the array that
    the one sampler call returns -/
theorem lanePos_mem (levels : List Level) (own ls o : List Nat) (hl : ValidLane levels ls)
    (ho : o ∈ indices own) : lanePos levels ls o ∈ indices (rebindAll levels own).ret := by
  rw [rebindAll_ret, mem_indices]
  unfold lanePos
  exact List.rel_append (List.rel_append (unbIdx_forall₂ hl) (mem_indices.mp ho)) (batIdx_forall₂ hl)

theorem unbIdx_length {levels : List Level} {ls : List Nat} (h : ls.length = levels.length) :
    (unbIdx levels ls).length = (unbSizes levels).length := by
  induction levels generalizing ls with
  | nil => simp [unbIdx]
  | cons lv rest ih =>
    obtain ⟨n, b⟩ := lv
    cases ls with
    | nil => simp at h
    | cons i ls =>
      have h' : ls.length = rest.length := by simpa using h
      cases b
      · simp [unbIdx, ih h']
      · simpa [unbIdx] using ih h'

theorem idx_inj {levels : List Level} {ls ls' : List Nat} (h : ls.length = levels.length)
    (h' : ls'.length = levels.length) (hu : unbIdx levels ls = unbIdx levels ls')
    (hb : batIdx levels ls = batIdx levels ls') : ls = ls' := by
  induction levels generalizing ls ls' with
  | nil =>
    cases ls with
    | nil =>
      cases ls' with
      | nil => rfl
      | cons _ _ => simp at h'
    | cons _ _ => simp at h
  | cons lv rest ih =>
    obtain ⟨n, b⟩ := lv
    cases ls with
    | nil => simp at h
    | cons i ls =>
      cases ls' with
      | nil => simp at h'
      | cons i' ls' =>
        have e : ls.length = rest.length := by simpa using h
        have e' : ls'.length = rest.length := by simpa using h'
        cases b
        · simp only [unbIdx, batIdx, List.cons.injEq] at hu hb
          rw [hu.1, ih e e' hu.2 hb]
        · simp only [unbIdx, batIdx, List.cons.injEq] at hu hb
          rw [hb.1, ih e e' hu hb.2]

/-- different (lane, own position) pairs read different entries of the joint draw -/
theorem lanePos_inj (levels : List Level) (ls ls' o o' : List Nat)
    (h : ls.length = levels.length) (h' : ls'.length = levels.length) (ho : o.length = o'.length)
    (e : lanePos levels ls o = lanePos levels ls' o') : ls = ls' ∧ o = o' := by
  unfold lanePos at e
  have hl : (unbIdx levels ls).length = (unbIdx levels ls').length := by
    rw [unbIdx_length h, unbIdx_length h']
  have hl2 : (unbIdx levels ls ++ o).length = (unbIdx levels ls' ++ o').length := by
    simp [hl, ho]
  obtain ⟨e1, e2⟩ := List.append_inj e hl2
  obtain ⟨e3, e4⟩ := List.append_inj e1 hl
  exact ⟨idx_inj h h' e3 e2, e4⟩

end Genjax.Seed
