import Mathlib.Analysis.Analytic.Binomial
import Mathlib.Analysis.SpecialFunctions.Gamma.Basic
import Mathlib.Data.Nat.Choose.Multinomial
import Mathlib.Algebra.Order.Antidiag.Pi
import Mathlib.NumberTheory.LSeries.RiemannZeta
import Mathlib.Analysis.PSeries
/-!
  C13, part 3: documented mass functions of further built-in discrete distributions
  (negative_binomial, multinomial, zipf) and their normalisation.  Same conventions as
  `DistSpec.lean`.
-/
open Real

namespace Genjax.DistSpec


/-- negative_binomial(total_count r, probs p): number of successes (probability p each) before the
`r`-th failure; `r` may be any positive real, `C(k+r−1, k)` is the generalised binomial coefficient -/
noncomputable def negativeBinomialPmf (r p : ℝ) (k : ℕ) : ℝ :=
  Ring.choose (r + k - 1) k * p ^ k * (1 - p) ^ r

theorem negativeBinomial_normalised (r p : ℝ) (hp0 : 0 ≤ p) (hp1 : p < 1) :
    HasSum (negativeBinomialPmf r p) 1 := by
  have hball : p ∈ Metric.eball (0 : ℝ) 1 := by
    rw [Metric.mem_eball, edist_zero_right, Real.enorm_eq_ofReal hp0]
    exact ENNReal.ofReal_lt_one.mpr hp1
  have h := (Real.one_div_one_sub_rpow_hasFPowerSeriesOnBall_zero r).hasSum hball
  simp only [FormalMultilinearSeries.ofScalars_apply_eq, zero_add, smul_eq_mul] at h
  have h2 := h.mul_right ((1 - p) ^ r)
  have hpos : (0:ℝ) < (1 - p) ^ r := Real.rpow_pos_of_pos (by linarith) r
  rw [one_div, inv_mul_cancel₀ hpos.ne'] at h2
  exact h2

/-- for an integer number of failures the coefficient is the ordinary binomial coefficient -/
theorem negativeBinomial_nat (r : ℕ) (hr : 0 < r) (p : ℝ) (k : ℕ) :
    negativeBinomialPmf r p k = ((k + r - 1).choose k : ℝ) * p ^ k * (1 - p) ^ r := by
  simp only [negativeBinomialPmf, Real.rpow_natCast]
  have : ((r : ℝ) + k - 1) = ((k + r - 1 : ℕ) : ℝ) := by
    have : 1 ≤ k + r := by omega
    push_cast [Nat.cast_sub this]; ring
  rw [this, Ring.choose_natCast]

theorem Gamma_add_natCast (r : ℝ) (hr : 0 < r) (k : ℕ) :
    Real.Gamma (r + k) = Real.Gamma r * (ascPochhammer ℝ k).eval r := by
  induction k with
  | zero => simp
  | succ k ih =>
    have : r + ((k + 1 : ℕ) : ℝ) = (r + k) + 1 := by push_cast; ring
    rw [this, Real.Gamma_add_one (by positivity), ih, ascPochhammer_succ_right]
    simp only [Polynomial.eval_mul, Polynomial.eval_add, Polynomial.eval_X, Polynomial.eval_natCast]
    ring

/-- the same mass function written with Γ (the form used by TFP): Γ(k+r)/(k! Γ(r)) p^k (1−p)^r -/
theorem negativeBinomial_eq_Gamma (r p : ℝ) (hr : 0 < r) (k : ℕ) :
    negativeBinomialPmf r p k =
      Real.Gamma (k + r) / (k.factorial * Real.Gamma r) * p ^ k * (1 - p) ^ r := by
  simp only [negativeBinomialPmf]
  congr 2
  rw [← Ring.multichoose_eq, add_comm (k:ℝ) r, Gamma_add_natCast r hr k]
  have h := Ring.factorial_nsmul_multichoose_eq_ascPochhammer r k
  rw [Polynomial.ascPochhammer_smeval_eq_eval, nsmul_eq_mul] at h
  have hG : Real.Gamma r ≠ 0 := (Real.Gamma_pos_of_pos hr).ne'
  have hk : (k.factorial : ℝ) ≠ 0 := by positivity
  rw [← h]
  field_simp

/-- multinomial(total_count n, probs p) on count vectors `k : Fin m → ℕ`:
n!/(k₁!…k_m!) ∏ p_i^{k_i} when the counts add up to `n`, zero otherwise -/
noncomputable def multinomialPmf {m : ℕ} (n : ℕ) (p : Fin m → ℝ) (k : Fin m → ℕ) : ℝ :=
  if ∑ i, k i = n then (n.factorial : ℝ) / (∏ i, ((k i).factorial : ℝ)) * ∏ i, p i ^ k i else 0

/-- sum over all count vectors with total `n` (multinomial theorem) -/
theorem multinomial_normalised_finset {m : ℕ} (n : ℕ) (p : Fin m → ℝ) (hp : ∑ i, p i = 1) :
    ∑ k ∈ Finset.piAntidiag Finset.univ n, multinomialPmf n p k = 1 := by
  have h := Finset.sum_pow_eq_sum_piAntidiag Finset.univ p n
  rw [hp, one_pow] at h
  rw [h]
  refine Finset.sum_congr rfl (fun k hk => ?_)
  have hk' : ∑ i, k i = n := (Finset.mem_piAntidiag.mp hk).1
  simp only [multinomialPmf, if_pos hk']
  congr 1
  have hs := Nat.multinomial_spec Finset.univ k
  rw [hk'] at hs
  have hne : (∏ i, ((k i).factorial : ℝ)) ≠ 0 :=
    Finset.prod_ne_zero_iff.mpr (fun i _ => by positivity)
  rw [div_eq_iff hne, ← hs]
  push_cast
  ring

/-- total mass one over ALL count vectors -/
theorem multinomial_normalised {m : ℕ} (n : ℕ) (p : Fin m → ℝ) (hp : ∑ i, p i = 1) :
    HasSum (multinomialPmf n p) 1 := by
  rw [← multinomial_normalised_finset n p hp]
  refine hasSum_sum_of_ne_finset_zero (fun k hk => ?_)
  have : ¬ ∑ i, k i = n := fun h => hk (Finset.mem_piAntidiag.mpr ⟨h, fun i _ => Finset.mem_univ i⟩)
  simp only [multinomialPmf, if_neg this]

/-- two categories: the binomial distribution -/
theorem multinomial_two_eq_binomial (n : ℕ) (p : ℝ) (k : ℕ) (hk : k ≤ n) :
    multinomialPmf n ![p, 1 - p] ![k, n - k] =
      (n.choose k : ℝ) * p ^ k * (1 - p) ^ (n - k) := by
  have hsum : ∑ i, (![k, n - k] : Fin 2 → ℕ) i = n := by
    simp [Fin.sum_univ_two]; omega
  simp only [multinomialPmf, if_pos hsum, Fin.prod_univ_two, Matrix.cons_val_zero,
    Matrix.cons_val_one]
  rw [Nat.cast_choose ℝ hk]
  ring

/-- zipf(power s): P(k) = k^{−s} / ζ(s), k = 1,2,… -/
noncomputable def zipfPmf (s : ℝ) (k : ℕ) : ℝ :=
  if 1 ≤ k then (k : ℝ) ^ (-s) / (riemannZeta (s : ℂ)).re else 0

theorem zeta_re_eq_tsum (s : ℝ) (hs : 1 < s) :
    (riemannZeta (s : ℂ)).re = ∑' n : ℕ, 1 / (n : ℝ) ^ s := by
  rw [zeta_eq_tsum_one_div_nat_cpow (by simpa using hs)]
  have : ∀ n : ℕ, (1 : ℂ) / (n : ℂ) ^ (s : ℂ) = ((1 / (n : ℝ) ^ s : ℝ) : ℂ) := by
    intro n
    rw [Complex.ofReal_div, Complex.ofReal_one, Complex.ofReal_cpow (Nat.cast_nonneg n),
      Complex.ofReal_natCast]
  simp_rw [this]
  rw [← Complex.ofReal_tsum, Complex.ofReal_re]

theorem zipf_normalised (s : ℝ) (hs : 1 < s) : HasSum (zipfPmf s) 1 := by
  have hsum : Summable (fun n : ℕ => 1 / (n : ℝ) ^ s) := Real.summable_one_div_nat_rpow.mpr hs
  have hpos : 0 < ∑' n : ℕ, 1 / (n : ℝ) ^ s := by
    refine hsum.tsum_pos (fun n => by positivity) 1 ?_
    simp
  have h := hsum.hasSum.div_const (∑' n : ℕ, 1 / (n : ℝ) ^ s)
  rw [div_self hpos.ne'] at h
  have e : zipfPmf s = fun i : ℕ => 1 / (i : ℝ) ^ s / ∑' n : ℕ, 1 / (n : ℝ) ^ s := by
    funext k
    simp only [zipfPmf, zeta_re_eq_tsum s hs]
    by_cases hk : 1 ≤ k
    · rw [if_pos hk, Real.rpow_neg (Nat.cast_nonneg k), one_div]
    · have : k = 0 := by omega
      subst this
      rw [if_neg hk, Nat.cast_zero, Real.zero_rpow (by linarith), div_zero, zero_div]
  rw [e]
  exact h


theorem negativeBinomialPmf_nonneg (r p : ℝ) (hr : 0 < r) (hp0 : 0 ≤ p) (hp1 : p < 1) (k : ℕ) :
    0 ≤ negativeBinomialPmf r p k := by
  rw [negativeBinomial_eq_Gamma r p hr k]
  have h1 : 0 < Real.Gamma (k + r) := Real.Gamma_pos_of_pos (by positivity)
  have h2 : 0 < Real.Gamma r := Real.Gamma_pos_of_pos hr
  have h3 : 0 < (1 - p) ^ r := Real.rpow_pos_of_pos (by linarith) r
  positivity

theorem multinomialPmf_nonneg {m : ℕ} (n : ℕ) (p : Fin m → ℝ) (hp : ∀ i, 0 ≤ p i) (k : Fin m → ℕ) :
    0 ≤ multinomialPmf n p k := by
  simp only [multinomialPmf]
  have : 0 ≤ ∏ i, p i ^ k i := Finset.prod_nonneg (fun i _ => pow_nonneg (hp i) _)
  split_ifs
  · positivity
  · exact le_rfl

theorem zipfPmf_nonneg (s : ℝ) (hs : 1 < s) (k : ℕ) : 0 ≤ zipfPmf s k := by
  have hpos : 0 ≤ ∑' n : ℕ, 1 / (n : ℝ) ^ s := tsum_nonneg (fun n => by positivity)
  simp only [zipfPmf, zeta_re_eq_tsum s hs]
  split_ifs
  · positivity
  · exact le_rfl


end Genjax.DistSpec
