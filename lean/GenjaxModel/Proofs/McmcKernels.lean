import GenjaxModel.Model.McmcKernels
import GenjaxModel.Proofs.Mcmc
/-!
  C09, kernels: the log acceptance ratios `mala` and `hmc` compute (`Model/McmcKernels.lean`) are the
  Metropolis–Hastings log ratios of the Langevin proposal and of the leapfrog-then-flip involution:
  the Gaussian normalisers cancel in every dimension, the ratios are antisymmetric under the reversal
  of the move, and an energy-conserving trajectory is always accepted.
-/
namespace Genjax.Mcmc

set_option linter.unusedSectionVars false

variable {K : Type} [Field K] [LinearOrder K] [IsStrictOrderedRing K]

/-! ### sums -/

@[simp] theorem vsum_nil : vsum ([] : List K) = 0 := rfl
@[simp] theorem vsum_cons (a : K) (l : List K) : vsum (a :: l) = a + vsum l := rfl

theorem vsum_append (a b : List K) : vsum (a ++ b) = vsum a + vsum b := by
  induction a with
  | nil => simp
  | cons x xs ih => simp [ih, add_assoc]

/-- the two-level sum of the code (per leaf, then over leaves) is the plain sum over all coordinates
    when the leaf sizes add up to the number of coordinates -/
theorem treeSum_eq_vsum (shape : List Nat) (v : List K) (h : shape.sum = v.length) :
    treeSum shape v = vsum v := by
  unfold treeSum
  induction shape generalizing v with
  | nil =>
    have : v = [] := List.eq_nil_of_length_eq_zero (by simpa using h.symm)
    subst this
    simp [leaves]
  | cons n ns ih =>
    have hn : n ≤ v.length := by rw [← h]; simp
    have h' : ns.sum = (v.drop n).length := by
      simp only [List.sum_cons] at h
      simp only [List.length_drop]
      omega
    simp only [leaves, List.map_cons, vsum_cons]
    rw [ih (v.drop n) h']
    conv_rhs => rw [← List.take_append_drop n v]
    rw [vsum_append]

/-- squared Euclidean distance |a − b|² -/
def sqDist (a b : List K) : K := vsum (List.zipWith (fun x y => (x - y) * (x - y)) a b)

/-- squared Euclidean norm |p|² -/
def sqNorm (p : List K) : K := vsum (p.map (fun a => a * a))

/-- sum of Gaussian log densities with common scale = −|y − m|²/(2σ²) − n·c -/
theorem vsum_normalLogpdf (c sigma : K) (hs : sigma ≠ 0) (y m : List K) (h : y.length = m.length) :
    vsum (List.zipWith (fun a b => normalLogpdf c sigma a b) y m)
      = -(sqDist y m) / (2 * sigma * sigma) - (y.length : K) * c := by
  unfold sqDist
  induction y generalizing m with
  | nil => simp
  | cons a as ih =>
    cases m with
    | nil => simp at h
    | cons b bs =>
      simp only [List.length_cons, Nat.add_right_cancel_iff] at h
      simp only [List.zipWith_cons_cons, vsum_cons, List.length_cons, Nat.cast_add, Nat.cast_one]
      rw [ih bs h]
      unfold normalLogpdf
      field_simp
      ring

theorem vsum_normalLogpdf_std (c : K) (p : List K) :
    vsum (p.map (fun a => normalLogpdf c 1 a 0)) = -(sqNorm p) / 2 - (p.length : K) * c := by
  unfold sqNorm
  induction p with
  | nil => simp
  | cons a as ih =>
    simp only [List.map_cons, vsum_cons, List.length_cons, Nat.cast_add, Nat.cast_one]
    rw [ih]
    unfold normalLogpdf
    simp only [div_one, sub_zero]
    ring

theorem sqNorm_vneg (p : List K) : sqNorm (vneg p) = sqNorm p := by
  unfold sqNorm vneg
  rw [List.map_map]
  congr 1
  apply List.map_congr_left
  intro a _
  simp

/-! ### dimension-indexed reversibility of leapfrog (the force field need only be defined on ℝᵈ) -/

/-- `g` maps d-dimensional points to d-dimensional vectors (weaker than the `∀ x, (g x).length = x.length`
    of `Proofs/Mcmc.lean`; satisfied by `quadGrad A b` for a d×d matrix `A`) -/
def DimPres (d : Nat) (g : List K → List K) : Prop := ∀ x, x.length = d → (g x).length = d

theorem DimPres_of_forall {g : List K → List K} (hg : ∀ x, (g x).length = x.length) (d : Nat) :
    DimPres d g := fun x hx => by rw [hg, hx]

/-- position and momentum are d-dimensional -/
def WSd (d : Nat) (s : List K × List K) : Prop := s.1.length = d ∧ s.2.length = d

theorem WSd_flip {d : Nat} {s : List K × List K} (h : WSd d s) : WSd d (flip s) := by
  simpa [WSd, flip] using h

theorem WSd_leapfrog {d : Nat} {g : List K → List K} (hg : DimPres d g) (eps : K)
    {s : List K × List K} (h : WSd d s) : WSd d (leapfrog g eps s) := by
  obtain ⟨x, p⟩ := s
  obtain ⟨hx, hp⟩ := h
  simp only at hx hp
  have h1 : (g x).length = d := hg x hx
  have hx1 : (vadd x (smul eps (vadd p (smul (eps / 2) (g x))))).length = d := by simp [h1, hx, hp]
  have h2 := hg _ hx1
  refine ⟨hx1, ?_⟩
  simp only [leapfrog]
  simp [h1, h2, hp]

theorem WSd_leapfrogN {d : Nat} {g : List K → List K} (hg : DimPres d g) (eps : K) (n : Nat)
    {s : List K × List K} (h : WSd d s) : WSd d (leapfrogN g eps n s) := by
  induction n generalizing s with
  | zero => simpa [leapfrogN] using h
  | succ n ih =>
    simp only [leapfrogN]
    exact ih (WSd_leapfrog hg eps h)

theorem leapfrog_flip_leapfrog_d {d : Nat} {g : List K → List K} (hg : DimPres d g) (eps : K)
    {s : List K × List K} (h : WSd d s) :
    leapfrog g eps (flip (leapfrog g eps s)) = flip s := by
  obtain ⟨x, p⟩ := s
  obtain ⟨hx, hp⟩ := h
  simp only at hx hp
  have h1 : (g x).length = d := hg x hx
  have hx1 : (vadd x (smul eps (vadd p (smul (eps / 2) (g x))))).length = d := by simp [h1, hx, hp]
  have h2 := hg _ hx1
  simp only [leapfrog, flip]
  rw [vadd_vneg_vadd_cancel _ _ (by simp [h1, h2, hp])]
  rw [vadd_smul_vneg_cancel _ _ _ (by simp [h1, hx, hp])]
  rw [vadd_vneg_vadd_cancel _ _ (by simp [h1, hp])]

theorem leapfrogN_flip_leapfrogN_d {d : Nat} {g : List K → List K} (hg : DimPres d g) (eps : K)
    (n : Nat) {s : List K × List K} (h : WSd d s) :
    leapfrogN g eps n (flip (leapfrogN g eps n s)) = flip s := by
  induction n generalizing s with
  | zero => simp [leapfrogN]
  | succ n ih =>
    rw [leapfrogN_succ']
    simp only [leapfrogN]
    rw [ih (WSd_leapfrog hg eps h)]
    exact leapfrog_flip_leapfrog_d hg eps h

/-- n leapfrog steps then a momentum flip is an involution on ℝᵈ × ℝᵈ for a force field defined on ℝᵈ -/
theorem leapfrogN_flip_involutive_d {d : Nat} {g : List K → List K} (hg : DimPres d g) (eps : K)
    (n : Nat) {s : List K × List K} (h : WSd d s) :
    flip (leapfrogN g eps n (flip (leapfrogN g eps n s))) = s := by
  rw [leapfrogN_flip_leapfrogN_d hg eps n h, flip_flip]

/-! ### MALA -/

/-- the Langevin kernel q(y | x) in unnormalised exponent form: −|y − x − (ε²/2)·g|² / (2ε²) -/
def langevinLogQ (eps : K) (x g y : List K) : K :=
  -(sqDist y (langevinMean eps x g)) / (2 * eps * eps)

@[simp] theorem length_langevinMean (eps : K) (x g : List K) :
    (langevinMean eps x g).length = min x.length g.length := by
  simp [langevinMean]

@[simp] theorem length_malaPropose (eps : K) (x g z : List K) :
    (malaPropose eps x g z).length = min (min x.length g.length) z.length := by
  simp [malaPropose]

/-- the proposal log density the code computes = unnormalised Langevin exponent − n·c -/
theorem malaLogProb_eq (c eps : K) (he : eps ≠ 0) (shape : List Nat) (cur prop g : List K)
    (hp : prop.length = cur.length) (hg : g.length = cur.length) (hs : shape.sum = cur.length) :
    malaLogProb c eps shape cur prop g = langevinLogQ eps cur g prop - (cur.length : K) * c := by
  unfold malaLogProb langevinLogQ
  rw [treeSum_eq_vsum _ _ (by simp [hp, hg, hs]),
    vsum_normalLogpdf c eps he _ _ (by simp [hp, hg]), hp]

/-- `mala`'s log alpha is the log Metropolis–Hastings ratio of the Langevin kernel written with
    UNNORMALISED proposal densities: the normalisers `c` cancel, for every dimension -/
theorem mala_ratio_is_mh_ratio (c eps : K) (he : eps ≠ 0) (shape : List Nat) (logp : List K → K)
    (grad : List K → List K) (x x' : List K) (hgrad : DimPres x.length grad)
    (hx : x'.length = x.length) (hs : shape.sum = x.length) :
    malaLogRatio c eps shape logp grad x x'
      = (logp x' + langevinLogQ eps x' (grad x') x) - (logp x + langevinLogQ eps x (grad x) x') := by
  unfold malaLogRatio
  simp only
  rw [malaLogProb_eq c eps he shape x x' (grad x) hx (hgrad x rfl) hs,
    malaLogProb_eq c eps he shape x' x (grad x') hx.symm (by rw [hgrad x' hx, hx]) (by rw [hs, hx]), hx]
  ring

/-- the same for the proposal actually made from the noise drawn -/
theorem mala_alpha_is_mh_ratio (c eps : K) (he : eps ≠ 0) (shape : List Nat) (logp : List K → K)
    (grad : List K → List K) (x noise : List K) (hgrad : DimPres x.length grad)
    (hn : noise.length = x.length) (hs : shape.sum = x.length) :
    malaLogAlpha c eps shape logp grad x noise
      = (logp (malaPropose eps x (grad x) noise)
            + langevinLogQ eps (malaPropose eps x (grad x) noise)
                (grad (malaPropose eps x (grad x) noise)) x)
        - (logp x + langevinLogQ eps x (grad x) (malaPropose eps x (grad x) noise)) := by
  unfold malaLogAlpha malaStep
  simp only
  exact mala_ratio_is_mh_ratio c eps he shape logp grad x _ hgrad (by simp [hgrad x rfl, hn]) hs

/-- the value of the normaliser is irrelevant -/
theorem mala_alpha_normaliser_free (c c' eps : K) (he : eps ≠ 0) (shape : List Nat)
    (logp : List K → K) (grad : List K → List K) (x noise : List K)
    (hgrad : DimPres x.length grad) (hn : noise.length = x.length) (hs : shape.sum = x.length) :
    malaLogAlpha c eps shape logp grad x noise = malaLogAlpha c' eps shape logp grad x noise := by
  rw [mala_alpha_is_mh_ratio c eps he shape logp grad x noise hgrad hn hs,
    mala_alpha_is_mh_ratio c' eps he shape logp grad x noise hgrad hn hs]

/-- antisymmetry of the log MH ratio: the reverse move x' → x has the negated log alpha
    (no side condition: it is how the code composes the three terms) -/
theorem mala_reverse_symmetric (c eps : K) (shape : List Nat) (logp : List K → K)
    (grad : List K → List K) (x x' : List K) :
    malaLogRatio c eps shape logp grad x' x = -malaLogRatio c eps shape logp grad x x' := by
  unfold malaLogRatio
  simp only
  ring

/-! ### HMC -/

/-- kinetic energy ½|p|² -/
def kinetic (p : List K) : K := sqNorm p / 2

/-- Hamiltonian H(x, p) = −log π(x) + ½|p|² -/
def energy (logp : List K → K) (s : List K × List K) : K := -logp s.1 + kinetic s.2

theorem energy_flip (logp : List K → K) (s : List K × List K) :
    energy logp (flip s) = energy logp s := by
  simp [energy, flip, kinetic, sqNorm_vneg]

/-- the momentum score the code computes = −½|p|² − n·c -/
theorem momentumScore_eq (c : K) (shape : List Nat) (p : List K) (hs : shape.sum = p.length) :
    momentumScore c shape p = -kinetic p - (p.length : K) * c := by
  unfold momentumScore kinetic
  rw [treeSum_eq_vsum _ _ (by simp [hs]), vsum_normalLogpdf_std]
  ring

/-- `hmc`'s log alpha is the energy difference (log π(x') − ½|p'|²) − (log π(x) − ½|p|²) between the
    end point (x', p') of the leapfrog trajectory and the start; the normalisers cancel -/
theorem hmc_alpha_is_energy_difference (c eps : K) (n : Nat) (shape : List Nat) (logp : List K → K)
    (grad : List K → List K) (x p : List K) (hgrad : DimPres x.length grad)
    (hl : p.length = x.length) (hs : shape.sum = x.length) :
    hmcLogAlpha c eps n shape logp grad x p
      = (logp (leapfrogN grad eps n (x, p)).1 - kinetic (leapfrogN grad eps n (x, p)).2)
        - (logp x - kinetic p) := by
  have hws : WSd x.length (leapfrogN grad eps n (x, p)) :=
    WSd_leapfrogN hgrad eps n (s := (x, p)) ⟨rfl, hl⟩
  have hlen : (leapfrogN grad eps n (x, p)).2.length = p.length := by rw [hws.2, hl]
  unfold hmcLogAlpha
  simp only
  rw [momentumScore_eq c shape p (by rw [hs, hl]),
    momentumScore_eq c shape (flip (leapfrogN grad eps n (x, p))).2 (by simp [flip, hs, hws.2])]
  simp only [flip, length_vneg, hlen, kinetic, sqNorm_vneg]
  ring

/-- in terms of the Hamiltonian: log alpha = H(x, p) − H(flip (leapfrogⁿ (x, p))) -/
theorem hmc_alpha_eq_energy (c eps : K) (n : Nat) (shape : List Nat) (logp : List K → K)
    (grad : List K → List K) (x p : List K) (hgrad : DimPres x.length grad)
    (hl : p.length = x.length) (hs : shape.sum = x.length) :
    hmcLogAlpha c eps n shape logp grad x p
      = energy logp (x, p) - energy logp (flip (leapfrogN grad eps n (x, p))) := by
  rw [hmc_alpha_is_energy_difference c eps n shape logp grad x p hgrad hl hs, energy_flip]
  simp only [energy]
  ring

/-- antisymmetry under the involution: from the proposed phase-space point (x*, p*) =
    flip (leapfrogⁿ (x, p)) the kernel proposes (x, p) back and its log alpha is the negation -/
theorem hmc_reverse_symmetric (c eps : K) (n : Nat) (shape : List Nat) (logp : List K → K)
    (grad : List K → List K) (x p : List K) (hgrad : DimPres x.length grad)
    (hl : p.length = x.length) (hs : shape.sum = x.length) :
    hmcStep c eps n shape logp grad (flip (leapfrogN grad eps n (x, p))).1
        (flip (leapfrogN grad eps n (x, p))).2
      = ((x, p), -hmcLogAlpha c eps n shape logp grad x p) := by
  have hws : WSd x.length (leapfrogN grad eps n (x, p)) :=
    WSd_leapfrogN hgrad eps n (s := (x, p)) ⟨rfl, hl⟩
  have hws' : WSd x.length (flip (leapfrogN grad eps n (x, p))) := WSd_flip hws
  have hinv := leapfrogN_flip_involutive_d hgrad eps n (s := (x, p)) ⟨rfl, hl⟩
  unfold hmcStep
  rw [hmc_alpha_eq_energy c eps n shape logp grad _ _ (by rw [hws'.1]; exact hgrad)
      (by rw [hws'.1, hws'.2]) (by rw [hws'.1, hs]),
    hmc_alpha_eq_energy c eps n shape logp grad x p hgrad hl hs]
  simp only [Prod.mk.eta, hinv]
  congr 1
  ring

/-- the log alpha component of `hmc_reverse_symmetric` -/
theorem hmc_alpha_reverse (c eps : K) (n : Nat) (shape : List Nat) (logp : List K → K)
    (grad : List K → List K) (x p : List K) (hgrad : DimPres x.length grad)
    (hl : p.length = x.length) (hs : shape.sum = x.length) :
    hmcLogAlpha c eps n shape logp grad (flip (leapfrogN grad eps n (x, p))).1
        (flip (leapfrogN grad eps n (x, p))).2
      = -hmcLogAlpha c eps n shape logp grad x p :=
  congrArg Prod.snd (hmc_reverse_symmetric c eps n shape logp grad x p hgrad hl hs)

/-- sanity corollary: if the integrator conserves the Hamiltonian along the run, log alpha = 0
    (the move is always accepted) -/
theorem hmc_exact_for_constant_energy (c eps : K) (n : Nat) (shape : List Nat) (logp : List K → K)
    (grad : List K → List K) (x p : List K) (hgrad : DimPres x.length grad)
    (hl : p.length = x.length) (hs : shape.sum = x.length)
    (hH : energy logp (leapfrogN grad eps n (x, p)) = energy logp (x, p)) :
    hmcLogAlpha c eps n shape logp grad x p = 0 := by
  rw [hmc_alpha_eq_energy c eps n shape logp grad x p hgrad hl hs, energy_flip, hH, sub_self]

/-! ### the quadratic targets of the driver satisfy the dimension hypothesis -/

theorem length_matVec (A : List (List K)) (x : List K) : (matVec A x).length = A.length := by
  simp [matVec]

theorem DimPres_quadGrad (A : List (List K)) (b : List K) (d : Nat) (hA : A.length = d)
    (hb : b.length = d) : DimPres d (quadGrad A b) := by
  intro x _
  simp [quadGrad, length_matVec, hA, hb]

end Genjax.Mcmc
