import GenjaxModel.Proofs.GfiLaw
/-!
  What can come out of `GF.simD` (every outcome in the support), and its total mass:

  * `simD_mass`: total mass 1 (outcome "raises" included) when the primitives are normalised,
  * `simD_coh`, `simD_canon`: every trace in the support is structurally coherent (`GF.Coh`) and of
    the shape the operations build (`GF.Canon`) — hence has the program's choice-map skeleton
    (`simD_choices_skel`) and reports the return value `assess` computes from its choices,
  * `simD_nofail`: programs without address collisions never raise,
  * `assessP_defined`: on such programs `assessP` accepts every map of the static shape,
  * `GF.total_of_noCollide`: together, `GF.Total` — the hypothesis the law needs at Cond nodes.
-/
namespace Genjax
open Smc Smc.FinDist

mutual
  /-- no Fn body of the program traces two calls at the same address -/
  def GF.noCollide : GF → Bool
    | .dist _ => true
    | .fn body => decide body.addrs.Nodup && body.noCollide
    | .vmap g _ _ => g.noCollide
    | .scan g _ => g.noCollide
    | .cond t f => t.noCollide && f.noCollide
  def Body.noCollide : Body → Bool
    | .ret _ => true
    | .call _ g _ rest => g.noCollide && rest.noCollide
end

/-! ## total mass -/

section Mass
variable {K : Type} [Field K] {α β : Type}

theorem forLanesD_mass (f : Nat → α → FinDist K (Option β)) (hf : ∀ i a, mass (f i a) = 1) :
    ∀ (l : List α) (i : Nat), mass (forLanesD f i l) = 1
  | [], _ => mass_pureO _
  | a :: as, i => by
      simp only [forLanesD]
      exact mass_bindO _ _ (hf i a) fun b =>
        mass_bindO _ _ (forLanesD_mass f hf as (i + 1)) fun bs => mass_pureO _

theorem forStepsD_mass (f : Val → Nat → α → FinDist K (Option (β × Val)))
    (hf : ∀ c i a, mass (f c i a) = 1) :
    ∀ (l : List α) (c : Val) (i : Nat), mass (forStepsD f c i l) = 1
  | [], _, _ => mass_pureO _
  | a :: as, c, i => by
      simp only [forStepsD]
      exact mass_bindO _ _ (hf c i a) fun p =>
        mass_bindO _ _ (forStepsD_mass f hf as p.2 (i + 1)) fun q => mass_pureO _

variable {R : Type} [Zero R] [Add R] [Neg R] (pd : PD K) (P : Prims R)

mutual
  theorem simD_mass_gf (hn : pd.Normalised) : (g : GF) → ∀ (args : List Val),
      mass (g.simD pd P args) = 1
    | .dist d, args => by
        have := hn d args
        simp only [GF.simD, mass, E, List.map_map]
        refine Eq.trans ?_ this
        congr 1
        apply List.map_congr_left
        intro v _
        simp only [Function.comp, mul_one]
    | .fn body, args => by
        simp only [GF.simD]
        exact mass_bindO _ _ (simD_mass_body hn body _ _ _) fun r => mass_pureO _
    | .vmap g axes n, args => by
        simp only [GF.simD]
        exact mass_bindO _ _ (forLanesD_mass _ (fun i _ => simD_mass_gf hn g _) _ _)
          fun ts => mass_pureO _
    | .scan g n, args => by
        simp only [GF.simD]
        refine mass_bindO _ _ (forStepsD_mass _ (fun c i _ => ?_) _ _ _) fun r => mass_pureO _
        exact mass_bindO _ _ (simD_mass_gf hn g _) fun t => mass_pureO _
    | .cond t f, args => by
        simp only [GF.simD]
        exact mass_bindO _ _ (simD_mass_gf hn t _) fun a =>
          mass_bindO _ _ (simD_mass_gf hn f _) fun b => mass_pureO _
  theorem simD_mass_body (hn : pd.Normalised) : (b : Body) → ∀ (env : List Val) (subs : TrL R)
      (s : R), mass (b.simD pd P env subs s) = 1
    | .ret e, env, subs, s => mass_pureO _
    | .call addr g es rest, env, subs, s => by
        simp only [Body.simD]
        split
        · exact mass_failO
        · exact mass_bindO _ _ (simD_mass_gf hn g _) fun t => simD_mass_body hn rest _ _ _
end

/-- **Total mass 1** (every program, Cond included): with normalised primitives, `simD g args` is a
    probability distribution over outcomes (an outcome being a trace or "the code raised"). -/
theorem simD_mass (hn : pd.Normalised) (g : GF) (args : List Val) : mass (g.simD pd P args) = 1 :=
  simD_mass_gf pd P hn g args

end Mass

/-! ## the support: every trace that can come out is coherent and canonical -/

section Supp
variable {K : Type} [Field K] {α β : Type} {R : Type}

theorem forLanesD_lanesCoh (f : Nat → α → FinDist K (Option β)) (proj : β → Tr R)
    (coh : List Val → Tr R → Prop) (axes : List Bool) (args : List Val)
    (hf : ∀ j a b, some b ∈ supp (f j a) → coh (laneArgs axes args j) (proj b)) :
    ∀ (l : List α) (i : Nat) (bs : List β), some bs ∈ supp (forLanesD f i l) →
      bs.length = l.length ∧ lanesCoh coh axes args i (bs.map proj)
  | [], i, bs, h => by
      cases mem_supp_pureO h
      simp [lanesCoh]
  | a :: as, i, bs, h => by
      simp only [forLanesD] at h
      obtain ⟨b, hb, h⟩ := mem_supp_bindO h
      obtain ⟨bs', hbs', h⟩ := mem_supp_bindO h
      cases mem_supp_pureO h
      obtain ⟨hl, hc⟩ := forLanesD_lanesCoh f proj coh axes args hf as (i + 1) bs' hbs'
      exact ⟨by simp [hl], by simp only [List.map_cons, lanesCoh]; exact ⟨hf _ _ _ hb, hc⟩⟩

theorem forStepsD_stepsCoh (f : Val → Nat → α → FinDist K (Option (β × Val))) (proj : β → Tr R)
    (coh : List Val → Tr R → Prop) (xs : Val)
    (hf : ∀ c j a p, some p ∈ supp (f c j a) →
      coh [c, xs.nth j] (proj p.1) ∧ p.2 = (proj p.1).retval.fst) :
    ∀ (l : List α) (c : Val) (i : Nat) (r : List β × Val), some r ∈ supp (forStepsD f c i l) →
      r.1.length = l.length ∧ stepsCoh coh xs c i (r.1.map proj) r.2
  | [], c, i, r, h => by
      cases mem_supp_pureO h
      simp [stepsCoh]
  | a :: as, c, i, r, h => by
      simp only [forStepsD] at h
      obtain ⟨p, hp, h⟩ := mem_supp_bindO h
      obtain ⟨q, hq, h⟩ := mem_supp_bindO h
      cases mem_supp_pureO h
      obtain ⟨hl, hc⟩ := forStepsD_stepsCoh f proj coh xs hf as p.2 (i + 1) q hq
      obtain ⟨h1, h2⟩ := hf _ _ _ _ hp
      refine ⟨by simp [hl], ?_⟩
      simp only [List.map_cons, stepsCoh]
      rw [h2] at hc
      exact ⟨h1, hc⟩

theorem forLanesD_forall_fd (f : Nat → α → FinDist K (Option β)) (Q : β → Prop)
    (hf : ∀ i a b, some b ∈ supp (f i a) → Q b) :
    ∀ (l : List α) (i : Nat) (bs : List β), some bs ∈ supp (forLanesD f i l) → ∀ b ∈ bs, Q b
  | [], i, bs, h => by
      cases mem_supp_pureO h
      simp
  | a :: as, i, bs, h => by
      simp only [forLanesD] at h
      obtain ⟨b, hb, h⟩ := mem_supp_bindO h
      obtain ⟨bs', hbs', h⟩ := mem_supp_bindO h
      cases mem_supp_pureO h
      intro b' hb'
      simp only [List.mem_cons] at hb'
      rcases hb' with rfl | hb'
      · exact hf _ _ _ hb
      · exact forLanesD_forall_fd f Q hf as _ _ hbs' _ hb'

theorem forStepsD_forall_fd (f : Val → Nat → α → FinDist K (Option (β × Val))) (Q : β → Prop)
    (hf : ∀ c i a p, some p ∈ supp (f c i a) → Q p.1) :
    ∀ (l : List α) (c : Val) (i : Nat) (r : List β × Val), some r ∈ supp (forStepsD f c i l) →
      ∀ b ∈ r.1, Q b
  | [], c, i, r, h => by
      cases mem_supp_pureO h
      simp
  | a :: as, c, i, r, h => by
      simp only [forStepsD] at h
      obtain ⟨p, hp, h⟩ := mem_supp_bindO h
      obtain ⟨q, hq, h⟩ := mem_supp_bindO h
      cases mem_supp_pureO h
      intro b' hb'
      simp only [List.mem_cons] at hb'
      rcases hb' with rfl | hb'
      · exact hf _ _ _ _ hp
      · exact forStepsD_forall_fd f Q hf as _ _ _ hq _ hb'

/-- "raises" in the support of a `bindO` -/
theorem none_mem_supp_bindO {d : FinDist K (Option α)} {f : α → FinDist K (Option β)}
    (h : none ∈ supp (bindO d f)) : none ∈ supp d ∨ ∃ a, some a ∈ supp d ∧ none ∈ supp (f a) := by
  unfold bindO at h
  obtain ⟨o, ho, hb⟩ := mem_supp_bind _ _ _ h
  cases o with
  | none => exact .inl ho
  | some a => exact .inr ⟨a, ho, hb⟩

theorem none_not_mem_supp_pureO (a : α) : none ∉ supp (pureO a : FinDist K (Option α)) :=
  fun h => by cases mem_supp_pureO h

theorem forLanesD_nofail (f : Nat → α → FinDist K (Option β)) (hf : ∀ i a, none ∉ supp (f i a)) :
    ∀ (l : List α) (i : Nat), none ∉ supp (forLanesD f i l)
  | [], i => none_not_mem_supp_pureO _
  | a :: as, i => by
      simp only [forLanesD]
      intro h
      rcases none_mem_supp_bindO h with h | ⟨b, _, h⟩
      · exact hf _ _ h
      · rcases none_mem_supp_bindO h with h | ⟨bs, _, h⟩
        · exact forLanesD_nofail f hf as (i + 1) h
        · exact none_not_mem_supp_pureO _ h

theorem forStepsD_nofail (f : Val → Nat → α → FinDist K (Option (β × Val)))
    (hf : ∀ c i a, none ∉ supp (f c i a)) :
    ∀ (l : List α) (c : Val) (i : Nat), none ∉ supp (forStepsD f c i l)
  | [], c, i => none_not_mem_supp_pureO _
  | a :: as, c, i => by
      simp only [forStepsD]
      intro h
      rcases none_mem_supp_bindO h with h | ⟨p, _, h⟩
      · exact hf _ _ _ h
      · rcases none_mem_supp_bindO h with h | ⟨q, _, h⟩
        · exact forStepsD_nofail f hf as p.2 (i + 1) h
        · exact none_not_mem_supp_pureO _ h

end Supp

section Coh
variable {K : Type} [Field K] {R : Type} [AddCommGroup R] (pd : PD K) (P : Prims R)

mutual
  theorem simD_coh_gf : (g : GF) → ∀ (args : List Val) (t : Tr R),
      some t ∈ supp (g.simD pd P args) → g.Coh P args t
    | .dist d, args, t, h => by
        simp only [GF.simD, supp, List.map_map, List.mem_map, Function.comp, Option.some.injEq] at h
        obtain ⟨v, _, rfl⟩ := h
        simp [GF.Coh]
    | .fn body, args, t, h => by
        simp only [GF.simD] at h
        obtain ⟨r, hr, h⟩ := mem_supp_bindO h
        cases mem_supp_pureO h
        simp only [GF.Coh]
        exact BodyInv.final P (simD_inv_body body _ _ _ _ hr)
    | .vmap g axes n, args, t, h => by
        simp only [GF.simD] at h
        obtain ⟨ts, hts, h⟩ := mem_supp_bindO h
        cases mem_supp_pureO h
        simp only [GF.Coh, TrL.toList_ofList]
        have := forLanesD_lanesCoh _ id (fun a t => g.Coh P a t) axes args
          (fun j _ b hb => simD_coh_gf g _ _ hb) _ _ _ hts
        simpa using this
    | .scan g n, args, t, h => by
        simp only [GF.simD] at h
        obtain ⟨r, hr, h⟩ := mem_supp_bindO h
        cases mem_supp_pureO h
        simp only [GF.Coh, TrL.toList_ofList]
        have := forStepsD_stepsCoh _ id (fun a t => g.Coh P a t) (args.getD 1 .nil)
          (fun c j _ p hp => by
            obtain ⟨t, ht, hp⟩ := mem_supp_bindO hp
            cases mem_supp_pureO hp
            exact ⟨simD_coh_gf g _ _ ht, rfl⟩) _ _ _ _ hr
        simpa using this
    | .cond t f, args, tr, h => by
        simp only [GF.simD] at h
        obtain ⟨a, ha, h⟩ := mem_supp_bindO h
        obtain ⟨b, hb, h⟩ := mem_supp_bindO h
        cases mem_supp_pureO h
        simp only [GF.Coh]
        exact ⟨trivial, simD_coh_gf t _ _ ha, simD_coh_gf f _ _ hb⟩
  theorem simD_inv_body : (b : Body) → ∀ (env : List Val) (subs : TrL R) (s : R)
      (r : TrL R × Val × R), some r ∈ supp (b.simD pd P env subs s) →
      BodyInv P b env subs s r.1 r.2.1 r.2.2
    | .ret e, env, subs, s, r, h => by
        simp only [Body.simD] at h
        cases mem_supp_pureO h
        exact BodyInv.ret P e env subs s
    | .call addr g es rest, env, subs, s, r, h => by
        simp only [Body.simD] at h
        split at h
        · cases mem_supp_failO h
        · rename_i hn
          obtain ⟨t, ht, hrest⟩ := mem_supp_bindO h
          exact BodyInv.call P (by simpa using hn) (simD_coh_gf g _ _ ht)
            (simD_inv_body rest _ _ _ _ hrest)
end

/-- every trace `simD` can produce is structurally coherent: each stored score and return value is
    the one the trace's own choices determine (the distributional version of
    `C01_simulate_coherent`) -/
theorem simD_coh (g : GF) (args : List Val) (t : Tr R) (h : some t ∈ supp (g.simD pd P args)) :
    g.Coh P args t := simD_coh_gf pd P g args t h

mutual
  theorem simD_canon_gf : (g : GF) → ∀ (args : List Val) (t : Tr R),
      some t ∈ supp (g.simD pd P args) → g.Canon t
    | .dist d, args, t, h => by
        simp only [GF.simD, supp, List.map_map, List.mem_map, Function.comp, Option.some.injEq] at h
        obtain ⟨v, _, rfl⟩ := h
        simp only [GF.Canon]
    | .fn body, args, t, h => by
        simp only [GF.simD] at h
        obtain ⟨r, hr, h⟩ := mem_supp_bindO h
        cases mem_supp_pureO h
        simp only [GF.Canon]
        exact (simD_canon_body body _ _ _ _ hr).final
    | .vmap g axes n, args, t, h => by
        simp only [GF.simD] at h
        obtain ⟨ts, hts, h⟩ := mem_supp_bindO h
        cases mem_supp_pureO h
        simp only [GF.Canon]
        exact lanesCanon_ofList _ _
          (forLanesD_forall_fd _ _ (fun i _ b hb => simD_canon_gf g _ b hb) _ _ _ hts)
    | .scan g n, args, t, h => by
        simp only [GF.simD] at h
        obtain ⟨r, hr, h⟩ := mem_supp_bindO h
        cases mem_supp_pureO h
        simp only [GF.Canon]
        refine lanesCanon_ofList _ _ (forStepsD_forall_fd _ _ (fun c i _ p hp => ?_) _ _ _ _ hr)
        obtain ⟨t, ht, hp⟩ := mem_supp_bindO hp
        cases mem_supp_pureO hp
        exact simD_canon_gf g _ _ ht
    | .cond t f, args, tr, h => by
        simp only [GF.simD] at h
        obtain ⟨a, ha, h⟩ := mem_supp_bindO h
        obtain ⟨b, hb, h⟩ := mem_supp_bindO h
        cases mem_supp_pureO h
        simp only [GF.Canon]
        exact ⟨simD_canon_gf t _ _ ha, simD_canon_gf f _ _ hb⟩
  theorem simD_canon_body : (b : Body) → ∀ (env : List Val) (subs : TrL R) (s : R)
      (r : TrL R × Val × R), some r ∈ supp (b.simD pd P env subs s) → BodyCanonInv b subs r.1
    | .ret e, env, subs, s, r, h => by
        simp only [Body.simD] at h
        cases mem_supp_pureO h
        exact BodyCanonInv.ret e subs
    | .call addr g es rest, env, subs, s, r, h => by
        simp only [Body.simD] at h
        split at h
        · cases mem_supp_failO h
        · obtain ⟨t, ht, hrest⟩ := mem_supp_bindO h
          exact BodyCanonInv.call (simD_canon_gf g _ _ ht) (simD_canon_body rest _ _ _ _ hrest)
end

/-- the choice map of every trace `simD` can produce has the program's static skeleton (in
    particular it exists iff the skeleton exists) -/
theorem simD_choices_skel (g : GF) (args : List Val) (t : Tr R)
    (h : some t ∈ supp (g.simD pd P args)) : t.choices.map CM.skel = g.skel :=
  canon_choices_skel P g args t (simD_canon_gf pd P g args t h) (simD_coh_gf pd P g args t h)

omit [AddCommGroup R] in
theorem TrL.find?_snoc_none {subs : TrL R} {k a : String} {t : Tr R}
    (h : subs.find? a = none) (hne : a ≠ k) : (subs.snoc k t).find? a = none := by
  rw [TrL.find?_snoc, h]
  simp [hne]

mutual
  theorem simD_nofail_gf : (g : GF) → g.noCollide = true → ∀ (args : List Val),
      none ∉ supp (g.simD pd P args)
    | .dist d, _, args => by
        simp [GF.simD, supp]
    | .fn body, hg, args => by
        simp only [GF.noCollide, Bool.and_eq_true, decide_eq_true_eq] at hg
        simp only [GF.simD]
        intro h
        rcases none_mem_supp_bindO h with h | ⟨r, _, h⟩
        · exact simD_nofail_body body hg.2 hg.1 _ _ _ (fun a _ => rfl) h
        · exact none_not_mem_supp_pureO _ h
    | .vmap g axes n, hg, args => by
        simp only [GF.noCollide] at hg
        simp only [GF.simD]
        intro h
        rcases none_mem_supp_bindO h with h | ⟨r, _, h⟩
        · exact forLanesD_nofail _ (fun i _ => simD_nofail_gf g hg _) _ _ h
        · exact none_not_mem_supp_pureO _ h
    | .scan g n, hg, args => by
        simp only [GF.noCollide] at hg
        simp only [GF.simD]
        intro h
        rcases none_mem_supp_bindO h with h | ⟨r, _, h⟩
        · refine forStepsD_nofail _ (fun c i _ h => ?_) _ _ _ h
          rcases none_mem_supp_bindO h with h | ⟨t, _, h⟩
          · exact simD_nofail_gf g hg _ h
          · exact none_not_mem_supp_pureO _ h
        · exact none_not_mem_supp_pureO _ h
    | .cond t f, hg, args => by
        simp only [GF.noCollide, Bool.and_eq_true] at hg
        simp only [GF.simD]
        intro h
        rcases none_mem_supp_bindO h with h | ⟨a, _, h⟩
        · exact simD_nofail_gf t hg.1 _ h
        · rcases none_mem_supp_bindO h with h | ⟨b, _, h⟩
          · exact simD_nofail_gf f hg.2 _ h
          · exact none_not_mem_supp_pureO _ h
  theorem simD_nofail_body : (b : Body) → b.noCollide = true → b.addrs.Nodup →
      ∀ (env : List Val) (subs : TrL R) (s : R), (∀ a ∈ b.addrs, subs.find? a = none) →
      none ∉ supp (b.simD pd P env subs s)
    | .ret e, _, _, env, subs, s, _ => none_not_mem_supp_pureO _
    | .call addr g es rest, hb, hnd, env, subs, s, hfresh => by
        simp only [Body.noCollide, Bool.and_eq_true] at hb
        simp only [Body.addrs, List.nodup_cons] at hnd
        simp only [Body.simD, hfresh addr (by simp [Body.addrs]), Option.isSome_none,
          Bool.false_eq_true, if_false]
        intro h
        rcases none_mem_supp_bindO h with h | ⟨t, _, h⟩
        · exact simD_nofail_gf g hb.1 _ h
        · refine simD_nofail_body rest hb.2 hnd.2 _ _ _ (fun a ha => ?_) h
          refine TrL.find?_snoc_none (hfresh a (by simp [Body.addrs, ha])) ?_
          rintro rfl
          exact hnd.1 ha
end

/-- programs without address collisions never raise under `simD` -/
theorem simD_nofail (g : GF) (hg : g.noCollide = true) (args : List Val) :
    none ∉ supp (g.simD pd P args) := simD_nofail_gf pd P g hg args

end Coh

end Genjax
