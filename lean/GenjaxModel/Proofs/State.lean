import GenjaxModel.Model.State
import Mathlib.Tactic.Ring
import Mathlib.Tactic.Linarith
/-!
  C19: the `state` interpreter collects exactly what was saved.
-/
namespace Genjax.State

def Store.get? (s : Store) (p : Path) : Option SV := (s.find? fun e => e.1 == p).map (·.2)

theorem isPrefix_refl : ∀ p : Path, isPrefix p p = true
  | [] => rfl
  | a :: as => by simp [isPrefix, isPrefix_refl as]

/-- a later write to the same name replaces the earlier one … -/
theorem set_get (s : Store) (p : Path) (v : SV) : (s.set p v).get? p = some v := by
  have h : (s.filter fun e => !(isPrefix p e.1)).find? (fun e => e.1 == p) = none := by
    rw [List.find?_eq_none]
    intro e he
    rw [List.mem_filter] at he
    intro hp
    have : e.1 = p := by simpa using hp
    rw [this, isPrefix_refl] at he
    simp at he
  simp only [Store.get?, Store.set, List.find?_append, h, Option.none_or]
  simp

/-- … and leaves every unrelated entry alone -/
theorem set_other (s : Store) (p q : Path) (v : SV)
    (h1 : isPrefix p q = false) : (s.set p v).get? q = s.get? q := by
  have hne : p ≠ q := by
    intro h; rw [h, isPrefix_refl] at h1; exact Bool.noConfusion h1
  have hf : (s.filter fun e => !(isPrefix p e.1)).find? (fun e => e.1 == q)
      = s.find? (fun e => e.1 == q) := by
    rw [List.find?_filter]
    congr 1
    funext e
    by_cases he : e.1 = q
    · simp [he, h1]
    · simp [he]
  simp only [Store.get?, Store.set, List.find?_append, hf]
  cases hs : s.find? (fun e => e.1 == q) with
  | some x => simp
  | none => simp [hne]

/-- a value saved (named mode) under the namespace stack `ns` lands at `ns ++ [name]` -/
theorem tag_collects (cfg : Cfg) (name : String) (id : Nat) (idx lanes : List Nat) (st : St) :
    ∃ st', (SP.tag name id).exec cfg idx lanes st = some st' ∧ st'.ns = st.ns ∧
      st'.store.get? (st.ns ++ [name]) = some (batched id idx lanes) := by
  refine ⟨{ st with store := st.store.set (st.ns ++ [name]) (batched id idx lanes) }, ?_, rfl,
    set_get _ _ _⟩
  simp only [SP.exec]

/-- values saved under vmap are batched: one array axis per enclosing vmap, outermost first -/
theorem vmap_batched (cfg : Cfg) (name : String) (id n : Nat) (st : St) :
    ∃ st', (SP.vmap (.cons (.tag name id) .nil) n).exec cfg [] [] st = some st' ∧
      st'.store.get? (st.ns ++ [name]) =
        some (SV.stack ((List.range n).map fun l => SV.atom id [l])) := by
  refine ⟨{ st with store := st.store.set (st.ns ++ [name]) (batched id [] ([] ++ [n])) }, ?_, ?_⟩
  · simp only [SP.exec, SPL.exec, Option.bind_eq_bind, Option.bind_some]
  · have := set_get st.store (st.ns ++ [name]) (batched id [] ([] ++ [n]))
    simpa [batched] using this

theorem mapM_some {α β : Type} (f : α → β) (l : List α) :
    (l.mapM (fun a => (some (f a) : Option β))) = some (l.map f) := by
  induction l with
  | nil => rfl
  | cons a l ih => simp [List.mapM_cons, ih]

theorem stackStores_single {α : Type} (p : Path) (f : α → SV) (l : List α) (hl : l ≠ []) :
    stackStores (l.map fun a => [(p, f a)]) = [(p, SV.stack (l.map f))] := by
  cases l with
  | nil => exact absurd rfl hl
  | cons a l =>
    simp [stackStores, Function.comp_def]

theorem scan_iters (cfg : Cfg) (name : String) (id n : Nat) (hn : 0 < n) (st : St) :
    (SP.scan (.cons (.tag name id) .nil) n).exec cfg [] [] st =
      some (mergeScan cfg st [([name], SV.stack ((List.range n).map fun i => SV.atom id [i]))]) := by
  have hne : List.range n ≠ [] := by
    intro h; have := congrArg List.length h; simp at this; omega
  have hb : ∀ i : Nat,
      ((SPL.cons (.tag name id) .nil).exec cfg ([] ++ [i]) [] { store := [], ns := [] }).map (·.store)
        = some [([name], SV.atom id [i])] := by
    intro i
    simp [SP.exec, SPL.exec, Store.set, batched]
  simp only [SP.exec, hb]
  rw [mapM_some, Option.bind_eq_bind, Option.bind_some,
    stackStores_single [name] (fun i => SV.atom id [i]) _ hne]
  rfl

/-- values saved inside a scan body are stacked along the iteration axis and (specification
    variant) stored under the namespaces enclosing the scan -/
theorem scan_stacks_spec (name : String) (id n : Nat) (hn : 0 < n) (st : St) :
    ∃ st', (SP.scan (.cons (.tag name id) .nil) n).exec ⟨true⟩ [] [] st = some st' ∧ st'.ns = st.ns ∧
      st'.store.get? (st.ns ++ [name]) =
        some (SV.stack ((List.range n).map fun i => SV.atom id [i])) := by
  refine ⟨_, scan_iters ⟨true⟩ name id n hn st, ?_, ?_⟩
  · simp [mergeScan]
  · simp only [mergeScan, if_true, List.foldl_cons, List.foldl_nil]
    exact set_get _ _ _

/-- the code as it is stores them at the root instead (namespace around a scan is lost) -/
theorem scan_stacks_asis (name : String) (id n : Nat) (hn : 0 < n) (st : St) :
    ∃ st', (SP.scan (.cons (.tag name id) .nil) n).exec ⟨false⟩ [] [] st = some st' ∧ st'.ns = st.ns ∧
      st'.store.get? [name] =
        some (SV.stack ((List.range n).map fun i => SV.atom id [i])) := by
  refine ⟨_, scan_iters ⟨false⟩ name id n hn st, ?_, ?_⟩
  · simp [mergeScan]
  · have h : (st.store.filter fun e => !(e.1.head? == some name)).find? (fun e => e.1 == [name]) = none := by
      rw [List.find?_eq_none]
      intro e he
      rw [List.mem_filter] at he
      intro hp
      have : e.1 = [name] := by simpa using hp
      rw [this] at he
      simp at he
    have ht : ∀ v : SV, topNames [([name], v)] = [name] := fun _ => rfl
    simp [mergeScan, ht, Store.replaceTop, Store.get?, List.find?_append, h]

/-- proved counterexample for the code as it is: a namespace opened around a scan is lost for
    values saved in the scan body (`push a; scan [save(x=e1)] 2; pop`) -/
theorem asis_ns_across_scan_cex :
    let p : SPL := .cons (.push "a") (.cons (.scan (.cons (.tag "x" 1) .nil) 2) (.cons .pop .nil))
    collect ⟨false⟩ p = some [(["x"], SV.stack [SV.atom 1 [0], SV.atom 1 [1]])] ∧
    collect ⟨true⟩ p = some [(["a", "x"], SV.stack [SV.atom 1 [0], SV.atom 1 [1]])] := by
  intro p
  constructor <;> rfl

end Genjax.State

