import GenjaxModel.Proofs.GfiValuesUpdate
/-!
  Value-level theorems for `regenerate` (C04): unselected addresses keep their value, the discard
  holds the old values of exactly the selected addresses.
-/
namespace Genjax
variable {R : Type} [AddCommGroup R] (P : Prims R) (cfg : Cfg)

theorem Sel.selectedPath_nil (s : Sel) : s.selectedPath [] = s.leaf := rfl

theorem Sel.selectedPath_key (s : Sel) (a : String) (p : Path) :
    s.selectedPath (.key a :: p) = (s.matchAddr a).2.selectedPath p := rfl

theorem Sel.selectedPath_idx (s : Sel) (i : Nat) (p : Path) :
    s.selectedPath (.idx i :: p) = s.selectedPath p := rfl

/-! ## inversion of `GF.regenerate` (with the discards) -/

theorem rg_dist_inv {d0 : Nat} {t : Tr R} {s : Sel} {args : List Val} {t' : Tr R} {w : R}
    {dd : Option CM} (h : (GF.dist d0).regenerate P cfg t s args = some (t', w, dd)) :
    ∃ vOld sOld vNew sNew, t = .leaf vOld sOld ∧ t' = .leaf vNew sNew ∧
      ((s.leaf = true ∧ vNew = P.draw d0 args ∧ dd = some (.leaf vOld)) ∨
       (s.leaf = false ∧ vNew = vOld ∧ dd = none)) := by
  cases t with
  | leaf vOld sOld =>
    simp only [GF.regenerate] at h
    split at h
    · rename_i hl
      simp only [Option.some.injEq, Prod.mk.injEq] at h
      obtain ⟨rfl, _, rfl⟩ := h
      exact ⟨_, _, _, _, rfl, rfl, .inl ⟨hl, rfl, rfl⟩⟩
    · rename_i hl
      simp only [Option.some.injEq, Prod.mk.injEq] at h
      obtain ⟨rfl, _, rfl⟩ := h
      exact ⟨_, _, _, _, rfl, rfl, .inr ⟨by simpa using hl, rfl, rfl⟩⟩
  | _ => simp [GF.regenerate] at h

theorem rg_fn_inv {body : Body} {t : Tr R} {s : Sel} {args : List Val} {t' : Tr R} {w : R}
    {dd : Option CM} (h : (GF.fn body).regenerate P cfg t s args = some (t', w, dd)) :
    ∃ old r0 s0 subs r sc d, t = .fn old r0 s0 ∧
      body.regenerate P cfg old s args .nil 0 0 .nil = some (subs, r, sc, w, d) ∧
      t' = .fn subs r sc ∧ dd = some (.node d) := by
  cases t with
  | fn old r0 s0 =>
    simp only [GF.regenerate, Option.bind_eq_bind, Option.bind_eq_some_iff, Option.pure_def,
      Option.some.injEq, Prod.mk.injEq] at h
    obtain ⟨⟨subs, r, sc, w', d'⟩, hb, rfl, rfl, rfl⟩ := h
    exact ⟨old, r0, s0, subs, r, sc, d', rfl, hb, rfl, rfl⟩
  | _ => simp [GF.regenerate] at h

/-- what Vmap.regenerate and Scan.regenerate do lane by lane / step by step -/
def LanesRegen (g : GF) (s : Sel) (old : TrL R) (rs : List (Upd R)) (A : Nat → List Val) : Prop :=
  rs.length = old.toList.length ∧
  ∀ (i : Nat) (ti : Tr R), old.toList[i]? = some ti →
    ∃ b, rs[i]? = some b ∧ g.regenerate P cfg ti s (A i) = some b

theorem rg_vmap_inv {g : GF} {axes : List Bool} {n : Nat} {t : Tr R} {s : Sel} {args : List Val}
    {t' : Tr R} {w : R} {dd : Option CM}
    (h : (GF.vmap g axes n).regenerate P cfg t s args = some (t', w, dd)) :
    ∃ old rs, t = .vec old ∧ LanesRegen P cfg g s old rs (fun i => laneArgs axes args i) ∧
      t' = .vec (TrL.ofList (rs.map (·.1))) ∧ dd = lanesDiscard (rs.map (·.2.2)) := by
  cases t with
  | vec old =>
    simp only [GF.regenerate, Option.bind_eq_bind, Option.bind_eq_some_iff, Option.pure_def,
      Option.some.injEq, Prod.mk.injEq] at h
    obtain ⟨u, hlen, rs, hrs, rfl, _, rfl⟩ := h
    refine ⟨old, rs, rfl, ⟨forLanes_length _ _ _ _ hrs, ?_⟩, rfl, rfl⟩
    intro i ti hti
    obtain ⟨b, hb, hf⟩ := forLanes_get _ _ _ _ hrs i ti hti
    exact ⟨b, hb, by simpa using hf⟩
  | _ => simp [GF.regenerate] at h

theorem rg_scan_inv {g : GF} {n : Nat} {t : Tr R} {s : Sel} {args : List Val}
    {t' : Tr R} {w : R} {dd : Option CM}
    (h : (GF.scan g n).regenerate P cfg t s args = some (t', w, dd)) :
    ∃ old c0 rs c, t = .scan old c0 ∧
      LanesRegen P cfg g s old rs (fun i =>
        [carryAt (args.getD 0 .nil) (rs.map (·.1)) i, (args.getD 1 .nil).nth i]) ∧
      t' = .scan (TrL.ofList (rs.map (·.1))) c ∧ dd = lanesDiscard (rs.map (·.2.2)) := by
  cases t with
  | scan old c0 =>
    simp only [GF.regenerate] at h
    split at h
    · exact absurd h (by simp)
    · simp only [Option.bind_eq_bind, Option.bind_eq_some_iff, Option.pure_def, Option.some.injEq,
        Prod.mk.injEq] at h
      obtain ⟨u, hlen, ⟨rs, c⟩, hrs, rfl, _, rfl⟩ := h
      refine ⟨old, c0, rs, c, rfl, ⟨forSteps_length _ _ _ _ _ _ hrs, ?_⟩, rfl, rfl⟩
      intro i ti hti
      obtain ⟨b, cj', hb, hf⟩ := forSteps_get_carry _ (fun b : Upd R => b.1.retval.fst) (by
        intro c i a b c' hf
        simp only [Option.bind_eq_bind, Option.bind_eq_some_iff, Option.pure_def,
          Option.some.injEq, Prod.mk.injEq] at hf
        obtain ⟨⟨t1, w1, d1⟩, _, rfl, rfl⟩ := hf
        rfl) _ _ _ _ _ hrs i ti hti
      simp only [Option.bind_eq_bind, Option.bind_eq_some_iff, Option.pure_def, Option.some.injEq,
        Prod.mk.injEq] at hf
      obtain ⟨⟨t1, w1, d1⟩, h1, rfl, _⟩ := hf
      refine ⟨_, hb, ?_⟩
      have hc := carryG_eq_carryAt (fun b : Upd R => b.1) rs (args.getD 0 .nil) i
      simp only at hc ⊢
      rw [← hc]
      simpa using h1
  | _ => simp [GF.regenerate] at h

theorem rg_cond_inv {tg fg : GF} {t : Tr R} {s : Sel} {args : List Val}
    {t' : Tr R} {w : R} {dd : Option CM}
    (h : (GF.cond tg fg).regenerate P cfg t s args = some (t', w, dd)) :
    ∃ cOld a b a' wa da b' wb db, t = .cond cOld a b ∧
      tg.regenerate P cfg a s (args.drop 1) = some (a', wa, da) ∧
      fg.regenerate P cfg b s (args.drop 1) = some (b', wb, db) ∧
      t' = .cond (args.getD 0 .nil).truthy a' b' ∧
      ((da = none ∧ dd = db) ∨ (db = none ∧ dd = da) ∨
       ∃ x1 x2, da = some x1 ∧ db = some x2 ∧
        (if cfg.condDiscardVisible then (CM.mergeCheck cOld x1 x2).map some
         else (CM.mergeNoCheck x1 x2).map some) = some dd) := by
  cases t with
  | cond cOld a b =>
    simp only [GF.regenerate, Option.bind_eq_bind, Option.bind_eq_some_iff, Option.pure_def,
      Option.some.injEq, Prod.mk.injEq] at h
    obtain ⟨⟨a', wa, da⟩, ha, ⟨b', wb, db⟩, hb, disc, hdisc, rfl, _, rfl⟩ := h
    refine ⟨cOld, a, b, a', wa, da, b', wb, db, rfl, ha, hb, rfl, ?_⟩
    cases da with
    | none =>
      simp only [Option.some.injEq] at hdisc
      exact .inl ⟨rfl, hdisc.symm⟩
    | some x1 =>
      cases db with
      | none =>
        simp only [Option.some.injEq] at hdisc
        exact .inr (.inl ⟨rfl, hdisc.symm⟩)
      | some x2 => exact .inr (.inr ⟨x1, x2, rfl, rfl, hdisc⟩)
  | _ => simp [GF.regenerate] at h

/-! ## what the Regenerate handler does at each call site -/

def RegenSite (old : TrL R) (s : Sel) (a : String) (g : GF) (es : List Expr) (subsF : TrL R)
    (dF : CML) (env' : List Val) : Prop :=
  ∃ sub t1 w1 d1, old.find? a = some sub ∧
    g.regenerate P cfg sub (s.matchAddr a).2 (es.map (·.eval env')) = some (t1, w1, d1) ∧
    subsF.find? a = some t1 ∧ dF.find? a = d1

theorem Body.regenerate_sites : ∀ (b : Body) (old : TrL R) (sel : Sel) (env : List Val)
    (subs : TrL R) (s w : R) (d : CML) (subsF : TrL R) (r : Val) (sF wF : R) (dF : CML),
    b.regenerate P cfg old sel env subs s w d = some (subsF, r, sF, wF, dF) →
    (∀ a, (subs.find? a).isSome → dF.find? a = d.find? a) ∧
    (∀ a, subs.find? a = none → b.site a = none → subsF.find? a = none ∧ dF.find? a = d.find? a) ∧
    (∀ a g es, subs.find? a = none → d.find? a = none → b.site a = some (g, es) →
      RegenSite P cfg old sel a g es subsF dF (b.envAt env subsF a))
  | .ret e, old, sel, env, subs, s, w, d, subsF, r, sF, wF, dF, h => by
      simp only [Body.regenerate, Option.some.injEq, Prod.mk.injEq] at h
      obtain ⟨rfl, _, _, _, rfl⟩ := h
      refine ⟨fun _ _ => rfl, fun a ha _ => ⟨ha, rfl⟩, fun a g es _ _ hs => ?_⟩
      simp [Body.site] at hs
  | .call addr g0 es0 rest, old, sel, env, subs, s, w, d, subsF, r, sF, wF, dF, h => by
      obtain ⟨hn', sub, t1, w1, d1, hsub, h1, h2⟩ := regen_call_inv P cfg h
      obtain ⟨dnew, h2, hd', hdself⟩ : ∃ dnew : CML,
          rest.regenerate P cfg old sel (env ++ [t1.retval]) (subs.snoc addr t1) (s + t1.score)
            (w + w1) dnew = some (subsF, r, sF, wF, dF) ∧
          (∀ a, a ≠ addr → dnew.find? a = d.find? a) ∧
          (d.find? addr = none → dnew.find? addr = d1) := by
        cases d1 with
        | none => exact ⟨d, h2, fun _ _ => rfl, fun h => h⟩
        | some c =>
          exact ⟨d.snoc addr c, h2, fun a hne => CML.find?_snoc_ne d addr c a hne,
            fun h => CML.find?_snoc_self d addr c h⟩
      obtain ⟨ih1, ih2, ih3⟩ := Body.regenerate_sites rest _ _ _ _ _ _ _ _ _ _ _ _ h2
      have hself : (subs.snoc addr t1).find? addr = some t1 := TrL.find?_snoc_self hn'
      refine ⟨?_, ?_, ?_⟩
      · intro a ha
        have hne : a ≠ addr := by rintro rfl; simp [hn'] at ha
        obtain ⟨u, hu⟩ := Option.isSome_iff_exists.mp ha
        rw [ih1 a (by simp [TrL.find?_snoc_of_some hu]), hd' a hne]
      · intro a ha hs
        simp only [Body.site] at hs
        split at hs
        · simp at hs
        rename_i hne
        have := ih2 a (by rw [TrL.find?_snoc_ne _ _ _ _ hne]; exact ha) hs
        rw [hd' a hne] at this
        exact this
      · intro a g es ha hda hs
        simp only [Body.site] at hs
        split at hs
        · rename_i he
          subst he
          simp only [Option.some.injEq, Prod.mk.injEq] at hs
          obtain ⟨rfl, rfl⟩ := hs
          simp only [Body.envAt, if_true]
          refine ⟨sub, t1, w1, d1, hsub, h1, ?_, ?_⟩
          · exact Body.regenerate_find P cfg h2 a t1 hself
          · rw [ih1 a (by simp [hself])]
            exact hdself hda
        · rename_i hne
          have hfa : subsF.find? addr = some t1 := Body.regenerate_find P cfg h2 addr t1 hself
          simp only [Body.envAt, hne, if_false, hfa]
          exact ih3 a g es (by rw [TrL.find?_snoc_ne _ _ _ _ hne]; exact ha)
            (by rw [hd' a hne]; exact hda) hs

theorem Body.regenerate_sites_top {b : Body} {old : TrL R} {sel : Sel} {env : List Val}
    {subsF : TrL R} {r : Val} {sF wF : R} {dF : CML}
    (h : b.regenerate P cfg old sel env .nil 0 0 .nil = some (subsF, r, sF, wF, dF)) :
    (∀ a, b.site a = none → subsF.find? a = none ∧ dF.find? a = none) ∧
    (∀ a g es, b.site a = some (g, es) →
      RegenSite P cfg old sel a g es subsF dF (b.envAt env subsF a)) := by
  obtain ⟨_, h2, h3⟩ := Body.regenerate_sites P cfg b _ _ _ _ _ _ _ _ _ _ _ _ h
  exact ⟨fun a hs => h2 a rfl hs, fun a g es hs => h3 a g es rfl rfl hs⟩

/-! ## the values -/

/-- the three facts proved together (`can` = the old trace has canonical shape, `same` = no Cond
    switched branch, `sel` = the address is selected) -/
structure RegenVals (can same : Prop) (sel : Bool) (dv yv yv' : Option Val) : Prop where
  /-- the new choice map has a leaf exactly where the old one has -/
  dom : can → yv'.isSome = yv.isSome
  /-- unselected addresses keep their value -/
  uns : sel = false → same → can → yv' = yv
  /-- the discard (repaired `Cond.regenerate`) holds the old visible value of exactly the
      selected addresses -/
  dis : cfg.condDiscardVisible = true → can → dv = if sel then yv else none

def RegenValsOK (g : GF) : Prop :=
  ∀ (t : Tr R) (s : Sel) (args : List Val) (t' : Tr R) (w : R) (d : Option CM),
    g.regenerate P cfg t s args = some (t', w, d) →
    ∀ y y', t.choices = some y → t'.choices = some y' →
      ∀ p, RegenVals cfg (g.Canon t) (Tr.sameChecks t t') (s.selectedPath p) (CM.leafAt? d p)
        (y.leafAt p) (y'.leafAt p)

theorem regenVals_lanes (g : GF) (IH : RegenValsOK P cfg g) {old : TrL R} {s : Sel}
    {rs : List (Upd R)} {A : Nat → List Val} (hL : LanesRegen P cfg g s old rs A)
    (xl xl' : CML) (hxl : old.choices = some xl)
    (hxl' : (TrL.ofList (rs.map (·.1))).choices = some xl') (can same : Prop)
    (hcan : can → lanesCanon (fun t => g.Canon t) old)
    (hsame : same → Tr.sameChecks.TrL.sameChecksPos old (TrL.ofList (rs.map (·.1)))) :
    ∀ p, RegenVals cfg can same (s.selectedPath p)
      (CM.leafAt? (lanesDiscard (rs.map (·.2.2))) p)
      ((CM.lanes xl).leafAt p) ((CM.lanes xl').leafAt p) := by
  intro p
  match p with
  | [] =>
    exact ⟨fun _ => rfl, fun _ _ _ => rfl,
      fun _ _ => by rw [lanesDiscard_leafAt_nil]; simp [CM.leafAt]⟩
  | .key k :: p =>
    exact ⟨fun _ => rfl, fun _ _ _ => rfl,
      fun _ _ => by rw [lanesDiscard_leafAt_key]; simp [CM.leafAt]⟩
  | .idx i :: p =>
    rw [lanes_leafAt _ xl hxl, lanes_leafAt _ xl' hxl', TrL.toList_ofList,
      lanesDiscard_leafAt_idx, Sel.selectedPath_idx]
    cases hti : old.toList[i]? with
    | none =>
      have hi : old.toList.length ≤ i := List.getElem?_eq_none_iff.mp hti
      have h1 : (rs.map (·.1))[i]? = none := by
        apply List.getElem?_eq_none_iff.mpr; simp [hL.1, hi]
      have h2 : (rs.map (·.2.2))[i]? = none := by
        apply List.getElem?_eq_none_iff.mpr; simp [hL.1, hi]
      rw [h1, h2]
      exact ⟨fun _ => rfl, fun _ _ _ => rfl, fun _ _ => by simp [CM.leafAt?]⟩
    | some ti =>
      obtain ⟨b, hb, hu⟩ := hL.2 i ti hti
      have h1 : (rs.map (·.1))[i]? = some b.1 := by simp [hb]
      have h2 : (rs.map (·.2.2))[i]? = some b.2.2 := by simp [hb]
      obtain ⟨ci, hci, _⟩ := TrL.choices_get_some old xl hxl i ti hti
      obtain ⟨ci', hci', _⟩ := TrL.choices_get_some _ xl' hxl' i b.1
        (by rw [TrL.toList_ofList]; exact h1)
      rw [h1, h2]
      simp only [Option.bind_some, hci, hci', Option.getD_some, CM.leafAt?]
      have ih := IH ti s (A i) b.1 b.2.1 b.2.2 hu ci ci' hci hci' p
      have hcan' : can → g.Canon ti := fun hc => lanesCanon_get _ old (hcan hc) i ti hti
      have hsame' : same → Tr.sameChecks ti b.1 := fun hs =>
        TrL.sameChecksPos_get old _ (hsame hs) i ti b.1 hti (by rw [TrL.toList_ofList]; exact h1)
      exact ⟨fun hc => ih.dom (hcan' hc), fun hx hs hc => ih.uns hx (hsame' hs) (hcan' hc),
        fun hd hc => by simpa only [CM.leafAt?] using ih.dis hd (hcan' hc)⟩

theorem regenValsOK_all : ∀ g, RegenValsOK P cfg g := by
  refine GF.induct_sites _ ?_ ?_ ?_ ?_ ?_
  · -- dist
    intro d0 t s args t' w d h y y' hy hy' p
    obtain ⟨vOld, sOld, vNew, sNew, rfl, rfl, hcase⟩ := rg_dist_inv P cfg h
    simp only [Tr.choices, Option.some.injEq] at hy hy'
    subst hy hy'
    match p with
    | [] =>
      rw [Sel.selectedPath_nil]
      rcases hcase with ⟨hl, _, rfl⟩ | ⟨hl, rfl, rfl⟩
      · exact ⟨fun _ => rfl, fun hf _ _ => absurd hf (by simp [hl]), fun _ _ => by simp [hl, CM.leafAt?]⟩
      · exact ⟨fun _ => rfl, fun _ _ _ => rfl, fun _ _ => by simp [hl, CM.leafAt?]⟩
    | _ :: _ =>
      refine ⟨fun _ => rfl, fun _ _ _ => rfl, fun _ _ => ?_⟩
      rcases hcase with ⟨_, _, rfl⟩ | ⟨_, _, rfl⟩ <;> simp [CM.leafAt?, CM.leafAt]
  · -- fn
    intro body ih t s args t' w d h y y' hy hy' p
    obtain ⟨old, r0, s0, subs, r, sc, d', rfl, hb, rfl, rfl⟩ := rg_fn_inv P cfg h
    simp only [Tr.choices, Option.map_eq_some_iff] at hy hy'
    obtain ⟨xl, hxl, rfl⟩ := hy
    obtain ⟨xl', hxl', rfl⟩ := hy'
    match p with
    | [] => exact ⟨fun _ => rfl, fun _ _ _ => rfl, fun _ _ => by simp [CM.leafAt?, CM.leafAt]⟩
    | .idx i :: p =>
      exact ⟨fun _ => rfl, fun _ _ _ => rfl, fun _ _ => by simp [CM.leafAt?, CM.leafAt]⟩
    | .key a :: p =>
      have hd : CM.leafAt? (some (CM.node d')) (.key a :: p) = CM.leafAt? (d'.find? a) p := by
        simp only [CM.leafAt?, CM.leafAt_node_key]
        cases d'.find? a <;> rfl
      rw [fn_leafAt old xl hxl, fn_leafAt subs xl' hxl', hd, Sel.selectedPath_key]
      obtain ⟨hs1, hs2⟩ := Body.regenerate_sites_top P cfg hb
      cases hsite : body.site a with
      | none =>
        obtain ⟨e1, e2⟩ := hs1 a hsite
        rw [e1, e2]
        have key : (GF.fn body).Canon (Tr.fn old r0 s0) → old.find? a = none := fun hc => by
          simp only [GF.Canon] at hc
          exact Body.canonL_site_none body old hc a hsite
        exact ⟨fun hc => by simp [key hc, CM.leafAt?], fun _ _ hc => by simp [key hc, CM.leafAt?],
          fun _ hc => by simp [key hc, CM.leafAt?]⟩
      | some ge =>
        obtain ⟨g, es⟩ := ge
        obtain ⟨sub, t1, w1, d1, hsub, hu, hfF, hdF⟩ := hs2 a g es hsite
        obtain ⟨cs, hcs, _⟩ := TrL.choices_find old xl hxl a sub hsub
        obtain ⟨c1, hc1, _⟩ := TrL.choices_find subs xl' hxl' a t1 hfF
        rw [hsub, hfF, hdF]
        simp only [Option.bind_some, hcs, hc1, CM.leafAt?]
        have IH := ih a g es hsite sub _ _ t1 w1 d1 hu cs c1 hcs hc1 p
        have hcan' : (GF.fn body).Canon (Tr.fn old r0 s0) → g.Canon sub := fun hc => by
          simp only [GF.Canon] at hc
          obtain ⟨t0, ht0, hg⟩ := Body.canonL_site_some body old hc a g es hsite
          rw [hsub] at ht0
          cases ht0
          exact hg
        have hsame' : Tr.sameChecks (Tr.fn old r0 s0) (Tr.fn subs r sc) → Tr.sameChecks sub t1 :=
          fun hs => by
            rw [Tr.sameChecks.eq_2] at hs
            have := TrL.sameChecks_find old subs hs a sub hsub
            rw [hfF] at this
            exact this
        exact ⟨fun hc => IH.dom (hcan' hc), fun hx hs hc => IH.uns hx (hsame' hs) (hcan' hc),
          fun hdv hc => IH.dis hdv (hcan' hc)⟩
  · -- vmap
    intro g axes n ih t s args t' w d h y y' hy hy' p
    obtain ⟨old, rs, rfl, hL, rfl, rfl⟩ := rg_vmap_inv P cfg h
    simp only [Tr.choices, Option.map_eq_some_iff] at hy hy'
    obtain ⟨xl, hxl, rfl⟩ := hy
    obtain ⟨xl', hxl', rfl⟩ := hy'
    exact regenVals_lanes P cfg g ih hL xl xl' hxl hxl' _ _
      (fun hc => by simpa only [GF.Canon] using hc)
      (fun hs => by rw [Tr.sameChecks.eq_3] at hs; exact hs) p
  · -- scan
    intro g n ih t s args t' w d h y y' hy hy' p
    obtain ⟨old, c0, rs, c, rfl, hL, rfl, rfl⟩ := rg_scan_inv P cfg h
    simp only [Tr.choices, Option.map_eq_some_iff] at hy hy'
    obtain ⟨xl, hxl, rfl⟩ := hy
    obtain ⟨xl', hxl', rfl⟩ := hy'
    exact regenVals_lanes P cfg g ih hL xl xl' hxl hxl' _ _
      (fun hc => by simpa only [GF.Canon] using hc)
      (fun hs => by rw [Tr.sameChecks.eq_4] at hs; exact hs) p
  · -- cond
    intro tg fg iht ihf t s args t' w d h y y' hy hy' p
    obtain ⟨cOld, a, b, a', wa, da, b', wb, db, rfl, ha, hb, rfl, hdisc⟩ := rg_cond_inv P cfg h
    simp only [Tr.choices, Option.bind_eq_bind, Option.bind_eq_some_iff] at hy hy'
    obtain ⟨ya, hya, yb, hyb, hm⟩ := hy
    obtain ⟨ya', hya', yb', hyb', hm'⟩ := hy'
    have A := iht _ _ _ _ _ _ ha ya ya' hya hya' p
    have B := ihf _ _ _ _ _ _ hb yb yb' hyb hyb' p
    rw [CM.mergeCheck_leafAt _ _ _ _ hm p, CM.mergeCheck_leafAt _ _ _ _ hm' p]
    refine ⟨fun hc => ?_, fun hxn hs hc => ?_, fun hdv hc => ?_⟩
    · simp only [GF.Canon] at hc
      rw [mergeLeaf_isSome, mergeLeaf_isSome, A.dom hc.1, B.dom hc.2]
    · simp only [GF.Canon] at hc
      rw [Tr.sameChecks.eq_5] at hs
      obtain ⟨rfl, hsa, hsb⟩ := hs
      rw [A.uns hxn hsa hc.1, B.uns hxn hsb hc.2]
    · simp only [GF.Canon] at hc
      have ea := A.dis hdv hc.1
      have eb := B.dis hdv hc.2
      rcases hdisc with ⟨rfl, rfl⟩ | ⟨rfl, rfl⟩ | ⟨x1, x2, rfl, rfl, hdisc⟩
      · rw [eb]
        simp only [CM.leafAt?] at ea
        cases hsel : s.selectedPath p with
        | false => simp
        | true =>
          rw [hsel] at ea
          simp only [if_true] at ea ⊢
          rw [← ea]; simp
      · rw [ea]
        simp only [CM.leafAt?] at eb
        cases hsel : s.selectedPath p with
        | false => simp
        | true =>
          rw [hsel] at eb
          simp only [if_true] at eb ⊢
          rw [← eb]; simp
      · simp only [hdv, if_true, Option.map_eq_some_iff] at hdisc
        obtain ⟨dm, hdm, rfl⟩ := hdisc
        simp only [CM.leafAt?] at ea eb ⊢
        rw [CM.mergeCheck_leafAt _ _ _ _ hdm p, ea, eb]
        cases s.selectedPath p <;> simp

/-- C04: every address that the selection does not select keeps its value (and stays present),
    provided no Cond switched branch; `hcan`: the old trace has the shape the operations build. -/
theorem regenerate_unselected_unchanged (g : GF) (t : Tr R) (s : Sel) (args : List Val)
    (t' : Tr R) (w : R) (d : Option CM) (h : g.regenerate P cfg t s args = some (t', w, d))
    (hcan : g.Canon t) (hs : Tr.sameChecks t t')
    (y y' : CM) (hy : t.choices = some y) (hy' : t'.choices = some y')
    (p : Path) (hp : s.selectedPath p = false) : y'.leafAt p = y.leafAt p :=
  (regenValsOK_all P cfg g t s args t' w d h y y' hy hy' p).uns hp hs hcan

theorem regenerate_leaf_domain (g : GF) (t : Tr R) (s : Sel) (args : List Val)
    (t' : Tr R) (w : R) (d : Option CM) (h : g.regenerate P cfg t s args = some (t', w, d))
    (hcan : g.Canon t) (y y' : CM) (hy : t.choices = some y) (hy' : t'.choices = some y')
    (p : Path) : (y'.leafAt p).isSome = (y.leafAt p).isSome :=
  (regenValsOK_all P cfg g t s args t' w d h y y' hy hy' p).dom hcan

/-- C04, repaired `Cond.regenerate` (`condDiscardVisible`): the discard holds the old visible value
    of exactly the selected addresses, and nothing else. -/
theorem regenerate_discard_selected (hdv : cfg.condDiscardVisible = true)
    (g : GF) (t : Tr R) (s : Sel) (args : List Val)
    (t' : Tr R) (w : R) (d : Option CM) (h : g.regenerate P cfg t s args = some (t', w, d))
    (hcan : g.Canon t) (y y' : CM) (hy : t.choices = some y) (hy' : t'.choices = some y')
    (p : Path) : CM.leafAt? d p = if s.selectedPath p then y.leafAt p else none :=
  (regenValsOK_all P cfg g t s args t' w d h y y' hy hy' p).dis hdv hcan

end Genjax
