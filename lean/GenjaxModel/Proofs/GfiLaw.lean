import GenjaxModel.Proofs.GfiLawLemmas
/-!
  THE LAW of `simulate` (second half of C01): under `GF.simD` (every Distribution site draws from
  its finite-support distribution) the probability that the trace's choice map is `x` is the
  product of the site masses `GF.assessP` computes on `x`, and the trace's return value is the one
  `assessP` returns:

      E (simD g args) (optK (choicesAre x ψ)) = massOf (assessP g x args) ψ      (`simD_law`)

  for every `x` of the program's static choice-map shape (`g.skel = some x.skel`) and every function
  `ψ` of the return value.
-/
namespace Genjax
open Smc Smc.FinDist

section Law
variable {K : Type} [Field K] {R : Type} [Zero R] [Add R] [Neg R]
variable (pd : PD K) (P : Prims R)

/-! ### what the law needs of the HIDDEN branch of a Cond

  A Cond trace draws both branches and exposes the merged choice map; the draws of the branch that
  is not selected are marginalised out.  For that the hidden branch must be a genuine probability
  distribution over traces with a choice map of the static shape, and `assessP` must not raise on
  maps of that shape (`Cond.assess` evaluates both branches).  `GF.Total` is proved from
  "primitives normalised, no address collisions" in `Proofs/GfiLawCond.lean`. -/

/-- `simD g` has total mass 1, never raises, every trace has a choice map of the static shape, and
    `assessP` accepts every map of that shape -/
def GF.Total (g : GF) : Prop :=
  (∀ args, mass (g.simD pd P args) = 1) ∧
  (∀ args, ∀ o ∈ supp (g.simD pd P args), ∃ t, o = some t ∧ t.choices.map CM.skel = g.skel) ∧
  (∀ x args, g.skel = some x.skel → (g.assessP pd x args).isSome)

mutual
  /-- hypothesis of the law: at every Cond the two branches have the same static choice-map shape
      and are total (`GF.Total`).  Trivially true for Cond-free programs. -/
  def GF.LawHyp : GF → Prop
    | .dist _ => True
    | .fn body => body.LawHyp
    | .vmap g _ _ => g.LawHyp
    | .scan g _ => g.LawHyp
    | .cond t f => t.LawHyp ∧ f.LawHyp ∧ t.skel = f.skel ∧ t.Total pd P ∧ f.Total pd P
  def Body.LawHyp : Body → Prop
    | .ret _ => True
    | .call _ g _ rest => g.LawHyp ∧ rest.LawHyp
end

mutual
  theorem condFree_lawHyp_gf : (g : GF) → g.condFree = true → g.LawHyp pd P
    | .dist _, _ => trivial
    | .fn body, h => by
        simp only [GF.condFree] at h; simp only [GF.LawHyp]; exact condFree_lawHyp_body body h
    | .vmap g _ _, h => by
        simp only [GF.condFree] at h; simp only [GF.LawHyp]; exact condFree_lawHyp_gf g h
    | .scan g _, h => by
        simp only [GF.condFree] at h; simp only [GF.LawHyp]; exact condFree_lawHyp_gf g h
    | .cond _ _, h => by simp [GF.condFree] at h
  theorem condFree_lawHyp_body : (b : Body) → b.condFree = true → b.LawHyp pd P
    | .ret _, _ => trivial
    | .call _ g _ rest, h => by
        simp only [Body.condFree, Bool.and_eq_true] at h
        simp only [Body.LawHyp]
        exact ⟨condFree_lawHyp_gf g h.1, condFree_lawHyp_body rest h.2⟩
end

omit [Zero R] [Add R] [Neg R] in
theorem CM.skel_leaf {x : CM} (h : CM.leaf .nil = x.skel) : ∃ v, x = .leaf v := by
  cases x with
  | leaf v => exact ⟨v, rfl⟩
  | node l => simp [CM.skel] at h
  | lanes l => simp [CM.skel] at h

omit [Zero R] [Add R] [Neg R] in
theorem CM.skel_node {x : CM} {s : CML} (h : CM.node s = x.skel) : ∃ l, x = .node l ∧ s = l.skel := by
  cases x with
  | leaf v => simp [CM.skel] at h
  | node l => simp only [CM.skel, CM.node.injEq] at h; exact ⟨l, rfl, h⟩
  | lanes l => simp [CM.skel] at h

omit [Zero R] [Add R] [Neg R] in
theorem CM.skel_lanes {x : CM} {s : CML} (h : CM.lanes s = x.skel) :
    ∃ l, x = .lanes l ∧ s = l.skel := by
  cases x with
  | leaf v => simp [CM.skel] at h
  | node l => simp [CM.skel] at h
  | lanes l => simp only [CM.skel, CM.lanes.injEq] at h; exact ⟨l, rfl, h⟩

/-! ### Cond: merging two maps of the same shape selects one of them -/

mutual
  theorem CM.mergeCheck_same (c : Bool) : (a b : CM) → a.skel = b.skel →
      CM.mergeCheck c a b = some (if c then a else b)
    | .leaf va, b, h => by
        cases b <;> simp only [CM.skel, reduceCtorEq] at h
        simp only [CM.mergeCheck]
        cases c <;> rfl
    | .node a, b, h => by
        cases b <;> simp only [CM.skel, reduceCtorEq, CM.node.injEq] at h
        simp only [CM.mergeCheck, CML.mergeCheck_same c a _ h]
        cases c <;> rfl
    | .lanes a, b, h => by
        cases b <;> simp only [CM.skel, reduceCtorEq, CM.lanes.injEq] at h
        simp only [CM.mergeCheck, CML.mergeLanes_same c a _ h]
        cases c <;> rfl
  theorem CML.mergeCheck_same (c : Bool) : (a b : CML) → a.skel = b.skel →
      CML.mergeCheck c a b = some (if c then a else b)
    | .nil, b, h => by
        have := CML.skel_eq_nil h.symm
        subst this
        simp [CML.mergeCheck]
    | .cons k v rest, b, h => by
        obtain ⟨v', rest', rfl, hv, hr⟩ := CML.skel_eq_cons (l := b) h.symm
        simp only [CML.mergeCheck, CML.find?, if_true, CML.erase,
          CM.mergeCheck_same c v v' hv.symm, CML.mergeCheck_same c rest rest' hr.symm,
          Option.bind_eq_bind, Option.bind_some, Option.pure_def]
        cases c <;> rfl
  theorem CML.mergeLanes_same (c : Bool) : (a b : CML) → a.skel = b.skel →
      CML.mergeLanes c a b = some (if c then a else b)
    | .nil, b, h => by
        have := CML.skel_eq_nil h.symm
        subst this
        simp [CML.mergeLanes]
    | .cons k v rest, b, h => by
        obtain ⟨v', rest', rfl, hv, hr⟩ := CML.skel_eq_cons (l := b) h.symm
        simp only [CML.mergeLanes,
          CM.mergeCheck_same c v v' hv.symm, CML.mergeLanes_same c rest rest' hr.symm,
          Option.bind_eq_bind, Option.bind_some, Option.pure_def]
        cases c <;> rfl
end

omit [Zero R] [Add R] [Neg R] in
theorem choices_of_skel_eq {t : Tr R} {x : CM} (h : t.choices.map CM.skel = some x.skel) :
    ∃ y, t.choices = some y ∧ y.skel = x.skel := by
  cases ht : t.choices with
  | none => rw [ht] at h; cases h
  | some y => rw [ht] at h; exact ⟨y, rfl, by simpa using h⟩

/-- a total program's successful outcomes carry all the mass -/
theorem GF.Total.mass_some {g : GF} (hg : g.Total pd P) (args : List Val) :
    E (g.simD pd P args) (optK fun _ => (1 : K)) = 1 := by
  have h1 := hg.1 args
  unfold mass at h1
  refine Eq.trans ?_ h1
  apply E_congr_supp
  intro o ho
  obtain ⟨t, rfl, -⟩ := hg.2.1 args o ho
  rfl

theorem GF.Total.const {g : GF} (hg : g.Total pd P) (args : List Val) (C : K) :
    E (g.simD pd P args) (optK fun _ => C) = C := by
  have := E_optK_mul_left (g.simD pd P args) C (fun _ => 1)
  simp only [mul_one] at this
  rw [this, hg.mass_some, mul_one]

/-- the Cond case, given the law of the two branches -/
theorem law_cond (t f : GF) (hsk : t.skel = f.skel) (ht : t.Total pd P) (hf : f.Total pd P)
    (Lt : ∀ (args : List Val) (x : CM) (ψ : Val → K), t.skel = some x.skel →
      E (t.simD pd P args) (optK (choicesAre x ψ)) = massOf (t.assessP pd x args) ψ)
    (Lf : ∀ (args : List Val) (x : CM) (ψ : Val → K), f.skel = some x.skel →
      E (f.simD pd P args) (optK (choicesAre x ψ)) = massOf (f.assessP pd x args) ψ)
    (args : List Val) (x : CM) (ψ : Val → K) (hs : (GF.cond t f).skel = some x.skel) :
    E ((GF.cond t f).simD pd P args) (optK (choicesAre x ψ))
      = massOf ((GF.cond t f).assessP pd x args) ψ := by
  -- both branches have the shape of `x`
  have hts : t.skel = some x.skel := by
    simp only [GF.skel, Option.bind_eq_bind, Option.bind_eq_some_iff] at hs
    obtain ⟨a, ha, b, hb, hm⟩ := hs
    rw [hsk, hb] at ha
    cases ha
    rw [CM.mergeCheck_same true a a rfl] at hm
    simp only [if_true, Option.some.injEq] at hm
    rw [hsk, hb, hm]
  have hfs : f.skel = some x.skel := hsk ▸ hts
  obtain ⟨p, hp⟩ := Option.isSome_iff_exists.mp (ht.2.2 x (args.drop 1) hts)
  obtain ⟨q, hq⟩ := Option.isSome_iff_exists.mp (hf.2.2 x (args.drop 1) hfs)
  have hLt := Lt (args.drop 1) x ψ hts
  have hLf := Lf (args.drop 1) x ψ hfs
  simp only [GF.simD, GF.assessP, hp, hq, Option.bind_eq_bind, Option.bind_some, Option.pure_def]
  rw [hp] at hLt
  rw [hq] at hLf
  generalize (args.getD 0 .nil).truthy = c
  rw [E_bindO]
  cases c with
  | true =>
    simp only [if_true, massOf] at hLt ⊢
    rw [← hLt]
    apply E_optK_congr
    intro a ha
    obtain ⟨a', ha', hsa⟩ := ht.2.1 _ _ ha
    cases ha'
    rw [hts] at hsa
    obtain ⟨xa, hxa, hxas⟩ := choices_of_skel_eq hsa
    rw [E_bindO]
    rw [← hf.const pd P (args.drop 1) (choicesAre x ψ a)]
    apply E_optK_congr
    intro b hb
    obtain ⟨b', hb', hsb⟩ := hf.2.1 _ _ hb
    cases hb'
    rw [hfs] at hsb
    obtain ⟨xb, hxb, hxbs⟩ := choices_of_skel_eq hsb
    simp only [E_pureO, optK_some, choicesAre, Tr.choices, Tr.retval, hxa, hxb,
      Option.bind_eq_bind, Option.bind_some, if_true]
    rw [CM.mergeCheck_same true xa xb (hxas.trans hxbs.symm)]
    rfl
  | false =>
    simp only [Bool.false_eq_true, if_false, massOf] at hLf ⊢
    rw [← ht.const pd P (args.drop 1) (q.1 * ψ q.2)]
    apply E_optK_congr
    intro a ha
    obtain ⟨a', ha', hsa⟩ := ht.2.1 _ _ ha
    cases ha'
    rw [hts] at hsa
    obtain ⟨xa, hxa, hxas⟩ := choices_of_skel_eq hsa
    rw [E_bindO, ← hLf]
    apply E_optK_congr
    intro b hb
    obtain ⟨b', hb', hsb⟩ := hf.2.1 _ _ hb
    cases hb'
    rw [hfs] at hsb
    obtain ⟨xb, hxb, hxbs⟩ := choices_of_skel_eq hsb
    simp only [E_pureO, optK_some, choicesAre, Tr.choices, Tr.retval, hxa, hxb,
      Option.bind_eq_bind, Option.bind_some, Bool.false_eq_true, if_false]
    rw [CM.mergeCheck_same false xa xb (hxas.trans hxbs.symm)]
    rfl

/-- the Distribution case -/
theorem law_dist (hpd : pd.WF) (d : Nat) (args : List Val) (v0 : Val) (ψ : Val → K) :
    E ((GF.dist d).simD pd P args) (optK (choicesAre (R := R) (.leaf v0) ψ))
      = massOf ((GF.dist d).assessP pd (.leaf v0) args) ψ := by
  simp only [GF.simD, GF.assessP, massOf, E, List.map_map]
  have : ((fun x : Option (Tr R) × K => x.2 * optK (choicesAre (CM.leaf v0) ψ) x.1) ∘
      fun v => (some (Tr.leaf v (-P.lp d args v)), pd.pm d args v))
      = fun v => pd.pm d args v * (if v = v0 then ψ v else 0) := by
    funext v
    simp only [Function.comp, optK_some, choicesAre, Tr.choices, Tr.retval, Option.some.injEq,
      CM.leaf.injEq]
  rw [this, sumK_indicator_fd _ (hpd.nodup d args)]
  split
  · rfl
  · rename_i h
    rw [hpd.off d args v0 h, zero_mul]

/-- invariants of the body handler loop: `seen` = addresses visited so far = keys of `subs`;
    outside them the full dict `X` and the remainder `rem` resolve alike -/
structure BodyLawInv (subs : TrL R) (seen : List String) (X rem : CML) : Prop where
  strip : subs.strip X = some rem
  seen_iff : ∀ a, (subs.find? a).isSome = seen.contains a
  find : ∀ a, seen.contains a = false → X.find? a = rem.find? a

omit [Zero R] [Add R] [Neg R] in
theorem BodyLawInv.step {subs : TrL R} {seen : List String} {X rem' : CML} {addr : String}
    {c : CM} {t : Tr R} (h : BodyLawInv subs seen X (.cons addr c rem')) (ht : t.choices = some c) :
    BodyLawInv (subs.snoc addr t) (addr :: seen) X rem' := by
  refine ⟨?_, ?_, ?_⟩
  · rw [TrL.strip_snoc, h.strip]
    simp [stepRem, ht]
  · intro a
    rw [TrL.find?_snoc_isSome, h.seen_iff a]
    by_cases h : a = addr <;> simp [h]
  · intro a ha
    simp only [List.contains_cons, Bool.or_eq_false_iff, beq_eq_false_iff_ne, ne_eq] at ha
    rw [h.find a ha.2]
    simp only [CML.find?, if_neg ha.1]

mutual
  theorem law_gf (hpd : pd.WF) : (g : GF) → g.LawHyp pd P → ∀ (args : List Val) (x : CM)
      (ψ : Val → K), g.skel = some x.skel →
      E (g.simD pd P args) (optK (choicesAre x ψ)) = massOf (g.assessP pd x args) ψ
    | .dist d, _, args, x, ψ, hs => by
        simp only [GF.skel, Option.some.injEq] at hs
        obtain ⟨v0, rfl⟩ := CM.skel_leaf hs
        exact law_dist pd P hpd d args v0 ψ
    | .fn body, hg, args, x, ψ, hs => by
        simp only [GF.LawHyp] at hg
        simp only [GF.skel, Option.map_eq_some_iff] at hs
        obtain ⟨s, hbs, hs⟩ := hs
        obtain ⟨X, rfl, rfl⟩ := CM.skel_node hs
        simp only [GF.simD, GF.assessP]
        rw [E_bindO]
        have : (fun r : TrL R × Val × R => E (pureO (Tr.fn r.1 r.2.1 r.2.2))
            (optK (choicesAre (.node X) ψ))) = tstB X ψ := by
          funext r
          simp only [E_pureO, optK_some, choicesAre, tstB, Tr.choices, Tr.retval,
            Option.map_eq_some_iff, CM.node.injEq, exists_eq_right]
        rw [this]
        exact law_body hpd body hg args .nil 0 X X [] ψ
          ⟨rfl, fun a => by simp [TrL.find?], fun a _ => rfl⟩ hbs
    | .vmap g axes n, hg, args, x, ψ, hs => by
        simp only [GF.LawHyp] at hg
        simp only [GF.skel, Option.map_eq_some_iff] at hs
        obtain ⟨s, hls, hs⟩ := hs
        obtain ⟨l, rfl, rfl⟩ := CM.skel_lanes hs
        obtain ⟨hl1, hl2, hl3⟩ := skelLanes_eq hls
        simp only [GF.simD, GF.assessP]
        rw [E_bindO]
        have : (fun ts : List (Tr R) => E (pureO (Tr.vec (TrL.ofList ts)))
            (optK (choicesAre (.lanes l) ψ)))
            = fun ts => if ts.map Tr.choices = l.toList.map some
                then (fun rs => ψ (Val.ofList rs)) (ts.map Tr.retval) else 0 := by
          funext ts
          simp only [E_pureO, optK_some, choicesAre, Tr.choices, Tr.retval,
            Option.map_eq_some_iff, CM.lanes.injEq, exists_eq_right, TrL.choices_ofList_iff,
            TrL.retvals_ofList]
          by_cases h : ts.map Tr.choices = l.toList.map some
          · rw [if_pos ⟨hl1, h⟩, if_pos h]
          · rw [if_neg (fun hh => h hh.2), if_neg h]
        rw [this, ← hl2]
        refine (lanes_law (fun i (_ : Unit) => g.simD pd P (laneArgs axes args i))
          (fun i xi => g.assessP pd xi (laneArgs axes args i)) l.toList
          (fun i y hy ψ' => law_gf hpd g hg _ y ψ' (hl3 y hy)) 0
          (fun rs => ψ (Val.ofList rs))).trans ?_
        simp only [lenIs, if_true, Option.bind_eq_bind, Option.bind_some, Option.pure_def]
        cases forLanes (fun i xi => g.assessP pd xi (laneArgs axes args i)) 0 l.toList <;> rfl
    | .scan g n, hg, args, x, ψ, hs => by
        simp only [GF.LawHyp] at hg
        simp only [GF.skel, Option.map_eq_some_iff] at hs
        obtain ⟨s, hls, hs⟩ := hs
        obtain ⟨l, rfl, rfl⟩ := CM.skel_lanes hs
        obtain ⟨hl1, hl2, hl3⟩ := skelLanes_eq hls
        simp only [GF.simD, GF.assessP]
        rw [E_bindO]
        have : (fun r : List (Tr R) × Val => E (pureO (Tr.scan (TrL.ofList r.1) r.2))
            (optK (choicesAre (.lanes l) ψ)))
            = fun r => if r.1.map Tr.choices = l.toList.map some
                then (fun rs c' => ψ (Val.pair c' (Val.ofList rs)))
                  (r.1.map fun t => t.retval.snd) r.2 else 0 := by
          funext r
          simp only [E_pureO, optK_some, choicesAre, Tr.choices, Tr.retval,
            Option.map_eq_some_iff, CM.lanes.injEq, exists_eq_right, TrL.choices_ofList_iff,
            TrL.outs_ofList]
          by_cases h : r.1.map Tr.choices = l.toList.map some
          · rw [if_pos ⟨hl1, h⟩, if_pos h]
          · rw [if_neg (fun hh => h hh.2), if_neg h]
        rw [this, ← hl2]
        refine (steps_law (fun c i => g.simD pd P [c, (args.getD 1 .nil).nth i])
          (fun c i xi => g.assessP pd xi [c, (args.getD 1 .nil).nth i]) l.toList
          (fun c i y hy ψ' => law_gf hpd g hg _ y ψ' (hl3 y hy)) (args.getD 0 .nil) 0
          (fun rs c' => ψ (Val.pair c' (Val.ofList rs)))).trans ?_
        simp only [lenIs, if_true, Option.bind_eq_bind, Option.bind_some, Option.pure_def]
        cases forSteps (fun c i xi => (g.assessP pd xi [c, (args.getD 1 .nil).nth i]).bind
            fun pr => some ((pr.1, pr.2.snd), pr.2.fst)) (args.getD 0 .nil) 0 l.toList <;> rfl
    | .cond t f, hg, args, x, ψ, hs => by
        simp only [GF.LawHyp] at hg
        exact law_cond pd P t f hg.2.2.1 hg.2.2.2.1 hg.2.2.2.2
          (fun a y ψ' h => law_gf hpd t hg.1 a y ψ' h)
          (fun a y ψ' h => law_gf hpd f hg.2.1 a y ψ' h) args x ψ hs
  theorem law_body (hpd : pd.WF) : (body : Body) → body.LawHyp pd P → ∀ (env : List Val)
      (subs : TrL R) (s : R) (X rem : CML) (seen : List String) (Ψ : Val → K),
      BodyLawInv subs seen X rem → body.skel = some rem.skel →
      E (body.simD pd P env subs s) (optK (tstB X Ψ)) = massOf (body.assessP pd X env seen) Ψ
    | .ret e, _, env, subs, s, X, rem, seen, Ψ, hinv, hs => by
        simp only [Body.skel, Option.some.injEq] at hs
        have := CML.skel_eq_nil hs.symm
        subst this
        simp only [Body.simD, E_pureO, optK_some, tstB, Body.assessP, massOf, one_mul]
        rw [if_pos ((TrL.choices_iff_strip _ _).mpr hinv.strip)]
    | .call addr g es rest, hg, env, subs, s, X, rem, seen, Ψ, hinv, hs => by
        simp only [Body.LawHyp] at hg
        simp only [Body.skel, Option.bind_eq_bind, Option.pure_def, Option.bind_eq_some_iff,
          Option.some.injEq] at hs
        obtain ⟨gs, hgs, rs, hrs, hs⟩ := hs
        obtain ⟨c, rem', rfl, rfl, rfl⟩ := CML.skel_eq_cons hs.symm
        simp only [Body.simD, Body.assessP]
        rw [hinv.seen_iff addr]
        cases hseen : seen.contains addr with
        | true =>
          simp only [if_true]
          exact E_failO _
        | false =>
          simp only [Bool.false_eq_true, if_false]
          rw [hinv.find addr hseen]
          simp only [CML.find?, if_true]
          rw [E_bindO]
          have key : (fun t : Tr R => E (rest.simD pd P (env ++ [t.retval]) (subs.snoc addr t)
                (s + t.score)) (optK (tstB X Ψ)))
              = choicesAre c (fun r => massOf (rest.assessP pd X (env ++ [r]) (addr :: seen)) Ψ) := by
            funext t
            simp only [choicesAre]
            by_cases ht : t.choices = some c
            · rw [if_pos ht]
              exact law_body hpd rest hg.2 _ _ _ X rem' (addr :: seen) Ψ (hinv.step ht) hrs
            · rw [if_neg ht]
              apply body_strip_none
              rw [TrL.strip_snoc, hinv.strip]
              simp only [Option.bind_some, stepRem, true_and]
              rw [if_neg ht]
          rw [key, law_gf hpd g hg.1 _ c _ hgs]
          cases g.assessP pd c (es.map (·.eval env)) with
          | none => rfl
          | some p =>
            simp only [massOf, Option.bind_eq_bind, Option.bind_some, Option.pure_def]
            cases rest.assessP pd X (env ++ [p.2]) (addr :: seen) with
            | none => simp
            | some q => simp [mul_assoc]
end

end Law

end Genjax
