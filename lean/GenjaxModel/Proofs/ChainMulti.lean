import GenjaxModel.Model.ChainMulti
import GenjaxModel.Proofs.Chain
import Mathlib.Algebra.Order.Field.Rat
import Mathlib.Algebra.Order.Field.Basic
import Mathlib.Tactic.FieldSimp
import Mathlib.Tactic.Ring
import Mathlib.Tactic.Linarith
/-!
  C18, multi-chain branch and acceptance rates: lanes of `multiChain` are the single-chain results
  of the lanes' kernels, the reported rates are means of the returned (thinned) flags.
-/
namespace Genjax.Chain
variable {σ : Type} [Inhabited σ]

/-! ### single chain: the rate is the mean of the returned flags -/

theorem chain_acceptCount_eq (step : Nat → σ → σ × Bool) (init : σ) (n b k : Nat) :
    (chain step init n b k).acceptCount = countTrue (chain step init n b k).accepts :=
  chain_accept_count step init n b k

theorem chain_nSteps_eq (step : Nat → σ → σ × Bool) (init : σ) (n b k : Nat) :
    (chain step init n b k).nSteps = (chain step init n b k).accepts.length := by
  simp [chain]

theorem chain_states_length (step : Nat → σ → σ × Bool) (init : σ) (n b k : Nat) :
    (chain step init n b k).states.length = (chain step init n b k).nSteps := by
  simp [chain]

theorem chain_nSteps_arange (step : Nat → σ → σ × Bool) (init : σ) (n b k : Nat) :
    (chain step init n b k).nSteps = (arange b n k).length := rfl

theorem chain_rate_eq_meanBool (step : Nat → σ → σ × Bool) (init : σ) (n b k : Nat) :
    (chain step init n b k).rate = meanBool (chain step init n b k).accepts := by
  unfold Result.rate meanBool
  rw [chain_acceptCount_eq, chain_nSteps_eq]

theorem countTrue_le_length (l : List Bool) : countTrue l ≤ l.length :=
  List.length_filter_le _ _

/-- the returned flags are exactly the flags of the retained steps, in order -/
theorem chain_accepts_eq_map (step : Nat → σ → σ × Bool) (init : σ) (n b k : Nat) (hk : 0 < k) :
    (chain step init n b k).accepts
      = (List.range (chain step init n b k).nSteps).map fun i => accepted step (b + i * k) init := by
  apply List.ext_getElem
  · simp [chain_nSteps_eq]
  · intro i h1 h2
    have hi : i < (chain step init n b k).nSteps := by rw [chain_nSteps_eq]; exact h1
    have := (chain_slice step init n b k hk i hi).2
    rw [getD_eq_getElem' _ _ h1] at this
    simp [this]

/-- the returned states are exactly the states after the retained steps, in order -/
theorem chain_states_eq_map (step : Nat → σ → σ × Bool) (init : σ) (n b k : Nat) (hk : 0 < k) :
    (chain step init n b k).states
      = (List.range (chain step init n b k).nSteps).map fun i => iter step (b + i * k + 1) init := by
  apply List.ext_getElem
  · simp [chain_states_length]
  · intro i h1 h2
    have hi : i < (chain step init n b k).nSteps := by rw [← chain_states_length]; exact h1
    have := (chain_slice step init n b k hk i hi).1
    rw [getD_eq_getElem' _ _ h1] at this
    simp [this]

theorem countTrue_map_range (f : Nat → Bool) (m : Nat) :
    countTrue ((List.range m).map f) = ((List.range m).filter f).length := by
  unfold countTrue
  rw [List.filter_map, List.length_map]
  rfl

/-- single chain: `acceptance_rate` = (number of accepted retained steps) / n_steps, with the
    count taken over the retained step numbers `b, b+k, …` -/
theorem chain_rate_spec (step : Nat → σ → σ × Bool) (init : σ) (n b k : Nat) (hk : 0 < k) :
    (chain step init n b k).rate
      = (((List.range ((n - b + k - 1) / k)).filter fun i => accepted step (b + i * k) init).length : Rat)
          / (((n - b + k - 1) / k : Nat) : Rat) := by
  have hm := (chain_count step init n b k hk).1
  unfold Result.rate
  rw [chain_acceptCount_eq, chain_accepts_eq_map step init n b k hk, countTrue_map_range, hm]

theorem meanBool_mul_length (l : List Bool) (h : 0 < l.length) :
    meanBool l * (l.length : Rat) = (countTrue l : Rat) := by
  unfold meanBool
  have : (l.length : Rat) ≠ 0 := by exact_mod_cast (Nat.pos_iff_ne_zero.mp h)
  field_simp

theorem meanBool_nonneg (l : List Bool) : 0 ≤ meanBool l := by
  unfold meanBool
  exact div_nonneg (Nat.cast_nonneg _) (Nat.cast_nonneg _)

theorem meanBool_le_one (l : List Bool) : meanBool l ≤ 1 := by
  unfold meanBool
  rcases Nat.eq_zero_or_pos l.length with h | h
  · simp [h]
  · rw [div_le_one (by exact_mod_cast h)]
    exact_mod_cast countTrue_le_length l

/-! ### multi chain -/

theorem multiChain_states (steps : Nat → Nat → σ → σ × Bool) (init : σ) (n b k c : Nat) :
    (multiChain steps init n b k c).states
      = (List.range c).map fun ci => (chain (steps ci) init n b k).states := by
  simp [multiChain, Function.comp_def]

theorem multiChain_accepts (steps : Nat → Nat → σ → σ × Bool) (init : σ) (n b k c : Nat) :
    (multiChain steps init n b k c).accepts
      = (List.range c).map fun ci => (chain (steps ci) init n b k).accepts := by
  simp [multiChain, Function.comp_def]

theorem multiChain_chainRates (steps : Nat → Nat → σ → σ × Bool) (init : σ) (n b k c : Nat) :
    (multiChain steps init n b k c).chainRates
      = (List.range c).map fun ci => (chain (steps ci) init n b k).rate := by
  simp [multiChain, Function.comp_def, chain_rate_eq_meanBool]

theorem multiChain_chainRates_def (steps : Nat → Nat → σ → σ × Bool) (init : σ) (n b k c : Nat) :
    (multiChain steps init n b k c).chainRates
      = (multiChain steps init n b k c).accepts.map meanBool := rfl

theorem multiChain_rate_def (steps : Nat → Nat → σ → σ × Bool) (init : σ) (n b k c : Nat) :
    (multiChain steps init n b k c).rate = meanRat (multiChain steps init n b k c).chainRates := rfl

/-- leading axis = number of chains -/
theorem multiChain_shape_lead (steps : Nat → Nat → σ → σ × Bool) (init : σ) (n b k c : Nat) :
    (multiChain steps init n b k c).states.length = c ∧
    (multiChain steps init n b k c).accepts.length = c ∧
    (multiChain steps init n b k c).chainRates.length = c ∧
    (multiChain steps init n b k c).nChains = c := by
  simp [multiChain]

/-- lane `ci` = the single-chain result of lane `ci`'s kernel -/
theorem multiChain_lane (steps : Nat → Nat → σ → σ × Bool) (init : σ) (n b k c : Nat)
    (ci : Nat) (hc : ci < c) :
    (multiChain steps init n b k c).states[ci]? = some (chain (steps ci) init n b k).states ∧
    (multiChain steps init n b k c).accepts[ci]? = some (chain (steps ci) init n b k).accepts ∧
    (multiChain steps init n b k c).nSteps = (chain (steps ci) init n b k).nSteps ∧
    (multiChain steps init n b k c).chainRates[ci]? = some (chain (steps ci) init n b k).rate := by
  refine ⟨?_, ?_, rfl, ?_⟩
  · rw [multiChain_states]; simp [hc]
  · rw [multiChain_accepts]; simp [hc]
  · rw [multiChain_chainRates]; simp [hc]

/-- second axis = n_steps = ⌈(n − b)/k⌉ in every lane -/
theorem multiChain_shape_inner (steps : Nat → Nat → σ → σ × Bool) (init : σ) (n b k c : Nat)
    (hk : 0 < k) :
    (multiChain steps init n b k c).nSteps = (n - b + k - 1) / k ∧
    (∀ row ∈ (multiChain steps init n b k c).states, row.length = (n - b + k - 1) / k) ∧
    (∀ row ∈ (multiChain steps init n b k c).accepts, row.length = (n - b + k - 1) / k) := by
  refine ⟨arange_length b n k hk, ?_, ?_⟩
  · intro row hrow
    rw [multiChain_states] at hrow
    obtain ⟨ci, _, rfl⟩ := List.mem_map.mp hrow
    exact (chain_count (steps ci) init n b k hk).2.1
  · intro row hrow
    rw [multiChain_accepts] at hrow
    obtain ⟨ci, _, rfl⟩ := List.mem_map.mp hrow
    exact (chain_count (steps ci) init n b k hk).2.2

/-- entry (ci, i) is the state of lane ci after its step number b + i·k, with that step's flag -/
theorem multiChain_slice (steps : Nat → Nat → σ → σ × Bool) (init : σ) (n b k c : Nat) (hk : 0 < k)
    (ci : Nat) (hc : ci < c) (i : Nat) (hi : i < (multiChain steps init n b k c).nSteps) :
    (((multiChain steps init n b k c).states.getD ci []).getD i default
        = iter (steps ci) (b + i * k + 1) init) ∧
    (((multiChain steps init n b k c).accepts.getD ci []).getD i false
        = accepted (steps ci) (b + i * k) init) := by
  obtain ⟨h1, h2, h3, _⟩ := multiChain_lane steps init n b k c ci hc
  have e1 : (multiChain steps init n b k c).states.getD ci [] = (chain (steps ci) init n b k).states := by
    simp [List.getD_eq_getElem?_getD, h1]
  have e2 : (multiChain steps init n b k c).accepts.getD ci [] = (chain (steps ci) init n b k).accepts := by
    simp [List.getD_eq_getElem?_getD, h2]
  rw [e1, e2]
  exact chain_slice (steps ci) init n b k hk i (h3 ▸ hi)

/-! #### rates -/

theorem sumRat_map_div (l : List Nat) (m : Rat) :
    sumRat (l.map fun (x : Nat) => (x : Rat) / m) = ((l.sum : Nat) : Rat) / m := by
  induction l with
  | nil => simp [sumRat]
  | cons x xs ih =>
    simp only [List.map_cons, sumRat, ih, List.sum_cons, Nat.cast_add]
    ring

theorem countTrue_append (a b : List Bool) : countTrue (a ++ b) = countTrue a + countTrue b := by
  simp [countTrue]

theorem countTrue_flatten (rows : List (List Bool)) :
    countTrue rows.flatten = (rows.map countTrue).sum := by
  induction rows with
  | nil => rfl
  | cons r rs ih => simp [countTrue_append, ih]

theorem length_flatten_const (rows : List (List Bool)) (m : Nat) (h : ∀ r ∈ rows, r.length = m) :
    rows.flatten.length = rows.length * m := by
  induction rows with
  | nil => simp
  | cons r rs ih =>
    simp only [List.flatten_cons, List.length_append, List.length_cons]
    rw [ih (fun r' hr' => h r' (List.mem_cons_of_mem _ hr')), h r List.mem_cons_self]
    ring

theorem map_meanBool_const (rows : List (List Bool)) (m : Nat) (h : ∀ r ∈ rows, r.length = m) :
    rows.map meanBool = (rows.map countTrue).map fun (x : Nat) => (x : Rat) / (m : Rat) := by
  rw [List.map_map]
  apply List.map_congr_left
  intro r hr
  simp [meanBool, h r hr]

/-- mean of the per-row means of a rectangular boolean matrix = mean of all entries -/
theorem meanRat_map_meanBool (rows : List (List Bool)) (m : Nat) (h : ∀ r ∈ rows, r.length = m)
    (hc : 0 < rows.length) (hm : 0 < m) :
    meanRat (rows.map meanBool) = meanBool rows.flatten := by
  unfold meanRat
  rw [map_meanBool_const rows m h, sumRat_map_div, List.length_map, List.length_map]
  unfold meanBool
  rw [countTrue_flatten, length_flatten_const rows m h]
  have h1 : (rows.length : Rat) ≠ 0 := by exact_mod_cast (Nat.pos_iff_ne_zero.mp hc)
  have h2 : (m : Rat) ≠ 0 := by exact_mod_cast (Nat.pos_iff_ne_zero.mp hm)
  push_cast
  field_simp

/-- the reported multi-chain `acceptance_rate` (mean over chains of the per-chain means of the
    returned flags) is the mean of ALL returned flags = (#accepted retained steps over all lanes)
    / (n_chains · n_steps), provided the result is non-empty -/
theorem multiChain_rate_overall (steps : Nat → Nat → σ → σ × Bool) (init : σ) (n b k c : Nat)
    (hk : 0 < k) (hc : 0 < c) (hn : 0 < (multiChain steps init n b k c).nSteps) :
    (multiChain steps init n b k c).rate = meanBool (multiChain steps init n b k c).accepts.flatten ∧
    (multiChain steps init n b k c).rate
      = ((((multiChain steps init n b k c).accepts.map countTrue).sum : Nat) : Rat)
          / ((c * (multiChain steps init n b k c).nSteps : Nat) : Rat) := by
  obtain ⟨hN, _, hrows⟩ := multiChain_shape_inner steps init n b k c hk
  have hlen := (multiChain_shape_lead steps init n b k c).2.1
  have key : (multiChain steps init n b k c).rate
      = meanBool (multiChain steps init n b k c).accepts.flatten := by
    rw [multiChain_rate_def, multiChain_chainRates_def]
    exact meanRat_map_meanBool _ _ hrows (by omega) (by omega)
  refine ⟨key, ?_⟩
  rw [key]
  unfold meanBool
  rw [countTrue_flatten, length_flatten_const _ _ hrows, hlen, hN]

/-- each per-chain rate is that chain's count / n_steps; they lie in [0,1] -/
theorem multiChain_rate_bounds (steps : Nat → Nat → σ → σ × Bool) (init : σ) (n b k c : Nat) :
    ∀ r ∈ (multiChain steps init n b k c).chainRates, 0 ≤ r ∧ r ≤ 1 := by
  intro r hr
  rw [multiChain_chainRates_def] at hr
  obtain ⟨row, _, rfl⟩ := List.mem_map.mp hr
  exact ⟨meanBool_nonneg row, meanBool_le_one row⟩

/-! ### dispatch on n_chains -/

theorem runChain_one (steps : Nat → Nat → σ → σ × Bool) (init : σ) (n b k : Nat) :
    runChain steps init n b k 1 = .single (chain (steps 0) init n b k) := by
  simp [runChain]

theorem runChain_multi (steps : Nat → Nat → σ → σ × Bool) (init : σ) (n b k c : Nat) (hc : c ≠ 1) :
    runChain steps init n b k c = .multi (multiChain steps init n b k c) := by
  simp [runChain, hc]

/-! ### seeded-kernel view -/

omit [Inhabited σ] in
theorem iter_seeded {κ : Type} (kern : κ → σ → σ × Bool) (fold : Nat → κ) (m : Nat) (init : σ) :
    iter (seededStep kern fold) m init = iterKeys kern fold m init := by
  unfold iterKeys
  induction m with
  | zero => rfl
  | succ m ih =>
    rw [List.range_succ, List.foldl_append]
    simp only [iter, List.foldl_cons, List.foldl_nil, ← ih]
    rfl

end Genjax.Chain
