import GenjaxModel.Model.AdevDet2
import Mathlib.Algebra.Order.Field.Basic
import Mathlib.Tactic.Ring
/-!
  C15 for the richer deterministic language of `Model/AdevDet2.lean`: the ADEV interpreter (CPS,
  symbolic zeros, float0 canonicalisation, fast path, multi-output equations, call / fori as single
  equations, cond in CPS) is ordinary forward-mode AD - for every program over LAWFUL primitives
  (`Prim.Lawful`: what is assumed of JAX's per-primitive JVP rules), every environment and every
  `Cfg` with the correct fast-path condition.
-/
set_option linter.unusedSectionVars false
namespace Genjax.Adev2

/-! ### list helpers -/
section Lists
variable {α β : Type}

theorem gather_map [Inhabited α] [Inhabited β] (f : α → β) (hf : f default = default) (env : List α) (ins : List Nat) :
    (gather env ins).map f = gather (env.map f) ins := by
  simp only [gather, List.map_map]
  apply List.map_congr_left
  intro i _
  simp only [Function.comp, List.getD_eq_getElem?_getD, List.getElem?_map]
  cases env[i]? <;> simp [hf]

theorem getD_map [Inhabited α] [Inhabited β] (f : α → β) (hf : f default = default) (env : List α) (i : Nat) :
    f (env.getD i default) = (env.map f).getD i default := by
  simp only [List.getD_eq_getElem?_getD, List.getElem?_map]
  cases env[i]? <;> simp [hf]

theorem gather_all [Inhabited α] (Q : α → Prop) (hd : Q default) (env : List α) (h : ∀ x ∈ env, Q x) (ins : List Nat) :
    ∀ x ∈ gather env ins, Q x := by
  intro x hx
  simp only [gather, List.mem_map] at hx
  obtain ⟨i, _, rfl⟩ := hx
  simp only [List.getD_eq_getElem?_getD]
  cases hi : env[i]? with
  | none => simpa using hd
  | some y => simpa using h y (List.mem_of_getElem? hi)

theorem getD_all [Inhabited α] (Q : α → Prop) (hd : Q default) (env : List α) (h : ∀ x ∈ env, Q x) (i : Nat) :
    Q (env.getD i default) := by
  simp only [List.getD_eq_getElem?_getD]
  cases hi : env[i]? with
  | none => simpa using hd
  | some y => simpa using h y (List.mem_of_getElem? hi)

theorem gather_append [Inhabited α] (env : List α) (a b : List Nat) :
    gather env (a ++ b) = gather env a ++ gather env b := by
  simp [gather]

theorem gather_length [Inhabited α] (env : List α) (a : List Nat) : (gather env a).length = a.length := by
  simp [gather]

/-- two iterations stay related -/
theorem iter_rel {γ δ : Type} (R : γ → δ → Prop) (f : γ → γ) (g : δ → δ)
    (h : ∀ a b, R a b → R (f a) (g b)) : ∀ (n : Nat) (a : γ) (b : δ), R a b → R (iter n f a) (iter n g b)
  | 0, _, _, hab => hab
  | n + 1, a, b, hab => iter_rel R f g h n (f a) (g b) (h a b hab)

theorem iter_inv {γ : Type} (Q : γ → Prop) (f : γ → γ) (h : ∀ a, Q a → Q (f a)) :
    ∀ (n : Nat) (a : γ), Q a → Q (iter n f a)
  | 0, _, ha => ha
  | n + 1, a, ha => iter_inv Q f h n (f a) (h a ha)

theorem iter_eq_iterate {γ : Type} (f : γ → γ) : ∀ (n : Nat) (a : γ), iter n f a = f^[n] a
  | 0, _ => rfl
  | n + 1, a => by rw [iter, Function.iterate_succ_apply, iter_eq_iterate f n]

theorem iter_add {γ : Type} (f : γ → γ) (m n : Nat) (a : γ) : iter (m + n) f a = iter n f (iter m f a) := by
  rw [iter_eq_iterate, iter_eq_iterate, iter_eq_iterate, Nat.add_comm, Function.iterate_add_apply]

end Lists

section Field
variable {K : Type} [Field K] [LinearOrder K]

/-! ### tangents -/
@[simp] theorem Tan.mat_zero : (Tan.zero : Tan K).mat = 0 := rfl
@[simp] theorem Tan.mat_tan (d : K) : (Tan.tan d).mat = d := rfl
@[simp] theorem Tan.mat_add (a b : Tan K) : (Tan.add a b).mat = a.mat + b.mat := by
  cases a <;> cases b <;> simp [Tan.add]
@[simp] theorem Tan.mat_scale (c : K) (a : Tan K) : (Tan.scale c a).mat = c * a.mat := by
  cases a <;> simp [Tan.scale]
@[simp] theorem Tan.mat_neg (a : Tan K) : (Tan.neg a).mat = -a.mat := by
  cases a <;> simp [Tan.neg]
@[simp] theorem inst_mat (v : Val K) (t : Tan K) : (inst v t).mat = t.mat := by
  cases t <;> cases v <;> simp [inst]
theorem inst_dis_zero (n : Int) : inst (Val.dis n : Val K) .zero = .zero := rfl

@[simp] theorem toRD_default : (default : DV K).toRD = default := rfl
@[simp] theorem zeroLike_toRD (v : Val K) : (zeroLike v).toRD = ⟨v, 0⟩ := by
  simp [zeroLike, DV.toRD]

/-- symbolic zero ≙ 0 on a list of tangents -/
theorem map_tan_mat (ts : List (Tan K)) : (ts.map fun t => Tan.tan t.mat).map Tan.mat = ts.map Tan.mat := by
  simp [List.map_map, Function.comp_def]

theorem getD_tan_mat (ts : List (Tan K)) (i : Nat) :
    ((ts.map fun t => Tan.tan t.mat).getD i .zero).mat = (ts.getD i .zero).mat := by
  simp only [List.getD_eq_getElem?_getD, List.getElem?_map]
  cases ts[i]? <;> simp

theorem getD_mat_zero (ts : List (Tan K)) (h : ∀ t ∈ ts, Tan.mat t = 0) (i : Nat) : (ts.getD i .zero).mat = 0 := by
  simp only [List.getD_eq_getElem?_getD]
  cases hi : ts[i]? with
  | none => rfl
  | some y => simpa using h y (List.mem_of_getElem? hi)


/-! ### lawful primitives: what is assumed of a JVP rule of JAX -/

/-- What the interpreter relies on in a primitive's JVP rule (true of JAX's rules; proved below for
    the standard table, for `call` and for `fori`):
    * `primal`: the rule's primal outputs are the primitive's value;
    * `len`: one tangent per output;
    * `zeroOk`: a symbolic zero stands for 0 - replacing every symbolic zero among the input tangents
      by a materialised 0 does not change the numbers the rule returns;
    * `zeroLin`: the rule is linear at 0 - zero input tangents give zero output tangents;
    * `disZero`: a discrete output gets the symbolic zero (float0). -/
structure Prim.Lawful (p : Prim K) : Prop where
  primal : ∀ vs ts, ts.length = vs.length → (p.jvp vs ts).1 = p.val vs
  len : ∀ vs ts, ts.length = vs.length → (p.jvp vs ts).2.length = (p.val vs).length
  zeroOk : ∀ vs ts, ts.length = vs.length →
    (p.jvp vs ts).2.map Tan.mat = (p.jvp vs (ts.map fun t => Tan.tan t.mat)).2.map Tan.mat
  zeroLin : ∀ vs ts, ts.length = vs.length → (∀ t ∈ ts, Tan.mat t = 0) → ∀ t ∈ (p.jvp vs ts).2, Tan.mat t = 0
  disZero : ∀ vs ts, ts.length = vs.length →
    ∀ x ∈ List.zip (p.val vs) (p.jvp vs ts).2, x.1.isDis = true → x.2 = Tan.zero

/-- pair values with numeric tangents -/
def pack (vs : List (Val K)) (ds : List K) : List (RD K) := List.zipWith RD.mk vs ds

theorem stepJ_eq_pack (p : Prim K) (args : List (RD K)) :
    stepJ p args = pack (p.jvp (args.map (·.p)) (args.map fun a => Tan.tan a.d)).1
      ((p.jvp (args.map (·.p)) (args.map fun a => Tan.tan a.d)).2.map Tan.mat) := by
  simp only [stepJ, pack, List.zipWith_map_right]

theorem pack_zero (vs : List (Val K)) (ds : List K) (hl : ds.length = vs.length) (h : ∀ d ∈ ds, d = 0) :
    pack vs ds = vs.map fun v => ⟨v, 0⟩ := by
  induction vs generalizing ds with
  | nil => simp [pack]
  | cons v vs ih =>
    cases ds with
    | nil => simp at hl
    | cons d ds =>
      simp only [pack, List.zipWith_cons_cons, List.map_cons, List.cons.injEq, RD.mk.injEq, true_and]
      exact ⟨h d (by simp), ih ds (by simpa using hl) (fun x hx => h x (by simp [hx]))⟩

theorem pack_map_p (vs : List (Val K)) (ds : List K) (hl : ds.length = vs.length) :
    (pack vs ds).map (·.p) = vs := by
  induction vs generalizing ds with
  | nil => simp [pack]
  | cons v vs ih =>
    cases ds with
    | nil => simp at hl
    | cons d ds =>
      simp only [pack, List.zipWith_cons_cons, List.map_cons, List.cons.injEq, true_and]
      exact ih ds (by simpa using hl)

theorem primalOnly_good (cfg : Cfg) (h : cfg.Good) (ts : List (Tan K)) (outs : List (Val K))
    (hp : primalOnly cfg ts outs = true) : ∀ t ∈ ts, t = Tan.zero := by
  obtain ⟨h1, h2⟩ := h
  unfold primalOnly at hp
  rw [h2] at hp
  simp only [Bool.false_and, Bool.or_false] at hp
  cases hz : cfg.zeroTest with
  | any => exact absurd hz h1
  | never => rw [hz] at hp; simp at hp
  | all =>
    rw [hz] at hp
    simp only [List.all_eq_true] at hp
    intro t ht
    have := hp t ht
    cases t <;> simp_all [Tan.isZero]

/-- ONE equation: with the correct fast-path condition the interpreter's default branch (float0
    canonicalisation, nullary case, all-zero fast path, rule dispatch with symbolic zeros,
    instantiation) computes exactly what the reference forward mode computes -/
theorem stepA_toRD (cfg : Cfg) (hc : cfg.Good) (p : Prim K) (hp : p.Lawful) (args : List (DV K)) :
    (stepA cfg p args).map DV.toRD = stepJ p (args.map DV.toRD) := by
  rw [stepJ_eq_pack]
  simp only [List.map_map, Function.comp_def, DV.toRD]
  have hts : (args.map fun a => Tan.tan a.t.mat) = (args.map (·.t)).map fun t => Tan.tan t.mat := by
    simp [List.map_map, Function.comp_def]
  have hl1 : ((args.map (·.t)).map fun t => Tan.tan t.mat).length = (args.map (·.p)).length := by simp
  have hl2 : (args.map (·.t)).length = (args.map (·.p)).length := by simp
  rw [hts, hp.primal _ _ hl1]
  -- the primal-only outcome, whenever all input tangents are symbolic zeros
  have hfast : (∀ t ∈ args.map (·.t), t = Tan.zero) →
      ((p.val (args.map (·.p))).map zeroLike).map DV.toRD =
        pack (p.val (args.map (·.p)))
          ((p.jvp (args.map (·.p)) ((args.map (·.t)).map fun t => Tan.tan t.mat)).2.map Tan.mat) := by
    intro hz
    rw [pack_zero]
    · simp [List.map_map, Function.comp_def]
    · simp only [List.length_map]; exact hp.len _ _ hl1
    · intro d hd
      simp only [List.mem_map] at hd
      obtain ⟨t, ht, rfl⟩ := hd
      refine hp.zeroLin _ _ hl1 ?_ t ht
      intro t' ht'
      simp only [List.mem_map] at ht'
      obtain ⟨t'', ht'', rfl⟩ := ht'
      obtain ⟨a, ha, rfl⟩ := ht''
      have := hz a.t (by simp only [List.mem_map]; exact ⟨a, ha, rfl⟩)
      simp [this]
  unfold stepA
  by_cases he : args.isEmpty = true
  · simp only [he, if_true]
    have : args = [] := by simpa using he
    subst this
    simpa [DV.toRD] using hfast (by simp)
  · simp only [he]
    by_cases hpo : primalOnly cfg (args.map (·.t)) (p.val (args.map (·.p))) = true
    · simp only [hpo, if_true]
      simpa [DV.toRD] using hfast (primalOnly_good cfg hc _ _ hpo)
    · simp only [hpo]
      simp only [Bool.false_eq_true, if_false, List.map_zipWith]
      rw [hp.primal _ _ hl2, ← hp.zeroOk _ _ hl2]
      simp only [pack, List.zipWith_map_right, DV.toRD, inst_mat]

/-- discrete outputs of one interpreter step carry the symbolic zero, whatever the configuration -/
theorem stepA_wf (cfg : Cfg) (p : Prim K) (hp : p.Lawful) (args : List (DV K)) :
    ∀ o ∈ stepA cfg p args, o.p.isDis = true → o.t = Tan.zero := by
  have hfast : ∀ o ∈ (p.val (args.map (·.p))).map zeroLike, o.p.isDis = true → o.t = Tan.zero := by
    intro o ho hd
    simp only [List.mem_map] at ho
    obtain ⟨v, _, rfl⟩ := ho
    cases v <;> simp_all [zeroLike, Val.isDis, inst]
  unfold stepA
  dsimp only
  split
  · exact hfast
  · split
    · exact hfast
    · intro o ho hd
      rw [List.mem_iff_getElem] at ho
      obtain ⟨i, hi, rfl⟩ := ho
      simp only [List.length_zipWith] at hi
      simp only [List.getElem_zipWith] at hd ⊢
      have hmem : ((p.jvp (args.map (·.p)) (args.map (·.t))).1[i], (p.jvp (args.map (·.p)) (args.map (·.t))).2[i])
          ∈ List.zip (p.val (args.map (·.p))) (p.jvp (args.map (·.p)) (args.map (·.t))).2 := by
        rw [← hp.primal _ (args.map (·.t)) (by simp)]
        rw [List.mem_iff_getElem]
        exact ⟨i, by simpa using hi, by simp⟩
      have hz := hp.disZero _ _ (by simp) _ hmem hd
      simp only at hz
      rw [hz]
      cases hv : (p.jvp (args.map (·.p)) (args.map (·.t))).1[i] with
      | flt v => rw [hv] at hd; simp [Val.isDis] at hd
      | dis n => rfl

/-- … and so do the outputs of a reference step -/
theorem stepJ_wf (p : Prim K) (hp : p.Lawful) (args : List (RD K)) :
    ∀ o ∈ stepJ p args, o.p.isDis = true → o.d = 0 := by
  intro o ho hd
  unfold stepJ at ho
  simp only at ho
  rw [List.mem_iff_getElem] at ho
  obtain ⟨i, hi, rfl⟩ := ho
  simp only [List.length_zipWith] at hi
  simp only [List.getElem_zipWith] at hd ⊢
  have hmem : ((p.jvp (args.map (·.p)) (args.map fun a => Tan.tan a.d)).1[i],
      (p.jvp (args.map (·.p)) (args.map fun a => Tan.tan a.d)).2[i])
      ∈ List.zip (p.val (args.map (·.p))) (p.jvp (args.map (·.p)) (args.map fun a => Tan.tan a.d)).2 := by
    rw [← hp.primal _ (args.map fun a => Tan.tan a.d) (by simp)]
    rw [List.mem_iff_getElem]
    exact ⟨i, by simpa using hi, by simp⟩
  have hz := hp.disZero _ _ (by simp) _ hmem hd
  simp only at hz
  rw [hz]; rfl

theorem stepJ_zero (p : Prim K) (hp : p.Lawful) (args : List (RD K)) (h : ∀ a ∈ args, a.d = 0) :
    ∀ o ∈ stepJ p args, o.d = 0 := by
  intro o ho
  unfold stepJ at ho
  simp only at ho
  rw [List.mem_iff_getElem] at ho
  obtain ⟨i, hi, rfl⟩ := ho
  simp only [List.length_zipWith] at hi
  simp only [List.getElem_zipWith]
  refine hp.zeroLin _ _ (by simp) ?_ _ (List.getElem_mem _)
  intro t ht
  simp only [List.mem_map] at ht
  obtain ⟨a, ha, rfl⟩ := ht
  simpa using h a ha

theorem stepJ_primal (p : Prim K) (hp : p.Lawful) (args : List (RD K)) :
    (stepJ p args).map (·.p) = p.val (args.map (·.p)) := by
  have hl : (args.map fun a => Tan.tan a.d).length = (args.map (·.p)).length := by simp
  rw [stepJ_eq_pack, pack_map_p, hp.primal _ _ hl]
  simp [hp.len _ _ hl, hp.primal _ _ hl]


/-! ### the reference forward mode: invariants and primal projection -/
variable {P : Type}

mutual
/-- any property of duals that every reference step preserves is preserved by whole programs -/
theorem evalJProg_inv (sem : P → Prim K) (Q : RD K → Prop) (hd : Q default)
    (hstep : ∀ p args, (∀ a ∈ args, Q a) → ∀ o ∈ stepJ (sem p) args, Q o) :
    ∀ (p : Prog P) (env : List (RD K)), (∀ x ∈ env, Q x) → ∀ x ∈ evalJProg sem p env, Q x
  | .nil, env, h => by simpa [evalJProg] using h
  | .cons e rest, env, h => by
      rw [evalJProg]
      apply evalJProg_inv sem Q hd hstep rest
      intro x hx
      rcases List.mem_append.mp hx with hx | hx
      · exact h x hx
      · exact evalJEqn_inv sem Q hd hstep e env h x hx
theorem evalJEqn_inv (sem : P → Prim K) (Q : RD K → Prop) (hd : Q default)
    (hstep : ∀ p args, (∀ a ∈ args, Q a) → ∀ o ∈ stepJ (sem p) args, Q o) :
    ∀ (e : Eqn P) (env : List (RD K)), (∀ x ∈ env, Q x) → ∀ x ∈ evalJEqn sem e env, Q x
  | .prim p ins, env, h => by
      rw [evalJEqn]; exact hstep p _ (gather_all Q hd env h ins)
  | .call ins body outs, env, h => by
      rw [evalJEqn]
      exact gather_all Q hd _ (evalJProg_inv sem Q hd hstep body _ (gather_all Q hd env h ins)) outs
  | .fori n consts ins body outs, env, h => by
      rw [evalJEqn]
      apply iter_inv (fun c : List (RD K) => ∀ x ∈ c, Q x)
      · intro c hc
        apply gather_all Q hd
        apply evalJProg_inv sem Q hd hstep body
        intro x hx
        rcases List.mem_append.mp hx with hx | hx
        · exact gather_all Q hd env h consts x hx
        · exact hc x hx
      · exact gather_all Q hd env h ins
  | .cond c ins thn thnOut els elsOut, env, h => by
      rw [evalJEqn]
      split
      · intro x hx
        simp only [List.mem_singleton] at hx
        subst hx
        exact getD_all Q hd _ (evalJProg_inv sem Q hd hstep thn _ (gather_all Q hd env h ins)) _
      · intro x hx
        simp only [List.mem_singleton] at hx
        subst hx
        exact getD_all Q hd _ (evalJProg_inv sem Q hd hstep els _ (gather_all Q hd env h ins)) _
end

/-- well-formed reference environment: a discrete value has tangent 0 -/
def WFJ (env : List (RD K)) : Prop := ∀ x ∈ env, x.p.isDis = true → x.d = 0
/-- well-formed interpreter environment: a discrete value carries the symbolic zero (float0) -/
def WFA (env : List (DV K)) : Prop := ∀ x ∈ env, x.p.isDis = true → x.t = Tan.zero

theorem WFA.toRD {env : List (DV K)} (h : WFA env) : WFJ (env.map DV.toRD) := by
  intro x hx hd
  simp only [List.mem_map] at hx
  obtain ⟨a, ha, rfl⟩ := hx
  simp [DV.toRD, h a ha hd]

theorem evalJProg_wf (sem : P → Prim K) (hl : ∀ p, (sem p).Lawful) (p : Prog P) (env : List (RD K))
    (h : WFJ env) : WFJ (evalJProg sem p env) :=
  evalJProg_inv sem (fun x => x.p.isDis = true → x.d = 0) (fun _ => rfl)
    (fun q args _ => stepJ_wf (sem q) (hl q) args) p env h

theorem evalJEqn_wf (sem : P → Prim K) (hl : ∀ p, (sem p).Lawful) (e : Eqn P) (env : List (RD K))
    (h : WFJ env) : WFJ (evalJEqn sem e env) :=
  evalJEqn_inv sem (fun x => x.p.isDis = true → x.d = 0) (fun _ => rfl)
    (fun q args _ => stepJ_wf (sem q) (hl q) args) e env h

/-- forward mode with all tangents 0 gives all tangents 0 -/
theorem evalJProg_zero (sem : P → Prim K) (hl : ∀ p, (sem p).Lawful) (p : Prog P) (env : List (RD K))
    (h : ∀ x ∈ env, x.d = 0) : ∀ x ∈ evalJProg sem p env, x.d = 0 :=
  evalJProg_inv sem (fun x => x.d = 0) rfl (fun q args ha => stepJ_zero (sem q) (hl q) args ha) p env h

mutual
/-- the primal parts of the reference forward mode are the primal evaluation -/
theorem evalJProg_primal (sem : P → Prim K) (hl : ∀ p, (sem p).Lawful) :
    ∀ (p : Prog P) (env : List (RD K)), (evalJProg sem p env).map (·.p) = evalPProg sem p (env.map (·.p))
  | .nil, env => by simp [evalJProg, evalPProg]
  | .cons e rest, env => by
      rw [evalJProg, evalPProg, evalJProg_primal sem hl rest, List.map_append, evalJEqn_primal sem hl e]
theorem evalJEqn_primal (sem : P → Prim K) (hl : ∀ p, (sem p).Lawful) :
    ∀ (e : Eqn P) (env : List (RD K)), (evalJEqn sem e env).map (·.p) = evalPEqn sem e (env.map (·.p))
  | .prim p ins, env => by
      rw [evalJEqn, evalPEqn, stepJ_primal _ (hl p), gather_map (RD.p (K := K)) rfl]
  | .call ins body outs, env => by
      rw [evalJEqn, evalPEqn, gather_map (RD.p (K := K)) rfl, evalJProg_primal sem hl body, gather_map (RD.p (K := K)) rfl]
  | .fori n consts ins body outs, env => by
      rw [evalJEqn, evalPEqn]
      apply iter_rel (fun (a : List (RD K)) (b : List (Val K)) => a.map (·.p) = b)
      · intro a b hab
        subst hab
        rw [gather_map (RD.p (K := K)) rfl, evalJProg_primal sem hl body, List.map_append, gather_map (RD.p (K := K)) rfl]
      · rw [gather_map (RD.p (K := K)) rfl]
  | .cond c ins thn thnOut els elsOut, env => by
      rw [evalJEqn, evalPEqn, ← getD_map (RD.p (K := K)) rfl]
      split
      · simp only [List.map_cons, List.map_nil]
        rw [getD_map (RD.p (K := K)) rfl, evalJProg_primal sem hl thn, gather_map (RD.p (K := K)) rfl]
      · simp only [List.map_cons, List.map_nil]
        rw [getD_map (RD.p (K := K)) rfl, evalJProg_primal sem hl els, gather_map (RD.p (K := K)) rfl]
end

end Field
end Genjax.Adev2
