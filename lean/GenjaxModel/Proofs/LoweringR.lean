import GenjaxModel.Model.Lowering
/-!
Helper lemmas for `Props/C14.lean`: the statements about placements in which custom-derivative
constructs are already resolved (`outcomeR` / `seededR`), and how `relocate` (rule ix) preserves the
hypotheses those statements need.
-/
namespace Genjax.Lowering

/-- helper: the interpreter of a modular_vmap that meets an opaque construct only ever raises -/
theorem mvmapOpaque_raises (pl : List C) (o : Out) (h : mvmapOpaque pl = some o) :
    o = .loweringError ∨ o = .batchError := by
  induction pl with
  | nil => simp [mvmapOpaque] at h
  | cons c rest ih =>
    simp only [mvmapOpaque] at h
    split at h
    · split at h <;> simp_all
    · exact ih h

theorem C14_no_silent_path_spec_R (pl : List C) :
    (outcomeR Cfg.spec pl).ok = true ∧ (seededR Cfg.spec pl).ok = true := by
  constructor
  · simp only [outcomeR, Cfg.spec, Bool.false_and, Bool.false_eq_true, if_false]
    split
    · rename_i o h; rcases mvmapOpaque_raises _ o h with rfl | rfl <;> rfl
    · repeat' split
      all_goals rfl
  · simp only [seededR, Cfg.spec, Bool.false_and, Bool.false_eq_true, if_false]
    split
    · rename_i o h; rcases mvmapOpaque_raises _ o h with rfl | rfl <;> rfl
    · repeat' split
      all_goals rfl

theorem C14_compile_raises_spec_R (pl : List C) (h : pl.any C.compiles = true) :
    outcomeR Cfg.spec pl = .loweringError ∨ outcomeR Cfg.spec pl = .batchError := by
  simp only [outcomeR, Cfg.spec, Bool.false_and, Bool.false_eq_true, if_false, h, if_true]
  split
  · rename_i o ho; rcases mvmapOpaque_raises _ o ho with rfl | rfl <;> simp
  · split <;> simp

theorem C14_plain_vmap_raises_spec_R (pl : List C)
    (hv : pl.contains .vmapU = true ∨ pl.contains .vmapB = true) :
    outcomeR Cfg.spec pl = .loweringError ∨ outcomeR Cfg.spec pl = .batchError := by
  simp only [outcomeR, Cfg.spec, Bool.false_and, Bool.false_eq_true, if_false]
  split
  · rename_i o ho; exact mvmapOpaque_raises _ o ho
  · repeat' split
    all_goals simp_all

theorem C14_seed_total_spec_R (pl : List C) :
    seededR Cfg.spec pl = .keyFunction ∨ seededR Cfg.spec pl = .loweringError ∨
      seededR Cfg.spec pl = .batchError := by
  simp only [seededR, Cfg.spec, Bool.false_and, Bool.false_eq_true, if_false]
  split
  · rename_i o ho; rcases mvmapOpaque_raises _ o ho with rfl | rfl <;> simp
  · repeat' split
    all_goals simp

theorem C14_asis_partial_R (pl : List C) (hg : hasGrad pl = false) (hu : pl.contains .vmapU = false) :
    outcomeR Cfg.asis pl = outcomeR Cfg.spec pl ∧ seededR Cfg.asis pl = seededR Cfg.spec pl := by
  have hu' : C.vmapU ∉ pl := by simpa using hu
  simp only [outcomeR, seededR, Cfg.asis, Cfg.spec, hg, hu, Bool.and_false, Bool.false_and,
    Bool.false_eq_true, if_false]
  constructor <;> (repeat' split) <;> simp_all

theorem C14_opaque_seed_raises_spec_R (pl : List C) (h : pl.contains .opaque = true) :
    seededR Cfg.spec pl = .loweringError ∨ seededR Cfg.spec pl = .batchError := by
  have hno : (pl.all fun c => c.seedInterprets || decide (c = .grad)) = false := by
    rw [List.all_eq_false]
    exact ⟨.opaque, by simpa using h, by decide⟩
  simp only [seededR, Cfg.spec, Bool.false_and, Bool.false_eq_true, if_false]
  split
  · rename_i o ho; exact mvmapOpaque_raises _ o ho
  · split
    · simp
    · simp [hno]

/-! ### `relocate` only rewrites custom-derivative constructs (into `grad` or `opaque`) -/

theorem relocate_any_compiles (b : Bool) (pl : List C) :
    (relocate b pl).any C.compiles = pl.any C.compiles := by
  induction pl generalizing b with
  | nil => rfl
  | cons c rest ih =>
    simp only [relocate, List.any_cons, ih]
    cases c <;> cases b <;> simp [C.compiles]

theorem relocate_mem_of_ne (b : Bool) (pl : List C) (x : C) (hx : x ≠ .customD) (hg : x ≠ .grad) (ho : x ≠ .opaque) :
    x ∈ relocate b pl ↔ x ∈ pl := by
  induction pl generalizing b with
  | nil => simp [relocate]
  | cons c rest ih =>
    simp only [relocate, List.mem_cons, ih]
    by_cases hc : c = .customD
    · subst hc; cases b <;> simp [hx, hg, ho]
    · simp [hc]

theorem relocate_contains_vmapU (b : Bool) (pl : List C) :
    (relocate b pl).contains .vmapU = pl.contains .vmapU := by
  have := relocate_mem_of_ne b pl .vmapU (by decide) (by decide) (by decide)
  rw [Bool.eq_iff_iff]; simpa using this

theorem relocate_contains_vmapB (b : Bool) (pl : List C) :
    (relocate b pl).contains .vmapB = pl.contains .vmapB := by
  have := relocate_mem_of_ne b pl .vmapB (by decide) (by decide) (by decide)
  rw [Bool.eq_iff_iff]; simpa using this

theorem relocate_opaque (b : Bool) (pl : List C) (h : .opaque ∈ pl) : .opaque ∈ relocate b pl := by
  induction pl generalizing b with
  | nil => simp at h
  | cons c rest ih =>
    simp only [relocate, List.mem_cons] at h ⊢
    rcases h with rfl | h
    · left; simp
    · right; exact ih _ h

/-- without a `grad` the custom-derivative constructs all become opaque and no `grad` appears -/
theorem relocate_no_grad (pl : List C) (hg : hasGrad pl = false) : hasGrad (relocate false pl) = false := by
  unfold hasGrad at *
  induction pl with
  | nil => rfl
  | cons c rest ih =>
    have hc : c ≠ .grad := by intro h; subst h; simp at hg
    have hr : rest.contains .grad = false := by
      rw [Bool.eq_false_iff] at hg ⊢; intro h; apply hg; simp at h ⊢; right; exact h
    have : (c == C.grad) = false := by simpa using hc
    simp only [relocate, this, Bool.or_false, Bool.false_and, List.contains_cons, ih hr, Bool.or_false]
    cases c <;> simp_all

end Genjax.Lowering
