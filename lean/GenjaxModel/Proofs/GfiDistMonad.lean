import GenjaxModel.Model.GfiDist
import GenjaxModel.Proofs.Smc
/-!
  The distribution monad of `Model/GfiDist.lean` (finite weighted lists of outcomes that may be
  "the code raised"): expectation lemmas, support lemmas, and the two TIES of the new model to the
  existing executable one:

  * `simD_pointmass`: with the point-mass primitives of the probe sampler, `GF.simD` is the point
    mass at `GF.simulate`,
  * `assessP_eq_exp_assess`: `GF.assessP` (product of masses) is `GF.assess` (sum of log densities)
    pushed through any `e : R → K` with `e 0 = 1`, `e (a + b) = e a * e b` (an exponential), when the
    masses are the exponentials of the log densities.
-/
namespace Genjax
open Smc Smc.FinDist

section Monad
variable {K : Type} [Field K] {α β : Type}

theorem optK_none (φ : α → K) : optK φ none = 0 := rfl
theorem optK_some (φ : α → K) (a : α) : optK φ (some a) = φ a := rfl

theorem E_zero_fd (d : FinDist K α) : E d (fun _ => (0 : K)) = 0 := by
  rw [E_const, mul_zero]

theorem E_eq_zero_fd (d : FinDist K α) (f : α → K) (h : ∀ a, f a = 0) : E d f = 0 := by
  have : f = fun _ => 0 := funext h
  rw [this, E_zero_fd]

theorem E_pureO (a : α) (φ : Option α → K) : E (pureO a : FinDist K (Option α)) φ = φ (some a) :=
  E_pure _ _

theorem E_failO (φ : Option α → K) : E (failO : FinDist K (Option α)) φ = φ none :=
  E_pure _ _

theorem E_bindO (d : FinDist K (Option α)) (f : α → FinDist K (Option β)) (φ : β → K) :
    E (bindO d f) (optK φ) = E d (optK fun a => E (f a) (optK φ)) := by
  unfold bindO
  rw [E_bind]
  congr 1
  funext o
  cases o with
  | none => simp only [E_pure, optK_none]
  | some a => rfl

theorem mass_pureO (a : α) : mass (pureO a : FinDist K (Option α)) = 1 := E_pure _ _
theorem mass_failO : mass (failO : FinDist K (Option α)) = 1 := E_pure _ _

theorem mass_bind_fd (d : FinDist K α) (f : α → FinDist K β) (hd : mass d = 1)
    (hf : ∀ a, mass (f a) = 1) : mass (FinDist.bind d f) = 1 := by
  unfold mass at *
  rw [E_bind]
  have : (fun a => E (f a) fun _ => (1 : K)) = fun _ => 1 := funext hf
  rw [this, hd]

theorem mass_bindO (d : FinDist K (Option α)) (f : α → FinDist K (Option β)) (hd : mass d = 1)
    (hf : ∀ a, mass (f a) = 1) : mass (bindO d f) = 1 := by
  unfold bindO
  refine mass_bind_fd _ _ hd ?_
  intro o
  cases o with
  | none => exact E_pure _ _
  | some a => exact hf a

/-! ### supports -/

theorem mem_supp_pureO {a : α} {o : Option α} (h : o ∈ supp (pureO a : FinDist K (Option α))) :
    o = some a := mem_supp_pure _ _ h

theorem mem_supp_failO {o : Option α} (h : o ∈ supp (failO : FinDist K (Option α))) :
    o = none := mem_supp_pure _ _ h

/-- a successful outcome of `bindO d f` comes from a successful outcome of `d` -/
theorem mem_supp_bindO {d : FinDist K (Option α)} {f : α → FinDist K (Option β)} {b : β}
    (h : some b ∈ supp (bindO d f)) : ∃ a, some a ∈ supp d ∧ some b ∈ supp (f a) := by
  unfold bindO at h
  obtain ⟨o, ho, hb⟩ := mem_supp_bind _ _ _ h
  cases o with
  | none => exact absurd (mem_supp_pure _ _ hb) (by simp)
  | some a => exact ⟨a, ho, hb⟩

/-- congruence on the successful part of the support -/
theorem E_optK_congr (d : FinDist K (Option α)) (φ φ' : α → K)
    (h : ∀ a, some a ∈ supp d → φ a = φ' a) : E d (optK φ) = E d (optK φ') := by
  apply E_congr_supp
  intro o ho
  cases o with
  | none => rfl
  | some a => exact h a ho

theorem E_optK_mul_left (d : FinDist K (Option α)) (c : K) (φ : α → K) :
    E d (optK fun a => c * φ a) = c * E d (optK φ) := by
  rw [← E_mul_left]
  congr 1
  funext o
  cases o with
  | none => simp only [optK_none, mul_zero]
  | some a => rfl

theorem E_optK_zero (d : FinDist K (Option α)) : E d (optK fun _ => (0 : K)) = 0 := by
  apply E_eq_zero_fd
  intro o
  cases o <;> rfl

theorem bind_pure_left_fd (a : α) (f : α → FinDist K β) : FinDist.bind (FinDist.pure a) f = f a := by
  simp only [FinDist.bind, FinDist.pure, List.flatMap_cons, List.flatMap_nil, List.append_nil,
    one_mul]
  exact List.map_id' (f a)

theorem bindO_pure_some (a : α) (f : α → FinDist K (Option β)) :
    bindO (FinDist.pure (some a)) f = f a := by
  unfold bindO; rw [bind_pure_left_fd]

theorem bindO_pure_none (f : α → FinDist K (Option β)) :
    bindO (FinDist.pure (none : Option α)) f = FinDist.pure none := by
  unfold bindO; rw [bind_pure_left_fd]

theorem bindO_pure (o : Option α) (f : α → Option β) :
    bindO (FinDist.pure o) (fun a => (FinDist.pure (f a) : FinDist K (Option β)))
      = FinDist.pure (o.bind f) := by
  cases o with
  | none => exact bindO_pure_none _
  | some a => exact bindO_pure_some _ _

end Monad

/-! ## tie 1: point-mass primitives collapse `simD` to `simulate` -/

section PointMass
variable {K : Type} [Field K] {α β : Type}

theorem forLanesD_pure (h : Nat → α → Option β) :
    ∀ (l : List α) (i : Nat),
      forLanesD (fun i a => (FinDist.pure (h i a) : FinDist K (Option β))) i l
        = FinDist.pure (forLanes h i l)
  | [], i => rfl
  | a :: as, i => by
      simp only [forLanesD, forLanes]
      cases h i a with
      | none => exact bindO_pure_none _
      | some b =>
        rw [bindO_pure_some, forLanesD_pure h as (i + 1)]
        cases forLanes h (i + 1) as with
        | none => exact bindO_pure_none _
        | some bs => rw [bindO_pure_some]; rfl

theorem forStepsD_pure (h : Val → Nat → α → Option (β × Val)) :
    ∀ (l : List α) (c : Val) (i : Nat),
      forStepsD (fun c i a => (FinDist.pure (h c i a) : FinDist K (Option (β × Val)))) c i l
        = FinDist.pure (forSteps h c i l)
  | [], c, i => rfl
  | a :: as, c, i => by
      simp only [forStepsD, forSteps]
      cases h c i a with
      | none => exact bindO_pure_none _
      | some p =>
        rw [bindO_pure_some, forStepsD_pure h as p.2 (i + 1)]
        simp only [Option.bind_eq_bind, Option.bind_some]
        cases forSteps h p.2 (i + 1) as with
        | none => exact bindO_pure_none _
        | some q => rw [bindO_pure_some]; rfl

variable {R : Type} [Zero R] [Add R] [Neg R] (P : Prims R)

mutual
  theorem simD_pointmass_gf : (g : GF) → ∀ (args : List Val),
      g.simD (PD.ofDraw P : PD K) P args = FinDist.pure (g.simulate P args)
    | .dist d, args => by
        simp only [GF.simD, GF.simulate, PD.ofDraw, List.map_cons, List.map_nil]
        rfl
    | .fn body, args => by
        simp only [GF.simD, GF.simulate]
        rw [simD_pointmass_body body args .nil 0]
        cases body.simulate P args .nil 0 with
        | none => exact bindO_pure_none _
        | some r => rw [bindO_pure_some]; rfl
    | .vmap g axes n, args => by
        simp only [GF.simD, GF.simulate]
        have : (fun i (_ : Unit) => g.simD (PD.ofDraw P : PD K) P (laneArgs axes args i))
            = fun i (_ : Unit) => FinDist.pure (g.simulate P (laneArgs axes args i)) := by
          funext i _; exact simD_pointmass_gf g _
        rw [this, forLanesD_pure]
        cases forLanes (fun i (_ : Unit) => g.simulate P (laneArgs axes args i)) 0
            (List.replicate n ()) with
        | none => exact bindO_pure_none _
        | some ts => rw [bindO_pure_some]; rfl
    | .scan g n, args => by
        simp only [GF.simD, GF.simulate]
        have : (fun c i (_ : Unit) =>
              bindO (g.simD (PD.ofDraw P : PD K) P [c, (args.getD 1 .nil).nth i])
                fun t => pureO (t, t.retval.fst))
            = fun c i (_ : Unit) => FinDist.pure (do
                let t ← g.simulate P [c, (args.getD 1 .nil).nth i]
                pure (t, t.retval.fst)) := by
          funext c i _
          rw [simD_pointmass_gf g _]
          exact bindO_pure _ _
        rw [this, forStepsD_pure]
        cases forSteps (fun c i (_ : Unit) => do
                let t ← g.simulate P [c, (args.getD 1 .nil).nth i]
                pure (t, t.retval.fst)) (args.getD 0 .nil) 0 (List.replicate n ()) with
        | none => exact bindO_pure_none _
        | some r => rw [bindO_pure_some]; rfl
    | .cond t f, args => by
        simp only [GF.simD, GF.simulate]
        rw [simD_pointmass_gf t _, simD_pointmass_gf f _]
        cases t.simulate P (args.drop 1) with
        | none => exact bindO_pure_none _
        | some a =>
          rw [bindO_pure_some]
          cases f.simulate P (args.drop 1) with
          | none => exact bindO_pure_none _
          | some b => rw [bindO_pure_some]; rfl
  theorem simD_pointmass_body : (b : Body) → ∀ (env : List Val) (subs : TrL R) (s : R),
      b.simD (PD.ofDraw P : PD K) P env subs s = FinDist.pure (b.simulate P env subs s)
    | .ret e, env, subs, s => rfl
    | .call addr g es rest, env, subs, s => by
        simp only [Body.simD, Body.simulate]
        split
        · rfl
        · rw [simD_pointmass_gf g _]
          cases g.simulate P (es.map (·.eval env)) with
          | none => exact bindO_pure_none _
          | some t =>
            rw [bindO_pure_some]
            exact simD_pointmass_body rest _ _ _
end

/-- **Tie to the executable model**: when every primitive is the point mass at the probe sampler's
    draw, the distribution `simD` is the point mass at the trace `GF.simulate` returns (or at
    "raises" when it raises) — every program, every argument list. -/
theorem simD_pointmass (g : GF) (args : List Val) :
    g.simD (PD.ofDraw P : PD K) P args = FinDist.pure (g.simulate P args) :=
  simD_pointmass_gf P g args

end PointMass

/-! ## tie 2: `assessP` is `assess` through an exponential -/

section Exp
variable {K : Type} [Field K] {R : Type} [Zero R] [Add R]
variable (e : R → K) (he0 : e 0 = 1) (hadd : ∀ a b, e (a + b) = e a * e b)

include he0 hadd in
theorem prodK_map_exp (l : List R) : prodK (l.map e) = e (sumR l) := by
  induction l with
  | nil => simp only [List.map_nil, prodK, sumR, he0]
  | cons a l ih => simp only [List.map_cons, prodK, sumR, ih, hadd]

theorem forLanes_map_fd {α β γ : Type} (f : Nat → α → Option β) (m : β → γ) :
    ∀ (l : List α) (i : Nat),
      forLanes (fun i a => (f i a).map m) i l = (forLanes f i l).map (List.map m)
  | [], i => rfl
  | a :: as, i => by
      simp only [forLanes, Option.bind_eq_bind]
      cases f i a with
      | none => rfl
      | some b =>
        simp only [Option.map_some, Option.bind_some]
        rw [forLanes_map_fd f m as (i + 1)]
        cases forLanes f (i + 1) as <;> rfl

theorem forSteps_map_fd {α β γ : Type} (f : Val → Nat → α → Option (β × Val)) (m : β → γ) :
    ∀ (l : List α) (c : Val) (i : Nat),
      forSteps (fun c i a => (f c i a).map fun p => (m p.1, p.2)) c i l
        = (forSteps f c i l).map fun q => (q.1.map m, q.2)
  | [], c, i => rfl
  | a :: as, c, i => by
      simp only [forSteps, Option.bind_eq_bind]
      cases f c i a with
      | none => rfl
      | some p =>
        simp only [Option.map_some, Option.bind_some]
        rw [forSteps_map_fd f m as p.2 (i + 1)]
        cases forSteps f p.2 (i + 1) as <;> rfl

variable (pd : PD K) (P : Prims R) (hpm : ∀ d a v, pd.pm d a v = e (P.lp d a v))

set_option linter.unusedSectionVars false in
include he0 hadd hpm in
mutual
  theorem assessP_exp_gf : (g : GF) → ∀ (x : CM) (args : List Val),
      g.assessP pd x args = (g.assess P x args).map fun p => (e p.1, p.2)
    | .dist d, x, args => by
        cases x <;> simp only [GF.assessP, GF.assess, Option.map_some, Option.map_none, hpm]
    | .fn body, x, args => by
        cases x <;> simp only [GF.assessP, GF.assess, Option.map_none]
        exact assessP_exp_body body _ _ _
    | .vmap g axes n, x, args => by
        cases x <;> simp only [GF.assessP, GF.assess, Option.map_none]
        rename_i l
        have : (fun i xi => g.assessP pd xi (laneArgs axes args i))
            = fun i xi => (g.assess P xi (laneArgs axes args i)).map fun p => (e p.1, p.2) := by
          funext i xi; exact assessP_exp_gf g _ _
        rw [this, forLanes_map_fd]
        cases lenIs l.toList n with
        | none => rfl
        | some u =>
          simp only [Option.bind_eq_bind, Option.bind_some]
          cases forLanes (fun i xi => g.assess P xi (laneArgs axes args i)) 0 l.toList with
          | none => rfl
          | some rs =>
            simp only [Option.map_some, Option.bind_some, Option.pure_def, List.map_map,
              Option.some.injEq, Prod.mk.injEq]
            refine ⟨?_, ?_⟩
            · rw [← prodK_map_exp e he0 hadd, List.map_map]; rfl
            · rfl
    | .scan g n, x, args => by
        cases x <;> simp only [GF.assessP, GF.assess, Option.map_none]
        rename_i l
        have : (fun c i xi => do
              let __x ← g.assessP pd xi [c, (args.getD 1 .nil).nth i]
              pure ((__x.1, __x.2.snd), __x.2.fst))
            = fun c i xi => (do
              let __x ← g.assess P xi [c, (args.getD 1 .nil).nth i]
              pure ((__x.1, __x.2.snd), __x.2.fst)).map
                fun (p : (R × Val) × Val) => ((fun (q : R × Val) => (e q.1, q.2)) p.1, p.2) := by
          funext c i xi
          rw [assessP_exp_gf g _ _]
          cases g.assess P xi [c, (args.getD 1 .nil).nth i] <;> rfl
        cases hlen : lenIs l.toList n with
        | none => rfl
        | some u =>
          simp only [Option.bind_eq_bind, Option.bind_some]
          have h2 := forSteps_map_fd (fun c i xi => do
              let __x ← g.assess P xi [c, (args.getD 1 .nil).nth i]
              pure ((__x.1, __x.2.snd), __x.2.fst)) (fun (q : R × Val) => (e q.1, q.2))
              l.toList (args.getD 0 .nil) 0
          simp only [Option.bind_eq_bind, Option.pure_def] at this h2 ⊢
          rw [this, h2]
          cases forSteps (fun c i xi => (g.assess P xi [c, (args.getD 1 .nil).nth i]).bind
              fun __x => some ((__x.1, __x.2.snd), __x.2.fst)) (args.getD 0 .nil) 0 l.toList with
          | none => rfl
          | some rs =>
            simp only [Option.map_some, Option.bind_some, List.map_map,
              Option.some.injEq, Prod.mk.injEq]
            refine ⟨?_, ?_⟩
            · rw [← prodK_map_exp e he0 hadd, List.map_map]; rfl
            · rfl
    | .cond t f, x, args => by
        simp only [GF.assessP, GF.assess]
        rw [assessP_exp_gf t _ _, assessP_exp_gf f _ _]
        cases t.assess P x (args.drop 1) with
        | none => rfl
        | some p =>
          cases f.assess P x (args.drop 1) with
          | none => rfl
          | some q =>
            simp only [Option.map_some, Option.bind_eq_bind, Option.bind_some, Option.pure_def,
              Option.some.injEq, Prod.mk.injEq]
            split <;> simp
  theorem assessP_exp_body : (b : Body) → ∀ (x : CML) (env : List Val) (seen : List String),
      b.assessP pd x env seen = (b.assess P x env seen).map fun p => (e p.1, p.2)
    | .ret ex, x, env, seen => by
        simp only [Body.assessP, Body.assess, Option.map_some, he0]
    | .call addr g es rest, x, env, seen => by
        simp only [Body.assessP, Body.assess]
        split
        · rfl
        · cases x.find? addr with
          | none => rfl
          | some sub =>
            simp only
            rw [assessP_exp_gf g _ _]
            cases g.assess P sub (es.map (·.eval env)) with
            | none => rfl
            | some p =>
              simp only [Option.map_some, Option.bind_eq_bind, Option.bind_some]
              rw [assessP_exp_body rest _ _ _]
              cases rest.assess P x (env ++ [p.2]) (addr :: seen) with
              | none => rfl
              | some q =>
                simp only [Option.map_some, Option.bind_some, Option.pure_def, hadd]
end

include he0 hadd hpm in
/-- **Tie to `GF.assess`**: if the masses are the exponentials of the log densities
    (`pm d a v = e (lp d a v)` for a map `e` with `e 0 = 1`, `e (a + b) = e a · e b`), then `assessP`
    (product of the site masses) is `assess` (sum of the site log densities) pushed through `e`;
    it raises exactly when `assess` raises and returns the same value. -/
theorem assessP_eq_exp_assess (g : GF) (x : CM) (args : List Val) :
    g.assessP pd x args = (g.assess P x args).map fun p => (e p.1, p.2) :=
  assessP_exp_gf e he0 hadd pd P hpm g x args

end Exp

end Genjax
