import GenjaxModel.Proofs.GfiValuesGenerate
/-!
  C02: `generate` with a constraint that covers every address IS `assess`:
  the weight equals the log density that `assess` returns on the generated trace's choice map.
-/
namespace Genjax

/-! ## transitivity of `CM.Rel` -/

section Trans
variable {L1 L2 L3 : Val → Val → Prop}

private theorem forall2_trans_mem {α : Type} {r1 r2 r3 : α → α → Prop} :
    (la : List α) → (∀ v ∈ la, ∀ y z, r1 v y → r2 y z → r3 v z) → ∀ lb lc,
      List.Forall₂ r1 la lb → List.Forall₂ r2 lb lc → List.Forall₂ r3 la lc
  | [], _, lb, lc, h1, h2 => by cases h1; cases h2; exact .nil
  | a :: la, h, lb, lc, h1, h2 => by
      cases h1 with
      | cons h1a h1r =>
        cases h2 with
        | cons h2a h2r =>
          exact .cons (h a (by simp) _ _ h1a h2a)
            (forall2_trans_mem la (fun v hv => h v (by simp [hv])) _ _ h1r h2r)

mutual
  theorem CM.Rel.trans (hL : ∀ a b c, L1 a b → L2 b c → L3 a c) :
      (x y z : CM) → CM.Rel L1 x y → CM.Rel L2 y z → CM.Rel L3 x z
    | .leaf v, y, z, h1, h2 => by
        obtain ⟨w, rfl, hw⟩ := CM.Rel.leaf_iff.mp h1
        obtain ⟨u, rfl, hu⟩ := CM.Rel.leaf_iff.mp h2
        exact .leaf (hL _ _ _ hw hu)
    | .node a, y, z, h1, h2 => by
        obtain ⟨b, rfl, hb⟩ := h1.node_left
        obtain ⟨c, rfl, hc⟩ := h2.node_left
        refine CM.Rel.node_iff.mpr (fun k va hk => ?_)
        obtain ⟨vb, hvb, r1⟩ := hb k va hk
        obtain ⟨vc, hvc, r2⟩ := hc k vb hvb
        exact ⟨vc, hvc, CML.rel_trans hL a va (CML.find?_mem a k va hk) vb vc r1 r2⟩
    | .lanes a, y, z, h1, h2 => by
        obtain ⟨b, rfl, hb⟩ := h1.lanes_left
        obtain ⟨c, rfl, hc⟩ := h2.lanes_left
        exact CM.Rel.lanes_iff.mpr (forall2_trans_mem _ (CML.rel_trans hL a) _ _ hb hc)
  theorem CML.rel_trans (hL : ∀ a b c, L1 a b → L2 b c → L3 a c) :
      (l : CML) → ∀ v ∈ l.toList, ∀ y z, CM.Rel L1 v y → CM.Rel L2 y z → CM.Rel L3 v z
    | .nil, v, h, _, _, _, _ => by simp [CML.toList] at h
    | .cons k v' rest, v, h, y, z, h1, h2 => by
        simp only [CML.toList, List.mem_cons] at h
        rcases h with h | h
        · rw [h] at h1 ⊢; exact CM.Rel.trans hL v' y z h1 h2
        · exact CML.rel_trans hL rest v h y z h1 h2
end

end Trans

theorem CM.Shape.trans {x y z : CM} (h1 : CM.Shape x y) (h2 : CM.Shape y z) : CM.Shape x z :=
  CM.Rel.trans (fun _ _ _ _ _ => trivial) x y z h1 h2

theorem CM.Ext.toShape {x y : CM} (h : CM.Ext x y) : CM.Shape x y :=
  CM.Rel.trans (L2 := Eq) (fun _ _ _ _ _ => trivial) x y y h (CM.Rel.refl (fun _ => rfl) y)

private theorem forall2_map_of_mem {α : Type} {r : α → α → Prop} (f : α → α) :
    (l : List α) → (∀ x ∈ l, r x (f x)) → List.Forall₂ r l (l.map f)
  | [], _ => .nil
  | x :: l, h => .cons (h x (by simp)) (forall2_map_of_mem f l (fun y hy => h y (by simp [hy])))

theorem CML.toList_skel : (l : CML) → l.skel.toList = l.toList.map CM.skel
  | .nil => rfl
  | .cons k v r => by simp [CML.skel, CML.toList, CML.toList_skel r]

mutual
  /-- a map has the shape of its own skeleton -/
  theorem CM.shape_skel : (x : CM) → CM.Shape x x.skel
    | .leaf v => .leaf trivial
    | .node a => CM.Rel.node_iff.mpr (fun k va hk =>
        ⟨va.skel, by rw [CML.find?_skel, hk]; rfl, CML.shape_skel a va (CML.find?_mem a k va hk)⟩)
    | .lanes a => CM.Rel.lanes_iff.mpr (by
        rw [CML.toList_skel]
        exact forall2_map_of_mem CM.skel _ (CML.shape_skel a))
  theorem CML.shape_skel : (l : CML) → ∀ v ∈ l.toList, CM.Shape v v.skel
    | .nil, v, h => by simp [CML.toList] at h
    | .cons k v' rest, v, h => by
        simp only [CML.toList, List.mem_cons] at h
        rcases h with h | h
        · rw [h]; exact CM.shape_skel v'
        · exact CML.shape_skel rest v h
end

/-! ## with a covering constraint the weight is minus the score -/

section FullWeight
variable {R : Type} [AddCommGroup R] (P : Prims R) (cfg : Cfg)

theorem Body.site_some_mem : (b : Body) → (a : String) → (ge : GF × List Expr) →
    b.site a = some ge → a ∈ b.addrs
  | .ret _, a, ge, h => by simp [Body.site] at h
  | .call addr g es rest, a, ge, h => by
      simp only [Body.site] at h
      simp only [Body.addrs, List.mem_cons]
      split at h
      · exact .inl ‹_›
      · exact .inr (Body.site_some_mem rest a ge h)

/-- the statement proved by induction on the program: `x` has every address of the generated
    trace's choice map `y` (`CM.Shape y x`) -/
def FullOK (g : GF) : Prop :=
  ∀ (x : CM) (args : List Val) (t : Tr R) (w : R), g.generate P cfg (some x) args = some (t, w) →
    ∀ y, t.choices = some y → CM.Shape y x → g.cw t (some x) = -t.score

theorem full_body (kids : CML) : ∀ (b : Body) (env : List Val) (subs : TrL R) (xl : CML),
    (∀ a g es, b.site a = some (g, es) → ∀ t1, subs.find? a = some t1 →
      ∃ c1 vb, t1.choices = some c1 ∧ kids.find? a = some vb ∧ g.cw t1 (some vb) = -t1.score) →
    b.Coh P env subs → b.cw subs kids = -(b.scoreOf subs)
  | .ret e, env, subs, xl, _, _ => by simp [Body.cw, Body.scoreOf]
  | .call addr g es rest, env, subs, xl, h, hc => by
      simp only [Body.Coh] at hc
      obtain ⟨hnot, t, hft, _, hrc⟩ := hc
      obtain ⟨c1, vb, _, hvb, he⟩ := h addr g es (by simp [Body.site]) t hft
      have ih := full_body kids rest (env ++ [t.retval]) subs xl (by
        intro a g' es' hs t1 ht1
        have hne : a ≠ addr := by
          rintro rfl; exact hnot (Body.site_some_mem rest _ _ hs)
        exact h a g' es' (by simp [Body.site, hne, hs]) t1 ht1) hrc
      simp only [Body.cw, Body.scoreOf, hft, hvb, he, ih]
      abel

theorem full_lanes (g : GF) (IH : FullOK P cfg g) {l : CML} {ts : List (Tr R × R)}
    (hL : LanesGen P cfg g l ts) (xl : CML)
    (hxl : (TrL.ofList (ts.map (·.1))).choices = some xl)
    (hcov : List.Forall₂ CM.Shape xl.toList l.toList) :
    sumR (((ts.map (·.1)).zip l.toList).map fun p => g.cw p.1 (some p.2)) =
      -(TrL.ofList (ts.map (·.1))).scoreSum := by
  rw [TrL.scoreSum_ofList, neg_sumR_map]
  congr 1
  apply List.ext_getElem?
  intro i
  simp only [List.getElem?_map, List.getElem?_zip_eq_some]
  cases hti : ts[i]? with
  | none =>
    have : (List.zip (ts.map (·.1)) l.toList)[i]? = none := by
      apply List.getElem?_eq_none_iff.mpr
      have := List.getElem?_eq_none_iff.mp hti
      simp; omega
    simp [this]
  | some b =>
    have hi : i < l.toList.length := by
      rw [← hL.1]; exact (List.getElem?_eq_some_iff.mp hti).1
    obtain ⟨b', argsi, hb', hu⟩ := hL.2 i l.toList[i] (by simp [hi])
    rw [hti] at hb'
    cases hb'
    have hz : (List.zip (ts.map (·.1)) l.toList)[i]? = some (b.1, l.toList[i]) := by
      rw [List.getElem?_zip_eq_some]
      exact ⟨by simp [hti], by simp [hi]⟩
    rw [hz]
    simp only [Option.map_some, Option.some.injEq]
    obtain ⟨ci, hci, hxi⟩ := TrL.choices_get_some _ xl hxl i b.1
      (by rw [TrL.toList_ofList]; simp [hti])
    have hsh : CM.Shape ci l.toList[i] := by
      have := (CM.Rel.lanes_iff (a := xl) (b := l)).mpr hcov
      cases this with
      | lanes h1 h2 => exact h2 i ci l.toList[i] hxi (by simp [hi])
    exact IH _ _ _ _ hu ci hci hsh
where
  neg_sumR_map : ∀ (l : List (Tr R)), -(sumR (l.map Tr.score)) = sumR (l.map fun t => -t.score)
    | [] => by simp [sumR]
    | a :: l => by simp only [List.map_cons, sumR, ← neg_sumR_map l]; abel

theorem fullOK_all : ∀ g, FullOK P cfg g := by
  refine GF.induct_sites _ ?_ ?_ ?_ ?_ ?_
  · -- dist
    intro d0 x args t w h y hy hcov
    obtain ⟨v0, s0, rfl, rfl⟩ := gen_dist_inv P cfg h
    simp only [GF.cw, Tr.score]
  · -- fn
    intro body ih x args t w h y hy hcov
    obtain ⟨kids, subs, r, s, rfl, hb, rfl⟩ := gen_fn_inv P cfg h
    have hcoh := generate_coh P cfg _ _ _ _ _ h
    simp only [GF.Coh] at hcoh
    obtain ⟨hbc, _, rfl⟩ := hcoh
    simp only [Tr.choices, Option.map_eq_some_iff] at hy
    obtain ⟨xl, hxl, rfl⟩ := hy
    have hrel := CM.Rel.node_iff.mp hcov
    obtain ⟨_, hs2⟩ := Body.generate_sites P cfg body _ _ _ _ _ _ _ _ _ hb
    simp only [GF.cw, Tr.score]
    refine full_body P kids body args subs xl ?_ hbc
    intro a g es hsite t1 ht1
    obtain ⟨t1', w1, hu, hfF⟩ := hs2 a g es rfl hsite
    rw [ht1] at hfF
    cases hfF
    obtain ⟨c1, hc1, hxa⟩ := TrL.choices_find subs xl hxl a t1 ht1
    obtain ⟨vb, hvb, hsh⟩ := hrel a c1 hxa
    rw [hvb] at hu
    exact ⟨c1, vb, hc1, hvb, ih a g es hsite _ _ _ _ hu c1 hc1 hsh⟩
  · -- vmap
    intro g axes n ih x args t w h y hy hcov
    obtain ⟨l, ts, rfl, hL, rfl⟩ := gen_vmap_inv P cfg h
    simp only [Tr.choices, Option.map_eq_some_iff] at hy
    obtain ⟨xl, hxl, rfl⟩ := hy
    simp only [GF.cw, Tr.score, TrL.toList_ofList]
    exact full_lanes P cfg g ih hL xl hxl (CM.Rel.lanes_iff.mp hcov)
  · -- scan
    intro g n ih x args t w h y hy hcov
    obtain ⟨l, ts, cF, rfl, hL, rfl⟩ := gen_scan_inv P cfg h
    simp only [Tr.choices, Option.map_eq_some_iff] at hy
    obtain ⟨xl, hxl, rfl⟩ := hy
    simp only [GF.cw, Tr.score, TrL.toList_ofList]
    exact full_lanes P cfg g ih hL xl hxl (CM.Rel.lanes_iff.mp hcov)
  · -- cond
    intro tg fg iht ihf x args t w h y hy hcov
    obtain ⟨a, wa, b, wb, ha, hb, rfl, _⟩ := gen_cond_inv P cfg h
    simp only [Tr.choices, Option.bind_eq_bind, Option.bind_eq_some_iff] at hy
    obtain ⟨ya, hya, yb, hyb, hm⟩ := hy
    simp only [GF.cw, Tr.score]
    cases hc : (args.getD 0 Val.nil).truthy with
    | true =>
      rw [hc] at hm
      simp only [if_true]
      exact iht _ _ _ _ ha ya hya ((CM.mergeCheck_true hm).1.toShape.trans hcov)
    | false =>
      rw [hc] at hm
      simp only [Bool.false_eq_true, if_false]
      exact ihf _ _ _ _ hb yb hyb ((CM.mergeCheck_false hm).2.toShape.trans hcov)

/-- C02: if the constraint map `x` has every address of the generated trace's choice map `y`
    (`CM.Shape y x`: every dictionary key of `y`, at every depth, is bound in `x`, vectorised maps
    have the same number of lanes), then the weight is exactly the log density that `assess` returns
    on `y`: generate with a full constraint IS assess.  Every program (Cond at any depth), `cfg`. -/
theorem generate_full_weight (g : GF) (x : CM) (args : List Val) (t : Tr R) (w : R)
    (h : g.generate P cfg (some x) args = some (t, w)) (y : CM) (hy : t.choices = some y)
    (hcov : CM.Shape y x) : g.assess P y args = some (w, t.retval) := by
  have hw := generate_weight P cfg g (some x) args t w h
  rw [fullOK_all P cfg g x args t w h y hy hcov] at hw
  rw [hw]
  exact coh_assess P g args t (generate_coh P cfg g _ args t w h) y hy

/-- the same with coverage stated on the program's static skeleton `g.skel` (`GfiAssessCond.lean`):
    the constraint binds every address of the program -/
theorem generate_full_weight_skel (g : GF) (sk : CM) (hsk : g.skel = some sk)
    (x : CM) (hcov : CM.Shape sk x) (args : List Val) (t : Tr R) (w : R)
    (h : g.generate P cfg (some x) args = some (t, w)) :
    ∃ y, t.choices = some y ∧ g.assess P y args = some (w, t.retval) := by
  have hs := generate_choices_skel P cfg g (some x) args t w h
  obtain ⟨y, hy⟩ := choices_of_skel hs (by rw [hsk]; rfl)
  refine ⟨y, hy, generate_full_weight P cfg g x args t w h y hy ?_⟩
  rw [hy, hsk] at hs
  simp only [Option.map_some, Option.some.injEq] at hs
  rw [← hs] at hcov
  exact (CM.shape_skel y).trans hcov

end FullWeight

end Genjax
