import GenjaxModel.Proofs.GfiDistMonad
/-!
  TIE of `GF.generateD` (and, again, `GF.simD`) to the executable model when every primitive has a
  one-point support at the probe sampler's draw and the masses are the exponentials of the log
  densities: the distribution has a single outcome, namely what `GF.generate` returns, with the
  weight pushed through the exponential (`generateD_point`).
-/
namespace Genjax
open Smc Smc.FinDist

section Point
variable {K : Type} [Field K] {α β : Type}

/-- a distribution with a single outcome `a` (of whatever mass) -/
def IsPoint (d : FinDist K α) (a : α) : Prop := ∃ q, d = [(a, q)]

theorem IsPoint.pure (a : α) : IsPoint (FinDist.pure a : FinDist K α) a := ⟨1, rfl⟩

omit [Field K] in
theorem IsPoint.congr {d : FinDist K α} {a b : α} (h : IsPoint d a) (e : a = b) : IsPoint d b :=
  e ▸ h

theorem IsPoint.bindO {d : FinDist K (Option α)} {o : Option α} {f : α → FinDist K (Option β)}
    {h : α → Option β} (hd : IsPoint d o) (hf : ∀ a, o = some a → IsPoint (f a) (h a)) :
    IsPoint (bindO d f) (o.bind h) := by
  obtain ⟨q, rfl⟩ := hd
  cases o with
  | none =>
    exact ⟨q * 1, by simp [FinDist.bindO, FinDist.bind, FinDist.pure]⟩
  | some a =>
    obtain ⟨q', hq'⟩ := hf a rfl
    exact ⟨q * q', by simp [FinDist.bindO, FinDist.bind, hq']⟩

theorem forLanesD_point (f : Nat → α → FinDist K (Option β)) (h : Nat → α → Option β)
    (hf : ∀ i a, IsPoint (f i a) (h i a)) :
    ∀ (l : List α) (i : Nat), IsPoint (forLanesD f i l) (forLanes h i l)
  | [], i => IsPoint.pure _
  | a :: as, i => by
      simp only [forLanesD, forLanes]
      refine (IsPoint.bindO (hf i a) fun b _ =>
        IsPoint.bindO (forLanesD_point f h hf as (i + 1)) fun bs _ => IsPoint.pure (some (b :: bs)))

theorem forStepsD_point (f : Val → Nat → α → FinDist K (Option (β × Val)))
    (h : Val → Nat → α → Option (β × Val)) (hf : ∀ c i a, IsPoint (f c i a) (h c i a)) :
    ∀ (l : List α) (c : Val) (i : Nat), IsPoint (forStepsD f c i l) (forSteps h c i l)
  | [], c, i => IsPoint.pure _
  | a :: as, c, i => by
      simp only [forStepsD, forSteps]
      refine (IsPoint.bindO (hf c i a) fun p _ =>
        IsPoint.bindO (forStepsD_point f h hf as p.2 (i + 1)) fun q _ =>
          IsPoint.pure (some (p.1 :: q.1, q.2)))

end Point

section Tie
variable {K : Type} [Field K] {R : Type} [Zero R] [Add R] [Neg R]
variable (e : R → K) (he0 : e 0 = 1) (hadd : ∀ a b, e (a + b) = e a * e b)
variable (pd : PD K) (P : Prims R) (cfg : Cfg)
variable (hsupp : ∀ d a, pd.support d a = [P.draw d a])
variable (hpm : ∀ d a v, pd.pm d a v = e (P.lp d a v))

set_option linter.unusedSectionVars false in
include hsupp in
mutual
  theorem simD_point_gf : (g : GF) → ∀ (args : List Val),
      IsPoint (g.simD pd P args) (g.simulate P args)
    | .dist d, args => by
        simp only [GF.simD, GF.simulate, hsupp, List.map_cons, List.map_nil]
        exact ⟨_, rfl⟩
    | .fn body, args => by
        simp only [GF.simD, GF.simulate]
        exact IsPoint.bindO (simD_point_body body args .nil 0) fun r _ => IsPoint.pure _
    | .vmap g axes n, args => by
        simp only [GF.simD, GF.simulate]
        exact IsPoint.bindO (forLanesD_point _ _ (fun i _ => simD_point_gf g _) _ _)
          fun ts _ => IsPoint.pure _
    | .scan g n, args => by
        simp only [GF.simD, GF.simulate]
        refine IsPoint.bindO (forStepsD_point _ _ (fun c i _ => ?_) _ _ _) fun r _ => IsPoint.pure _
        exact IsPoint.bindO (simD_point_gf g _) fun t _ => IsPoint.pure _
    | .cond t f, args => by
        simp only [GF.simD, GF.simulate]
        exact IsPoint.bindO (simD_point_gf t _) fun a _ =>
          IsPoint.bindO (simD_point_gf f _) fun b _ => IsPoint.pure _
  theorem simD_point_body : (b : Body) → ∀ (env : List Val) (subs : TrL R) (s : R),
      IsPoint (b.simD pd P env subs s) (b.simulate P env subs s)
    | .ret ex, env, subs, s => IsPoint.pure _
    | .call addr g es rest, env, subs, s => by
        simp only [Body.simD, Body.simulate]
        split
        · exact IsPoint.pure _
        · exact IsPoint.bindO (simD_point_gf g _) fun t _ => simD_point_body rest _ _ _
end

/-- weights are pushed through the exponential -/
def wmap (tw : Tr R × R) : Tr R × K := (tw.1, e tw.2)

omit [Field K] [Zero R] [Add R] [Neg R] in
theorem map_wmap_fst (ts : List (Tr R × R)) : (ts.map (wmap e)).map (·.1) = ts.map (·.1) := by
  rw [List.map_map]; rfl

include he0 hadd in
omit [Neg R] in
theorem prodK_wmap (ts : List (Tr R × R)) :
    prodK ((ts.map (wmap e)).map (·.2)) = e (sumR (ts.map (·.2))) := by
  rw [← prodK_map_exp e he0 hadd, List.map_map, List.map_map]; rfl

set_option linter.unusedSectionVars false in
include he0 hadd hsupp hpm in
mutual
  theorem gen_point_gf : (g : GF) → ∀ (ox : Option CM) (args : List Val),
      IsPoint (g.generateD pd P cfg ox args) ((g.generate P cfg ox args).map (wmap e))
    | .dist d, none, args => by
        simp only [GF.generateD, GF.generate, hsupp, List.map_cons, List.map_nil, Option.map_some,
          wmap, he0]
        exact ⟨_, rfl⟩
    | .dist d, some (.leaf v), args => by
        simp only [GF.generateD, GF.generate, Option.map_some, wmap, hpm]
        exact IsPoint.pure _
    | .dist d, some (.node _), args => IsPoint.pure _
    | .dist d, some (.lanes _), args => IsPoint.pure _
    | .fn body, none, args => by
        simp only [GF.generateD, GF.generate]
        refine (IsPoint.bindO (h := fun r => some (Tr.fn r.1 r.2.1 r.2.2, (1 : K)))
          (simD_point_body pd P hsupp body args .nil 0) fun r _ => IsPoint.pure _).congr ?_
        cases body.simulate P args .nil 0 with
        | none => rfl
        | some r => simp [wmap, he0]
    | .fn body, some (.node xs), args => by
        simp only [GF.generateD, GF.generate]
        have hb := gen_point_body body xs args .nil 0 0
        rw [he0] at hb
        refine (IsPoint.bindO (h := fun r => some (Tr.fn r.1 r.2.1 r.2.2.1, r.2.2.2)) hb
          fun r _ => IsPoint.pure _).congr ?_
        cases body.generate P cfg xs args .nil 0 0 <;> rfl
    | .fn body, some (.leaf _), args => IsPoint.pure _
    | .fn body, some (.lanes _), args => IsPoint.pure _
    | .vmap g axes n, none, args => by
        simp only [GF.generateD, GF.generate]
        split
        · have hl := forLanesD_point
            (fun i (_ : Unit) => g.generateD pd P cfg none (laneArgs axes args i))
            (fun i (_ : Unit) => (g.generate P cfg none (laneArgs axes args i)).map (wmap e))
            (fun i _ => gen_point_gf g none _) (List.replicate n ()) 0
          rw [forLanes_map_fd] at hl
          refine (IsPoint.bindO (h := fun ts => some (Tr.vec (TrL.ofList (ts.map (·.1))),
            prodK (ts.map (·.2)))) hl fun ts _ => IsPoint.pure _).congr ?_
          cases forLanes (fun i (_ : Unit) => g.generate P cfg none (laneArgs axes args i)) 0
            (List.replicate n ()) with
          | none => rfl
          | some ts =>
            simp only [Option.map_some, Option.bind_some, Option.bind_eq_bind, Option.pure_def,
              map_wmap_fst, prodK_wmap e he0 hadd, wmap]
        · exact IsPoint.pure _
    | .vmap g axes n, some (.lanes xs), args => by
        simp only [GF.generateD, GF.generate, lenIs]
        split
        · have hl := forLanesD_point
            (fun i xi => g.generateD pd P cfg (some xi) (laneArgs axes args i))
            (fun i xi => (g.generate P cfg (some xi) (laneArgs axes args i)).map (wmap e))
            (fun i xi => gen_point_gf g (some xi) _) xs.toList 0
          rw [forLanes_map_fd] at hl
          refine (IsPoint.bindO (h := fun ts => some (Tr.vec (TrL.ofList (ts.map (·.1))),
            prodK (ts.map (·.2)))) hl fun ts _ => IsPoint.pure _).congr ?_
          cases forLanes (fun i xi => g.generate P cfg (some xi) (laneArgs axes args i)) 0
            xs.toList with
          | none => rfl
          | some ts =>
            simp only [Option.map_some, Option.bind_some, Option.bind_eq_bind, Option.pure_def,
              map_wmap_fst, prodK_wmap e he0 hadd, wmap]
        · exact IsPoint.pure _
    | .vmap g axes n, some (.leaf _), args => IsPoint.pure _
    | .vmap g axes n, some (.node _), args => IsPoint.pure _
    | .scan g n, none, args => by
        simp only [GF.generateD, GF.generate]
        have hl := forStepsD_point
          (fun c i (_ : Unit) => bindO (g.generateD pd P cfg none [c, (args.getD 1 .nil).nth i])
            fun tw => pureO (tw, tw.1.retval.fst))
          (fun c i (_ : Unit) => ((g.generate P cfg none [c, (args.getD 1 .nil).nth i]).bind
            fun tw => some (tw, tw.1.retval.fst)).map fun p => (wmap e p.1, p.2))
          (fun c i _ => (IsPoint.bindO (h := fun tw => some (tw, tw.1.retval.fst))
            (gen_point_gf g none _) fun tw _ => IsPoint.pure _).congr (by
              cases g.generate P cfg none [c, (args.getD 1 .nil).nth i] <;> rfl))
          (List.replicate n ()) (args.getD 0 .nil) 0
        rw [forSteps_map_fd] at hl
        refine (IsPoint.bindO (h := fun r => some (Tr.scan (TrL.ofList (r.1.map (·.1))) r.2,
          prodK (r.1.map (·.2)))) hl fun r _ => IsPoint.pure _).congr ?_
        simp only [Option.bind_eq_bind, Option.pure_def]
        cases forSteps (fun c i (_ : Unit) =>
            (g.generate P cfg none [c, (args.getD 1 .nil).nth i]).bind
              fun tw => some (tw, tw.1.retval.fst)) (args.getD 0 .nil) 0 (List.replicate n ()) with
        | none => rfl
        | some r =>
          simp only [Option.map_some, Option.bind_some, map_wmap_fst, prodK_wmap e he0 hadd, wmap]
    | .scan g n, some (.lanes xs), args => by
        simp only [GF.generateD, GF.generate, lenIs]
        split
        · have hl := forStepsD_point
            (fun c i xi => bindO (g.generateD pd P cfg (some xi) [c, (args.getD 1 .nil).nth i])
              fun tw => pureO (tw, tw.1.retval.fst))
            (fun c i xi => ((g.generate P cfg (some xi) [c, (args.getD 1 .nil).nth i]).bind
              fun tw => some (tw, tw.1.retval.fst)).map fun p => (wmap e p.1, p.2))
            (fun c i xi => (IsPoint.bindO (h := fun tw => some (tw, tw.1.retval.fst))
              (gen_point_gf g (some xi) _) fun tw _ => IsPoint.pure _).congr (by
                cases g.generate P cfg (some xi) [c, (args.getD 1 .nil).nth i] <;> rfl))
            xs.toList (args.getD 0 .nil) 0
          rw [forSteps_map_fd] at hl
          refine (IsPoint.bindO (h := fun r => some (Tr.scan (TrL.ofList (r.1.map (·.1))) r.2,
            prodK (r.1.map (·.2)))) hl fun r _ => IsPoint.pure _).congr ?_
          simp only [Option.bind_eq_bind, Option.pure_def, Option.bind_some]
          cases forSteps (fun c i xi =>
              (g.generate P cfg (some xi) [c, (args.getD 1 .nil).nth i]).bind
                fun tw => some (tw, tw.1.retval.fst)) (args.getD 0 .nil) 0 xs.toList with
          | none => rfl
          | some r =>
            simp only [Option.map_some, Option.bind_some, map_wmap_fst, prodK_wmap e he0 hadd, wmap]
        · exact IsPoint.pure _
    | .scan g n, some (.leaf _), args => IsPoint.pure _
    | .scan g n, some (.node _), args => IsPoint.pure _
    | .cond t f, none, args => by
        simp only [GF.generateD, GF.generate]
        refine (IsPoint.bindO (h := fun a => (f.simulate P (args.drop 1)).bind fun b =>
            some (Tr.cond (args.getD 0 .nil).truthy a b, (1 : K)))
          (simD_point_gf pd P hsupp t _) fun a _ =>
          IsPoint.bindO (simD_point_gf pd P hsupp f _) fun b _ => IsPoint.pure _).congr ?_
        cases t.simulate P (args.drop 1) with
        | none => rfl
        | some a =>
          cases f.simulate P (args.drop 1) with
          | none => rfl
          | some b => simp [wmap, he0]
    | .cond t f, some x, args => by
        simp only [GF.generateD, GF.generate]
        refine (IsPoint.bindO (h := fun aw =>
            ((f.generate P cfg (some x) (args.drop 1)).map (wmap e)).bind fun bw =>
              some (Tr.cond (args.getD 0 .nil).truthy aw.1 bw.1,
                if (args.getD 0 .nil).truthy then aw.2 else bw.2))
          (gen_point_gf t (some x) _) fun aw _ =>
          IsPoint.bindO (gen_point_gf f (some x) _) fun bw _ => IsPoint.pure _).congr ?_
        cases t.generate P cfg (some x) (args.drop 1) with
        | none => rfl
        | some aw =>
          cases f.generate P cfg (some x) (args.drop 1) with
          | none => rfl
          | some bw =>
            simp only [Option.map_some, Option.bind_some, Option.bind_eq_bind, Option.pure_def,
              wmap, Option.some.injEq, Prod.mk.injEq, true_and]
            split <;> rfl
  theorem gen_point_body : (b : Body) → ∀ (xs : CML) (env : List Val) (subs : TrL R) (s w : R),
      IsPoint (b.generateD pd P cfg xs env subs s (e w))
        ((b.generate P cfg xs env subs s w).map fun r => (r.1, r.2.1, r.2.2.1, e r.2.2.2))
    | .ret ex, xs, env, subs, s, w => IsPoint.pure _
    | .call addr g es rest, xs, env, subs, s, w => by
        simp only [Body.generateD, Body.generate]
        split
        · exact IsPoint.pure _
        · have hg := gen_point_gf g (xs.find? addr) (es.map (·.eval env))
          cases hgen : g.generate P cfg (xs.find? addr) (es.map (·.eval env)) with
          | none =>
            rw [hgen] at hg
            exact (IsPoint.bindO (h := fun _ => none) hg fun a ha => by cases ha).congr rfl
          | some tw =>
            rw [hgen] at hg
            refine (IsPoint.bindO (h := fun _ => (rest.generate P cfg xs (env ++ [tw.1.retval])
              (subs.snoc addr tw.1) (s + tw.1.score) (w + tw.2)).map
                fun r => (r.1, r.2.1, r.2.2.1, e r.2.2.2)) hg fun a ha => ?_).congr rfl
            simp only [Option.map_some, Option.some.injEq] at ha
            subst ha
            simp only [wmap]
            rw [← hadd]
            exact gen_point_body rest xs _ _ _ _
end

include he0 hadd hsupp hpm in
/-- **Tie of `generateD` to `GF.generate`**: when every primitive has the one-point support
    `[P.draw d a]` and the masses are the exponentials of the log densities, `generateD` has a single
    outcome: the result of `GF.generate` (same trace, or "raises" when it raises) with the weight
    pushed through the exponential. -/
theorem generateD_point (g : GF) (ox : Option CM) (args : List Val) :
    ∃ q, g.generateD pd P cfg ox args
      = [((g.generate P cfg ox args).map fun tw => (tw.1, e tw.2), q)] :=
  gen_point_gf e he0 hadd pd P cfg hsupp hpm g ox args

end Tie

end Genjax
