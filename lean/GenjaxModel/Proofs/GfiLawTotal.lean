import GenjaxModel.Proofs.GfiDistSupp
/-!
  The hypothesis of the law at Cond nodes (`GF.LawHyp`, `GF.Total`) from decidable conditions on the
  program and normalisation of the primitives:

  * `GF.condOK g`: at every Cond of `g` the two branches have the same static choice-map skeleton
    and contain no address collision,
  * `pd.Normalised`.

  `lawHyp_of_condOK : pd.Normalised → g.condOK → g.LawHyp pd P`.
-/
namespace Genjax
open Smc Smc.FinDist

mutual
  /-- every Cond of the program has branches with the same static choice-map skeleton, both free of
      address collisions -/
  def GF.condOK : GF → Bool
    | .dist _ => true
    | .fn body => body.condOK
    | .vmap g _ _ => g.condOK
    | .scan g _ => g.condOK
    | .cond t f => t.condOK && f.condOK && decide (t.skel = f.skel) && t.noCollide && f.noCollide
  def Body.condOK : Body → Bool
    | .ret _ => true
    | .call _ g _ rest => g.condOK && rest.condOK
end

mutual
  theorem condFree_condOK_gf : (g : GF) → g.condFree = true → g.condOK = true
    | .dist _, _ => rfl
    | .fn body, h => by
        simp only [GF.condFree] at h; simp only [GF.condOK]; exact condFree_condOK_body body h
    | .vmap g _ _, h => by
        simp only [GF.condFree] at h; simp only [GF.condOK]; exact condFree_condOK_gf g h
    | .scan g _, h => by
        simp only [GF.condFree] at h; simp only [GF.condOK]; exact condFree_condOK_gf g h
    | .cond _ _, h => by simp [GF.condFree] at h
  theorem condFree_condOK_body : (b : Body) → b.condFree = true → b.condOK = true
    | .ret _, _ => rfl
    | .call _ g _ rest, h => by
        simp only [Body.condFree, Bool.and_eq_true] at h
        simp only [Body.condOK, Bool.and_eq_true]
        exact ⟨condFree_condOK_gf g h.1, condFree_condOK_body rest h.2⟩
end

section Defined
variable {α β : Type}

theorem forLanes_isSome_fd (f : Nat → α → Option β) :
    ∀ (l : List α), (∀ i, ∀ x ∈ l, (f i x).isSome) → ∀ i, (forLanes f i l).isSome
  | [], _, _ => rfl
  | a :: as, h, i => by
      obtain ⟨b, hb⟩ := Option.isSome_iff_exists.mp (h i a List.mem_cons_self)
      obtain ⟨bs, hbs⟩ := Option.isSome_iff_exists.mp
        (forLanes_isSome_fd f as (fun j x hx => h j x (List.mem_cons_of_mem _ hx)) (i + 1))
      simp [forLanes, hb, hbs]

theorem forSteps_isSome_fd (f : Val → Nat → α → Option (β × Val)) :
    ∀ (l : List α), (∀ c i, ∀ x ∈ l, (f c i x).isSome) → ∀ c i, (forSteps f c i l).isSome
  | [], _, _, _ => rfl
  | a :: as, h, c, i => by
      obtain ⟨b, hb⟩ := Option.isSome_iff_exists.mp (h c i a List.mem_cons_self)
      obtain ⟨bs, hbs⟩ := Option.isSome_iff_exists.mp
        (forSteps_isSome_fd f as (fun c j x hx => h c j x (List.mem_cons_of_mem _ hx)) b.2 (i + 1))
      simp [forSteps, hb, hbs]

variable {K : Type} [Field K] (pd : PD K)

mutual
  theorem assessP_defined_gf : (g : GF) → g.noCollide = true → g.condOK = true →
      ∀ (x : CM) (args : List Val), g.skel = some x.skel → (g.assessP pd x args).isSome
    | .dist d, _, _, x, args, hs => by
        simp only [GF.skel, Option.some.injEq] at hs
        obtain ⟨v0, rfl⟩ := CM.skel_leaf hs
        simp [GF.assessP]
    | .fn body, hn, hc, x, args, hs => by
        simp only [GF.noCollide, Bool.and_eq_true, decide_eq_true_eq] at hn
        simp only [GF.condOK] at hc
        simp only [GF.skel, Option.map_eq_some_iff] at hs
        obtain ⟨s, hbs, hs⟩ := hs
        obtain ⟨X, rfl, rfl⟩ := CM.skel_node hs
        simp only [GF.assessP]
        exact assessP_defined_body body hn.2 hc hn.1 X X args [] hbs (fun _ _ => rfl)
          (fun _ _ => rfl)
    | .vmap g axes n, hn, hc, x, args, hs => by
        simp only [GF.noCollide] at hn
        simp only [GF.condOK] at hc
        simp only [GF.skel, Option.map_eq_some_iff] at hs
        obtain ⟨s, hls, hs⟩ := hs
        obtain ⟨l, rfl, rfl⟩ := CM.skel_lanes hs
        obtain ⟨hl1, hl2, hl3⟩ := skelLanes_eq hls
        obtain ⟨rs, hrs⟩ := Option.isSome_iff_exists.mp
          (forLanes_isSome_fd (fun i xi => g.assessP pd xi (laneArgs axes args i)) l.toList
            (fun i y hy => assessP_defined_gf g hn hc y _ (hl3 y hy)) 0)
        simp [GF.assessP, lenIs, hl2, hrs]
    | .scan g n, hn, hc, x, args, hs => by
        simp only [GF.noCollide] at hn
        simp only [GF.condOK] at hc
        simp only [GF.skel, Option.map_eq_some_iff] at hs
        obtain ⟨s, hls, hs⟩ := hs
        obtain ⟨l, rfl, rfl⟩ := CM.skel_lanes hs
        obtain ⟨hl1, hl2, hl3⟩ := skelLanes_eq hls
        obtain ⟨rs, hrs⟩ := Option.isSome_iff_exists.mp
          (forSteps_isSome_fd (fun c i xi => (g.assessP pd xi [c, (args.getD 1 .nil).nth i]).bind
              fun pr => some ((pr.1, pr.2.snd), pr.2.fst)) l.toList
            (fun c i y hy => by
              obtain ⟨p, hp⟩ := Option.isSome_iff_exists.mp
                (assessP_defined_gf g hn hc y [c, (args.getD 1 .nil).nth i] (hl3 y hy))
              rw [hp]; rfl) (args.getD 0 .nil) 0)
        simp only [GF.assessP, lenIs, hl2, if_true, Option.bind_eq_bind, Option.pure_def,
          Option.bind_some]
        rw [hrs]
        rfl
    | .cond t f, hn, hc, x, args, hs => by
        simp only [GF.noCollide, Bool.and_eq_true] at hn
        simp only [GF.condOK, Bool.and_eq_true, decide_eq_true_eq] at hc
        obtain ⟨⟨⟨⟨hct, hcf⟩, hsk⟩, _⟩, _⟩ := hc
        have hts : t.skel = some x.skel := by
          simp only [GF.skel, Option.bind_eq_bind, Option.bind_eq_some_iff] at hs
          obtain ⟨a, ha, b, hb, hm⟩ := hs
          rw [hsk, hb] at ha
          cases ha
          rw [CM.mergeCheck_same true a a rfl] at hm
          simp only [if_true, Option.some.injEq] at hm
          rw [hsk, hb, hm]
        have hfs : f.skel = some x.skel := hsk ▸ hts
        obtain ⟨p, hp⟩ := Option.isSome_iff_exists.mp
          (assessP_defined_gf t hn.1 hct x (args.drop 1) hts)
        obtain ⟨q, hq⟩ := Option.isSome_iff_exists.mp
          (assessP_defined_gf f hn.2 hcf x (args.drop 1) hfs)
        simp only [GF.assessP, hp, hq, Option.bind_eq_bind, Option.bind_some, Option.pure_def,
          Option.isSome_some]
  theorem assessP_defined_body : (b : Body) → b.noCollide = true → b.condOK = true →
      b.addrs.Nodup → ∀ (X rem : CML) (env : List Val) (seen : List String),
      b.skel = some rem.skel → (∀ a, seen.contains a = false → X.find? a = rem.find? a) →
      (∀ a ∈ b.addrs, seen.contains a = false) → (b.assessP pd X env seen).isSome
    | .ret e, _, _, _, X, rem, env, seen, _, _, _ => by simp [Body.assessP]
    | .call addr g es rest, hn, hc, hnd, X, rem, env, seen, hs, hfind, hfresh => by
        simp only [Body.noCollide, Bool.and_eq_true] at hn
        simp only [Body.condOK, Bool.and_eq_true] at hc
        simp only [Body.addrs, List.nodup_cons] at hnd
        simp only [Body.skel, Option.bind_eq_bind, Option.pure_def, Option.bind_eq_some_iff,
          Option.some.injEq] at hs
        obtain ⟨gs, hgs, rs, hrs, hs⟩ := hs
        obtain ⟨c, rem', rfl, rfl, rfl⟩ := CML.skel_eq_cons hs.symm
        have hseen := hfresh addr (by simp [Body.addrs])
        have hX : X.find? addr = some c := by
          rw [hfind addr hseen]; simp [CML.find?]
        obtain ⟨p, hp⟩ := Option.isSome_iff_exists.mp
          (assessP_defined_gf g hn.1 hc.1 c (es.map (·.eval env)) hgs)
        obtain ⟨q, hq⟩ := Option.isSome_iff_exists.mp
          (assessP_defined_body rest hn.2 hc.2 hnd.2 X rem' (env ++ [p.2]) (addr :: seen) hrs
            (fun a ha => by
              simp only [List.contains_cons, Bool.or_eq_false_iff, beq_eq_false_iff_ne,
                ne_eq] at ha
              rw [hfind a ha.2]
              simp only [CML.find?, if_neg ha.1])
            (fun a ha => by
              simp only [List.contains_cons, Bool.or_eq_false_iff, beq_eq_false_iff_ne, ne_eq]
              refine ⟨?_, hfresh a (by simp [Body.addrs, ha])⟩
              rintro rfl
              exact hnd.1 ha))
        simp only [Body.assessP, hseen, hX, hp, hq, Bool.false_eq_true, if_false,
          Option.bind_eq_bind, Option.bind_some, Option.pure_def, Option.isSome_some]
end

/-- on a program without address collisions whose Conds have branches of equal shape, `assessP`
    accepts every choice map of the program's static shape -/
theorem assessP_defined (g : GF) (hn : g.noCollide = true) (hc : g.condOK = true) (x : CM)
    (args : List Val) (hs : g.skel = some x.skel) : (g.assessP pd x args).isSome :=
  assessP_defined_gf pd g hn hc x args hs

end Defined

section Total
variable {K : Type} [Field K] {R : Type} [AddCommGroup R] (pd : PD K) (P : Prims R)

/-- normalised primitives, no address collisions, Conds with branches of equal shape: `simD g` is
    a probability distribution over traces that all have a choice map of the static shape -/
theorem GF.total_of_noCollide (hnorm : pd.Normalised) (g : GF) (hn : g.noCollide = true)
    (hc : g.condOK = true) : g.Total pd P := by
  refine ⟨fun args => simD_mass pd P hnorm g args, fun args o ho => ?_,
    fun x args hs => assessP_defined pd g hn hc x args hs⟩
  cases o with
  | none => exact absurd ho (simD_nofail pd P g hn args)
  | some t => exact ⟨t, rfl, simD_choices_skel pd P g args t ho⟩

mutual
  theorem lawHyp_of_condOK_gf (hnorm : pd.Normalised) : (g : GF) → g.condOK = true →
      g.LawHyp pd P
    | .dist _, _ => trivial
    | .fn body, h => by
        simp only [GF.condOK] at h; simp only [GF.LawHyp]
        exact lawHyp_of_condOK_body hnorm body h
    | .vmap g _ _, h => by
        simp only [GF.condOK] at h; simp only [GF.LawHyp]; exact lawHyp_of_condOK_gf hnorm g h
    | .scan g _, h => by
        simp only [GF.condOK] at h; simp only [GF.LawHyp]; exact lawHyp_of_condOK_gf hnorm g h
    | .cond t f, h => by
        simp only [GF.condOK, Bool.and_eq_true, decide_eq_true_eq] at h
        obtain ⟨⟨⟨⟨hct, hcf⟩, hsk⟩, hnt⟩, hnf⟩ := h
        simp only [GF.LawHyp]
        exact ⟨lawHyp_of_condOK_gf hnorm t hct, lawHyp_of_condOK_gf hnorm f hcf, hsk,
          GF.total_of_noCollide pd P hnorm t hnt hct, GF.total_of_noCollide pd P hnorm f hnf hcf⟩
  theorem lawHyp_of_condOK_body (hnorm : pd.Normalised) : (b : Body) → b.condOK = true →
      b.LawHyp pd P
    | .ret _, _ => trivial
    | .call _ g _ rest, h => by
        simp only [Body.condOK, Bool.and_eq_true] at h
        simp only [Body.LawHyp]
        exact ⟨lawHyp_of_condOK_gf hnorm g h.1, lawHyp_of_condOK_body hnorm rest h.2⟩
end

end Total

end Genjax
