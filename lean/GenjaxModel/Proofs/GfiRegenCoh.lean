import GenjaxModel.Model.GfiRegenDist
import GenjaxModel.Proofs.GfiAssess
import Mathlib.Algebra.Field.Defs
import Mathlib.Algebra.GroupWithZero.Basic
import Mathlib.Algebra.Field.Rat
import Mathlib.Algebra.Group.Int.Defs
/-!
  A coherent trace and the selection-split assess (`GF.assessS`): on a Cond-free program, a coherent
  trace `t` with choice map `x` is accepted by `assessS` (whatever the selection), the reported
  return value is the trace's, and the product `B` of the masses of the UNSELECTED sites is, when
  non-zero, the reciprocal of `GF.unselE e t s` (the product over the unselected leaves of
  `e (stored score)`), provided `e (-(lp)) * pm = 1` wherever `pm ≠ 0`.
-/
namespace Genjax

section Aux
variable {R : Type}

private theorem retvals_eq' : (l : TrL R) → l.retvals = Val.ofList (l.toList.map Tr.retval)
  | .nil => by simp [TrL.retvals, TrL.toList, Val.ofList]
  | .cons k t rest => by simp [TrL.retvals, TrL.toList, Val.ofList, retvals_eq' rest]

private theorem outs_eq' : (l : TrL R) → l.outs = Val.ofList (l.toList.map (fun t => t.retval.snd))
  | .nil => by simp [TrL.outs, TrL.toList, Val.ofList]
  | .cons k t rest => by simp [TrL.outs, TrL.toList, Val.ofList, outs_eq' rest]

private theorem forall2_length' {α β : Type} {r : α → β → Prop} {a : List α} {b : List β}
    (h : List.Forall₂ r a b) : a.length = b.length := by
  induction h with
  | nil => rfl
  | cons _ _ ih => simp [ih]

end Aux

variable {K : Type} [Field K] {R : Type} [AddCommGroup R] (e : R → K) (pd : PD K) (P : Prims R)

omit [AddCommGroup R] in
/-- combining two "reciprocal when non-zero" facts -/
private theorem mul_recip {U1 U2 B1 B2 : K} (h1 : B1 ≠ 0 → U1 * B1 = 1) (h2 : B2 ≠ 0 → U2 * B2 = 1)
    (h : B1 * B2 ≠ 0) : (U1 * U2) * (B1 * B2) = 1 := by
  obtain ⟨hb1, hb2⟩ := mul_ne_zero_iff.mp h
  rw [mul_mul_mul_comm, h1 hb1, h2 hb2, mul_one]

omit [AddCommGroup R] in
private theorem lanes_assessS (coh : List Val → Tr R → Prop) (axes : List Bool) (args : List Val)
    (U : Tr R → K) (f : Nat → CM → Option ((K × K) × Val))
    (hf : ∀ i t c, coh (laneArgs axes args i) t → t.choices = some c →
      ∃ A B : K, f i c = some ((A, B), t.retval) ∧ (B ≠ 0 → U t * B = 1)) :
    ∀ (ts : List (Tr R)) (xs : List CM) (i : Nat),
      List.Forall₂ (fun t c => t.choices = some c) ts xs →
      lanesCoh coh axes args i ts →
      ∃ rs, forLanes f i xs = some rs ∧ rs.map (·.2) = ts.map Tr.retval ∧
        (prodK (rs.map (·.1.2)) ≠ 0 → prodK (ts.map U) * prodK (rs.map (·.1.2)) = 1) := by
  intro ts
  induction ts with
  | nil => intro xs i h _; cases h; exact ⟨[], by simp [forLanes], rfl, by simp [prodK]⟩
  | cons t ts ih =>
    intro xs i h hc
    cases h with
    | cons h1 h2 =>
      obtain ⟨hc1, hc2⟩ := hc
      obtain ⟨A, B, hAB, hB⟩ := hf i t _ hc1 h1
      obtain ⟨rs, hrs, hret, hprod⟩ := ih _ _ h2 hc2
      refine ⟨((A, B), t.retval) :: rs, by simp [forLanes, hAB, hrs], by simp [hret], ?_⟩
      simp only [List.map_cons, prodK]
      exact mul_recip hB hprod

omit [AddCommGroup R] in
private theorem steps_assessS (coh : List Val → Tr R → Prop) (xsv : Val)
    (U : Tr R → K) (f : Val → Nat → CM → Option (((K × K) × Val) × Val))
    (hf : ∀ c i t x, coh [c, xsv.nth i] t → t.choices = some x →
      ∃ A B : K, f c i x = some (((A, B), t.retval.snd), t.retval.fst) ∧ (B ≠ 0 → U t * B = 1)) :
    ∀ (ts : List (Tr R)) (xs : List CM) (c : Val) (i : Nat) (c' : Val),
      List.Forall₂ (fun t c => t.choices = some c) ts xs →
      stepsCoh coh xsv c i ts c' →
      ∃ rs, forSteps f c i xs = some (rs, c') ∧
        rs.map (·.2) = ts.map (fun t => t.retval.snd) ∧
        (prodK (rs.map (·.1.2)) ≠ 0 → prodK (ts.map U) * prodK (rs.map (·.1.2)) = 1) := by
  intro ts
  induction ts with
  | nil =>
    intro xs c i c' h hc; cases h; simp [stepsCoh] at hc
    exact ⟨[], by simp [forSteps, hc], rfl, by simp [prodK]⟩
  | cons t ts ih =>
    intro xs c i c' h hc
    cases h with
    | cons h1 h2 =>
      obtain ⟨hc1, hc2⟩ := hc
      obtain ⟨A, B, hAB, hB⟩ := hf c i t _ hc1 h1
      obtain ⟨rs, hrs, hret, hprod⟩ := ih _ _ _ _ h2 hc2
      refine ⟨((A, B), t.retval.snd) :: rs, by simp [forSteps, hAB, hrs], by simp [hret], ?_⟩
      simp only [List.map_cons, prodK]
      exact mul_recip hB hprod

variable (hinv : ∀ d a v, pd.pm d a v ≠ 0 → e (-(P.lp d a v)) * pd.pm d a v = 1)
include hinv

set_option linter.unusedSectionVars false in
mutual
  theorem coh_assessS_gf : (g : GF) → g.condFree = true →
      ∀ (args : List Val) (t : Tr R) (x : CM) (s : Sel),
      g.Coh P args t → t.choices = some x →
      ∃ A B : K, g.assessS pd x s args = some ((A, B), t.retval) ∧
        (B ≠ 0 → g.unselE e t s * B = 1)
    | .dist d, _, args, t, x, s, h, hx => by
        cases t <;> simp only [GF.Coh] at h
        rename_i v sOld
        simp only [Tr.choices, Option.some.injEq] at hx
        subst hx h
        by_cases hs : s.leaf = true
        · exact ⟨pd.pm d args v, 1, by simp [GF.assessS, hs, Tr.retval], by simp [GF.unselE, hs]⟩
        · refine ⟨1, pd.pm d args v, by simp [GF.assessS, hs, Tr.retval], ?_⟩
          intro hB
          simpa [GF.unselE, hs] using hinv d args v hB
    | .fn body, hg, args, t, x, s, h, hx => by
        cases t <;> simp only [GF.Coh] at h
        rename_i subs r sc
        obtain ⟨hb, rfl, rfl⟩ := h
        simp only [Tr.choices, Option.map_eq_some_iff] at hx
        obtain ⟨xl, hxl, rfl⟩ := hx
        simp only [GF.condFree] at hg
        simp only [GF.assessS, GF.unselE, Tr.retval]
        exact coh_assessS_body body hg args subs xl [] s hb hxl (by simp)
    | .vmap g axes n, hg, args, t, x, s, h, hx => by
        cases t <;> simp only [GF.Coh] at h
        rename_i lanes
        obtain ⟨hlen, hl⟩ := h
        simp only [Tr.choices, Option.map_eq_some_iff] at hx
        obtain ⟨xl, hxl, rfl⟩ := hx
        simp only [GF.condFree] at hg
        have hF := TrL.choices_toList lanes xl hxl
        obtain ⟨rs, hrs, hret, hprod⟩ := lanes_assessS (fun a t => g.Coh P a t) axes args
          (fun t => g.unselE e t s)
          (fun i xi => g.assessS pd xi s (laneArgs axes args i))
          (fun i t c hc hch => coh_assessS_gf g hg _ t c s hc hch) _ _ 0 hF hl
        have hlen' : xl.toList.length = n := by rw [← forall2_length' hF, hlen]
        refine ⟨prodK (rs.map (·.1.1)), prodK (rs.map (·.1.2)), ?_, ?_⟩
        · simp only [GF.assessS, hrs, lenIs, hlen']
          simp [Tr.retval, retvals_eq', hret]
        · simpa only [GF.unselE] using hprod
    | .scan g n, hg, args, t, x, s, h, hx => by
        cases t <;> simp only [GF.Coh] at h
        rename_i steps c
        obtain ⟨hlen, hl⟩ := h
        simp only [Tr.choices, Option.map_eq_some_iff] at hx
        obtain ⟨xl, hxl, rfl⟩ := hx
        simp only [GF.condFree] at hg
        have hF := TrL.choices_toList steps xl hxl
        obtain ⟨rs, hrs, hret, hprod⟩ := steps_assessS (fun a t => g.Coh P a t) (args.getD 1 .nil)
          (fun t => g.unselE e t s)
          (fun c i xi =>
            (g.assessS pd xi s [c, (args.getD 1 .nil).nth i]).bind fun o =>
              some ((o.1, o.2.snd), o.2.fst))
          (fun c i t x hc hch => by
            obtain ⟨A, B, hAB, hB⟩ := coh_assessS_gf g hg _ t x s hc hch
            exact ⟨A, B, by simp only [hAB]; rfl, hB⟩) _ _ _ 0 _ hF hl
        have hlen' : xl.toList.length = n := by rw [← forall2_length' hF, hlen]
        refine ⟨prodK (rs.map (·.1.1)), prodK (rs.map (·.1.2)), ?_, ?_⟩
        · simp only [GF.assessS, hrs, lenIs, hlen']
          simp [Tr.retval, outs_eq', hret]
        · simpa only [GF.unselE] using hprod
    | .cond _ _, hg, _, _, _, _, _, _ => by simp [GF.condFree] at hg
  theorem coh_assessS_body : (b : Body) → b.condFree = true →
      ∀ (env : List Val) (subs : TrL R) (xl : CML) (seen : List String) (s : Sel),
      b.Coh P env subs → subs.choices = some xl → (∀ a ∈ b.addrs, a ∉ seen) →
      ∃ A B : K, b.assessS pd xl s env seen = some ((A, B), b.retOf env subs) ∧
        (B ≠ 0 → b.unselE e subs s * B = 1)
    | .ret ex, _, env, subs, xl, seen, s, _, _, _ =>
        ⟨1, 1, by simp [Body.assessS, Body.retOf], by simp [Body.unselE]⟩
    | .call addr g es rest, hb, env, subs, xl, seen, s, h, hx, hseen => by
        simp only [Body.Coh] at h
        obtain ⟨hnot, t, hft, hgc, hrc⟩ := h
        simp only [Body.condFree, Bool.and_eq_true] at hb
        obtain ⟨c, hc, hfc⟩ := TrL.choices_find subs xl hx addr t hft
        obtain ⟨A1, B1, h1, hB1⟩ :=
          coh_assessS_gf g hb.1 _ t c (s.matchAddr addr).2 hgc hc
        obtain ⟨A2, B2, h2, hB2⟩ :=
          coh_assessS_body rest hb.2 (env ++ [t.retval]) subs xl (addr :: seen) s hrc hx (by
            intro a ha
            simp only [List.mem_cons, not_or]
            refine ⟨?_, hseen a (by simp [Body.addrs, ha])⟩
            rintro rfl; exact hnot ha)
        have h3 : seen.contains addr = false := by
          simpa using hseen addr (by simp [Body.addrs])
        refine ⟨A1 * A2, B1 * B2, ?_, ?_⟩
        · simp only [Body.assessS, h3, hfc, h1, Body.retOf, hft]
          simp [h2]
        · simp only [Body.unselE, hft]
          exact mul_recip hB1 hB2
end

/-- A coherent trace of a Cond-free program is accepted by the selection-split assess, with the
    trace's return value, and the product `B` of the masses of the unselected sites is (when
    non-zero) the reciprocal of `g.unselE e t s`. -/
theorem coh_assessS (g : GF) (hg : g.condFree = true) (args : List Val) (t : Tr R) (x : CM) (s : Sel)
    (h : g.Coh P args t) (hx : t.choices = some x) :
    ∃ A B : K, g.assessS pd x s args = some ((A, B), t.retval) ∧ (B ≠ 0 → g.unselE e t s * B = 1) :=
  coh_assessS_gf e pd P hinv g hg args t x s h hx

omit hinv in
/-- non-vacuity: the hypotheses of `coh_assessS` hold on a concrete instance (one call site holding a
    Distribution of mass 1/2, log density -1 read back by `e 1 = 2`, nothing selected) -/
example :
    let P : Prims ℤ := ⟨fun _ _ _ => -1, fun _ _ => .nil⟩
    let pd : PD ℚ := ⟨fun _ _ => [.nil], fun _ _ _ => 1 / 2⟩
    let e : ℤ → ℚ := fun r => if r = 1 then 2 else 1
    let g : GF := .fn (.call "a" (.dist 0) [] (.ret (.var 0)))
    let t : Tr ℤ := .fn (.cons "a" (.leaf (.num 3) 1) .nil) (.num 3) (1 + 0)
    (∀ d a v, pd.pm d a v ≠ 0 → e (-(P.lp d a v)) * pd.pm d a v = 1) ∧
      g.condFree = true ∧ g.Coh P [] t ∧ t.choices = some (.node (.cons "a" (.leaf (.num 3)) .nil)) ∧
      g.assessS pd (.node (.cons "a" (.leaf (.num 3)) .nil)) .none [] = some ((1 * 1, 1 / 2 * 1), .num 3) ∧
      g.unselE e t .none = 2 * 1 := by
  refine ⟨by intro d a v _; norm_num, by decide, ?_, by rfl, ?_, ?_⟩
  · simp [GF.Coh, Body.Coh, Body.addrs, TrL.find?, Body.retOf, Body.scoreOf, Tr.retval, Tr.score,
      Expr.eval]
  · simp [GF.assessS, Body.assessS, CML.find?, Sel.matchAddr, Sel.leaf, Expr.eval]
  · simp [GF.unselE, Body.unselE, TrL.find?, Sel.matchAddr, Sel.leaf]

end Genjax
