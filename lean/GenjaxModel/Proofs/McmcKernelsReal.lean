import GenjaxModel.Proofs.McmcKernels
import Mathlib.Analysis.Complex.Exponential
/-!
  C09, kernels over ℝ: detailed balance of the accept probability `min(1, exp(log alpha))` that the code
  applies, for the log alphas the MALA and HMC models compute.  Combines the antisymmetry theorems with
  `mh_detailed_balance`.  The densities are written up to the (constant, symmetric) normalisers of the
  Gaussian proposal / momentum law; that the Langevin proposal HAS the Gaussian density and that leapfrog
  preserves volume is cited mathematics.
-/
namespace Genjax.Mcmc
open Real

/-- MH detailed balance in log form: with log a, log b the log "flows" and the accept probabilities
    `min(1, exp(±(log b − log a)))` -/
theorem mh_detailed_balance_log (A B : ℝ) :
    exp A * min 1 (exp (B - A)) = exp B * min 1 (exp (A - B)) := by
  rw [exp_sub, exp_sub]
  exact mh_detailed_balance (exp A) (exp B) (exp_pos A) (exp_pos B)

/-- MALA: π(x)·q(x'|x)·min(1, e^{log alpha(x→x')}) = π(x')·q(x|x')·min(1, e^{log alpha(x'→x)}) with
    q the (unnormalised) Langevin Gaussian kernel and log alpha the quantity the code computes -/
theorem mala_detailed_balance_real (c eps : ℝ) (he : eps ≠ 0) (shape : List Nat) (logp : List ℝ → ℝ)
    (grad : List ℝ → List ℝ) (x x' : List ℝ) (hgrad : DimPres x.length grad)
    (hx : x'.length = x.length) (hs : shape.sum = x.length) :
    exp (logp x + langevinLogQ eps x (grad x) x')
        * min 1 (exp (malaLogRatio c eps shape logp grad x x'))
      = exp (logp x' + langevinLogQ eps x' (grad x') x)
        * min 1 (exp (malaLogRatio c eps shape logp grad x' x)) := by
  rw [mala_reverse_symmetric c eps shape logp grad x x',
    mala_ratio_is_mh_ratio c eps he shape logp grad x x' hgrad hx hs, neg_sub]
  exact mh_detailed_balance_log _ _

/-- HMC: e^{−H(s)}·min(1, e^{log alpha(s)}) = e^{−H(s*)}·min(1, e^{log alpha(s*)}) for s* the proposal
    flip (leapfrogⁿ s), which is mapped back to s -/
theorem hmc_detailed_balance_real (c eps : ℝ) (n : Nat) (shape : List Nat) (logp : List ℝ → ℝ)
    (grad : List ℝ → List ℝ) (x p : List ℝ) (hgrad : DimPres x.length grad)
    (hl : p.length = x.length) (hs : shape.sum = x.length) :
    exp (-energy logp (x, p)) * min 1 (exp (hmcLogAlpha c eps n shape logp grad x p))
      = exp (-energy logp (flip (leapfrogN grad eps n (x, p))))
        * min 1 (exp (hmcLogAlpha c eps n shape logp grad (flip (leapfrogN grad eps n (x, p))).1
            (flip (leapfrogN grad eps n (x, p))).2)) := by
  rw [hmc_alpha_reverse c eps n shape logp grad x p hgrad hl hs]
  rw [hmc_alpha_eq_energy c eps n shape logp grad x p hgrad hl hs]
  have := mh_detailed_balance_log (-energy logp (x, p))
    (-energy logp (flip (leapfrogN grad eps n (x, p))))
  convert this using 3 <;> ring_nf

end Genjax.Mcmc
