import GenjaxModel.Proofs.SmcInit
/-!
  C10, the weight formula without side conditions (programs whose Conds are `condOK`): the weight `generate` returns
  is a FUNCTION of the constraint and of the generated trace's choice map — two runs of
  `generateD g ox args` that end in the same choice map carry the same weight (`generateD_weight_det`).
  Hence on EVERY run of a particle with a custom proposal
      `w_total · q(z) · fillProb(m, y) = 1{y ⊇ m} · p(y)`          (`weight_formula_run`).
-/
namespace Genjax.Smc
open Genjax Smc.FinDist

section Det
variable {K : Type} [Field K] {R : Type} [AddCommGroup R]
variable (pd : PD K) (P : Prims R) (cfg : Cfg)

/-- two outcomes carry the same (defined) choice map -/
def SameCh (b b' : Tr R × K) : Prop := ∃ c, b.1.choices = some c ∧ b'.1.choices = some c

omit [Field K] [AddCommGroup R] in
theorem forall2_sameCh : ∀ (cs : List CM) (ts ts' : List (Tr R × K)),
    (ts.map (·.1)).map Tr.choices = cs.map some → (ts'.map (·.1)).map Tr.choices = cs.map some →
    List.Forall₂ SameCh ts ts'
  | [], ts, ts', h, h' => by
    cases ts with
    | nil =>
      cases ts' with
      | nil => exact .nil
      | cons _ _ => simp at h'
    | cons _ _ => simp at h
  | c :: cs, ts, ts', h, h' => by
    cases ts with
    | nil => simp at h
    | cons b ts1 =>
      cases ts' with
      | nil => simp at h'
      | cons b' ts1' =>
        simp only [List.map_cons, List.cons.injEq] at h h'
        exact .cons ⟨c, h.1, h'.1⟩ (forall2_sameCh cs ts1 ts1' h.2 h'.2)

theorem forLanesD_det {α β : Type} (f : Nat → α → FinDist K (Option β)) (Pre Rel : β → β → Prop)
    (hf : ∀ i a b b', some b ∈ supp (f i a) → some b' ∈ supp (f i a) → Pre b b' → Rel b b') :
    ∀ (i : Nat) (l : List α) (bs bs' : List β), some bs ∈ supp (forLanesD f i l) →
      some bs' ∈ supp (forLanesD f i l) → List.Forall₂ Pre bs bs' → List.Forall₂ Rel bs bs'
  | _, [], bs, bs', h, h', _ => by
    simp only [forLanesD] at h h'
    cases mem_supp_pureO h
    cases mem_supp_pureO h'
    exact .nil
  | i, a :: as, bs, bs', h, h', hp => by
    simp only [forLanesD] at h h'
    obtain ⟨b, hb, h⟩ := mem_supp_bindO h
    obtain ⟨bs1, hbs1, h⟩ := mem_supp_bindO h
    cases mem_supp_pureO h
    obtain ⟨b', hb', h'⟩ := mem_supp_bindO h'
    obtain ⟨bs1', hbs1', h'⟩ := mem_supp_bindO h'
    cases mem_supp_pureO h'
    cases hp with
    | cons hp1 hp2 =>
      exact .cons (hf i a b b' hb hb' hp1) (forLanesD_det f Pre Rel hf (i + 1) as bs1 bs1' hbs1 hbs1' hp2)

theorem forStepsD_det {α β : Type} (f : Val → Nat → α → FinDist K (Option (β × Val)))
    (Pre Rel : β → β → Prop)
    (hf : ∀ c i a p p', some p ∈ supp (f c i a) → some p' ∈ supp (f c i a) → Pre p.1 p'.1 →
      Rel p.1 p'.1 ∧ p.2 = p'.2) :
    ∀ (c : Val) (i : Nat) (l : List α) (r r' : List β × Val), some r ∈ supp (forStepsD f c i l) →
      some r' ∈ supp (forStepsD f c i l) → List.Forall₂ Pre r.1 r'.1 → List.Forall₂ Rel r.1 r'.1
  | _, _, [], r, r', h, h', _ => by
    simp only [forStepsD] at h h'
    cases mem_supp_pureO h
    cases mem_supp_pureO h'
    exact .nil
  | c, i, a :: as, r, r', h, h', hp => by
    simp only [forStepsD] at h h'
    obtain ⟨p, hp0, h⟩ := mem_supp_bindO h
    obtain ⟨q, hq, h⟩ := mem_supp_bindO h
    cases mem_supp_pureO h
    obtain ⟨p', hp0', h'⟩ := mem_supp_bindO h'
    obtain ⟨q', hq', h'⟩ := mem_supp_bindO h'
    cases mem_supp_pureO h'
    cases hp with
    | cons hp1 hp2 =>
      obtain ⟨hrel, hcarry⟩ := hf c i a p p' hp0 hp0' hp1
      rw [← hcarry] at hq'
      exact .cons hrel (forStepsD_det f Pre Rel hf p.2 (i + 1) as q q' hq hq' hp2)

omit [Field K] in
/-- the return value of a coherent trace is determined by its choice map -/
theorem retval_of_choices (g : GF) (args : List Val) (t t' : Tr R) (h : g.Coh P args t)
    (h' : g.Coh P args t') (c : CM) (hc : t.choices = some c) (hc' : t'.choices = some c) :
    t.retval = t'.retval := by
  have h1 := coh_assess P g args t h c hc
  have h2 := coh_assess P g args t' h' c hc'
  rw [h1] at h2
  simp only [Option.some.injEq, Prod.mk.injEq] at h2
  exact h2.2

omit [Field K] [AddCommGroup R] in
theorem map_snd_of_forall2 : ∀ (ts ts' : List (Tr R × K)),
    List.Forall₂ (fun b b' => b.2 = b'.2) ts ts' → ts.map (·.2) = ts'.map (·.2)
  | _, _, .nil => rfl
  | _, _, .cons h1 h2 => by
    simp only [List.map_cons, h1, map_snd_of_forall2 _ _ h2]

mutual
  /-- **the weight of `generate` is a function of the constraint and the choice map** (Cond-free
      programs): two runs ending in the same choice map carry the same weight -/
  theorem genW_det_gf : (g : GF) → g.condOK = true → ∀ (ox : Option CM) (args : List Val)
      (tw tw' : Tr R × K), some tw ∈ supp (g.generateD pd P cfg ox args) →
      some tw' ∈ supp (g.generateD pd P cfg ox args) → SameCh tw tw' → tw.2 = tw'.2
    | .dist d, _, none, args, tw, tw', h, h', _ => by
        simp only [GF.generateD, supp, List.map_map, List.mem_map, Function.comp,
          Option.some.injEq] at h h'
        obtain ⟨v, _, rfl⟩ := h
        obtain ⟨v', _, rfl⟩ := h'
        rfl
    | .dist d, _, some (.leaf v), args, tw, tw', h, h', _ => by
        simp only [GF.generateD] at h h'
        cases mem_supp_pureO h
        cases mem_supp_pureO h'
        rfl
    | .dist d, _, some (.node _), args, tw, tw', h, _, _ => by
        simp only [GF.generateD] at h
        cases mem_supp_failO h
    | .dist d, _, some (.lanes _), args, tw, tw', h, _, _ => by
        simp only [GF.generateD] at h
        cases mem_supp_failO h
    | .fn body, _, none, args, tw, tw', h, h', _ => by
        simp only [GF.generateD] at h h'
        obtain ⟨r, _, h⟩ := mem_supp_bindO h
        cases mem_supp_pureO h
        obtain ⟨r', _, h'⟩ := mem_supp_bindO h'
        cases mem_supp_pureO h'
        rfl
    | .fn body, hcf, some (.node xs), args, tw, tw', h, h', hs => by
        simp only [GF.generateD] at h h'
        obtain ⟨r, hr, h⟩ := mem_supp_bindO h
        cases mem_supp_pureO h
        obtain ⟨r', hr', h'⟩ := mem_supp_bindO h'
        cases mem_supp_pureO h'
        obtain ⟨c, hc, hc'⟩ := hs
        simp only [Tr.choices, Option.map_eq_some_iff] at hc hc'
        obtain ⟨yl, hyl, rfl⟩ := hc
        obtain ⟨yl', hyl', hnode⟩ := hc'
        cases hnode
        exact genW_det_body body (by simpa [GF.condOK] using hcf) xs args .nil .nil 0 0 1 r r'
          hr hr' yl hyl hyl'
    | .fn body, _, some (.leaf _), args, tw, tw', h, _, _ => by
        simp only [GF.generateD] at h
        cases mem_supp_failO h
    | .fn body, _, some (.lanes _), args, tw, tw', h, _, _ => by
        simp only [GF.generateD] at h
        cases mem_supp_failO h
    | .vmap g axes n, hcf, none, args, tw, tw', h, h', hs => by
        simp only [GF.generateD] at h h'
        split at h
        · rename_i hcond
          rw [if_pos hcond] at h'
          obtain ⟨ts, hts, h⟩ := mem_supp_bindO h
          cases mem_supp_pureO h
          obtain ⟨ts', hts', h'⟩ := mem_supp_bindO h'
          cases mem_supp_pureO h'
          obtain ⟨c, hc, hc'⟩ := hs
          simp only [Tr.choices, Option.map_eq_some_iff] at hc hc'
          obtain ⟨l, hl, rfl⟩ := hc
          obtain ⟨l', hl', hlan⟩ := hc'
          cases hlan
          have h1 := ((TrL.choices_ofList_iff _ _).mp hl).2
          have h2 := ((TrL.choices_ofList_iff _ _).mp hl').2
          have hF := forLanesD_det _ SameCh (fun b b' : Tr R × K => b.2 = b'.2)
            (fun i a b b' hb hb' hp =>
              genW_det_gf g (by simpa [GF.condOK] using hcf) _ _ b b' hb hb' hp)
            0 _ ts ts' hts hts' (forall2_sameCh l.toList ts ts' h1 h2)
          show prodK (ts.map (·.2)) = prodK (ts'.map (·.2))
          rw [map_snd_of_forall2 ts ts' hF]
        · cases mem_supp_failO h
    | .vmap g axes n, hcf, some (.lanes xs), args, tw, tw', h, h', hs => by
        simp only [GF.generateD] at h h'
        split at h
        · rename_i hcond
          rw [if_pos hcond] at h'
          obtain ⟨ts, hts, h⟩ := mem_supp_bindO h
          cases mem_supp_pureO h
          obtain ⟨ts', hts', h'⟩ := mem_supp_bindO h'
          cases mem_supp_pureO h'
          obtain ⟨c, hc, hc'⟩ := hs
          simp only [Tr.choices, Option.map_eq_some_iff] at hc hc'
          obtain ⟨l, hl, rfl⟩ := hc
          obtain ⟨l', hl', hlan⟩ := hc'
          cases hlan
          have h1 := ((TrL.choices_ofList_iff _ _).mp hl).2
          have h2 := ((TrL.choices_ofList_iff _ _).mp hl').2
          have hF := forLanesD_det _ SameCh (fun b b' : Tr R × K => b.2 = b'.2)
            (fun i a b b' hb hb' hp =>
              genW_det_gf g (by simpa [GF.condOK] using hcf) _ _ b b' hb hb' hp)
            0 _ ts ts' hts hts' (forall2_sameCh l.toList ts ts' h1 h2)
          show prodK (ts.map (·.2)) = prodK (ts'.map (·.2))
          rw [map_snd_of_forall2 ts ts' hF]
        · cases mem_supp_failO h
    | .vmap g axes n, _, some (.leaf _), args, tw, tw', h, _, _ => by
        simp only [GF.generateD] at h
        cases mem_supp_failO h
    | .vmap g axes n, _, some (.node _), args, tw, tw', h, _, _ => by
        simp only [GF.generateD] at h
        cases mem_supp_failO h
    | .scan g n, hcf, none, args, tw, tw', h, h', hs => by
        simp only [GF.generateD] at h h'
        obtain ⟨r, hr, h⟩ := mem_supp_bindO h
        cases mem_supp_pureO h
        obtain ⟨r', hr', h'⟩ := mem_supp_bindO h'
        cases mem_supp_pureO h'
        obtain ⟨c, hc, hc'⟩ := hs
        simp only [Tr.choices, Option.map_eq_some_iff] at hc hc'
        obtain ⟨l, hl, rfl⟩ := hc
        obtain ⟨l', hl', hlan⟩ := hc'
        cases hlan
        have h1 := ((TrL.choices_ofList_iff _ _).mp hl).2
        have h2 := ((TrL.choices_ofList_iff _ _).mp hl').2
        have hF := forStepsD_det _ SameCh (fun b b' : Tr R × K => b.2 = b'.2)
          (fun c i a p p' hp hp' hpre => by
            obtain ⟨t, ht, hp⟩ := mem_supp_bindO hp
            cases mem_supp_pureO hp
            obtain ⟨t', ht', hp'⟩ := mem_supp_bindO hp'
            cases mem_supp_pureO hp'
            refine ⟨genW_det_gf g (by simpa [GF.condOK] using hcf) _ _ t t' ht ht' hpre, ?_⟩
            obtain ⟨cc, hcc, hcc'⟩ := hpre
            show t.1.retval.fst = t'.1.retval.fst
            rw [retval_of_choices P g _ t.1 t'.1 (generateD_coh_canon pd P cfg g _ _ t ht).1
              (generateD_coh_canon pd P cfg g _ _ t' ht').1 cc hcc hcc'])
          _ 0 _ r r' hr hr' (forall2_sameCh l.toList r.1 r'.1 h1 h2)
        show prodK (r.1.map (·.2)) = prodK (r'.1.map (·.2))
        rw [map_snd_of_forall2 r.1 r'.1 hF]
    | .scan g n, hcf, some (.lanes xs), args, tw, tw', h, h', hs => by
        simp only [GF.generateD] at h h'
        split at h
        · rename_i hcond
          rw [if_pos hcond] at h'
          obtain ⟨r, hr, h⟩ := mem_supp_bindO h
          cases mem_supp_pureO h
          obtain ⟨r', hr', h'⟩ := mem_supp_bindO h'
          cases mem_supp_pureO h'
          obtain ⟨c, hc, hc'⟩ := hs
          simp only [Tr.choices, Option.map_eq_some_iff] at hc hc'
          obtain ⟨l, hl, rfl⟩ := hc
          obtain ⟨l', hl', hlan⟩ := hc'
          cases hlan
          have h1 := ((TrL.choices_ofList_iff _ _).mp hl).2
          have h2 := ((TrL.choices_ofList_iff _ _).mp hl').2
          have hF := forStepsD_det _ SameCh (fun b b' : Tr R × K => b.2 = b'.2)
            (fun c i a p p' hp hp' hpre => by
              obtain ⟨t, ht, hp⟩ := mem_supp_bindO hp
              cases mem_supp_pureO hp
              obtain ⟨t', ht', hp'⟩ := mem_supp_bindO hp'
              cases mem_supp_pureO hp'
              refine ⟨genW_det_gf g (by simpa [GF.condOK] using hcf) _ _ t t' ht ht' hpre, ?_⟩
              obtain ⟨cc, hcc, hcc'⟩ := hpre
              show t.1.retval.fst = t'.1.retval.fst
              rw [retval_of_choices P g _ t.1 t'.1 (generateD_coh_canon pd P cfg g _ _ t ht).1
                (generateD_coh_canon pd P cfg g _ _ t' ht').1 cc hcc hcc'])
            _ 0 _ r r' hr hr' (forall2_sameCh l.toList r.1 r'.1 h1 h2)
          show prodK (r.1.map (·.2)) = prodK (r'.1.map (·.2))
          rw [map_snd_of_forall2 r.1 r'.1 hF]
        · cases mem_supp_failO h
    | .scan g n, _, some (.leaf _), args, tw, tw', h, _, _ => by
        simp only [GF.generateD] at h
        cases mem_supp_failO h
    | .scan g n, _, some (.node _), args, tw, tw', h, _, _ => by
        simp only [GF.generateD] at h
        cases mem_supp_failO h
    | .cond t f, _, none, args, tw, tw', h, h', _ => by
        simp only [GF.generateD] at h h'
        obtain ⟨a, _, h⟩ := mem_supp_bindO h
        obtain ⟨b, _, h⟩ := mem_supp_bindO h
        cases mem_supp_pureO h
        obtain ⟨a', _, h'⟩ := mem_supp_bindO h'
        obtain ⟨b', _, h'⟩ := mem_supp_bindO h'
        cases mem_supp_pureO h'
        rfl
    | .cond t f, hcf, some x, args, tw, tw', h, h', hs => by
        simp only [GF.condOK, Bool.and_eq_true, decide_eq_true_eq] at hcf
        obtain ⟨⟨⟨⟨hct, hcff⟩, hsk⟩, _⟩, _⟩ := hcf
        simp only [GF.generateD] at h h'
        obtain ⟨aw, ha, h⟩ := mem_supp_bindO h
        obtain ⟨bw, hb, h⟩ := mem_supp_bindO h
        cases mem_supp_pureO h
        obtain ⟨aw', ha', h'⟩ := mem_supp_bindO h'
        obtain ⟨bw', hb', h'⟩ := mem_supp_bindO h'
        cases mem_supp_pureO h'
        obtain ⟨y, hy, hy'⟩ := hs
        obtain ⟨sk, hskt⟩ := Option.isSome_iff_exists.mp (condOK_skel_gf t hct)
        have hsa := generateD_choices_skel pd P cfg t (some x) _ aw ha
        have hsb := generateD_choices_skel pd P cfg f (some x) _ bw hb
        have hsa' := generateD_choices_skel pd P cfg t (some x) _ aw' ha'
        have hsb' := generateD_choices_skel pd P cfg f (some x) _ bw' hb'
        rw [← hsk] at hsb hsb'
        obtain ⟨ya, hya⟩ := choices_of_skel hsa (by rw [hskt]; rfl)
        obtain ⟨yb, hyb⟩ := choices_of_skel hsb (by rw [hskt]; rfl)
        obtain ⟨ya', hya'⟩ := choices_of_skel hsa' (by rw [hskt]; rfl)
        obtain ⟨yb', hyb'⟩ := choices_of_skel hsb' (by rw [hskt]; rfl)
        have e1 : ya.skel = yb.skel := by
          rw [hya, hskt] at hsa; rw [hyb, hskt] at hsb
          simp only [Option.map_some, Option.some.injEq] at hsa hsb
          rw [hsa, hsb]
        have e2 : ya'.skel = yb'.skel := by
          rw [hya', hskt] at hsa'; rw [hyb', hskt] at hsb'
          simp only [Option.map_some, Option.some.injEq] at hsa' hsb'
          rw [hsa', hsb']
        simp only [Tr.choices, hya, hyb, hya', hyb', Option.bind_eq_bind, Option.bind_some,
          CM.mergeCheck_same _ ya yb e1, CM.mergeCheck_same _ ya' yb' e2, Option.some.injEq] at hy hy'
        cases hc : (args.getD 0 .nil).truthy with
        | true =>
          simp only [hc, if_true] at hy hy' ⊢
          subst hy
          exact genW_det_gf t hct _ _ aw aw' ha ha' ⟨ya, hya, by rw [hya', hy']⟩
        | false =>
          simp only [hc] at hy hy' ⊢
          simp only [Bool.false_eq_true, if_false] at hy hy' ⊢
          subst hy
          exact genW_det_gf f hcff _ _ bw bw' hb hb' ⟨yb, hyb, by rw [hyb', hy']⟩
  theorem genW_det_body : (b : Body) → b.condOK = true → ∀ (xs : CML) (env : List Val)
      (subs subs' : TrL R) (s s' : R) (w : K) (r r' : TrL R × Val × R × K),
      some r ∈ supp (b.generateD pd P cfg xs env subs s w) →
      some r' ∈ supp (b.generateD pd P cfg xs env subs' s' w) →
      ∀ yl, r.1.choices = some yl → r'.1.choices = some yl → r.2.2.2 = r'.2.2.2
    | .ret e, _, xs, env, subs, subs', s, s', w, r, r', h, h', _, _, _ => by
        simp only [Body.generateD] at h h'
        cases mem_supp_pureO h
        cases mem_supp_pureO h'
        rfl
    | .call addr g es rest, hcf, xs, env, subs, subs', s, s', w, r, r', h, h', yl, hy, hy' => by
        simp only [Body.condOK, Bool.and_eq_true] at hcf
        simp only [Body.generateD] at h h'
        split at h
        · cases mem_supp_failO h
        · rename_i hn
          split at h'
          · cases mem_supp_failO h'
          · rename_i hn'
            obtain ⟨tw, ht, hrest⟩ := mem_supp_bindO h
            obtain ⟨tw', ht', hrest'⟩ := mem_supp_bindO h'
            have hinv := (generateD_cc_body pd P cfg rest _ _ _ _ _ _ hrest).1
            have hinv' := (generateD_cc_body pd P cfg rest _ _ _ _ _ _ hrest').1
            have hfind : r.1.find? addr = some tw.1 :=
              hinv.1 _ _ (TrL.find?_snoc_self (by simpa using hn))
            have hfind' : r'.1.find? addr = some tw'.1 :=
              hinv'.1 _ _ (TrL.find?_snoc_self (by simpa using hn'))
            obtain ⟨c, hc, hcy⟩ := TrL.choices_find r.1 yl hy addr tw.1 hfind
            obtain ⟨c', hc', hcy'⟩ := TrL.choices_find r'.1 yl hy' addr tw'.1 hfind'
            have hcc : c = c' := by
              rw [hcy] at hcy'
              exact Option.some.inj hcy'
            subst hcc
            have hw := genW_det_gf g hcf.1 _ _ tw tw' ht ht' ⟨c, hc, hc'⟩
            have hret := retval_of_choices P g _ tw.1 tw'.1
              (generateD_coh_canon pd P cfg g _ _ tw ht).1
              (generateD_coh_canon pd P cfg g _ _ tw' ht').1 c hc hc'
            rw [hw, hret] at hrest
            exact genW_det_body rest hcf.2 xs _ _ _ _ _ _ r r' hrest hrest' yl hy hy'
end

/-- **the weight `generate` returns is a function of the constraint and of the choice map of the
    generated trace** — every program whose Conds are `condOK` (the hidden branch of a Cond is drawn
    too, but does not enter the weight), any constraint, any arguments -/
theorem generateD_weight_det (g : GF) (hcf : g.condOK = true) (ox : Option CM) (args : List Val)
    (tw tw' : Tr R × K) (h : some tw ∈ supp (g.generateD pd P cfg ox args))
    (h' : some tw' ∈ supp (g.generateD pd P cfg ox args)) (y : CM) (hy : tw.1.choices = some y)
    (hy' : tw'.1.choices = some y) : tw.2 = tw'.2 :=
  genW_det_gf pd P cfg g hcf ox args tw tw' h h' ⟨y, hy, hy'⟩

/-- the runs of the continuation after the proposal are the runs of `generate` under the merged
    constraint, the weight divided by the proposal mass -/
theorem afterProposal_supp (cs : Bool) (g : GF) (targs : List Val) (obs : CM) (q : GF)
    (qargs : List Val) (z m : CM) (qr : K × Val) (hm : smcMerge cs obs z = some m)
    (hq : q.assessP pd z qargs = some qr) (tw : Tr R × K)
    (h : some tw ∈ supp (afterProposalD pd P cfg cs g targs obs q qargs z)) :
    ∃ tw0, some tw0 ∈ supp (g.generateD pd P cfg (some m) targs) ∧ tw = (tw0.1, tw0.2 / qr.1) := by
  simp only [afterProposalD, hm, hq] at h
  obtain ⟨tw0, h0, h1⟩ := mem_supp_bindO h
  have h2 := mem_supp_pureO h1
  simp only [Option.some.injEq] at h2
  exact ⟨tw0, h0, h2⟩

/-- **The weight formula of a particle with a custom proposal, on every run** (`init`: `cs = true`, `extend`: `cs = false`).  After the proposal produced `z` (mass
    `q(z) = qr.1 ≠ 0`, merged constraint `m`), EVERY run that ends in the complete choice map `y`
    carries a total weight `w` with
        `w · q(z) · fillProb(m, y) = 1{y ⊇ m} · p(y)`,
    i.e. `w = p(y) / (q(z) · Π_{sites filled by generate} prior mass)`. -/
theorem weight_formula_run (hpd : pd.WF) (hnorm : pd.Normalised) (cs : Bool) (g : GF)
    (hcf : g.condOK = true) (hv : g.vmapOK cfg = true) (targs : List Val) (obs : CM) (q : GF)
    (qargs : List Val) (z m : CM) (qr : K × Val) (hm : smcMerge cs obs z = some m)
    (hq : q.assessP pd z qargs = some qr) (hq0 : qr.1 ≠ 0) (y : CM)
    (hs : g.skel = some y.skel) (tw : Tr R × K)
    (htw : some tw ∈ supp (afterProposalD pd P cfg cs g targs obs q qargs z))
    (hy : tw.1.choices = some y) :
    tw.2 * (qr.1 * fillProb pd P cfg g (some m) targs y)
      = agO (some m) y * pmassOf (g.assessP pd y targs) := by
  refine (init_proposal_weight_formula pd P cfg hpd hnorm cs g hcf hv targs
    obs q qargs z m qr hm hq hq0 y hs).2 tw.2 ?_
  intro tw' htw' hy'
  obtain ⟨t0, h0, rfl⟩ := afterProposal_supp pd P cfg cs g targs obs q qargs z m qr hm hq tw htw
  obtain ⟨t0', h0', rfl⟩ := afterProposal_supp pd P cfg cs g targs obs q qargs z m qr hm hq tw' htw'
  show t0'.2 / qr.1 = t0.2 / qr.1
  rw [generateD_weight_det pd P cfg g hcf (some m) targs t0' t0 h0' h0 y hy' hy]

end Det

end Genjax.Smc
