import GenjaxModel.Proofs.GfiGenSupp
/-!
  C02 for programs WITH Cond (work package c02lawcond): `generate` is properly weighted outcome by
  outcome,

      E_{(t, w) ∼ generateD g ox args} [ w · 1{choices t = y} · ψ(retval t) ]
        = 1{y is a completion of ox} · massOf (assessP g y args) ψ            (`generateD_pointwise_cond`)

  for every program whose Conds are `condOK` (branches of equal static shape, no address collision
  inside them), normalised primitives, every constraint map `ox` and every complete choice map `y`
  of the program's shape.  At `cond (some x)` `generate` runs BOTH branches under the constraint and
  returns the taken branch's weight; the hidden branch's constrained sites contribute nothing to the
  returned weight and its unconstrained draws are marginalised (`generateD_mass_some`: under a
  compatible constraint the hidden branch never raises and has total mass 1).

  The proof is a pointwise induction through fn / vmap / scan — the `generate` analogue of
  `law_gf` / `law_body`, `lanes_law`, `steps_law` (Proofs/GfiLaw*.lean).
-/
namespace Genjax
open Smc Smc.FinDist

section Aux
variable {K : Type} [Field K] {R : Type} {α : Type}

/-- product of the per-lane agreement factors (0 on a length mismatch) -/
def agZip (ag : α → CM → K) : List α → List CM → K
  | [], [] => 1
  | a :: as, y :: ys => ag a y * agZip ag as ys
  | _, _ => 0

theorem agZip_one (ag : α → CM → K) (h : ∀ a y, ag a y = 1) :
    ∀ (as : List α) (ys : List CM), as.length = ys.length → agZip ag as ys = 1
  | [], [], _ => rfl
  | [], _ :: _, h' => by simp at h'
  | _ :: _, [], h' => by simp at h'
  | a :: as, y :: ys, h' => by
      simp only [agZip]
      rw [h, agZip_one ag h as ys (by simpa using h'), mul_one]

/-- lane-by-lane agreement of a vectorised constraint is positional agreement -/
theorem agZip_agO : ∀ (xs l : CML),
    agZip (fun x y => agO (K := K) (some x) y) xs.toList l.toList
      = if l.agreePosWith xs then 1 else 0
  | .nil, .nil => by simp [agZip, CML.toList, CML.agreePosWith]
  | .nil, .cons _ _ _ => by simp [agZip, CML.toList, CML.agreePosWith]
  | .cons _ _ _, .nil => by simp [agZip, CML.toList, CML.agreePosWith]
  | .cons _ x xr, .cons _ y rest => by
      simp only [agZip, CML.toList, CML.agreePosWith]
      rw [agZip_agO xr rest]
      simp only [agO]
      exact ite_mul_ite_fd (K := K) _ _

/-- test function on the weighted lanes of a Vmap: weight product times "the lanes' choice maps are
    `ys`" times a function of the lanes' return values -/
def tstLanes (ys : List CM) (Ψ : List Val → K) (tws : List (Tr R × K)) : K :=
  prodK (tws.map (·.2)) *
    (if (tws.map (·.1)).map Tr.choices = ys.map some then Ψ ((tws.map (·.1)).map Tr.retval) else 0)

/-- the same for the weighted steps of a Scan -/
def tstSteps (ys : List CM) (Ψ : List Val → Val → K) (r : List (Tr R × K) × Val) : K :=
  prodK (r.1.map (·.2)) *
    (if (r.1.map (·.1)).map Tr.choices = ys.map some
      then Ψ ((r.1.map (·.1)).map fun t => t.retval.snd) r.2 else 0)

/-- lanes: proper weighting lane by lane gives proper weighting of the list -/
theorem lanes_genlaw (G : Nat → α → FinDist K (Option (Tr R × K))) (ag : α → CM → K)
    (h : Nat → CM → Option (K × Val)) :
    ∀ (as : List α) (ys : List CM), as.length = ys.length →
      (∀ i, ∀ a ∈ as, ∀ y ∈ ys, ∀ ψ : Val → K,
        E (G i a) (optK fun tw => tw.2 * choicesAre y ψ tw.1) = ag a y * massOf (h i y) ψ) →
      ∀ (i : Nat) (Ψ : List Val → K),
        E (forLanesD G i as) (optK (tstLanes ys Ψ))
          = agZip ag as ys * massOfL (forLanes h i ys) Ψ := by
  intro as
  induction as with
  | nil =>
    intro ys hlen _ i Ψ
    cases ys with
    | cons y ys => simp at hlen
    | nil =>
      simp only [forLanesD, E_pureO, optK_some, tstLanes, List.map_nil, if_true, forLanes,
        massOfL, prodK, agZip, one_mul]
  | cons a as ih =>
    intro ys hlen hG i Ψ
    cases ys with
    | nil => simp at hlen
    | cons y ys =>
      have ih' := ih ys (by simpa using hlen) (fun i a' ha' y' hy' =>
        hG i a' (List.mem_cons_of_mem _ ha') y' (List.mem_cons_of_mem _ hy'))
      simp only [forLanesD]
      rw [E_bindO]
      have key : (fun tw : Tr R × K => E (bindO (forLanesD G (i + 1) as) fun bs => pureO (tw :: bs))
            (optK (tstLanes (y :: ys) Ψ)))
          = fun tw => tw.2 * choicesAre y (fun r => agZip ag as ys *
              massOfL (forLanes h (i + 1) ys) (fun rs => Ψ (r :: rs))) tw.1 := by
        funext tw
        rw [E_bindO]
        simp only [E_pureO, optK_some, tstLanes, List.map_cons, List.cons.injEq, prodK, choicesAre]
        by_cases ht : tw.1.choices = some y
        · simp only [ht, true_and, if_true, mul_assoc]
          rw [E_optK_mul_left]
          congr 1
          exact ih' (i + 1) (fun rs => Ψ (tw.1.retval :: rs))
        · simp only [ht, false_and, if_false, mul_zero]
          exact E_optK_zero _
      rw [key, hG i a List.mem_cons_self y List.mem_cons_self]
      simp only [forLanes, Option.bind_eq_bind, Option.pure_def, agZip]
      cases h i y with
      | none => simp [massOf, massOfL]
      | some b =>
        cases forLanes h (i + 1) ys with
        | none => simp [massOf, massOfL]
        | some bs =>
          simp only [massOf, massOfL, Option.bind_some, List.map_cons, prodK]
          ring

/-- steps: the same with the carry threaded through the return values -/
theorem steps_genlaw (G : Val → Nat → α → FinDist K (Option (Tr R × K))) (ag : α → CM → K)
    (H : Val → Nat → CM → Option (K × Val)) :
    ∀ (as : List α) (ys : List CM), as.length = ys.length →
      (∀ c i, ∀ a ∈ as, ∀ y ∈ ys, ∀ ψ : Val → K,
        E (G c i a) (optK fun tw => tw.2 * choicesAre y ψ tw.1) = ag a y * massOf (H c i y) ψ) →
      ∀ (c : Val) (i : Nat) (Ψ : List Val → Val → K),
        E (forStepsD (fun c i a => bindO (G c i a) fun tw => pureO (tw, tw.1.retval.fst)) c i as)
            (optK (tstSteps ys Ψ))
          = agZip ag as ys * massOfS (forSteps
              (fun c i x => (H c i x).bind fun pr => some ((pr.1, pr.2.snd), pr.2.fst)) c i ys) Ψ := by
  intro as
  induction as with
  | nil =>
    intro ys hlen _ c i Ψ
    cases ys with
    | cons y ys => simp at hlen
    | nil =>
      simp only [forStepsD, E_pureO, optK_some, tstSteps, List.map_nil, if_true, forSteps,
        massOfS, prodK, agZip, one_mul]
  | cons a as ih =>
    intro ys hlen hG c i Ψ
    cases ys with
    | nil => simp at hlen
    | cons y ys =>
      have ih' := ih ys (by simpa using hlen) (fun c i a' ha' y' hy' =>
        hG c i a' (List.mem_cons_of_mem _ ha') y' (List.mem_cons_of_mem _ hy'))
      simp only [forStepsD]
      rw [E_bindO, E_bindO]
      have key : (fun tw : Tr R × K => E (pureO (tw, tw.1.retval.fst))
            (optK fun p : (Tr R × K) × Val => E (bindO (forStepsD
                (fun c i a => bindO (G c i a) fun tw => pureO (tw, tw.1.retval.fst)) p.2 (i + 1) as)
                fun q => pureO (p.1 :: q.1, q.2))
              (optK (tstSteps (y :: ys) Ψ))))
          = fun tw => tw.2 * choicesAre y (fun r => agZip ag as ys * massOfS (forSteps
              (fun c i x => (H c i x).bind fun pr => some ((pr.1, pr.2.snd), pr.2.fst))
              r.fst (i + 1) ys) (fun rs c' => Ψ (r.snd :: rs) c')) tw.1 := by
        funext tw
        rw [E_pureO, optK_some, E_bindO]
        simp only [E_pureO, optK_some, tstSteps, List.map_cons, List.cons.injEq, prodK, choicesAre]
        by_cases ht : tw.1.choices = some y
        · simp only [ht, true_and, if_true, mul_assoc]
          rw [E_optK_mul_left]
          congr 1
          exact ih' tw.1.retval.fst (i + 1) (fun rs c' => Ψ (tw.1.retval.snd :: rs) c')
        · simp only [ht, false_and, if_false, mul_zero]
          exact E_optK_zero _
      rw [key, hG c i a List.mem_cons_self y List.mem_cons_self]
      simp only [forSteps, Option.bind_eq_bind, Option.pure_def, agZip]
      cases H c i y with
      | none => simp [massOf, massOfS]
      | some b =>
        simp only [Option.bind_some, massOf]
        cases forSteps (fun c i x => (H c i x).bind fun pr => some ((pr.1, pr.2.snd), pr.2.fst))
            b.2.fst (i + 1) ys with
        | none => simp [massOfS]
        | some bs =>
          simp only [massOfS, Option.bind_some, List.map_cons, prodK]
          ring

/-- agreement of a dict with a constraint dict, one address at a time -/
theorem CML.agreeAllWith_cons (k : String) (c : CM) (rest xs : CML) :
    (CML.cons k c rest).agreeAllWith xs = (agOb (xs.find? k) c && rest.agreeAllWith xs) := by
  simp only [CML.agreeAllWith, agOb]
  cases xs.find? k <;> rfl

/-- `agO` of a looked-up sub-constraint times the agreement of the remaining addresses -/
theorem agO_mul_ite (o : Option CM) (c : CM) (b : Bool) :
    agO (K := K) o c * (if b then (1 : K) else 0) = if (agOb o c && b) then 1 else 0 := by
  rw [agO_eq_agOb]
  exact ite_mul_ite_fd (K := K) _ _

end Aux

section BodyAux
variable {K : Type} [Field K] {R : Type} [Zero R] [Add R] [Neg R]
variable (pd : PD K) (P : Prims R) (cfg : Cfg)

/-- body-level test function of `generate`: accumulated weight times "the accumulated sub-traces
    spell out the dict `X`" times a function of the return value -/
def tstG (X : CML) (Ψ : Val → K) (r : TrL R × Val × R × K) : K :=
  r.2.2.2 * (if r.1.choices = some X then Ψ r.2.1 else 0)

/-- if the sub-traces built so far already disagree with `X`, the final ones do -/
theorem gen_body_strip_none : (body : Body) → ∀ (xs : CML) (env : List Val) (subs : TrL R) (s : R)
    (w : K) (X : CML) (Ψ : Val → K), subs.strip X = none →
    E (body.generateD pd P cfg xs env subs s w) (optK (tstG X Ψ)) = 0
  | .ret e, xs, env, subs, s, w, X, Ψ, h => by
      simp only [Body.generateD, E_pureO, optK_some, tstG]
      rw [if_neg, mul_zero]
      intro hc
      rw [(TrL.choices_iff_strip _ _).mp hc] at h
      cases h
  | .call addr g es rest, xs, env, subs, s, w, X, Ψ, h => by
      simp only [Body.generateD]
      split
      · exact E_failO _
      · rw [E_bindO]
        apply E_eq_zero_fd
        intro o
        cases o with
        | none => rfl
        | some t =>
          exact gen_body_strip_none rest _ _ _ _ _ _ _ (by rw [TrL.strip_snoc, h]; rfl)

end BodyAux

section Main
variable {K : Type} [Field K] {R : Type} [AddCommGroup R]
variable (pd : PD K) (P : Prims R) (cfg : Cfg)

mutual
  theorem genlaw_gf (hpd : pd.WF) (hnorm : pd.Normalised) : (g : GF) → g.condOK = true →
      g.vmapOK cfg = true → ∀ (ox : Option CM) (args : List Val) (y : CM) (ψ : Val → K),
      g.skel = some y.skel →
      E (g.generateD pd P cfg ox args) (optK fun tw => tw.2 * choicesAre y ψ tw.1)
        = agO ox y * massOf (g.assessP pd y args) ψ
    | .dist d, hc, _, none, args, y, ψ, hs => by
        have h1 : E ((GF.dist d).generateD pd P cfg none args)
              (optK fun tw => tw.2 * choicesAre y ψ tw.1)
            = E ((GF.dist d).simD pd P args) (optK (choicesAre y ψ)) := by
          simp only [GF.generateD, GF.simD, E, List.map_map]
          congr 1
          apply List.map_congr_left
          intro v _
          simp only [Function.comp, optK_some, one_mul]
        rw [h1, simD_law pd P hpd hnorm _ hc args y ψ hs]
        simp only [agO, one_mul]
    | .dist d, _, _, some x, args, y, ψ, hs => by
        simp only [GF.skel, Option.some.injEq] at hs
        obtain ⟨v0, rfl⟩ := CM.skel_leaf hs
        cases x with
        | leaf v =>
          simp only [GF.generateD, E_pureO, optK_some, choicesAre, Tr.choices, Tr.retval,
            Option.some.injEq, CM.leaf.injEq, GF.assessP, massOf, agO, CM.agreeWith]
          by_cases h : v = v0
          · subst h; simp
          · simp [h]
        | node xs =>
          simp only [GF.generateD, E_failO, optK_none, agO, CM.agreeWith]
          simp
        | lanes xs =>
          simp only [GF.generateD, E_failO, optK_none, agO, CM.agreeWith]
          simp
    | .fn body, hc, _, none, args, y, ψ, hs => by
        have h1 : E ((GF.fn body).generateD pd P cfg none args)
              (optK fun tw => tw.2 * choicesAre y ψ tw.1)
            = E ((GF.fn body).simD pd P args) (optK (choicesAre y ψ)) := by
          simp only [GF.generateD, GF.simD]
          rw [E_bindO, E_bindO]
          simp only [E_pureO, optK_some, one_mul]
        rw [h1, simD_law pd P hpd hnorm _ hc args y ψ hs]
        simp only [agO, one_mul]
    | .fn body, hc, hv, some x, args, y, ψ, hs => by
        simp only [GF.condOK] at hc
        simp only [GF.vmapOK] at hv
        simp only [GF.skel, Option.map_eq_some_iff] at hs
        obtain ⟨s, hbs, hs⟩ := hs
        obtain ⟨X, rfl, rfl⟩ := CM.skel_node hs
        cases x with
        | node xs =>
          simp only [GF.generateD, GF.assessP]
          rw [E_bindO]
          have hfun : (fun r : TrL R × Val × R × K => E (pureO (Tr.fn r.1 r.2.1 r.2.2.1, r.2.2.2))
              (optK fun tw => tw.2 * choicesAre (.node X) ψ tw.1)) = tstG X ψ := by
            funext r
            simp only [E_pureO, optK_some, choicesAre, tstG, Tr.choices, Tr.retval,
              Option.map_eq_some_iff, CM.node.injEq, exists_eq_right]
          rw [hfun]
          have := genlaw_body hpd hnorm body hc hv xs args .nil 0 1 X X [] ψ
            ⟨rfl, fun a => by simp [TrL.find?], fun a _ => rfl⟩ hbs
          rw [this, one_mul]
          simp only [agO, CM.agreeWith]
          rfl
        | leaf v =>
          simp only [GF.generateD, E_failO, optK_none, agO, CM.agreeWith]
          simp
        | lanes xs =>
          simp only [GF.generateD, E_failO, optK_none, agO, CM.agreeWith]
          simp
    | .vmap g axes n, hc, hv, ox, args, y, ψ, hs => by
        simp only [GF.condOK] at hc
        simp only [GF.vmapOK, Bool.and_eq_true] at hv
        simp only [GF.skel, Option.map_eq_some_iff] at hs
        obtain ⟨s, hls, hs⟩ := hs
        obtain ⟨l, rfl, rfl⟩ := CM.skel_lanes hs
        obtain ⟨hl1, hl2, hl3⟩ := skelLanes_eq hls
        have hfun : (fun ts : List (Tr R × K) =>
              E (pureO (Tr.vec (TrL.ofList (ts.map (·.1))), prodK (ts.map (·.2))))
                (optK fun tw => tw.2 * choicesAre (.lanes l) ψ tw.1))
            = tstLanes l.toList (fun rs => ψ (Val.ofList rs)) := by
          funext ts
          simp only [E_pureO, optK_some, choicesAre, tstLanes, Tr.choices, Tr.retval,
            Option.map_eq_some_iff, CM.lanes.injEq, exists_eq_right, TrL.choices_ofList_iff,
            TrL.retvals_ofList]
          by_cases h : (ts.map (·.1)).map Tr.choices = l.toList.map some
          · rw [if_pos ⟨hl1, h⟩, if_pos h]
          · rw [if_neg (fun hh => h hh.2), if_neg h]
        have hfin : ∀ C : K, C * massOfL (forLanes (fun i xi => g.assessP pd xi (laneArgs axes args i))
              0 l.toList) (fun rs => ψ (Val.ofList rs))
            = C * massOf ((GF.vmap g axes n).assessP pd (.lanes l) args) ψ := by
          intro C
          simp only [GF.assessP, lenIs, hl2, if_true, Option.bind_eq_bind, Option.bind_some,
            Option.pure_def]
          cases forLanes (fun i xi => g.assessP pd xi (laneArgs axes args i)) 0 l.toList <;> rfl
        cases ox with
        | none =>
          simp only [GF.generateD, hv.1, if_true]
          rw [E_bindO, hfun]
          refine (lanes_genlaw (fun i (_ : Unit) => g.generateD pd P cfg none (laneArgs axes args i))
            (fun _ _ => (1 : K)) (fun i xi => g.assessP pd xi (laneArgs axes args i))
            (List.replicate n ()) l.toList (by simp [hl2])
            (fun i a _ y hy ψ' => by
              rw [genlaw_gf hpd hnorm g hc hv.2 none _ y ψ' (hl3 y hy)]
              simp only [agO]) 0 (fun rs => ψ (Val.ofList rs))).trans ?_
          rw [agZip_one _ (fun _ _ => rfl) _ _ (by simp [hl2]), hfin]
          simp only [agO]
        | some x =>
          cases x with
          | lanes xs =>
            simp only [GF.generateD]
            split
            · rename_i hlen
              rw [E_bindO, hfun]
              refine (lanes_genlaw
                (fun i xi => g.generateD pd P cfg (some xi) (laneArgs axes args i))
                (fun x y => agO (some x) y) (fun i xi => g.assessP pd xi (laneArgs axes args i))
                xs.toList l.toList (hlen.trans hl2.symm)
                (fun i a _ y hy ψ' => genlaw_gf hpd hnorm g hc hv.2 (some a) _ y ψ' (hl3 y hy)) 0
                (fun rs => ψ (Val.ofList rs))).trans ?_
              rw [agZip_agO, hfin]
              simp only [agO, CM.agreeWith]
              rfl
            · rename_i hlen
              rw [E_failO, optK_none]
              have hno : l.agreePosWith xs = false := by
                cases hag : l.agreePosWith xs with
                | false => rfl
                | true => exact absurd ((CML.agreePosWith_length l xs hag).trans hl2) hlen
              simp only [agO, CM.agreeWith, hno]
              simp
          | leaf v =>
            simp only [GF.generateD, E_failO, optK_none, agO, CM.agreeWith]
            simp
          | node xs =>
            simp only [GF.generateD, E_failO, optK_none, agO, CM.agreeWith]
            simp
    | .scan g n, hc, hv, ox, args, y, ψ, hs => by
        simp only [GF.condOK] at hc
        simp only [GF.vmapOK] at hv
        simp only [GF.skel, Option.map_eq_some_iff] at hs
        obtain ⟨s, hls, hs⟩ := hs
        obtain ⟨l, rfl, rfl⟩ := CM.skel_lanes hs
        obtain ⟨hl1, hl2, hl3⟩ := skelLanes_eq hls
        have hfun : (fun r : List (Tr R × K) × Val =>
              E (pureO (Tr.scan (TrL.ofList (r.1.map (·.1))) r.2, prodK (r.1.map (·.2))))
                (optK fun tw => tw.2 * choicesAre (.lanes l) ψ tw.1))
            = tstSteps l.toList (fun rs c' => ψ (Val.pair c' (Val.ofList rs))) := by
          funext r
          simp only [E_pureO, optK_some, choicesAre, tstSteps, Tr.choices, Tr.retval,
            Option.map_eq_some_iff, CM.lanes.injEq, exists_eq_right, TrL.choices_ofList_iff,
            TrL.outs_ofList]
          by_cases h : (r.1.map (·.1)).map Tr.choices = l.toList.map some
          · rw [if_pos ⟨hl1, h⟩, if_pos h]
          · rw [if_neg (fun hh => h hh.2), if_neg h]
        have hfin : ∀ C : K, C * massOfS (forSteps
              (fun c i xi => (g.assessP pd xi [c, (args.getD 1 .nil).nth i]).bind
                fun pr => some ((pr.1, pr.2.snd), pr.2.fst)) (args.getD 0 .nil) 0 l.toList)
              (fun rs c' => ψ (Val.pair c' (Val.ofList rs)))
            = C * massOf ((GF.scan g n).assessP pd (.lanes l) args) ψ := by
          intro C
          simp only [GF.assessP, lenIs, hl2, if_true, Option.bind_eq_bind, Option.bind_some,
            Option.pure_def]
          cases forSteps (fun c i xi => (g.assessP pd xi [c, (args.getD 1 .nil).nth i]).bind
              fun pr => some ((pr.1, pr.2.snd), pr.2.fst)) (args.getD 0 .nil) 0 l.toList <;> rfl
        cases ox with
        | none =>
          simp only [GF.generateD]
          rw [E_bindO, hfun]
          refine (steps_genlaw
            (fun c i (_ : Unit) => g.generateD pd P cfg none [c, (args.getD 1 .nil).nth i])
            (fun _ _ => (1 : K)) (fun c i xi => g.assessP pd xi [c, (args.getD 1 .nil).nth i])
            (List.replicate n ()) l.toList (by simp [hl2])
            (fun c i a _ y hy ψ' => by
              rw [genlaw_gf hpd hnorm g hc hv none _ y ψ' (hl3 y hy)]
              simp only [agO]) (args.getD 0 .nil) 0
            (fun rs c' => ψ (Val.pair c' (Val.ofList rs)))).trans ?_
          rw [agZip_one _ (fun _ _ => rfl) _ _ (by simp [hl2]), hfin]
          simp only [agO]
        | some x =>
          cases x with
          | lanes xs =>
            simp only [GF.generateD]
            split
            · rename_i hlen
              rw [E_bindO, hfun]
              refine (steps_genlaw
                (fun c i xi => g.generateD pd P cfg (some xi) [c, (args.getD 1 .nil).nth i])
                (fun x y => agO (some x) y)
                (fun c i xi => g.assessP pd xi [c, (args.getD 1 .nil).nth i])
                xs.toList l.toList (hlen.trans hl2.symm)
                (fun c i a _ y hy ψ' => genlaw_gf hpd hnorm g hc hv (some a) _ y ψ' (hl3 y hy))
                (args.getD 0 .nil) 0 (fun rs c' => ψ (Val.pair c' (Val.ofList rs)))).trans ?_
              rw [agZip_agO, hfin]
              simp only [agO, CM.agreeWith]
              rfl
            · rename_i hlen
              rw [E_failO, optK_none]
              have hno : l.agreePosWith xs = false := by
                cases hag : l.agreePosWith xs with
                | false => rfl
                | true => exact absurd ((CML.agreePosWith_length l xs hag).trans hl2) hlen
              simp only [agO, CM.agreeWith, hno]
              simp
          | leaf v =>
            simp only [GF.generateD, E_failO, optK_none, agO, CM.agreeWith]
            simp
          | node xs =>
            simp only [GF.generateD, E_failO, optK_none, agO, CM.agreeWith]
            simp
    | .cond t f, hc, _, none, args, y, ψ, hs => by
        have h1 : E ((GF.cond t f).generateD pd P cfg none args)
              (optK fun tw => tw.2 * choicesAre y ψ tw.1)
            = E ((GF.cond t f).simD pd P args) (optK (choicesAre y ψ)) := by
          simp only [GF.generateD, GF.simD]
          rw [E_bindO, E_bindO]
          apply E_optK_congr
          intro a _
          rw [E_bindO, E_bindO]
          simp only [E_pureO, optK_some, one_mul]
        rw [h1, simD_law pd P hpd hnorm _ hc args y ψ hs]
        simp only [agO, one_mul]
    | .cond t f, hc, hv, some x, args, y, ψ, hs => by
        simp only [GF.condOK, Bool.and_eq_true, decide_eq_true_eq] at hc
        obtain ⟨⟨⟨⟨hct, hcf⟩, hsk⟩, hnt⟩, hnf⟩ := hc
        simp only [GF.vmapOK, Bool.and_eq_true] at hv
        obtain ⟨hts, hfs⟩ := cond_skel_branches hsk hs
        obtain ⟨p, hp⟩ := Option.isSome_iff_exists.mp
          (assessP_defined pd t hnt hct y (args.drop 1) hts)
        obtain ⟨q, hq⟩ := Option.isSome_iff_exists.mp
          (assessP_defined pd f hnf hcf y (args.drop 1) hfs)
        have hLt := genlaw_gf hpd hnorm t hct hv.1 (some x) (args.drop 1) y ψ hts
        have hLf := genlaw_gf hpd hnorm f hcf hv.2 (some x) (args.drop 1) y ψ hfs
        rw [hp] at hLt
        rw [hq] at hLf
        have hNt : agOb (some x) y = true →
            E (t.generateD pd P cfg (some x) (args.drop 1)) (optK fun _ => (1 : K)) = 1 :=
          fun ha => generateD_mass_some pd P cfg hnorm t hnt hct hv.1 (some x) y _ hts ha
        have hNf : agOb (some x) y = true →
            E (f.generateD pd P cfg (some x) (args.drop 1)) (optK fun _ => (1 : K)) = 1 :=
          fun ha => generateD_mass_some pd P cfg hnorm f hnf hcf hv.2 (some x) y _ hfs ha
        simp only [GF.generateD, GF.assessP, hp, hq, Option.bind_eq_bind, Option.bind_some,
          Option.pure_def]
        generalize (args.getD 0 .nil).truthy = c
        rw [E_bindO]
        cases c with
        | true =>
          simp only [if_true]
          have hin : ∀ aw, some aw ∈ supp (t.generateD pd P cfg (some x) (args.drop 1)) →
              E (bindO (f.generateD pd P cfg (some x) (args.drop 1)) fun bw =>
                  pureO (Tr.cond true aw.1 bw.1, aw.2))
                (optK fun tw => tw.2 * choicesAre y ψ tw.1)
              = E (f.generateD pd P cfg (some x) (args.drop 1)) (optK fun _ => (1 : K))
                  * (aw.2 * choicesAre y ψ aw.1) := by
            intro aw haw
            have hsa := generateD_choices_skel pd P cfg t _ _ aw haw
            rw [hts] at hsa
            obtain ⟨xa, hxa, hxas⟩ := choices_of_skel_eq hsa
            rw [E_bindO, mul_comm, ← E_optK_mul_left]
            apply E_optK_congr
            intro bw hbw
            have hsb := generateD_choices_skel pd P cfg f _ _ bw hbw
            rw [hfs] at hsb
            obtain ⟨xb, hxb, hxbs⟩ := choices_of_skel_eq hsb
            simp only [E_pureO, optK_some, choicesAre, Tr.choices, Tr.retval, hxa, hxb,
              Option.bind_eq_bind, Option.bind_some, if_true, mul_one]
            rw [CM.mergeCheck_same true xa xb (hxas.trans hxbs.symm)]
            rfl
          rw [E_optK_congr _ _ _ hin, E_optK_mul_left, hLt, agO_eq_agOb]
          cases hag : agOb (some x) y with
          | false => simp
          | true => rw [hNf hag]; simp [massOf]
        | false =>
          simp only [Bool.false_eq_true, if_false]
          have hin : ∀ aw, some aw ∈ supp (t.generateD pd P cfg (some x) (args.drop 1)) →
              E (bindO (f.generateD pd P cfg (some x) (args.drop 1)) fun bw =>
                  pureO (Tr.cond false aw.1 bw.1, bw.2))
                (optK fun tw => tw.2 * choicesAre y ψ tw.1)
              = (agO (some x) y * massOf (some q) ψ) * 1 := by
            intro aw haw
            have hsa := generateD_choices_skel pd P cfg t _ _ aw haw
            rw [hts] at hsa
            obtain ⟨xa, hxa, hxas⟩ := choices_of_skel_eq hsa
            rw [E_bindO, mul_one, ← hLf]
            apply E_optK_congr
            intro bw hbw
            have hsb := generateD_choices_skel pd P cfg f _ _ bw hbw
            rw [hfs] at hsb
            obtain ⟨xb, hxb, hxbs⟩ := choices_of_skel_eq hsb
            simp only [E_pureO, optK_some, choicesAre, Tr.choices, Tr.retval, hxa, hxb,
              Option.bind_eq_bind, Option.bind_some, Bool.false_eq_true, if_false]
            rw [CM.mergeCheck_same false xa xb (hxas.trans hxbs.symm)]
            rfl
          rw [E_optK_congr _ _ _ hin, E_optK_mul_left, agO_eq_agOb]
          cases hag : agOb (some x) y with
          | false => simp
          | true => rw [hNt hag]; simp [massOf]
  theorem genlaw_body (hpd : pd.WF) (hnorm : pd.Normalised) : (body : Body) →
      body.condOK = true → body.vmapOK cfg = true → ∀ (xs : CML) (env : List Val) (subs : TrL R)
      (s : R) (w : K) (X rem : CML) (seen : List String) (Ψ : Val → K),
      BodyLawInv subs seen X rem → body.skel = some rem.skel →
      E (body.generateD pd P cfg xs env subs s w) (optK (tstG X Ψ))
        = w * (if rem.agreeAllWith xs then (1 : K) else 0) * massOf (body.assessP pd X env seen) Ψ
    | .ret e, _, _, xs, env, subs, s, w, X, rem, seen, Ψ, hinv, hs => by
        simp only [Body.skel, Option.some.injEq] at hs
        have := CML.skel_eq_nil hs.symm
        subst this
        simp only [Body.generateD, E_pureO, optK_some, tstG, Body.assessP, massOf, one_mul,
          CML.agreeAllWith, if_true, mul_one]
        rw [if_pos ((TrL.choices_iff_strip _ _).mpr hinv.strip)]
    | .call addr g es rest, hc, hv, xs, env, subs, s, w, X, rem, seen, Ψ, hinv, hs => by
        simp only [Body.condOK, Bool.and_eq_true] at hc
        simp only [Body.vmapOK, Bool.and_eq_true] at hv
        simp only [Body.skel, Option.bind_eq_bind, Option.pure_def, Option.bind_eq_some_iff,
          Option.some.injEq] at hs
        obtain ⟨gs, hgs, rs, hrs, hs⟩ := hs
        obtain ⟨c, rem', rfl, rfl, rfl⟩ := CML.skel_eq_cons hs.symm
        simp only [Body.generateD, Body.assessP]
        rw [hinv.seen_iff addr]
        cases hseen : seen.contains addr with
        | true =>
          simp only [if_true, E_failO, optK_none, massOf, mul_zero]
        | false =>
          simp only [Bool.false_eq_true, if_false]
          rw [hinv.find addr hseen]
          simp only [CML.find?, if_true]
          rw [E_bindO]
          have key : (fun tw : Tr R × K => E (rest.generateD pd P cfg xs (env ++ [tw.1.retval])
                (subs.snoc addr tw.1) (s + tw.1.score) (w * tw.2)) (optK (tstG X Ψ)))
              = fun tw => tw.2 * choicesAre c (fun r => w *
                  (if rem'.agreeAllWith xs then (1 : K) else 0) *
                  massOf (rest.assessP pd X (env ++ [r]) (addr :: seen)) Ψ) tw.1 := by
            funext tw
            simp only [choicesAre]
            by_cases ht : tw.1.choices = some c
            · rw [if_pos ht, genlaw_body hpd hnorm rest hc.2 hv.2 xs _ _ _ _ X rem' (addr :: seen) Ψ
                (hinv.step ht) hrs]
              ring
            · rw [if_neg ht, mul_zero]
              apply gen_body_strip_none
              rw [TrL.strip_snoc, hinv.strip]
              simp only [Option.bind_some, stepRem, true_and]
              rw [if_neg ht]
          rw [key, genlaw_gf hpd hnorm g hc.1 hv.1 (xs.find? addr) _ c _ hgs]
          rw [CML.agreeAllWith_cons, ← agO_mul_ite]
          cases g.assessP pd c (es.map (·.eval env)) with
          | none => simp [massOf]
          | some p =>
            simp only [massOf, Option.bind_eq_bind, Option.bind_some, Option.pure_def]
            cases rest.assessP pd X (env ++ [p.2]) (addr :: seen) with
            | none => simp
            | some q =>
              simp only [Option.bind_some]
              ring
end

end Main

end Genjax
