import GenjaxModel.Proofs.GfiDistMonad
import GenjaxModel.Proofs.GfiAssessCond
/-!
  Lemmas for THE LAW of `simulate` (`Proofs/GfiLaw.lean`): matching sub-traces against a prefix of
  a choice-map dict (`TrL.strip`), shape lemmas, hypotheses on the primitives, and the law of the
  lane / step loops in the distribution monad.
-/
namespace Genjax
open Smc Smc.FinDist

/-! ## matching a list of sub-traces against a prefix of a choice-map dict -/

section Strip
variable {R : Type}

/-- strip from the dict `X` the prefix that the choice maps of `l` spell out (same keys, same
    sub-maps, in order); `none` = mismatch -/
def TrL.strip : TrL R → CML → Option CML
  | .nil, X => some X
  | .cons k t rest, .cons k' c X => if k = k' ∧ t.choices = some c then rest.strip X else none
  | .cons _ _ _, .nil => none

/-- one more entry -/
def stepRem (k : String) (oc : Option CM) : CML → Option CML
  | .cons k' c r => if k = k' ∧ oc = some c then some r else none
  | .nil => none

theorem TrL.choices_iff_strip : (l : TrL R) → (X : CML) →
    (l.choices = some X ↔ l.strip X = some .nil)
  | .nil, X => by
      simp only [TrL.choices, TrL.strip, Option.some.injEq]
      exact eq_comm
  | .cons k t rest, .nil => by
      simp only [TrL.choices, TrL.strip, Option.bind_eq_bind, Option.pure_def, reduceCtorEq,
        iff_false]
      cases t.choices <;> cases rest.choices <;> simp
  | .cons k t rest, .cons k' c X => by
      have ih := TrL.choices_iff_strip rest X
      simp only [TrL.choices, TrL.strip, Option.bind_eq_bind, Option.pure_def]
      cases ht : t.choices with
      | none => simp
      | some c' =>
        cases hr : rest.choices with
        | none =>
          simp only [Option.bind_some, Option.bind_none, reduceCtorEq, Option.some.injEq,
            false_iff]
          intro h
          split at h
          · rw [← ih, hr] at h; cases h
          · cases h
        | some X' =>
          simp only [Option.bind_some, Option.some.injEq, CML.cons.injEq]
          rw [hr] at ih
          constructor
          · rintro ⟨rfl, rfl, rfl⟩
            simp only [and_self, if_true]
            exact ih.mp rfl
          · intro h
            split at h
            · rename_i hk
              obtain ⟨rfl, rfl⟩ := hk
              have := ih.mpr h
              simp only [Option.some.injEq] at this
              exact ⟨rfl, rfl, this⟩
            · cases h

theorem TrL.strip_snoc : (l : TrL R) → (k : String) → (t : Tr R) → (X : CML) →
    (l.snoc k t).strip X = (l.strip X).bind (stepRem k t.choices)
  | .nil, k, t, X => by
      cases X <;> simp [TrL.snoc, TrL.strip, stepRem]
  | .cons k0 t0 rest, k, t, X => by
      cases X with
      | nil => simp [TrL.snoc, TrL.strip]
      | cons k' c X' =>
        simp only [TrL.snoc, TrL.strip]
        split
        · exact TrL.strip_snoc rest k t X'
        · rfl

theorem TrL.find?_snoc_isSome (subs : TrL R) (k : String) (t : Tr R) (a : String) :
    ((subs.snoc k t).find? a).isSome = ((subs.find? a).isSome || decide (a = k)) := by
  rw [TrL.find?_snoc]
  cases subs.find? a with
  | some v => simp
  | none => by_cases h : a = k <;> simp [h]

theorem CML.skel_eq_nil {l : CML} (h : l.skel = .nil) : l = .nil := by
  cases l with
  | nil => rfl
  | cons k v r => simp [CML.skel] at h

theorem CML.skel_eq_cons {l : CML} {k : String} {v : CM} {r : CML} (h : l.skel = .cons k v r) :
    ∃ c l', l = .cons k c l' ∧ c.skel = v ∧ l'.skel = r := by
  cases l with
  | nil => simp [CML.skel] at h
  | cons k' c l' =>
    simp only [CML.skel, CML.cons.injEq] at h
    obtain ⟨rfl, rfl, rfl⟩ := h
    exact ⟨c, l', rfl, rfl, rfl⟩

theorem TrL.retvals_ofList (ts : List (Tr R)) :
    (TrL.ofList ts).retvals = Val.ofList (ts.map Tr.retval) := by
  induction ts with
  | nil => rfl
  | cons t ts ih => simp [TrL.ofList, TrL.retvals, Val.ofList, ih]

theorem TrL.outs_ofList (ts : List (Tr R)) :
    (TrL.ofList ts).outs = Val.ofList (ts.map fun t => t.retval.snd) := by
  induction ts with
  | nil => rfl
  | cons t ts ih => simp [TrL.ofList, TrL.outs, Val.ofList, ih]

/-- the choice map of a list of lanes is the list of the lanes' choice maps, keys `""` -/
theorem TrL.choices_ofList_iff (ts : List (Tr R)) (l : CML) :
    (TrL.ofList ts).choices = some l ↔
      (l = CML.ofList l.toList ∧ ts.map Tr.choices = l.toList.map some) := by
  induction ts generalizing l with
  | nil =>
    simp only [TrL.ofList, TrL.choices, Option.some.injEq, List.map_nil]
    cases l with
    | nil => simp [CML.toList, CML.ofList]
    | cons k v r => simp [CML.toList]
  | cons t ts ih =>
    simp only [TrL.ofList, TrL.choices, Option.bind_eq_bind, Option.pure_def, List.map_cons]
    cases l with
    | nil =>
      cases t.choices <;> cases (TrL.ofList ts).choices <;> simp [CML.toList]
    | cons k v r =>
      cases ht : t.choices with
      | none => simp [CML.toList]
      | some c =>
        cases hr : (TrL.ofList ts).choices with
        | none =>
          simp only [Option.bind_some, Option.bind_none, reduceCtorEq, CML.toList, CML.ofList,
            CML.cons.injEq, List.map_cons, List.cons.injEq, Option.some.injEq, false_iff, not_and]
          intro h1 _ h3
          have := (ih r).mpr ⟨h1.2.2, h3⟩
          rw [hr] at this; cases this
        | some l' =>
          simp only [Option.bind_some, Option.some.injEq, CML.cons.injEq, CML.toList, CML.ofList,
            List.map_cons, List.cons.injEq]
          rw [hr] at ih
          constructor
          · rintro ⟨rfl, rfl, rfl⟩
            have := (ih l').mp rfl
            exact ⟨⟨rfl, trivial, this.1⟩, rfl, this.2⟩
          · rintro ⟨⟨rfl, -, h1⟩, rfl, h3⟩
            have := (ih r).mpr ⟨h1, h3⟩
            simp only [Option.some.injEq] at this
            exact ⟨rfl, rfl, this⟩

/-- shape hypothesis of a vectorised map, unpacked -/
theorem skelLanes_eq {n : Nat} {s : Option CM} {l : CML} (h : skelLanes n s = some l.skel) :
    l = CML.ofList l.toList ∧ l.toList.length = n ∧ ∀ x ∈ l.toList, s = some x.skel := by
  induction n generalizing l with
  | zero =>
    simp only [skelLanes, Option.some.injEq] at h
    have := CML.skel_eq_nil h.symm
    subst this
    simp [CML.toList, CML.ofList]
  | succ n ih =>
    simp only [skelLanes, Option.bind_eq_bind, Option.pure_def, Option.bind_eq_some_iff,
      Option.some.injEq] at h
    obtain ⟨x, hx, r, hr, h⟩ := h
    obtain ⟨c, l', rfl, hc, hl'⟩ := CML.skel_eq_cons h.symm
    subst hc hl'
    obtain ⟨h1, h2, h3⟩ := ih hr
    refine ⟨?_, ?_, ?_⟩
    · simp only [CML.toList, CML.ofList, CML.cons.injEq, true_and]; exact h1
    · simp [CML.toList, h2]
    · intro y hy
      simp only [CML.toList, List.mem_cons] at hy
      rcases hy with rfl | hy
      · exact hx
      · exact h3 y hy

end Strip

/-! ## hypotheses on the primitives -/

section PDHyp
variable {K : Type} [Field K]

/-- the support lists every value once and the mass vanishes outside it -/
structure PD.WF (pd : PD K) : Prop where
  nodup : ∀ d a, (pd.support d a).Nodup
  off : ∀ d a v, v ∉ pd.support d a → pd.pm d a v = 0

/-- every primitive has total mass 1 -/
def PD.Normalised (pd : PD K) : Prop :=
  ∀ d a, sumK ((pd.support d a).map (pd.pm d a)) = 1

theorem sumK_indicator_fd {α : Type} [DecidableEq α] (l : List α) (hl : l.Nodup) (v0 : α)
    (f g : α → K) :
    sumK (l.map fun v => f v * (if v = v0 then g v else 0)) = if v0 ∈ l then f v0 * g v0 else 0 := by
  induction l with
  | nil => simp [sumK]
  | cons a l ih =>
    have hl' := (List.nodup_cons.mp hl)
    simp only [List.map_cons, sumK, ih hl'.2, List.mem_cons]
    by_cases h : a = v0
    · subst h
      simp [hl'.1]
    · have h' : ¬ v0 = a := fun e => h e.symm
      simp [h, h']

end PDHyp

/-! ## the law -/

section Law
variable {K : Type} [Field K] {R : Type} [Zero R] [Add R] [Neg R]
variable (pd : PD K) (P : Prims R)

/-- body-level test function: the accumulated sub-traces spell out the dict `X` -/
def tstB (X : CML) (Ψ : Val → K) (r : TrL R × Val × R) : K :=
  if r.1.choices = some X then Ψ r.2.1 else 0

/-- if the sub-traces built so far already disagree with `X`, the final ones do -/
theorem body_strip_none : (body : Body) → ∀ (env : List Val) (subs : TrL R) (s : R) (X : CML)
    (Ψ : Val → K), subs.strip X = none →
    E (body.simD pd P env subs s) (optK (tstB X Ψ)) = 0
  | .ret e, env, subs, s, X, Ψ, h => by
      simp only [Body.simD, E_pureO, optK_some, tstB]
      rw [if_neg]
      intro hc
      rw [(TrL.choices_iff_strip _ _).mp hc] at h
      cases h
  | .call addr g es rest, env, subs, s, X, Ψ, h => by
      simp only [Body.simD]
      split
      · exact E_failO _
      · rw [E_bindO]
        apply E_eq_zero_fd
        intro o
        cases o with
        | none => rfl
        | some t =>
          exact body_strip_none rest _ _ _ _ _ (by rw [TrL.strip_snoc, h]; rfl)

/-- value reported by a list of lane assessments -/
def massOfL (o : Option (List (K × Val))) (Ψ : List Val → K) : K :=
  match o with
  | none => 0
  | some rs => prodK (rs.map (·.1)) * Ψ (rs.map (·.2))

/-- value reported by a run of step assessments -/
def massOfS (o : Option (List (K × Val) × Val)) (Ψ : List Val → Val → K) : K :=
  match o with
  | none => 0
  | some r => prodK (r.1.map (·.1)) * Ψ (r.1.map (·.2)) r.2

omit [Zero R] [Add R] [Neg R] in
/-- lanes: independent product, the law lane by lane gives the law of the list -/
theorem lanes_law (f : Nat → Unit → FinDist K (Option (Tr R))) (h : Nat → CM → Option (K × Val))
    (xs : List CM)
    (hf : ∀ i x, x ∈ xs → ∀ ψ, E (f i ()) (optK (choicesAre x ψ)) = massOf (h i x) ψ) :
    ∀ (i : Nat) (Ψ : List Val → K),
      E (forLanesD f i (List.replicate xs.length ()))
        (optK fun ts => if ts.map Tr.choices = xs.map some then Ψ (ts.map Tr.retval) else 0)
      = massOfL (forLanes h i xs) Ψ := by
  induction xs with
  | nil =>
    intro i Ψ
    simp only [List.length_nil, List.replicate_zero, forLanesD, E_pureO, optK_some, List.map_nil,
      if_true, forLanes, massOfL, prodK, one_mul]
  | cons x xs ih =>
    intro i Ψ
    have ih' := ih (fun i y hy => hf i y (List.mem_cons_of_mem _ hy))
    simp only [List.length_cons, List.replicate_succ, forLanesD]
    rw [E_bindO]
    have key : (fun t : Tr R => E (bindO (forLanesD f (i + 1) (List.replicate xs.length ()))
          fun bs => pureO (t :: bs))
          (optK fun ts => if ts.map Tr.choices = (x :: xs).map some then Ψ (ts.map Tr.retval) else 0))
        = choicesAre x (fun r => massOfL (forLanes h (i + 1) xs) (fun rs => Ψ (r :: rs))) := by
      funext t
      rw [E_bindO]
      simp only [E_pureO, optK_some, List.map_cons, List.cons.injEq, choicesAre]
      by_cases ht : t.choices = some x
      · simp only [ht, true_and, if_true]
        exact ih' (i + 1) (fun rs => Ψ (t.retval :: rs))
      · simp only [ht, false_and, if_false]
        exact E_optK_zero _
    rw [key, hf i x List.mem_cons_self]
    simp only [forLanes, Option.bind_eq_bind, Option.pure_def]
    cases h i x with
    | none => rfl
    | some b =>
      cases forLanes h (i + 1) xs with
      | none => simp [massOf, massOfL]
      | some bs => simp [massOf, massOfL, prodK, mul_assoc]

omit [Zero R] [Add R] [Neg R] in
/-- steps: the carry is threaded through the return values -/
theorem steps_law (F : Val → Nat → FinDist K (Option (Tr R)))
    (H : Val → Nat → CM → Option (K × Val)) (xs : List CM)
    (hF : ∀ c i x, x ∈ xs → ∀ ψ, E (F c i) (optK (choicesAre x ψ)) = massOf (H c i x) ψ) :
    ∀ (c : Val) (i : Nat) (Ψ : List Val → Val → K),
      E (forStepsD (fun c i (_ : Unit) => bindO (F c i) fun t => pureO (t, t.retval.fst)) c i
          (List.replicate xs.length ()))
        (optK fun r => if r.1.map Tr.choices = xs.map some
          then Ψ (r.1.map fun t => t.retval.snd) r.2 else 0)
      = massOfS (forSteps (fun c i x => (H c i x).bind fun pr => some ((pr.1, pr.2.snd), pr.2.fst))
          c i xs) Ψ := by
  induction xs with
  | nil =>
    intro c i Ψ
    simp only [List.length_nil, List.replicate_zero, forStepsD, E_pureO, optK_some, List.map_nil,
      if_true, forSteps, massOfS, prodK, one_mul]
  | cons x xs ih =>
    intro c i Ψ
    have ih' := ih (fun c i y hy => hF c i y (List.mem_cons_of_mem _ hy))
    simp only [List.length_cons, List.replicate_succ, forStepsD]
    rw [E_bindO, E_bindO]
    have key : (fun t : Tr R => E (pureO (t, t.retval.fst)) (optK fun p : Tr R × Val =>
          E (bindO (forStepsD (fun c i (_ : Unit) => bindO (F c i) fun t => pureO (t, t.retval.fst))
              p.2 (i + 1) (List.replicate xs.length ()))
            fun q => pureO (p.1 :: q.1, q.2))
          (optK fun r => if r.1.map Tr.choices = (x :: xs).map some
            then Ψ (r.1.map fun t => t.retval.snd) r.2 else 0)))
        = choicesAre x (fun r => massOfS (forSteps
            (fun c i x => (H c i x).bind fun pr => some ((pr.1, pr.2.snd), pr.2.fst))
            r.fst (i + 1) xs) (fun rs c' => Ψ (r.snd :: rs) c')) := by
      funext t
      rw [E_pureO, optK_some, E_bindO]
      simp only [E_pureO, optK_some, List.map_cons, List.cons.injEq, choicesAre]
      by_cases ht : t.choices = some x
      · simp only [ht, true_and, if_true]
        exact ih' t.retval.fst (i + 1) (fun rs c' => Ψ (t.retval.snd :: rs) c')
      · simp only [ht, false_and, if_false]
        exact E_optK_zero _
    rw [key, hF c i x List.mem_cons_self]
    simp only [forSteps, Option.bind_eq_bind, Option.pure_def]
    cases H c i x with
    | none => rfl
    | some b =>
      simp only [Option.bind_some, massOf]
      cases forSteps (fun c i x => (H c i x).bind fun pr => some ((pr.1, pr.2.snd), pr.2.fst))
          b.2.fst (i + 1) xs with
      | none => simp [massOfS]
      | some bs => simp [massOfS, prodK, mul_assoc]



end Law

end Genjax
