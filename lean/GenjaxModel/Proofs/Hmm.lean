import GenjaxModel.Model.Hmm
import Mathlib.Algebra.Field.Basic
import Mathlib.Algebra.Ring.Basic
import Mathlib.Tactic.Ring
import Mathlib.Tactic.FieldSimp
/-!
  C20 (discrete HMM): the forward recursion equals brute-force summation over all state
  sequences; backward sampling has exactly the posterior law.
-/
namespace Genjax.Hmm

section Semiring
variable {K : Type} [CommSemiring K]

/-! ### algebra of the model's `sum` -/

theorem sum_append (l m : List K) : sum (l ++ m) = sum l + sum m := by
  induction l with
  | nil => simp [sum]
  | cons a l ih => simp only [List.cons_append, sum, ih, add_assoc]

theorem sum_map_add {α : Type} (l : List α) (f g : α → K) :
    sum (l.map fun a => f a + g a) = sum (l.map f) + sum (l.map g) := by
  induction l with
  | nil => simp [sum]
  | cons a l ih => simp only [List.map_cons, sum, ih]; ring

theorem sum_map_mul_left {α : Type} (l : List α) (c : K) (f : α → K) :
    sum (l.map fun a => c * f a) = c * sum (l.map f) := by
  induction l with
  | nil => simp [sum]
  | cons a l ih => simp only [List.map_cons, sum, ih]; ring

theorem sum_map_mul_right {α : Type} (l : List α) (c : K) (f : α → K) :
    sum (l.map fun a => f a * c) = sum (l.map f) * c := by
  induction l with
  | nil => simp [sum]
  | cons a l ih => simp only [List.map_cons, sum, ih]; ring

theorem sum_map_zero {α : Type} (l : List α) : sum (l.map fun _ => (0 : K)) = 0 := by
  induction l with
  | nil => simp [sum]
  | cons a l ih => simp only [List.map_cons, sum, ih]; ring

theorem sum_map_congr {α : Type} (l : List α) (f g : α → K) (h : ∀ a ∈ l, f a = g a) :
    sum (l.map f) = sum (l.map g) := by
  rw [List.map_congr_left h]

theorem sum_comm {α β : Type} (l : List α) (m : List β) (f : α → β → K) :
    sum (l.map fun a => sum (m.map fun b => f a b)) =
      sum (m.map fun b => sum (l.map fun a => f a b)) := by
  induction l with
  | nil => simp only [List.map_nil, sum, sum_map_zero]
  | cons a l ih => simp only [List.map_cons, sum, ih, sum_map_add]

theorem sum_flatMap_map {α β : Type} (l : List α) (f : α → List β) (h : β → K) :
    sum ((l.flatMap f).map h) = sum (l.map fun a => sum ((f a).map h)) := by
  induction l with
  | nil => simp [sum]
  | cons a l ih => simp only [List.flatMap_cons, List.map_append, sum_append, List.map_cons, sum, ih]

theorem sum_filter_map {α : Type} (l : List α) (p : α → Bool) (f : α → K) :
    sum ((l.filter p).map f) = sum (l.map fun a => f a * (if p a then 1 else 0)) := by
  induction l with
  | nil => simp [sum]
  | cons a l ih =>
    by_cases h : p a
    · simp [h, sum, ih]
    · simp [h, sum, ih]

theorem sum_ind_of_ne (l : List Nat) (x : Nat) (f : Nat → K) (h : ∀ y ∈ l, y ≠ x) :
    sum (l.map fun y => f y * (if y = x then 1 else 0)) = 0 := by
  rw [sum_map_congr l _ (fun _ => 0), sum_map_zero]
  intro y hy
  simp [h y hy]

theorem sum_range_ind (k x : Nat) (f : Nat → K) (hx : x < k) :
    sum ((List.range k).map fun y => f y * (if y = x then 1 else 0)) = f x := by
  induction k with
  | zero => omega
  | succ k ih =>
    rw [List.range_succ, List.map_append, sum_append]
    by_cases h : x = k
    · subst h
      rw [sum_ind_of_ne]
      · simp [sum]
      · intro y hy; have := List.mem_range.1 hy; omega
    · rw [ih (by omega)]
      have : k ≠ x := fun e => h e.symm
      simp [sum, this]

theorem get_map_range (n i : Nat) (f : Nat → K) (h : i < n) :
    get ((List.range n).map f) i = f i := by
  simp [get, h]

theorem sum_map_get_range (l : List K) :
    sum ((List.range l.length).map fun i => get l i) = sum l := by
  induction l with
  | nil => simp [sum]
  | cons a l ih =>
    rw [List.length_cons, List.range_succ_eq_map, List.map_cons, List.map_map, sum, sum, ← ih]
    simp [get, Function.comp_def]

/-! ### forward recursion -/

theorem fwdStep_length (trans emis : List (List K)) (alpha : List K) (o : Nat) :
    (fwdStep trans emis alpha o).length = alpha.length := by
  simp [fwdStep]

theorem fwdInit_length (init : List K) (emis : List (List K)) (o : Nat) :
    (fwdInit init emis o).length = init.length := by
  simp [fwdInit]

theorem get_fwdStep (trans emis : List (List K)) (alpha : List K) (o y : Nat)
    (hy : y < alpha.length) :
    get (fwdStep trans emis alpha o) y =
      get2 emis y o *
        sum ((List.range alpha.length).map fun x => get alpha x * get2 trans x y) := by
  rw [fwdStep, get_map_range _ _ _ hy]

theorem get_fwdInit (init : List K) (emis : List (List K)) (o x : Nat) (hx : x < init.length) :
    get (fwdInit init emis o) x = get init x * get2 emis x o := by
  rw [fwdInit, get_map_range _ _ _ hx]

theorem forwardFrom_length (trans emis : List (List K)) (alpha : List K) (os : List Nat) :
    (forwardFrom trans emis alpha os).length = os.length := by
  induction os generalizing alpha with
  | nil => rfl
  | cons o os ih => simp only [forwardFrom, List.length_cons, ih]

theorem forwardFrom_shape (trans emis : List (List K)) (alpha : List K) (os : List Nat) :
    ∀ a ∈ forwardFrom trans emis alpha os, a.length = alpha.length := by
  induction os generalizing alpha with
  | nil => intro a ha; simp [forwardFrom] at ha
  | cons o os ih =>
    intro a ha
    simp only [forwardFrom, List.mem_cons] at ha
    rcases ha with rfl | ha
    · exact fwdStep_length ..
    · rw [ih _ a ha, fwdStep_length]

theorem forwardFrom_last_length (trans emis : List (List K)) (alpha : List K) (os : List Nat) :
    ((forwardFrom trans emis alpha os).getLastD alpha).length = alpha.length := by
  induction os generalizing alpha with
  | nil => rfl
  | cons o os ih => simp only [forwardFrom, List.getLastD_cons, ih, fwdStep_length]

/-- backward message: Σ over state sequences `ss` of the transition/emission weights after state
    `p`, times a weight `g` of the last state -/
def bwd (trans emis : List (List K)) (k : Nat) (g : Nat → K) (p : Nat) (os : List Nat) : K :=
  sum ((seqs k os.length).map fun ss => jointFrom trans emis p ss os * g (ss.getLastD p))

theorem bwd_nil (trans emis : List (List K)) (k : Nat) (g : Nat → K) (p : Nat) :
    bwd trans emis k g p [] = g p := by
  simp [bwd, seqs, sum, jointFrom]

theorem bwd_cons (trans emis : List (List K)) (k : Nat) (g : Nat → K) (p o : Nat) (os : List Nat) :
    bwd trans emis k g p (o :: os) =
      sum ((List.range k).map fun q =>
        get2 trans p q * get2 emis q o * bwd trans emis k g q os) := by
  simp only [bwd, List.length_cons, seqs, sum_flatMap_map, List.map_map, Function.comp_def,
    jointFrom, List.getLastD_cons, mul_assoc, sum_map_mul_left]

theorem forwardFrom_bwd (trans emis : List (List K)) (g : Nat → K) (os : List Nat) (alpha : List K) :
    sum ((List.range alpha.length).map fun x =>
        get ((forwardFrom trans emis alpha os).getLastD alpha) x * g x) =
      sum ((List.range alpha.length).map fun p =>
        get alpha p * bwd trans emis alpha.length g p os) := by
  induction os generalizing alpha with
  | nil => simp only [forwardFrom, List.getLastD_nil, bwd_nil]
  | cons o os ih =>
    simp only [forwardFrom, List.getLastD_cons]
    have hl := fwdStep_length trans emis alpha o
    have := ih (fwdStep trans emis alpha o)
    rw [hl] at this
    rw [this]
    simp only [bwd_cons]
    rw [sum_map_congr _ _ (fun q => sum ((List.range alpha.length).map fun p =>
        get alpha p * (get2 trans p q * get2 emis q o * bwd trans emis alpha.length g q os)))]
    · rw [sum_comm]
      simp only [sum_map_mul_left]
    · intro q hq
      have hq := List.mem_range.1 hq
      rw [get_fwdStep _ _ _ _ _ hq]
      simp only [← sum_map_mul_left, ← sum_map_mul_right]
      apply sum_map_congr
      intro p _
      ring

theorem forward_bwd (init : List K) (trans emis : List (List K)) (g : Nat → K) (o : Nat)
    (os : List Nat) :
    sum ((List.range init.length).map fun x =>
        get ((forward init trans emis (o :: os)).getLastD []) x * g x) =
      sum ((seqs init.length (os.length + 1)).map fun ss =>
        joint init trans emis ss (o :: os) * g (ss.getLastD 0)) := by
  simp only [forward, List.getLastD_cons]
  have hl := fwdInit_length init emis o
  have := forwardFrom_bwd trans emis g os (fwdInit init emis o)
  rw [hl] at this
  rw [this]
  simp only [seqs, sum_flatMap_map, List.map_map, Function.comp_def, joint, List.getLastD_cons]
  apply sum_map_congr
  intro p hp
  have hp := List.mem_range.1 hp
  rw [get_fwdInit _ _ _ _ hp, bwd, ← sum_map_mul_left]
  apply sum_map_congr
  intro ss _
  ring


/-- α_{T-1}(x) is the sum of the joint over all state sequences ending in x -/
theorem forward_last_eq_sum (init : List K) (trans emis : List (List K)) (o : Nat) (os : List Nat)
    (x : Nat) (hx : x < init.length) :
    get ((forward init trans emis (o :: os)).getLastD []) x =
      sum (((seqs init.length (os.length + 1)).filter fun ss => ss.getLast? == some x).map
            fun ss => joint init trans emis ss (o :: os)) := by
  rw [sum_filter_map, ← sum_range_ind init.length x
    (fun y => get ((forward init trans emis (o :: os)).getLastD []) y) hx, forward_bwd]
  apply sum_map_congr
  intro ss hss
  cases ss with
  | nil => simp [seqs] at hss
  | cons s ss => simp [List.getLast?_cons]

/-- forward_filter's marginal likelihood = brute-force sum over all K^T state sequences,
    for every number of states, symbols, every T ≥ 1, zeros in the matrices allowed -/
theorem marginal_eq_brute (init : List K) (trans emis : List (List K)) (o : Nat) (os : List Nat) :
    marginal init trans emis (o :: os) = brute init trans emis (o :: os) := by
  have h := forward_bwd init trans emis (fun _ => 1) o os
  simp only [mul_one] at h
  have hl : ((forward init trans emis (o :: os)).getLastD []).length = init.length := by
    simp only [forward, List.getLastD_cons]
    rw [forwardFrom_last_length, fwdInit_length]
  rw [marginal, brute, List.length_cons, ← h, ← hl]
  exact (sum_map_get_range _).symm

/-- all forward messages have one entry per state -/
theorem forward_shape (init : List K) (trans emis : List (List K)) (obs : List Nat) :
    (forward init trans emis obs).length = obs.length ∧
    ∀ a ∈ forward init trans emis obs, a.length = init.length := by
  cases obs with
  | nil => simp [forward]
  | cons o os =>
    refine ⟨by simp only [forward, List.length_cons, forwardFrom_length], ?_⟩
    intro a ha
    simp only [forward, List.mem_cons] at ha
    rcases ha with rfl | ha
    · exact fwdInit_length ..
    · rw [forwardFrom_shape _ _ _ _ a ha, fwdInit_length]

end Semiring

section Field
variable {K : Type} [Field K]

/-- the filtering distribution is normalised -/
theorem filterLast_normalised (init : List K) (trans emis : List (List K)) (obs : List Nat)
    (h : marginal init trans emis obs ≠ 0) :
    sum (filterLast init trans emis obs) = 1 := by
  rw [marginal] at h
  simp only [filterLast, div_eq_mul_inv]
  rw [sum_map_mul_right, List.map_id', mul_inv_cancel₀ h]

/-- generalised telescoping law of backward sampling, for an arbitrary starting message -/
theorem ffbs_from (trans emis : List (List K)) (os : List Nat) (alpha : List K) (s : Nat)
    (ss : List Nat) (hlen : ss.length = os.length) (hss : ∀ y ∈ ss, y < alpha.length)
    (hpos : ∀ (a : List K) (y : Nat), a ∈ alpha :: forwardFrom trans emis alpha os → y ∈ ss →
        sum ((List.range a.length).map fun x' => get a x' * get2 trans x' y) ≠ 0) :
    ffbsProb trans (alpha :: forwardFrom trans emis alpha os) (s :: ss) =
      get alpha s * jointFrom trans emis s ss os /
        sum ((forwardFrom trans emis alpha os).getLastD alpha) := by
  induction os generalizing alpha s ss with
  | nil =>
    cases ss with
    | nil => simp [forwardFrom, ffbsProb, jointFrom]
    | cons _ _ => simp at hlen
  | cons o os ih =>
    cases ss with
    | nil => simp at hlen
    | cons s' ss =>
      have hl := fwdStep_length trans emis alpha o
      have hs' : s' < alpha.length := hss s' (by simp)
      have hD := hpos alpha s' (by simp) (by simp)
      simp only [forwardFrom, List.getLastD_cons, ffbsProb]
      rw [ih (fwdStep trans emis alpha o) s' ss (by simpa using hlen)
        (fun y hy => by rw [hl]; exact hss y (by simp [hy]))
        (fun a y ha hy => hpos a y (by simp only [forwardFrom]; exact List.mem_cons_of_mem _ ha)
          (by simp [hy]))]
      rw [back, jointFrom]
      rw [get_fwdStep _ _ _ _ _ hs']
      simp only [div_eq_mul_inv]
      generalize (sum ((forwardFrom trans emis (fwdStep trans emis alpha o) os).getLastD
        (fwdStep trans emis alpha o)))⁻¹ = zi
      field_simp

set_option linter.unusedVariables false in
/-- backward sampling draws state sequences from the exact posterior: the probability of returning
    `ss` is joint(ss, obs) / marginal(obs), whenever the normalisers met along the way are non-zero -/
theorem ffbs_law (init : List K) (trans emis : List (List K)) (o : Nat) (os : List Nat)
    (ss : List Nat) (hlen : ss.length = os.length + 1) (hss : ∀ s ∈ ss, s < init.length)
    (hpos : ∀ (a : List K) (y : Nat), a ∈ forward init trans emis (o :: os) → y ∈ ss →
        sum ((List.range a.length).map fun x' => get a x' * get2 trans x' y) ≠ 0)
    (hm : marginal init trans emis (o :: os) ≠ 0) :  -- (`hm` is not needed: x / 0 = 0 on both sides)
    ffbsProb trans (forward init trans emis (o :: os)) ss =
      joint init trans emis ss (o :: os) / marginal init trans emis (o :: os) := by
  cases ss with
  | nil => simp at hlen
  | cons s ss =>
    have hl := fwdInit_length init emis o
    have hs : s < init.length := hss s (by simp)
    simp only [forward, marginal, List.getLastD_cons, joint]
    rw [ffbs_from trans emis os (fwdInit init emis o) s ss (by simpa using hlen)
      (fun y hy => by rw [hl]; exact hss y (by simp [hy]))
      (fun a y ha hy => hpos a y (by simpa only [forward] using ha) (by simp [hy]))]
    rw [get_fwdInit _ _ _ _ hs]

end Field
end Genjax.Hmm
