import GenjaxModel.Proofs.State
/-!
# C19 — state/save collects exactly what was saved

Model `Model/State.lean`: the State interpreter over the equations of a staged function
(tags in named and leaf mode, namespace push/pop, scan bodies run under a fresh interpreter per
iteration, vmapped bodies seen as batched equations). Transparency ("wrapping does not change the
result") is a statement about the implementation only and is checked by the correspondence run.
-/
namespace Genjax.State

/-- a later write to the same name replaces the earlier one … -/
theorem C19_later_write_wins (s : Store) (p : Path) (v : SV) : (s.set p v).get? p = some v :=
  set_get s p v

/-- … and leaves every entry that is not below that name alone -/
theorem C19_write_is_local (s : Store) (p q : Path) (v : SV) (h1 : isPrefix p q = false) :
    (s.set p v).get? q = s.get? q := set_other s p q v h1

/-- a named save lands under its name inside the enclosing namespaces, whatever the interpreter
    state, iteration indices and enclosing vmaps -/
theorem C19_tag_collects (cfg : Cfg) (name : String) (id : Nat) (idx lanes : List Nat) (st : St) :
    ∃ st', (SP.tag name id).exec cfg idx lanes st = some st' ∧ st'.ns = st.ns ∧
      st'.store.get? (st.ns ++ [name]) = some (batched id idx lanes) :=
  tag_collects cfg name id idx lanes st

/-- values saved under vmap are batched (one entry per lane, every lane count n) -/
theorem C19_vmap_batched (cfg : Cfg) (name : String) (id n : Nat) (st : St) :
    ∃ st', (SP.vmap (.cons (.tag name id) .nil) n).exec cfg [] [] st = some st' ∧
      st'.store.get? (st.ns ++ [name]) =
        some (SV.stack ((List.range n).map fun l => SV.atom id [l])) :=
  vmap_batched cfg name id n st

/-- values saved inside scan bodies are stacked along the iteration axis and stored under the
    namespaces enclosing the scan (repaired code = specification variant), every length n ≥ 1 -/
theorem C19_scan_stacks (name : String) (id n : Nat) (hn : 0 < n) (st : St) :
    ∃ st', (SP.scan (.cons (.tag name id) .nil) n).exec ⟨true⟩ [] [] st = some st' ∧ st'.ns = st.ns ∧
      st'.store.get? (st.ns ++ [name]) =
        some (SV.stack ((List.range n).map fun i => SV.atom id [i])) :=
  scan_stacks_spec name id n hn st

/-- the code before the repair stored them at the root instead … -/
theorem C19_scan_stacks_asis (name : String) (id n : Nat) (hn : 0 < n) (st : St) :
    ∃ st', (SP.scan (.cons (.tag name id) .nil) n).exec ⟨false⟩ [] [] st = some st' ∧ st'.ns = st.ns ∧
      st'.store.get? [name] =
        some (SV.stack ((List.range n).map fun i => SV.atom id [i])) :=
  scan_stacks_asis name id n hn st

/-- … which loses a namespace opened around the scan (proved counterexample, replayed on the
    implementation as the first corpus case of the check) -/
theorem C19_asis_ns_across_scan_cex :
    let p : SPL := .cons (.push "a") (.cons (.scan (.cons (.tag "x" 1) .nil) 2) (.cons .pop .nil))
    collect ⟨false⟩ p = some [(["x"], SV.stack [SV.atom 1 [0], SV.atom 1 [1]])] ∧
    collect ⟨true⟩ p = some [(["a", "x"], SV.stack [SV.atom 1 [0], SV.atom 1 [1]])] :=
  asis_ns_across_scan_cex

end Genjax.State
