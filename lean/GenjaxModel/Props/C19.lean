import GenjaxModel.Proofs.State
import GenjaxModel.Proofs.StateSpec
import GenjaxModel.Proofs.StateSpecShape
import GenjaxModel.Proofs.StateSpecAsis
import GenjaxModel.Proofs.Interp
/-!
# C19 — state/save collects exactly what was saved

Model `Model/State.lean`: the State interpreter over the equations of a staged function
(tags in named and leaf mode, namespace push/pop, scan bodies run under a fresh interpreter per
iteration, vmapped bodies seen as batched equations). Transparency ("wrapping does not change the
result") is a statement about the implementation only and is checked by the correspondence run.
-/
namespace Genjax.State

/-- a later write to the same name replaces the earlier one … -/
theorem C19_later_write_wins (s : Store) (p : Path) (v : SV) : (s.set p v).get? p = some v :=
  set_get s p v

/-- … and leaves every entry that is not below that name alone -/
theorem C19_write_is_local (s : Store) (p q : Path) (v : SV) (h1 : isPrefix p q = false) :
    (s.set p v).get? q = s.get? q := set_other s p q v h1

/-- a named save lands under its name inside the enclosing namespaces, whatever the interpreter
    state, iteration indices and enclosing vmaps -/
theorem C19_tag_collects (cfg : Cfg) (name : String) (id : Nat) (idx lanes : List Nat) (st : St) :
    ∃ st', (SP.tag name id).exec cfg idx lanes st = some st' ∧ st'.ns = st.ns ∧
      st'.store.get? (st.ns ++ [name]) = some (batched id idx lanes) :=
  tag_collects cfg name id idx lanes st

/-- values saved under vmap are batched (one entry per lane, every lane count n) -/
theorem C19_vmap_batched (cfg : Cfg) (name : String) (id n : Nat) (st : St) :
    ∃ st', (SP.vmap (.cons (.tag name id) .nil) n).exec cfg [] [] st = some st' ∧
      st'.store.get? (st.ns ++ [name]) =
        some (SV.stack ((List.range n).map fun l => SV.atom id [l])) :=
  vmap_batched cfg name id n st

/-- values saved inside scan bodies are stacked along the iteration axis and stored under the
    namespaces enclosing the scan (repaired code = specification variant), every length n ≥ 1 -/
theorem C19_scan_stacks (name : String) (id n : Nat) (hn : 0 < n) (st : St) :
    ∃ st', (SP.scan (.cons (.tag name id) .nil) n).exec ⟨true⟩ [] [] st = some st' ∧ st'.ns = st.ns ∧
      st'.store.get? (st.ns ++ [name]) =
        some (SV.stack ((List.range n).map fun i => SV.atom id [i])) :=
  scan_stacks_spec name id n hn st

/-- the code before the repair stored them at the root instead … -/
theorem C19_scan_stacks_asis (name : String) (id n : Nat) (hn : 0 < n) (st : St) :
    ∃ st', (SP.scan (.cons (.tag name id) .nil) n).exec ⟨false⟩ [] [] st = some st' ∧ st'.ns = st.ns ∧
      st'.store.get? [name] =
        some (SV.stack ((List.range n).map fun i => SV.atom id [i])) :=
  scan_stacks_asis name id n hn st

/-- … which loses a namespace opened around the scan (proved counterexample, replayed on the
    implementation as the first corpus case of the check) -/
theorem C19_asis_ns_across_scan_cex :
    let p : SPL := .cons (.push "a") (.cons (.scan (.cons (.tag "x" 1) .nil) 2) (.cons .pop .nil))
    collect ⟨false⟩ p = some [(["x"], SV.stack [SV.atom 1 [0], SV.atom 1 [1]])] ∧
    collect ⟨true⟩ p = some [(["a", "x"], SV.stack [SV.atom 1 [0], SV.atom 1 [1]])] :=
  asis_ns_across_scan_cex

/-!
## Refinement of an event-list specification, for EVERY program

`Model/StateSpec.lean` defines the SPEC: `SPL.saves p outer ns idx lanes` lists the save events of a
program in chronological order, each with its FULL path (all enclosing namespaces, also those opened
around enclosing scans, then the name) and its batched value; the events of `scan body n` are, for
every path written by the body, one event whose value is the stack over the iterations of what that
iteration left there; `collectSpec p` replays the events on the empty dictionary, later write wins.
The model (`SP.exec`) instead runs every scan iteration in a fresh interpreter with an EMPTY namespace
stack and merges the stacked result afterwards; the theorems below show that the repaired merge makes
the two agree on all programs: arbitrary nesting of scans in scans, vmaps, namespaces opened inside
and around scans, overwrites, leaf-mode saves, and also programs that raise (both sides `none`) or
leave namespaces open inside a scan body (both sides drop them at the end of the iteration).
-/

/-- **C19 for every program** (repaired code): the collected dictionary IS the replay of the save
    events of the program, as an equality of `Option Store` - same failures, same entries, same
    values, same insertion order. No well-bracketedness hypothesis is needed. -/
theorem C19_collect_refines_spec (p : SPL) : collect ⟨true⟩ p = collectSpec p :=
  collect_refines_spec p

/-- the same for a block started in ANY interpreter state (any store, any open namespaces), under
    any enclosing scan indices and vmaps: the interpreter replays the block's events on its store -/
theorem C19_exec_refines_spec (p : SPL) (idx lanes : List Nat) (st : St) :
    p.exec ⟨true⟩ idx lanes st
      = (p.saves [] st.ns idx lanes).map
          fun r => { store := r.1.foldl (fun s e => Store.set s e.1 e.2) st.store, ns := r.2 } :=
  SPL.exec_spec p idx lanes st

/-- non-vacuity / worked instance: a namespace around a scan of a scan with overwrites
    (`with namespace a: scan(λ. save(x=e1); scan(λ. save(y=e2); save(y=e3), 2); save(x=e4), 2)`,
    then `save(z=e5)`): both sides are this three-entry dictionary -/
example :
    let p : SPL := .cons (.push "a") (.cons (.scan (.cons (.tag "x" 1) (.cons (.scan
      (.cons (.tag "y" 2) (.cons (.tag "y" 3) .nil)) 2) (.cons (.tag "x" 4) .nil))) 2)
      (.cons .pop (.cons (.tag "z" 5) .nil)))
    let expected : Store :=
      [(["a", "y"], .stack [.stack [.atom 3 [0, 0], .atom 3 [0, 1]],
                            .stack [.atom 3 [1, 0], .atom 3 [1, 1]]]),
       (["a", "x"], .stack [.atom 4 [0], .atom 4 [1]]),
       (["z"], .atom 5 [])]
    collect ⟨true⟩ p = some expected ∧ collectSpec p = some expected := by
  intro p expected
  constructor <;> rfl

/-- the collected dictionary read path by path: at `q` it holds the value of the LAST save at exactly
    `q`, unless a later save at a path above `q` replaced that whole sub-dictionary (`lastSave`) -/
theorem C19_collected_is_last_save (p : SPL) (s : Store) (h : collect ⟨true⟩ p = some s) :
    ∃ evs, savesTop p = some evs ∧ ∀ q, s.get? q = lastSave evs q := by
  rw [collect_refines_spec, collectSpec, Option.map_eq_some_iff] at h
  obtain ⟨evs, hevs, rfl⟩ := h
  exact ⟨evs, hevs, get_collectEvents evs⟩

/-- a saved value is collected: if the save events of `p` are `before ++ (q, v) :: after` and nothing
    in `after` is saved at `q` or at a path above `q`, then the program does not raise and the
    collected dictionary holds `v` at `q` -/
theorem C19_saved_value_collected (p : SPL) (evs before after : List Event) (q : Path) (v : SV)
    (hs : savesTop p = some evs) (hsplit : evs = before ++ (q, v) :: after)
    (hlast : ∀ e ∈ after, isPrefix e.1 q = false) :
    ∃ s, collect ⟨true⟩ p = some s ∧ s.get? q = some v := by
  refine ⟨collectEvents evs, by rw [collect_refines_spec, collectSpec, hs]; rfl, ?_⟩
  rw [get_collectEvents, hsplit]
  exact lastSave_split before after q v hlast

/-- non-vacuity: in `save(x=e1); with namespace a: scan(λ. save(y=e2), 2); save(x=e3)` the second
    save of `x` is the last event and it is what is collected at `x` -/
example :
    let p : SPL := .cons (.tag "x" 1) (.cons (.push "a") (.cons (.scan (.cons (.tag "y" 2) .nil) 2)
      (.cons .pop (.cons (.tag "x" 3) .nil))))
    ∃ s, collect ⟨true⟩ p = some s ∧ s.get? ["x"] = some (.atom 3 []) := by
  intro p
  exact C19_saved_value_collected p
    [(["x"], .atom 1 []), (["a", "y"], .stack [.atom 2 [0], .atom 2 [1]]), (["x"], .atom 3 [])]
    [(["x"], .atom 1 []), (["a", "y"], .stack [.atom 2 [0], .atom 2 [1]])] [] ["x"] (.atom 3 [])
    rfl rfl (fun e he => by cases he)

/-- nothing else is collected: every entry of the collected dictionary is (path and value of) one of
    the save events of the program -/
theorem C19_nothing_else_collected (p : SPL) (s : Store) (h : collect ⟨true⟩ p = some s) :
    ∃ evs, savesTop p = some evs ∧ ∀ e ∈ s, e ∈ evs := by
  rw [collect_refines_spec, collectSpec, Option.map_eq_some_iff] at h
  obtain ⟨evs, hevs, rfl⟩ := h
  exact ⟨evs, hevs, fun e he => mem_collectEvents evs e he⟩

/-- which paths a block saves to, whether it raises, and the namespace stack it leaves do not depend
    on the enclosing iteration indices and vmap sizes - so all iterations of a scan write the same
    paths -/
theorem C19_saved_paths_independent_of_indices (p : SPL) (outer ns : List String)
    (idx lanes idx' lanes' : List Nat) :
    (p.saves outer ns idx lanes).map (fun r => (r.1.map (·.1), r.2))
      = (p.saves outer ns idx' lanes').map (fun r => (r.1.map (·.1), r.2)) :=
  SPL.saves_shape p outer ns idx lanes idx' lanes'

/-- the events of a scan, spelled out without any default value (the `getD` in `stackEvents` /
    `stackStores` is never used): the scan leaves the namespace stack alone; each of its events has
    as value the stack, over ALL iterations `i < n` in order, of the value iteration `i` of the body
    left at that path (later write wins inside the body), the body being run under the namespaces
    `outer ++ ns` enclosing the scan with no namespace of its own open; and the paths of the scan's
    events are exactly the paths left by any one iteration -/
theorem C19_scan_event_is_stack_of_iterations (body : SPL) (n : Nat) (outer ns : List String)
    (idx lanes : List Nat) (evs : List Event) (ns' : List String)
    (h : (SP.scan body n).saves outer ns idx lanes = some (evs, ns')) :
    ns' = ns ∧
    (∀ e ∈ evs, ∃ vals : List SV, e.2 = SV.stack vals ∧ vals.length = n ∧
      ∀ i (hi : i < vals.length), ∃ r, body.saves (outer ++ ns) [] (idx ++ [i]) lanes = some r ∧
        (collectEvents r.1).get? e.1 = some vals[i]) ∧
    (∀ i, i < n → ∃ r, body.saves (outer ++ ns) [] (idx ++ [i]) lanes = some r ∧
        evs.map (·.1) = (collectEvents r.1).map (·.1)) :=
  scan_saves_char body n outer ns idx lanes evs ns' h

/-- non-vacuity: a scan (under namespace `a`) whose body overwrites `x` and opens a namespace -/
example :
    (SP.scan (.cons (.tag "x" 1) (.cons (.push "b") (.cons (.tag "y" 2) (.cons .pop
        (.cons (.tag "x" 3) .nil))))) 2).saves ["a"] [] [] []
      = some ([(["a", "b", "y"], .stack [.atom 2 [0], .atom 2 [1]]),
               (["a", "x"], .stack [.atom 3 [0], .atom 3 [1]])], []) := by rfl

/-- **the code before the repair** (`nsAcrossScan = false`) satisfies the same specification on the
    programs accepted by `SPL.asisOK` (`Model/StateSpec.lean`): every scan - at any nesting depth - is
    reached with no namespace open in its interpreter, and the top-level names written by its body are
    different from all top-level names written before it in the same interpreter. For those programs
    neither side raises, the two dictionaries have the same entries (`List.Perm`) and answer every
    look-up alike. This carves out exactly what the repair changed: namespaces around a scan, and
    sibling entries under a top-level name that a scan also writes.

    `_partial` because (1) the entries may come in a different ORDER in the flat store (the old merge
    groups the scan's entries by top-level name; see `C19_asis_order_differs`), so the full statement
    `collect ⟨false⟩ p = collectSpec p` is false as an equality of lists, and (2) `asisOK` is a
    sufficient syntactic condition, not a characterisation. -/
theorem C19_asis_agrees_without_ns_around_scan_partial (p : SPL) (ns' seen' : List String)
    (h : p.asisOK ([], []) = some (ns', seen')) :
    ∃ m s, collect ⟨false⟩ p = some m ∧ collectSpec p = some s ∧ m.Perm s ∧
      ∀ q, m.get? q = s.get? q :=
  collect_asis_refines_spec p ns' seen' h

/-- non-vacuity, and why only "up to order": this program (a save, then a scan whose body opens and
    closes a namespace twice around a nested scan with an overwrite) is accepted by `asisOK`; the
    old code and the spec collect the same four entries, the last two in different order -/
theorem C19_asis_order_differs :
    let p : SPL := .cons (.tag "z" 5) (.cons (.scan (.cons (.push "a") (.cons (.tag "x" 1) (.cons .pop
      (.cons (.scan (.cons (.tag "y" 2) (.cons (.tag "y" 3) .nil)) 2) (.cons (.push "a")
      (.cons (.tag "w" 4) (.cons .pop .nil))))))) 2) .nil)
    let y : SV := .stack [.stack [.atom 3 [0, 0], .atom 3 [0, 1]],
                          .stack [.atom 3 [1, 0], .atom 3 [1, 1]]]
    p.asisOK ([], []) = some ([], ["z", "a", "y", "y", "a"]) ∧
    collect ⟨false⟩ p = some [(["z"], .atom 5 []), (["a", "x"], .stack [.atom 1 [0], .atom 1 [1]]),
      (["a", "w"], .stack [.atom 4 [0], .atom 4 [1]]), (["y"], y)] ∧
    collectSpec p = some [(["z"], .atom 5 []), (["a", "x"], .stack [.atom 1 [0], .atom 1 [1]]),
      (["y"], y), (["a", "w"], .stack [.atom 4 [0], .atom 4 [1]])] := by
  intro p y
  refine ⟨by rfl, by rfl, by rfl⟩

/-- the two defects `asisOK` excludes, on the smallest programs: a namespace around a scan (rejected;
    the old code loses the namespace, see `C19_asis_ns_across_scan_cex`) and a scan writing under a
    top-level name used before (rejected; the old code drops the earlier sibling entry `a.k`) -/
theorem C19_asisOK_rejects_the_repaired_defects :
    let p1 : SPL := .cons (.push "a") (.cons (.scan (.cons (.tag "x" 1) .nil) 2) (.cons .pop .nil))
    let p2 : SPL := .cons (.push "a") (.cons (.tag "k" 1) (.cons .pop
      (.cons (.scan (.cons (.push "a") (.cons (.tag "x" 2) (.cons .pop .nil))) 2) .nil)))
    p1.asisOK ([], []) = none ∧ p2.asisOK ([], []) = none ∧
    collect ⟨false⟩ p2 = some [(["a", "x"], .stack [.atom 2 [0], .atom 2 [1]])] ∧
    collect ⟨true⟩ p2 = some [(["a", "k"], .atom 1 []),
      (["a", "x"], .stack [.atom 2 [0], .atom 2 [1]])] := by
  intro p1 p2
  refine ⟨by rfl, by rfl, by rfl, by rfl⟩

/-- the state interpreter is NOT guarded (Model/Interp.lean, kinds: scan interpreted, nested jit / checkpoint
    evaluated in place since fix 9b3be7d, custom_jvp / custom_vjp / while re-bound): handled and dropped saves
    partition the saves of the program; nothing is dropped iff no re-bound equation holds a save, and then every save
    is collected once, in order (`_partial`: the open finding state-dropped-in-uninterpreted-call is the other case) -/
theorem C19_collects_all_unless_rebound_partial (j : Interp.J) :
    ((Interp.runOld j).1 ++ (Interp.runOld j).2).Perm j.sites ∧
    ((Interp.runOld j).2 = [] ↔ j.blocked = false) ∧
    (j.blocked = false → (Interp.runOld j).1 = j.sites) := by
  have hesc := Interp.runOld_escapes_iff j
  have hblk := Interp.run_none_iff_blocked j
  refine ⟨Interp.runOld_partition j, ?_, ?_⟩
  · constructor
    · intro h
      cases hb : j.blocked
      · rfl
      · exact absurd h (hesc.mpr (hblk.mpr hb))
    · intro h
      by_contra hne
      have := hblk.mp (hesc.mp hne)
      rw [h] at this; exact Bool.noConfusion this
  · intro h
    have hn : Interp.run j ≠ none := by
      intro hr; have := hblk.mp hr; rw [h] at this; exact Bool.noConfusion this
    have := Interp.runOld_eq_run j hn
    exact Interp.run_handles_all j _ this

/-- a nested jit / checkpoint (kind `inline`) is transparent; a custom_jvp function (kind `rebind`) drops its save -/
theorem C19_call_examples :
    Interp.runOld (.call .inline (.site 1 .done) (.site 2 .done)) = ([1, 2], []) ∧
    Interp.runOld (.call .rebind (.site 1 .done) (.site 2 .done)) = ([2], [1]) := ⟨rfl, rfl⟩


end Genjax.State
