import GenjaxModel.Proofs.GfiCohInv
import GenjaxModel.Proofs.GfiAssess
import GenjaxModel.Proofs.GfiWeight
/-!
# C02 — generate honours constraints and returns the proper importance weight
(theorems about `GF.generate`, every program / constraint map / argument list / variant `cfg`)
-/
namespace Genjax
variable {R : Type} [AddCommGroup R] (P : Prims R) (cfg : Cfg)

/-- generate returns a coherent trace, for every constraint map (none, partial, full), Cond included -/
theorem C02_generate_coherent (g : GF) (x : Option CM) (args : List Val) (t : Tr R) (w : R)
    (h : g.generate P cfg x args = some (t, w)) : g.Coh P args t := generate_coh P cfg g x args t w h

/-- weight 0 when nothing is constrained (also for a whole sub-call left unconstrained: the Generate
    handler passes `none` to the callee) -/
theorem C02_generate_none_weight (g : GF) (args : List Val) (t : Tr R) (w : R)
    (h : g.generate P cfg none args = some (t, w)) : w = 0 := generate_none_weight P cfg g args t w h

/-- score = -assess(choices) for generated traces (`_partial`: Cond-free programs) -/
theorem C02_generate_score_assess_partial (g : GF) (hg : g.condFree = true) (x : Option CM)
    (args : List Val) (t : Tr R) (w : R) (h : g.generate P cfg x args = some (t, w)) :
    ∃ x', t.choices = some x' ∧ g.assess P x' args = some (-t.score, t.retval) := by
  obtain ⟨x', hx⟩ := generate_choices_some P cfg g hg x args t w h
  exact ⟨x', hx, coh_assess_partial P g hg args t (generate_coh P cfg g x args t w h) x' hx⟩

/-- the code as it is rejects an empty constraint for a vectorised sub-call whose axis size is
    inferred (IndexError in `static_dim_length`); the specification variant accepts it -/
theorem C02_vmap_generate_none_asis (g : GF) (n : Nat) (args : List Val) :
    (GF.vmap g [true] n).generate P Cfg.asis none args = none := by
  simp [GF.generate, Cfg.asis]

end Genjax
