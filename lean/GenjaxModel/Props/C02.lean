import GenjaxModel.Proofs.GfiCohInv
import GenjaxModel.Proofs.GfiAssess
import GenjaxModel.Proofs.GfiWeight
import GenjaxModel.Proofs.GfiAssessCond
/-!
# C02 — generate honours constraints and returns the proper importance weight
(theorems about `GF.generate`, every program / constraint map / argument list / variant `cfg`)
-/
namespace Genjax
variable {R : Type} [AddCommGroup R] (P : Prims R) (cfg : Cfg)

/-- generate returns a coherent trace, for every constraint map (none, partial, full), Cond included -/
theorem C02_generate_coherent (g : GF) (x : Option CM) (args : List Val) (t : Tr R) (w : R)
    (h : g.generate P cfg x args = some (t, w)) : g.Coh P args t := generate_coh P cfg g x args t w h

/-- weight 0 when nothing is constrained (also for a whole sub-call left unconstrained: the Generate
    handler passes `none` to the callee) -/
theorem C02_generate_none_weight (g : GF) (args : List Val) (t : Tr R) (w : R)
    (h : g.generate P cfg none args = some (t, w)) : w = 0 := generate_none_weight P cfg g args t w h

/-- score = -assess(choices) for generated traces (`_partial`: Cond-free programs; superseded by
    `C02_generate_score_assess` below) -/
theorem C02_generate_score_assess_partial (g : GF) (hg : g.condFree = true) (x : Option CM)
    (args : List Val) (t : Tr R) (w : R) (h : g.generate P cfg x args = some (t, w)) :
    ∃ x', t.choices = some x' ∧ g.assess P x' args = some (-t.score, t.retval) := by
  obtain ⟨x', hx⟩ := generate_choices_some P cfg g hg x args t w h
  exact ⟨x', hx, coh_assess_partial P g hg args t (generate_coh P cfg g x args t w h) x' hx⟩

/-- the code as it is rejects an empty constraint for a vectorised sub-call whose axis size is
    inferred (IndexError in `static_dim_length`); the specification variant accepts it -/
theorem C02_vmap_generate_none_asis (g : GF) (n : Nat) (args : List Val) :
    (GF.vmap g [true] n).generate P Cfg.asis none args = none := by
  simp [GF.generate, Cfg.asis]

/-- score = -assess(choices) and the program's return value for generated traces — every program
    (Cond at any depth), every constraint map.  `hx'` = "`get_choices()` does not raise".
    Supersedes `C02_generate_score_assess_partial`. -/
theorem C02_generate_score_assess (g : GF) (x : Option CM) (args : List Val) (t : Tr R) (w : R)
    (h : g.generate P cfg x args = some (t, w)) (x' : CM) (hx' : t.choices = some x') :
    g.assess P x' args = some (-t.score, t.retval) :=
  coh_assess P g args t (generate_coh P cfg g x args t w h) x' hx'

/-- the generated trace's choice map has the program's static skeleton (exists iff that exists) -/
theorem C02_generate_choices_skel (g : GF) (x : Option CM) (args : List Val) (t : Tr R) (w : R)
    (h : g.generate P cfg x args = some (t, w)) : t.choices.map CM.skel = g.skel :=
  generate_choices_skel P cfg g x args t w h

/-- end to end for programs whose Cond branches are compatible -/
theorem C02_generate_score_assess_compat (g : GF) (hs : g.skel.isSome) (x : Option CM)
    (args : List Val) (t : Tr R) (w : R) (h : g.generate P cfg x args = some (t, w)) :
    ∃ x', t.choices = some x' ∧ g.assess P x' args = some (-t.score, t.retval) := by
  obtain ⟨x', hx'⟩ := choices_of_skel (generate_choices_skel P cfg g x args t w h) hs
  exact ⟨x', hx', C02_generate_score_assess P cfg g x args t w h x' hx'⟩

/-- non-vacuity: constraining `"x"` of the Cond program `condExG` (both branches share `"x"`) -/
example : ∃ t w x', condExG.generate condExP Cfg.asis
      (some (.node (.cons "x" (.leaf (.num 10)) .nil))) [.num 0, .num 7] = some (t, w) ∧
    t.choices = some x' ∧ condExG.assess condExP x' [.num 0, .num 7] = some (-t.score, t.retval) ∧
    w = 22 :=
  ⟨_, _, _, rfl, rfl, rfl, rfl⟩

end Genjax
