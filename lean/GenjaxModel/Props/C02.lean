import GenjaxModel.Proofs.GfiCohInv
import GenjaxModel.Proofs.GfiAssess
import GenjaxModel.Proofs.GfiWeight
import GenjaxModel.Proofs.GfiAssessCond
import GenjaxModel.Proofs.GfiValues
import GenjaxModel.Proofs.GfiGenSum  -- (c01law block at the end of this file)
import GenjaxModel.Proofs.GfiGenTie  -- (c01law block at the end of this file)
import GenjaxModel.Proofs.GfiGenLawCondSum  -- (c02lawcond block at the end of this file)
/-!
# C02 — generate honours constraints and returns the proper importance weight
(theorems about `GF.generate`, every program / constraint map / argument list / variant `cfg`)
-/
namespace Genjax
variable {R : Type} [AddCommGroup R] (P : Prims R) (cfg : Cfg)

/-- generate returns a coherent trace, for every constraint map (none, partial, full), Cond included -/
theorem C02_generate_coherent (g : GF) (x : Option CM) (args : List Val) (t : Tr R) (w : R)
    (h : g.generate P cfg x args = some (t, w)) : g.Coh P args t := generate_coh P cfg g x args t w h

/-- weight 0 when nothing is constrained (also for a whole sub-call left unconstrained: the Generate
    handler passes `none` to the callee) -/
theorem C02_generate_none_weight (g : GF) (args : List Val) (t : Tr R) (w : R)
    (h : g.generate P cfg none args = some (t, w)) : w = 0 := generate_none_weight P cfg g args t w h

/-- score = -assess(choices) for generated traces (`_partial`: Cond-free programs; superseded by
    `C02_generate_score_assess` below) -/
theorem C02_generate_score_assess_partial (g : GF) (hg : g.condFree = true) (x : Option CM)
    (args : List Val) (t : Tr R) (w : R) (h : g.generate P cfg x args = some (t, w)) :
    ∃ x', t.choices = some x' ∧ g.assess P x' args = some (-t.score, t.retval) := by
  obtain ⟨x', hx⟩ := generate_choices_some P cfg g hg x args t w h
  exact ⟨x', hx, coh_assess_partial P g hg args t (generate_coh P cfg g x args t w h) x' hx⟩

/-- the code as it is rejects an empty constraint for a vectorised sub-call whose axis size is
    inferred (IndexError in `static_dim_length`); the specification variant accepts it -/
theorem C02_vmap_generate_none_asis (g : GF) (n : Nat) (args : List Val) :
    (GF.vmap g [true] n).generate P Cfg.asis none args = none := by
  simp [GF.generate, Cfg.asis]

/-- score = -assess(choices) and the program's return value for generated traces — every program
    (Cond at any depth), every constraint map.  `hx'` = "`get_choices()` does not raise".
    Supersedes `C02_generate_score_assess_partial`. -/
theorem C02_generate_score_assess (g : GF) (x : Option CM) (args : List Val) (t : Tr R) (w : R)
    (h : g.generate P cfg x args = some (t, w)) (x' : CM) (hx' : t.choices = some x') :
    g.assess P x' args = some (-t.score, t.retval) :=
  coh_assess P g args t (generate_coh P cfg g x args t w h) x' hx'

/-- the generated trace's choice map has the program's static skeleton (exists iff that exists) -/
theorem C02_generate_choices_skel (g : GF) (x : Option CM) (args : List Val) (t : Tr R) (w : R)
    (h : g.generate P cfg x args = some (t, w)) : t.choices.map CM.skel = g.skel :=
  generate_choices_skel P cfg g x args t w h

/-- end to end for programs whose Cond branches are compatible -/
theorem C02_generate_score_assess_compat (g : GF) (hs : g.skel.isSome) (x : Option CM)
    (args : List Val) (t : Tr R) (w : R) (h : g.generate P cfg x args = some (t, w)) :
    ∃ x', t.choices = some x' ∧ g.assess P x' args = some (-t.score, t.retval) := by
  obtain ⟨x', hx'⟩ := choices_of_skel (generate_choices_skel P cfg g x args t w h) hs
  exact ⟨x', hx', C02_generate_score_assess P cfg g x args t w h x' hx'⟩

/-- non-vacuity: constraining `"x"` of the Cond program `condExG` (both branches share `"x"`) -/
example : ∃ t w x', condExG.generate condExP Cfg.asis
      (some (.node (.cons "x" (.leaf (.num 10)) .nil))) [.num 0, .num 7] = some (t, w) ∧
    t.choices = some x' ∧ condExG.assess condExP x' [.num 0, .num 7] = some (-t.score, t.retval) ∧
    w = 22 :=
  ⟨_, _, _, rfl, rfl, rfl, rfl⟩

end Genjax

/-! # ===================== c01law: `generate` IS PROPERLY WEIGHTED =====================
  (appended block; model `Model/GfiDist.lean`, proofs `Proofs/GfiGenLaw.lean`,
  `Proofs/GfiGenSum.lean`)

  C02's "the importance weight is unbiased for the marginal likelihood of the constraints".
  `GF.generateD pd P cfg g x args` is `GF.generate` with every UNCONSTRAINED Distribution site drawing
  from its finite-support distribution and every constrained site contributing its mass to the
  weight (linear domain: the weight is the product of the masses of the constrained sites, i.e.
  `exp` of the log weight `GF.generate` returns).  `Tr.agS t x` / `CM.agreeWith y x` are the 1/0
  indicators "the trace `t` / the complete choice map `y` takes the constrained value at every site
  the constraint map `x` addresses" (`y` is a completion of `x`).
  All theorems of this block are `_partial`: Cond-free programs (a Cond evaluates `generate` on BOTH
  branches under the same constraints, so the hidden branch is not drawn from the program's own
  distribution; formalised in the c02lawcond block at the end of this file, which supersedes them).
  `g.vmapOK cfg`: every Vmap accepts an empty constraint in variant
  `cfg` (always true for `Cfg.spec`; for `Cfg.asis` it requires Vmaps without mapped arguments,
  cf. `C02_vmap_generate_none_asis`). -/
namespace Genjax
open Smc Smc.FinDist

section C02Law
variable {K : Type} [Field K] {R : Type} [AddCommGroup R] (pd : PD K) (P : Prims R) (cfg : Cfg)

/-- **Proper weighting** (`_partial`: Cond-free).  For every constraint map `ox` (none, partial,
    full; a map of the wrong kind makes `generate` raise and no trace agree: both sides 0), every
    argument list and every test function `φ` of the trace:
    `E_{(t,w) ∼ generate}[w·φ(t)] = E_{t ∼ simulate}[1{t agrees with the constraints}·φ(t)]`.
    Missing for the full statement: programs with Cond. -/
theorem C02_generate_proper_weight_partial (hpd : pd.WF) (g : GF) (hcf : g.condFree = true)
    (hv : g.vmapOK cfg = true) (ox : Option CM) (args : List Val) (φ : Tr R → K) :
    E (g.generateD pd P cfg ox args) (optK fun tw => tw.2 * φ tw.1)
      = E (g.simD pd P args) (optK fun t => t.agT ox * φ t) :=
  generateD_law pd P cfg hpd g hcf hv ox args φ

/-- **E[weight] = marginal likelihood of the constraints** (`_partial`: Cond-free): the expected
    importance weight is the probability, under the program's own distribution (`simD`, whose law is
    the density `assess` computes, `C01_simulate_law`), that the trace takes the constrained values.
    Runs on which `generate` raises count 0 on the left; `simulate` raises on the same programs. -/
theorem C02_generate_unbiased_partial (hpd : pd.WF) (g : GF) (hcf : g.condFree = true)
    (hv : g.vmapOK cfg = true) (x : CM) (args : List Val) :
    E (g.generateD pd P cfg (some x) args) (optK fun tw => tw.2)
      = E (g.simD pd P args) (optK fun t => t.agS x) := by
  have := generateD_law pd P cfg hpd g hcf hv (some x) args (fun _ => 1)
  simpa only [mul_one, Tr.agT] using this

/-- each complete choice map `y` of the program's shape contributes to that marginal likelihood
    its density `assessP y` if it is a completion of `x`, and nothing otherwise -/
theorem C02_completion_mass_partial (hpd : pd.WF) (g : GF) (hcf : g.condFree = true) (x y : CM)
    (args : List Val) (hs : g.skel = some y.skel) :
    E (g.simD pd P args) (optK fun t => if t.choices = some y then t.agS x else 0)
      = if y.agreeWith x then pmassOf (g.assessP pd y args) else 0 :=
  simD_agree_pointwise pd P hpd g hcf x y args hs

/-- **E[weight] = Σ over the completions `y ⊇ x` of `assessP y`** (`_partial`: Cond-free), for any
    list `ys` of distinct choice maps of the program's shape containing every choice map `simulate`
    can produce (`coversB` is an executable check of that). -/
theorem C02_generate_unbiased_sum_partial (hpd : pd.WF) (g : GF) (hcf : g.condFree = true)
    (hv : g.vmapOK cfg = true) (x : CM) (args : List Val) (ys : List CM) (hnd : ys.Nodup)
    (hcov : ∀ t, some t ∈ supp (g.simD pd P args) → ∃ y ∈ ys, t.choices = some y)
    (hshape : ∀ y ∈ ys, g.skel = some y.skel) :
    E (g.generateD pd P cfg (some x) args) (optK fun tw => tw.2)
      = sumK (ys.map fun y => if y.agreeWith x then pmassOf (g.assessP pd y args) else 0) :=
  generateD_unbiased_sum pd P cfg hpd g hcf hv x args ys hnd hcov hshape

/-- proper weighting outcome by outcome (`_partial`: Cond-free): for every complete choice map `y`
    of the program's shape, `E[w · 1{choices = y}]` is `assessP y` if `y` is a completion of the
    constraints and 0 otherwise (`agO none y = 1`, `agO (some x) y = 1{y.agreeWith x}`) -/
theorem C02_generate_pointwise_partial (hpd : pd.WF) (g : GF) (hcf : g.condFree = true)
    (hv : g.vmapOK cfg = true) (ox : Option CM) (args : List Val) (y : CM)
    (hs : g.skel = some y.skel) :
    E (g.generateD pd P cfg ox args) (optK fun tw => if tw.1.choices = some y then tw.2 else 0)
      = agO ox y * pmassOf (g.assessP pd y args) := by
  have := generateD_pointwise pd P cfg hpd g hcf hv ox args y (fun _ => 1) hs
  rw [massOf_one] at this
  rw [← this]
  congr 2
  funext tw
  simp only [choicesAre, mul_ite, mul_one, mul_zero]

/-- nothing constrained: the weight is 1 on every run (linear-domain form of
    `C02_generate_none_weight`), as an expectation against any `φ` -/
theorem C02_generateD_none_partial (hpd : pd.WF) (g : GF) (hcf : g.condFree = true)
    (hv : g.vmapOK cfg = true) (args : List Val) (φ : Tr R → K) :
    E (g.generateD pd P cfg none args) (optK fun tw => tw.2 * φ tw.1)
      = E (g.simD pd P args) (optK φ) := by
  have := generateD_law pd P cfg hpd g hcf hv none args φ
  simpa only [Tr.agT, one_mul] using this

end C02Law

/-- TIE of the distribution-valued `generateD` to the executable `GF.generate` (EVERY program,
    Cond included, every constraint map, every variant `cfg`): when each primitive has the one-point
    support `[P.draw d a]` and the masses are the exponentials of the log densities
    (`e 0 = 1`, `e (a + b) = e a · e b`, `pm = e ∘ lp`), `generateD` has a single outcome — the
    trace `GF.generate` returns with the weight `e (log weight)`, or "raises" when it raises. -/
theorem C02_generateD_point {K : Type} [Field K] {R : Type} [Zero R] [Add R] [Neg R]
    (e : R → K) (he0 : e 0 = 1) (hadd : ∀ a b, e (a + b) = e a * e b) (pd : PD K) (P : Prims R)
    (cfg : Cfg) (hsupp : ∀ d a, pd.support d a = [P.draw d a])
    (hpm : ∀ d a v, pd.pm d a v = e (P.lp d a v)) (g : GF) (ox : Option CM) (args : List Val) :
    ∃ q, g.generateD pd P cfg ox args
      = [((g.generate P cfg ox args).map fun tw => (tw.1, e tw.2), q)] :=
  generateD_point e he0 hadd pd P cfg hsupp hpm g ox args

/-- non-vacuity of the tie: the integer log densities of `condExP`, base-2 exponential -/
example : ∃ (e : ℤ → ℚ) (pd : PD ℚ), e 0 = 1 ∧ (∀ a b, e (a + b) = e a * e b) ∧
    (∀ d a, pd.support d a = [condExP.draw d a]) ∧ (∀ d a v, pd.pm d a v = e (condExP.lp d a v)) :=
  ⟨fun n => (2 : ℚ) ^ n, ⟨fun d a => [condExP.draw d a], fun d a v => (2 : ℚ) ^ (condExP.lp d a v)⟩,
    by simp, fun a b => zpow_add₀ (by norm_num) a b, fun _ _ => rfl, fun _ _ _ => rfl⟩

/-! ### non-vacuity (exact rationals; the instances of `Proofs/GfiLawMain.lean`) -/

/-- the four complete choice maps of `lawExG` -/
def lawExYs : List CM := [lawExX 0 0, lawExX 0 1, lawExX 1 0, lawExX 1 1]

/-- two dependent sites, `y` constrained to 1, `x` free: all hypotheses of
    `C02_generate_unbiased_sum_partial`, and both sides computed:
    `E[w] = P(y = 1) = 2/3·1/4 + 1/3·3/4 = 5/12` -/
example : lawExPD.WF ∧ lawExG.condFree = true ∧ lawExG.vmapOK Cfg.asis = true ∧ lawExYs.Nodup ∧
    (∀ t, some t ∈ supp (lawExG.simD lawExPD lawExP [.num 0]) → ∃ y ∈ lawExYs, t.choices = some y) ∧
    (∀ y ∈ lawExYs, lawExG.skel = some y.skel) ∧
    E (lawExG.generateD lawExPD lawExP Cfg.asis
        (some (.node (.cons "y" (.leaf (.num 1)) .nil))) [.num 0]) (optK fun tw => tw.2) = 5/12 ∧
    sumK (lawExYs.map fun y => if y.agreeWith (.node (.cons "y" (.leaf (.num 1)) .nil))
        then pmassOf (lawExG.assessP lawExPD y [.num 0]) else 0) = 5/12 := by
  refine ⟨lawExPD_wf, by decide +kernel, by decide +kernel, by decide +kernel,
    covers_of_coversB _ _ (by decide +kernel), by decide +kernel, by decide +kernel,
    by decide +kernel⟩

/-- Scan of a Fn calling a Vmap, specification variant: step 1 unconstrained (empty dict — the
    Vmap sub-call gets no constraint), step 2 fully constrained; both sides of
    `C02_generate_unbiased_partial` computed -/
example : lawExScan.condFree = true ∧ lawExScan.vmapOK Cfg.spec = true ∧
    E (lawExScan.generateD lawExPD lawExP Cfg.spec
        (some (.lanes (.cons "" (.node .nil) (.cons "" (lawExLane 1 1) .nil)))) lawExScanArgs)
      (optK fun tw => tw.2) = 275/1024 ∧
    E (lawExScan.simD lawExPD lawExP lawExScanArgs)
      (optK fun t => t.agS (.lanes (.cons "" (.node .nil) (.cons "" (lawExLane 1 1) .nil))))
      = 275/1024 := by
  refine ⟨by decide +kernel, by decide +kernel, by decide +kernel, by decide +kernel⟩

/-- the same constraint under the code as it is: `generate` raises on every run (the guard
    `vmapOK` fails: the Vmap has a mapped argument), expected weight 0 -/
example : lawExScan.vmapOK Cfg.asis = false ∧
    E (lawExScan.generateD lawExPD lawExP Cfg.asis
        (some (.lanes (.cons "" (.node .nil) (.cons "" (lawExLane 1 1) .nil)))) lawExScanArgs)
      (optK fun tw => tw.2) = 0 := by
  refine ⟨by decide +kernel, by decide +kernel⟩

/-- fully constrained (code as it is): the weight is the density of the constraint map,
    `1/4 · 5/8 · 1/2 · 5/8` -/
example :
    E (lawExScan.generateD lawExPD lawExP Cfg.asis (some (lawExScanX 1 0 1 1)) lawExScanArgs)
      (optK fun tw => tw.2) = 25/512 ∧
    pmassOf (lawExScan.assessP lawExPD (lawExScanX 1 0 1 1) lawExScanArgs) = 25/512 := by
  refine ⟨by decide +kernel, by decide +kernel⟩

/-! ### programs with Cond (not covered by the `_partial` theorems above) -/

/-- evidence (one instance, computed) that proper weighting extends to a Cond whose branches have
    the same shape: `lawExCond`, constraint `{x: 1}`, false branch selected (three-valued
    primitive): `E[w] = 1/3 = P(x = 1)` -/
example :
    E (lawExCond.generateD lawExPD lawExP Cfg.asis
        (some (.node (.cons "x" (.leaf (.num 1)) .nil))) [.num 0]) (optK fun tw => tw.2) = 1/3 ∧
    E (lawExCond.simD lawExPD lawExP [.num 0])
      (optK fun t => t.agS (.node (.cons "x" (.leaf (.num 1)) .nil))) = 1/3 := by
  refine ⟨by decide +kernel, by decide +kernel⟩

/-- For a Cond whose branches have DIFFERENT shapes the weight is NOT unbiased for the marginal
    likelihood of the constraints under the distribution of the choice map `simulate` exposes.
    `lawExCondBad = cond(c, {x ~ coin}, {x ~ coin; y ~ coin})`, true branch selected, constraint
    `{y: 1}`: the selected branch has no site `y`, so `generate` returns weight 1 on every run
    (`E[w] = 1`), while the merged choice map of a simulated trace has `y = 1` with probability `1/2`
    (`y` is drawn by the hidden branch).  `generate` is consistent with `assess` (which ignores `y`
    here), not with the distribution of the merged choice map — the same discrepancy as
    `C01_simulate_law_fails_on_mixed_cond`. -/
theorem C02_generate_biased_on_mixed_cond :
    E (lawExCondBad.generateD lawExPD lawExP Cfg.asis
        (some (.node (.cons "y" (.leaf (.num 1)) .nil))) [.num 1]) (optK fun tw => tw.2) = 1 ∧
    E (lawExCondBad.simD lawExPD lawExP [.num 1])
      (optK fun t => match t.choices with
        | some y => if y.agreeWith (.node (.cons "y" (.leaf (.num 1)) .nil)) then 1 else 0
        | none => 0) = 1/2 := by
  refine ⟨by decide +kernel, by decide +kernel⟩

end Genjax

/-! ==============================================================================================
    BEGIN work package `gfivalues`: the VALUES held by the generated trace
    (helper lemmas: Model/GfiPaths.lean, Proofs/GfiValues*.lean; notation as in Props/C03.lean).
    ============================================================================================== -/
namespace Genjax
variable {R : Type} [AddCommGroup R] (P : Prims R) (cfg : Cfg)

/-- Every constrained address that exists in the generated trace's choice map holds the constrained
    value — EVERY program (dist, fn, vmap, scan, cond at any depth: a constraint is handed to both
    branches of a Cond, so whichever is visible holds it), every arguments, every `cfg`. -/
theorem C02_generate_keeps_constraints (g : GF) (x : Option CM) (args : List Val) (t : Tr R) (w : R)
    (h : g.generate P cfg x args = some (t, w)) (y : CM) (hy : t.choices = some y)
    (p : Path) (v : Val) (hv : CM.leafAt? x p = some v) (v' : Val) (hv' : y.leafAt p = some v') :
    v' = v :=
  generate_keeps_constraints P cfg g x args t w h y hy p v hv v' hv'

/-- non-vacuity on `condExDeep`: constraints inside the Scan of a Cond and inside the Vmap of a Cond
    of a Cond (`genScen_spec`: generate is defined, `s.2.2` is the choice map) -/
example : ∃ s, genScen condExP Cfg.spec condExDeep (some valExX) condExDeepArgs = some s ∧
    (decide (CM.leafAt? (some valExX) valExPc = some (.num 10)) &&
     decide (s.2.2.leafAt valExPc = some (.num 10)) &&
     decide (CM.leafAt? (some valExX) valExPc' = some (.num 20)) &&
     decide (s.2.2.leafAt valExPc' = some (.num 20))) = true :=
  (Option.any_eq_true _ _).mp (by decide +kernel)

/-- Every value of the generated trace's choice map at an address the constraint does NOT mention is
    the sampler's draw `P.draw d params` for the Distribution `d` at that address and the parameters
    `params` the program computes from the trace's own values (`GF.siteAt`, threaded as `GF.Coh`
    threads them) — a draw from the conditional prior given the values it depends on.
    EVERY program — Cond at any depth included, so this is the full statement, not the Cond-free
    `C02_generate_unconstrained_are_draws_partial` that was asked for —, every constraint map (none,
    partial, whole sub-calls missing), arguments, `cfg`. -/
theorem C02_generate_unconstrained_are_draws (g : GF) (x : Option CM) (args : List Val) (t : Tr R)
    (w : R) (h : g.generate P cfg x args = some (t, w)) (y : CM) (hy : t.choices = some y)
    (p : Path) (hx : CM.leafAt? x p = none) (v : Val) (hv : y.leafAt p = some v) :
    ∃ d0 ps, g.siteAt args t p = some (d0, ps) ∧ v = P.draw d0 ps :=
  generate_unconstrained_are_draws P cfg g x args t w h y hy p hx v hv

/-- the same for `simulate` (which `generate` without constraints is): every value is a draw -/
theorem C02_simulate_values_are_draws (g : GF) (args : List Val) (t : Tr R)
    (h : g.simulate P args = some t) (y : CM) (hy : t.choices = some y) (p : Path) (v : Val)
    (hv : y.leafAt p = some v) : ∃ d0 ps, g.siteAt args t p = some (d0, ps) ∧ v = P.draw d0 ps :=
  simulate_are_draws P g args t h y hy p v hv

/-- If the constraint map `x` has every address of the generated trace's choice map `y`
    (`CM.Shape y x`: every dictionary key of `y`, at every depth, is bound in `x`; vectorised maps
    have the same number of lanes), the weight is exactly the log density `assess` returns on `y`
    (and `assess` returns the trace's return value): generate with a full constraint IS assess.
    Every program (Cond at any depth), arguments, `cfg`. -/
theorem C02_generate_full_weight (g : GF) (x : CM) (args : List Val) (t : Tr R) (w : R)
    (h : g.generate P cfg (some x) args = some (t, w)) (y : CM) (hy : t.choices = some y)
    (hcov : CM.Shape y x) : g.assess P y args = some (w, t.retval) :=
  generate_full_weight P cfg g x args t w h y hy hcov

/-- the same with coverage stated on the program's static skeleton: `x` binds every address of the
    program (`g.skel = some sk`, `CM.Shape sk x`) -/
theorem C02_generate_full_weight_skel (g : GF) (sk : CM) (hsk : g.skel = some sk)
    (x : CM) (hcov : CM.Shape sk x) (args : List Val) (t : Tr R) (w : R)
    (h : g.generate P cfg (some x) args = some (t, w)) :
    ∃ y, t.choices = some y ∧ g.assess P y args = some (w, t.retval) :=
  generate_full_weight_skel P cfg g sk hsk x hcov args t w h

/-- non-vacuity of `C02_generate_unconstrained_are_draws` on `condExDeep` with a sampler that depends
    on its arguments: the unconstrained `s/2/x` (inside the Scan of a Cond) is Distribution 1 with
    parameter 9 (the carry) and holds its draw 13; `v/1/x` is Distribution 1 with parameter 52 -/
example : ∃ s, genScen valExP Cfg.spec condExDeep (some valExX) condExDeepArgs = some s ∧
    (decide (CM.leafAt? (some valExX) [.key "s", .idx 2, .key "x"] = none) &&
     decide (s.2.2.leafAt [.key "s", .idx 2, .key "x"] = some (.num 13)) &&
     decide (condExDeep.siteAt condExDeepArgs s.1 [.key "s", .idx 2, .key "x"]
       = some (1, [.num 9])) &&
     decide (valExP.draw 1 [.num 9] = .num 13) &&
     decide (s.2.2.leafAt [.key "v", .idx 1, .key "x"] = some (.num 56)) &&
     decide (condExDeep.siteAt condExDeepArgs s.1 [.key "v", .idx 1, .key "x"]
       = some (1, [.num 52]))) = true :=
  (Option.any_eq_true _ _).mp (by decide +kernel)

/-- non-vacuity of `C02_generate_full_weight` / `_skel`: generating `condExDeep` under OTHER arguments
    with that full constraint is defined, the constraint covers the skeleton, and the weight 75 is
    what `assess` returns -/
example : ∃ x, fullExX = some x ∧ ∃ s, genScen condExP Cfg.spec condExDeep (some x) valExArgs = some s ∧
    (decide (s.2.1 = 75) &&
     decide ((condExDeep.assess condExP s.2.2 valExArgs).map (·.1) = some 75) &&
     decide (x.skel = s.2.2.skel) && decide (condExDeep.skel = some x.skel)) = true := by
  have h : (fullExX.any fun x =>
      (genScen condExP Cfg.spec condExDeep (some x) valExArgs).any fun s =>
        (decide (s.2.1 = 75) &&
         decide ((condExDeep.assess condExP s.2.2 valExArgs).map (·.1) = some 75) &&
         decide (x.skel = s.2.2.skel) && decide (condExDeep.skel = some x.skel))) = true := by
    decide +kernel
  obtain ⟨x, hx, h2⟩ := (Option.any_eq_true _ _).mp h
  exact ⟨x, hx, (Option.any_eq_true _ _).mp h2⟩

end Genjax
/-! ==============================================================================================
    END work package `gfivalues`
    ============================================================================================== -/


/-! ==============================================================================================
    BEGIN work package `c02lawcond`: `generate` IS PROPERLY WEIGHTED FOR PROGRAMS WITH COND
    (proofs: Proofs/GfiGenSupp.lean, Proofs/GfiGenLawCond.lean, Proofs/GfiGenLawCondSum.lean;
    notation as in the c01law block above).

    The `_partial` theorems of the c01law block assume `g.condFree`.  Here `condFree` is replaced by
    `g.condOK = true` (at every Cond the two branches have the same static choice-map skeleton and no
    address collision) plus `pd.Normalised` (every primitive has total mass 1 — needed to marginalise
    the unconstrained draws of the HIDDEN branch: `Cond.generate` runs both branches under the
    constraint and returns the taken branch's weight only).  Mixed-shape Conds are excluded for a
    reason: `C02_generate_biased_on_mixed_cond`.
    ============================================================================================== -/
namespace Genjax
open Smc Smc.FinDist

section C02LawCond
variable {K : Type} [Field K] {R : Type} [AddCommGroup R] (pd : PD K) (P : Prims R) (cfg : Cfg)

/-- **Proper weighting outcome by outcome — every program whose Conds are `condOK`** (Cond at any
    depth: under Fn, Vmap, Scan, nested).  For every constraint map `ox` (none, partial, full, or of
    the wrong kind), every argument list and every complete choice map `y` of the program's shape,
    `E_{(t,w) ∼ generate}[w · 1{choices t = y}]` is the density `assessP y` if `y` is a completion of
    the constraints and 0 otherwise.  Supersedes `C02_generate_pointwise_partial`. -/
theorem C02_generate_pointwise (hpd : pd.WF) (hnorm : pd.Normalised) (g : GF)
    (hc : g.condOK = true) (hv : g.vmapOK cfg = true) (ox : Option CM) (args : List Val) (y : CM)
    (hs : g.skel = some y.skel) :
    E (g.generateD pd P cfg ox args) (optK fun tw => if tw.1.choices = some y then tw.2 else 0)
      = agO ox y * pmassOf (g.assessP pd y args) := by
  have := genlaw_gf pd P cfg hpd hnorm g hc hv ox args y (fun _ => 1) hs
  rw [massOf_one] at this
  rw [← this]
  congr 2
  funext tw
  simp only [choicesAre, mul_ite, mul_one, mul_zero]

/-- the same with a function `ψ` of the return value: the return value `generate` reports on the
    choice map `y` is the one `assess` reports -/
theorem C02_generate_pointwise_retval (hpd : pd.WF) (hnorm : pd.Normalised) (g : GF)
    (hc : g.condOK = true) (hv : g.vmapOK cfg = true) (ox : Option CM) (args : List Val) (y : CM)
    (ψ : Val → K) (hs : g.skel = some y.skel) :
    E (g.generateD pd P cfg ox args) (optK fun tw => tw.2 * choicesAre y ψ tw.1)
      = agO ox y * massOf (g.assessP pd y args) ψ :=
  genlaw_gf pd P cfg hpd hnorm g hc hv ox args y ψ hs

/-- **Proper weighting in test-function form — programs with Cond**: for every function `F` of the
    OBSERVABLE trace (choice map `get_choices()` and return value; `obsF F t = F y t.retval` when
    `t.choices = some y`, and 0 when `get_choices()` raises — it never does on these programs),
    `E_{(t,w) ∼ generate}[w · F(t)] = E_{t ∼ simulate}[1{t agrees with the constraints} · F(t)]`.
    For Cond-free programs `C02_generate_proper_weight_partial` has this for every function of the
    trace; with Cond that stronger form is FALSE (`C02_generate_hidden_branch_not_prior`): the hidden
    branch's trace is not distributed as under `simulate`. -/
theorem C02_generate_proper_weight (hpd : pd.WF) (hnorm : pd.Normalised) (g : GF)
    (hc : g.condOK = true) (hv : g.vmapOK cfg = true) (ox : Option CM) (args : List Val)
    (F : CM → Val → K) :
    E (g.generateD pd P cfg ox args) (optK fun tw => tw.2 * obsF F tw.1)
      = E (g.simD pd P args) (optK fun t => t.agT ox * obsF F t) :=
  generateD_law_obs pd P cfg hpd hnorm g hc hv ox args F

/-- **E[weight] = marginal likelihood of the constraints — programs with Cond**: the expected
    importance weight is the probability, under the program's own distribution (`simD`, whose law is
    the density `assess` computes: `C01_simulate_law`), that the trace takes the constrained values.
    Supersedes `C02_generate_unbiased_partial`. -/
theorem C02_generate_unbiased (hpd : pd.WF) (hnorm : pd.Normalised) (g : GF)
    (hc : g.condOK = true) (hv : g.vmapOK cfg = true) (x : CM) (args : List Val) :
    E (g.generateD pd P cfg (some x) args) (optK fun tw => tw.2)
      = E (g.simD pd P args) (optK fun t => t.agS x) :=
  generateD_unbiased_cond pd P cfg hpd hnorm g hc hv x args

/-- each complete choice map `y` of the program's shape contributes to that marginal likelihood its
    density `assessP y` if it is a completion of `x`, and nothing otherwise (supersedes
    `C02_completion_mass_partial`) -/
theorem C02_completion_mass (hpd : pd.WF) (hnorm : pd.Normalised) (g : GF) (hc : g.condOK = true)
    (x y : CM) (args : List Val) (hs : g.skel = some y.skel) :
    E (g.simD pd P args) (optK fun t => if t.choices = some y then t.agS x else 0)
      = if y.agreeWith x then pmassOf (g.assessP pd y args) else 0 :=
  simD_completion_mass_cond pd P hpd hnorm g hc x y args hs

/-- **E[weight] = Σ over the completions `y ⊇ x` of `assessP y` — programs with Cond**, for any list
    `ys` of distinct choice maps of the program's shape containing every choice map `simulate` can
    produce (`coversB` is an executable check of that).  Supersedes
    `C02_generate_unbiased_sum_partial`. -/
theorem C02_generate_unbiased_sum (hpd : pd.WF) (hnorm : pd.Normalised) (g : GF)
    (hc : g.condOK = true) (hv : g.vmapOK cfg = true) (x : CM) (args : List Val) (ys : List CM)
    (hnd : ys.Nodup)
    (hcov : ∀ t, some t ∈ supp (g.simD pd P args) → ∃ y ∈ ys, t.choices = some y)
    (hshape : ∀ y ∈ ys, g.skel = some y.skel) :
    E (g.generateD pd P cfg (some x) args) (optK fun tw => tw.2)
      = sumK (ys.map fun y => if y.agreeWith x then pmassOf (g.assessP pd y args) else 0) :=
  generateD_unbiased_sum_cond pd P cfg hpd hnorm g hc hv x args ys hnd hcov hshape

/-- **`generate` never raises under a completable constraint**: on a program without address
    collisions whose Conds are `condOK` and whose Vmaps accept an empty constraint, if the constraint
    map `ox` has a completion `y` of the program's shape (`agOb ox y`: no constraint, or
    `y.agreeWith x`), every run of `generate` returns — the successful outcomes carry all the mass.
    (This is what the hidden branch of a Cond needs.) -/
theorem C02_generate_defined_on_completable (hnorm : pd.Normalised) (g : GF)
    (hn : g.noCollide = true) (hc : g.condOK = true) (hv : g.vmapOK cfg = true) (ox : Option CM)
    (y : CM) (args : List Val) (hs : g.skel = some y.skel) (ha : agOb ox y = true) :
    none ∉ supp (g.generateD pd P cfg ox args) ∧
      E (g.generateD pd P cfg ox args) (optK fun _ => (1 : K)) = 1 :=
  ⟨generateD_nofail pd P cfg g hn hc hv ox y args hs ha,
    generateD_mass_some pd P cfg hnorm g hn hc hv ox y args hs ha⟩

/-- every trace `generate` can return (any program, any constraint) has a choice map with the
    program's static skeleton — the distributional form of `C02_generate_choices_skel` -/
theorem C02_generateD_choices_skel (g : GF) (ox : Option CM) (args : List Val) (tw : Tr R × K)
    (h : some tw ∈ supp (g.generateD pd P cfg ox args)) : tw.1.choices.map CM.skel = g.skel :=
  generateD_choices_skel pd P cfg g ox args tw h

end C02LawCond

/-! ### non-vacuity (exact rationals) -/

/-- a Scan whose step is a same-shape Cond: the carry (the previous draw) is the check;
    true branch `x ~ coin(1/4)`, false branch `x ~ three-valued`; both return `(x, ·)` -/
def lawExCondStep : GF :=
  .cond (.fn (.call "x" (.dist 0) [.const (1/4)] (.ret (.pair (.var 1) (.var 1)))))
        (.fn (.call "x" (.dist 1) [] (.ret (.pair (.var 1) (.add (.var 1) (.const 10))))))

def lawExCondScan : GF := .scan lawExCondStep 2

def lawExCondScanArgs : List Val := [.num 1, Val.ofList [.num 0, .num 0]]

def lawExCondScanX (a b : Rat) : CM :=
  .lanes (.cons "" (.node (.cons "x" (.leaf (.num a)) .nil))
    (.cons "" (.node (.cons "x" (.leaf (.num b)) .nil)) .nil))

/-- step 1 unconstrained (empty dict), step 2 constrained to `x = 1` -/
def lawExCondScanC : CM :=
  .lanes (.cons "" (.node .nil) (.cons "" (.node (.cons "x" (.leaf (.num 1)) .nil)) .nil))

/-- Same-shape Cond UNDER SCAN: all hypotheses of `C02_generate_unbiased` / `C02_generate_pointwise`
    hold and both sides are computed.  Step 1 takes the true branch (`x₁ = 1` w.p. 1/4); step 2 takes
    the true branch if `x₁ = 1` (then `P(x₂ = 1) = 1/4`) and the false branch otherwise
    (`P(x₂ = 1) = 1/3`): `E[w] = 1/4·1/4 + 3/4·1/3 = 5/16 = P(x₂ = 1)`; and pointwise at
    `y = (x₁, x₂) = (0, 1)`: `E[w·1{choices = y}] = 3/4·1/3 = 1/4 = assessP y`, at `y = (0, 2)` (not a
    completion) both sides are 0. -/
example : lawExPD.WF ∧ lawExPD.Normalised ∧ lawExCondScan.condOK = true ∧
    lawExCondScan.vmapOK Cfg.asis = true ∧
    lawExCondScan.skel = some (lawExCondScanX 0 1).skel ∧
    E (lawExCondScan.generateD lawExPD lawExP Cfg.asis (some lawExCondScanC) lawExCondScanArgs)
      (optK fun tw => tw.2) = 5/16 ∧
    E (lawExCondScan.simD lawExPD lawExP lawExCondScanArgs) (optK fun t => t.agS lawExCondScanC)
      = 5/16 ∧
    E (lawExCondScan.generateD lawExPD lawExP Cfg.asis (some lawExCondScanC) lawExCondScanArgs)
      (optK fun tw => if tw.1.choices = some (lawExCondScanX 0 1) then tw.2 else 0) = 1/4 ∧
    agO (some lawExCondScanC) (lawExCondScanX 0 1)
      * pmassOf (lawExCondScan.assessP lawExPD (lawExCondScanX 0 1) lawExCondScanArgs) = 1/4 ∧
    E (lawExCondScan.generateD lawExPD lawExP Cfg.asis (some lawExCondScanC) lawExCondScanArgs)
      (optK fun tw => if tw.1.choices = some (lawExCondScanX 0 2) then tw.2 else 0) = 0 ∧
    agO (some lawExCondScanC) (lawExCondScanX 0 2)
      * pmassOf (lawExCondScan.assessP lawExPD (lawExCondScanX 0 2) lawExCondScanArgs) = 0 := by
  refine ⟨lawExPD_wf, lawExPD_normalised, by decide +kernel, by decide +kernel, by decide +kernel,
    by decide +kernel, by decide +kernel, by decide +kernel, by decide +kernel, by decide +kernel,
    by decide +kernel⟩

/-- the five complete choice maps `simulate` can produce for `lawExCondScan` on `lawExCondScanArgs`
    (`x₁ ∈ {0, 1}`; `x₂ ∈ {0, 1}` after `x₁ = 1`, `x₂ ∈ {0, 1, 2}` after `x₁ = 0`) -/
def lawExCondScanYs : List CM :=
  [lawExCondScanX 0 0, lawExCondScanX 0 1, lawExCondScanX 0 2, lawExCondScanX 1 0,
   lawExCondScanX 1 1]

/-- all hypotheses of `C02_generate_unbiased_sum` on the Scan of a Cond, and the sum computed:
    `Σ_{y ⊇ x} assessP y = 3/4·1/3 + 1/4·1/4 = 5/16 = E[w]` (previous example) -/
example : lawExCondScanYs.Nodup ∧
    (∀ t, some t ∈ supp (lawExCondScan.simD lawExPD lawExP lawExCondScanArgs) →
      ∃ y ∈ lawExCondScanYs, t.choices = some y) ∧
    (∀ y ∈ lawExCondScanYs, lawExCondScan.skel = some y.skel) ∧
    sumK (lawExCondScanYs.map fun y => if y.agreeWith lawExCondScanC
      then pmassOf (lawExCondScan.assessP lawExPD y lawExCondScanArgs) else 0) = 5/16 := by
  refine ⟨by decide +kernel, covers_of_coversB _ _ (by decide +kernel), by decide +kernel,
    by decide +kernel⟩

/-- Cond at top level (`lawExCond`, false branch selected, constraint `{x: 1}`): hypotheses and both
    sides of `C02_generate_unbiased`; and `C02_generate_defined_on_completable`'s hypotheses -/
example : lawExCond.condOK = true ∧ lawExCond.noCollide = true ∧
    lawExCond.vmapOK Cfg.asis = true ∧
    lawExCond.skel = some (CM.node (.cons "x" (.leaf (.num 1)) .nil)).skel ∧
    agOb (some (.node (.cons "x" (.leaf (.num 1)) .nil)))
      (.node (.cons "x" (.leaf (.num 1)) .nil)) = true ∧
    E (lawExCond.generateD lawExPD lawExP Cfg.asis
        (some (.node (.cons "x" (.leaf (.num 1)) .nil))) [.num 0]) (optK fun tw => tw.2) = 1/3 ∧
    E (lawExCond.simD lawExPD lawExP [.num 0])
      (optK fun t => t.agS (.node (.cons "x" (.leaf (.num 1)) .nil))) = 1/3 ∧
    E (lawExCond.generateD lawExPD lawExP Cfg.asis
        (some (.node (.cons "x" (.leaf (.num 1)) .nil))) [.num 0]) (optK fun _ => (1 : ℚ)) = 1 := by
  refine ⟨by decide +kernel, by decide +kernel, by decide +kernel, by decide +kernel,
    by decide +kernel, by decide +kernel, by decide +kernel, by decide +kernel⟩

/-- `C02_generate_proper_weight` with a non-constant observable: `F(choices, retval) = retval`.
    False branch selected, `x` constrained to 1, return value `x + 10 = 11`:
    `E_gen[w · retval] = 1/3 · 11 = E_sim[1{x = 1} · retval]` -/
example :
    E (lawExCond.generateD lawExPD lawExP Cfg.asis
        (some (.node (.cons "x" (.leaf (.num 1)) .nil))) [.num 0])
      (optK fun tw => tw.2 * obsF (fun _ r => r.toRat) tw.1) = 11/3 ∧
    E (lawExCond.simD lawExPD lawExP [.num 0])
      (optK fun t => t.agT (some (.node (.cons "x" (.leaf (.num 1)) .nil)))
        * obsF (fun _ r => r.toRat) t) = 11/3 := by
  refine ⟨by decide +kernel, by decide +kernel⟩

/-- test function looking INSIDE a Cond trace: 1 if the TRUE-branch trace holds `x = 1` -/
def hiddenIsOne (t : Tr ℤ) : ℚ :=
  match t with
  | .cond _ a _ => if a.choices = some (.node (.cons "x" (.leaf (.num 1)) .nil)) then 1 else 0
  | _ => 0

/-- With a Cond, proper weighting does NOT hold against arbitrary functions of the trace (it does
    for Cond-free programs, `C02_generate_proper_weight_partial`), only against functions of the
    observable trace (`C02_generate_proper_weight`).  `lawExCond`, false branch selected, constraint
    `{x: 1}`: `generate` hands the constraint to the hidden true branch too, whose trace then holds
    `x = 1` on every run, while under `simulate` the hidden branch draws `x = 1` with probability
    `1/3`: `E_gen[w·φ] = 1/3 ≠ 1/9 = E_sim[1{agrees}·φ]` for `φ = hiddenIsOne`. -/
theorem C02_generate_hidden_branch_not_prior :
    lawExCond.condOK = true ∧
    E (lawExCond.generateD lawExPD lawExP Cfg.asis
        (some (.node (.cons "x" (.leaf (.num 1)) .nil))) [.num 0])
      (optK fun tw => tw.2 * hiddenIsOne tw.1) = 1/3 ∧
    E (lawExCond.simD lawExPD lawExP [.num 0])
      (optK fun t => t.agS (.node (.cons "x" (.leaf (.num 1)) .nil)) * hiddenIsOne t) = 1/9 := by
  refine ⟨by decide +kernel, by decide +kernel, by decide +kernel⟩

end Genjax
/-! ==============================================================================================
    END work package `c02lawcond`
    ============================================================================================== -/
