import GenjaxModel.Proofs.DistSpec
/-!
# C13 — distributions: documented parameters, normalised density, matching sampler

Partial. `Proofs/DistSpec.lean` states the documented parameterisation of ten of the 24 built-in
distributions as real-valued mass / density functions (flip takes a probability, bernoulli and
categorical logits, geometric counts failures, exponential a rate, …) and proves that each
normalises to 1 over its support, for every parameter value in the domain. The remaining
distributions, and for all 24 the agreement of `logpdf` with the documented formula and of the
sampler with that density, are established by the correspondence run only (closed forms / scipy,
KS and chi-square at α = 1e-6): sampler ↔ density is statistical support; TFP is trusted.
-/
namespace Genjax.DistSpec
open MeasureTheory

theorem C13_flip_normalised (p : ℝ) : flipPmf p true + flipPmf p false = 1 := flip_normalised p

theorem C13_bernoulli_logits_normalised (l : ℝ) :
    bernoulliLogitsPmf l true + bernoulliLogitsPmf l false = 1 := bernoulliLogits_normalised l

/-- the logits parameterisation: odds P(1)/P(0) = e^l -/
theorem C13_bernoulli_logits_odds (l : ℝ) :
    bernoulliLogitsPmf l true = Real.exp l * bernoulliLogitsPmf l false := bernoulliLogits_odds l

theorem C13_categorical_normalised {n : ℕ} (θ : Fin n → ℝ) (hn : 0 < n) :
    ∑ k, categoricalPmf θ k = 1 := categorical_normalised θ hn

/-- geometric counts failures before the first success -/
theorem C13_geometric_normalised (p : ℝ) (hp0 : 0 < p) (hp1 : p ≤ 1) :
    HasSum (geometricPmf p) 1 := geometric_normalised p hp0 hp1

theorem C13_poisson_normalised (r : ℝ) : HasSum (poissonPmf r) 1 := poisson_normalised r

theorem C13_binomial_normalised (n : ℕ) (p : ℝ) :
    ∑ k ∈ Finset.range (n + 1), binomialPmf n p k = 1 := binomial_normalised n p

/-- exponential takes a rate -/
theorem C13_exponential_normalised (r : ℝ) (hr : 0 < r) :
    ∫⁻ x, ENNReal.ofReal (exponentialPdf r x) = 1 := exponential_normalised r hr

theorem C13_uniform_normalised (a b : ℝ) (hab : a < b) :
    ∫⁻ x, ENNReal.ofReal (uniformPdf a b x) = 1 := uniform_normalised a b hab

theorem C13_normal_normalised (μ σ : ℝ) (hσ : 0 < σ) :
    ∫⁻ x, ENNReal.ofReal (normalPdf μ σ x) = 1 := normal_normalised μ σ hσ

end Genjax.DistSpec
