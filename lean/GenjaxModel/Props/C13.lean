import GenjaxModel.Proofs.DistSpec
import GenjaxModel.Proofs.DistSpec2
import GenjaxModel.Proofs.DistSpec3
import GenjaxModel.Proofs.DistSpec4
import GenjaxModel.Proofs.DistSpec5
import GenjaxModel.Proofs.DistExpr
import GenjaxModel.Proofs.DistExprVec
/-!
# C13 — distributions: documented parameters, normalised density, matching sampler

Partial: the DENSITY side (documented closed form, total mass one on the documented parameter
domain, parameter-pinning lemmas, non-negativity) is formalised for all 24 exported distributions;
the agreement of `logpdf` with the documented formula and of the sampler with that density is NOT
a Lean theorem — it is established by the correspondence run only (closed forms / scipy, KS and
chi-square at α = 1e-6): sampler ↔ density is statistical support; TFP is trusted.

The Proofs files state the DOCUMENTED parameterisation of each built-in distribution as a
real-valued mass / density function (parameters in the documented order) and prove that it
normalises to 1 over its support for every parameter value in the documented domain, together with
lemmas that pin the parameterisation (rate vs scale, covariance vs scale, which outcome is counted,
special cases) and non-negativity (so the `ENNReal.ofReal` in the statements clips nothing).

Formalised (closed form + total mass one), by file:
* `Proofs/DistSpec.lean`  — flip(p), bernoulli(logits), categorical(logits), geometric(probs)
  [failures before the first success], poisson(rate), binomial(total_count, probs),
  exponential(rate), uniform(low, high), normal(loc, scale).
* `Proofs/DistSpec2.lean` — gamma(concentration, rate), chi2(df), beta(concentration1,
  concentration0), cauchy(loc, scale), laplace(loc, scale), log_normal(loc, scale),
  half_normal(scale), inverse_gamma(concentration, scale), weibull(concentration, scale),
  student_t(df, loc, scale).
* `Proofs/DistSpec3.lean` — negative_binomial(total_count r > 0 real, probs) [successes before the
  r-th failure], multinomial(total_count, probs), zipf(power).
* `Proofs/DistSpec4.lean` — multivariate_normal(loc, covariance_matrix): any dimension, any
  positive definite covariance.
* `Proofs/DistSpec5.lean` — dirichlet(concentration): any number of components.
Not formalised as densities: none of the 24.  (bernoulli / geometric / binomial / multinomial /
negative_binomial are formalised for ONE of their alternative parameterisations — the one listed.)
-/
namespace Genjax.DistSpec
open MeasureTheory

theorem C13_flip_normalised (p : ℝ) : flipPmf p true + flipPmf p false = 1 := flip_normalised p

theorem C13_bernoulli_logits_normalised (l : ℝ) :
    bernoulliLogitsPmf l true + bernoulliLogitsPmf l false = 1 := bernoulliLogits_normalised l

/-- the logits parameterisation: odds P(1)/P(0) = e^l -/
theorem C13_bernoulli_logits_odds (l : ℝ) :
    bernoulliLogitsPmf l true = Real.exp l * bernoulliLogitsPmf l false := bernoulliLogits_odds l

theorem C13_categorical_normalised {n : ℕ} (θ : Fin n → ℝ) (hn : 0 < n) :
    ∑ k, categoricalPmf θ k = 1 := categorical_normalised θ hn

/-- geometric counts failures before the first success -/
theorem C13_geometric_normalised (p : ℝ) (hp0 : 0 < p) (hp1 : p ≤ 1) :
    HasSum (geometricPmf p) 1 := geometric_normalised p hp0 hp1

theorem C13_poisson_normalised (r : ℝ) : HasSum (poissonPmf r) 1 := poisson_normalised r

theorem C13_binomial_normalised (n : ℕ) (p : ℝ) :
    ∑ k ∈ Finset.range (n + 1), binomialPmf n p k = 1 := binomial_normalised n p

/-- exponential takes a rate -/
theorem C13_exponential_normalised (r : ℝ) (hr : 0 < r) :
    ∫⁻ x, ENNReal.ofReal (exponentialPdf r x) = 1 := exponential_normalised r hr

theorem C13_uniform_normalised (a b : ℝ) (hab : a < b) :
    ∫⁻ x, ENNReal.ofReal (uniformPdf a b x) = 1 := uniform_normalised a b hab

theorem C13_normal_normalised (μ σ : ℝ) (hσ : 0 < σ) :
    ∫⁻ x, ENNReal.ofReal (normalPdf μ σ x) = 1 := normal_normalised μ σ hσ


/-! ## Part 2: further continuous distributions (Proofs/DistSpec2.lean) -/

/-- gamma(concentration α, rate β): β^α/Γ(α) x^{α−1} e^{−βx} on x > 0 has total mass one -/
theorem C13_gamma_normalised (a r : ℝ) (ha : 0 < a) (hr : 0 < r) :
    ∫⁻ x, ENNReal.ofReal (gammaPdf a r x) = 1 := gamma_normalised a r ha hr
example : ∫⁻ x, ENNReal.ofReal (gammaPdf 2 (3 / 2) x) = 1 :=
  C13_gamma_normalised 2 (3 / 2) (by norm_num) (by norm_num)

/-- the second gamma parameter is a RATE: X ~ gamma(α, β) iff βX ~ gamma(α, 1) -/
theorem C13_gamma_param_rate (a r x : ℝ) (hr : 0 < r) :
    gammaPdf a r x = r * gammaPdf a 1 (r * x) := gamma_rate_scaling a r x hr

theorem C13_gamma_nonneg (a r x : ℝ) (ha : 0 < a) (hr : 0 < r) : 0 ≤ gammaPdf a r x :=
  gammaPdf_nonneg a r x ha hr

/-- chi2(df k): 1/(2^{k/2} Γ(k/2)) x^{k/2−1} e^{−x/2} on x > 0 has total mass one -/
theorem C13_chi2_normalised (k : ℝ) (hk : 0 < k) :
    ∫⁻ x, ENNReal.ofReal (chi2Pdf k x) = 1 := chi2_normalised k hk
example : ∫⁻ x, ENNReal.ofReal (chi2Pdf 3 x) = 1 := C13_chi2_normalised 3 (by norm_num)

/-- chi2(k) = gamma(k/2, rate 1/2) -/
theorem C13_chi2_param_gamma (k x : ℝ) : chi2Pdf k x = gammaPdf (k / 2) (1 / 2) x :=
  chi2_eq_gamma k x

theorem C13_chi2_nonneg (k x : ℝ) (hk : 0 < k) : 0 ≤ chi2Pdf k x := chi2Pdf_nonneg k x hk

/-- beta(concentration1 α, concentration0 β): Γ(α+β)/(Γ(α)Γ(β)) x^{α−1}(1−x)^{β−1} on (0,1) -/
theorem C13_beta_normalised (a b : ℝ) (ha : 0 < a) (hb : 0 < b) :
    ∫⁻ x, ENNReal.ofReal (betaPdf a b x) = 1 := beta_normalised a b ha hb
example : ∫⁻ x, ENNReal.ofReal (betaPdf (7 / 10) 2 x) = 1 :=
  C13_beta_normalised (7 / 10) 2 (by norm_num) (by norm_num)

/-- the first parameter (concentration1) belongs to `x`, the second (concentration0) to `1 − x` -/
theorem C13_beta_param_swap (a b x : ℝ) : betaPdf a b x = betaPdf b a (1 - x) := beta_swap a b x

theorem C13_beta_nonneg (a b x : ℝ) (ha : 0 < a) (hb : 0 < b) : 0 ≤ betaPdf a b x :=
  betaPdf_nonneg a b x ha hb

/-- cauchy(loc x₀, scale γ): 1/(πγ(1+((x−x₀)/γ)²)) -/
theorem C13_cauchy_normalised (x₀ γ : ℝ) (hγ : 0 < γ) :
    ∫⁻ x, ENNReal.ofReal (cauchyPdf x₀ γ x) = 1 := cauchy_normalised x₀ γ hγ
example : ∫⁻ x, ENNReal.ofReal (cauchyPdf (3 / 10) (4 / 5) x) = 1 :=
  C13_cauchy_normalised _ _ (by norm_num)

theorem C13_cauchy_param_loc_scale (x₀ γ x : ℝ) :
    cauchyPdf x₀ γ x = 1 / γ * cauchyPdf 0 1 ((x - x₀) / γ) := cauchy_loc_scale x₀ γ x

theorem C13_cauchy_nonneg (x₀ γ x : ℝ) (hγ : 0 < γ) : 0 ≤ cauchyPdf x₀ γ x :=
  cauchyPdf_nonneg x₀ γ x hγ

/-- laplace(loc μ, scale b): 1/(2b) e^{−|x−μ|/b} -/
theorem C13_laplace_normalised (μ b : ℝ) (hb : 0 < b) :
    ∫⁻ x, ENNReal.ofReal (laplacePdf μ b x) = 1 := laplace_normalised μ b hb
example : ∫⁻ x, ENNReal.ofReal (laplacePdf (1 / 2) (6 / 5) x) = 1 :=
  C13_laplace_normalised _ _ (by norm_num)

/-- laplace takes a scale (not a rate) -/
theorem C13_laplace_param_loc_scale (μ b x : ℝ) (hb : 0 < b) :
    laplacePdf μ b x = 1 / b * laplacePdf 0 1 ((x - μ) / b) := laplace_loc_scale μ b x hb

theorem C13_laplace_nonneg (μ b x : ℝ) (hb : 0 < b) : 0 ≤ laplacePdf μ b x :=
  laplacePdf_nonneg μ b x hb

/-- log_normal(loc μ, scale σ): 1/(xσ√(2π)) e^{−(ln x−μ)²/(2σ²)} on x > 0 -/
theorem C13_log_normal_normalised (μ σ : ℝ) (hσ : 0 < σ) :
    ∫⁻ x, ENNReal.ofReal (logNormalPdf μ σ x) = 1 := logNormal_normalised μ σ hσ
example : ∫⁻ x, ENNReal.ofReal (logNormalPdf (1 / 5) (3 / 5) x) = 1 :=
  C13_log_normal_normalised _ _ (by norm_num)

/-- loc and scale are those of the underlying normal: density of exp(Y), Y ~ normal(μ, σ) -/
theorem C13_log_normal_param_log (μ σ x : ℝ) (hσ : 0 < σ) (hx : 0 < x) :
    logNormalPdf μ σ x = normalPdf μ σ (Real.log x) / x := logNormal_eq_normal_log μ σ x hσ hx

theorem C13_log_normal_nonneg (μ σ x : ℝ) (hσ : 0 < σ) : 0 ≤ logNormalPdf μ σ x :=
  logNormalPdf_nonneg μ σ x hσ

/-- half_normal(scale σ): √2/(σ√π) e^{−x²/(2σ²)} on x ≥ 0 -/
theorem C13_half_normal_normalised (σ : ℝ) (hσ : 0 < σ) :
    ∫⁻ x, ENNReal.ofReal (halfNormalPdf σ x) = 1 := halfNormal_normalised σ hσ
example : ∫⁻ x, ENNReal.ofReal (halfNormalPdf (13 / 10) x) = 1 :=
  C13_half_normal_normalised _ (by norm_num)

/-- the scale is the standard deviation of the underlying normal: |Y|, Y ~ normal(0, σ) -/
theorem C13_half_normal_param_normal (σ x : ℝ) (hσ : 0 < σ) (hx : 0 ≤ x) :
    halfNormalPdf σ x = 2 * normalPdf 0 σ x := halfNormal_eq_two_mul_normal σ x hσ hx

theorem C13_half_normal_nonneg (σ x : ℝ) (hσ : 0 < σ) : 0 ≤ halfNormalPdf σ x :=
  halfNormalPdf_nonneg σ x hσ

/-- inverse_gamma(concentration α, scale β): β^α/Γ(α) x^{−α−1} e^{−β/x} on x > 0 -/
theorem C13_inverse_gamma_normalised (a b : ℝ) (ha : 0 < a) (hb : 0 < b) :
    ∫⁻ x, ENNReal.ofReal (inverseGammaPdf a b x) = 1 := inverseGamma_normalised a b ha hb
example : ∫⁻ x, ENNReal.ofReal (inverseGammaPdf 3 2 x) = 1 :=
  C13_inverse_gamma_normalised 3 2 (by norm_num) (by norm_num)

/-- density of 1/Y for Y ~ gamma(α, rate β): the second parameter is a SCALE of the inverse gamma -/
theorem C13_inverse_gamma_param_gamma (a b x : ℝ) (hx : 0 < x) :
    inverseGammaPdf a b x = gammaPdf a b (1 / x) / x ^ 2 := inverseGamma_eq_gamma_inv a b x hx

theorem C13_inverse_gamma_nonneg (a b x : ℝ) (ha : 0 < a) (hb : 0 < b) :
    0 ≤ inverseGammaPdf a b x := inverseGammaPdf_nonneg a b x ha hb

/-- weibull(concentration k, scale λ): (k/λ)(x/λ)^{k−1} e^{−(x/λ)^k} on x ≥ 0 -/
theorem C13_weibull_normalised (k l : ℝ) (hk : 0 < k) (hl : 0 < l) :
    ∫⁻ x, ENNReal.ofReal (weibullPdf k l x) = 1 := weibull_normalised k l hk hl
example : ∫⁻ x, ENNReal.ofReal (weibullPdf (3 / 2) 2 x) = 1 :=
  C13_weibull_normalised _ _ (by norm_num) (by norm_num)

/-- the second parameter is a SCALE: weibull(1, λ) = exponential(rate 1/λ) -/
theorem C13_weibull_param_exponential (l x : ℝ) :
    weibullPdf 1 l x = exponentialPdf (1 / l) x := weibull_one_eq_exponential l x

theorem C13_weibull_nonneg (k l x : ℝ) (hk : 0 < k) (hl : 0 < l) : 0 ≤ weibullPdf k l x :=
  weibullPdf_nonneg k l x hk hl

/-- student_t(df ν, loc μ, scale σ):
Γ((ν+1)/2)/(Γ(ν/2)√(νπ)σ) (1+((x−μ)/σ)²/ν)^{−(ν+1)/2} -/
theorem C13_student_t_normalised (ν μ σ : ℝ) (hν : 0 < ν) (hσ : 0 < σ) :
    ∫⁻ x, ENNReal.ofReal (studentTPdf ν μ σ x) = 1 := studentT_normalised ν μ σ hν hσ
example : ∫⁻ x, ENNReal.ofReal (studentTPdf 4 (1 / 2) (3 / 2) x) = 1 :=
  C13_student_t_normalised _ _ _ (by norm_num) (by norm_num)

/-- parameter order (df, loc, scale): X = μ + σT with T standard Student t(ν) -/
theorem C13_student_t_param_loc_scale (ν μ σ x : ℝ) :
    studentTPdf ν μ σ x = 1 / σ * studentTStd ν ((x - μ) / σ) := studentT_eq_std ν μ σ x

/-- ν = 1 is cauchy(loc, scale) -/
theorem C13_student_t_param_cauchy (μ σ x : ℝ) : studentTPdf 1 μ σ x = cauchyPdf μ σ x :=
  studentT_one_eq_cauchy μ σ x

theorem C13_student_t_nonneg (ν μ σ x : ℝ) (hν : 0 < ν) (hσ : 0 < σ) :
    0 ≤ studentTPdf ν μ σ x := studentTPdf_nonneg ν μ σ x hν hσ

/-- normal takes a standard deviation (scale), not a variance -/
theorem C13_normal_param_loc_scale (μ σ x : ℝ) (hσ : 0 < σ) :
    normalPdf μ σ x = 1 / σ * normalPdf 0 1 ((x - μ) / σ) := normal_loc_scale μ σ x hσ

/-! ## Part 3: further discrete distributions (Proofs/DistSpec3.lean) -/

/-- negative_binomial(total_count r, probs p): P(k) = C(k+r−1, k) p^k (1−p)^r — the number of
successes (probability p) before the r-th failure; r any real (documented: r > 0), 0 ≤ p < 1 -/
theorem C13_negative_binomial_normalised (r p : ℝ) (hp0 : 0 ≤ p) (hp1 : p < 1) :
    HasSum (negativeBinomialPmf r p) 1 := negativeBinomial_normalised r p hp0 hp1
example : HasSum (negativeBinomialPmf 3 (2 / 5)) 1 :=
  C13_negative_binomial_normalised 3 (2 / 5) (by norm_num) (by norm_num)

/-- integer total_count: the ordinary binomial coefficient C(k+r−1, k) -/
theorem C13_negative_binomial_param_nat (r : ℕ) (hr : 0 < r) (p : ℝ) (k : ℕ) :
    negativeBinomialPmf r p k = ((k + r - 1).choose k : ℝ) * p ^ k * (1 - p) ^ r :=
  negativeBinomial_nat r hr p k

/-- the Γ form evaluated by TFP: Γ(k+r)/(k! Γ(r)) p^k (1−p)^r -/
theorem C13_negative_binomial_param_Gamma (r p : ℝ) (hr : 0 < r) (k : ℕ) :
    negativeBinomialPmf r p k =
      Real.Gamma (k + r) / (k.factorial * Real.Gamma r) * p ^ k * (1 - p) ^ r :=
  negativeBinomial_eq_Gamma r p hr k

theorem C13_negative_binomial_nonneg (r p : ℝ) (hr : 0 < r) (hp0 : 0 ≤ p) (hp1 : p < 1) (k : ℕ) :
    0 ≤ negativeBinomialPmf r p k := negativeBinomialPmf_nonneg r p hr hp0 hp1 k

/-- multinomial(total_count n, probs p): n!/(k₁!…k_m!) ∏ p_i^{k_i} on count vectors adding up to n
(zero elsewhere) has total mass one over ALL count vectors -/
theorem C13_multinomial_normalised {m : ℕ} (n : ℕ) (p : Fin m → ℝ) (hp : ∑ i, p i = 1) :
    HasSum (multinomialPmf n p) 1 := multinomial_normalised n p hp
example : HasSum (multinomialPmf 4 ![1 / 5, 1 / 2, 3 / 10]) 1 :=
  C13_multinomial_normalised 4 _ (by simp [Fin.sum_univ_three]; norm_num)

/-- the same as a finite sum over the count vectors with total n -/
theorem C13_multinomial_normalised_finset {m : ℕ} (n : ℕ) (p : Fin m → ℝ) (hp : ∑ i, p i = 1) :
    ∑ k ∈ Finset.piAntidiag Finset.univ n, multinomialPmf n p k = 1 :=
  multinomial_normalised_finset n p hp

/-- two categories: binomial(n, p) -/
theorem C13_multinomial_param_binomial (n : ℕ) (p : ℝ) (k : ℕ) (hk : k ≤ n) :
    multinomialPmf n ![p, 1 - p] ![k, n - k] = binomialPmf n p k :=
  multinomial_two_eq_binomial n p k hk

theorem C13_multinomial_nonneg {m : ℕ} (n : ℕ) (p : Fin m → ℝ) (hp : ∀ i, 0 ≤ p i)
    (k : Fin m → ℕ) : 0 ≤ multinomialPmf n p k := multinomialPmf_nonneg n p hp k

/-- zipf(power s): P(k) = k^{−s}/ζ(s) on k = 1, 2, … (ζ = Mathlib's Riemann zeta) -/
theorem C13_zipf_normalised (s : ℝ) (hs : 1 < s) : HasSum (zipfPmf s) 1 := zipf_normalised s hs
example : HasSum (zipfPmf (5 / 2)) 1 := C13_zipf_normalised _ (by norm_num)

/-- the normalising constant is the Dirichlet series Σ_{n ≥ 1} n^{−s} -/
theorem C13_zipf_param_zeta (s : ℝ) (hs : 1 < s) :
    (riemannZeta (s : ℂ)).re = ∑' n : ℕ, 1 / (n : ℝ) ^ s := zeta_re_eq_tsum s hs

theorem C13_zipf_nonneg (s : ℝ) (hs : 1 < s) (k : ℕ) : 0 ≤ zipfPmf s k := zipfPmf_nonneg s hs k

/-! ## Part 4: multivariate normal (Proofs/DistSpec4.lean) -/

/-- multivariate_normal(loc μ, covariance_matrix Σ):
(2π)^{−k/2} |det Σ|^{−1/2} exp(−½ (x−μ)ᵀ Σ⁻¹ (x−μ)) has total mass one on ℝ^k for every positive
definite Σ -/
theorem C13_multivariate_normal_normalised {k : ℕ} (μ : Fin k → ℝ)
    (S : Matrix (Fin k) (Fin k) ℝ) (hS : S.PosDef) :
    ∫⁻ x, ENNReal.ofReal (multivariateNormalPdf μ S x) = 1 := multivariateNormal_normalised μ S hS
example : (Matrix.diagonal ![1, 2] : Matrix (Fin 2) (Fin 2) ℝ).PosDef :=
  Matrix.PosDef.diagonal (by intro i; fin_cases i <;> simp)
example : ((!![1, 3 / 5; 0, 1] : Matrix (Fin 2) (Fin 2) ℝ).transpose * !![1, 3 / 5; 0, 1]).PosDef := by
  apply Matrix.PosDef.conjTranspose_mul_self
  apply Matrix.mulVec_injective_of_isUnit
  exact (Matrix.isUnit_iff_isUnit_det (!![1, 3 / 5; 0, 1] : Matrix (Fin 2) (Fin 2) ℝ)).mpr
    (by simp [Matrix.det_fin_two])

/-- the matrix argument is a COVARIANCE: diag(σ_i²) gives independent normal(μ_i, σ_i) -/
theorem C13_multivariate_normal_param_diagonal {k : ℕ} (μ σ : Fin k → ℝ) (hσ : ∀ i, 0 < σ i)
    (x : Fin k → ℝ) :
    multivariateNormalPdf μ (Matrix.diagonal fun i => σ i ^ 2) x =
      ∏ i, normalPdf (μ i) (σ i) (x i) := multivariateNormal_diagonal μ σ hσ x

theorem C13_multivariate_normal_nonneg {k : ℕ} (μ : Fin k → ℝ) (S : Matrix (Fin k) (Fin k) ℝ)
    (x : Fin k → ℝ) : 0 ≤ multivariateNormalPdf μ S x := multivariateNormalPdf_nonneg μ S x

/-! ## Part 5: dirichlet (Proofs/DistSpec5.lean) -/

/-- dirichlet(concentration α), α : Fin (n+1) → ℝ all positive:
Γ(Σα)/∏Γ(α_i) ∏ x_i^{α_i−1} has total mass one on the probability simplex, charted by its first n
coordinates (last coordinate 1 − Σ y) with Lebesgue measure in the chart (TFP / scipy convention) -/
theorem C13_dirichlet_normalised {n : ℕ} (α : Fin (n + 1) → ℝ) (hα : ∀ i, 0 < α i) :
    ∫⁻ y in {y : Fin n → ℝ | (∀ i, 0 < y i) ∧ ∑ i, y i < 1},
      ENNReal.ofReal (dirichletPdf α (Fin.snoc y (1 - ∑ i, y i))) = 1 := dirichlet_normalised α hα
example : ∫⁻ y in {y : Fin 2 → ℝ | (∀ i, 0 < y i) ∧ ∑ i, y i < 1},
    ENNReal.ofReal (dirichletPdf ![3 / 2, 2, 4 / 5] (Fin.snoc y (1 - ∑ i, y i))) = 1 :=
  C13_dirichlet_normalised _ (by intro i; fin_cases i <;> simp)

/-- two components: dirichlet(a, b) at (t, 1−t) = beta(concentration1 a, concentration0 b) at t -/
theorem C13_dirichlet_param_beta (a b t : ℝ) (ht : 0 < t ∧ t < 1) :
    dirichletPdf ![a, b] ![t, 1 - t] = betaPdf a b t := dirichlet_two_eq_beta a b t ht

theorem C13_dirichlet_nonneg {k : ℕ} (α x : Fin k → ℝ) (hα : ∀ i, 0 < α i) (hx : ∀ i, 0 ≤ x i) :
    0 ≤ dirichletPdf α x := dirichletPdf_nonneg α x hα hx

/-! ## Part 6: the executable spec table (Model/DistExpr.lean) denotes these densities

`DistExpr.specTable` (Mathlib-free, printed by the driver command `(distspec)`) holds one closed
expression term per distribution.  The theorems below say that the real-valued denotation
(`DE.denote` / `DE.denoteV`, Proofs/DistExpr.lean) of the printed term IS the density whose
normalisation is proved above — for all real parameter values and all points, no side conditions.
The Python side (`distspec_eval.py`) evaluates the printed terms clause by clause like `denoteV`
and compares them with `dist.logpdf`; so the chain is
`genjax logpdf ≈ (numerically) printed term = (theorem) <name>Pdf`, `∫ <name>Pdf = 1` (theorem).
Discrete points are embedded into ℝ: `k ↦ (k : ℝ)`, `b ↦ boolPt b` (`true ↦ 1`, `false ↦ 0`).
Which term is printed under which name: `DistExpr.specLookup_table`. -/
section SpecTable
open DE DistExpr

theorem C13_spec_bernoulli_denotes (l : ℝ) (b : Bool) :
    spec_bernoulli.denote [l] (boolPt b) = bernoulliLogitsPmf l b := spec_bernoulli_denotes l b

theorem C13_spec_flip_denotes (p : ℝ) (b : Bool) :
    spec_flip.denote [p] (boolPt b) = flipPmf p b := spec_flip_denotes p b

theorem C13_spec_beta_denotes (a b x : ℝ) : spec_beta.denote [a, b] x = betaPdf a b x :=
  spec_beta_denotes a b x

theorem C13_spec_geometric_denotes (p : ℝ) (k : ℕ) :
    spec_geometric.denote [p] (k : ℝ) = geometricPmf p k := spec_geometric_denotes p k

theorem C13_spec_normal_denotes (μ σ x : ℝ) : spec_normal.denote [μ, σ] x = normalPdf μ σ x :=
  spec_normal_denotes μ σ x

theorem C13_spec_uniform_denotes (a b x : ℝ) : spec_uniform.denote [a, b] x = uniformPdf a b x :=
  spec_uniform_denotes a b x

theorem C13_spec_exponential_denotes (r x : ℝ) :
    spec_exponential.denote [r] x = exponentialPdf r x := spec_exponential_denotes r x

theorem C13_spec_poisson_denotes (r : ℝ) (k : ℕ) :
    spec_poisson.denote [r] (k : ℝ) = poissonPmf r k := spec_poisson_denotes r k

/-- total_count is passed as the real number `(n : ℝ)`; beyond `k = n` the term is 0 like `C(n,k)` -/
theorem C13_spec_binomial_denotes (n : ℕ) (p : ℝ) (k : ℕ) :
    spec_binomial.denote [(n : ℝ), p] (k : ℝ) = binomialPmf n p k := spec_binomial_denotes n p k

theorem C13_spec_gamma_denotes (a r x : ℝ) : spec_gamma.denote [a, r] x = gammaPdf a r x :=
  spec_gamma_denotes a r x

theorem C13_spec_log_normal_denotes (μ σ x : ℝ) :
    spec_log_normal.denote [μ, σ] x = logNormalPdf μ σ x := spec_log_normal_denotes μ σ x

theorem C13_spec_student_t_denotes (ν μ σ x : ℝ) :
    spec_student_t.denote [ν, μ, σ] x = studentTPdf ν μ σ x := spec_student_t_denotes ν μ σ x

theorem C13_spec_laplace_denotes (μ b x : ℝ) : spec_laplace.denote [μ, b] x = laplacePdf μ b x :=
  spec_laplace_denotes μ b x

theorem C13_spec_half_normal_denotes (σ x : ℝ) :
    spec_half_normal.denote [σ] x = halfNormalPdf σ x := spec_half_normal_denotes σ x

theorem C13_spec_inverse_gamma_denotes (a b x : ℝ) :
    spec_inverse_gamma.denote [a, b] x = inverseGammaPdf a b x := spec_inverse_gamma_denotes a b x

theorem C13_spec_weibull_denotes (k l x : ℝ) : spec_weibull.denote [k, l] x = weibullPdf k l x :=
  spec_weibull_denotes k l x

theorem C13_spec_cauchy_denotes (x₀ γ x : ℝ) : spec_cauchy.denote [x₀, γ] x = cauchyPdf x₀ γ x :=
  spec_cauchy_denotes x₀ γ x

theorem C13_spec_chi2_denotes (k x : ℝ) : spec_chi2.denote [k] x = chi2Pdf k x :=
  spec_chi2_denotes k x

theorem C13_spec_negative_binomial_denotes (r p : ℝ) (k : ℕ) :
    spec_negative_binomial.denote [r, p] (k : ℝ) = negativeBinomialPmf r p k :=
  spec_negative_binomial_denotes r p k

theorem C13_spec_zipf_denotes (s : ℝ) (k : ℕ) : spec_zipf.denote [s] (k : ℝ) = zipfPmf s k :=
  spec_zipf_denotes s k

/-- categorical with 3 categories: parameters are the three logits, the point is the index -/
theorem C13_spec_categorical_denotes (θ : Fin 3 → ℝ) (k : Fin 3) :
    spec_categorical3.denote [θ 0, θ 1, θ 2] ((k : ℕ) : ℝ) = categoricalPmf θ k :=
  spec_categorical3_denotes θ k

/-- multinomial with 3 categories: parameters `[n, p₀, p₁, p₂]`, point `(k₀, k₁, k₂)` -/
theorem C13_spec_multinomial_denotes (n : ℕ) (p : Fin 3 → ℝ) (k : Fin 3 → ℕ) :
    spec_multinomial3.denoteV [(n : ℝ), p 0, p 1, p 2] [(k 0 : ℝ), (k 1 : ℝ), (k 2 : ℝ)] =
      multinomialPmf n p k := spec_multinomial3_denotes n p k

/-- dirichlet with 3 components -/
theorem C13_spec_dirichlet_denotes (α x : Fin 3 → ℝ) :
    spec_dirichlet3.denoteV [α 0, α 1, α 2] [x 0, x 1, x 2] = dirichletPdf α x :=
  spec_dirichlet3_denotes α x

/-- multivariate_normal in dimension 2: parameters `[μ₀, μ₁, S₀₀, S₀₁, S₁₀, S₁₁]` (row-major
covariance), ANY 2×2 matrix `S` (for singular `S` both sides use `S⁻¹ = 0`, `0^(-1/2) = 0`) -/
theorem C13_spec_multivariate_normal_denotes (μ x : Fin 2 → ℝ) (S : Matrix (Fin 2) (Fin 2) ℝ) :
    spec_multivariate_normal2.denoteV [μ 0, μ 1, S 0 0, S 0 1, S 1 0, S 1 1] [x 0, x 1] =
      multivariateNormalPdf μ S x := spec_multivariate_normal2_denotes μ x S

/-! the denotation is not trivial: concrete values of printed terms -/
example : spec_flip.denote [1 / 4] (boolPt true) = 1 / 4 := by
  rw [C13_spec_flip_denotes]; simp [flipPmf]
example : spec_exponential.denote [2] 0 = 2 := by
  rw [C13_spec_exponential_denotes]; simp [exponentialPdf]
example : spec_uniform.denote [1, 3] 2 = 1 / 2 := by
  rw [C13_spec_uniform_denotes]; norm_num [uniformPdf]
example : spec_uniform.denote [1, 3] 4 = 0 := by
  rw [C13_spec_uniform_denotes]; norm_num [uniformPdf]
example : spec_geometric.denote [1 / 2] ((2 : ℕ) : ℝ) = 1 / 8 := by
  rw [C13_spec_geometric_denotes]; norm_num [geometricPmf]
example : spec_binomial.denote [((3 : ℕ) : ℝ), 1 / 2] ((1 : ℕ) : ℝ) = 3 / 8 := by
  rw [C13_spec_binomial_denotes]; norm_num [binomialPmf, Nat.choose]

/-! consequently the PRINTED terms have total mass one (the statement the Python check relies on);
spelled out for one entry of each kind — the others follow in the same way from
`C13_spec_<name>_denotes` and `C13_<name>_normalised`. -/

theorem C13_spec_gamma_normalised (a r : ℝ) (ha : 0 < a) (hr : 0 < r) :
    ∫⁻ x, ENNReal.ofReal (spec_gamma.denote [a, r] x) = 1 := by
  simp only [C13_spec_gamma_denotes]; exact gamma_normalised a r ha hr
example : ∫⁻ x, ENNReal.ofReal (spec_gamma.denote [2, 3 / 2] x) = 1 :=
  C13_spec_gamma_normalised 2 (3 / 2) (by norm_num) (by norm_num)

theorem C13_spec_normal_normalised (μ σ : ℝ) (hσ : 0 < σ) :
    ∫⁻ x, ENNReal.ofReal (spec_normal.denote [μ, σ] x) = 1 := by
  simp only [C13_spec_normal_denotes]; exact normal_normalised μ σ hσ
example : ∫⁻ x, ENNReal.ofReal (spec_normal.denote [-2, 3 / 10] x) = 1 :=
  C13_spec_normal_normalised _ _ (by norm_num)

theorem C13_spec_poisson_normalised (r : ℝ) :
    HasSum (fun k : ℕ => spec_poisson.denote [r] (k : ℝ)) 1 := by
  simp only [C13_spec_poisson_denotes]; exact poisson_normalised r

theorem C13_spec_flip_normalised (p : ℝ) :
    spec_flip.denote [p] (boolPt true) + spec_flip.denote [p] (boolPt false) = 1 := by
  simp only [C13_spec_flip_denotes]; exact flip_normalised p

end SpecTable

end Genjax.DistSpec
