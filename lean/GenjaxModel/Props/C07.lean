import GenjaxModel.Proofs.Seed
import GenjaxModel.Proofs.SeedVec
/-!
# C07 — every sample site of a seeded run gets its own randomness

Model `Model/Seed.lean`: the key threading of the Seed interpreter in the free algebra of
`split` / `fold_in`. What is proved: in one run no two sites (across statements, scan iterations,
nested scans, conds inside scans, …) are handed the same key, and no site key is derived from
another site's key. That distinct threefry keys give statistically independent streams, and that
each sampler draws from its distribution, is the PRNG/TFP contract (trusted; calibrated tests in
the thorough tier).
-/
namespace Genjax.Seed

theorem C07_site_keys_distinct (p : Prog) : ((siteKeys p).map fun e => e.2.2).Nodup :=
  siteKeys_nodup p

theorem C07_no_site_key_derived_from_another (p : Prog) (a b : Nat × List Nat × KP)
    (ha : a ∈ siteKeys p) (hb : b ∈ siteKeys p) (hne : a.2.2 ≠ b.2.2) :
    KP.under a.2.2 b.2.2 = false := siteKeys_no_ancestor p a b ha hb hne

/-- keys are strictly below the run's root key; the running key only moves down -/
theorem C07_keys_below_root (p : Prog) (k : KP) (it : List Nat) :
    (∀ e ∈ (p.keys k it).1, KP.under k e.2.2 = true ∧ e.2.2 ≠ k) ∧ KP.under k (p.keys k it).2 = true :=
  keys_below p k it

/-- one key per scan iteration of a site -/
theorem C07_scan_site_count (id n : Nat) :
    (siteKeys (.cons (.scan (.cons (.site id) .nil) n) .nil)).length = n := scan_site_count id n

/-- non-vacuity: a nested program and its (pairwise distinct) keys -/
example : (siteKeys (.cons (.site 1) (.cons (.scan (.cons (.site 2) (.cons (.cond (.cons (.site 3) .nil)) .nil)) 2)
            (.cons (.site 4) .nil)))).length = 6 := by decide


/-! ## Vectorised sites (sites under `modular_vmap`)

`Model/SeedVec.lean`: programs `VProg` whose sites carry their own `sample_shape` and the list of
enclosing vmap levels (size, is a parameter batched at that level), `rebind` = one application of
the sample batching rule, `VProg.calls` = the sampler calls Seed performs, `VProg.erase` = the
program Seed sees (`Model/Seed.lean`, every vectorised site is one `site`). That distinct
positions of ONE keyful sampler call are independent draws is the sampler contract (trusted,
calibrated in the thorough tier by the correlation tests of the harness). -/

/-- a vectorised site is handed exactly ONE key and causes exactly ONE sampler call, whatever the
    number and sizes of the enclosing vmaps (lanes do not get keys of their own), and the running
    key advances exactly as for an ordinary site -/
theorem C07_vectorised_site_one_key (id : Nat) (levels : List Level) (own : List Nat) (k : KP)
    (it : List Nat) :
    ((VStmt.vsite id levels own).calls k it).1.length = 1 ∧
    ((VStmt.vsite id levels own).calls k it).1.map Call.entry = ((Stmt.site id).keys k it).1 ∧
    ((VStmt.vsite id levels own).calls k it).2 = ((Stmt.site id).keys k it).2 := by
  rw [vsite_calls]
  exact ⟨rfl, rfl, rfl⟩

/-- the one call's `sample_shape` is (sizes of the unbatched levels, outermost first) ++ the site's
    own sample_shape — for a nest of `in_axes=()` vmaps / `repeat`s: `lanes ++ own` — and the
    returned array has shape sample_shape ++ (sizes of the batched levels), i.e. one entry per
    (lane, own position); for one level this is the layout of `Vmap.ruleOut`, the declared axis is
    the true lane axis, and moving it to the front leaves every lane an array of the own shape -/
theorem C07_vectorised_site_shape (id : Nat) (levels : List Level) (own : List Nat) (k : KP)
    (it : List Nat) :
    ((VStmt.vsite id levels own).calls k it).1.map (fun c => (c.sampleShape, c.retShape))
      = [(unbSizes levels ++ own, unbSizes levels ++ own ++ batSizes levels)] ∧
    (∀ lanes : List Nat, unbSizes (lanes.map fun n => (n, false)) ++ own = lanes ++ own ∧
      batSizes (lanes.map fun n => (n, false)) = []) ∧
    (∀ (n : Nat) (b : Bool) (cfg : Vmap.Cfg),
      (rebindAll [(n, b)] own).ret = (Vmap.ruleOut cfg ⟨own, b⟩ n).1 ∧
      declaredAxis (n, b) { ss := own, pb := [] } = (Vmap.ruleOut ⟨true⟩ ⟨own, b⟩ n).2 ∧
      declaredAxis (n, b) { ss := own, pb := [] } = Vmap.laneAxis ⟨own, b⟩ ∧
      Vmap.moveFront (rebindAll [(n, b)] own).ret (declaredAxis (n, b) { ss := own, pb := [] })
        = n :: own) := by
  refine ⟨by rw [vsite_calls]; rfl, fun lanes => ?_, fun n b cfg => ?_⟩
  · rw [unbSizes_unbatched, batSizes_unbatched]; exact ⟨rfl, rfl⟩
  · obtain ⟨h1, h2, h3⟩ := rebind_one_ruleOut n b own cfg
    exact ⟨h1, h2, h3, rebind_one_moveFront n b own⟩

/-- composition with scans and conds: in any program with vectorised sites (inside scans, conds,
    nested, any lane counts) the sampler calls are exactly the sites of the erased program with
    the model's keys, hence all calls get pairwise distinct keys and no call's key is derived from
    another call's key -/
theorem C07_vectorised_keys_distinct (p : VProg) :
    (siteCalls p).map Call.entry = siteKeys p.erase ∧
    ((siteCalls p).map (·.key)).Nodup ∧
    (∀ a ∈ siteCalls p, ∀ b ∈ siteCalls p, a.key ≠ b.key → KP.under a.key b.key = false) :=
  ⟨siteCalls_entries p, siteCalls_keys_nodup p,
   fun a ha b hb hne => siteCalls_no_ancestor p a b ha hb hne⟩

/-- lanes receive DISTINCT randomness: a valid lane reads, for every own position, an entry of the
    array returned by the one call, and two different (lane, own position) pairs read different
    entries (lane coordinates: one index per level, outermost first) -/
theorem C07_vectorised_lanes_distinct (levels : List Level) (own : List Nat) :
    (∀ ls o, ValidLane levels ls → o ∈ indices own →
      lanePos levels ls o ∈ indices (rebindAll levels own).ret) ∧
    (∀ ls ls' o o', ls.length = levels.length → ls'.length = levels.length → o.length = o'.length →
      lanePos levels ls o = lanePos levels ls' o' → ls = ls' ∧ o = o') :=
  ⟨fun ls o hl ho => lanePos_mem levels own ls o hl ho,
   fun ls ls' o o' h h' ho e => lanePos_inj levels ls ls' o o' h h' ho e⟩

/-- every scalar draw of a run has its own coordinate (key of the call, position in the returned
    array): no two scalar draws — across sites, scan iterations, lanes, own positions — coincide -/
theorem C07_vectorised_draws_distinct (p : VProg) : (allDraws p).Nodup := allDraws_nodup p

/-- non-vacuity: a scan (2 iterations) around a site under vmap(3, unbatched) ∘ vmap(2, batched)
    with own sample_shape (4,): two calls with different keys, sample_shape (3,4), returned (3,4,2) -/
example :
    (siteCalls (.cons (.scan (.cons (.vsite 1 [(3, false), (2, true)] [4]) .nil) 2) .nil)).map
        (fun c => (c.iters, c.key, c.sampleShape, c.retShape))
      = [([0], .R (.fold (.R .root) 0), [3, 4], [3, 4, 2]),
         ([1], .R (.fold (.R .root) 1), [3, 4], [3, 4, 2])] := by decide

example : ValidLane [(3, false), (2, true)] [2, 1] ∧ lanePos [(3, false), (2, true)] [2, 1] [3] = [2, 3, 1] ∧
    (allDraws (.cons (.vsite 1 [(3, false), (2, true)] [4]) .nil)).length = 24 := by
  refine ⟨?_, by decide, by decide⟩
  exact List.Forall₂.cons (by decide) (List.Forall₂.cons (by decide) List.Forall₂.nil)

end Genjax.Seed
