import GenjaxModel.Proofs.Seed
/-!
# C07 — every sample site of a seeded run gets its own randomness

Model `Model/Seed.lean`: the key threading of the Seed interpreter in the free algebra of
`split` / `fold_in`. What is proved: in one run no two sites (across statements, scan iterations,
nested scans, conds inside scans, …) are handed the same key, and no site key is derived from
another site's key. That distinct threefry keys give statistically independent streams, and that
each sampler draws from its distribution, is the PRNG/TFP contract (trusted; calibrated tests in
the thorough tier).
-/
namespace Genjax.Seed

theorem C07_site_keys_distinct (p : Prog) : ((siteKeys p).map fun e => e.2.2).Nodup :=
  siteKeys_nodup p

theorem C07_no_site_key_derived_from_another (p : Prog) (a b : Nat × List Nat × KP)
    (ha : a ∈ siteKeys p) (hb : b ∈ siteKeys p) (hne : a.2.2 ≠ b.2.2) :
    KP.under a.2.2 b.2.2 = false := siteKeys_no_ancestor p a b ha hb hne

/-- keys are strictly below the run's root key; the running key only moves down -/
theorem C07_keys_below_root (p : Prog) (k : KP) (it : List Nat) :
    (∀ e ∈ (p.keys k it).1, KP.under k e.2.2 = true ∧ e.2.2 ≠ k) ∧ KP.under k (p.keys k it).2 = true :=
  keys_below p k it

/-- one key per scan iteration of a site -/
theorem C07_scan_site_count (id n : Nat) :
    (siteKeys (.cons (.scan (.cons (.site id) .nil) n) .nil)).length = n := scan_site_count id n

/-- non-vacuity: a nested program and its (pairwise distinct) keys -/
example : (siteKeys (.cons (.site 1) (.cons (.scan (.cons (.site 2) (.cons (.cond (.cons (.site 3) .nil)) .nil)) 2)
            (.cons (.site 4) .nil)))).length = 6 := by decide

end Genjax.Seed
