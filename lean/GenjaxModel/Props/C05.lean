import GenjaxModel.Proofs.GfiRegen
import GenjaxModel.Proofs.GfiAssess
import GenjaxModel.Proofs.GfiAssessCond
/-!
# C05 — traces stay coherent under any history of edits; update weights telescope
-/
namespace Genjax
variable {R : Type} [AddCommGroup R] (P : Prims R) (cfg : Cfg)

/-- any finite sequence of update / regenerate steps keeps the trace coherent under the arguments
    recorded by the last step (induction over the history) -/
theorem C05_history_coherent (g : GF) (t : Tr R) (a : List Val) (ht : g.Coh P a t) (ops : List Op)
    (t' : Tr R) (a' : List Val) (h : applyOps P cfg g t a ops = some (t', a')) :
    g.Coh P a' t' := history_coh P cfg g t a ht ops t' a' h

/-- hence score = -assess(choices; recorded args) and retval = the program's return value after
    any history (`_partial`: Cond-free programs, see C01; superseded by
    `C05_history_score_assess` below) -/
theorem C05_history_score_assess_partial (g : GF) (hg : g.condFree = true)
    (t : Tr R) (a : List Val) (ht : g.Coh P a t) (ops : List Op)
    (t' : Tr R) (a' : List Val) (h : applyOps P cfg g t a ops = some (t', a'))
    (x : CM) (hx : t'.choices = some x) :
    g.assess P x a' = some (-t'.score, t'.retval) :=
  coh_assess_partial P g hg a' t' (history_coh P cfg g t a ht ops t' a' h) x hx

/-- the accept/reject step of the kernels (`tree_map (where accept new old)`) picks one of two
    coherent traces; with the arguments recorded alike it is coherent -/
theorem C05_select_coherent (g : GF) (a : List Val) (tNew tOld : Tr R) (accept : Bool)
    (h1 : g.Coh P a tNew) (h2 : g.Coh P a tOld) : g.Coh P a (if accept then tNew else tOld) := by
  cases accept <;> simp [h1, h2]

/-- the weights of consecutive updates telescope: their sum depends only on the first and the
    last trace (specification variant of Cond, i.e. the repaired code) -/
theorem C05_update_telescope (hc : cfg.condSwitchCorrection = true)
    (g : GF) (a : List Val) (t : Tr R) (ht : g.Coh P a t)
    (us : List (Option CM × List Val)) (t' : Tr R) (w : R)
    (h : applyUpdates P cfg g t us = some (t', w)) : w = t.score + -t'.score :=
  updates_telescope P cfg hc g a t ht us t' w h

/-- score = -assess(choices; recorded args) and retval = the program's return value after any
    history of update / regenerate steps — every program, Cond at any depth.  `hx` =
    "`get_choices()` does not raise" on the final trace.
    Supersedes `C05_history_score_assess_partial`. -/
theorem C05_history_score_assess (g : GF)
    (t : Tr R) (a : List Val) (ht : g.Coh P a t) (ops : List Op)
    (t' : Tr R) (a' : List Val) (h : applyOps P cfg g t a ops = some (t', a'))
    (x : CM) (hx : t'.choices = some x) :
    g.assess P x a' = some (-t'.score, t'.retval) :=
  coh_assess P g a' t' (history_coh P cfg g t a ht ops t' a' h) x hx

/-- for programs whose Cond branches are compatible and an initial trace in the shape the
    operations build (`GF.Canon`, e.g. from `simulate` / `generate`), the final trace always has a
    choice map -/
theorem C05_history_score_assess_compat (g : GF) (hs : g.skel.isSome)
    (t : Tr R) (a : List Val) (hcan : g.Canon t) (ht : g.Coh P a t) (ops : List Op)
    (t' : Tr R) (a' : List Val) (h : applyOps P cfg g t a ops = some (t', a')) :
    ∃ x, t'.choices = some x ∧ g.assess P x a' = some (-t'.score, t'.retval) := by
  obtain ⟨x, hx⟩ := choices_of_skel (history_choices_skel P cfg g t a hcan ht ops t' a' h) hs
  exact ⟨x, hx, C05_history_score_assess P cfg g t a ht ops t' a' h x hx⟩

/-- non-vacuity: simulate the Cond program `condExG`, then update (switching the branch) and
    regenerate `"y"`; the final trace has a choice map -/
example : ∃ t t' a' x, condExG.simulate condExP [.num 1, .num 7] = some t ∧
    applyOps condExP Cfg.spec condExG t [.num 1, .num 7]
      [.update (some (.node (.cons "x" (.leaf (.num 10)) .nil))) [.num 0, .num 7],
       .regenerate (.str "y") [.num 0, .num 7]] = some (t', a') ∧
    t'.choices = some x :=
  ⟨_, _, _, _, rfl, rfl, rfl⟩

end Genjax
