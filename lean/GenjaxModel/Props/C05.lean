import GenjaxModel.Proofs.GfiRegen
import GenjaxModel.Proofs.GfiAssess
import GenjaxModel.Proofs.GfiAssessCond
import GenjaxModel.Proofs.GfiGather
/-!
# C05 — traces stay coherent under any history of edits; update weights telescope
-/
namespace Genjax
variable {R : Type} [AddCommGroup R] (P : Prims R) (cfg : Cfg)

/-- any finite sequence of update / regenerate steps keeps the trace coherent under the arguments
    recorded by the last step (induction over the history) -/
theorem C05_history_coherent (g : GF) (t : Tr R) (a : List Val) (ht : g.Coh P a t) (ops : List Op)
    (t' : Tr R) (a' : List Val) (h : applyOps P cfg g t a ops = some (t', a')) :
    g.Coh P a' t' := history_coh P cfg g t a ht ops t' a' h

/-- hence score = -assess(choices; recorded args) and retval = the program's return value after
    any history (`_partial`: Cond-free programs, see C01; superseded by
    `C05_history_score_assess` below) -/
theorem C05_history_score_assess_partial (g : GF) (hg : g.condFree = true)
    (t : Tr R) (a : List Val) (ht : g.Coh P a t) (ops : List Op)
    (t' : Tr R) (a' : List Val) (h : applyOps P cfg g t a ops = some (t', a'))
    (x : CM) (hx : t'.choices = some x) :
    g.assess P x a' = some (-t'.score, t'.retval) :=
  coh_assess_partial P g hg a' t' (history_coh P cfg g t a ht ops t' a' h) x hx

/-- the accept/reject step of the kernels (`tree_map (where accept new old)`) picks one of two
    coherent traces; with the arguments recorded alike it is coherent -/
theorem C05_select_coherent (g : GF) (a : List Val) (tNew tOld : Tr R) (accept : Bool)
    (h1 : g.Coh P a tNew) (h2 : g.Coh P a tOld) : g.Coh P a (if accept then tNew else tOld) := by
  cases accept <;> simp [h1, h2]

/-- the weights of consecutive updates telescope: their sum depends only on the first and the
    last trace (specification variant of Cond, i.e. the repaired code) -/
theorem C05_update_telescope (hc : cfg.condSwitchCorrection = true)
    (g : GF) (a : List Val) (t : Tr R) (ht : g.Coh P a t)
    (us : List (Option CM × List Val)) (t' : Tr R) (w : R)
    (h : applyUpdates P cfg g t us = some (t', w)) : w = t.score + -t'.score :=
  updates_telescope P cfg hc g a t ht us t' w h

/-- score = -assess(choices; recorded args) and retval = the program's return value after any
    history of update / regenerate steps — every program, Cond at any depth.  `hx` =
    "`get_choices()` does not raise" on the final trace.
    Supersedes `C05_history_score_assess_partial`. -/
theorem C05_history_score_assess (g : GF)
    (t : Tr R) (a : List Val) (ht : g.Coh P a t) (ops : List Op)
    (t' : Tr R) (a' : List Val) (h : applyOps P cfg g t a ops = some (t', a'))
    (x : CM) (hx : t'.choices = some x) :
    g.assess P x a' = some (-t'.score, t'.retval) :=
  coh_assess P g a' t' (history_coh P cfg g t a ht ops t' a' h) x hx

/-- for programs whose Cond branches are compatible and an initial trace in the shape the
    operations build (`GF.Canon`, e.g. from `simulate` / `generate`), the final trace always has a
    choice map -/
theorem C05_history_score_assess_compat (g : GF) (hs : g.skel.isSome)
    (t : Tr R) (a : List Val) (hcan : g.Canon t) (ht : g.Coh P a t) (ops : List Op)
    (t' : Tr R) (a' : List Val) (h : applyOps P cfg g t a ops = some (t', a')) :
    ∃ x, t'.choices = some x ∧ g.assess P x a' = some (-t'.score, t'.retval) := by
  obtain ⟨x, hx⟩ := choices_of_skel (history_choices_skel P cfg g t a hcan ht ops t' a' h) hs
  exact ⟨x, hx, C05_history_score_assess P cfg g t a ht ops t' a' h x hx⟩

/-- non-vacuity: simulate the Cond program `condExG`, then update (switching the branch) and
    regenerate `"y"`; the final trace has a choice map -/
example : ∃ t t' a' x, condExG.simulate condExP [.num 1, .num 7] = some t ∧
    applyOps condExP Cfg.spec condExG t [.num 1, .num 7]
      [.update (some (.node (.cons "x" (.leaf (.num 10)) .nil))) [.num 0, .num 7],
       .regenerate (.str "y") [.num 0, .num 7]] = some (t', a') ∧
    t'.choices = some x :=
  ⟨_, _, _, _, rfl, rfl, rfl⟩

/-! ## BEGIN c05gather — particle gathering (SMC `resample`) and lane-wise accept/reject

SMC keeps its N particles as ONE trace of `Vmap g axes N` (`Tr.vec lanes`).
`resample_vectorized_trace` indexes EVERY leaf of that trace pytree with the ancestor vector `idx`
— choices, scores, return values and the per-particle (mapped) arguments recorded with the trace
(`gatherArgs`); broadcast (unmapped) arguments have no particle axis and are unchanged.
Helper lemmas: `Proofs/GfiGather.lean`. -/

/-- **gathering keeps a particle collection coherent.**  If `Tr.vec lanes` is a coherent trace of
    `Vmap g axes n` on `args` and every ancestor index designates a lane (`i < n`), then the gathered
    lanes are a coherent trace of `Vmap g axes idx.length` on the GATHERED arguments; lane `j` of the
    result is lane `idx[j]` of the input and is a coherent callee trace on lane `idx[j]`'s arguments
    (which are lane `j` of the gathered arguments); the score of the result is `Σ_j score(lane idx[j])`
    and its return values are the gathered return values. -/
theorem C05_vmap_gather_coherent (g : GF) (axes : List Bool) (n : Nat) (args : List Val)
    (lanes : TrL R) (idx : List Nat) (h : (GF.vmap g axes n).Coh P args (.vec lanes))
    (hidx : ∀ i ∈ idx, i < n) :
    (GF.vmap g axes idx.length).Coh P (gatherArgs axes idx args) (.vec (lanes.gather idx)) ∧
    (∀ j i, idx[j]? = some i →
      laneArgs axes (gatherArgs axes idx args) j = laneArgs axes args i ∧
      ∃ t, lanes.toList[i]? = some t ∧ (lanes.gather idx).toList[j]? = some t ∧
        g.Coh P (laneArgs axes args i) t) ∧
    (Tr.vec (lanes.gather idx)).score =
      sumR (idx.map fun i => (lanes.toList.getD i default).score) ∧
    (Tr.vec (lanes.gather idx)).retval = (Tr.vec lanes).retval.gather idx := by
  refine ⟨vmap_gather_coherent P g axes n args lanes idx h hidx,
    fun j i hj => ⟨laneArgs_gatherArgs idx j i hj axes args,
      vmap_gather_lane P g axes n args lanes idx h hidx j i hj⟩,
    vmap_gather_score lanes idx, vmap_gather_retval lanes idx ?_⟩
  simp only [GF.Coh] at h
  rw [h.1]; exact hidx

/-- **the arguments must be gathered too** (proved counterexample; this is the seeded regression
    `/verif/seeded/C12_3`): a coherent 3-particle collection with a mapped and a broadcast argument,
    in-range ancestors `idx = [2,0,0]`; the gathered lanes are coherent for the gathered arguments
    but NOT for the original ones. -/
theorem C05_vmap_gather_args_needed :
    ∃ (P : Prims ℤ) (g : GF) (axes : List Bool) (n : Nat) (args : List Val) (lanes : TrL ℤ)
      (idx : List Nat),
      (GF.vmap g axes n).Coh P args (.vec lanes) ∧ (∀ i ∈ idx, i < n) ∧ idx.length = n ∧
      (GF.vmap g axes idx.length).Coh P (gatherArgs axes idx args) (.vec (lanes.gather idx)) ∧
      ¬ (GF.vmap g axes idx.length).Coh P args (.vec (lanes.gather idx)) :=
  vmap_gather_args_needed

/-- **lane-wise accept/reject** (`tree_map (where accept new old)` of a kernel vmapped over the
    particles / chains): the lane-wise selection of two Vmap traces coherent for the same arguments
    is coherent for them (one mask entry per lane); its score is the lane-wise selected sum of lane
    scores and its return value the lane-wise selected return values.
    Lane-wise version of `C05_select_coherent`. -/
theorem C05_select_lanes_coherent (g : GF) (axes : List Bool) (n : Nat) (args : List Val)
    (new old : TrL R) (mask : List Bool) (hm : mask.length = n)
    (h1 : (GF.vmap g axes n).Coh P args (.vec new)) (h2 : (GF.vmap g axes n).Coh P args (.vec old)) :
    (GF.vmap g axes n).Coh P args (.vec (TrL.select mask new old)) ∧
    (Tr.vec (TrL.select mask new old)).score =
      sumR (selectL mask (new.toList.map Tr.score) (old.toList.map Tr.score)) ∧
    (Tr.vec (TrL.select mask new old)).retval =
      Val.ofList (selectL mask (new.toList.map Tr.retval) (old.toList.map Tr.retval)) :=
  ⟨select_lanes_coherent P g axes n args new old mask hm h1 h2,
   select_lanes_score new old mask, select_lanes_retval new old mask⟩

/-- **histories of a particle collection.**  A trace of a top-level `Vmap g axes n` stays coherent
    — for the lane count and the arguments recorded by the last move — under any finite history of
    update / regenerate (`Op'.base`), resample-gather (`Op'.gather idx`), lane-wise selection against
    an externally supplied trace (`Op'.laneSelect`) and vmapped accept/reject kernels
    (`Op'.kernel mask op`: propose with `op`, keep lane `j` of the proposal iff `mask[j]`).
    `OpsOk` states the side conditions: ancestor indices in range, masks of the right length,
    supplied traces coherent for the arguments recorded at that moment, kernels proposing under the
    recorded arguments.  Extends `C05_history_coherent` (which it contains: `applyOps'_base`). -/
theorem C05_history_with_gather_coherent (g : GF) (axes : List Bool) (n : Nat) (t : Tr R)
    (a : List Val) (ht : (GF.vmap g axes n).Coh P a t) (ops : List (Op' R))
    (hok : OpsOk P g axes n a ops) (n' : Nat) (t' : Tr R) (a' : List Val)
    (h : applyOps' P cfg g axes n t a ops = some (n', t', a')) :
    (GF.vmap g axes n').Coh P a' t' :=
  history_with_gather_coherent P cfg g axes n t a ht ops hok n' t' a' h

/-- non-vacuity of `C05_vmap_gather_coherent`: the 3-particle collection simulated from
    `x ~ d1(a, b); return x + b` with `a = (10,20,30)` mapped and `b = 5` broadcast is coherent, and
    `idx = [2,0,0]` is in range -/
example : (GF.vmap gatherExG [true, false] 3).simulate gatherExP gatherExArgs =
      some (.vec gatherExLanes) ∧
    (GF.vmap gatherExG [true, false] 3).Coh gatherExP gatherExArgs (.vec gatherExLanes) ∧
    ∀ i ∈ [2, 0, 0], i < 3 :=
  ⟨by decide +kernel, gatherEx_coh, by decide⟩

/-- …and what the gather does on it: arguments `(30,10,10), 5`; lanes 2,0,0; score
    `-128 - 68 - 68 = -264`; return values `(36,16,16)` -/
example : gatherArgs [true, false] [2, 0, 0] gatherExArgs =
      [Val.ofList [.num 30, .num 10, .num 10], .num 5] ∧
    gatherExLanes.gather [2, 0, 0] =
      TrL.ofList [gatherExLane 31 (-128) 36, gatherExLane 11 (-68) 16, gatherExLane 11 (-68) 16] ∧
    (Tr.vec (gatherExLanes.gather [2, 0, 0])).score = -264 ∧
    (Tr.vec (gatherExLanes.gather [2, 0, 0])).retval = Val.ofList [.num 36, .num 16, .num 16] := by
  decide +kernel

/-- non-vacuity of `C05_select_lanes_coherent`: the simulated collection and its regeneration at
    `"x"` under the same arguments are two coherent traces; mask of length 3 -/
example : ∃ t' w d, (GF.vmap gatherExG [true, false] 3).regenerate gatherExP Cfg.asis
      (.vec gatherExLanes) (.str "x") gatherExArgs = some (t', w, d) ∧
    (GF.vmap gatherExG [true, false] 3).Coh gatherExP gatherExArgs t' ∧
    [true, false, true].length = 3 := by
  cases h : (GF.vmap gatherExG [true, false] 3).regenerate gatherExP Cfg.asis
      (.vec gatherExLanes) (.str "x") gatherExArgs with
  | none => exact absurd h (by decide +kernel)
  | some r =>
    obtain ⟨t', w, d⟩ := r
    exact ⟨t', w, d, rfl, regenerate_coh gatherExP Cfg.asis _ _ _ _ _ _ _ h, rfl⟩

/-- non-vacuity of `C05_history_with_gather_coherent`: resample with `[2,0,0]`, run a vmapped
    regenerate kernel at `"x"` under the gathered arguments accepting lanes 0 and 2, update back to
    the original arguments, then select lane 1 from the originally simulated collection -/
def gatherExHistory : List (Op' ℤ) :=
  [.gather [2, 0, 0],
   .kernel [true, false, true]
     (.regenerate (.str "x") [Val.ofList [.num 30, .num 10, .num 10], .num 5]),
   .base (.update none gatherExArgs),
   .laneSelect [false, true, false] (.vec gatherExLanes)]

example : OpsOk gatherExP gatherExG [true, false] 3 gatherExArgs gatherExHistory ∧
    (applyOps' gatherExP Cfg.asis gatherExG [true, false] 3 (.vec gatherExLanes) gatherExArgs
      gatherExHistory).isSome = true := by
  refine ⟨⟨by decide, rfl, ?_, rfl, gatherEx_coh, trivial⟩, by decide +kernel⟩
  show _ = gatherArgs [true, false] [2, 0, 0] gatherExArgs
  decide +kernel

/-! ## END c05gather -/

end Genjax
