import GenjaxModel.Proofs.Smc
import GenjaxModel.Proofs.SmcInit  -- (c10init block at the end of this file)
import GenjaxModel.Proofs.SmcInitWeight  -- (c10init block at the end of this file)
/-!
# C10 — SMC particles are properly weighted; the evidence estimate is unbiased

Model `Model/Smc.lean` (linear domain, finite-support randomness so expectations are exact sums).
`Sys.est φ = acc · (1/N) Σ_i w_i φ(x_i)` is the estimate-weighted particle average;
`Sys.lml` (= exp(log_marginal_likelihood())) is the case φ = 1. All statements hold for every
finite model/proposal (any field), every particle count N with (N : K) ≠ 0, every pipeline length.
-/
namespace Genjax.Smc
open FinDist
variable {K : Type} [Field K] {X : Type}

/-- `estimate` is LINEAR in the test function: an estimate of a vector-, matrix- or pytree-valued test function is the family
    of the estimates of its components (so every statement about scalar test functions below covers them; the implementation
    weights along the particle axis of every leaf, fix 5878692), and a constant test function returns acc · mean weight -/
theorem C10_estimate_linear (s : Sys K X) (a b : K) (φ ψ : X → K) :
    s.est (fun x => a * φ x + b * ψ x) = a * s.est φ + b * s.est ψ := by
  unfold Sys.est
  have h : (s.parts.map fun (xw : X × K) => xw.2 * (a * φ xw.1 + b * ψ xw.1)) =
      s.parts.map fun (xw : X × K) => a * (xw.2 * φ xw.1) + b * (xw.2 * ψ xw.1) := by
    apply List.map_congr_left; intro xw _; ring
  have h1 := sumK_map_add s.parts (fun (xw : X × K) => a * (xw.2 * φ xw.1)) (fun xw => b * (xw.2 * ψ xw.1))
  have h2 := sumK_map_mul_left s.parts a (fun (xw : X × K) => xw.2 * φ xw.1)
  have h3 := sumK_map_mul_left s.parts b (fun (xw : X × K) => xw.2 * ψ xw.1)
  simp only [] at h h1 h2 h3 ⊢
  rw [h, h1, h2, h3]; ring

/-- one importance-sampling step (init with a proposal q): E_q[p/q] = Σ p -/
theorem C10_importance_weight_unbiased (xs : List X) (p q : X → K) (hq : ∀ x ∈ xs, q x ≠ 0) :
    E (xs.map fun x => (x, q x)) (fun x => p x / q x) = sumK (xs.map p) := is_unbiased xs p q hq

/-- extend / init: the new weight is old weight × p_incr/q and acc is untouched; in expectation the
    estimate of φ becomes the estimate of the incremental kernel applied to φ (proper weighting) -/
theorem C10_extend_properly_weighted (q : X → FinDist K X) (G : X → X → K) (s : Sys K X)
    (hq : ∀ x, mass (q x) = 1) (φ : X → K) :
    E (extendStep q G s) (fun s' => s'.est φ) = s.est (fun x => E (q x) (fun x' => G x x' * φ x')) :=
  extend_est q G s hq φ

/-- rejuvenation moves leave weights and the accumulated estimate untouched -/
theorem C10_rejuvenate_keeps_weights (k : X → FinDist K X) (s : Sys K X) (hk : ∀ x, mass (k x) = 1)
    (φ : X → K) :
    E (rejuvenateStep k s) (fun s' => s'.est φ) = s.est (fun x => E (k x) φ) :=
  rejuvenate_est k s hk φ

/-- (adaptive) multinomial resampling preserves every estimate-weighted average in expectation -/
theorem C10_resample_unbiased (trigger : List K → Bool) (s : Sys K X) (hn : (s.parts.length : K) ≠ 0)
    (ht : sumK (s.parts.map (·.2)) ≠ 0) (φ : X → K) :
    E (maybeResample trigger s) (fun s' => s'.est φ) = s.est φ := maybeResample_est trigger s hn ht φ

/-- **Unbiasedness of SMC**: for every pipeline of extend / adaptive resample / rejuvenate steps,
    every N, every test function φ: E[acc·(1/N)Σ w_i φ(x_i)] equals the same estimator of the
    pulled-back function before the pipeline. With φ = 1 and the initial system this reads
    E[exp(log_marginal_likelihood())] = marginal likelihood of the observations, after every step. -/
theorem C10_smc_unbiased (steps : List (Step K X)) (s : Sys K X)
    (hN : (s.parts.length : K) ≠ 0)
    (hq : ∀ st ∈ steps, ∀ x, mass (st.q x) = 1) (hk : ∀ st ∈ steps, ∀ x, mass (st.k x) = 1)
    (htrig : ∀ st ∈ steps, ∀ ws, st.trigger ws = true → sumK ws ≠ 0) (φ : X → K) :
    E (runSteps steps s) (fun s' => s'.est φ) = s.est (pull steps φ) :=
  smc_unbiased steps s hN hq hk htrig φ

end Genjax.Smc

/-! ==============================================================================================
    BEGIN work package `c10init`: `init` / `extend` WITH GENERATIVE FUNCTIONS ARE PROPERLY WEIGHTED
    (model `Model/SmcInit.lean`, proofs `Proofs/SmcInit.lean`, `Proofs/SmcInitWeight.lean`).

    The theorems above speak about an abstract particle system (states, proposal kernels `q`,
    incremental weights `G`).  Here the kernels and weights are what smc.py computes through the
    generative function interface (`Model/GfiDist.lean`: finite-support randomness, linear-domain
    weights):
      `initParticleD … none`            `target.generate(constraints, *args)`
      `initParticleD … (some (q, qa))`  `q.simulate`, `target.merge(proposal_choices, constraints)`,
                                        `target.generate(merged)`, weight `w · exp(proposal score)`
                                        `= w / q(z)`
      `extendParticleD`                 the same per particle in `extend` (there the PROPOSAL is the
                                        second argument of the merge); incremental weight
    Notation: `ys` / `Z` list (without repetition) the complete choice maps of the target / of the
    proposal (`coversB` is an executable check); `p(y) = assessP y` the joint mass; `obsF F t` a
    function of the observable trace (choice map, return value); `y.agreeWith x` = "`y ⊇ x`".
    Programs: Distribution / Fn / Vmap / Scan at any depth and Conds whose branches have the same shape
    (`condOK`, as in C01/C02; mixed-shape Conds are excluded for the reason shown there).
    ============================================================================================== -/
namespace Genjax.Smc
open Genjax FinDist

section C10Init
variable {K : Type} [Field K] {R : Type} [AddCommGroup R] (pd : PD K) (P : Prims R) (cfg : Cfg)

/-- **`init` with the default proposal is properly weighted**: for every function `F` of the
    observable trace, `E[w · F(trace)] = Σ_{y ⊇ obs} p(y) · F(y, retval(y))`. -/
theorem C10_init_default_properly_weighted (hpd : pd.WF) (hnorm : pd.Normalised) (g : GF)
    (hc : g.condOK = true) (hv : g.vmapOK cfg = true) (targs : List Val) (obs : CM) (ys : List CM)
    (hnd : ys.Nodup)
    (hcov : ∀ t, some t ∈ supp (g.simD pd P targs) → ∃ y ∈ ys, t.choices = some y)
    (hshape : ∀ y ∈ ys, g.skel = some y.skel) (F : CM → Val → K) :
    E (initParticleD pd P cfg g targs obs none) (optK fun tw => tw.2 * obsF F tw.1)
      = sumK (ys.map fun y =>
          if y.agreeWith obs then massOf (g.assessP pd y targs) (F y) else 0) :=
  init_default_properly_weighted pd P cfg hpd hnorm g hc hv targs obs ys hnd hcov hshape F

/-- the same against the target's own distribution, without enumerating choice maps:
    `E[w · F(trace)] = E_{t ∼ simulate}[1{t agrees with obs} · F(t)]` -/
theorem C10_init_default_properly_weighted_sim (hpd : pd.WF) (hnorm : pd.Normalised) (g : GF)
    (hc : g.condOK = true) (hv : g.vmapOK cfg = true) (targs : List Val) (obs : CM)
    (F : CM → Val → K) :
    E (initParticleD pd P cfg g targs obs none) (optK fun tw => tw.2 * obsF F tw.1)
      = E (g.simD pd P targs) (optK fun t => t.agS obs * obsF F t) :=
  init_default_properly_weighted_sim pd P cfg hpd hnorm g hc hv targs obs F

/-- **`E[w] = evidence`**: the expected weight of a default-proposal particle is the marginal
    likelihood of the constraints, `Σ_{y ⊇ obs} p(y)` -/
theorem C10_init_default_evidence (hpd : pd.WF) (hnorm : pd.Normalised) (g : GF)
    (hc : g.condOK = true) (hv : g.vmapOK cfg = true) (targs : List Val) (obs : CM) (ys : List CM)
    (hnd : ys.Nodup)
    (hcov : ∀ t, some t ∈ supp (g.simD pd P targs) → ∃ y ∈ ys, t.choices = some y)
    (hshape : ∀ y ∈ ys, g.skel = some y.skel) :
    E (initParticleD pd P cfg g targs obs none) (optK fun tw => tw.2)
      = sumK (ys.map fun y => if y.agreeWith obs then pmassOf (g.assessP pd y targs) else 0) :=
  init_default_evidence pd P cfg hpd hnorm g hc hv targs obs ys hnd hcov hshape

/-- **`init` with a custom proposal is properly weighted, for a proposal covering ANY subset of the
    unobserved addresses** (all of them, or a strict subset — `generate` then fills the rest from the
    prior).  Hypotheses: the proposal never traces an address twice; `hmerge`: the merge does not
    raise and `y ⊇ merged ⇔ y ⊇ obs ∧ y ⊇ z` (holds when constraints and proposal choices are dicts
    over disjoint addresses: `C10_merge_disjoint`; it FAILS when the proposal also proposes an
    observed address: `C10_init_overlap_cex`); `huniq`: a complete choice map of the target agrees
    with at most one choice map of the proposal; `hdom` (DOMINATION): every completion of the
    constraints with non-zero joint mass restricts to a proposal choice map of non-zero proposal
    mass.  Then `E[w · F(trace)] = Σ_{y ⊇ obs} p(y) · F(y, retval(y))`, exactly as for the default
    proposal. -/
theorem C10_init_proposal_properly_weighted (hpd : pd.WF) (hnorm : pd.Normalised) (g : GF)
    (hc : g.condOK = true) (hv : g.vmapOK cfg = true) (targs : List Val) (obs : CM) (q : GF)
    (hqn : q.noCollide = true) (hqc : q.condOK = true) (qargs : List Val)
    (Z : List CM) (hZnd : Z.Nodup)
    (hZcov : ∀ t, some t ∈ supp (q.simD pd P qargs) → ∃ z ∈ Z, t.choices = some z)
    (hZshape : ∀ z ∈ Z, q.skel = some z.skel)
    (ys : List CM) (hnd : ys.Nodup)
    (hcov : ∀ t, some t ∈ supp (g.simD pd P targs) → ∃ y ∈ ys, t.choices = some y)
    (hshape : ∀ y ∈ ys, g.skel = some y.skel)
    (hmerge : ∀ z ∈ Z, ∃ m, smcMerge true obs z = some m ∧
      ∀ y ∈ ys, y.agreeWith m = (y.agreeWith obs && y.agreeWith z))
    (huniq : ∀ y ∈ ys, ∀ z1 ∈ Z, ∀ z2 ∈ Z,
      y.agreeWith z1 = true → y.agreeWith z2 = true → z1 = z2)
    (hdom : ∀ y ∈ ys, y.agreeWith obs = true → pmassOf (g.assessP pd y targs) ≠ 0 →
      ∃ z ∈ Z, y.agreeWith z = true ∧ pmassOf (q.assessP pd z qargs) ≠ 0)
    (F : CM → Val → K) :
    E (initParticleD pd P cfg g targs obs (some (q, qargs))) (optK fun tw => tw.2 * obsF F tw.1)
      = sumK (ys.map fun y =>
          if y.agreeWith obs then massOf (g.assessP pd y targs) (F y) else 0) :=
  proposal_properly_weighted pd P cfg hpd hnorm true g hc hv targs obs q hqn hqc qargs Z hZnd hZcov
    hZshape ys hnd hcov hshape hmerge huniq hdom F

/-- **`E[w] = evidence`** for `init` with a custom proposal (same hypotheses) -/
theorem C10_init_proposal_evidence (hpd : pd.WF) (hnorm : pd.Normalised) (g : GF)
    (hc : g.condOK = true) (hv : g.vmapOK cfg = true) (targs : List Val) (obs : CM) (q : GF)
    (hqn : q.noCollide = true) (hqc : q.condOK = true) (qargs : List Val)
    (Z : List CM) (hZnd : Z.Nodup)
    (hZcov : ∀ t, some t ∈ supp (q.simD pd P qargs) → ∃ z ∈ Z, t.choices = some z)
    (hZshape : ∀ z ∈ Z, q.skel = some z.skel)
    (ys : List CM) (hnd : ys.Nodup)
    (hcov : ∀ t, some t ∈ supp (g.simD pd P targs) → ∃ y ∈ ys, t.choices = some y)
    (hshape : ∀ y ∈ ys, g.skel = some y.skel)
    (hmerge : ∀ z ∈ Z, ∃ m, smcMerge true obs z = some m ∧
      ∀ y ∈ ys, y.agreeWith m = (y.agreeWith obs && y.agreeWith z))
    (huniq : ∀ y ∈ ys, ∀ z1 ∈ Z, ∀ z2 ∈ Z,
      y.agreeWith z1 = true → y.agreeWith z2 = true → z1 = z2)
    (hdom : ∀ y ∈ ys, y.agreeWith obs = true → pmassOf (g.assessP pd y targs) ≠ 0 →
      ∃ z ∈ Z, y.agreeWith z = true ∧ pmassOf (q.assessP pd z qargs) ≠ 0) :
    E (initParticleD pd P cfg g targs obs (some (q, qargs))) (optK fun tw => tw.2)
      = sumK (ys.map fun y => if y.agreeWith obs then pmassOf (g.assessP pd y targs) else 0) :=
  proposal_evidence pd P cfg hpd hnorm true g hc hv targs obs q hqn hqc qargs Z hZnd hZcov
    hZshape ys hnd hcov hshape hmerge huniq hdom

/-- **merge of disjoint dicts** (`init`: `cs = true`, constraints second; `extend`: `cs = false`,
    proposal second): if the constraints and every choice map of the proposal are dicts over disjoint
    addresses (nested dicts compared recursively; `CM.disjB`, executable) the merge never raises and a
    complete choice map agrees with the merged constraint iff it agrees with both parts — the
    hypothesis `hmerge` of the proper-weighting theorems. -/
theorem C10_merge_disjoint (cs : Bool) (obs : CM) (Z ys : List CM)
    (hd : ∀ z ∈ Z, CM.disjB obs z = true) :
    ∀ z ∈ Z, ∃ m, smcMerge cs obs z = some m ∧
      ∀ y ∈ ys, y.agreeWith m = (y.agreeWith obs && y.agreeWith z) :=
  hmerge_of_disjoint cs obs Z ys hd

/-- **The weight formula** of a particle with a custom proposal (`init`: `cs = true`; `extend`:
    `cs = false`).  After the proposal produced `z` with mass `q(z) = qr.1 ≠ 0` and the merged
    constraint is `m`, for every complete choice map `y` of the target's shape:
    (i)  the expected total weight collected on the outcome `y` is `1{y ⊇ m} · p(y) / q(z)`;
    (ii) if the total weight is `W` on every run ending in `y` then
         `W · q(z) · fillProb(m, y) = 1{y ⊇ m} · p(y)`, where `fillProb(m, y)` is the probability that
         `generate` fills the sites `m` leaves open as in `y` (the product of their prior masses):
         `W = p(y) / (q(z) · Π_{sites filled by generate} prior mass)`.
    So the prior masses of the filled sites are divided out exactly once (by `generate`, whose weight
    only multiplies the masses of the constrained sites) and the proposal mass once.  Dividing the
    FULL joint `p(y)` by `q(z)` alone is a different number whenever a site is filled:
    `C10_init_wrong_formula_cex`. -/
theorem C10_init_proposal_weight_formula (hpd : pd.WF) (hnorm : pd.Normalised) (cs : Bool) (g : GF)
    (hc : g.condOK = true) (hv : g.vmapOK cfg = true) (targs : List Val) (obs : CM) (q : GF)
    (qargs : List Val) (z m : CM) (qr : K × Val) (hm : smcMerge cs obs z = some m)
    (hq : q.assessP pd z qargs = some qr) (hq0 : qr.1 ≠ 0) (y : CM)
    (hs : g.skel = some y.skel) :
    E (afterProposalD pd P cfg cs g targs obs q qargs z)
        (optK fun tw => if tw.1.choices = some y then tw.2 else 0)
      = agO (some m) y * pmassOf (g.assessP pd y targs) / qr.1 ∧
    ∀ W : K, (∀ tw, some tw ∈ supp (afterProposalD pd P cfg cs g targs obs q qargs z) →
        tw.1.choices = some y → tw.2 = W) →
      W * (qr.1 * fillProb pd P cfg g (some m) targs y)
        = agO (some m) y * pmassOf (g.assessP pd y targs) :=
  init_proposal_weight_formula pd P cfg hpd hnorm cs g hc hv targs obs q qargs z m qr hm hq hq0 y hs

/-- **the weight `generate` returns is a function of the constraint and of the generated choice map**
    (every program whose Conds are `condOK`, any constraint / arguments): two runs of `generate` that
    end in the same choice map carry the same weight (the hidden branch of a Cond is drawn too, but
    does not enter the weight). -/
theorem C10_generate_weight_deterministic (g : GF) (hc : g.condOK = true) (ox : Option CM)
    (args : List Val) (tw tw' : Tr R × K) (h : some tw ∈ supp (g.generateD pd P cfg ox args))
    (h' : some tw' ∈ supp (g.generateD pd P cfg ox args)) (y : CM) (hy : tw.1.choices = some y)
    (hy' : tw'.1.choices = some y) : tw.2 = tw'.2 :=
  generateD_weight_det pd P cfg g hc ox args tw tw' h h' y hy hy'

/-- **The weight formula on EVERY run** (supersedes part (ii) of `C10_init_proposal_weight_formula`,
    whose constancy assumption is discharged by `C10_generate_weight_deterministic`).  After the
    proposal produced `z` (`q(z) = qr.1 ≠ 0`, merged constraint `m`), every run of the particle that
    ends in the complete choice map `y` has a total weight `w` with
    `w · q(z) · fillProb(m, y) = 1{y ⊇ m} · p(y)`:
    `w = p(y) / (q(z) · Π_{sites filled by generate} prior mass)`. -/
theorem C10_init_proposal_weight_formula_run (hpd : pd.WF) (hnorm : pd.Normalised) (cs : Bool)
    (g : GF) (hc : g.condOK = true) (hv : g.vmapOK cfg = true) (targs : List Val) (obs : CM)
    (q : GF) (qargs : List Val) (z m : CM) (qr : K × Val) (hm : smcMerge cs obs z = some m)
    (hq : q.assessP pd z qargs = some qr) (hq0 : qr.1 ≠ 0) (y : CM)
    (hs : g.skel = some y.skel) (tw : Tr R × K)
    (htw : some tw ∈ supp (afterProposalD pd P cfg cs g targs obs q qargs z))
    (hy : tw.1.choices = some y) :
    tw.2 * (qr.1 * fillProb pd P cfg g (some m) targs y)
      = agO (some m) y * pmassOf (g.assessP pd y targs) :=
  weight_formula_run pd P cfg hpd hnorm cs g hc hv targs obs q qargs z m qr hm hq hq0 y hs tw htw hy

/-- the weight formula as a CONDITIONAL MEAN, without any assumption on the runs: given that the
    particle ends in the choice map `y` (guard: `fillProb ≠ 0`, `y` is a possible outcome) the mean
    total weight is `1{y ⊇ m} · p(y) / (q(z) · fillProb(m, y))` -/
theorem C10_init_proposal_weight_formula_mean (hpd : pd.WF) (hnorm : pd.Normalised) (cs : Bool)
    (g : GF) (hc : g.condOK = true) (hv : g.vmapOK cfg = true) (targs : List Val) (obs : CM)
    (q : GF) (qargs : List Val) (z m : CM) (qr : K × Val) (hm : smcMerge cs obs z = some m)
    (hq : q.assessP pd z qargs = some qr) (hq0 : qr.1 ≠ 0) (y : CM)
    (hs : g.skel = some y.skel) (hfill : fillProb pd P cfg g (some m) targs y ≠ 0) :
    E (afterProposalD pd P cfg cs g targs obs q qargs z)
        (optK fun tw => if tw.1.choices = some y then tw.2 else 0)
      / fillProb pd P cfg g (some m) targs y
      = agO (some m) y * pmassOf (g.assessP pd y targs)
          / (qr.1 * fillProb pd P cfg g (some m) targs y) :=
  init_proposal_weight_formula_mean pd P cfg hpd hnorm cs g hc hv targs obs q qargs z m qr hm hq
    hq0 y hs hfill

/-- **the code's `target_weight + proposal_score` IS `w / q(z)`**: `particleScoreD` reads the
    proposal trace's stored score as smc.py does (linear domain: `w · e(score)`), the model particle
    `proposalParticleD` (used by all theorems of this block) divides by the mass `q.assessP` assigns
    to the proposal's choice map.  When the masses are the exponentials of the log densities
    (`pm = e ∘ lp`, `e 0 = 1`, `e (a + b) = e a · e b`) the two have the same expectation against
    every test function (every proposal, target, constraint, merge order): the stored score of a
    simulated trace is `−log q(z)`. -/
theorem C10_init_weight_is_score (e : R → K) (he0 : e 0 = 1)
    (hadd : ∀ a b, e (a + b) = e a * e b) (hpm : ∀ d a v, pd.pm d a v = e (P.lp d a v))
    (cs : Bool) (g : GF) (targs : List Val) (obs : CM) (q : GF) (qargs : List Val)
    (φ : Tr R × K → K) :
    E (particleScoreD pd P cfg e cs g targs obs q qargs) (optK φ)
      = E (proposalParticleD pd P cfg cs g targs obs q qargs) (optK φ) :=
  particleScore_eq pd P cfg e he0 hadd hpm cs g targs obs q qargs φ

/-- non-vacuity of the tie's hypotheses: integer log densities `condExP`, base-2 exponential -/
example : ∃ (e : ℤ → ℚ) (pd : PD ℚ), e 0 = 1 ∧ (∀ a b, e (a + b) = e a * e b) ∧
    (∀ d a v, pd.pm d a v = e (condExP.lp d a v)) :=
  ⟨fun n => (2 : ℚ) ^ n, ⟨fun d a => [condExP.draw d a], fun d a v => (2 : ℚ) ^ (condExP.lp d a v)⟩,
    by simp, fun a b => zpow_add₀ (by norm_num) a b, fun _ _ _ => rfl⟩

/-- **one `extend` step with the default proposal is properly weighted**: from a particle of weight
    `w₀` the new weight is `w₀ · w_incr`, and
    `E[w₀ · w_incr · F(new trace)] = w₀ · Σ_{y ⊇ obs} p(y) F(y, retval(y))`, `p` the joint mass of
    the extended target at this particle's arguments `targs` -/
theorem C10_gfi_extend_properly_weighted (hpd : pd.WF) (hnorm : pd.Normalised) (g : GF)
    (hc : g.condOK = true) (hv : g.vmapOK cfg = true) (targs : List Val) (obs : CM) (ys : List CM)
    (hnd : ys.Nodup)
    (hcov : ∀ t, some t ∈ supp (g.simD pd P targs) → ∃ y ∈ ys, t.choices = some y)
    (hshape : ∀ y ∈ ys, g.skel = some y.skel) (w0 : K) (F : CM → Val → K) :
    E (extendParticleD pd P cfg g targs obs none) (optK fun tw => (w0 * tw.2) * obsF F tw.1)
      = w0 * sumK (ys.map fun y =>
          if y.agreeWith obs then massOf (g.assessP pd y targs) (F y) else 0) :=
  extend_default_properly_weighted pd P cfg hpd hnorm g hc hv targs obs ys hnd hcov hshape w0 F

/-- **one `extend` step with a custom extension proposal is properly weighted** (hypotheses as in
    `C10_init_proposal_properly_weighted`, with the merge order of `extend`) -/
theorem C10_gfi_extend_proposal_properly_weighted (hpd : pd.WF) (hnorm : pd.Normalised) (g : GF)
    (hc : g.condOK = true) (hv : g.vmapOK cfg = true) (targs : List Val) (obs : CM) (q : GF)
    (hqn : q.noCollide = true) (hqc : q.condOK = true) (qargs : List Val)
    (Z : List CM) (hZnd : Z.Nodup)
    (hZcov : ∀ t, some t ∈ supp (q.simD pd P qargs) → ∃ z ∈ Z, t.choices = some z)
    (hZshape : ∀ z ∈ Z, q.skel = some z.skel)
    (ys : List CM) (hnd : ys.Nodup)
    (hcov : ∀ t, some t ∈ supp (g.simD pd P targs) → ∃ y ∈ ys, t.choices = some y)
    (hshape : ∀ y ∈ ys, g.skel = some y.skel)
    (hmerge : ∀ z ∈ Z, ∃ m, smcMerge false obs z = some m ∧
      ∀ y ∈ ys, y.agreeWith m = (y.agreeWith obs && y.agreeWith z))
    (huniq : ∀ y ∈ ys, ∀ z1 ∈ Z, ∀ z2 ∈ Z,
      y.agreeWith z1 = true → y.agreeWith z2 = true → z1 = z2)
    (hdom : ∀ y ∈ ys, y.agreeWith obs = true → pmassOf (g.assessP pd y targs) ≠ 0 →
      ∃ z ∈ Z, y.agreeWith z = true ∧ pmassOf (q.assessP pd z qargs) ≠ 0)
    (w0 : K) (F : CM → Val → K) :
    E (extendParticleD pd P cfg g targs obs (some (q, qargs)))
        (optK fun tw => (w0 * tw.2) * obsF F tw.1)
      = w0 * sumK (ys.map fun y =>
          if y.agreeWith obs then massOf (g.assessP pd y targs) (F y) else 0) :=
  extend_proposal_properly_weighted pd P cfg hpd hnorm g hc hv targs obs q hqn hqc qargs Z hZnd
    hZcov hZshape ys hnd hcov hshape hmerge huniq hdom w0 F

/-- the incremental kernel of the abstract theorem for a GFI step, `ψ ↦ Σ_x' q(x'|x) G(x,x') ψ(x')`,
    IS the weighted expectation over the step's particle computation (`GfiStep.run`: `generate`, or
    proposal + merge + `generate`); a run that raises carries weight 0 -/
theorem C10_gfi_step_kernel (st : GfiStep R) (x : Part K R) (hx : x ≠ .raised)
    (ψ : Part K R → K) :
    E (st.kernel pd P cfg x) (fun x' => GfiStep.incrWeight x x' * ψ x')
      = E (st.run pd P cfg x.trace?) (optK fun tw => tw.2 * ψ (.live tw.1 tw.2)) :=
  GfiStep.kernel_E pd P cfg st x hx ψ

/-- **SMC over generative functions is unbiased** — `C10_smc_unbiased` with the proposal kernels and
    incremental weights that `init` / `extend` compute through the generative function interface
    (`GfiStage.toStep`; default or custom proposals, any adaptive resampling trigger, any normalised
    rejuvenation kernel).  The abstract hypothesis "the proposals are normalised" is discharged:
    `generate` / `simulate` have total mass 1 for normalised primitives. -/
theorem C10_gfi_pipeline_unbiased (hnorm : pd.Normalised) (stages : List (GfiStage K R))
    (s : Sys K (Part K R)) (hN : (s.parts.length : K) ≠ 0)
    (hk : ∀ sg ∈ stages, ∀ x, mass (sg.k x) = 1)
    (htrig : ∀ sg ∈ stages, ∀ ws, sg.trigger ws = true → sumK ws ≠ 0) (φ : Part K R → K) :
    E (runSteps (stages.map (GfiStage.toStep pd P cfg)) s) (fun s' => s'.est φ)
      = s.est (pull (stages.map (GfiStage.toStep pd P cfg)) φ) :=
  gfi_pipeline_unbiased pd P cfg hnorm stages s hN hk htrig φ

/-- **`rejuvenation_smc`-style pipelines in closed form** (`RvStage`: `init` followed by any number of
    `extend` steps, each stage's target arguments - and its proposal's, when it has a custom one -
    being functions of the particle's previous observable trace (choice map, return value; the code
    feeds the previous return value to the target and the previous choices to the proposal); adaptive
    resampling with any trigger after every step).  From `N` fresh particles, for every function `φ`
    of the last observable trace,
    `E[acc · (1/N) Σ_i w_i φ(choices_i, retval_i)] = rvTarget stages φ none`: the nested sum, stage by
    stage, over the completions `y_t ⊇ obs_t` of `p_t(y_t | outcome_{t-1})`, ending in `φ`.  The
    proposals do not appear on the right-hand side.  `RvStage.OK`: the hypotheses of
    `C10_init_default_properly_weighted` resp. `C10_init_proposal_properly_weighted` at every stage. -/
theorem C10_gfi_sequence_unbiased (hpd : pd.WF) (hnorm : pd.Normalised)
    (stages : List (RvStage K)) (hok : ∀ rs ∈ stages, rs.OK pd P cfg) (N : Nat)
    (hN : (N : K) ≠ 0) (htrig : ∀ rs ∈ stages, ∀ ws, rs.trigger ws = true → sumK ws ≠ 0)
    (φ : Option (CM × Val) → K) :
    E (runSteps (stages.map fun rs => (rs.toStage (R := R)).toStep pd P cfg) (startSys N))
        (fun s' => s'.est (retvalTest φ))
      = rvTarget pd stages φ none :=
  gfi_sequence_unbiased pd P cfg hpd hnorm stages hok N hN htrig φ

/-- with `φ = 1`: **`E[exp(log_marginal_likelihood())]` = the marginal likelihood of the whole
    observation sequence** under the sequence model the stages define -/
theorem C10_gfi_sequence_lml (hpd : pd.WF) (hnorm : pd.Normalised)
    (stages : List (RvStage K)) (hok : ∀ rs ∈ stages, rs.OK pd P cfg) (N : Nat)
    (hN : (N : K) ≠ 0) (htrig : ∀ rs ∈ stages, ∀ ws, rs.trigger ws = true → sumK ws ≠ 0) :
    E (runSteps (stages.map fun rs => (rs.toStage (R := R)).toStep pd P cfg) (startSys N))
        (fun s' => s'.lml)
      = rvTarget pd stages (fun _ => 1) none :=
  gfi_sequence_lml pd P cfg hpd hnorm stages hok N hN htrig

end C10Init

/-! ### non-vacuity and counterexamples (exact rationals, primitives `lawExPD`)

  target `initExTarget`: `a ~ coin(1/3); b ~ coin(1/4 + a/2); y ~ coin(1/8 + a/2 + b/4)`, constraint
  `{y: 1}`; evidence `P(y = 1) = 2/3·(3/4·1/8 + 1/4·3/8) + 1/3·(1/4·5/8 + 3/4·7/8) = 19/48`. -/

/-- default proposal: all hypotheses of `C10_init_default_evidence` /
    `C10_init_default_properly_weighted`, and both sides computed; with the observable
    `F(choices, retval) = retval` too -/
example : lawExPD.WF ∧ lawExPD.Normalised ∧ initExTarget.condOK = true ∧
    initExTarget.vmapOK Cfg.asis = true ∧ initExYs.Nodup ∧
    (∀ t : Tr Int, some t ∈ supp (initExTarget.simD lawExPD lawExP []) →
      ∃ y ∈ initExYs, t.choices = some y) ∧
    (∀ y ∈ initExYs, initExTarget.skel = some y.skel) ∧
    E (initParticleD lawExPD lawExP Cfg.asis initExTarget [] initExObs none)
      (optK fun tw => tw.2) = 19/48 ∧
    sumK (initExYs.map fun y => if y.agreeWith initExObs
      then pmassOf (initExTarget.assessP lawExPD y []) else 0) = 19/48 ∧
    E (initParticleD lawExPD lawExP Cfg.asis initExTarget [] initExObs none)
      (optK fun tw => tw.2 * obsF (fun _ r => r.toRat) tw.1) = 53/96 ∧
    sumK (initExYs.map fun y => if y.agreeWith initExObs
      then massOf (initExTarget.assessP lawExPD y []) (fun r => r.toRat) else 0) = 53/96 := by
  refine ⟨lawExPD_wf, lawExPD_normalised, by decide +kernel, by decide +kernel, by decide +kernel,
    covers_of_coversB _ _ (by decide +kernel), by decide +kernel, by decide +kernel,
    by decide +kernel, by decide +kernel, by decide +kernel⟩

/-- PARTIAL proposal (`initExQa` proposes `a` only; `b` is filled by `generate` from the prior): all
    hypotheses of `C10_init_proposal_properly_weighted` (the merge hypothesis through
    `C10_merge_disjoint`), and the left-hand sides computed: `E[w] = 19/48`, `E[w · retval] = 53/96`,
    the same values as for the default proposal -/
example : initExQa.noCollide = true ∧ initExQa.condOK = true ∧ initExZa.Nodup ∧
    (∀ t : Tr Int, some t ∈ supp (initExQa.simD lawExPD lawExP []) →
      ∃ z ∈ initExZa, t.choices = some z) ∧
    (∀ z ∈ initExZa, initExQa.skel = some z.skel) ∧
    (∀ z ∈ initExZa, CM.disjB initExObs z = true) ∧
    (∀ y ∈ initExYs, ∀ z1 ∈ initExZa, ∀ z2 ∈ initExZa,
      y.agreeWith z1 = true → y.agreeWith z2 = true → z1 = z2) ∧
    (∀ y ∈ initExYs, y.agreeWith initExObs = true →
      pmassOf (initExTarget.assessP lawExPD y []) ≠ 0 →
      ∃ z ∈ initExZa, y.agreeWith z = true ∧ pmassOf (initExQa.assessP lawExPD z []) ≠ 0) ∧
    E (initParticleD lawExPD lawExP Cfg.asis initExTarget [] initExObs (some (initExQa, [])))
      (optK fun tw => tw.2) = 19/48 ∧
    E (initParticleD lawExPD lawExP Cfg.asis initExTarget [] initExObs (some (initExQa, [])))
      (optK fun tw => tw.2 * obsF (fun _ r => r.toRat) tw.1) = 53/96 := by
  refine ⟨by decide +kernel, by decide +kernel, by decide +kernel,
    covers_of_coversB _ _ (by decide +kernel), by decide +kernel, by decide +kernel,
    by decide +kernel, by decide +kernel, by decide +kernel, by decide +kernel⟩

/-- partial proposal for the DEPENDENT latent (`initExQb` proposes `b` only; `a`, on which `b`'s
    prior depends, is filled by `generate`): hypotheses and `E[w] = 19/48` -/
example : initExQb.noCollide = true ∧ initExQb.condOK = true ∧ initExZb.Nodup ∧
    (∀ t : Tr Int, some t ∈ supp (initExQb.simD lawExPD lawExP []) →
      ∃ z ∈ initExZb, t.choices = some z) ∧
    (∀ z ∈ initExZb, initExQb.skel = some z.skel) ∧
    (∀ z ∈ initExZb, CM.disjB initExObs z = true) ∧
    (∀ y ∈ initExYs, ∀ z1 ∈ initExZb, ∀ z2 ∈ initExZb,
      y.agreeWith z1 = true → y.agreeWith z2 = true → z1 = z2) ∧
    (∀ y ∈ initExYs, y.agreeWith initExObs = true →
      pmassOf (initExTarget.assessP lawExPD y []) ≠ 0 →
      ∃ z ∈ initExZb, y.agreeWith z = true ∧ pmassOf (initExQb.assessP lawExPD z []) ≠ 0) ∧
    E (initParticleD lawExPD lawExP Cfg.asis initExTarget [] initExObs (some (initExQb, [])))
      (optK fun tw => tw.2) = 19/48 := by
  refine ⟨by decide +kernel, by decide +kernel, by decide +kernel,
    covers_of_coversB _ _ (by decide +kernel), by decide +kernel, by decide +kernel,
    by decide +kernel, by decide +kernel, by decide +kernel⟩

/-- FULL proposal (`initExQab` proposes both latents, `b` depending on `a`): hypotheses and
    `E[w] = 19/48`; and the same proposal in `extend` (proposal second in the merge) -/
example : initExQab.noCollide = true ∧ initExQab.condOK = true ∧ initExZab.Nodup ∧
    (∀ t : Tr Int, some t ∈ supp (initExQab.simD lawExPD lawExP []) →
      ∃ z ∈ initExZab, t.choices = some z) ∧
    (∀ z ∈ initExZab, initExQab.skel = some z.skel) ∧
    (∀ z ∈ initExZab, CM.disjB initExObs z = true) ∧
    (∀ y ∈ initExYs, ∀ z1 ∈ initExZab, ∀ z2 ∈ initExZab,
      y.agreeWith z1 = true → y.agreeWith z2 = true → z1 = z2) ∧
    (∀ y ∈ initExYs, y.agreeWith initExObs = true →
      pmassOf (initExTarget.assessP lawExPD y []) ≠ 0 →
      ∃ z ∈ initExZab, y.agreeWith z = true ∧ pmassOf (initExQab.assessP lawExPD z []) ≠ 0) ∧
    E (initParticleD lawExPD lawExP Cfg.asis initExTarget [] initExObs (some (initExQab, [])))
      (optK fun tw => tw.2) = 19/48 ∧
    E (extendParticleD lawExPD lawExP Cfg.asis initExTarget [] initExObs (some (initExQab, [])))
      (optK fun tw => tw.2) = 19/48 ∧
    E (extendParticleD lawExPD lawExP Cfg.asis initExTarget [] initExObs (some (initExQa, [])))
      (optK fun tw => ((2 : ℚ) * tw.2) * obsF (fun _ r => r.toRat) tw.1) = 2 * (53/96) := by
  refine ⟨by decide +kernel, by decide +kernel, by decide +kernel,
    covers_of_coversB _ _ (by decide +kernel), by decide +kernel, by decide +kernel,
    by decide +kernel, by decide +kernel, by decide +kernel, by decide +kernel, by decide +kernel⟩

/-- the weight formula on one outcome: proposal `a = 1` (`q(z) = 3/5`), merged constraint
    `{a: 1, y: 1}`, outcome `y = {a: 1, b: 1, y: 1}` with `b` FILLED by `generate`
    (`fillProb = P(b = 1 | a = 1) = 3/4`), joint `p(y) = 1/3 · 3/4 · 7/8 = 7/32`: on every run ending
    in `y` the total weight is `W = (1/3 · 7/8) / (3/5) = 35/72`, and
    `W · q(z) · fillProb = 35/72 · 3/5 · 3/4 = 7/32 = p(y)` (hypotheses and both sides of
    `C10_init_proposal_weight_formula` / `_run`), whereas `p(y) / q(z) = 35/96 ≠ W` -/
example :
    smcMerge true initExObs (.node (.cons "a" (.leaf (.num 1)) .nil))
      = some (.node (.cons "a" (.leaf (.num 1)) (.cons "y" (.leaf (.num 1)) .nil))) ∧
    initExQa.assessP lawExPD (.node (.cons "a" (.leaf (.num 1)) .nil)) [] = some (3/5, .num 1) ∧
    initExTarget.skel = some (initExY 1 1 1).skel ∧ initExTarget.condOK = true ∧
    (∀ tw : Tr Int × ℚ, some tw ∈ supp (afterProposalD lawExPD lawExP Cfg.asis true initExTarget []
        initExObs initExQa [] (.node (.cons "a" (.leaf (.num 1)) .nil))) →
      (decide (tw.1.choices = some (initExY 1 1 1) → tw.2 = 35/72)) = true) ∧
    fillProb lawExPD (lawExP) Cfg.asis initExTarget
      (some (.node (.cons "a" (.leaf (.num 1)) (.cons "y" (.leaf (.num 1)) .nil)))) []
      (initExY 1 1 1) = 3/4 ∧
    pmassOf (initExTarget.assessP lawExPD (initExY 1 1 1) []) = 7/32 ∧
    (35/72 : ℚ) * (3/5 * (3/4)) = 7/32 ∧ (7/32 : ℚ) / (3/5) ≠ 35/72 := by
  refine ⟨by decide +kernel, by decide +kernel, by decide +kernel, by decide +kernel,
    forall_supp_of_allB _ _ (by decide +kernel), by decide +kernel, by decide +kernel,
    by norm_num, by norm_num⟩

/-- **The regression's weight formula is NOT properly weighted for a partial proposal.**
    `wrongParticleD` computes `log_weight = proposal_score − trace.get_score()`, i.e. the FULL joint
    `p(y)` of the generated trace divided by the proposal mass `q(z)` (seeded change C10_3).  With the
    proposal for `a` only, the prior mass of the site `b` that `generate` fills is not divided out:
    `E[w] = 23/96 ≠ 19/48`; with the proposal for `b` only `E[w] = 25/144 ≠ 19/48`; only when the
    proposal and the constraints cover EVERY address (`initExQab`) the two formulas coincide
    (`E[w] = 19/48`).  The formula of the code, `generate weight / q(z)`, gives the evidence `19/48`
    in all three cases (examples above). -/
theorem C10_init_wrong_formula_cex :
    E (wrongParticleD lawExPD lawExP Cfg.asis true initExTarget [] initExObs initExQa [])
      (optK fun tw => tw.2) = 23/96 ∧
    E (wrongParticleD lawExPD lawExP Cfg.asis true initExTarget [] initExObs initExQb [])
      (optK fun tw => tw.2) = 25/144 ∧
    E (wrongParticleD lawExPD lawExP Cfg.asis true initExTarget [] initExObs initExQab [])
      (optK fun tw => tw.2) = 19/48 ∧
    E (initParticleD lawExPD lawExP Cfg.asis initExTarget [] initExObs (some (initExQa, [])))
      (optK fun tw => tw.2) = 19/48 ∧
    sumK (initExYs.map fun y => if y.agreeWith initExObs
      then pmassOf (initExTarget.assessP lawExPD y []) else 0) = 19/48 ∧
    (23/96 : ℚ) ≠ 19/48 ∧ (25/144 : ℚ) ≠ 19/48 := by
  refine ⟨by decide +kernel, by decide +kernel, by decide +kernel, by decide +kernel,
    by decide +kernel, by norm_num, by norm_num⟩

/-- **The disjointness hypothesis cannot be dropped**: a proposal that also proposes the OBSERVED
    address (`initExQay`: `a ~ coin(3/5); y ~ coin(1/2)`) has its `y` overridden by the constraint in
    the merge of `init`, but its mass is still divided out: `E[w] = 19/24`, twice the evidence (once
    per value of the discarded draw).  `CM.disjB` rejects it. -/
theorem C10_init_overlap_cex :
    E (initParticleD lawExPD lawExP Cfg.asis initExTarget [] initExObs (some (initExQay, [])))
      (optK fun tw => tw.2) = 19/24 ∧
    CM.disjB initExObs
      (.node (.cons "a" (.leaf (.num 0)) (.cons "y" (.leaf (.num 0)) .nil))) = false := by
  refine ⟨by decide +kernel, by decide +kernel⟩

/-- **Domination cannot be dropped**: the proposal `a ~ coin(1)` never proposes `a = 0`, although
    the completions of the constraint with `a = 0` have non-zero joint mass (`hdom` fails); the
    particle then only accounts for `a = 1`: `E[w] = P(a = 1, y = 1) = 1/3 · 13/16 = 13/48 < 19/48`. -/
theorem C10_init_no_domination_cex :
    E (initParticleD lawExPD lawExP Cfg.asis initExTarget [] initExObs (some (initExQa1, [])))
      (optK fun tw => tw.2) = 13/48 ∧
    ¬ (∀ y ∈ initExYs, y.agreeWith initExObs = true →
      pmassOf (initExTarget.assessP lawExPD y []) ≠ 0 →
      ∃ z ∈ initExZa, y.agreeWith z = true ∧ pmassOf (initExQa1.assessP lawExPD z []) ≠ 0) := by
  refine ⟨by decide +kernel, by decide +kernel⟩

/-- a two-stage sequence model (`seqExStep`: `x ~ coin(1/4 + prev/2); y ~ coin(1/8 + x/2)`, the
    return value `x` is the next stage's argument), observations `y₁ = 1, y₂ = 0`: all hypotheses of
    `C10_gfi_sequence_lml`, the right-hand side computed (`19/128`), and the left-hand side computed
    for `N = 2` particles by running the particle system (init, resample-if-needed, extend,
    resample-if-needed) exhaustively - with the default proposal in both stages, and with the custom
    proposal `seqExQ` (`x ~ coin(3/5)`) in the `extend` stage -/
example : lawExPD.WF ∧ lawExPD.Normalised ∧
    (∀ rs ∈ [seqExStage 1, seqExStage 0], rs.OK lawExPD lawExP Cfg.asis) ∧
    (∀ rs ∈ [seqExStage 1, seqExStageQ 0], rs.OK lawExPD lawExP Cfg.asis) ∧
    (∀ rs ∈ [seqExStage 1, seqExStage 0, seqExStageQ 0], ∀ ws, rs.trigger ws = true → sumK ws ≠ 0) ∧
    rvTarget lawExPD [seqExStage 1, seqExStage 0] (fun _ => 1) none = 19/128 ∧
    rvTarget lawExPD [seqExStage 1, seqExStageQ 0] (fun _ => 1) none = 19/128 ∧
    E (runSteps ([seqExStage 1, seqExStage 0].map fun rs =>
          (rs.toStage (R := Int)).toStep lawExPD lawExP Cfg.asis) (startSys 2))
      (fun s' => s'.lml) = 19/128 ∧
    E (runSteps ([seqExStage 1, seqExStageQ 0].map fun rs =>
          (rs.toStage (R := Int)).toStep lawExPD lawExP Cfg.asis) (startSys 2))
      (fun s' => s'.lml) = 19/128 := by
  have hys : ∀ r : Option (CM × Val), seqExYs.Nodup ∧
      (∀ t : Tr Int, some t ∈ supp (seqExStep.simD lawExPD lawExP [(r.map (·.2)).getD (.num 0)]) →
        ∃ y ∈ seqExYs, t.choices = some y) ∧
      (∀ y ∈ seqExYs, seqExStep.skel = some y.skel) := fun r =>
    ⟨by decide +kernel, covers_of_coversB _ _ rfl, by decide +kernel⟩
  have hok : ∀ o : Rat, (seqExStage o).OK lawExPD lawExP Cfg.asis := fun o =>
    ⟨show seqExStep.condOK = true by decide +kernel,
      show seqExStep.vmapOK Cfg.asis = true by decide +kernel, hys,
      fun qa h => by simp [seqExStage] at h⟩
  have hokQ : (seqExStageQ 0).OK lawExPD lawExP Cfg.asis := by
    refine ⟨show seqExStep.condOK = true by decide +kernel,
      show seqExStep.vmapOK Cfg.asis = true by decide +kernel, hys, ?_⟩
    intro qa h
    have hqa : qa = (seqExQ, fun _ => []) := by
      simp only [seqExStageQ, Option.some.injEq] at h
      exact h.symm
    subst hqa
    refine ⟨by decide +kernel, by decide +kernel, fun r =>
      ⟨show seqExZ.Nodup by decide +kernel, covers_of_coversB _ _ rfl,
        show ∀ z ∈ seqExZ, seqExQ.skel = some z.skel by decide +kernel,
        hmerge_of_disjoint false _ seqExZ seqExYs (by decide +kernel),
        show ∀ y ∈ seqExYs, ∀ z1 ∈ seqExZ, ∀ z2 ∈ seqExZ,
          y.agreeWith z1 = true → y.agreeWith z2 = true → z1 = z2 by decide +kernel, ?_⟩⟩
    have hd : ∀ y ∈ seqExYs, ∃ z ∈ seqExZ, y.agreeWith z = true
        ∧ pmassOf (seqExQ.assessP lawExPD z []) ≠ 0 := by decide +kernel
    intro y hy _ _
    exact hd y hy
  have htr : ∀ ws : List Rat,
      (decide (sumK ws ≠ 0) && decide (sumK ws < 1/2)) = true → sumK ws ≠ 0 := by
    intro ws h
    simp only [Bool.and_eq_true, decide_eq_true_eq] at h
    exact h.1
  refine ⟨lawExPD_wf, lawExPD_normalised, ?_, ?_, ?_, by decide +kernel, by decide +kernel,
    by decide +kernel, by decide +kernel⟩
  · intro rs hrs
    simp only [List.mem_cons, List.not_mem_nil, or_false] at hrs
    rcases hrs with rfl | rfl <;> exact hok _
  · intro rs hrs
    simp only [List.mem_cons, List.not_mem_nil, or_false] at hrs
    rcases hrs with rfl | rfl
    · exact hok _
    · exact hokQ
  · intro rs hrs
    simp only [List.mem_cons, List.not_mem_nil, or_false] at hrs
    rcases hrs with rfl | rfl | rfl <;> exact htr

end Genjax.Smc
/-! ==============================================================================================
    END work package `c10init`
    ============================================================================================== -/
