import GenjaxModel.Proofs.Smc
/-!
# C10 — SMC particles are properly weighted; the evidence estimate is unbiased

Model `Model/Smc.lean` (linear domain, finite-support randomness so expectations are exact sums).
`Sys.est φ = acc · (1/N) Σ_i w_i φ(x_i)` is the estimate-weighted particle average;
`Sys.lml` (= exp(log_marginal_likelihood())) is the case φ = 1. All statements hold for every
finite model/proposal (any field), every particle count N with (N : K) ≠ 0, every pipeline length.
-/
namespace Genjax.Smc
open FinDist
variable {K : Type} [Field K] {X : Type}

/-- one importance-sampling step (init with a proposal q): E_q[p/q] = Σ p -/
theorem C10_importance_weight_unbiased (xs : List X) (p q : X → K) (hq : ∀ x ∈ xs, q x ≠ 0) :
    E (xs.map fun x => (x, q x)) (fun x => p x / q x) = sumK (xs.map p) := is_unbiased xs p q hq

/-- extend / init: the new weight is old weight × p_incr/q and acc is untouched; in expectation the
    estimate of φ becomes the estimate of the incremental kernel applied to φ (proper weighting) -/
theorem C10_extend_properly_weighted (q : X → FinDist K X) (G : X → X → K) (s : Sys K X)
    (hq : ∀ x, mass (q x) = 1) (φ : X → K) :
    E (extendStep q G s) (fun s' => s'.est φ) = s.est (fun x => E (q x) (fun x' => G x x' * φ x')) :=
  extend_est q G s hq φ

/-- rejuvenation moves leave weights and the accumulated estimate untouched -/
theorem C10_rejuvenate_keeps_weights (k : X → FinDist K X) (s : Sys K X) (hk : ∀ x, mass (k x) = 1)
    (φ : X → K) :
    E (rejuvenateStep k s) (fun s' => s'.est φ) = s.est (fun x => E (k x) φ) :=
  rejuvenate_est k s hk φ

/-- (adaptive) multinomial resampling preserves every estimate-weighted average in expectation -/
theorem C10_resample_unbiased (trigger : List K → Bool) (s : Sys K X) (hn : (s.parts.length : K) ≠ 0)
    (ht : sumK (s.parts.map (·.2)) ≠ 0) (φ : X → K) :
    E (maybeResample trigger s) (fun s' => s'.est φ) = s.est φ := maybeResample_est trigger s hn ht φ

/-- **Unbiasedness of SMC**: for every pipeline of extend / adaptive resample / rejuvenate steps,
    every N, every test function φ: E[acc·(1/N)Σ w_i φ(x_i)] equals the same estimator of the
    pulled-back function before the pipeline. With φ = 1 and the initial system this reads
    E[exp(log_marginal_likelihood())] = marginal likelihood of the observations, after every step. -/
theorem C10_smc_unbiased (steps : List (Step K X)) (s : Sys K X)
    (hN : (s.parts.length : K) ≠ 0)
    (hq : ∀ st ∈ steps, ∀ x, mass (st.q x) = 1) (hk : ∀ st ∈ steps, ∀ x, mass (st.k x) = 1)
    (htrig : ∀ st ∈ steps, ∀ ws, st.trigger ws = true → sumK ws ≠ 0) (φ : X → K) :
    E (runSteps steps s) (fun s' => s'.est φ) = s.est (pull steps φ) :=
  smc_unbiased steps s hN hq hk htrig φ

end Genjax.Smc
