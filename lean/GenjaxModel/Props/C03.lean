import GenjaxModel.Proofs.GfiCohInv
import GenjaxModel.Proofs.GfiAssess
import GenjaxModel.Proofs.GfiWeight
import GenjaxModel.Proofs.GfiAssessCond
/-!
# C03 — update returns the density ratio, keeps unconstrained choices, and is invertible
-/
namespace Genjax
variable {R : Type} [AddCommGroup R] (P : Prims R) (cfg : Cfg)

/-- update returns a coherent trace under the new arguments -/
theorem C03_update_coherent (g : GF) (t : Tr R) (x : Option CM) (args : List Val) (t' : Tr R)
    (w : R) (d : Option CM) (h : g.update P cfg t x args = some (t', w, d)) : g.Coh P args t' :=
  update_coh P cfg g t x args t' w d h

/-- Specification variant of Cond.update: weight = score(old) − score(new) for *every* program,
    also when the change switches the branch taken by a Cond. -/
theorem C03_update_weight_spec (hc : cfg.condSwitchCorrection = true)
    (g : GF) (args0 : List Val) (t : Tr R) (ht : g.Coh P args0 t)
    (x : Option CM) (args : List Val) (t' : Tr R) (w : R) (d : Option CM)
    (h : g.update P cfg t x args = some (t', w, d)) : w = t.score + -t'.score :=
  update_weight_spec P cfg hc g args0 t ht x args t' w d h

/-- The code as it is (any `cfg`): same identity whenever no Cond switches branch.
    `_partial`: the side condition `sameChecks` carves out the defective region, see
    `C03_asis_cond_switch_cex`. -/
theorem C03_update_weight_partial
    (g : GF) (args0 : List Val) (t : Tr R) (ht : g.Coh P args0 t)
    (x : Option CM) (args : List Val) (t' : Tr R) (w : R) (d : Option CM)
    (h : g.update P cfg t x args = some (t', w, d)) (hs : Tr.sameChecks t t') :
    w = t.score + -t'.score :=
  update_weight_noswitch P cfg g args0 t ht x args t' w d h hs

/-- In terms of `assess` (Cond-free programs, specification variant of the Cond flag — which a
    Cond-free program never consults): weight = log p(new choices; new args) − log p(old choices; old args).
    Superseded by `C03_update_weight_assess` below (every program). -/
theorem C03_update_weight_assess_partial (hc : cfg.condSwitchCorrection = true)
    (g : GF) (hg : g.condFree = true)
    (args0 : List Val) (t : Tr R) (ht : g.Coh P args0 t) (x0 : CM) (hx0 : t.choices = some x0)
    (x : Option CM) (args : List Val) (t' : Tr R) (w : R) (d : Option CM)
    (h : g.update P cfg t x args = some (t', w, d)) :
    ∃ x1 lp1 lp0 r1 r0, t'.choices = some x1 ∧ g.assess P x1 args = some (lp1, r1) ∧
      g.assess P x0 args0 = some (lp0, r0) ∧ w = lp1 + -lp0 := by
  obtain ⟨x1, hx1⟩ := update_choices_some P cfg g hg t x args t' w d h
  have h1 := coh_assess_partial P g hg args t' (update_coh P cfg g t x args t' w d h) x1 hx1
  have h0 := coh_assess_partial P g hg args0 t ht x0 hx0
  refine ⟨x1, _, _, _, _, hx1, h1, h0, ?_⟩
  have hw : w = t.score + -t'.score := update_weight_spec P cfg hc g args0 t ht x args t' w d h
  rw [hw]; abel

/-- In terms of `assess`, EVERY program (Cond at any depth), specification variant of Cond.update
    (`cfg.condSwitchCorrection`): weight = log p(new choices; new args) − log p(old choices; old args),
    ALSO when the update switches the branch taken by a Cond.  `hx0`, `hx1` = "`get_choices()` does
    not raise" on the old / new trace.  Supersedes `C03_update_weight_assess_partial`. -/
theorem C03_update_weight_assess (hc : cfg.condSwitchCorrection = true)
    (g : GF) (args0 : List Val) (t : Tr R) (ht : g.Coh P args0 t) (x0 : CM) (hx0 : t.choices = some x0)
    (x : Option CM) (args : List Val) (t' : Tr R) (w : R) (d : Option CM)
    (h : g.update P cfg t x args = some (t', w, d)) (x1 : CM) (hx1 : t'.choices = some x1) :
    ∃ lp1 lp0, g.assess P x1 args = some (lp1, t'.retval) ∧
      g.assess P x0 args0 = some (lp0, t.retval) ∧ w = lp1 + -lp0 := by
  have h1 := coh_assess P g args t' (update_coh P cfg g t x args t' w d h) x1 hx1
  have h0 := coh_assess P g args0 t ht x0 hx0
  refine ⟨_, _, h1, h0, ?_⟩
  have hw : w = t.score + -t'.score := update_weight_spec P cfg hc g args0 t ht x args t' w d h
  rw [hw]; abel

/-- the updated trace's choice map has the program's static skeleton (exists iff that exists) -/
theorem C03_update_choices_skel (g : GF) (t : Tr R) (x : Option CM) (args : List Val) (t' : Tr R)
    (w : R) (d : Option CM) (h : g.update P cfg t x args = some (t', w, d)) :
    t'.choices.map CM.skel = g.skel :=
  update_choices_skel P cfg g t x args t' w d h

/-- the same with the conclusion of `C03_update_weight_assess_partial`, for programs whose Cond
    branches are compatible (the new trace's choice map then exists) -/
theorem C03_update_weight_assess_compat (hc : cfg.condSwitchCorrection = true)
    (g : GF) (hs : g.skel.isSome)
    (args0 : List Val) (t : Tr R) (ht : g.Coh P args0 t) (x0 : CM) (hx0 : t.choices = some x0)
    (x : Option CM) (args : List Val) (t' : Tr R) (w : R) (d : Option CM)
    (h : g.update P cfg t x args = some (t', w, d)) :
    ∃ x1 lp1 lp0 r1 r0, t'.choices = some x1 ∧ g.assess P x1 args = some (lp1, r1) ∧
      g.assess P x0 args0 = some (lp0, r0) ∧ w = lp1 + -lp0 := by
  obtain ⟨x1, hx1⟩ := choices_of_skel (update_choices_skel P cfg g t x args t' w d h) hs
  obtain ⟨lp1, lp0, h1, h0, hw⟩ :=
    C03_update_weight_assess P cfg hc g args0 t ht x0 hx0 x args t' w d h x1 hx1
  exact ⟨x1, lp1, lp0, _, _, hx1, h1, h0, hw⟩

/-- non-vacuity, with a branch switch: the Cond program `condExG` simulated with check = 1 and updated
    to check = 0 with `"x"` constrained; all hypotheses hold and the weight is the density
    difference (9 → 35). -/
example : ∃ t t' w d x0 x1, condExG.simulate condExP [.num 1, .num 7] = some t ∧
    t.choices = some x0 ∧
    condExG.update condExP Cfg.spec t (some (.node (.cons "x" (.leaf (.num 10)) .nil)))
      [.num 0, .num 7] = some (t', w, d) ∧
    t'.choices = some x1 ∧
    condExG.assess condExP x0 [.num 1, .num 7] = some (9, .num 4) ∧
    condExG.assess condExP x1 [.num 0, .num 7] = some (43, t'.retval) ∧ w = 43 + -9 :=
  ⟨_, _, _, _, _, _, rfl, rfl, rfl, rfl, rfl, rfl, rfl⟩

end Genjax
