import GenjaxModel.Proofs.GfiCohInv
import GenjaxModel.Proofs.GfiAssess
import GenjaxModel.Proofs.GfiWeight
/-!
# C03 — update returns the density ratio, keeps unconstrained choices, and is invertible
-/
namespace Genjax
variable {R : Type} [AddCommGroup R] (P : Prims R) (cfg : Cfg)

/-- update returns a coherent trace under the new arguments -/
theorem C03_update_coherent (g : GF) (t : Tr R) (x : Option CM) (args : List Val) (t' : Tr R)
    (w : R) (d : Option CM) (h : g.update P cfg t x args = some (t', w, d)) : g.Coh P args t' :=
  update_coh P cfg g t x args t' w d h

/-- Specification variant of Cond.update: weight = score(old) − score(new) for *every* program,
    also when the change switches the branch taken by a Cond. -/
theorem C03_update_weight_spec (hc : cfg.condSwitchCorrection = true)
    (g : GF) (args0 : List Val) (t : Tr R) (ht : g.Coh P args0 t)
    (x : Option CM) (args : List Val) (t' : Tr R) (w : R) (d : Option CM)
    (h : g.update P cfg t x args = some (t', w, d)) : w = t.score + -t'.score :=
  update_weight_spec P cfg hc g args0 t ht x args t' w d h

/-- The code as it is (any `cfg`): same identity whenever no Cond switches branch.
    `_partial`: the side condition `sameChecks` carves out the defective region, see
    `C03_asis_cond_switch_cex`. -/
theorem C03_update_weight_partial
    (g : GF) (args0 : List Val) (t : Tr R) (ht : g.Coh P args0 t)
    (x : Option CM) (args : List Val) (t' : Tr R) (w : R) (d : Option CM)
    (h : g.update P cfg t x args = some (t', w, d)) (hs : Tr.sameChecks t t') :
    w = t.score + -t'.score :=
  update_weight_noswitch P cfg g args0 t ht x args t' w d h hs

/-- In terms of `assess` (Cond-free programs, specification variant of the Cond flag — which a
    Cond-free program never consults): weight = log p(new choices; new args) − log p(old choices; old args). -/
theorem C03_update_weight_assess_partial (hc : cfg.condSwitchCorrection = true)
    (g : GF) (hg : g.condFree = true)
    (args0 : List Val) (t : Tr R) (ht : g.Coh P args0 t) (x0 : CM) (hx0 : t.choices = some x0)
    (x : Option CM) (args : List Val) (t' : Tr R) (w : R) (d : Option CM)
    (h : g.update P cfg t x args = some (t', w, d)) :
    ∃ x1 lp1 lp0 r1 r0, t'.choices = some x1 ∧ g.assess P x1 args = some (lp1, r1) ∧
      g.assess P x0 args0 = some (lp0, r0) ∧ w = lp1 + -lp0 := by
  obtain ⟨x1, hx1⟩ := update_choices_some P cfg g hg t x args t' w d h
  have h1 := coh_assess_partial P g hg args t' (update_coh P cfg g t x args t' w d h) x1 hx1
  have h0 := coh_assess_partial P g hg args0 t ht x0 hx0
  refine ⟨x1, _, _, _, _, hx1, h1, h0, ?_⟩
  have hw : w = t.score + -t'.score := update_weight_spec P cfg hc g args0 t ht x args t' w d h
  rw [hw]; abel

end Genjax
