import GenjaxModel.Proofs.GfiCohInv
import GenjaxModel.Proofs.GfiAssess
import GenjaxModel.Proofs.GfiWeight
import GenjaxModel.Proofs.GfiAssessCond
import GenjaxModel.Proofs.GfiValues
/-!
# C03 — update returns the density ratio, keeps unconstrained choices, and is invertible
-/
namespace Genjax
variable {R : Type} [AddCommGroup R] (P : Prims R) (cfg : Cfg)

/-- update returns a coherent trace under the new arguments -/
theorem C03_update_coherent (g : GF) (t : Tr R) (x : Option CM) (args : List Val) (t' : Tr R)
    (w : R) (d : Option CM) (h : g.update P cfg t x args = some (t', w, d)) : g.Coh P args t' :=
  update_coh P cfg g t x args t' w d h

/-- Specification variant of Cond.update: weight = score(old) − score(new) for *every* program,
    also when the change switches the branch taken by a Cond. -/
theorem C03_update_weight_spec (hc : cfg.condSwitchCorrection = true)
    (g : GF) (args0 : List Val) (t : Tr R) (ht : g.Coh P args0 t)
    (x : Option CM) (args : List Val) (t' : Tr R) (w : R) (d : Option CM)
    (h : g.update P cfg t x args = some (t', w, d)) : w = t.score + -t'.score :=
  update_weight_spec P cfg hc g args0 t ht x args t' w d h

/-- The code as it is (any `cfg`): same identity whenever no Cond switches branch.
    `_partial`: the side condition `sameChecks` carves out the defective region, see
    `C03_asis_cond_switch_cex`. -/
theorem C03_update_weight_partial
    (g : GF) (args0 : List Val) (t : Tr R) (ht : g.Coh P args0 t)
    (x : Option CM) (args : List Val) (t' : Tr R) (w : R) (d : Option CM)
    (h : g.update P cfg t x args = some (t', w, d)) (hs : Tr.sameChecks t t') :
    w = t.score + -t'.score :=
  update_weight_noswitch P cfg g args0 t ht x args t' w d h hs

/-- In terms of `assess` (Cond-free programs, specification variant of the Cond flag — which a
    Cond-free program never consults): weight = log p(new choices; new args) − log p(old choices; old args).
    Superseded by `C03_update_weight_assess` below (every program). -/
theorem C03_update_weight_assess_partial (hc : cfg.condSwitchCorrection = true)
    (g : GF) (hg : g.condFree = true)
    (args0 : List Val) (t : Tr R) (ht : g.Coh P args0 t) (x0 : CM) (hx0 : t.choices = some x0)
    (x : Option CM) (args : List Val) (t' : Tr R) (w : R) (d : Option CM)
    (h : g.update P cfg t x args = some (t', w, d)) :
    ∃ x1 lp1 lp0 r1 r0, t'.choices = some x1 ∧ g.assess P x1 args = some (lp1, r1) ∧
      g.assess P x0 args0 = some (lp0, r0) ∧ w = lp1 + -lp0 := by
  obtain ⟨x1, hx1⟩ := update_choices_some P cfg g hg t x args t' w d h
  have h1 := coh_assess_partial P g hg args t' (update_coh P cfg g t x args t' w d h) x1 hx1
  have h0 := coh_assess_partial P g hg args0 t ht x0 hx0
  refine ⟨x1, _, _, _, _, hx1, h1, h0, ?_⟩
  have hw : w = t.score + -t'.score := update_weight_spec P cfg hc g args0 t ht x args t' w d h
  rw [hw]; abel

/-- In terms of `assess`, EVERY program (Cond at any depth), specification variant of Cond.update
    (`cfg.condSwitchCorrection`): weight = log p(new choices; new args) − log p(old choices; old args),
    ALSO when the update switches the branch taken by a Cond.  `hx0`, `hx1` = "`get_choices()` does
    not raise" on the old / new trace.  Supersedes `C03_update_weight_assess_partial`. -/
theorem C03_update_weight_assess (hc : cfg.condSwitchCorrection = true)
    (g : GF) (args0 : List Val) (t : Tr R) (ht : g.Coh P args0 t) (x0 : CM) (hx0 : t.choices = some x0)
    (x : Option CM) (args : List Val) (t' : Tr R) (w : R) (d : Option CM)
    (h : g.update P cfg t x args = some (t', w, d)) (x1 : CM) (hx1 : t'.choices = some x1) :
    ∃ lp1 lp0, g.assess P x1 args = some (lp1, t'.retval) ∧
      g.assess P x0 args0 = some (lp0, t.retval) ∧ w = lp1 + -lp0 := by
  have h1 := coh_assess P g args t' (update_coh P cfg g t x args t' w d h) x1 hx1
  have h0 := coh_assess P g args0 t ht x0 hx0
  refine ⟨_, _, h1, h0, ?_⟩
  have hw : w = t.score + -t'.score := update_weight_spec P cfg hc g args0 t ht x args t' w d h
  rw [hw]; abel

/-- the updated trace's choice map has the program's static skeleton (exists iff that exists) -/
theorem C03_update_choices_skel (g : GF) (t : Tr R) (x : Option CM) (args : List Val) (t' : Tr R)
    (w : R) (d : Option CM) (h : g.update P cfg t x args = some (t', w, d)) :
    t'.choices.map CM.skel = g.skel :=
  update_choices_skel P cfg g t x args t' w d h

/-- the same with the conclusion of `C03_update_weight_assess_partial`, for programs whose Cond
    branches are compatible (the new trace's choice map then exists) -/
theorem C03_update_weight_assess_compat (hc : cfg.condSwitchCorrection = true)
    (g : GF) (hs : g.skel.isSome)
    (args0 : List Val) (t : Tr R) (ht : g.Coh P args0 t) (x0 : CM) (hx0 : t.choices = some x0)
    (x : Option CM) (args : List Val) (t' : Tr R) (w : R) (d : Option CM)
    (h : g.update P cfg t x args = some (t', w, d)) :
    ∃ x1 lp1 lp0 r1 r0, t'.choices = some x1 ∧ g.assess P x1 args = some (lp1, r1) ∧
      g.assess P x0 args0 = some (lp0, r0) ∧ w = lp1 + -lp0 := by
  obtain ⟨x1, hx1⟩ := choices_of_skel (update_choices_skel P cfg g t x args t' w d h) hs
  obtain ⟨lp1, lp0, h1, h0, hw⟩ :=
    C03_update_weight_assess P cfg hc g args0 t ht x0 hx0 x args t' w d h x1 hx1
  exact ⟨x1, lp1, lp0, _, _, hx1, h1, h0, hw⟩

/-- non-vacuity, with a branch switch: the Cond program `condExG` simulated with check = 1 and updated
    to check = 0 with `"x"` constrained; all hypotheses hold and the weight is the density
    difference (9 → 35). -/
example : ∃ t t' w d x0 x1, condExG.simulate condExP [.num 1, .num 7] = some t ∧
    t.choices = some x0 ∧
    condExG.update condExP Cfg.spec t (some (.node (.cons "x" (.leaf (.num 10)) .nil)))
      [.num 0, .num 7] = some (t', w, d) ∧
    t'.choices = some x1 ∧
    condExG.assess condExP x0 [.num 1, .num 7] = some (9, .num 4) ∧
    condExG.assess condExP x1 [.num 0, .num 7] = some (43, t'.retval) ∧ w = 43 + -9 :=
  ⟨_, _, _, _, _, _, rfl, rfl, rfl, rfl, rfl, rfl, rfl⟩

end Genjax

/-! ==============================================================================================
    BEGIN work package `gfivalues`: the VALUES held by the updated trace and by the discard
    (helper lemmas: Model/GfiPaths.lean, Proofs/GfiValues*.lean).
    Addresses of single choices are paths (`Path`: dictionary keys and lane / step indices);
    `CM.leafAt m p` is the value a choice map holds at a path, `CM.leafAt? x p` the same for an
    optional map (`none` = Python `None`).  The choice map of a Cond trace is the leafwise
    `where`-merge of both branch maps: where both branches have the address the taken branch is
    visible, where only one has it that one is (`CM.mergeCheck_leafAt`).
    ============================================================================================== -/
namespace Genjax
variable {R : Type} [AddCommGroup R] (P : Prims R) (cfg : Cfg)

/-- After `update` with constraint `x`, every address constrained by `x` that exists in the new
    trace's choice map holds `x`'s value — EVERY program (dist, fn, vmap, scan, cond at any depth),
    every arguments, every variant `cfg`, every old trace (also across Cond branch switches: the
    constraint is handed to both branches). -/
theorem C03_update_constrained_hold_new (g : GF) (t : Tr R) (x : Option CM) (args : List Val)
    (t' : Tr R) (w : R) (d : Option CM) (h : g.update P cfg t x args = some (t', w, d))
    (y' : CM) (hy' : t'.choices = some y') (p : Path) (v : Val) (hv : CM.leafAt? x p = some v)
    (v' : Val) (hv' : y'.leafAt p = some v') : v' = v :=
  update_constrained_hold_new P cfg g t x args t' w d h y' hy' p v hv v' hv'

/-- `update` neither adds nor removes addresses: the new choice map has a leaf exactly where the old
    one has.  `hcan`: the old trace has the shape the operations build (`C04_ops_canonical`). -/
theorem C03_update_leaf_domain (g : GF) (t : Tr R) (x : Option CM) (args : List Val)
    (t' : Tr R) (w : R) (d : Option CM) (h : g.update P cfg t x args = some (t', w, d))
    (hcan : g.Canon t) (y y' : CM) (hy : t.choices = some y) (hy' : t'.choices = some y')
    (p : Path) : (y'.leafAt p).isSome = (y.leafAt p).isSome :=
  update_leaf_domain P cfg g t x args t' w d h hcan y y' hy hy' p

/-- Repaired `Cond.update` (`cfg.condUpdateFill`: the constraint is completed with the VISIBLE old
    choices before it is handed to both branches): every address the constraint does not mention
    keeps its old visible value (as an `Option`: it also stays present / absent) — EVERY program,
    arguments, ALSO when Conds switch branch: no `Tr.sameChecks` hypothesis.
    Supersedes `C03_update_unconstrained_keep_old_partial`. -/
theorem C03_update_unconstrained_keep_old (hf : cfg.condUpdateFill = true)
    (g : GF) (t : Tr R) (x : Option CM) (args : List Val)
    (t' : Tr R) (w : R) (d : Option CM) (h : g.update P cfg t x args = some (t', w, d))
    (hcan : g.Canon t) (y y' : CM) (hy : t.choices = some y) (hy' : t'.choices = some y')
    (p : Path) (hx : CM.leafAt? x p = none) : y'.leafAt p = y.leafAt p :=
  update_unconstrained_keep_old_fill P cfg hf g t x args t' w d h hcan y y' hy hy' p hx

/-- The complete value-level description of the repaired `update` (`cfg.condUpdateFill`): the new
    choice map has exactly the old one's addresses, and each holds the constraint's value if the
    constraint has one there and the old VISIBLE value otherwise — every program, arguments, also
    across Cond branch switches. -/
theorem C03_update_values_spec (hf : cfg.condUpdateFill = true)
    (g : GF) (t : Tr R) (x : Option CM) (args : List Val)
    (t' : Tr R) (w : R) (d : Option CM) (h : g.update P cfg t x args = some (t', w, d))
    (hcan : g.Canon t) (y y' : CM) (hy : t.choices = some y) (hy' : t'.choices = some y')
    (p : Path) : y'.leafAt p = (y.leafAt p).map fun v => (CM.leafAt? x p).getD v :=
  update_values_fill P cfg hf g t x args t' w d h hcan y y' hy hy' p

/-- Any `cfg`, in particular the code as it was (`condUpdateFill = false`): the same PROVIDED no
    Cond switched branch (`Tr.sameChecks t t'`).  `_partial`: the side condition carves out the
    defective region — what the old code does after a switch: `C03_update_switch_values_asis`. -/
theorem C03_update_unconstrained_keep_old_partial (g : GF) (t : Tr R) (x : Option CM)
    (args : List Val)
    (t' : Tr R) (w : R) (d : Option CM) (h : g.update P cfg t x args = some (t', w, d))
    (hcan : g.Canon t) (hs : Tr.sameChecks t t')
    (y y' : CM) (hy : t.choices = some y) (hy' : t'.choices = some y')
    (p : Path) (hx : CM.leafAt? x p = none) : y'.leafAt p = y.leafAt p :=
  update_unconstrained_keep_old P cfg g t x args t' w d h hcan hs y y' hy hy' p hx

/-- A constraint map that `update` accepts has, at every path it shares with the old choice map,
    the same kind of node (leaf / dict / vectorised map of the same length). -/
theorem C03_update_constraint_agrees (g : GF) (t : Tr R) (xc : CM) (args : List Val) (t' : Tr R)
    (w : R) (d : Option CM) (h : g.update P cfg t (some xc) args = some (t', w, d))
    (hcan : g.Canon t) (y : CM) (hy : t.choices = some y) (q : Path) : AgreeAt xc y q :=
  update_agree P cfg g t xc args t' w d h hcan y hy q

/-- The code as it was (`cfg.condUpdateFill = false`), after a branch switch of a Cond that receives
    the constraint directly (no Cond switches inside the branches): an unconstrained address shows
    the value STORED in the branch that is now taken — the other branch's old value, not the value
    that was visible — and where only one branch has the address, that branch's old value.
    (`mergeLeaf c a b`: `a` if the check `c` holds and `a` exists, …) -/
theorem C03_update_switch_values_asis (hf : cfg.condUpdateFill = false)
    (tg fg : GF) (cOld : Bool) (a b : Tr R) (x : Option CM)
    (args : List Val) (t' : Tr R) (w : R) (d : Option CM)
    (h : (GF.cond tg fg).update P cfg (.cond cOld a b) x args = some (t', w, d)) :
    ∃ a' b', t' = .cond (args.getD 0 .nil).truthy a' b' ∧
      (tg.Canon a → fg.Canon b → Tr.sameChecks a a' → Tr.sameChecks b b' →
        ∀ ya yb y', a.choices = some ya → b.choices = some yb → t'.choices = some y' →
        ∀ p, CM.leafAt? x p = none →
          y'.leafAt p = mergeLeaf (args.getD 0 .nil).truthy (ya.leafAt p) (yb.leafAt p)) :=
  update_cond_switch_values P cfg hf tg fg cOld a b x args t' w d h

/-- … whereas (any `cfg`) below a call site of a Fn that the constraint does not mention at all,
    every address keeps its old VISIBLE value even when Conds below switch branch (no `sameChecks`
    hypothesis): the Update handler constrains such a callee to its own old choice map. -/
theorem C03_update_unconstrained_site_keeps_visible (body : Body) (t : Tr R) (x : Option CM)
    (args : List Val) (t' : Tr R) (w : R) (d : Option CM)
    (h : (GF.fn body).update P cfg t x args = some (t', w, d)) (hcan : (GF.fn body).Canon t)
    (y y' : CM) (hy : t.choices = some y) (hy' : t'.choices = some y') (a : String)
    (hx : x = none ∨ ∃ kids, x = some (.node kids) ∧ kids.find? a = none) (p : Path) :
    y'.leafAt (.key a :: p) = y.leafAt (.key a :: p) :=
  update_unconstrained_site_keeps_visible P cfg body t x args t' w d h hcan y y' hy hy' a hx p

/-- Repaired `Cond.update` (`cfg.condDiscardVisible`): the discard is, leaf for leaf, the OLD VISIBLE
    choice map — at every address, constrained or not (the Update handler re-constrains every call
    site, so every Distribution reports its previous value). -/
theorem C03_update_discard_is_old_choices (hdv : cfg.condDiscardVisible = true)
    (g : GF) (t : Tr R) (x : Option CM) (args : List Val)
    (t' : Tr R) (w : R) (d : Option CM) (h : g.update P cfg t x args = some (t', w, d))
    (hcan : g.Canon t) (y y' : CM) (hy : t.choices = some y) (hy' : t'.choices = some y')
    (p : Path) : CM.leafAt? d p = y.leafAt p :=
  update_discard_eq_old P cfg hdv g t x args t' w d h hcan y y' hy hy' p

/-- In the form of the property: the discard exists and holds the previous VISIBLE value of every
    overwritten address. -/
theorem C03_update_discard_old_values (hdv : cfg.condDiscardVisible = true)
    (g : GF) (t : Tr R) (x : Option CM) (args : List Val)
    (t' : Tr R) (w : R) (d : Option CM) (h : g.update P cfg t x args = some (t', w, d))
    (hcan : g.Canon t) (y y' : CM) (hy : t.choices = some y) (hy' : t'.choices = some y')
    (p : Path) (vx : Val) (_hx : CM.leafAt? x p = some vx) (v : Val) (hv : y.leafAt p = some v) :
    ∃ dm, d = some dm ∧ dm.leafAt p = some v := by
  have := update_discard_eq_old P cfg hdv g t x args t' w d h hcan y y' hy hy' p
  rw [hv] at this
  cases d with
  | none => simp [CM.leafAt?] at this
  | some dm => exact ⟨dm, rfl, this⟩

/-- Round trip (specification variant of `Cond.update`: branch-switch correction and visible
    discard; with or without `condUpdateFill`): update with any constraint and any new arguments,
    then update the result with the returned discard and the old arguments — the final trace has
    the ORIGINAL choice map and the second weight is the negated first weight.  Every program (Cond
    at any depth, ALSO when the updates switch branches: no `sameChecks` hypothesis), every
    canonical coherent trace that has a choice map. -/
theorem C03_update_roundtrip (hsw : cfg.condSwitchCorrection = true)
    (hdv : cfg.condDiscardVisible = true)
    (g : GF) (args0 : List Val) (t : Tr R) (hcan : g.Canon t) (hcoh : g.Coh P args0 t)
    (y : CM) (hy : t.choices = some y)
    (x : Option CM) (args : List Val) (t' : Tr R) (w : R) (d : Option CM)
    (h1 : g.update P cfg t x args = some (t', w, d))
    (t'' : Tr R) (w2 : R) (d2 : Option CM)
    (h2 : g.update P cfg t' d args0 = some (t'', w2, d2)) :
    t''.choices = t.choices ∧ w2 = -w := by
  rw [hy]
  exact update_roundtrip P cfg hsw hdv g args0 t hcan hcoh y hy x args t' w d h1 t'' w2 d2 h2

/-! ### non-vacuity, on `condExDeep` (a Fn calling a Scan of a Cond and a Vmap of a Cond of a Cond)

  `updScen … = some s` unfolds (`updScen_spec`) to: `s.t` is the simulated trace (canonical, coherent),
  `update s.t x args = some (s.t', s.w, s.d)`, `s.y` / `s.y'` are the old / new choice maps. -/

/-- hypotheses of `C03_update_constrained_hold_new` / `C03_update_discard_old_values`, with new
    arguments under which Conds switch branch: the constrained addresses inside the Scan-of-Cond and
    the Vmap-of-Cond-of-Cond held 5 and 6, hold the constrained 10 and 20 afterwards, and the discard
    holds 5 and 6. -/
example : ∃ s, updScen condExP Cfg.spec condExDeep condExDeepArgs (some valExX) valExArgs = some s ∧
    (!(Tr.sameChecksB s.t s.t') &&
     decide (CM.leafAt? (some valExX) valExPc = some (.num 10)) &&
     decide (s.y.leafAt valExPc = some (.num 5)) && decide (s.y'.leafAt valExPc = some (.num 10)) &&
     decide (CM.leafAt? s.d valExPc = some (.num 5)) &&
     decide (CM.leafAt? (some valExX) valExPc' = some (.num 20)) &&
     decide (s.y.leafAt valExPc' = some (.num 6)) && decide (s.y'.leafAt valExPc' = some (.num 20)) &&
     decide (CM.leafAt? s.d valExPc' = some (.num 6))) = true :=
  (Option.any_eq_true _ _).mp (by decide +kernel)

/-- hypotheses and conclusion of `C03_update_unconstrained_keep_old` with new arguments under which
    Conds SWITCH branch (`Cfg.spec.condUpdateFill = true`): the unconstrained addresses keep 8 and 4 -/
example : ∃ s, updScen condExP Cfg.spec condExDeep condExDeepArgs (some valExX) valExArgs = some s ∧
    (!(Tr.sameChecksB s.t s.t') &&
     decide (CM.leafAt? (some valExX) valExPu = none) &&
     decide (s.y.leafAt valExPu = some (.num 8)) && decide (s.y'.leafAt valExPu = some (.num 8)) &&
     decide (CM.leafAt? (some valExX) valExPu' = none) &&
     decide (s.y.leafAt valExPu' = some (.num 4)) &&
     decide (s.y'.leafAt valExPu' = some (.num 4))) = true :=
  (Option.any_eq_true _ _).mp (by decide +kernel)

/-- hypotheses of `C03_update_unconstrained_keep_old_partial` without the repair (same arguments, so
    no Cond switches): unconstrained addresses exist, and keep 8 and 4 -/
example : ∃ s, updScen condExP valExCfgNoFill condExDeep condExDeepArgs (some valExX) condExDeepArgs
      = some s ∧
    (Tr.sameChecksB s.t s.t' &&
     decide (CM.leafAt? (some valExX) valExPu = none) &&
     decide (s.y.leafAt valExPu = some (.num 8)) && decide (s.y'.leafAt valExPu = some (.num 8)) &&
     decide (CM.leafAt? (some valExX) valExPu' = none) &&
     decide (s.y.leafAt valExPu' = some (.num 4)) &&
     decide (s.y'.leafAt valExPu' = some (.num 4))) = true :=
  (Option.any_eq_true _ _).mp (by decide +kernel)

/-- without the repair (`condUpdateFill = false`) the `sameChecks` hypothesis cannot be dropped: with
    the lane checks swapped, the unconstrained `"x"` of lane 1 of the Vmap shows 6 (the other
    branch's stored value, `C03_update_switch_values_asis`) instead of 4 -/
example : ∃ s, updScen condExP valExCfgNoFill condExDeep condExDeepArgs (some valExX) valExArgs
      = some s ∧
    (!(Tr.sameChecksB s.t s.t') && decide (CM.leafAt? (some valExX) valExPu' = none) &&
     decide (s.y.leafAt valExPu' = some (.num 4)) &&
     decide (s.y'.leafAt valExPu' = some (.num 6))) = true :=
  (Option.any_eq_true _ _).mp (by decide +kernel)

/-- hypotheses and conclusion of `C03_update_roundtrip`, across branch switches: both updates are
    defined, the weights are 38 and -38, the final choice map is the original one -/
example : ∃ s, roundScen condExP Cfg.spec condExDeep condExDeepArgs (some valExX) valExArgs = some s ∧
    (decide (s.w = 38) && decide (s.w2 = -38) && decide (s.t''.choices = some s.y) &&
     !(decide (s.y' = s.y))) = true :=
  (Option.any_eq_true _ _).mp (by decide +kernel)

end Genjax
/-! ==============================================================================================
    END work package `gfivalues`
    ============================================================================================== -/
