import GenjaxModel.Proofs.Hmm
import GenjaxModel.Proofs.Kalman
/-!
# C20 — the exact state-space baselines are exact

HMM part (`Model/Hmm.lean`, linear domain; the code computes the logarithms): statements hold over
every commutative semiring / field, every number of states and symbols, every stochastic or
sub-stochastic matrix (zeros allowed), every observation sequence of length T ≥ 1.
Kalman part (`Model/Kalman.lean`): scalar predict/update step; the matrix recursion and the RTS
smoother are tied to the code by the dense-Gaussian conditioning oracle of the correspondence run
only (partial, see DESIGN.md).
-/
namespace Genjax

open Hmm in
/-- forward_filter's last message: α_{T-1}(x) = Σ over all state sequences ending in x of the joint -/
theorem C20_forward_is_bruteforce {K : Type} [CommSemiring K]
    (init : List K) (trans emis : List (List K)) (o : Nat) (os : List Nat)
    (x : Nat) (hx : x < init.length) :
    get ((forward init trans emis (o :: os)).getLastD []) x =
      Hmm.sum (((seqs init.length (os.length + 1)).filter fun ss => ss.getLast? == some x).map
            fun ss => joint init trans emis ss (o :: os)) :=
  forward_last_eq_sum init trans emis o os x hx

open Hmm in
/-- the marginal likelihood equals brute-force summation over all K^T state sequences -/
theorem C20_marginal_is_bruteforce {K : Type} [CommSemiring K]
    (init : List K) (trans emis : List (List K)) (o : Nat) (os : List Nat) :
    marginal init trans emis (o :: os) = brute init trans emis (o :: os) :=
  marginal_eq_brute init trans emis o os

open Hmm in
theorem C20_forward_shape {K : Type} [CommSemiring K]
    (init : List K) (trans emis : List (List K)) (obs : List Nat) :
    (forward init trans emis obs).length = obs.length ∧
    ∀ a ∈ forward init trans emis obs, a.length = init.length := forward_shape init trans emis obs

open Hmm in
/-- the returned filtering distribution is normalised -/
theorem C20_filter_normalised {K : Type} [Field K]
    (init : List K) (trans emis : List (List K)) (obs : List Nat)
    (h : marginal init trans emis obs ≠ 0) : Hmm.sum (filterLast init trans emis obs) = 1 :=
  filterLast_normalised init trans emis obs h

open Hmm in
/-- backward sampling draws state sequences from the exact posterior joint/marginal -/
theorem C20_ffbs_law {K : Type} [Field K]
    (init : List K) (trans emis : List (List K)) (o : Nat) (os : List Nat)
    (ss : List Nat) (hlen : ss.length = os.length + 1) (hss : ∀ s ∈ ss, s < init.length)
    (hpos : ∀ (a : List K) (y : Nat), a ∈ forward init trans emis (o :: os) → y ∈ ss →
        Hmm.sum ((List.range a.length).map fun x' => get a x' * get2 trans x' y) ≠ 0)
    (hm : marginal init trans emis (o :: os) ≠ 0) :
    ffbsProb trans (forward init trans emis (o :: os)) ss =
      joint init trans emis ss (o :: os) / marginal init trans emis (o :: os) :=
  ffbs_law init trans emis o os ss hlen hss hpos hm

open Kalman in
/-- scalar Kalman update = exact Bayesian conditioning, part (i): the exponents of
    prior·likelihood and marginal·posterior agree for every x (completing the square) … -/
theorem C20_kalman_update_bayes_exponent_partial {K : Type} [Field K] (c r y x : K) (s : Gauss K)
    (hP : s.P ≠ 0) (hr : r ≠ 0) (hS : innovCov c r s ≠ 0) :
    (x - s.m) ^ 2 / s.P + (y - c * x) ^ 2 / r =
      (y - c * s.m) ^ 2 / innovCov c r s + (x - (update c r y s).m) ^ 2 / (update c r y s).P :=
  update_completes_square c r y x s hP hr hS

open Kalman in
/-- … part (ii): the normalising constants agree (P·r = S·P′), which is also why the log marginal
    accumulates log N(innovation; 0, S). `_partial`: scalar case only. -/
theorem C20_kalman_update_bayes_normaliser_partial {K : Type} [Field K] (c r y : K) (s : Gauss K)
    (hS : innovCov c r s ≠ 0) : s.P * r = innovCov c r s * (update c r y s).P :=
  update_normaliser c r y s hS

open Kalman in
theorem C20_kalman_precision_partial {K : Type} [Field K] (c r y : K) (s : Gauss K)
    (hP : s.P ≠ 0) (hr : r ≠ 0) (hS : innovCov c r s ≠ 0) :
    1 / (update c r y s).P = 1 / s.P + c ^ 2 / r := update_precision c r y s hP hr hS

open Kalman in
theorem C20_kalman_predict_partial {K : Type} [Field K] (a q : K) (s : Gauss K) :
    (predict a q s).m = a * s.m ∧ (predict a q s).P = a ^ 2 * s.P + q := predict_moments a q s

end Genjax
