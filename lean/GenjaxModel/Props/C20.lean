import GenjaxModel.Proofs.Hmm
import GenjaxModel.Proofs.Kalman
import GenjaxModel.Proofs.KalmanMatrixReal
/-!
# C20 — the exact state-space baselines are exact

HMM part (`Model/Hmm.lean`, linear domain; the code computes the logarithms): statements hold over
every commutative semiring / field, every number of states and symbols, every stochastic or
sub-stochastic matrix (zeros allowed), every observation sequence of length T ≥ 1.
Kalman part, scalar (`Model/Kalman.lean`, executable): predict/update step (`*_partial` theorems,
kept).
Kalman part, MATRIX case (`Proofs/KalmanMatrix.lean`, `Proofs/KalmanMatrixReal.lean`; block
`C20_kalman_matrix_*` at the end of this file): the matrix update of `kalman_filter` is now PROVED
to be exact Bayesian conditioning for every state dimension, observation dimension and field:
covariance forms (Joseph, symmetric), precision form `P'⁻¹ = P⁻¹ + Cᵀ R⁻¹ C`, completing the square
for every `x`, the determinant/normaliser identity `det P · det R = det S · det P'`, Bayes' rule for
the multivariate normal densities / log-densities over ℝ (the `log_marginal` increment), preservation
of positive (semi)definiteness along the whole run (every `inv` in the code is a genuine inverse),
reduction of the matrix definitions to the executable scalar model at d = 1, and the RTS smoother
step as the same conditioning step with `(C, R, y) := (A, Q, x_{t+1})`.  All invertibility
assumptions are explicit hypotheses (`det _ ≠ 0`); nothing relies on `A⁻¹ = 0` for singular `A`.
What remains tied to the code only by the dense-Gaussian oracle of the correspondence run: the
float arithmetic and the `lax.scan` plumbing of the matrix recursion (the Lean definitions
`KalmanMatrix.kalmanFilter`/`smCov` mirror the Python line by line but are not executed).
-/
namespace Genjax

open Hmm in
/-- forward_filter's last message: α_{T-1}(x) = Σ over all state sequences ending in x of the joint -/
theorem C20_forward_is_bruteforce {K : Type} [CommSemiring K]
    (init : List K) (trans emis : List (List K)) (o : Nat) (os : List Nat)
    (x : Nat) (hx : x < init.length) :
    get ((forward init trans emis (o :: os)).getLastD []) x =
      Hmm.sum (((seqs init.length (os.length + 1)).filter fun ss => ss.getLast? == some x).map
            fun ss => joint init trans emis ss (o :: os)) :=
  forward_last_eq_sum init trans emis o os x hx

open Hmm in
/-- the marginal likelihood equals brute-force summation over all K^T state sequences -/
theorem C20_marginal_is_bruteforce {K : Type} [CommSemiring K]
    (init : List K) (trans emis : List (List K)) (o : Nat) (os : List Nat) :
    marginal init trans emis (o :: os) = brute init trans emis (o :: os) :=
  marginal_eq_brute init trans emis o os

open Hmm in
theorem C20_forward_shape {K : Type} [CommSemiring K]
    (init : List K) (trans emis : List (List K)) (obs : List Nat) :
    (forward init trans emis obs).length = obs.length ∧
    ∀ a ∈ forward init trans emis obs, a.length = init.length := forward_shape init trans emis obs

open Hmm in
/-- the returned filtering distribution is normalised -/
theorem C20_filter_normalised {K : Type} [Field K]
    (init : List K) (trans emis : List (List K)) (obs : List Nat)
    (h : marginal init trans emis obs ≠ 0) : Hmm.sum (filterLast init trans emis obs) = 1 :=
  filterLast_normalised init trans emis obs h

open Hmm in
/-- backward sampling draws state sequences from the exact posterior joint/marginal -/
theorem C20_ffbs_law {K : Type} [Field K]
    (init : List K) (trans emis : List (List K)) (o : Nat) (os : List Nat)
    (ss : List Nat) (hlen : ss.length = os.length + 1) (hss : ∀ s ∈ ss, s < init.length)
    (hpos : ∀ (a : List K) (y : Nat), a ∈ forward init trans emis (o :: os) → y ∈ ss →
        Hmm.sum ((List.range a.length).map fun x' => get a x' * get2 trans x' y) ≠ 0)
    (hm : marginal init trans emis (o :: os) ≠ 0) :
    ffbsProb trans (forward init trans emis (o :: os)) ss =
      joint init trans emis ss (o :: os) / marginal init trans emis (o :: os) :=
  ffbs_law init trans emis o os ss hlen hss hpos hm

open Kalman in
/-- scalar Kalman update = exact Bayesian conditioning, part (i): the exponents of
    prior·likelihood and marginal·posterior agree for every x (completing the square) … -/
theorem C20_kalman_update_bayes_exponent_partial {K : Type} [Field K] (c r y x : K) (s : Gauss K)
    (hP : s.P ≠ 0) (hr : r ≠ 0) (hS : innovCov c r s ≠ 0) :
    (x - s.m) ^ 2 / s.P + (y - c * x) ^ 2 / r =
      (y - c * s.m) ^ 2 / innovCov c r s + (x - (update c r y s).m) ^ 2 / (update c r y s).P :=
  update_completes_square c r y x s hP hr hS

open Kalman in
/-- … part (ii): the normalising constants agree (P·r = S·P′), which is also why the log marginal
    accumulates log N(innovation; 0, S). `_partial`: scalar case only. -/
theorem C20_kalman_update_bayes_normaliser_partial {K : Type} [Field K] (c r y : K) (s : Gauss K)
    (hS : innovCov c r s ≠ 0) : s.P * r = innovCov c r s * (update c r y s).P :=
  update_normaliser c r y s hS

open Kalman in
theorem C20_kalman_precision_partial {K : Type} [Field K] (c r y : K) (s : Gauss K)
    (hP : s.P ≠ 0) (hr : r ≠ 0) (hS : innovCov c r s ≠ 0) :
    1 / (update c r y s).P = 1 / s.P + c ^ 2 / r := update_precision c r y s hP hr hS

open Kalman in
theorem C20_kalman_predict_partial {K : Type} [Field K] (a q : K) (s : Gauss K) :
    (predict a q s).m = a * s.m ∧ (predict a q s).P = a ^ 2 * s.P + q := predict_moments a q s

/-! ──────────────────────────────────────────────────────────────────────────────────────────────
    BEGIN block `C20_kalman_matrix_*` — the MATRIX Kalman update is exact Bayesian conditioning
    (definitions `KalmanMatrix.innov/innovCov/gain/updMean/updCov/predMean/predCov/smGain/smMean/
    smCov` mirror src/genjax/extras/state_space.py:434-600 line by line)
    ────────────────────────────────────────────────────────────────────────────────────────────── -/

section KalmanMatrixBlock
open Matrix KalmanMatrix
variable {K : Type*} [Field K] {n p : Type*} [Fintype n] [DecidableEq n] [Fintype p] [DecidableEq p]

/-- Covariance update, all equivalent forms (needs only `S = C P Cᵀ + R` invertible):
    `P' = (1 - K C) P`, the Joseph form `P' = (1 - K C) P (1 - K C)ᵀ + K R Kᵀ`, and for symmetric
    `P`, `R` the symmetric form `P' = P - K S Kᵀ`; `P'` is then symmetric. -/
theorem C20_kalman_matrix_cov_forms (C : Matrix p n K) (P : Matrix n n K) (R : Matrix p p K)
    (hS : (innovCov C P R).det ≠ 0) :
    updCov C P R = (1 - gain C P R * C) * P ∧
    updCov C P R =
      (1 - gain C P R * C) * P * (1 - gain C P R * C)ᵀ + gain C P R * R * (gain C P R)ᵀ ∧
    (P.IsSymm → R.IsSymm →
      updCov C P R = P - gain C P R * innovCov C P R * (gain C P R)ᵀ ∧ (updCov C P R).IsSymm) :=
  ⟨updCov_eq_one_sub_mul C P R, updCov_joseph C P R hS.isUnit, fun hPs hRs =>
    ⟨updCov_eq_sub_gain_innovCov_gainT C P R hPs hRs hS.isUnit, updCov_isSymm C P R hPs hRs⟩⟩

example : (innovCov KalmanMatrix.Example.C KalmanMatrix.Example.P KalmanMatrix.Example.R).det ≠ 0 ∧
    KalmanMatrix.Example.P.IsSymm ∧ KalmanMatrix.Example.R.IsSymm :=
  ⟨KalmanMatrix.Example.hyps.2.2.2.2, KalmanMatrix.Example.hyps.1, KalmanMatrix.Example.hyps.2.1⟩

/-- PRECISION (information) form = "posterior ∝ prior × likelihood" on the level of matrices:
    for invertible `P`, `R`, `S` the filtered covariance is invertible,
    `P'⁻¹ = P⁻¹ + Cᵀ R⁻¹ C`, `P'⁻¹ m' = P⁻¹ m + Cᵀ R⁻¹ y`, and `K = P' Cᵀ R⁻¹`. -/
theorem C20_kalman_matrix_precision (C : Matrix p n K) (P : Matrix n n K) (R : Matrix p p K)
    (hP : P.det ≠ 0) (hR : R.det ≠ 0) (hS : (innovCov C P R).det ≠ 0) (m : n → K) (y : p → K) :
    (updCov C P R).det ≠ 0 ∧
    (updCov C P R)⁻¹ = P⁻¹ + Cᵀ * R⁻¹ * C ∧
    (updCov C P R)⁻¹ *ᵥ updMean C P R m y = P⁻¹ *ᵥ m + (Cᵀ * R⁻¹) *ᵥ y ∧
    gain C P R = updCov C P R * Cᵀ * R⁻¹ :=
  ⟨(updCov_det_isUnit C P R hP.isUnit hR.isUnit hS.isUnit).ne_zero,
   updCov_inv C P R hP.isUnit hR.isUnit hS.isUnit,
   updCov_inv_mulVec_updMean C P R hP.isUnit hR.isUnit hS.isUnit m y,
   gain_eq_updCov_mul C P R hR.isUnit hS.isUnit⟩

/-- the hypotheses hold on a concrete instance with `d_state = 2 ≠ d_obs = 1` … -/
example : KalmanMatrix.Example.P.det ≠ 0 ∧ KalmanMatrix.Example.R.det ≠ 0 ∧
    (innovCov KalmanMatrix.Example.C KalmanMatrix.Example.P KalmanMatrix.Example.R).det ≠ 0 :=
  KalmanMatrix.Example.hyps.2.2

/-- COMPLETING THE SQUARE, matrix form (supersedes `C20_kalman_update_bayes_exponent_partial`,
    which is the case `n = p = 1` and is kept).  For symmetric invertible `P`, `R` and invertible
    `S`, for EVERY state `x` (and every `m`, `y`), with `qf M v = vᵀ M v`:
    `(x-m)ᵀ P⁻¹ (x-m) + (y-Cx)ᵀ R⁻¹ (y-Cx) = (x-m')ᵀ P'⁻¹ (x-m') + (y-Cm)ᵀ S⁻¹ (y-Cm)`
    where `m'`, `P'`, `S`, `y - C m` are the quantities computed by the code: the exponent of
    prior(x)·likelihood(y|x) equals the exponent of posterior(x)·marginal(y).  All four inverses are
    genuine: `det P' ≠ 0` is the first conjunct of `C20_kalman_matrix_precision`. -/
theorem C20_kalman_matrix_update_bayes_exponent (C : Matrix p n K) (P : Matrix n n K)
    (R : Matrix p p K) (hPs : P.IsSymm) (hRs : R.IsSymm)
    (hP : P.det ≠ 0) (hR : R.det ≠ 0) (hS : (innovCov C P R).det ≠ 0) (m x : n → K) (y : p → K) :
    qf P⁻¹ (x - m) + qf R⁻¹ (y - C *ᵥ x) =
      qf (updCov C P R)⁻¹ (x - updMean C P R m y) + qf (innovCov C P R)⁻¹ (innov C m y) :=
  update_completes_square C P R hPs hRs hP.isUnit hR.isUnit hS.isUnit m x y

example : KalmanMatrix.Example.P.IsSymm ∧ KalmanMatrix.Example.R.IsSymm ∧
    KalmanMatrix.Example.P.det ≠ 0 ∧ KalmanMatrix.Example.R.det ≠ 0 ∧
    (innovCov KalmanMatrix.Example.C KalmanMatrix.Example.P KalmanMatrix.Example.R).det ≠ 0 :=
  KalmanMatrix.Example.hyps

/-- NORMALISER (supersedes `C20_kalman_update_bayes_normaliser_partial`, kept): the Gaussian
    normalising constants of prior·likelihood and marginal·posterior agree,
    `det P · det R = det S · det P'` (only `S` invertible is needed). -/
theorem C20_kalman_matrix_update_bayes_normaliser (C : Matrix p n K) (P : Matrix n n K)
    (R : Matrix p p K) (hS : (innovCov C P R).det ≠ 0) :
    P.det * R.det = (innovCov C P R).det * (updCov C P R).det :=
  det_mul_det C P R hS.isUnit

/-- … and the theorem has content there: it computes `det P' = 1` from `det P = det S = 3`,
    `det R = 1` without ever inverting a matrix -/
example : (updCov KalmanMatrix.Example.C KalmanMatrix.Example.P KalmanMatrix.Example.R).det = 1 := by
  have h := C20_kalman_matrix_update_bayes_normaliser KalmanMatrix.Example.C KalmanMatrix.Example.P
    KalmanMatrix.Example.R KalmanMatrix.Example.hyps.2.2.2.2
  rw [KalmanMatrix.Example.P_det, KalmanMatrix.Example.R_det, KalmanMatrix.Example.S_det] at h
  linarith

/-- BAYES' RULE FOR THE DENSITIES over ℝ: for positive definite `P` and `R` (no further
    hypotheses), for all `x`, `y`:
    `N(x; m, P) · N(y; C x, R) = N(y - C m; 0, S) · N(x; m', P')`.
    The first factor on the right is exactly what the code adds (in log form) to `log_marginal`,
    the second is the returned filtered distribution. -/
theorem C20_kalman_matrix_update_bayes_density (C : Matrix p n ℝ) (P : Matrix n n ℝ)
    (R : Matrix p p ℝ) (hP : P.PosDef) (hR : R.PosDef) (m x : n → ℝ) (y : p → ℝ) :
    gaussPdf m P x * gaussPdf (C *ᵥ x) R y =
      gaussPdf 0 (innovCov C P R) (innov C m y) * gaussPdf (updMean C P R m y) (updCov C P R) x :=
  update_bayes_density_posDef C P R hP hR m x y

example : KalmanMatrix.ExampleReal.P.PosDef ∧ KalmanMatrix.ExampleReal.R.PosDef :=
  ⟨KalmanMatrix.ExampleReal.P_posDef, KalmanMatrix.ExampleReal.R_posDef⟩

/-- the same with explicit hypotheses (symmetric, positive determinants) -/
theorem C20_kalman_matrix_update_bayes_density_det (C : Matrix p n ℝ) (P : Matrix n n ℝ)
    (R : Matrix p p ℝ) (hPs : P.IsSymm) (hRs : R.IsSymm) (hP : 0 < P.det) (hR : 0 < R.det)
    (hS : 0 < (innovCov C P R).det) (m x : n → ℝ) (y : p → ℝ) :
    gaussPdf m P x * gaussPdf (C *ᵥ x) R y =
      gaussPdf 0 (innovCov C P R) (innov C m y) * gaussPdf (updMean C P R m y) (updCov C P R) x :=
  update_bayes_density C P R hPs hRs hP hR hS m x y

/-- log form, with `logGaussPdf = jax.scipy.stats.multivariate_normal.logpdf`:
    `logpdf(x; m, P) + logpdf(y; Cx, R) = logpdf(innovation; 0, S) + logpdf(x; m', P')`, i.e. the
    increment `log_marginal += logpdf(innovation, 0, innovation_cov)` is `log p(y_t | y_{1:t-1})`. -/
theorem C20_kalman_matrix_log_marginal_increment (C : Matrix p n ℝ) (P : Matrix n n ℝ)
    (R : Matrix p p ℝ) (hP : P.PosDef) (hR : R.PosDef) (m x : n → ℝ) (y : p → ℝ) :
    logGaussPdf m P x + logGaussPdf (C *ᵥ x) R y =
      logGaussPdf 0 (innovCov C P R) (innov C m y) +
        logGaussPdf (updMean C P R m y) (updCov C P R) x :=
  update_bayes_logpdf C P R (posSemidef_isSymm hP.posSemidef) (posSemidef_isSymm hR.posSemidef)
    hP.det_pos hR.det_pos (innovCov_posDef C P R hP.posSemidef hR).det_pos m x y

/-- `logGaussPdf` is the logarithm of `gaussPdf` whenever `det Σ > 0` -/
theorem C20_kalman_matrix_logpdf_is_log_pdf {ι : Type*} [Fintype ι] [DecidableEq ι] (μ : ι → ℝ)
    (Sig : Matrix ι ι ℝ) (x : ι → ℝ) (h : 0 < Sig.det) :
    Real.log (gaussPdf μ Sig x) = logGaussPdf μ Sig x := log_gaussPdf μ Sig x h

/-- PREDICT (any field): `A P Aᵀ + Q` is symmetric for symmetric `P`, `Q`, and
    `vᵀ (A P Aᵀ + Q) v = (Aᵀ v)ᵀ P (Aᵀ v) + vᵀ Q v` for every `v`
    (the covariance of `A x + w`, `x ~ (m, P)`, `w ~ (0, Q)` independent). -/
theorem C20_kalman_matrix_predict (A P Q : Matrix n n K) :
    (P.IsSymm → Q.IsSymm → (predCov A P Q).IsSymm) ∧
    ∀ v : n → K, qf (predCov A P Q) v = qf P (Aᵀ *ᵥ v) + qf Q v :=
  ⟨predCov_isSymm A P Q, qf_predCov A P Q⟩

/-- one step over ℝ preserves positive (semi)definiteness, and `S` is positive definite (hence the
    `inv` in the code is a genuine inverse) as soon as `R` is -/
theorem C20_kalman_matrix_step_posDef (A Q : Matrix n n ℝ) (C : Matrix p n ℝ) (R : Matrix p p ℝ)
    (P : Matrix n n ℝ) :
    (P.PosSemidef → Q.PosSemidef → (predCov A P Q).PosSemidef) ∧
    (P.PosSemidef → Q.PosDef → (predCov A P Q).PosDef) ∧
    (P.PosSemidef → R.PosDef → (innovCov C P R).PosDef ∧ (updCov C P R).PosSemidef) ∧
    (P.PosDef → R.PosDef → (updCov C P R).PosDef) :=
  ⟨predCov_posSemidef A P Q, predCov_posDef A P Q,
   fun hP hR => ⟨innovCov_posDef C P R hP hR, updCov_posSemidef C P R hP hR.posSemidef
      (posDef_isUnit_det (innovCov_posDef C P R hP hR))⟩,
   updCov_posDef C P R⟩

/-- THE WHOLE RUN (`KalmanMatrix.kalmanFilter` = initial update followed by the scan of
    predict+update, as in the code): for `P0`, `Q` positive semidefinite and `R` positive definite
    every returned covariance is positive semidefinite and every innovation covariance the code
    inverts is positive definite; the output has one entry per observation. -/
theorem C20_kalman_matrix_run_posSemidef (A Q : Matrix n n ℝ) (C : Matrix p n ℝ)
    (R : Matrix p p ℝ) (hQ : Q.PosSemidef) (hR : R.PosDef) (m0 : n → ℝ) (P0 : Matrix n n ℝ)
    (h0 : P0.PosSemidef) (ys : List (p → ℝ)) :
    (kalmanFilter A Q C R m0 P0 ys).length = ys.length ∧
    (innovCov C P0 R).PosDef ∧
    ∀ s ∈ kalmanFilter A Q C R m0 P0 ys,
      s.2.PosSemidef ∧ (innovCov C (predCov A s.2 Q) R).PosDef :=
  ⟨kalmanFilter_length A Q C R m0 P0 ys, kalmanFilter_posSemidef A Q C R hQ hR m0 P0 h0 ys⟩

/-- … and positive definite when `P0`, `Q`, `R` are, so that every step of the run satisfies the
    hypotheses of `C20_kalman_matrix_update_bayes_density` -/
theorem C20_kalman_matrix_run_posDef (A Q : Matrix n n ℝ) (C : Matrix p n ℝ)
    (R : Matrix p p ℝ) (hQ : Q.PosDef) (hR : R.PosDef) (m0 : n → ℝ) (P0 : Matrix n n ℝ)
    (h0 : P0.PosDef) (ys : List (p → ℝ)) :
    ∀ s ∈ kalmanFilter A Q C R m0 P0 ys, s.2.PosDef ∧ (predCov A s.2 Q).PosDef :=
  fun s hs =>
    have h := kalmanFilter_posDef A Q C R hQ hR m0 P0 h0 ys s hs
    ⟨h, predCov_posDef A s.2 Q h.posSemidef hQ⟩

/-- d_state = d_obs = 1: the matrix definitions ARE the executable scalar model
    `Model/Kalman.lean` (`sc a` = the 1×1 matrix `!![a]`, `sv a` = the vector `![a]`), so the
    theorems above specialise to the model that the driver runs; in particular the scalar
    completing-the-square identity follows from the matrix one. -/
theorem C20_kalman_matrix_reduces_to_scalar_model {F : Type} [Field F] (a q c r y m P : F) :
    sc a = !![a] ∧ sv m = ![m] ∧
    innovCov (sc c) (sc P) (sc r) = sc (Kalman.innovCov c r ⟨m, P⟩) ∧
    updMean (sc c) (sc P) (sc r) (sv m) (sv y) = sv (Kalman.update c r y ⟨m, P⟩).m ∧
    updCov (sc c) (sc P) (sc r) = sc (Kalman.update c r y ⟨m, P⟩).P ∧
    predMean (sc a) (sv m) = sv (Kalman.predict a q ⟨m, P⟩).m ∧
    predCov (sc a) (sc P) (sc q) = sc (Kalman.predict a q ⟨m, P⟩).P :=
  ⟨sc_eq a, sv_eq m, innovCov_one c P r m, updMean_one c P r m y, updCov_one c P r m y,
   predMean_one a q m P, predCov_one a q m P⟩

/-- the scalar exponent identity re-derived from the matrix theorem at `n = p = 1` -/
theorem C20_kalman_matrix_scalar_corollary {F : Type} [Field F] (c r y x : F) (s : Kalman.Gauss F)
    (hP : s.P ≠ 0) (hr : r ≠ 0) (hS : Kalman.innovCov c r s ≠ 0) :
    s.P⁻¹ * (x - s.m) ^ 2 + r⁻¹ * (y - c * x) ^ 2 =
      (Kalman.update c r y s).P⁻¹ * (x - (Kalman.update c r y s).m) ^ 2 +
        (Kalman.innovCov c r s)⁻¹ * (y - c * s.m) ^ 2 :=
  scalar_completes_square_of_matrix c r y x s hP hr hS

example : ((⟨0, 2⟩ : Kalman.Gauss ℚ).P ≠ 0) ∧ (1 : ℚ) ≠ 0 ∧
    Kalman.innovCov (1 : ℚ) 1 ⟨0, 2⟩ ≠ 0 := by
  simp [Kalman.innovCov]; norm_num

/-- RTS SMOOTHER STEP = the same conditioning step with `(C, R, y) := (A, Q, x_{t+1})`:
    the smoother gain is the Kalman gain of "observing" `x_{t+1} = A x_t + w`, the smoothed mean is
    the corresponding filtered mean evaluated at the smoothed mean of `x_{t+1}` (tower property),
    and — for symmetric `P`, `Q` and invertible predicted covariance — the smoothed covariance is
    (conditional covariance `P - G A P`) + `G Pˢ_{t+1} Gᵀ` (law of total covariance). -/
theorem C20_kalman_matrix_smoother_is_conditioning (A P Q Ps : Matrix n n K) (m ms : n → K) :
    smGain A P Q = gain A P Q ∧
    smMean A P Q m ms = updMean A P Q m ms ∧
    (P.IsSymm → Q.IsSymm → (predCov A P Q).det ≠ 0 →
      smCov A P Q Ps = updCov A P Q + smGain A P Q * Ps * (smGain A P Q)ᵀ) ∧
    (P.IsSymm → Q.IsSymm → Ps.IsSymm → (smCov A P Q Ps).IsSymm) ∧
    smCov A P Q (predCov A P Q) = P ∧ smMean A P Q m (predMean A m) = m :=
  ⟨smGain_eq_gain A P Q, smMean_eq_updMean A P Q m ms,
   fun hP hQ hS => smCov_eq_updCov_add A P Q hP hQ hS.isUnit Ps,
   fun hP hQ hPs => smCov_isSymm A P Q hP hQ hPs, smCov_self A P Q, smMean_self A P Q m⟩

/-- the backward kernel of the smoother is the exact conditional of `x_t` given `x_{t+1} = z`
    (and `y_{1:t}`): for all `x`, `z`
    `N(x; m, P) · N(z; A x, Q) = N(z; A m, P⁻) · N(x; m + G (z - A m), P - G A P)`
    — exponents and normalisers, in any field. -/
theorem C20_kalman_matrix_smoother_backward_kernel (A P Q : Matrix n n K)
    (hPs : P.IsSymm) (hQs : Q.IsSymm) (hP : P.det ≠ 0) (hQ : Q.det ≠ 0)
    (hS : (predCov A P Q).det ≠ 0) (m x z : n → K) :
    qf P⁻¹ (x - m) + qf Q⁻¹ (z - A *ᵥ x) =
        qf (P - smGain A P Q * A * P)⁻¹ (x - smMean A P Q m z) +
          qf (predCov A P Q)⁻¹ (z - predMean A m) ∧
    P.det * Q.det = (predCov A P Q).det * (P - smGain A P Q * A * P).det :=
  ⟨smoother_completes_square A P Q hPs hQs hP.isUnit hQ.isUnit hS.isUnit m x z,
   smoother_det_mul_det A P Q hS.isUnit⟩

/-- the smoothed covariance stays positive semidefinite over ℝ -/
theorem C20_kalman_matrix_smoother_posSemidef (A P Q Ps : Matrix n n ℝ) (hP : P.PosSemidef)
    (hQ : Q.PosDef) (hPs : Ps.PosSemidef) : (smCov A P Q Ps).PosSemidef :=
  smCov_posSemidef A P Q Ps hP hQ.posSemidef
    (posDef_isUnit_det (predCov_posDef A P Q hP hQ)) hPs

end KalmanMatrixBlock

/-! END block `C20_kalman_matrix_*` -/

end Genjax
