import GenjaxModel.Proofs.GfiCohInv
import GenjaxModel.Proofs.GfiAssess
import GenjaxModel.Proofs.GfiAssessCond
import GenjaxModel.Proofs.GfiLawMain  -- (c01law block at the end of this file)
import Mathlib.Algebra.Group.TypeTags.Basic  -- (c01law block: `Additive ℚ` in a non-vacuity example)
/-!
# C01 — assess is the joint log density; simulate reports score = -assess(choices) and the same retval

Model: `Model/Gfi.lean` (`GF.simulate`, `GF.assess`, handlers `Body.simulate` / `Body.assess`,
Vmap/Scan/Cond).  `GF.assess` is *by construction* the sum of the site log densities `P.lp d params v`
with parameters computed from the values the site depends on, together with the body's return
expression; what needs proof is that every trace `simulate` can build reports exactly that.
Quantifiers: every program `g`, every argument list, every primitive family `P` (log density and
sampler arbitrary), every weight type that is an additive commutative group.
-/
namespace Genjax
variable {R : Type} [AddCommGroup R] (P : Prims R)

/-- Every trace built by `simulate` — any program, Cond/Vmap/Scan included — is structurally
    coherent: each stored score/retval is the one its own choices determine. -/
theorem C01_simulate_coherent (g : GF) (args : List Val) (t : Tr R)
    (h : g.simulate P args = some t) : g.Coh P args t := simulate_coh P g args t h

/-- A coherent trace reports `score = -assess(its choices)` and the same return value.
    `_partial`: stated for the choice map `x` the trace exposes; existence of `x` is
    `C01_simulate_choices_partial` (Cond-free programs). What is missing for programs with Cond:
    `assess` evaluates both branches on the merged choice map (proved only by correspondence).
    Superseded by `C01_coherent_assess` below, which has no `condFree` hypothesis. -/
theorem C01_coherent_assess_partial (g : GF) (hg : g.condFree = true) (args : List Val) (t : Tr R)
    (h : g.Coh P args t) (x : CM) (hx : t.choices = some x) :
    g.assess P x args = some (-t.score, t.retval) := coh_assess_partial P g hg args t h x hx

theorem C01_simulate_choices_partial (g : GF) (hg : g.condFree = true) (args : List Val) (t : Tr R)
    (h : g.simulate P args = some t) : ∃ x, t.choices = some x :=
  simulate_choices_some P g hg args t h

/-- The property's statement for Cond-free programs, end to end. -/
theorem C01_simulate_score_assess_partial (g : GF) (hg : g.condFree = true) (args : List Val)
    (t : Tr R) (h : g.simulate P args = some t) :
    ∃ x, t.choices = some x ∧ g.assess P x args = some (-t.score, t.retval) := by
  obtain ⟨x, hx⟩ := simulate_choices_some P g hg args t h
  exact ⟨x, hx, coh_assess_partial P g hg args t (simulate_coh P g args t h) x hx⟩

/-- The unrestricted version of `C01_coherent_assess_partial` (no hypothesis on the choice map)
    is false: a coherent Fn trace may carry an unreferenced entry without a choice map. -/
theorem C01_coherent_assess_needs_choices :
    ∃ (g : GF) (args : List Val) (t : Tr R), g.condFree = true ∧ g.Coh P args t ∧
      ¬ ∃ x, t.choices = some x ∧ g.assess P x args = some (-t.score, t.retval) :=
  coh_assess_counterexample P

/-! ## Programs with Cond (supersedes the `_partial` theorems above)

`get_choices()` of a Cond trace merges the two branch maps leafwise by the check and
`Cond.assess` evaluates both branches on the merged map; `Proofs/GfiAssessCond.lean` shows that the
selected branch reads from the merged map exactly what it reads from its own map, and that the other
branch does not raise on it. -/

/-- A coherent trace reports `score = -assess(its choices)` and the same return value — EVERY
    program, Cond at any depth (inside Fn, Vmap, Scan, Cond of Cond).  Hypothesis `hx` is exactly
    "`get_choices()` does not raise" (see `C01_coherent_assess_needs_choices`, and
    `C01_simulate_choices_skel` for when it holds).
    Supersedes `C01_coherent_assess_partial` (which needed `g.condFree`). -/
theorem C01_coherent_assess (g : GF) (args : List Val) (t : Tr R)
    (h : g.Coh P args t) (x : CM) (hx : t.choices = some x) :
    g.assess P x args = some (-t.score, t.retval) := coh_assess P g args t h x hx

/-- The property's statement, end to end, for every program: whenever the simulated trace has a
    choice map, `assess` on it under the same arguments returns `(-score, retval)`.
    Supersedes `C01_simulate_score_assess_partial`. -/
theorem C01_simulate_score_assess (g : GF) (args : List Val) (t : Tr R)
    (h : g.simulate P args = some t) (x : CM) (hx : t.choices = some x) :
    g.assess P x args = some (-t.score, t.retval) :=
  coh_assess P g args t (simulate_coh P g args t h) x hx

/-- When does the simulated trace have a choice map?  Its skeleton (leaf values forgotten) is the
    program's static skeleton `g.skel` — as partial values: `get_choices()` raises iff some Cond of
    the program has branches whose choice-map shapes do not merge (`g.skel = none`).
    Supersedes `C01_simulate_choices_partial`. -/
theorem C01_simulate_choices_skel (g : GF) (args : List Val) (t : Tr R)
    (h : g.simulate P args = some t) : t.choices.map CM.skel = g.skel :=
  simulate_choices_skel P g args t h

/-- End to end without a hypothesis on the trace: programs whose Cond branches are compatible. -/
theorem C01_simulate_score_assess_compat (g : GF) (hs : g.skel.isSome) (args : List Val)
    (t : Tr R) (h : g.simulate P args = some t) :
    ∃ x, t.choices = some x ∧ g.assess P x args = some (-t.score, t.retval) := by
  obtain ⟨x, hx⟩ := choices_of_skel (simulate_choices_skel P g args t h) hs
  exact ⟨x, hx, C01_simulate_score_assess P g args t h x hx⟩

/-- … and incompatible branches make `get_choices()` raise on every simulated trace. -/
theorem C01_simulate_choices_raises (g : GF) (hs : g.skel = none) (args : List Val)
    (t : Tr R) (h : g.simulate P args = some t) : t.choices = none := by
  have := simulate_choices_skel P g args t h
  rw [hs] at this
  simpa using this

/-! Non-vacuity: a Cond whose two branches are Fn bodies sharing the address `"x"` (the false
    branch has a further address `"y"`), integer weights: `condExG`, `condExP` of
    `Proofs/GfiAssessCond.lean`. -/

/-- `simulate` succeeds and the trace has a (merged) choice map: `"x"` from the taken branch,
    `"y"` from the other one. -/
example : ∃ t, condExG.simulate condExP [.num 1, .num 7] = some t ∧
    t.choices = some (.node (.cons "x" (.leaf (.num 4)) (.cons "y" (.leaf (.num 8)) .nil))) :=
  ⟨_, rfl, rfl⟩

example : condExG.skel.isSome := rfl

/-- the conclusion of `C01_simulate_score_assess` on that instance, computed -/
example : ∃ t x, condExG.simulate condExP [.num 1, .num 7] = some t ∧ t.choices = some x ∧
    condExG.assess condExP x [.num 1, .num 7] = some (9, .num 4) ∧ t.score = -9 :=
  ⟨_, _, rfl, rfl, rfl, rfl⟩

/-- Cond at depth (`condExDeep`: a Fn calling a Scan of a Cond — the branch alternates from step to
    step — and a Vmap of a Cond of a Cond, lanes taking different branches): hypotheses and
    conclusion of `C01_simulate_score_assess` on a concrete instance -/
example : ∃ t x, condExDeep.simulate condExP condExDeepArgs = some t ∧ t.choices = some x ∧
    condExDeep.assess condExP x condExDeepArgs = some (-t.score, t.retval) :=
  (simulateAssessCheck_iff _ _ _).mp (by decide +kernel)

example : condExDeep.skel.isSome := rfl

/-- incompatible branches (a Distribution against a Fn): no skeleton, `get_choices()` raises -/
example : (GF.cond (.dist 0) (.fn (.ret (.const 0)))).skel = none := rfl

end Genjax

/-! # ===================== c01law: THE LAW OF `simulate` =====================
  (appended block; model `Model/GfiDist.lean`, proofs `Proofs/GfiDistMonad.lean`,
  `Proofs/GfiLawLemmas.lean`, `Proofs/GfiLaw.lean`, `Proofs/GfiDistSupp.lean`,
  `Proofs/GfiLawTotal.lean`, `Proofs/GfiLawMain.lean`)

  The second half of C01: "its choices are distributed according to that density (outcome by outcome
  for discrete programs)".  `GF.simD pd P g args` is `GF.simulate` with every Distribution site
  drawing from a finite-support distribution `pd` (a weighted list of outcomes, an outcome being a
  trace or "the code raised"), `GF.assessP pd g x args` is `GF.assess` in the linear domain (the
  PRODUCT of the site masses).  `E d φ` is the exact expectation `Σ p·φ(outcome)`; `optK φ` extends
  `φ` by 0 to the outcome "raised".  Hypotheses on the primitives: `pd.WF` (the support lists every
  value once, the mass vanishes outside it), `pd.Normalised` (total mass 1, needed only for Cond:
  the hidden branch's draws are marginalised out). -/
namespace Genjax
open Smc Smc.FinDist

section C01Law
variable {K : Type} [Field K]

/-- TIE of the distribution-valued model to the executable one: with the point-mass primitives of
    the probe sampler, `simD` IS `simulate` (same trace, or "raises" when `simulate` raises) —
    every program, every argument list. -/
theorem C01_simD_pointmass {R : Type} [Zero R] [Add R] [Neg R] (P : Prims R) (g : GF)
    (args : List Val) :
    g.simD (PD.ofDraw P : PD K) P args = FinDist.pure (g.simulate P args) :=
  simD_pointmass P g args

/-- TIE of `assessP` to `assess`: when the masses are the exponentials of the log densities
    (`e 0 = 1`, `e (a + b) = e a · e b`, `pm = e ∘ lp`), `assessP` is `assess` pushed through `e`:
    it raises exactly when `assess` raises, returns the same value, and the product of the masses is
    `e` of the sum of the log densities. -/
theorem C01_assessP_is_exp_assess {R : Type} [Zero R] [Add R] (e : R → K) (he0 : e 0 = 1)
    (hadd : ∀ a b, e (a + b) = e a * e b) (pd : PD K) (P : Prims R)
    (hpm : ∀ d a v, pd.pm d a v = e (P.lp d a v)) (g : GF) (x : CM) (args : List Val) :
    g.assessP pd x args = (g.assess P x args).map fun p => (e p.1, p.2) :=
  assessP_eq_exp_assess e he0 hadd pd P hpm g x args

/-- non-vacuity of the tie: integer log densities base 2, `e n = 2^n` -/
example : ∃ e : ℤ → ℚ, e 0 = 1 ∧ ∀ a b, e (a + b) = e a * e b :=
  ⟨fun n => (2 : ℚ) ^ n, by simp, fun a b => zpow_add₀ (by norm_num) a b⟩

/-- **THE LAW, Cond-free programs** (`_partial`; superseded by `C01_simulate_law`, which needs
    normalisation and a condition on the Conds).  For every program built from Distribution, Fn,
    Vmap, Scan at any depth, every argument list and every choice map `x` of the program's static
    shape: the probability that `simulate` produces a trace whose choice map is `x` equals the
    product of the site masses `assessP` computes on `x` (0 where `assessP` raises — which for a map
    of the right shape happens only when an address is traced twice, and then `simulate` raises on
    every run).  Only hypothesis on the primitives: `pd.WF`; in particular a leaf value outside its
    primitive's support gives probability 0 on both sides. -/
theorem C01_simulate_law_partial {R : Type} [Zero R] [Add R] [Neg R] (pd : PD K) (P : Prims R)
    (hpd : pd.WF) (g : GF) (hcf : g.condFree = true) (args : List Val) (x : CM)
    (hs : g.skel = some x.skel) :
    E (g.simD pd P args) (optK fun t => if t.choices = some x then 1 else 0)
      = pmassOf (g.assessP pd x args) := by
  rw [← massOf_one]
  exact simD_law_condFree pd P hpd g hcf args x (fun _ => 1) hs

/-- the law stated with the EXISTING `GF.assess` (`_partial`: Cond-free): if the masses are the
    exponentials of the log densities (`pm = e ∘ lp`, `e 0 = 1`, `e (a + b) = e a · e b`), the
    probability that the simulated choice map is `x` is `e` of the log density `assess` returns on
    `x`.  (The weight type only needs `0, +, -`, so that it can contain `log 0`; see the example
    below.) -/
theorem C01_simulate_law_exp_assess_partial {R : Type} [Zero R] [Add R] [Neg R] (e : R → K)
    (he0 : e 0 = 1) (hadd : ∀ a b, e (a + b) = e a * e b) (pd : PD K) (P : Prims R)
    (hpm : ∀ d a v, pd.pm d a v = e (P.lp d a v)) (hpd : pd.WF) (g : GF)
    (hcf : g.condFree = true) (args : List Val) (x : CM) (hs : g.skel = some x.skel) :
    E (g.simD pd P args) (optK fun t => if t.choices = some x then 1 else 0)
      = (match g.assess P x args with
         | some lr => e lr.1
         | none => 0) := by
  rw [C01_simulate_law_partial pd P hpd g hcf args x hs,
    assessP_eq_exp_assess e he0 hadd pd P hpm g x args]
  cases g.assess P x args <;> rfl

/-- non-vacuity: the weight type `Additive ℚ` (ℚ with `0 := 1`, `+ := ·`, i.e. the log domain
    including `log 0`), `e` the identity, log densities `lp := pm` of the concrete primitives -/
example : ∃ (e : Additive ℚ → ℚ) (P : Prims (Additive ℚ)), e 0 = 1 ∧
    (∀ a b, e (a + b) = e a * e b) ∧ (∀ d a v, lawExPD.pm d a v = e (P.lp d a v)) ∧ lawExPD.WF :=
  ⟨Additive.toMul, ⟨fun d a v => Additive.ofMul (lawExPD.pm d a v), fun _ _ => .num 0⟩, rfl,
    fun _ _ => rfl, fun _ _ _ => rfl, lawExPD_wf⟩

variable {R : Type} [AddCommGroup R] (pd : PD K) (P : Prims R)

/-- **THE LAW** for every program, Cond at any depth, under `g.condOK`: at every Cond the two
    branches have the same static choice-map skeleton and trace no address twice (decidable; true for
    Cond-free programs).  The probability that the choice map of the simulated trace is `x` is the
    product of the site masses that `assessP` computes on `x`.
    Supersedes `C01_simulate_law_partial`.  The shape condition on Conds cannot be dropped:
    `C01_simulate_law_fails_on_mixed_cond`. -/
theorem C01_simulate_law (hpd : pd.WF) (hnorm : pd.Normalised) (g : GF) (hc : g.condOK = true)
    (args : List Val) (x : CM) (hs : g.skel = some x.skel) :
    E (g.simD pd P args) (optK fun t => if t.choices = some x then 1 else 0)
      = pmassOf (g.assessP pd x args) := by
  rw [← massOf_one]
  exact simD_law pd P hpd hnorm g hc args x (fun _ => 1) hs

/-- the law jointly with the return value: (choices, retval) = (x, r) has the probability
    `assessP` assigns to `x` if `r` is the return value `assessP` computes, and 0 otherwise — the
    simulated trace's return value is the one `assess` returns on its choices, with probability 1. -/
theorem C01_simulate_law_retval (hpd : pd.WF) (hnorm : pd.Normalised) (g : GF)
    (hc : g.condOK = true) (args : List Val) (x : CM) (r : Val) (hs : g.skel = some x.skel) :
    E (g.simD pd P args) (optK fun t => if t.choices = some x ∧ t.retval = r then 1 else 0)
      = (match g.assessP pd x args with
         | some pr => if pr.2 = r then pr.1 else 0
         | none => 0) := by
  have := simD_law pd P hpd hnorm g hc args x (fun r' => if r' = r then 1 else 0) hs
  have hfun : (fun t : Tr R => if t.choices = some x ∧ t.retval = r then (1 : K) else 0)
      = choicesAre x (fun r' => if r' = r then 1 else 0) := by
    funext t
    simp only [choicesAre, ite_and]
  rw [hfun, this]
  cases g.assessP pd x args with
  | none => rfl
  | some pr => simp [massOf]

/-- the general form: expectation of any function `ψ` of the return value on the event
    "the choice map is `x`" -/
theorem C01_simulate_law_fn (hpd : pd.WF) (hnorm : pd.Normalised) (g : GF) (hc : g.condOK = true)
    (args : List Val) (x : CM) (ψ : Val → K) (hs : g.skel = some x.skel) :
    E (g.simD pd P args) (optK fun t => if t.choices = some x then ψ t.retval else 0)
      = (match g.assessP pd x args with
         | some pr => pr.1 * ψ pr.2
         | none => 0) := by
  refine (simD_law pd P hpd hnorm g hc args x ψ hs).trans ?_
  cases g.assessP pd x args <;> rfl

/-- mass 0 outside the static shape: a choice map that does not have the program's skeleton is
    never produced (any program, any primitives) -/
theorem C01_simulate_law_off_shape (g : GF) (args : List Val) (x : CM)
    (hs : g.skel ≠ some x.skel) :
    E (g.simD pd P args) (optK fun t => if t.choices = some x then (1 : K) else 0) = 0 :=
  simD_law_off_shape pd P g args x (fun _ => 1) hs

/-- on a program satisfying the hypotheses of the law, `assessP` does not raise on maps of the
    static shape (so the `none` branch of `pmassOf` is not what makes `C01_simulate_law` true) -/
theorem C01_assessP_defined (pd : PD K) (g : GF) (hn : g.noCollide = true) (hc : g.condOK = true)
    (x : CM) (args : List Val) (hs : g.skel = some x.skel) : (g.assessP pd x args).isSome :=
  assessP_defined pd g hn hc x args hs

/-- **total mass 1**: with normalised primitives `simD g args` is a probability distribution over
    outcomes — every program (Cond included), every argument list -/
theorem C01_simulate_mass_one (hnorm : pd.Normalised) (g : GF) (args : List Val) :
    mass (g.simD pd P args) = 1 := simD_mass pd P hnorm g args

/-- … and all of it sits on traces (no run raises) when no Fn body traces an address twice -/
theorem C01_simulate_mass_one_traces (hnorm : pd.Normalised) (g : GF) (hn : g.noCollide = true)
    (args : List Val) : E (g.simD pd P args) (optK fun _ => (1 : K)) = 1 :=
  simD_mass_some pd P hnorm g hn args

/-- every trace `simD` can produce (positive or zero probability, any primitives) is coherent, and
    `assess` on its choices returns `(-score, retval)`: the distributional version of
    `C01_simulate_score_assess` -/
theorem C01_simD_support_score_assess (g : GF) (args : List Val) (t : Tr R)
    (h : some t ∈ supp (g.simD pd P args)) (x : CM) (hx : t.choices = some x) :
    g.Coh P args t ∧ g.assess P x args = some (-t.score, t.retval) :=
  ⟨simD_coh pd P g args t h, coh_assess P g args t (simD_coh pd P g args t h) x hx⟩

/-- … and its choice map has the program's static skeleton -/
theorem C01_simD_support_choices_skel (g : GF) (args : List Val) (t : Tr R)
    (h : some t ∈ supp (g.simD pd P args)) : t.choices.map CM.skel = g.skel :=
  simD_choices_skel pd P g args t h

end C01Law

/-- The shape condition on Conds in `C01_simulate_law` is necessary.  `lawExCondBad` is
    `cond(c, {x ~ coin}, {x ~ coin; y ~ coin})`; with the true branch selected the merged choice map
    `{x: 1, y: 1}` has probability `1/2 · 1/2 = 1/4` (`y` comes from the hidden branch), whereas
    `assess` on it reports the selected branch's density `1/2`: the choice maps of such a Cond are
    NOT distributed according to the density `assess` computes (which sums to 2 over the four maps).
    All other hypotheses of `C01_simulate_law` hold for this instance. -/
theorem C01_simulate_law_fails_on_mixed_cond :
    lawExPD.WF ∧ lawExPD.Normalised ∧ lawExCondBad.noCollide = true ∧
    lawExCondBad.skel = some (lawExX 1 1).skel ∧
    E (lawExCondBad.simD lawExPD lawExP [.num 1])
      (optK fun t => if t.choices = some (lawExX 1 1) then 1 else 0) = 1/4 ∧
    pmassOf (lawExCondBad.assessP lawExPD (lawExX 1 1) [.num 1]) = 1/2 :=
  ⟨lawExPD_wf, lawExPD_normalised, by decide +kernel, by decide +kernel, by decide +kernel,
    by decide +kernel⟩

/-! ### non-vacuity (exact rationals; `lawExPD`: a coin with parameter, a three-valued primitive) -/

/-- hypotheses of the law on the concrete primitives -/
example : lawExPD.WF ∧ lawExPD.Normalised := ⟨lawExPD_wf, lawExPD_normalised⟩

/-- two sites, the second depending on the first (`x ~ coin(1/3); y ~ coin(1/4 + x/2)`):
    hypotheses and both sides of `C01_simulate_law_partial`, computed: `P(x=1, y=1) = 1/3 · 3/4` -/
example : lawExG.condFree = true ∧ lawExG.skel = some (lawExX 1 1).skel ∧
    E (lawExG.simD lawExPD lawExP [.num 0]) (optK fun t => if t.choices = some (lawExX 1 1) then 1 else 0)
      = 1/4 ∧
    pmassOf (lawExG.assessP lawExPD (lawExX 1 1) [.num 0]) = 1/4 := by
  refine ⟨by decide +kernel, by decide +kernel, by decide +kernel, by decide +kernel⟩

/-- a value outside the support (`y = 5`): probability 0 on both sides -/
example :
    E (lawExG.simD lawExPD lawExP [.num 0]) (optK fun t => if t.choices = some (lawExX 1 5) then 1 else 0)
      = 0 ∧ pmassOf (lawExG.assessP lawExPD (lawExX 1 5) [.num 0]) = 0 := by
  refine ⟨by decide +kernel, by decide +kernel⟩

/-- a Scan (2 steps, the carry feeds the next step's parameters) of a Fn calling a Vmap (2 lanes):
    `P(lanes = (1,0) then (1,1)) = 1/4 · 5/8 · 1/2 · 5/8` -/
example : lawExScan.condFree = true ∧ lawExScan.skel = some (lawExScanX 1 0 1 1).skel ∧
    E (lawExScan.simD lawExPD lawExP lawExScanArgs)
      (optK fun t => if t.choices = some (lawExScanX 1 0 1 1) then 1 else 0) = 25/512 ∧
    pmassOf (lawExScan.assessP lawExPD (lawExScanX 1 0 1 1) lawExScanArgs) = 25/512 := by
  refine ⟨by decide +kernel, by decide +kernel, by decide +kernel, by decide +kernel⟩

/-- a Cond with branches of the same shape (`C01_simulate_law`): false branch selected,
    `P(x = 2) = 1/6`, return value `x + 10` -/
example : lawExCond.condOK = true ∧ lawExCond.skel =
      some (CM.node (.cons "x" (.leaf (.num 2)) .nil)).skel ∧
    E (lawExCond.simD lawExPD lawExP [.num 0])
      (optK fun t => if t.choices = some (.node (.cons "x" (.leaf (.num 2)) .nil)) ∧
        t.retval = .num 12 then 1 else 0) = 1/6 ∧
    lawExCond.assessP lawExPD (.node (.cons "x" (.leaf (.num 2)) .nil)) [.num 0]
      = some (1/6, .num 12) := by
  refine ⟨by decide +kernel, by decide +kernel, by decide +kernel, by decide +kernel⟩

/-- total mass on the Scan/Vmap instance -/
example : mass (lawExScan.simD lawExPD lawExP lawExScanArgs) = 1 := by decide +kernel

end Genjax
