import GenjaxModel.Proofs.GfiCohInv
import GenjaxModel.Proofs.GfiAssess
import GenjaxModel.Proofs.GfiAssessCond
/-!
# C01 — assess is the joint log density; simulate reports score = -assess(choices) and the same retval

Model: `Model/Gfi.lean` (`GF.simulate`, `GF.assess`, handlers `Body.simulate` / `Body.assess`,
Vmap/Scan/Cond).  `GF.assess` is *by construction* the sum of the site log densities `P.lp d params v`
with parameters computed from the values the site depends on, together with the body's return
expression; what needs proof is that every trace `simulate` can build reports exactly that.
Quantifiers: every program `g`, every argument list, every primitive family `P` (log density and
sampler arbitrary), every weight type that is an additive commutative group.
-/
namespace Genjax
variable {R : Type} [AddCommGroup R] (P : Prims R)

/-- Every trace built by `simulate` — any program, Cond/Vmap/Scan included — is structurally
    coherent: each stored score/retval is the one its own choices determine. -/
theorem C01_simulate_coherent (g : GF) (args : List Val) (t : Tr R)
    (h : g.simulate P args = some t) : g.Coh P args t := simulate_coh P g args t h

/-- A coherent trace reports `score = -assess(its choices)` and the same return value.
    `_partial`: stated for the choice map `x` the trace exposes; existence of `x` is
    `C01_simulate_choices_partial` (Cond-free programs). What is missing for programs with Cond:
    `assess` evaluates both branches on the merged choice map (proved only by correspondence).
    Superseded by `C01_coherent_assess` below, which has no `condFree` hypothesis. -/
theorem C01_coherent_assess_partial (g : GF) (hg : g.condFree = true) (args : List Val) (t : Tr R)
    (h : g.Coh P args t) (x : CM) (hx : t.choices = some x) :
    g.assess P x args = some (-t.score, t.retval) := coh_assess_partial P g hg args t h x hx

theorem C01_simulate_choices_partial (g : GF) (hg : g.condFree = true) (args : List Val) (t : Tr R)
    (h : g.simulate P args = some t) : ∃ x, t.choices = some x :=
  simulate_choices_some P g hg args t h

/-- The property's statement for Cond-free programs, end to end. -/
theorem C01_simulate_score_assess_partial (g : GF) (hg : g.condFree = true) (args : List Val)
    (t : Tr R) (h : g.simulate P args = some t) :
    ∃ x, t.choices = some x ∧ g.assess P x args = some (-t.score, t.retval) := by
  obtain ⟨x, hx⟩ := simulate_choices_some P g hg args t h
  exact ⟨x, hx, coh_assess_partial P g hg args t (simulate_coh P g args t h) x hx⟩

/-- The unrestricted version of `C01_coherent_assess_partial` (no hypothesis on the choice map)
    is false: a coherent Fn trace may carry an unreferenced entry without a choice map. -/
theorem C01_coherent_assess_needs_choices :
    ∃ (g : GF) (args : List Val) (t : Tr R), g.condFree = true ∧ g.Coh P args t ∧
      ¬ ∃ x, t.choices = some x ∧ g.assess P x args = some (-t.score, t.retval) :=
  coh_assess_counterexample P

/-! ## Programs with Cond (supersedes the `_partial` theorems above)

`get_choices()` of a Cond trace merges the two branch maps leafwise by the check and
`Cond.assess` evaluates both branches on the merged map; `Proofs/GfiAssessCond.lean` shows that the
selected branch reads from the merged map exactly what it reads from its own map, and that the other
branch does not raise on it. -/

/-- A coherent trace reports `score = -assess(its choices)` and the same return value — EVERY
    program, Cond at any depth (inside Fn, Vmap, Scan, Cond of Cond).  Hypothesis `hx` is exactly
    "`get_choices()` does not raise" (see `C01_coherent_assess_needs_choices`, and
    `C01_simulate_choices_skel` for when it holds).
    Supersedes `C01_coherent_assess_partial` (which needed `g.condFree`). -/
theorem C01_coherent_assess (g : GF) (args : List Val) (t : Tr R)
    (h : g.Coh P args t) (x : CM) (hx : t.choices = some x) :
    g.assess P x args = some (-t.score, t.retval) := coh_assess P g args t h x hx

/-- The property's statement, end to end, for every program: whenever the simulated trace has a
    choice map, `assess` on it under the same arguments returns `(-score, retval)`.
    Supersedes `C01_simulate_score_assess_partial`. -/
theorem C01_simulate_score_assess (g : GF) (args : List Val) (t : Tr R)
    (h : g.simulate P args = some t) (x : CM) (hx : t.choices = some x) :
    g.assess P x args = some (-t.score, t.retval) :=
  coh_assess P g args t (simulate_coh P g args t h) x hx

/-- When does the simulated trace have a choice map?  Its skeleton (leaf values forgotten) is the
    program's static skeleton `g.skel` — as partial values: `get_choices()` raises iff some Cond of
    the program has branches whose choice-map shapes do not merge (`g.skel = none`).
    Supersedes `C01_simulate_choices_partial`. -/
theorem C01_simulate_choices_skel (g : GF) (args : List Val) (t : Tr R)
    (h : g.simulate P args = some t) : t.choices.map CM.skel = g.skel :=
  simulate_choices_skel P g args t h

/-- End to end without a hypothesis on the trace: programs whose Cond branches are compatible. -/
theorem C01_simulate_score_assess_compat (g : GF) (hs : g.skel.isSome) (args : List Val)
    (t : Tr R) (h : g.simulate P args = some t) :
    ∃ x, t.choices = some x ∧ g.assess P x args = some (-t.score, t.retval) := by
  obtain ⟨x, hx⟩ := choices_of_skel (simulate_choices_skel P g args t h) hs
  exact ⟨x, hx, C01_simulate_score_assess P g args t h x hx⟩

/-- … and incompatible branches make `get_choices()` raise on every simulated trace. -/
theorem C01_simulate_choices_raises (g : GF) (hs : g.skel = none) (args : List Val)
    (t : Tr R) (h : g.simulate P args = some t) : t.choices = none := by
  have := simulate_choices_skel P g args t h
  rw [hs] at this
  simpa using this

/-! Non-vacuity: a Cond whose two branches are Fn bodies sharing the address `"x"` (the false
    branch has a further address `"y"`), integer weights: `condExG`, `condExP` of
    `Proofs/GfiAssessCond.lean`. -/

/-- `simulate` succeeds and the trace has a (merged) choice map: `"x"` from the taken branch,
    `"y"` from the other one. -/
example : ∃ t, condExG.simulate condExP [.num 1, .num 7] = some t ∧
    t.choices = some (.node (.cons "x" (.leaf (.num 4)) (.cons "y" (.leaf (.num 8)) .nil))) :=
  ⟨_, rfl, rfl⟩

example : condExG.skel.isSome := rfl

/-- the conclusion of `C01_simulate_score_assess` on that instance, computed -/
example : ∃ t x, condExG.simulate condExP [.num 1, .num 7] = some t ∧ t.choices = some x ∧
    condExG.assess condExP x [.num 1, .num 7] = some (9, .num 4) ∧ t.score = -9 :=
  ⟨_, _, rfl, rfl, rfl, rfl⟩

/-- Cond at depth (`condExDeep`: a Fn calling a Scan of a Cond — the branch alternates from step to
    step — and a Vmap of a Cond of a Cond, lanes taking different branches): hypotheses and
    conclusion of `C01_simulate_score_assess` on a concrete instance -/
example : ∃ t x, condExDeep.simulate condExP condExDeepArgs = some t ∧ t.choices = some x ∧
    condExDeep.assess condExP x condExDeepArgs = some (-t.score, t.retval) :=
  (simulateAssessCheck_iff _ _ _).mp (by decide +kernel)

example : condExDeep.skel.isSome := rfl

/-- incompatible branches (a Distribution against a Fn): no skeleton, `get_choices()` raises -/
example : (GF.cond (.dist 0) (.fn (.ret (.const 0)))).skel = none := rfl

end Genjax
