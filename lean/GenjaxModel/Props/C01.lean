import GenjaxModel.Proofs.GfiCohInv
import GenjaxModel.Proofs.GfiAssess
/-!
# C01 — assess is the joint log density; simulate reports score = -assess(choices) and the same retval

Model: `Model/Gfi.lean` (`GF.simulate`, `GF.assess`, handlers `Body.simulate` / `Body.assess`,
Vmap/Scan/Cond).  `GF.assess` is *by construction* the sum of the site log densities `P.lp d params v`
with parameters computed from the values the site depends on, together with the body's return
expression; what needs proof is that every trace `simulate` can build reports exactly that.
Quantifiers: every program `g`, every argument list, every primitive family `P` (log density and
sampler arbitrary), every weight type that is an additive commutative group.
-/
namespace Genjax
variable {R : Type} [AddCommGroup R] (P : Prims R)

/-- Every trace built by `simulate` — any program, Cond/Vmap/Scan included — is structurally
    coherent: each stored score/retval is the one its own choices determine. -/
theorem C01_simulate_coherent (g : GF) (args : List Val) (t : Tr R)
    (h : g.simulate P args = some t) : g.Coh P args t := simulate_coh P g args t h

/-- A coherent trace reports `score = -assess(its choices)` and the same return value.
    `_partial`: stated for the choice map `x` the trace exposes; existence of `x` is
    `C01_simulate_choices_partial` (Cond-free programs). What is missing for programs with Cond:
    `assess` evaluates both branches on the merged choice map (proved only by correspondence). -/
theorem C01_coherent_assess_partial (g : GF) (hg : g.condFree = true) (args : List Val) (t : Tr R)
    (h : g.Coh P args t) (x : CM) (hx : t.choices = some x) :
    g.assess P x args = some (-t.score, t.retval) := coh_assess_partial P g hg args t h x hx

theorem C01_simulate_choices_partial (g : GF) (hg : g.condFree = true) (args : List Val) (t : Tr R)
    (h : g.simulate P args = some t) : ∃ x, t.choices = some x :=
  simulate_choices_some P g hg args t h

/-- The property's statement for Cond-free programs, end to end. -/
theorem C01_simulate_score_assess_partial (g : GF) (hg : g.condFree = true) (args : List Val)
    (t : Tr R) (h : g.simulate P args = some t) :
    ∃ x, t.choices = some x ∧ g.assess P x args = some (-t.score, t.retval) := by
  obtain ⟨x, hx⟩ := simulate_choices_some P g hg args t h
  exact ⟨x, hx, coh_assess_partial P g hg args t (simulate_coh P g args t h) x hx⟩

/-- The unrestricted version of `C01_coherent_assess_partial` (no hypothesis on the choice map)
    is false: a coherent Fn trace may carry an unreferenced entry without a choice map. -/
theorem C01_coherent_assess_needs_choices :
    ∃ (g : GF) (args : List Val) (t : Tr R), g.condFree = true ∧ g.Coh P args t ∧
      ¬ ∃ x, t.choices = some x ∧ g.assess P x args = some (-t.score, t.retval) :=
  coh_assess_counterexample P

end Genjax
