import GenjaxModel.Proofs.Resample
import Mathlib.Tactic.NormNum
/-!
# C12 — resampling copies particles faithfully, preserves the estimate, and is unbiased

Model: `Model/Resample.lean` (linear-domain weights `w_i = exp(log_weights_i)`; the estimate
`exp(log_marginal_likelihood) = acc * mean w`). All statements are over an arbitrary linearly
ordered field with floor (ℚ, ℝ, …), every weight vector with non-negative entries and positive sum,
every particle count `n`, every offset `u ∈ (0,1)`.
-/
namespace Genjax.Resample
variable {K : Type} [Field K] [LinearOrder K] [IsStrictOrderedRing K] [FloorRing K]

/-- same number of particles -/
theorem C12_same_count (w : List K) (n : Nat) (u : K) : (systematic w n u).length = n :=
  systematic_length w n u

/-- every ancestor index designates an input particle -/
theorem C12_index_valid (w : List K) (n : Nat) (u : K)
    (hw : ∀ x ∈ w, 0 ≤ x) (hs : 0 < sum w) (hu0 : 0 < u) (hu1 : u < 1) :
    ∀ i ∈ systematic w n u, i < w.length := systematic_index_lt w n u hw hs hu0 hu1

/-- the copies add up to N -/
theorem C12_total (w : List K) (n : Nat) (u : K)
    (hw : ∀ x ∈ w, 0 ≤ x) (hs : 0 < sum w) (hu0 : 0 < u) (hu1 : u < 1) :
    ((List.range w.length).map (copies (systematic w n u))).sum = n :=
  systematic_total w n u hw hs hu0 hu1

/-- systematic resampling gives particle i ⌊N w_i⌋ or ⌈N w_i⌉ copies for EVERY offset in (0,1) -/
theorem C12_floor_ceil (w : List K) (n : Nat) (u : K)
    (hw : ∀ x ∈ w, 0 ≤ x) (hs : 0 < sum w) (hu0 : 0 < u) (hu1 : u < 1)
    (i : Nat) (hi : i < w.length) :
    ⌊(n : K) * (w.getD i 0 / sum w)⌋ ≤ (copies (systematic w n u) i : Int) ∧
    (copies (systematic w n u) i : Int) ≤ ⌈(n : K) * (w.getD i 0 / sum w)⌉ :=
  systematic_floor_ceil w n u hw hs hu0 hu1 i hi

/-- closed form of the copy count as a function of the offset: with c = N·C_i and d = N·w_i,
    copies_i(u) = ⌊c − u⌋ − ⌊c − u − d⌋.  Since ∫₀¹ ⌊a − u⌋ du = a − 1 for every real a, the
    expected number of copies over a uniform offset is d = N·w_i (the integration step is cited
    mathematics, not formalised; the seeded run checks it statistically). -/
theorem C12_count_formula (w : List K) (n : Nat) (u : K)
    (hw : ∀ x ∈ w, 0 ≤ x) (hs : 0 < sum w) (hu0 : 0 < u) (hu1 : u < 1)
    (i : Nat) (hi : i < w.length) :
    (copies (systematic w n u) i : Int) =
      ⌊(n : K) * ((cumsum (normalize w)).getD i 0) - u⌋ -
      ⌊(n : K) * ((cumsum (normalize w)).getD i 0) - u - (n : K) * (w.getD i 0 / sum w)⌋ :=
  systematic_count_formula w n u hw hs hu0 hu1 i hi

/-- `resample` leaves exp(log_marginal_likelihood()) exactly unchanged -/
theorem C12_estimate_invariant {α : Type} [Inhabited α] (c : Coll K α) (idx : List Nat)
    (hn : c.w.length ≠ 0) (hl : idx.length = c.w.length) :
    (c.resample idx).lml = c.lml := resample_lml c idx hn hl

/-- particle j of the result is particle idx[j] of the input (one source index for the whole
    particle), and all weights are reset to 1 = exp 0 -/
theorem C12_copy_faithful {α : Type} [Inhabited α] (c : Coll K α) (idx : List Nat) (j : Nat)
    (hj : j < idx.length) :
    (c.resample idx).particles.getD j default = c.particles.getD (idx.getD j 0) default ∧
    (c.resample idx).w.getD j 0 = 1 := resample_copy c idx j hj

/-- the pre-resampling normalised weights are kept as diagnostic weights -/
theorem C12_diagnostic_kept {α : Type} [Inhabited α] (c : Coll K α) (idx : List Nat) :
    (c.resample idx).diag = normalize c.w ∧ (c.resample idx).particles.length = idx.length :=
  resample_diag c idx

/-- non-vacuity: a concrete weight vector and offset meet every hypothesis -/
example : (∀ x ∈ ([1, 2, 1] : List ℚ), 0 ≤ x) ∧ 0 < sum ([1, 2, 1] : List ℚ) ∧
    (0 : ℚ) < 1/2 ∧ (1/2 : ℚ) < 1 := by
  refine ⟨?_, ?_, by norm_num, by norm_num⟩
  · intro x hx; simp at hx; rcases hx with rfl | rfl | rfl <;> norm_num
  · norm_num [sum]

end Genjax.Resample
