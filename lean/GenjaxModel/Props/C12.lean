import GenjaxModel.Proofs.Resample
import GenjaxModel.Proofs.ResampleIntegral
import GenjaxModel.Proofs.ResampleCategorical
import Mathlib.Tactic.NormNum
import GenjaxModel.Proofs.GfiGather
/-!
# C12 — resampling copies particles faithfully, preserves the estimate, and is unbiased

Model: `Model/Resample.lean` (linear-domain weights `w_i = exp(log_weights_i)`; the estimate
`exp(log_marginal_likelihood) = acc * mean w`). All statements are over an arbitrary linearly
ordered field with floor (ℚ, ℝ, …), every weight vector with non-negative entries and positive sum,
every particle count `n`, every offset `u ∈ (0,1)`.

Unbiasedness (E[copies_i] = N·w_i) is proved for both methods at the end of the file:
`C12_systematic_unbiased` (over ℝ, Lebesgue integral over the uniform offset, with the integration
step `C12_integral_floor_sub` and integrability `C12_systematic_integrable` fully formalised) and
`C12_categorical_unbiased` (finite expectation `FinDist.E` over N i.i.d. categorical draws, any field).
-/
namespace Genjax.Resample
variable {K : Type} [Field K] [LinearOrder K] [IsStrictOrderedRing K] [FloorRing K]

/-- same number of particles -/
theorem C12_same_count (w : List K) (n : Nat) (u : K) : (systematic w n u).length = n :=
  systematic_length w n u

/-- every ancestor index designates an input particle -/
theorem C12_index_valid (w : List K) (n : Nat) (u : K)
    (hw : ∀ x ∈ w, 0 ≤ x) (hs : 0 < sum w) (hu0 : 0 < u) (hu1 : u < 1) :
    ∀ i ∈ systematic w n u, i < w.length := systematic_index_lt w n u hw hs hu0 hu1

/-- the copies add up to N -/
theorem C12_total (w : List K) (n : Nat) (u : K)
    (hw : ∀ x ∈ w, 0 ≤ x) (hs : 0 < sum w) (hu0 : 0 < u) (hu1 : u < 1) :
    ((List.range w.length).map (copies (systematic w n u))).sum = n :=
  systematic_total w n u hw hs hu0 hu1

/-- systematic resampling gives particle i ⌊N w_i⌋ or ⌈N w_i⌉ copies for EVERY offset in (0,1) -/
theorem C12_floor_ceil (w : List K) (n : Nat) (u : K)
    (hw : ∀ x ∈ w, 0 ≤ x) (hs : 0 < sum w) (hu0 : 0 < u) (hu1 : u < 1)
    (i : Nat) (hi : i < w.length) :
    ⌊(n : K) * (w.getD i 0 / sum w)⌋ ≤ (copies (systematic w n u) i : Int) ∧
    (copies (systematic w n u) i : Int) ≤ ⌈(n : K) * (w.getD i 0 / sum w)⌉ :=
  systematic_floor_ceil w n u hw hs hu0 hu1 i hi

/-- closed form of the copy count as a function of the offset: with c = N·C_i and d = N·w_i,
    copies_i(u) = ⌊c − u⌋ − ⌊c − u − d⌋.  Since ∫₀¹ ⌊a − u⌋ du = a − 1 for every real a
    (`C12_integral_floor_sub` below), the expected number of copies over a uniform offset is
    d = N·w_i: this integration step is now formalised, see `C12_systematic_unbiased` below. -/
theorem C12_count_formula (w : List K) (n : Nat) (u : K)
    (hw : ∀ x ∈ w, 0 ≤ x) (hs : 0 < sum w) (hu0 : 0 < u) (hu1 : u < 1)
    (i : Nat) (hi : i < w.length) :
    (copies (systematic w n u) i : Int) =
      ⌊(n : K) * ((cumsum (normalize w)).getD i 0) - u⌋ -
      ⌊(n : K) * ((cumsum (normalize w)).getD i 0) - u - (n : K) * (w.getD i 0 / sum w)⌋ :=
  systematic_count_formula w n u hw hs hu0 hu1 i hi

/-- `resample` leaves exp(log_marginal_likelihood()) exactly unchanged -/
theorem C12_estimate_invariant {α : Type} [Inhabited α] (c : Coll K α) (idx : List Nat)
    (hn : c.w.length ≠ 0) (hl : idx.length = c.w.length) :
    (c.resample idx).lml = c.lml := resample_lml c idx hn hl

/-- particle j of the result is particle idx[j] of the input (one source index for the whole
    particle), and all weights are reset to 1 = exp 0 -/
theorem C12_copy_faithful {α : Type} [Inhabited α] (c : Coll K α) (idx : List Nat) (j : Nat)
    (hj : j < idx.length) :
    (c.resample idx).particles.getD j default = c.particles.getD (idx.getD j 0) default ∧
    (c.resample idx).w.getD j 0 = 1 := resample_copy c idx j hj

/-- the pre-resampling normalised weights are kept as diagnostic weights -/
theorem C12_diagnostic_kept {α : Type} [Inhabited α] (c : Coll K α) (idx : List Nat) :
    (c.resample idx).diag = normalize c.w ∧ (c.resample idx).particles.length = idx.length :=
  resample_diag c idx

/-- non-vacuity: a concrete weight vector and offset meet every hypothesis -/
example : (∀ x ∈ ([1, 2, 1] : List ℚ), 0 ≤ x) ∧ 0 < sum ([1, 2, 1] : List ℚ) ∧
    (0 : ℚ) < 1/2 ∧ (1/2 : ℚ) < 1 := by
  refine ⟨?_, ?_, by norm_num, by norm_num⟩
  · intro x hx; simp at hx; rcases hx with rfl | rfl | rfl <;> norm_num
  · norm_num [sum]

/-! ## Unbiasedness: E[copies_i] = N · w_i for both resampling methods -/

/-- the integration step: ∫₀¹ ⌊a − u⌋ du = a − 1 for every real `a` (Lebesgue / interval integral) -/
theorem C12_integral_floor_sub (a : ℝ) : ∫ u in (0:ℝ)..1, ((⌊a - u⌋ : ℤ) : ℝ) = a - 1 :=
  integral_floor_sub a

/-- the copy count of particle `i`, as a function of the offset `u`, is integrable on `[0,1]`
    (proved, not assumed) — so the integral in `C12_systematic_unbiased` is a genuine expectation
    and not the junk value `0` that Mathlib assigns to non-integrable functions. -/
theorem C12_systematic_integrable (w : List ℝ) (n : ℕ) (hw : ∀ x ∈ w, 0 ≤ x) (hs : 0 < sum w)
    (i : ℕ) (hi : i < w.length) :
    IntervalIntegrable (fun u : ℝ => ((copies (systematic w n u) i : ℤ) : ℝ))
      MeasureTheory.volume 0 1 :=
  intervalIntegrable_copies w n hw hs i hi

/-- **systematic resampling is unbiased**: for an offset `u` uniformly distributed on `[0,1]`
    (`uniform.sample(0.0, 1.0)` in `systematic_resample`) the expected number of copies of particle
    `i` is `N · w_i / Σ w`, for every non-negative weight vector with positive sum, every particle
    count `n` and every valid index `i`.  The endpoints `u = 0, 1` (where `C12_count_formula` is not
    claimed) have Lebesgue measure zero.  This closes the integration step that the docstring of
    `C12_count_formula` used to cite. -/
theorem C12_systematic_unbiased (w : List ℝ) (n : ℕ) (hw : ∀ x ∈ w, 0 ≤ x) (hs : 0 < sum w)
    (i : ℕ) (hi : i < w.length) :
    ∫ u in (0:ℝ)..1, ((copies (systematic w n u) i : ℤ) : ℝ) = (n : ℝ) * (w.getD i 0 / sum w) :=
  systematic_unbiased w n hw hs i hi

omit [LinearOrder K] [IsStrictOrderedRing K] [FloorRing K] in
/-- the categorical ancestor distribution `multinomial w n` (n i.i.d. draws with
    P(index = i) = w_i/Σw, `categorical.sample(log_weights, sample_shape=(n,))`) is normalised and
    every outcome is a vector of `n` indices — so `E (multinomial w n) ·` is a true expectation. -/
theorem C12_categorical_normalised (w : List K) (n : Nat) (hs : sum w ≠ 0) :
    Smc.FinDist.mass (multinomial w n) = 1 ∧
      ∀ idx ∈ Smc.supp (multinomial w n), idx.length = n :=
  ⟨mass_multinomial w n hs, fun idx h => multinomial_length w n idx h⟩

omit [LinearOrder K] [IsStrictOrderedRing K] [FloorRing K] in
/-- **categorical (multinomial) resampling is unbiased**: E[copies_i] = N · w_i / Σ w, in the exact
    finite-expectation vocabulary of `Model/Smc.lean`; any field, any weight vector with non-zero
    total, any number of draws, any valid index. -/
theorem C12_categorical_unbiased (w : List K) (n : Nat) (hs : sum w ≠ 0) (i : Nat)
    (hi : i < w.length) :
    Smc.FinDist.E (multinomial w n) (fun idx => ((copies idx i : Nat) : K)) =
      (n : K) * (w.getD i 0 / sum w) :=
  multinomial_unbiased w n hs i hi

omit [LinearOrder K] [IsStrictOrderedRing K] [FloorRing K] in
/-- the same for the resampling move `Smc.resampleStep` used in the C10 unbiasedness proofs
    (`maybeResample_est`): the expected number of resampled particles equal to `x` is
    N · (Σ_{j : x_j = x} w_j) / Σ w — i.e. N · w_i/Σw when particle values are pairwise distinct. -/
theorem C12_resampleStep_unbiased {X : Type} [DecidableEq X] (s : Smc.Sys K X)
    (ht : Smc.sumK (s.parts.map (·.2)) ≠ 0) (x : X) :
    Smc.FinDist.E (Smc.resampleStep s)
        (fun s' => Smc.sumK (s'.parts.map fun (yw : X × K) => if yw.1 = x then (1 : K) else 0))
      = (s.parts.length : K) *
        (Smc.sumK (s.parts.map fun (yw : X × K) => if yw.1 = x then yw.2 else 0) /
          Smc.sumK (s.parts.map (·.2))) :=
  resampleStep_unbiased s ht x

/-- non-vacuity over ℝ: w = [1,2,1], n = 4, i = 1 meets every hypothesis of
    `C12_systematic_unbiased`, and the expected number of copies of the middle particle is 2 -/
example : ∫ u in (0:ℝ)..1, ((copies (systematic ([1, 2, 1] : List ℝ) 4 u) 1 : ℤ) : ℝ) = 2 := by
  have h := C12_systematic_unbiased ([1, 2, 1] : List ℝ) 4
    (by intro x hx; simp at hx; rcases hx with rfl | rfl | rfl <;> norm_num)
    (by norm_num [sum]) 1 (by simp)
  rw [h]; norm_num [sum]

/-- non-vacuity for the categorical method (ℚ): w = [1,2,1], n = 4, i = 1 -/
example : Smc.FinDist.E (multinomial ([1, 2, 1] : List ℚ) 4)
    (fun idx => ((copies idx 1 : Nat) : ℚ)) = 2 := by
  rw [C12_categorical_unbiased ([1, 2, 1] : List ℚ) 4 (by norm_num [sum]) 1 (by simp)]
  norm_num [sum]

/-! ## BEGIN c05gather — the resampled particle collection is a coherent TRACE

`C12_copy_faithful` speaks about an abstract list of particles.  Here the particles are the lanes
of the Vmap trace that `ParticleCollection.traces` is (`Proofs/GfiGather.lean`, `Props/C05.lean`):
after `resample` the collection is again a coherent trace — for the GATHERED arguments. -/

/-- **`resample` returns a coherent particle trace and the same estimate.**  Let the particles of
    `c` be the lanes of a coherent trace of `Vmap g axes N` on `args` (`N` = number of weights),
    `idx` an ancestor vector of length `N` with entries `< N` (as `C12_index_valid`,
    `C12_same_count` provide for systematic resampling).  Then
    * the resampled particles are a coherent trace of `Vmap g axes N` on `gatherArgs axes idx args`
      (mapped arguments gathered with the same `idx`, broadcast arguments unchanged);
    * particle `j` of the result is particle `idx[j]` of the input, coherent for the callee on
      particle `idx[j]`'s own arguments (one source index for the whole particle, arguments included);
    * the score of the resampled trace is the sum of the ancestors' scores;
    * `exp(log_marginal_likelihood())` is unchanged (`C12_estimate_invariant`). -/
theorem C12_resample_trace_coherent {R : Type} [Zero R] [Add R] [Neg R] (P : Prims R)
    (g : GF) (axes : List Bool) (args : List Val) (c : Coll K (Tr R)) (idx : List Nat)
    (hcoh : (GF.vmap g axes c.w.length).Coh P args (.vec (TrL.ofList c.particles)))
    (hidx : ∀ i ∈ idx, i < c.w.length) (hn : c.w.length ≠ 0) (hl : idx.length = c.w.length) :
    (GF.vmap g axes (c.resample idx).w.length).Coh P (gatherArgs axes idx args)
        (.vec (TrL.ofList (c.resample idx).particles)) ∧
    (∀ j i, idx[j]? = some i →
      ∃ t, c.particles[i]? = some t ∧ (c.resample idx).particles[j]? = some t ∧
        laneArgs axes (gatherArgs axes idx args) j = laneArgs axes args i ∧
        g.Coh P (laneArgs axes args i) t) ∧
    (Tr.vec (TrL.ofList (c.resample idx).particles)).score =
      sumR (idx.map fun i => (c.particles.getD i default).score) ∧
    (c.resample idx).lml = c.lml := by
  have hp : (c.resample idx).particles = ((TrL.ofList c.particles).gather idx).toList := by
    rw [TrL.gather_toList, toList_ofList_gather]; rfl
  have hp' : TrL.ofList (c.resample idx).particles = (TrL.ofList c.particles).gather idx := by
    show TrL.ofList (gatherL idx c.particles) = _
    rw [TrL.gather, toList_ofList_gather]
  have hw : (c.resample idx).w.length = idx.length := by simp [Coll.resample]
  refine ⟨?_, ?_, ?_, C12_estimate_invariant c idx hn hl⟩
  · rw [hw, hp']
    exact vmap_gather_coherent P g axes _ args _ idx hcoh hidx
  · intro j i hj
    obtain ⟨t, h1, h2, h3⟩ := vmap_gather_lane P g axes _ args _ idx hcoh hidx j i hj
    rw [toList_ofList_gather] at h1
    rw [← hp] at h2
    exact ⟨t, h1, h2, laneArgs_gatherArgs idx j i hj axes args, h3⟩
  · rw [hp', vmap_gather_score, toList_ofList_gather]

/-- **the recorded arguments have to be resampled with the particles** (proved counterexample,
    the seeded regression `/verif/seeded/C12_3`): a coherent 3-particle collection with positive
    weights and an in-range ancestor vector of the right length whose resampled particle trace is
    NOT coherent for the un-gathered arguments. -/
theorem C12_resample_args_needed :
    ∃ (P : Prims ℤ) (g : GF) (axes : List Bool) (args : List Val) (c : Coll ℚ (Tr ℤ))
      (idx : List Nat),
      (GF.vmap g axes c.w.length).Coh P args (.vec (TrL.ofList c.particles)) ∧
      (∀ i ∈ idx, i < c.w.length) ∧ c.w.length ≠ 0 ∧ idx.length = c.w.length ∧
      ¬ (GF.vmap g axes (c.resample idx).w.length).Coh P args
          (.vec (TrL.ofList (c.resample idx).particles)) := by
  obtain ⟨h1, h2, h3, _, h5⟩ : (GF.vmap gatherExG [true, false] 3).Coh gatherExP gatherExArgs
        (.vec gatherExLanes) ∧ (∀ i ∈ [2, 0, 0], i < 3) ∧ [2, 0, 0].length = 3 ∧ True ∧
      ¬ (GF.vmap gatherExG [true, false] 3).Coh gatherExP gatherExArgs
          (.vec (gatherExLanes.gather [2, 0, 0])) := by
    refine ⟨gatherEx_coh, by decide, rfl, trivial, ?_⟩
    rw [gatherEx_gather]
    simp [GF.Coh, lanesCoh, TrL.ofList, TrL.toList, gatherExLane, gatherExG, Body.Coh, TrL.find?,
      gatherExArgs, laneArgs, Val.ofList, Val.nth, Expr.eval, gatherExP, Body.addrs, Val.toRat]
  refine ⟨gatherExP, gatherExG, [true, false], gatherExArgs,
    ⟨gatherExLanes.toList, [1, 2, 1], 1, []⟩, [2, 0, 0], ?_, h2, by decide, rfl, ?_⟩
  · exact h1
  · exact h5

/-- non-vacuity of `C12_resample_trace_coherent`: the 3-particle collection of `Props/C05.lean`
    (mapped argument `(10,20,30)`, broadcast argument `5`) with weights `[1,2,1]`, `idx = [2,0,0]` -/
example : let c : Coll ℚ (Tr ℤ) := ⟨gatherExLanes.toList, [1, 2, 1], 1, []⟩
    (GF.vmap gatherExG [true, false] c.w.length).Coh gatherExP gatherExArgs
        (.vec (TrL.ofList c.particles)) ∧
    (∀ i ∈ [2, 0, 0], i < c.w.length) ∧ c.w.length ≠ 0 ∧ [2, 0, 0].length = c.w.length :=
  ⟨gatherEx_coh, by decide, by decide, rfl⟩

/-! ## END c05gather -/

end Genjax.Resample
