import GenjaxModel.Proofs.LoweringR
import GenjaxModel.Proofs.Interp
/-!
# C14 — unseeded sampling can never be compiled into a fixed-randomness program

`Model/Lowering.lean` is a *decision model* of JAX + pjax: for a placement (the list of
constructs around one sampling site, outermost first) it says what calling it does, with and
without `seed`. Its rules (i)–(ix) are assumptions about JAX that the check re-validates on every
run by executing every placement up to depth 2/3 on the real libraries (`opaque` stands for
jax.checkpoint, `customD` for custom_jvp / custom_vjp: the higher-order primitives neither Seed nor
modular_vmap interprets). The theorems below are about the model; they hold for placements of every depth.
`Cfg.spec` is what the property demands; `Cfg.asis` is the code today (two open findings).
Helper lemmas (the same statements after `relocate`, and what `relocate` preserves) are in
`Proofs/LoweringR.lean`.
-/
namespace Genjax.Lowering

/-- specification variant: no placement, of any depth, ends in a silent outcome -/
theorem C14_no_silent_path_spec (pl : List C) :
    (outcome Cfg.spec pl).ok = true ∧ (seeded Cfg.spec pl).ok = true :=
  C14_no_silent_path_spec_R (relocate false pl)

/-- a site under any compiling construct (jit, scan, while_loop, fori_loop, cond, switch, nested
    jit, at any depth) raises: the lowering error, or the batch error if a plain vmap with batched
    site arguments is involved -/
theorem C14_compile_raises_spec (pl : List C) (h : pl.any C.compiles = true) :
    outcome Cfg.spec pl = .loweringError ∨ outcome Cfg.spec pl = .batchError :=
  C14_compile_raises_spec_R (relocate false pl) (by rw [relocate_any_compiles]; exact h)

/-- plain jax.vmap over a site raises instead of replicating one draw -/
theorem C14_plain_vmap_raises_spec (pl : List C)
    (hv : pl.contains .vmapU = true ∨ pl.contains .vmapB = true) :
    outcome Cfg.spec pl = .loweringError ∨ outcome Cfg.spec pl = .batchError :=
  C14_plain_vmap_raises_spec_R (relocate false pl)
    (by rw [relocate_contains_vmapU, relocate_contains_vmapB]; exact hv)

/-- seed either yields a function of the key or raises; it yields a function of the key exactly
    when every construct around the site is one it interprets and no plain vmap is involved -/
theorem C14_seed_total_spec (pl : List C) :
    seeded Cfg.spec pl = .keyFunction ∨ seeded Cfg.spec pl = .loweringError ∨
      seeded Cfg.spec pl = .batchError :=
  C14_seed_total_spec_R (relocate false pl)

/-- The code as it is agrees with the specification on every placement without `grad` and without
    an unbatched plain vmap. `_partial`: the two side conditions carve out the open findings. -/
theorem C14_asis_partial (pl : List C) (hg : hasGrad pl = false) (hu : pl.contains .vmapU = false) :
    outcome Cfg.asis pl = outcome Cfg.spec pl ∧ seeded Cfg.asis pl = seeded Cfg.spec pl :=
  C14_asis_partial_R (relocate false pl) (relocate_no_grad pl hg)
    (by rw [relocate_contains_vmapU]; exact hu)

/-- rules (vii)/(viii), the behaviour two `fix:` commits established and the check replays on the code:
    `seed` of a site wrapped in jax.checkpoint raises for every placement (it used to return a value that
    ignored the key); so does a custom_jvp / custom_vjp wrapper unless a `grad` above it runs its rule -/
theorem C14_opaque_seed_raises_spec (pl : List C) (h : pl.contains .opaque = true) :
    seeded Cfg.spec pl = .loweringError ∨ seeded Cfg.spec pl = .batchError :=
  C14_opaque_seed_raises_spec_R (relocate false pl)
    (by simpa using relocate_opaque false pl (by simpa using h))

/-- the same for the code as it is, when no differentiation is involved -/
theorem C14_opaque_seed_raises_asis (pl : List C) (h : pl.contains .opaque = true)
    (hg : hasGrad pl = false) (hu : pl.contains .vmapU = false) :
    seeded Cfg.asis pl = .loweringError ∨ seeded Cfg.asis pl = .batchError := by
  rw [(C14_asis_partial pl hg hu).2]; exact C14_opaque_seed_raises_spec pl h

theorem C14_opaque_examples :
    seeded Cfg.asis [.opaque] = .loweringError ∧ outcome Cfg.asis [.opaque] = .fresh ∧
    seeded Cfg.asis [.customD] = .loweringError ∧
    outcome Cfg.asis [.mvmap, .opaque] = .loweringError ∧ outcome Cfg.asis [.opaque, .mvmap] = .fresh ∧
    outcome Cfg.asis [.mvmap, .vmapB, .opaque] = .batchError ∧
    seeded Cfg.asis [.vmapB, .mvmap, .opaque] = .loweringError ∧
    -- rule (ix): below a grad the custom rule runs inside the vmap, checkpoint stays opaque
    seeded Cfg.asis [.grad, .vmapB, .customD] = .replicated ∧
    seeded Cfg.asis [.grad, .vmapB, .opaque] = .batchError ∧
    seeded Cfg.asis [.grad, .mvmap, .customD] = .loweringError := by
  decide

/-- proved counterexamples (replayed on the implementation by the check):
    jit∘grad bakes a key, seed∘grad ignores its key, plain vmap with unbatched site arguments
    replicates one draw -/
theorem C14_asis_grad_cex :
    outcome Cfg.asis [.jit, .grad] = .baked ∧ seeded Cfg.asis [.grad] = .keyIgnored ∧
    outcome Cfg.spec [.jit, .grad] = .loweringError ∧ seeded Cfg.spec [.grad] = .keyFunction := by
  decide

/-- a third consequence of the same open finding (below a `jit` inside a modular_vmap the inlined draw was one
    trace-time constant shared by all lanes, found by the exhaustive depth-3 run) is closed by fix df67764:
    modular_vmap now raises when it meets the `jit` that still holds the site; the scan variant stays open -/
theorem C14_asis_grad_mvmap_jit_cex :
    seeded Cfg.asis [.grad, .mvmap, .jit] = .loweringError ∧
    seeded Cfg.asis [.grad, .mvmap, .scan] = .keyIgnored ∧
    seeded Cfg.spec [.grad, .mvmap, .jit] = .loweringError := by
  decide

theorem C14_asis_vmap_cex :
    outcome Cfg.asis [.vmapU] = .replicated ∧ outcome Cfg.spec [.vmapU] = .batchError := by
  decide

/-! ### The Seed interpreter as an interpreter (Model/Interp.lean): no site escapes it -/

/-- `seed` with the guard of fix c963c34, on every Jaxpr (any nesting of cond / scan bodies it interprets and of
    equations it re-binds): if it returns, it has given a key to EVERY sampling site, each exactly once, in
    evaluation order; it raises exactly when it reaches a re-bound equation that still holds a site -/
theorem C14_seed_no_site_escapes (j : Interp.J) :
    (∀ h, Interp.run j = some h → h = j.sites) ∧ (Interp.run j = none ↔ j.blocked = true) :=
  ⟨Interp.run_handles_all j, Interp.run_none_iff_blocked j⟩

/-- the code before the fix: a site escapes (is evaluated by JAX with hidden randomness) exactly on the
    Jaxprs on which the guarded interpreter raises; smallest witness: one site inside one re-bound equation -/
theorem C14_seed_unguarded_escapes (j : Interp.J) :
    ((Interp.runOld j).2 ≠ [] ↔ Interp.run j = none) ∧
    Interp.runOld (.call .rebind (.site 0 .done) .done) = ([], [0]) ∧
    Interp.run (.call .rebind (.site 0 .done) .done) = none :=
  ⟨Interp.runOld_escapes_iff j, rfl, rfl⟩


end Genjax.Lowering
