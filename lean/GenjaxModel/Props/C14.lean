import GenjaxModel.Model.Lowering
/-!
# C14 — unseeded sampling can never be compiled into a fixed-randomness program

`Model/Lowering.lean` is a *decision model* of JAX + pjax: for a placement (the list of
constructs around one sampling site, outermost first) it says what calling it does, with and
without `seed`. Its rules (i)–(vi) are assumptions about JAX that the check re-validates on every
run by executing every placement up to depth 2/3 on the real libraries (rule (viii): `opaque` stands for
jax.checkpoint / custom_jvp / custom_vjp, the higher-order primitives neither Seed nor modular_vmap interprets). The theorems below are
about the model; they hold for placements of every depth.
`Cfg.spec` is what the property demands; `Cfg.asis` is the code today (two open findings).
-/
namespace Genjax.Lowering

/-- helper: the interpreter of a modular_vmap that meets an opaque construct only ever raises -/
theorem mvmapOpaque_raises (pl : List C) (o : Out) (h : mvmapOpaque pl = some o) :
    o = .loweringError ∨ o = .batchError := by
  induction pl with
  | nil => simp [mvmapOpaque] at h
  | cons c rest ih =>
    simp only [mvmapOpaque] at h
    split at h
    · split at h <;> simp_all
    · exact ih h

/-- specification variant: no placement, of any depth, ends in a silent outcome -/
theorem C14_no_silent_path_spec (pl : List C) :
    (outcome Cfg.spec pl).ok = true ∧ (seeded Cfg.spec pl).ok = true := by
  constructor
  · simp only [outcome, Cfg.spec, Bool.false_and, Bool.false_eq_true, if_false]
    split
    · rename_i o h; rcases mvmapOpaque_raises _ o h with rfl | rfl <;> rfl
    · repeat' split
      all_goals rfl
  · simp only [seeded, Cfg.spec, Bool.false_and, Bool.false_eq_true, if_false]
    split
    · rename_i o h; rcases mvmapOpaque_raises _ o h with rfl | rfl <;> rfl
    · repeat' split
      all_goals rfl

/-- a site under any compiling construct (jit, scan, while_loop, fori_loop, cond, switch, nested
    jit, at any depth) raises: the lowering error, or the batch error if a plain vmap with batched
    site arguments is involved -/
theorem C14_compile_raises_spec (pl : List C) (h : pl.any C.compiles = true) :
    outcome Cfg.spec pl = .loweringError ∨ outcome Cfg.spec pl = .batchError := by
  simp only [outcome, Cfg.spec, Bool.false_and, Bool.false_eq_true, if_false, h, if_true]
  split
  · rename_i o ho; rcases mvmapOpaque_raises _ o ho with rfl | rfl <;> simp
  · split <;> simp

/-- plain jax.vmap over a site raises instead of replicating one draw -/
theorem C14_plain_vmap_raises_spec (pl : List C)
    (hv : pl.contains .vmapU = true ∨ pl.contains .vmapB = true) :
    outcome Cfg.spec pl = .loweringError ∨ outcome Cfg.spec pl = .batchError := by
  simp only [outcome, Cfg.spec, Bool.false_and, Bool.false_eq_true, if_false]
  split
  · rename_i o ho; exact mvmapOpaque_raises _ o ho
  · repeat' split
    all_goals simp_all

/-- seed either yields a function of the key or raises; it yields a function of the key exactly
    when every construct around the site is one it interprets and no plain vmap is involved -/
theorem C14_seed_total_spec (pl : List C) :
    seeded Cfg.spec pl = .keyFunction ∨ seeded Cfg.spec pl = .loweringError ∨
      seeded Cfg.spec pl = .batchError := by
  simp only [seeded, Cfg.spec, Bool.false_and, Bool.false_eq_true, if_false]
  split
  · rename_i o ho; rcases mvmapOpaque_raises _ o ho with rfl | rfl <;> simp
  · repeat' split
    all_goals simp

/-- The code as it is agrees with the specification on every placement without `grad` and without
    an unbatched plain vmap. `_partial`: the two side conditions carve out the open findings. -/
theorem C14_asis_partial (pl : List C) (hg : hasGrad pl = false) (hu : pl.contains .vmapU = false) :
    outcome Cfg.asis pl = outcome Cfg.spec pl ∧ seeded Cfg.asis pl = seeded Cfg.spec pl := by
  have hu' : C.vmapU ∉ pl := by simpa using hu
  simp only [outcome, seeded, Cfg.asis, Cfg.spec, hg, hu, Bool.and_false, Bool.false_and,
    Bool.false_eq_true, if_false]
  constructor <;> (repeat' split) <;> simp_all

/-- proved counterexamples (replayed on the implementation by the check):
    jit∘grad bakes a key, seed∘grad ignores its key, plain vmap with unbatched site arguments
    replicates one draw -/
theorem C14_asis_grad_cex :
    outcome Cfg.asis [.jit, .grad] = .baked ∧ seeded Cfg.asis [.grad] = .keyIgnored ∧
    outcome Cfg.spec [.jit, .grad] = .loweringError ∧ seeded Cfg.spec [.grad] = .keyFunction := by
  decide

/-- a third consequence of the same open finding (below a `jit` inside a modular_vmap the inlined draw was one
    trace-time constant shared by all lanes, found by the exhaustive depth-3 run) is closed by fix df67764:
    modular_vmap now raises when it meets the `jit` that still holds the site; the scan variant stays open -/
theorem C14_asis_grad_mvmap_jit_cex :
    seeded Cfg.asis [.grad, .mvmap, .jit] = .loweringError ∧
    seeded Cfg.asis [.grad, .mvmap, .scan] = .keyIgnored ∧
    seeded Cfg.spec [.grad, .mvmap, .jit] = .loweringError := by
  decide

theorem C14_asis_vmap_cex :
    outcome Cfg.asis [.vmapU] = .replicated ∧ outcome Cfg.spec [.vmapU] = .batchError := by
  decide

/-- rule (viii), the behaviour the two `fix:` commits established and the check replays on the code:
    `seed` of a site wrapped in jax.checkpoint / custom_jvp / custom_vjp raises (it used to return a value that
    ignored the key), so does modular_vmap over such a site (it used to share one draw between the lanes),
    for every placement: an opaque construct anywhere makes `seed` raise unless differentiation inlines the site -/
theorem C14_opaque_seed_raises_spec (pl : List C) (h : pl.contains .opaque = true) :
    seeded Cfg.spec pl = .loweringError ∨ seeded Cfg.spec pl = .batchError := by
  have hno : (pl.all fun c => c.seedInterprets || decide (c = .grad)) = false := by
    rw [List.all_eq_false]
    exact ⟨.opaque, by simpa using h, by decide⟩
  simp only [seeded, Cfg.spec, Bool.false_and, Bool.false_eq_true, if_false]
  split
  · rename_i o ho; exact mvmapOpaque_raises _ o ho
  · split
    · simp
    · simp [hno]

theorem C14_opaque_examples :
    seeded Cfg.asis [.opaque] = .loweringError ∧ outcome Cfg.asis [.opaque] = .fresh ∧
    outcome Cfg.asis [.mvmap, .opaque] = .loweringError ∧ outcome Cfg.asis [.opaque, .mvmap] = .fresh ∧
    outcome Cfg.asis [.mvmap, .vmapB, .opaque] = .batchError ∧
    seeded Cfg.asis [.vmapB, .mvmap, .opaque] = .loweringError := by
  decide

end Genjax.Lowering
