import GenjaxModel.Proofs.Seed
import GenjaxModel.Proofs.SeedCache
/-!
# C06 — a seeded function is a pure, transform-stable function of key and arguments

Two models carry C06.

**Key threading** (`Model/Seed.lean`): `siteKeys p` is a *function* of the program (and the root key it is evaluated at);
the key each site receives is determined by program position alone and distinct positions get distinct keys
(`C06_keys_below_root_partial`, `C06_position_determines_key_partial`).  In that model purity is definitional.

**Hidden state** (`Model/SeedCache.lean`, theorems `C06_cache_*` below): besides the global key counter of the unseeded path
(never read by `Seed`) the only state of `pjax.py` that outlives a seeded call are the STAGING CACHES — `cached_stage_dynamic`
(`@lu.cache`: staged jaxpr per function object, keyed on the flattening — pytree structure, keyword names, static data — and
the avals with their weak-type bits) and `FlatSamplerCache` (one slot per `sample_binder` sampler, keyed on
`(len(args), tuple(kwargs.keys()))`; the flat sampler fetched while `f` is traced is baked into the cached jaxpr of `f`).
Modelled: cache keys, lookup / stage / insert / eviction, the nesting of the two caches, histories interleaving seeded calls
(eager or traced by jit / vmap) with unseeded sampler calls, and how a user-level call is presented to `stage` under each
transformation.  Proved: a cache whose key refines what staging depends on cannot change any result of any history
(`C06_cache_transparent`, `C06_cache_single_transparent`); the `stage` key of the code does refine it
(`C06_cache_key_refines_relevant_code`); eager, jit, vmap-over-keys and jit∘vmap present the same call when weak types are
preserved (`C06_cache_jit_vmap_same_call`, `C06_cache_transparent_modes`).  The flat-sampler signature of the code does NOT
refine it (shapes, dtypes, weak types, pytree structure are missing): `C06_cache_transparent_code_partial` states the region
where the code is transparent, `C06_cache_asis_flat_avals_cex` is the closed counterexample (open finding
`flat-sampler-cache-avals`, reproduced on the implementation by `harness/props/c06.py cache_histories`), and
`C06_cache_transparent_spec` is the full statement for the repaired signature.  `C06_cache_kwnames_cex`,
`C06_cache_weaktype_cex`, `C06_cache_strong_scalar_cex` are the Lean witnesses of the seeded changes C06_2 / C06_3.

Modelling assumptions (stated as hypotheses, not proved): staging a function depends on a call only through
`relevant` (function object incl. its closure, pytree structure, avals incl. weak types, keyword names, static data) — JAX's
tracing contract for pure functions; tracers created by `jit` keep the weak type of Python scalars.
What remains runtime only (correspondence run): that the real caches have the modelled keys (observed through call histories
that differ only in keyword names / weak types / shapes / static structure, run in several orders), XLA's compilation cache,
TFP internals, and the PRNG ("distinct keys give distinct draws" rests on threefry).
-/
namespace Genjax.Seed

/-- the keys of a run do not depend on anything but the program and the root key:
    evaluating at two roots gives the same paths up to the substitution of the root -/
def KP.subst (r : KP) : KP → KP
  | .root => r
  | .L k => .L (KP.subst r k)
  | .R k => .R (KP.subst r k)
  | .fold k j => .fold (KP.subst r k) j

/-- every site key lies below the root key and differs from it (the caller's key itself is never
    used to sample, so two runs with different keys cannot share a site key by accident of position) -/
theorem C06_keys_below_root_partial (p : Prog) :
    ∀ e ∈ siteKeys p, KP.under .root e.2.2 = true ∧ e.2.2 ≠ .root :=
  (keys_below p .root []).1

/-- position determines the key: two site occurrences with the same key are the same occurrence -/
theorem C06_position_determines_key_partial (p : Prog) :
    ((siteKeys p).map fun e => e.2.2).Nodup := siteKeys_nodup p

end Genjax.Seed

namespace Genjax.SeedCache
open Cex

/-- **one cache** (`cached_stage_dynamic` on its own, or one `FlatSamplerCache`): if equal keys imply equal relevant
    projections and staging depends on a call only through its relevant projection, then for every history of calls,
    whatever the capacity of the cache, every call returns what it returns without any cache. -/
theorem C06_cache_single_transparent {Prog Res : Type} (cfg : Cfg) (stageOf : Call → Prog) (exec : Prog → Call → Res)
    (hkey : KeyRefines cfg) (hdep : DependsOnRelevant stageOf) (h : List Call) :
    runHistory cfg stageOf exec [] h = runUncached stageOf exec h :=
  cache_transparent exec hkey hdep h

/-- **the two nested caches of `seed`**: for every world (bodies, flat staging, outer staging, execution — all abstract)
    whose stagings depend on calls only through `relevant`, and every pair of cache configurations whose keys refine
    `relevant`, every seeded call of every history (seeded calls interleaved with unseeded sampler calls, any order, any
    repetition) returns what it returns as the first call of a fresh process. -/
theorem C06_cache_transparent {FProg OProg Res : Type} (w : World FProg OProg Res) (cfgO cfgF : Cfg)
    (hkO : KeyRefines cfgO) (hkF : KeyRefines cfgF)
    (hdF : DependsOnRelevant w.stageFlat) (hdO : DependsOnRelevant (fullStage w)) (h : List Event) :
    run w cfgO cfgF State.empty h = runFresh w h :=
  transparent hkO hkF hdF hdO h

/-- the key of `cached_stage_dynamic` as it is in the code (function object, pytree structure, shapes and dtypes, WEAK-TYPE
    bits, KEYWORD NAMES, static data) refines the relevant projection; so does the repaired flat-sampler signature -/
theorem C06_cache_key_refines_relevant_code : KeyRefines Cfg.code ∧ KeyRefines Cfg.flatSpec :=
  ⟨key_refines_relevant_code, key_refines_relevant_flatSpec⟩

/-- full statement for the repaired flat-sampler signature: the caches are transparent on ALL histories -/
theorem C06_cache_transparent_spec {FProg OProg Res : Type} (w : World FProg OProg Res)
    (hdF : DependsOnRelevant w.stageFlat) (hdO : DependsOnRelevant (fullStage w)) (h : List Event) :
    run w Cfg.code Cfg.flatSpec State.empty h = runFresh w h :=
  transparent key_refines_relevant_code key_refines_relevant_flatSpec hdF hdO h

/-- the code as it is (`Cfg.code`, `Cfg.flatAsis`).  Full statement — `∀ h, run w Cfg.code Cfg.flatAsis State.empty h =
    runFresh w h` — is FALSE (`C06_cache_asis_flat_avals_cex`).  Proved: transparency on every history in which, per sampler,
    the call signature (number of positional arguments, keyword names) determines pytree structure, avals and static data of
    the site (`SigDetermines` over the sites `PF` that occur) — in particular every sampler that is always called with the
    same argument types, and all built-in distributions (`wrap_sampler` creates a new binder, hence a new slot, per call).
    Missing for the full statement: shapes / dtypes / weak types / tree structure in `FlatSamplerCache`'s signature. -/
theorem C06_cache_transparent_code_partial {FProg OProg Res : Type} (w : World FProg OProg Res) (PF : Call → Prop)
    (hsig : SigDetermines PF)
    (hdF : DependsOnRelevant w.stageFlat) (hdO : DependsOnRelevant (fullStage w)) (h : List Event)
    (hin : ∀ e ∈ h, EventIn (fun _ => True) PF w e) :
    run w Cfg.code Cfg.flatAsis State.empty h = runFresh w h :=
  transparent_on (PO := fun _ => True) (key_refines_relevant_code.on _) (flatAsis_refines_on hsig) hdF hdO h
    State.empty StateOk.empty hin

/-- closed counterexample for the code's flat-sampler signature (free interpretation): a long-lived sampler used at a
    scalar and then at a vector, or at a Python int and then at an int32 array — the second site runs the sampler staged for
    the first; both histories are transparent under `Cfg.flatSpec` -/
theorem C06_cache_asis_flat_avals_cex :
    (run (World.free bodyShape) Cfg.code Cfg.flatAsis State.empty histShape)[1]? ≠ (runFresh (World.free bodyShape) histShape)[1]?
    ∧ (run (World.free bodyWS) Cfg.code Cfg.flatAsis State.empty histWS)[1]? ≠ (runFresh (World.free bodyWS) histWS)[1]?
    ∧ run (World.free bodyShape) Cfg.code Cfg.flatSpec State.empty histShape = runFresh (World.free bodyShape) histShape
    ∧ run (World.free bodyWS) Cfg.code Cfg.flatSpec State.empty histWS = runFresh (World.free bodyWS) histWS :=
  flatAsis_avals_cex

/-- Lean witness of seeded change C06_2 (signature `(len(args), len(kwargs))`): the second call of
    `seed(λv. binder(lo=v))(k, 1.0); seed(λv. binder(hi=v))(k, 1.0)` differs from its fresh result; with the keyword names in
    the signature (the code) the history is transparent -/
theorem C06_cache_kwnames_cex :
    (run (World.free bodyKw) Cfg.code Cfg.flatNoKwNames State.empty histKw)[1]? ≠ (runFresh (World.free bodyKw) histKw)[1]?
    ∧ run (World.free bodyKw) Cfg.code Cfg.flatAsis State.empty histKw = runFresh (World.free bodyKw) histKw :=
  kwnames_cex

/-- a `stage` key without the weak-type bit: `seed(f)(k, 100); seed(f)(k, int32(100))` — the second call is served the jaxpr
    traced for the weakly typed argument; transparent with the code's key -/
theorem C06_cache_weaktype_cex :
    (run (World.free fun _ => []) Cfg.codeNoWeak Cfg.flatAsis State.empty histWeak)[1]?
      ≠ (runFresh (World.free fun _ => []) histWeak)[1]?
    ∧ run (World.free fun _ => []) Cfg.code Cfg.flatAsis State.empty histWeak = runFresh (World.free fun _ => []) histWeak :=
  weaktype_cex

/-- **eager, jit, vmap over keys and jit∘vmap present the same call.**  Assumptions, explicit: genjax's `get_shaped_aval`
    gives Python scalars a weak aval (`j.stageScalarWeak`; true in the code, false after seeded change C06_3) and JAX's tracers
    keep the weak type (`j.tracerKeepsWeak`; the modelling assumption about JAX). -/
theorem C06_cache_jit_vmap_same_call (j : JaxCfg) (h1 : j.stageScalarWeak = true) (h2 : j.tracerKeepsWeak = true)
    (m m' : Mode) (u : UCall) : present j m u = present j m' u :=
  present_mode_irrelevant h1 h2 m m' u

/-- consequence: in every history of user-level events, each made under any of the four transformations, every seeded call
    returns what the same call returns EAGERLY as the first call of a fresh process -/
theorem C06_cache_transparent_modes {FProg OProg Res : Type} (w : World FProg OProg Res) (cfgO cfgF : Cfg)
    (hkO : KeyRefines cfgO) (hkF : KeyRefines cfgF)
    (hdF : DependsOnRelevant w.stageFlat) (hdO : DependsOnRelevant (fullStage w))
    (j : JaxCfg) (h1 : j.stageScalarWeak = true) (h2 : j.tracerKeepsWeak = true) (h : List UEvent) :
    run w cfgO cfgF State.empty (h.map (UEvent.present j)) = h.map (UEvent.freshEager w j) :=
  transparent_modes hkO hkF hdF hdO h1 h2 h

/-- Lean witness of seeded change C06_3 (`get_shaped_aval` drops the weak type of Python scalars): `seed(f)(k, 100)` reaches
    `stage` as different calls eagerly and under jit (and under vmap vs jit∘vmap), and runs different programs -/
theorem C06_cache_strong_scalar_cex :
    present JaxCfg.c06_3 .eager uPyInt ≠ present JaxCfg.c06_3 .jit uPyInt
    ∧ fresh (World.free fun _ => []) (present JaxCfg.c06_3 .eager uPyInt)
        ≠ fresh (World.free fun _ => []) (present JaxCfg.c06_3 .jit uPyInt)
    ∧ present JaxCfg.c06_3 .vmapKeys uPyInt ≠ present JaxCfg.c06_3 .jitVmap uPyInt :=
  strong_scalar_cex

/-! non-vacuity: the hypotheses hold on concrete, non-trivial instances -/

/-- the free world over a body that reads the function id satisfies both dependency hypotheses -/
example : DependsOnRelevant (World.free bodyKw).stageFlat ∧ DependsOnRelevant (fullStage (World.free bodyKw)) :=
  free_depends (fun c c' h => by
    have : c.fn = c'.fn := by simpa [relevant] using congrArg Rel.fn h
    simp [bodyKw, this])
example : KeyRefines Cfg.code := key_refines_relevant_code
example : Cfg.code.full = true ∧ Cfg.flatSpec.full = true ∧ Cfg.flatAsis.full = false := by decide
/-- the keyword-name history of the check lies in the region of `C06_cache_transparent_code_partial` -/
example : SigDetermines (fun c => c = siteLo ∨ c = siteHi) := by
  intro c c' hc hc' _ _ _
  rcases hc with rfl | rfl <;> rcases hc' with rfl | rfl <;> exact ⟨rfl, rfl, rfl⟩
example : ∀ e ∈ histKw, EventIn (fun _ => True) (fun c => c = siteLo ∨ c = siteHi) (World.free bodyKw) e := by
  intro e he
  simp only [histKw, List.mem_cons, List.not_mem_nil, or_false] at he
  rcases he with rfl | rfl <;> simp [EventIn, World.free, bodyKw, callLo, callHi]
/-- … and the scalar/vector history does not (the signature does not determine the avals) -/
example : ¬ SigDetermines (fun c => c = siteScalar ∨ c = siteVector) := by
  intro h
  have := (h siteScalar siteVector (Or.inl rfl) (Or.inr rfl) rfl rfl rfl).2.1
  exact absurd this (by decide)
example : JaxCfg.code.stageScalarWeak = true ∧ JaxCfg.code.tracerKeepsWeak = true := by decide
/-- the four presentations of `f(100)` under the code's configuration coincide and are weakly typed -/
example : present JaxCfg.code .jit uPyInt = present JaxCfg.code .eager uPyInt
    ∧ (present JaxCfg.code .eager uPyInt).avals = [⟨[], "int32", true⟩] := by decide

end Genjax.SeedCache
