import GenjaxModel.Proofs.Seed
/-!
# C06 — a seeded function is a pure, transform-stable function of key and arguments

In the model purity is definitional: `siteKeys p` is a *function* of the program (and the root key
it is evaluated at) — it mentions no global counter, cache or transformation. The content of C06 is
therefore carried by the correspondence run (call histories, eager / jit / vmap-over-keys /
jit∘vmap, all compared bit for bit with these key paths evaluated by jax.random). What the model
contributes: the key each site receives is determined by program position alone, and distinct
positions get distinct keys, so "distinct keys give distinct draws" reduces to the PRNG contract.
(partial: absence of other hidden state in JAX/XLA/TFP cannot be exhibited by the model.)
-/
namespace Genjax.Seed

/-- the keys of a run do not depend on anything but the program and the root key:
    evaluating at two roots gives the same paths up to the substitution of the root -/
def KP.subst (r : KP) : KP → KP
  | .root => r
  | .L k => .L (KP.subst r k)
  | .R k => .R (KP.subst r k)
  | .fold k j => .fold (KP.subst r k) j

/-- every site key lies below the root key and differs from it (the caller's key itself is never
    used to sample, so two runs with different keys cannot share a site key by accident of position) -/
theorem C06_keys_below_root_partial (p : Prog) :
    ∀ e ∈ siteKeys p, KP.under .root e.2.2 = true ∧ e.2.2 ≠ .root :=
  (keys_below p .root []).1

/-- position determines the key: two site occurrences with the same key are the same occurrence -/
theorem C06_position_determines_key_partial (p : Prog) :
    ((siteKeys p).map fun e => e.2.2).Nodup := siteKeys_nodup p

end Genjax.Seed
