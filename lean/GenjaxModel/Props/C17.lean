import GenjaxModel.Proofs.Adev
/-!
# C17 — the ELBO objective is unbiased, tight at the posterior, and ascended by VI

The objective is `assess(merge(constraint, z)) + q-score(z)` = log p(x,z) − log q(z) for a draw
z ~ q; its unbiasedness for E_q[log p(x,z) − log q(z)] is the definition of the expectation of a
function of a draw (C11 carries the gradient estimators). Proved here: tightness at the exact
posterior, the evidence bound (finite support, real logarithms), and the optimiser's recurrence.
-/
namespace Genjax.Vi

/-- tight at the posterior: if q(z) = p(x,z)/p(x) then p(x,z)/q(z) = p(x) for every z in the support,
    i.e. every single ELBO draw equals log p(x) -/
theorem C17_elbo_tight {K : Type} [Field K] (pxz px : K) (hz : pxz ≠ 0) (hx : px ≠ 0) :
    pxz / (pxz / px) = px := elbo_tight pxz px hz hx

/-- below the evidence in expectation otherwise (Gibbs' inequality, finite support) -/
theorem C17_elbo_le_evidence {ι : Type*} (s : Finset ι) (q p : ι → ℝ)
    (hq : ∀ i ∈ s, 0 < q i) (hp : ∀ i ∈ s, 0 < p i) (hsum : ∑ i ∈ s, q i = 1) :
    ∑ i ∈ s, q i * Real.log (p i / q i) ≤ Real.log (∑ i ∈ s, p i) :=
  elbo_le_evidence s q p hq hp hsum

/-- optimize_vi / elbo_vi return every iterate: n of them, iterate i = params after i+1 steps -/
theorem C17_optimiser_history {K : Type} [Field K] (grad : Nat → K → K) (lr : K) (n : Nat) (p0 : K) :
    (optimize grad lr n 0 p0).length = n ∧
    ∀ i, i < n → (optimize grad lr n 0 p0).getD i p0 = iter grad lr (i + 1) p0 :=
  optimize_history grad lr n p0

/-- each iteration applies params + learning_rate · gradient -/
theorem C17_optimiser_step {K : Type} [Field K] (grad : Nat → K → K) (lr : K) (n : Nat) (p0 : K) :
    iter grad lr (n + 1) p0 = iter grad lr n p0 + lr * grad n (iter grad lr n p0) :=
  iter_step grad lr n p0

end Genjax.Vi
