import GenjaxModel.Proofs.Adev
import GenjaxModel.Proofs.ViElbo  -- (c17elbo block at the end of this file)
/-!
# C17 — the ELBO objective is unbiased, tight at the posterior, and ascended by VI

The objective is `assess(merge(constraint, z)) + q-score(z)` = log p(x,z) − log q(z) for a draw
z ~ q; its unbiasedness for E_q[log p(x,z) − log q(z)] is the definition of the expectation of a
function of a draw (C11 carries the gradient estimators). Proved here: tightness at the exact
posterior, the evidence bound (finite support, real logarithms), and the optimiser's recurrence.
-/
namespace Genjax.Vi

/-- tight at the posterior: if q(z) = p(x,z)/p(x) then p(x,z)/q(z) = p(x) for every z in the support,
    i.e. every single ELBO draw equals log p(x) -/
theorem C17_elbo_tight {K : Type} [Field K] (pxz px : K) (hz : pxz ≠ 0) (hx : px ≠ 0) :
    pxz / (pxz / px) = px := elbo_tight pxz px hz hx

/-- below the evidence in expectation otherwise (Gibbs' inequality, finite support) -/
theorem C17_elbo_le_evidence {ι : Type*} (s : Finset ι) (q p : ι → ℝ)
    (hq : ∀ i ∈ s, 0 < q i) (hp : ∀ i ∈ s, 0 < p i) (hsum : ∑ i ∈ s, q i = 1) :
    ∑ i ∈ s, q i * Real.log (p i / q i) ≤ Real.log (∑ i ∈ s, p i) :=
  elbo_le_evidence s q p hq hp hsum

/-- optimize_vi / elbo_vi return every iterate: n of them, iterate i = params after i+1 steps -/
theorem C17_optimiser_history {K : Type} [Field K] (grad : Nat → K → K) (lr : K) (n : Nat) (p0 : K) :
    (optimize grad lr n 0 p0).length = n ∧
    ∀ i, i < n → (optimize grad lr n 0 p0).getD i p0 = iter grad lr (i + 1) p0 :=
  optimize_history grad lr n p0

/-- each iteration applies params + learning_rate · gradient -/
theorem C17_optimiser_step {K : Type} [Field K] (grad : Nat → K → K) (lr : K) (n : Nat) (p0 : K) :
    iter grad lr (n + 1) p0 = iter grad lr n p0 + lr * grad n (iter grad lr n p0) :=
  iter_step grad lr n p0

end Genjax.Vi

/-! # ===================== c17elbo: THE OBJECTIVE IN TERMS OF THE GFI MODEL =====================
  (appended block; model `Model/ViElbo.lean`, proofs `Proofs/ViElbo.lean`)

  `elbo_factory` (vi.py:50-89) evaluates, per draw,
      `tr = family.simulate(constraint, *params)`,
      `target.assess(target.merge(constraint, tr.get_choices())[0], *target_args)[0] + tr.get_score()`.
  `elboDraw P p pargs xobs t` is that expression on the GFI model for a trace `t` of the family `q`
  (log domain, weights in any additive commutative group); `elboRatio pd p pargs q qargs xobs t` is the
  same draw in the LINEAR domain, the ratio `p(x,z)/q(z)` of the masses `assessP` computes.  The
  family's draws are `q.simD pd P qargs` (C01: the law of `simulate`); `E d φ` is the exact expectation
  `Σ prob·φ(outcome)`, `optK φ` extends `φ` by 0 to the outcome "raised".  `Z` is any list of distinct
  choice maps of the family's static shape containing every choice map the family can produce
  (`coversB` checks that by evaluation). -/
namespace Genjax.Vi
open Genjax Smc Smc.FinDist

section C17Elbo

/-- **the value of one draw**: for every target `p`, family `q`, constraint `xobs` and coherent trace
    `t` of the family (every trace `simulate` builds is coherent: `C01_simulate_coherent`) the
    objective is `assess(merge(constraint, z)).1 + score(t)`, and - `score(t) = −assess_q(z).1` by
    C01 - equals `log p(x,z) − log q(z)`. -/
theorem C17_elbo_value {R : Type} [AddCommGroup R] (P : Prims R) (p : GF) (pargs : List Val) (q : GF)
    (qargs : List Val) (xobs : CM) (t : Tr R) (hcoh : q.Coh P qargs t) (z : CM)
    (hz : t.choices = some z) (m : CM) (hm : CM.mergeNoCheck xobs z = some m) (lp : R) (r : Val)
    (hp : p.assess P m pargs = some (lp, r)) :
    elboDraw P p pargs xobs t = some (lp + t.score) ∧
    ∃ lq, q.assess P z qargs = some (lq, t.retval) ∧ t.score = -lq ∧ lp + t.score = lp - lq :=
  elbo_value P p pargs q qargs xobs t hcoh z hz m hm lp r hp

/-- … and whenever the objective is defined at all it has that form (nothing else makes it defined) -/
theorem C17_elbo_value_of_some {R : Type} [AddCommGroup R] (P : Prims R) (p : GF) (pargs : List Val)
    (q : GF) (qargs : List Val) (xobs : CM) (t : Tr R) (hcoh : q.Coh P qargs t) (v : R)
    (h : elboDraw P p pargs xobs t = some v) :
    ∃ z m lp r lq, t.choices = some z ∧ CM.mergeNoCheck xobs z = some m ∧
      p.assess P m pargs = some (lp, r) ∧ q.assess P z qargs = some (lq, t.retval) ∧ v = lp - lq :=
  elbo_value_of_some P p pargs q qargs xobs t hcoh v h

/-- the body of `elbo` run end to end with the probe sampler (`elboSim` = simulate, then `elboDraw`) -/
theorem C17_elbo_value_simulate {R : Type} [AddCommGroup R] (P : Prims R) (p : GF) (pargs : List Val)
    (q : GF) (qargs : List Val) (xobs : CM) (t : Tr R) (ht : q.simulate P qargs = some t) (z : CM)
    (hz : t.choices = some z) (m : CM) (hm : CM.mergeNoCheck xobs z = some m) (lp : R) (r : Val)
    (hp : p.assess P m pargs = some (lp, r)) :
    elboSim P p pargs q qargs xobs = some (lp + t.score) ∧
    ∃ lq, q.assess P z qargs = some (lq, t.retval) ∧ lp + t.score = lp - lq :=
  elbo_value_simulate P p pargs q qargs xobs t ht z hz m hm lp r hp

/-- non-vacuity: the probe primitives, target `elboExP`-shaped over `ratPrims`-like integer weights
    (`lawExP`), family `tightExQ`; hypotheses and conclusion computed -/
example : ∃ t z m lp r, tightExQ.simulate lawExP [.num (1/3)] = some t ∧ t.choices = some z ∧
    CM.mergeNoCheck elboExObs z = some m ∧ tightExP.assess lawExP m [] = some (lp, r) ∧
    elboSim lawExP tightExP [] tightExQ [.num (1/3)] elboExObs = some (lp + t.score) :=
  ⟨_, _, _, _, _, rfl, rfl, rfl, rfl, rfl⟩

/-! ### merge precedence -/

/-- **merge precedence, address by address**: whatever `Fn.merge(a, b)` (no check) returns holds at
    every address `k` exactly `mergeAt (a at k) (b at k)`: two dicts merge recursively, otherwise the
    SECOND side - in `elbo` the family's draw - wins, keys of one side only are kept. -/
theorem C17_elbo_merge_precedence (a b m : CML) (h : CML.mergeNoCheck a b = some m) (k : String) :
    m.find? k = mergeAt (a.find? k) (b.find? k) := CML.find?_mergeNoCheck a b m h k

/-- `merge(constraint, z)` of two dicts never raises -/
theorem C17_elbo_merge_total (xs zs : CML) :
    ∃ m, CM.mergeNoCheck (.node xs) (.node zs) = some (.node m) := merge_node_total xs zs

/-- **disjoint address sets** (observed addresses in the constraint, latent ones in the family): the
    merged map agrees with the constraint on every observed address and with `z` on every other one -/
theorem C17_elbo_merge_disjoint (xs zs : CML)
    (hdis : ∀ k, (xs.find? k).isSome → zs.find? k = none) :
    ∃ m, CM.mergeNoCheck (.node xs) (.node zs) = some (.node m) ∧
      (∀ k, (xs.find? k).isSome → m.find? k = xs.find? k) ∧
      (∀ k, xs.find? k = none → m.find? k = zs.find? k) := merge_disjoint xs zs hdis

/-- **shared address**: where both sides carry a value (not both dicts) the family's draw replaces
    the observation (`x_` takes precedence in `merge(x, x_)`) -/
theorem C17_elbo_merge_shared (xs zs m : CML) (h : CML.mergeNoCheck xs zs = some m) (k : String)
    (c c' : CM) (hx : xs.find? k = some c) (hz : zs.find? k = some c')
    (hnn : ∀ u v, c = .node u → c' = .node v → False) : m.find? k = some c' :=
  merge_shared_second_wins xs zs m h k c c' hx hz hnn

/-- **the assess call sees exactly (x, z)**: with disjoint address sets, `assess` of an `Fn` target on
    the merged map (log and linear domain) is `assess` on the constraint followed by the family's
    choices - the Assess handler reads the map only through address lookups -/
theorem C17_elbo_assess_sees_xz {R : Type} [Zero R] [Add R] (P : Prims R) {K : Type} [One K] [Mul K]
    (pd : PD K) (xs zs : CML) (hdis : ∀ k, (xs.find? k).isSome → zs.find? k = none) :
    ∃ m, CM.mergeNoCheck (.node xs) (.node zs) = some (.node m) ∧
      ∀ (body : Body) (pargs : List Val),
        (GF.fn body).assess P (.node m) pargs = (GF.fn body).assess P (.node (CML.app xs zs)) pargs ∧
        (GF.fn body).assessP pd (.node m) pargs
          = (GF.fn body).assessP pd (.node (CML.app xs zs)) pargs :=
  merge_assess_sees_xz P pd xs zs hdis

/-- non-vacuity: disjoint (`{y}` against `{b, z}`), and a shared address (`{y: 1}` against
    `{b: 0, y: 0}`: the merged map holds the family's `y = 0`) -/
example : (∀ k, ((CML.cons "y" (.leaf (.num 1)) .nil).find? k).isSome →
      (CML.cons "b" (.leaf (.num 0)) (.cons "z" (.leaf (.num 2)) .nil)).find? k = none) ∧
    CML.mergeNoCheck (.cons "y" (.leaf (.num 1)) .nil)
        (.cons "b" (.leaf (.num 0)) (.cons "y" (.leaf (.num 0)) .nil))
      = some (.cons "y" (.leaf (.num 0)) (.cons "b" (.leaf (.num 0)) .nil)) := by
  refine ⟨?_, rfl⟩
  intro k hk
  have : k = "y" := by
    by_contra hne
    simp [CML.find?, hne] at hk
  subst this
  decide

/-! ### expectations over the family's draws -/

variable {K : Type} [Field K] {R : Type} [AddCommGroup R] (pd : PD K) (P : Prims R)

/-- **law of the per-draw objective**: the expectation, over the family's `simulate`, of ANY function
    `g` of the linear-domain ratio is the finite sum `Σ_{z∈Z} q(z) · g(p(x,z)/q(z))`, `q(z)` the mass
    `q.assessP` computes (through `C01_simulate_law`). -/
theorem C17_elbo_expectation_fn (hpd : pd.WF) (hnorm : pd.Normalised) (p : GF) (pargs : List Val)
    (q : GF) (hc : q.condOK = true) (qargs : List Val) (xobs : CM) (Z : List CM) (hnd : Z.Nodup)
    (hcov : ∀ t, some t ∈ supp (q.simD pd P qargs) → ∃ z ∈ Z, t.choices = some z)
    (hshape : ∀ z ∈ Z, q.skel = some z.skel) (g : Option K → K) :
    E (q.simD pd P qargs) (optK fun t => g (elboRatio pd p pargs q qargs xobs t))
      = sumK (Z.map fun z =>
          pmassOf (q.assessP pd z qargs) * g (elboRatioZ pd p pargs q qargs xobs z)) :=
  elbo_E_fn pd P hpd hnorm p pargs q hc qargs xobs Z hnd hcov hshape g

/-- **unbiasedness in the linear domain (importance-sampling identity)**:
    `E_{z~q}[p(x,z)/q(z)] = Σ_{z∈Z} p(x,z)` - the evidence - whenever the family dominates the target
    on `Z` (`q(z) = 0 → p(x,z) = 0`).  The family: no address traced twice, Conds with branches of
    equal shape.  Where the target's `merge`/`assess` raises both sides count 0. -/
theorem C17_elbo_unbiased (hpd : pd.WF) (hnorm : pd.Normalised) (p : GF) (pargs : List Val) (q : GF)
    (hn : q.noCollide = true) (hc : q.condOK = true) (qargs : List Val) (xobs : CM) (Z : List CM)
    (hnd : Z.Nodup)
    (hcov : ∀ t, some t ∈ supp (q.simD pd P qargs) → ∃ z ∈ Z, t.choices = some z)
    (hshape : ∀ z ∈ Z, q.skel = some z.skel)
    (hac : ∀ z ∈ Z, pmassOf (q.assessP pd z qargs) = 0 →
      (elboJoint pd p pargs xobs z).getD 0 = 0) :
    E (q.simD pd P qargs) (optK fun t => (elboRatio pd p pargs q qargs xobs t).getD 0)
      = sumK (Z.map fun z => (elboJoint pd p pargs xobs z).getD 0) :=
  elbo_unbiased' pd P hpd hnorm p pargs q hn hc qargs xobs Z hnd hcov hshape hac

/-- **the log-domain expectation** `E_q[log p(x,z) − log q(z)] = Σ_{z∈Z} q(z)(log p(x,z) − log q(z))`
    for an abstract `log` with `log (a/b) = log a − log b` off zero: the definition of the expectation
    of a function of a draw, plus the law of `simulate`.  Guards: joint and family mass defined and
    non-zero on `Z`. -/
theorem C17_elbo_expect_log (log : K → K)
    (hlog : ∀ a b, a ≠ 0 → b ≠ 0 → log (a / b) = log a - log b)
    (hpd : pd.WF) (hnorm : pd.Normalised) (p : GF) (pargs : List Val) (q : GF)
    (hc : q.condOK = true) (qargs : List Val) (xobs : CM) (Z : List CM) (hnd : Z.Nodup)
    (hcov : ∀ t, some t ∈ supp (q.simD pd P qargs) → ∃ z ∈ Z, t.choices = some z)
    (hshape : ∀ z ∈ Z, q.skel = some z.skel)
    (hJ : ∀ z ∈ Z, ∃ pp, elboJoint pd p pargs xobs z = some pp ∧ pp ≠ 0)
    (hQ : ∀ z ∈ Z, ∃ qq r, q.assessP pd z qargs = some (qq, r) ∧ qq ≠ 0) :
    E (q.simD pd P qargs) (optK fun t => (elboRatio pd p pargs q qargs xobs t).elim 0 log)
      = sumK (Z.map fun z => pmassOf (q.assessP pd z qargs) *
          (log ((elboJoint pd p pargs xobs z).getD 0) - log (pmassOf (q.assessP pd z qargs)))) :=
  elbo_expect_log pd P log hlog hpd hnorm p pargs q hc qargs xobs Z hnd hcov hshape hJ hQ

/-- the masses the family assigns to `Z` sum to 1 -/
theorem C17_elbo_family_mass_one (hpd : pd.WF) (hnorm : pd.Normalised) (q : GF)
    (hn : q.noCollide = true) (hc : q.condOK = true) (qargs : List Val) (Z : List CM)
    (hnd : Z.Nodup)
    (hcov : ∀ t, some t ∈ supp (q.simD pd P qargs) → ∃ z ∈ Z, t.choices = some z)
    (hshape : ∀ z ∈ Z, q.skel = some z.skel) :
    sumK (Z.map fun z => pmassOf (q.assessP pd z qargs)) = 1 :=
  elbo_qmass_sum pd P hpd hnorm q hn hc qargs Z hnd hcov hshape

/-- **tight at the posterior, per draw** (connects `C17_elbo_tight` to the model): if the family's
    mass at the drawn `z` is `p(x,z)/p(x)` - stated through the `assessP` masses - the draw's ratio is
    `p(x)`.  Guards `p(x,z) ≠ 0`, `p(x) ≠ 0`. -/
theorem C17_elbo_tight_at_posterior {R' : Type} (p : GF) (pargs : List Val) (q : GF)
    (qargs : List Val) (xobs : CM) (px : K) (hpx : px ≠ 0) (t : Tr R') (z : CM)
    (hz : t.choices = some z) (pp : K) (hj : elboJoint pd p pargs xobs z = some pp) (hpp : pp ≠ 0)
    (hpost : pmassOf (q.assessP pd z qargs) = pp / px) :
    elboRatio pd p pargs q qargs xobs t = some px :=
  elbo_tight_at_posterior pd p pargs q qargs xobs px hpx t z hz pp hj hpp hpost

/-- … hence EVERY draw: each trace the family can produce has ratio exactly `p(x)` when the family's
    law on `Z` is the posterior -/
theorem C17_elbo_tight_every_draw (p : GF) (pargs : List Val) (q : GF) (qargs : List Val)
    (xobs : CM) (px : K) (hpx : px ≠ 0) (Z : List CM)
    (hcov : ∀ t, some t ∈ supp (q.simD pd P qargs) → ∃ z ∈ Z, t.choices = some z)
    (hpost : ∀ z ∈ Z, ∃ pp, elboJoint pd p pargs xobs z = some pp ∧ pp ≠ 0 ∧
      pmassOf (q.assessP pd z qargs) = pp / px)
    (t : Tr R) (ht : some t ∈ supp (q.simD pd P qargs)) :
    elboRatio pd p pargs q qargs xobs t = some px :=
  elbo_tight_every_draw pd P p pargs q qargs xobs px hpx Z hcov hpost t ht

/-- **tie of the two domains**: if the masses are the exponentials of the log densities
    (`pm = e ∘ lp`, `e 0 = 1`, `e (a + b) = e a · e b`; on a group of log weights this means strictly
    positive masses), `e` of the log-domain objective of a coherent trace is the linear-domain ratio,
    and one raises iff the other does. -/
theorem C17_elbo_exp_tie (e : R → K) (he0 : e 0 = 1) (hadd : ∀ a b, e (a + b) = e a * e b)
    (hpm : ∀ d a v, pd.pm d a v = e (P.lp d a v)) (p : GF) (pargs : List Val) (q : GF)
    (qargs : List Val) (xobs : CM) (t : Tr R) (hcoh : q.Coh P qargs t) :
    (elboDraw P p pargs xobs t).map e = elboRatio pd p pargs q qargs xobs t :=
  elbo_exp pd P e he0 hadd hpm p pargs q qargs xobs t hcoh

end C17Elbo

/-- **below the log evidence in expectation** for a family given by `simD` on a finite program
    (derived from `C17_elbo_le_evidence` over the finite set `Z`):
    `E_q[log (p(x,z)/q(z))] ≤ log Σ_{z∈Z} p(x,z)`, real logarithm.  Guards: joint defined and
    positive, family mass positive on `Z`; the family never raises. -/
theorem C17_elbo_le_log_evidence {R : Type} [AddCommGroup R] (pd : PD ℝ) (P : Prims R)
    (hpd : pd.WF) (hnorm : pd.Normalised) (p : GF) (pargs : List Val) (q : GF)
    (hn : q.noCollide = true) (hc : q.condOK = true) (qargs : List Val) (xobs : CM) (Z : List CM)
    (hnd : Z.Nodup)
    (hcov : ∀ t, some t ∈ supp (q.simD pd P qargs) → ∃ z ∈ Z, t.choices = some z)
    (hshape : ∀ z ∈ Z, q.skel = some z.skel)
    (hJ : ∀ z ∈ Z, ∃ pp, elboJoint pd p pargs xobs z = some pp ∧ 0 < pp)
    (hQ : ∀ z ∈ Z, 0 < pmassOf (q.assessP pd z qargs)) :
    E (q.simD pd P qargs) (optK fun t => (elboRatio pd p pargs q qargs xobs t).elim 0 Real.log)
      ≤ Real.log (sumK (Z.map fun z => (elboJoint pd p pargs xobs z).getD 0)) :=
  elbo_le_log_evidence pd P hpd hnorm p pargs q hn hc qargs xobs Z hnd hcov hshape hJ hQ

/-! ### non-vacuity (exact rationals, primitives `lawExPD`: a coin with parameter, a three-valued one) -/

/-- `C17_elbo_unbiased` on target `b ~ coin(1/2); z ~ three; y ~ coin(1/8 + b/2 + z/8)`, `y = 1`
    observed, family `b ~ coin(1/3); z ~ three`: every hypothesis, both sides computed (`11/24`), and
    the same number is the expected importance weight of `target.generate(constraint)` (C02): the
    right-hand side IS the evidence. -/
example : lawExPD.WF ∧ lawExPD.Normalised ∧ elboExQ.noCollide = true ∧ elboExQ.condOK = true ∧
    elboExZ.Nodup ∧
    (∀ t, some t ∈ supp (elboExQ.simD lawExPD lawExP [.num (1/3)]) →
      ∃ z ∈ elboExZ, t.choices = some z) ∧
    (∀ z ∈ elboExZ, elboExQ.skel = some z.skel) ∧
    (∀ z ∈ elboExZ, pmassOf (elboExQ.assessP lawExPD z [.num (1/3)]) = 0 →
      (elboJoint lawExPD elboExP [] elboExObs z).getD 0 = 0) ∧
    E (elboExQ.simD lawExPD lawExP [.num (1/3)])
      (optK fun t => (elboRatio lawExPD elboExP [] elboExQ [.num (1/3)] elboExObs t).getD 0)
      = 11/24 ∧
    sumK (elboExZ.map fun z => (elboJoint lawExPD elboExP [] elboExObs z).getD 0) = 11/24 ∧
    E (elboExP.generateD lawExPD lawExP Cfg.asis (some elboExObs) []) (optK fun tw => tw.2)
      = 11/24 := by
  refine ⟨lawExPD_wf, lawExPD_normalised, by decide +kernel, by decide +kernel, by decide +kernel,
    covers_of_coversB _ _ (by decide +kernel), by decide +kernel, by decide +kernel,
    by decide +kernel, by decide +kernel, by decide +kernel⟩

/-- the guards of `C17_elbo_expect_log` on the same instance (all six joints and masses non-zero),
    and one draw's ratio: `z = (b=0, z=2)` has `p(x,z) = 1/2·1/6·3/8`, `q(z) = 2/3·1/6` -/
example : (∀ z ∈ elboExZ, ∃ pp, elboJoint lawExPD elboExP [] elboExObs z = some pp ∧ pp ≠ 0) ∧
    (∀ z ∈ elboExZ, ∃ qq r, elboExQ.assessP lawExPD z [.num (1/3)] = some (qq, r) ∧ qq ≠ 0) ∧
    elboRatioZ lawExPD elboExP [] elboExQ [.num (1/3)] elboExObs (elboExZ1 0 2) = some (9/32) := by
  have h : ∀ z ∈ elboExZ, ∃ qr, elboExQ.assessP lawExPD z [.num (1/3)] = some qr ∧ qr.1 ≠ 0 := by
    decide +kernel
  exact ⟨by decide +kernel, fun z hz => by
    obtain ⟨⟨qq, r⟩, h1, h2⟩ := h z hz
    exact ⟨qq, r, h1, h2⟩, by decide +kernel⟩

/-- `C17_elbo_tight_every_draw`: target `b ~ coin(1/2); y ~ coin(1/4 + b/2)`, `y = 1`; the family
    `b ~ coin(3/4)` is the exact posterior, `p(x) = 1/2`: hypotheses, and both draws' ratios -/
example : (∀ t, some t ∈ supp (tightExQ.simD lawExPD lawExP [.num (3/4)]) →
      ∃ z ∈ tightExZ, t.choices = some z) ∧
    (∀ z ∈ tightExZ, ∃ pp, elboJoint lawExPD tightExP [] elboExObs z = some pp ∧ pp ≠ 0 ∧
      pmassOf (tightExQ.assessP lawExPD z [.num (3/4)]) = pp / (1/2)) ∧
    (∀ z ∈ tightExZ, elboRatioZ lawExPD tightExP [] tightExQ [.num (3/4)] elboExObs z
      = some (1/2)) ∧
    -- … and off the posterior (theta = 1/3) the draws differ: 3/16 and 9/8
    elboRatioZ lawExPD tightExP [] tightExQ [.num (1/3)] elboExObs
      (.node (.cons "b" (.leaf (.num 0)) .nil)) = some (3/16) ∧
    elboRatioZ lawExPD tightExP [] tightExQ [.num (1/3)] elboExObs
      (.node (.cons "b" (.leaf (.num 1)) .nil)) = some (9/8) := by
  refine ⟨covers_of_coversB _ _ (by decide +kernel), by decide +kernel, by decide +kernel,
    by decide +kernel, by decide +kernel⟩

/-- shared address (the family `sharedExQ` also proposes `y ~ coin(1/4)`): the family's `y` replaces
    the observation in the merged map, so the draw `(b=0, y=0)` is scored at `y = 0`:
    `p = 1/2·3/4`, `q = 2/3·3/4`, ratio `3/4` -/
example : elboRatioZ lawExPD tightExP [] sharedExQ [.num (1/3)] elboExObs
      (.node (.cons "b" (.leaf (.num 0)) (.cons "y" (.leaf (.num 0)) .nil))) = some (3/4) := by
  decide +kernel

/-- `C17_elbo_le_log_evidence`: its hypotheses on a coin over ℝ (`realCoin`), target
    `b ~ coin(1/2); y ~ coin(1/4 + b/2)`, family `b ~ coin(1/3)` -/
example : realCoin.WF ∧ realCoin.Normalised ∧
    (tightExQ.noCollide = true ∧ tightExQ.condOK = true ∧ tightExZ.Nodup) ∧
    (∀ t, some t ∈ supp (tightExQ.simD realCoin lawExP [.num (1/3)]) →
      ∃ z ∈ tightExZ, t.choices = some z) ∧
    (∀ z ∈ tightExZ, tightExQ.skel = some z.skel) ∧
    (∀ z ∈ tightExZ, ∃ pp, elboJoint realCoin tightExP [] elboExObs z = some pp ∧ 0 < pp) ∧
    (∀ z ∈ tightExZ, 0 < pmassOf (tightExQ.assessP realCoin z [.num (1/3)])) :=
  ⟨realCoin_wf, realCoin_normalised, realCoin_instance⟩

/-- `C17_elbo_exp_tie`: integer log weights base 2 (`e n = 2^n`), masses `2^lp` -/
example : ∃ (e : ℤ → ℚ) (pd : PD ℚ), e 0 = 1 ∧ (∀ a b, e (a + b) = e a * e b) ∧
    (∀ d a v, pd.pm d a v = e (lawExP.lp d a v)) :=
  ⟨fun n => (2 : ℚ) ^ n, ⟨fun _ _ => [], fun d a v => (2 : ℚ) ^ (lawExP.lp d a v)⟩, by simp,
    fun a b => zpow_add₀ (by norm_num) a b, fun _ _ _ => rfl⟩

end Genjax.Vi
