import GenjaxModel.Proofs.Sel
/-!
# C16 — Selections are a Boolean algebra on addresses; filter/merge partition choices

`Sel.selected s p` is the model of "address path `p` is selected by `s`": thread the
remainder of `Selection.match` down the path and decide at the leaf with `() in s`
(exactly what `Regenerate`/`Distribution.regenerate` do, core.py:2073, 1645).
All statements hold for every selection expression, every path, every choice map.
-/
namespace Genjax

/-- `s | t` selects a path iff `s` or `t` does. -/
theorem C16_union (s t : Sel) (p : List String) :
    (Sel.union s t).selected p = (s.selected p || t.selected p) := selected_union' s t p

/-- the intersection selects a path iff both do. -/
theorem C16_inter (s t : Sel) (p : List String) :
    (Sel.inter s t).selected p = (s.selected p && t.selected p) := selected_inter' s t p

/-- `~s` selects a path iff `s` does not. -/
theorem C16_compl (s : Sel) (p : List String) :
    (Sel.compl s).selected p = !s.selected p := by
  simp [Sel.selected, rem_compl, Sel.leaf]

/-- `sel()` never selects. -/
theorem C16_none (p : List String) : Sel.none.selected p = false := selected_none' p

/-- `sel(())` always selects. -/
theorem C16_all (p : List String) : Sel.all.selected p = true := by
  simp [Sel.selected, rem_all, Sel.leaf]

/-- `sel("a")` selects everything under `a` (and nothing else; not the root). -/
theorem C16_str (a : String) (p : List String) :
    (Sel.str a).selected p = match p with | [] => false | k :: _ => decide (k = a) :=
  selected_str a p

/-- `sel(("a","b",…))` selects exactly the sub-tree below that (non-empty) path. -/
theorem C16_tup (q p : List String) :
    (Sel.tup q).selected p = (!q.isEmpty && q.isPrefixOf p) := selected_tup q p

/-- dict selections delegate per key. -/
theorem C16_dict (d : DSel) (k : String) (p : List String) :
    (Sel.dict d).selected (k :: p) = (d.lookup k).2.selected p := by
  simp [Sel.selected, Sel.rem, Sel.matchAddr]

theorem C16_dict_root (d : DSel) : (Sel.dict d).selected [] = false := rfl

theorem C16_dict_missing (d : DSel) (k : String) (p : List String)
    (h : (d.lookup k).1 = false) : (Sel.dict d).selected (k :: p) = false := by
  rw [C16_dict]
  have : d.lookup k = (false, Sel.none) := by
    induction d, k using DSel.lookup.induct with
    | case1 k => rfl
    | case2 v rest k => simp [DSel.lookup] at h
    | case3 a v rest k hk ih => simp [DSel.lookup, hk] at h ⊢; exact ih h
  rw [this]; exact selected_none' p

/-- De Morgan, as a corollary. -/
theorem C16_de_morgan (s t : Sel) (p : List String) :
    (Sel.compl (Sel.union s t)).selected p
      = (Sel.inter (Sel.compl s) (Sel.compl t)).selected p := by
  simp [C16_compl, C16_union, C16_inter]

/-- Specification filter: the first part holds exactly the selected leaves, the second
    exactly the others (so the parts are disjoint and together are all of `x`). -/
theorem C16_filter_partition (x : ChmL) (s : Sel) :
    (x.filterSpec s).1.leaves = x.leaves.filter (fun e => s.selected e.1) ∧
    (x.filterSpec s).2.leaves = x.leaves.filter (fun e => !s.selected e.1) := by
  simpa using filterSpec_leaves x s

/-- `Fn.filter` **as written** coincides with the specification filter whenever the hit
    flag is sound for the map at hand (decidable predicate `flagSound`).
    `_partial`: without the side condition the statement is false, see `C16_filter_asis_cex`. -/
theorem C16_filter_asis_partial (x : ChmL) (s : Sel)
    (hne : x.noEmpty = true) (h : x.flagSound s = true) :
    x.filterAsis s = x.filterSpec s := filterAsis_eq_filterSpec x s hne h

/-- For complement-free selections a flag miss does mean "nothing below is selected". -/
theorem C16_complFree_miss (s : Sel) (k : String) (h : s.complFree = true)
    (hm : (s.matchAddr k).1 = false) (p : List String) : s.selected (k :: p) = false :=
  (complFree_miss s k h).2 hm p

/-- Proved counterexample: with `~sel(("a","b"))` on `{a:{b:1,c:2}, d:3}` the code's
    filter puts `a/c` into the *unselected* part although the path is selected
    (and `regenerate` would resample it). Replayed on the implementation by the harness. -/
theorem C16_filter_asis_cex :
    let x : ChmL := .cons "a" (.node (.cons "b" (.leaf 1) (.cons "c" (.leaf 2) .nil)))
                      (.cons "d" (.leaf 3) .nil)
    let s : Sel := .compl (.tup ["a", "b"])
    s.selected ["a", "c"] = true ∧
    ((x.filterAsis s).1.leaves.map (·.1)) = [["d"]] ∧
    ((x.filterSpec s).1.leaves.map (·.1)) = [["a", "c"], ["d"]] := by
  decide

/-- Second counterexample: a selection that reaches deeper than the map. `sel(("a","b"))`
    on `{a: leaf}`: the code's filter selects leaf `a`, the path `a` is not selected. -/
theorem C16_filter_asis_cex_deep :
    let x : ChmL := .cons "a" (.leaf 1) .nil
    let s : Sel := .tup ["a", "b"]
    s.selected ["a"] = false ∧ (x.filterAsis s).1.leaves.map (·.1) = [["a"]] := by
  decide

/-- non-vacuity: the hypotheses of `C16_filter_asis_partial` are met by a non-trivial case. -/
example :
    let x : ChmL := .cons "a" (.node (.cons "b" (.leaf 1) (.cons "c" (.leaf 2) .nil)))
                      (.cons "d" (.leaf 3) .nil)
    let s : Sel := .union (.tup ["a", "b"]) (.str "d")
    x.noEmpty = true ∧ x.flagSound s = true ∧ (x.filterAsis s).1.leaves.length = 2 := by
  decide

end Genjax
