import GenjaxModel.Proofs.GfiRegen
import GenjaxModel.Proofs.GfiValues
import GenjaxModel.Proofs.GfiRegenMH   -- (c09gfi block at the end of this file)
import GenjaxModel.Proofs.GfiAssessCond
/-!
# C04 — regenerate resamples exactly the selection and returns the MH weight
-/
namespace Genjax
variable {R : Type} [AddCommGroup R] (P : Prims R) (cfg : Cfg)

/-- regenerate returns a coherent trace under the (possibly new) arguments -/
theorem C04_regenerate_coherent (g : GF) (t : Tr R) (s : Sel) (args : List Val) (t' : Tr R) (w : R)
    (d : Option CM) (h : g.regenerate P cfg t s args = some (t', w, d)) : g.Coh P args t' :=
  regenerate_coh P cfg g t s args t' w d h

/-- Whenever no Cond switches branch: weight = change of the joint score minus the change of the
    score of the selected choices (`selScore` threads the selection exactly like `regenerate`). -/
theorem C04_regenerate_weight
    (g : GF) (args0 : List Val) (t : Tr R) (ht : g.Coh P args0 t)
    (s : Sel) (args : List Val) (t' : Tr R) (w : R) (d : Option CM)
    (h : g.regenerate P cfg t s args = some (t', w, d)) (hs : Tr.sameChecks t t') :
    w = (t.score + -t'.score) + -(g.selScore t s + -(g.selScore t' s)) :=
  regenerate_weight_noswitch P cfg g args0 t ht s args t' w d h hs

/-- empty selection, unchanged arguments: weight 0, score and retval unchanged … -/
theorem C04_regenerate_empty_selection
    (g : GF) (args : List Val) (t : Tr R) (ht : g.Coh P args t)
    (s : Sel) (hsel : ∀ p, s.selected p = false) (t' : Tr R) (w : R) (d : Option CM)
    (h : g.regenerate P cfg t s args = some (t', w, d)) :
    w = 0 ∧ t'.score = t.score ∧ t'.retval = t.retval :=
  regenerate_none_core P cfg g args t ht s hsel t' w d h

/-- … and the trace itself is unchanged (bit-identical), for every trace in canonical form —
    which every trace built by simulate/generate/update/regenerate is (`C04_ops_canonical`). -/
theorem C04_regenerate_empty_selection_identity
    (g : GF) (args : List Val) (t : Tr R) (ht : g.Coh P args t) (hcan : g.Canon t)
    (s : Sel) (hsel : ∀ p, s.selected p = false) (t' : Tr R) (w : R) (d : Option CM)
    (h : g.regenerate P cfg t s args = some (t', w, d)) : t' = t :=
  regenerate_none_eq P cfg g args t ht hcan s hsel t' w d h

theorem C04_ops_canonical (g : GF) :
    (∀ args (t : Tr R), g.simulate P args = some t → g.Canon t) ∧
    (∀ x args (t : Tr R) w, g.generate P cfg x args = some (t, w) → g.Canon t) ∧
    (∀ (t : Tr R) x args t' w d, g.update P cfg t x args = some (t', w, d) → g.Canon t') ∧
    (∀ (t : Tr R) s args t' w d, g.regenerate P cfg t s args = some (t', w, d) → g.Canon t') :=
  ⟨simulate_canon P g, generate_canon P cfg g, update_canon P cfg g, regenerate_canon P cfg g⟩

/-- without the canonical-form hypothesis the identity claim is false (junk entry in the old trace) -/
theorem C04_regenerate_empty_selection_needs_canonical :
    ∃ (g : GF) (args : List Val) (t : Tr R) (s : Sel) (t' : Tr R) (w : R) (d : Option CM),
      g.Coh P args t ∧ (∀ p, s.selected p = false) ∧
      g.regenerate P cfg t s args = some (t', w, d) ∧ t'.choices ≠ t.choices :=
  regenerate_none_counterexample P cfg

/-- everything selected (and no Cond switch): weight 0 -/
theorem C04_regenerate_all_selected
    (g : GF) (t : Tr R) (s : Sel) (hsel : ∀ p, s.selected p = true) (args : List Val)
    (t' : Tr R) (w : R) (d : Option CM)
    (h : g.regenerate P cfg t s args = some (t', w, d)) (hns : Tr.sameChecks t t') : w = 0 :=
  regenerate_all_partial P cfg g t s hsel args t' w d h (Or.inr hns)

/-- The no-switch hypothesis cannot be dropped for the branch-switch-corrected Cond: a switch with
    everything selected gives a non-zero weight (outside the property's claim; recorded as a limit
    of the repaired Cond.regenerate in DESIGN.md). -/
theorem C04_regenerate_all_selected_switch_cex (x : R) (hx : x ≠ 0) :
    ∃ (P : Prims R) (cfg : Cfg) (g : GF) (args0 : List Val) (t : Tr R) (s : Sel) (args : List Val)
      (t' : Tr R) (w : R) (d : Option CM),
      g.Coh P args0 t ∧ (∀ p, s.selected p = true) ∧
      g.regenerate P cfg t s args = some (t', w, d) ∧ w ≠ 0 :=
  regenerate_all_counterexample x hx

/-- the code before the repair (`scanRegenDefined = false`) was undefined on every Scan trace -/
theorem C04_scan_regenerate_asis_undefined (g : GF) (n : Nat) (steps : TrL R) (c : Val) (s : Sel)
    (args : List Val) :
    (GF.scan g n).regenerate P Cfg.asis (.scan steps c) s args = none := by
  simp [GF.regenerate, Cfg.asis]

end Genjax

/-! ==============================================================================================
    BEGIN work package `gfivalues`: the VALUES held by the regenerated trace and by the discard
    (helper lemmas: Model/GfiPaths.lean, Proofs/GfiValues*.lean; notation as in Props/C03.lean).
    `Sel.selectedPath s p`: the selection `s` selects the address `p` — the remainder of the
    selection is threaded along the dictionary keys of `p` with `Sel.matchAddr` exactly as the
    Regenerate handler does, lane / step indices do not consume it, the decision is `() in s` at the
    leaf.
    ============================================================================================== -/
namespace Genjax
variable {R : Type} [AddCommGroup R] (P : Prims R) (cfg : Cfg)

/-- Every address the selection does not select keeps its value bit-identically (as an `Option`: it
    also stays present / absent), provided no Cond switched branch — EVERY program (dist, fn, vmap,
    scan, cond at any depth), every selection expression, every (new) arguments, every `cfg`.
    `hcan`: the old trace has the shape the operations build (`C04_ops_canonical`). -/
theorem C04_regenerate_unselected_unchanged (g : GF) (t : Tr R) (s : Sel) (args : List Val)
    (t' : Tr R) (w : R) (d : Option CM) (h : g.regenerate P cfg t s args = some (t', w, d))
    (hcan : g.Canon t) (hs : Tr.sameChecks t t')
    (y y' : CM) (hy : t.choices = some y) (hy' : t'.choices = some y')
    (p : Path) (hp : s.selectedPath p = false) : y'.leafAt p = y.leafAt p :=
  regenerate_unselected_unchanged P cfg g t s args t' w d h hcan hs y y' hy hy' p hp

/-- `regenerate` neither adds nor removes addresses -/
theorem C04_regenerate_leaf_domain (g : GF) (t : Tr R) (s : Sel) (args : List Val)
    (t' : Tr R) (w : R) (d : Option CM) (h : g.regenerate P cfg t s args = some (t', w, d))
    (hcan : g.Canon t) (y y' : CM) (hy : t.choices = some y) (hy' : t'.choices = some y')
    (p : Path) : (y'.leafAt p).isSome = (y.leafAt p).isSome :=
  regenerate_leaf_domain P cfg g t s args t' w d h hcan y y' hy hy' p

/-- Repaired `Cond.regenerate` (`cfg.condDiscardVisible`): the discard holds the old visible value
    of EXACTLY the selected (resampled) addresses — at a selected address the old value, at every
    other path nothing.  Every program, selection, arguments; also across Cond branch switches. -/
theorem C04_regenerate_discard_selected (hdv : cfg.condDiscardVisible = true)
    (g : GF) (t : Tr R) (s : Sel) (args : List Val)
    (t' : Tr R) (w : R) (d : Option CM) (h : g.regenerate P cfg t s args = some (t', w, d))
    (hcan : g.Canon t) (y y' : CM) (hy : t.choices = some y) (hy' : t'.choices = some y')
    (p : Path) : CM.leafAt? d p = if s.selectedPath p then y.leafAt p else none :=
  regenerate_discard_selected P cfg hdv g t s args t' w d h hcan y y' hy hy' p

/-- non-vacuity on `condExDeep` (Scan of a Cond, Vmap of a Cond of a Cond), sampler depending on
    the arguments, new arguments that keep the Cond checks, selection `("s","x") | ("v","y")`:
    the hypotheses of the three theorems hold (`regenScen_spec`); the unselected `s/0/y` and `v/1/x`
    keep 13 and 46, the selected `s/0/x` changes from 11 to 5, and the discard holds 11 at `s/0/x`
    and nothing at `s/0/y`. -/
example : ∃ s, regenScen valExP Cfg.spec condExDeep condExDeepArgs valExSel valExArgs3 = some s ∧
    (Tr.sameChecksB s.t s.t' &&
     !(valExSel.selectedPath [.key "s", .idx 0, .key "y"]) &&
     decide (s.y.leafAt [.key "s", .idx 0, .key "y"] = some (.num 13)) &&
     decide (s.y'.leafAt [.key "s", .idx 0, .key "y"] = some (.num 13)) &&
     !(valExSel.selectedPath [.key "v", .idx 1, .key "x"]) &&
     decide (s.y.leafAt [.key "v", .idx 1, .key "x"] = some (.num 46)) &&
     decide (s.y'.leafAt [.key "v", .idx 1, .key "x"] = some (.num 46)) &&
     valExSel.selectedPath [.key "s", .idx 0, .key "x"] &&
     decide (s.y.leafAt [.key "s", .idx 0, .key "x"] = some (.num 11)) &&
     decide (s.y'.leafAt [.key "s", .idx 0, .key "x"] = some (.num 5)) &&
     decide (CM.leafAt? s.d [.key "s", .idx 0, .key "x"] = some (.num 11)) &&
     decide (CM.leafAt? s.d [.key "s", .idx 0, .key "y"] = none)) = true :=
  (Option.any_eq_true _ _).mp (by decide +kernel)

/-- Every value visible at a SELECTED address of the regenerated trace is the sampler's draw
    `P.draw d params` for the Distribution `d` at that address and the parameters `params` that the
    program computes from the NEW trace's own values under the new arguments (`GF.siteAt`) — a fresh
    draw from the conditional prior given the (possibly new) values it depends on.  Every program
    (Cond at any depth, also across branch switches), every selection, arguments, `cfg`. -/
theorem C04_regenerate_selected_are_draws (g : GF) (t : Tr R) (s : Sel) (args : List Val)
    (t' : Tr R) (w : R) (d : Option CM) (h : g.regenerate P cfg t s args = some (t', w, d))
    (y' : CM) (hy' : t'.choices = some y') (p : Path) (hp : s.selectedPath p = true)
    (v : Val) (hv : y'.leafAt p = some v) :
    ∃ d0 ps, g.siteAt args t' p = some (d0, ps) ∧ v = P.draw d0 ps :=
  regenerate_selected_are_draws P cfg g t s args t' w d h y' hy' p hp v hv

/-- non-vacuity: in the scenario above the selected `s/2/x` (step 2 of the Scan of a Cond) is
    Distribution 1 with the NEW carry 3 as parameter and holds its draw 7 (it held 13); the selected
    `v/1/y` is Distribution 5 with parameter 5 and holds 13 -/
example : ∃ s, regenScen valExP Cfg.spec condExDeep condExDeepArgs valExSel valExArgs3 = some s ∧
    (valExSel.selectedPath [.key "s", .idx 2, .key "x"] &&
     decide (s.y.leafAt [.key "s", .idx 2, .key "x"] = some (.num 13)) &&
     decide (s.y'.leafAt [.key "s", .idx 2, .key "x"] = some (.num 7)) &&
     decide (condExDeep.siteAt valExArgs3 s.t' [.key "s", .idx 2, .key "x"] = some (1, [.num 3])) &&
     decide (valExP.draw 1 [.num 3] = .num 7) &&
     valExSel.selectedPath [.key "v", .idx 1, .key "y"] &&
     decide (s.y'.leafAt [.key "v", .idx 1, .key "y"] = some (.num 13)) &&
     decide (condExDeep.siteAt valExArgs3 s.t' [.key "v", .idx 1, .key "y"]
       = some (5, [.num 5]))) = true :=
  (Option.any_eq_true _ _).mp (by decide +kernel)

end Genjax
/-! ==============================================================================================
    END work package `gfivalues`
    ============================================================================================== -/

/-! ==============================================================================================
    BEGIN work package `c09gfi`: the "MH weight" clause of C04 in the PROBABILISTIC semantics
    (`GF.regenerateD`, see the `c09gfi` block of Props/C09.lean for the notation).
    ============================================================================================== -/
namespace Genjax
open Smc Smc.FinDist

section C04Gfi
variable {K : Type} [Field K] {R : Type} [AddCommGroup R]
variable (e : R → K) (pd : PD K) (P : Prims R) (cfg : Cfg)

/-- Linear-domain restatement of `C04_regenerate_weight` through `regenerateD` (`_partial`:
    Cond-free programs): jointly with the event "the regenerated choices are `x'`", the reported
    weight is `unselMass(x') · unselE t` — the product over the UNSELECTED sites of
    `pm(new parameters, kept value) · e(old score)`, i.e. (old score = -log old mass) the ratio of
    the joint densities divided by the ratio of the densities of the selected choices — and the
    event has probability `selMass(x')` (0 unless `x'` agrees with the old choices off the
    selection).  `Φ` is an arbitrary function of (return value, weight); new arguments `args` may
    differ from the arguments `a` of the old trace.  Missing: programs with Cond. -/
theorem C04_regenerate_weight_linear_partial (hpd : pd.WF) (hsr : cfg.scanRegenDefined = true)
    (g : GF) (hcf : g.condFree = true) (t : Tr R) (a : List Val) (s : Sel) (x x' : CM)
    (args : List Val) (hc : g.Coh P a t) (hcan : g.Canon t) (hx : t.choices = some x)
    (hs' : g.skel = some x'.skel) (Φ : Val → K → K) :
    E (g.regenerateD e pd P cfg t s args) (optK (chW x' Φ))
      = if CM.eqOff s x x' then
          (match g.assessS pd x' s args with
           | none => 0
           | some o => o.1.1 * Φ o.2 (o.1.2 * g.unselE e t s))
        else 0 := by
  have hs : g.skel = some x.skel := by
    rw [← canon_choices_skel P g a t hcan hc, hx]; rfl
  exact regenD_weight_law e pd P cfg hpd hsr g hcf t a s x x' args hc hx hs hs' Φ

/-- … and for a coherent old trace `unselE t` IS the reciprocal of the product of the masses of its
    unselected sites (when that product is non-zero): with the theorem above, the weight on the
    event is `unselMass(x') / unselMass(x)` = [π(x')/π(x)] / [selMass(x')/selMass(x)]. -/
theorem C04_unselE_is_reciprocal_partial
    (hinv : ∀ d a v, pd.pm d a v ≠ 0 → e (-(P.lp d a v)) * pd.pm d a v = 1)
    (g : GF) (hcf : g.condFree = true) (args : List Val) (t : Tr R) (x : CM) (s : Sel)
    (hc : g.Coh P args t) (hx : t.choices = some x) (hne : unselMass pd g x s args ≠ 0) :
    g.unselE e t s * unselMass pd g x s args = 1 ∧
    pmassOf (g.assessP pd x args) = selMass pd g x s args * unselMass pd g x s args := by
  obtain ⟨A, B, hAB, hU⟩ := coh_assessS e pd P hinv g hcf args t x s hc hx
  refine ⟨?_, pmassOf_eq_sel_mul_unsel pd g x s args⟩
  unfold unselMass at hne ⊢
  rw [hAB] at hne ⊢
  exact hU hne

end C04Gfi

/-- non-vacuity: in the two-site instance of Props/C09.lean (`x ~ D(0); y ~ D(x)`, selection `"x"`,
    old choices `{x: 0, y: 1}`) the kernel specification reaches `{x: 3, y: 1}` with proposal mass
    `1/8` and weight `1/2`, and the old trace's `unselE` is `4 = 1/(1/4)` -/
example : ∃ t w, mhExG.generate mhExP Cfg.spec (some (mhExX 0 1)) [.num 0] = some (t, w) ∧
    mhExG.regenW mhExE mhExPD Cfg.spec t (.str "x") (mhExX 3 1) [.num 0]
      = some ((1/8, 1/2), .num 4) ∧
    mhExG.unselE mhExE t (.str "x") = 4 ∧ unselMass mhExPD mhExG (mhExX 0 1) (.str "x") [.num 0] = 1/4 :=
  ⟨_, _, rfl, by decide +kernel, by decide +kernel, by decide +kernel⟩

end Genjax
/-! ==============================================================================================
    END work package `c09gfi`
    ============================================================================================== -/
