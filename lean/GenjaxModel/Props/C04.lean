import GenjaxModel.Proofs.GfiRegen
/-!
# C04 — regenerate resamples exactly the selection and returns the MH weight
-/
namespace Genjax
variable {R : Type} [AddCommGroup R] (P : Prims R) (cfg : Cfg)

/-- regenerate returns a coherent trace under the (possibly new) arguments -/
theorem C04_regenerate_coherent (g : GF) (t : Tr R) (s : Sel) (args : List Val) (t' : Tr R) (w : R)
    (d : Option CM) (h : g.regenerate P cfg t s args = some (t', w, d)) : g.Coh P args t' :=
  regenerate_coh P cfg g t s args t' w d h

/-- Whenever no Cond switches branch: weight = change of the joint score minus the change of the
    score of the selected choices (`selScore` threads the selection exactly like `regenerate`). -/
theorem C04_regenerate_weight
    (g : GF) (args0 : List Val) (t : Tr R) (ht : g.Coh P args0 t)
    (s : Sel) (args : List Val) (t' : Tr R) (w : R) (d : Option CM)
    (h : g.regenerate P cfg t s args = some (t', w, d)) (hs : Tr.sameChecks t t') :
    w = (t.score + -t'.score) + -(g.selScore t s + -(g.selScore t' s)) :=
  regenerate_weight_noswitch P cfg g args0 t ht s args t' w d h hs

/-- empty selection, unchanged arguments: weight 0, score and retval unchanged … -/
theorem C04_regenerate_empty_selection
    (g : GF) (args : List Val) (t : Tr R) (ht : g.Coh P args t)
    (s : Sel) (hsel : ∀ p, s.selected p = false) (t' : Tr R) (w : R) (d : Option CM)
    (h : g.regenerate P cfg t s args = some (t', w, d)) :
    w = 0 ∧ t'.score = t.score ∧ t'.retval = t.retval :=
  regenerate_none_core P cfg g args t ht s hsel t' w d h

/-- … and the trace itself is unchanged (bit-identical), for every trace in canonical form —
    which every trace built by simulate/generate/update/regenerate is (`C04_ops_canonical`). -/
theorem C04_regenerate_empty_selection_identity
    (g : GF) (args : List Val) (t : Tr R) (ht : g.Coh P args t) (hcan : g.Canon t)
    (s : Sel) (hsel : ∀ p, s.selected p = false) (t' : Tr R) (w : R) (d : Option CM)
    (h : g.regenerate P cfg t s args = some (t', w, d)) : t' = t :=
  regenerate_none_eq P cfg g args t ht hcan s hsel t' w d h

theorem C04_ops_canonical (g : GF) :
    (∀ args (t : Tr R), g.simulate P args = some t → g.Canon t) ∧
    (∀ x args (t : Tr R) w, g.generate P cfg x args = some (t, w) → g.Canon t) ∧
    (∀ (t : Tr R) x args t' w d, g.update P cfg t x args = some (t', w, d) → g.Canon t') ∧
    (∀ (t : Tr R) s args t' w d, g.regenerate P cfg t s args = some (t', w, d) → g.Canon t') :=
  ⟨simulate_canon P g, generate_canon P cfg g, update_canon P cfg g, regenerate_canon P cfg g⟩

/-- without the canonical-form hypothesis the identity claim is false (junk entry in the old trace) -/
theorem C04_regenerate_empty_selection_needs_canonical :
    ∃ (g : GF) (args : List Val) (t : Tr R) (s : Sel) (t' : Tr R) (w : R) (d : Option CM),
      g.Coh P args t ∧ (∀ p, s.selected p = false) ∧
      g.regenerate P cfg t s args = some (t', w, d) ∧ t'.choices ≠ t.choices :=
  regenerate_none_counterexample P cfg

/-- everything selected (and no Cond switch): weight 0 -/
theorem C04_regenerate_all_selected
    (g : GF) (t : Tr R) (s : Sel) (hsel : ∀ p, s.selected p = true) (args : List Val)
    (t' : Tr R) (w : R) (d : Option CM)
    (h : g.regenerate P cfg t s args = some (t', w, d)) (hns : Tr.sameChecks t t') : w = 0 :=
  regenerate_all_partial P cfg g t s hsel args t' w d h (Or.inr hns)

/-- The no-switch hypothesis cannot be dropped for the branch-switch-corrected Cond: a switch with
    everything selected gives a non-zero weight (outside the property's claim; recorded as a limit
    of the repaired Cond.regenerate in DESIGN.md). -/
theorem C04_regenerate_all_selected_switch_cex (x : R) (hx : x ≠ 0) :
    ∃ (P : Prims R) (cfg : Cfg) (g : GF) (args0 : List Val) (t : Tr R) (s : Sel) (args : List Val)
      (t' : Tr R) (w : R) (d : Option CM),
      g.Coh P args0 t ∧ (∀ p, s.selected p = true) ∧
      g.regenerate P cfg t s args = some (t', w, d) ∧ w ≠ 0 :=
  regenerate_all_counterexample x hx

/-- the code before the repair (`scanRegenDefined = false`) was undefined on every Scan trace -/
theorem C04_scan_regenerate_asis_undefined (g : GF) (n : Nat) (steps : TrL R) (c : Val) (s : Sel)
    (args : List Val) :
    (GF.scan g n).regenerate P Cfg.asis (.scan steps c) s args = none := by
  simp [GF.regenerate, Cfg.asis]

end Genjax
