import GenjaxModel.Proofs.Chain
/-!
# C18 — chain returns exactly the burnt-in, thinned kernel iterates and diagnostics

Model `Model/Chain.lean`: the kernel is an arbitrary function `step j s` (application number `j`
— under `seed` its randomness is a function of (key, j) only, which the correspondence run checks
by re-iterating the seeded kernel with the keys `fold_in(sub_key, j)`). All statements hold for
every kernel, initial state, n_steps, burn_in and thinning ≥ 1.
-/
namespace Genjax.Chain
variable {σ : Type} [Inhabited σ]

/-- the un-thinned run lists the states visited after 1, 2, …, n applications with their flags -/
theorem C18_full_run (step : Nat → σ → σ × Bool) (n : Nat) (init : σ) (j : Nat) (hj : j < n) :
    (run step n 0 init).getD j (default, false) = (iter step (j + 1) init, accepted step j init) :=
  run_getD step n init j hj

/-- n_steps counts the retained states: ⌈(n − burn_in)/thinning⌉ of them, one accept flag each -/
theorem C18_count (step : Nat → σ → σ × Bool) (init : σ) (n b k : Nat) (hk : 0 < k) :
    (chain step init n b k).nSteps = (n - b + k - 1) / k ∧
    (chain step init n b k).states.length = (n - b + k - 1) / k ∧
    (chain step init n b k).accepts.length = (n - b + k - 1) / k := chain_count step init n b k hk

/-- retained state i is the state visited after step burn_in + i·thinning, and accepts[i] is the
    flag of that very step -/
theorem C18_slice (step : Nat → σ → σ × Bool) (init : σ) (n b k : Nat) (hk : 0 < k)
    (i : Nat) (hi : i < (chain step init n b k).nSteps) :
    (chain step init n b k).states.getD i default = iter step (b + i * k + 1) init ∧
    (chain step init n b k).accepts.getD i false = accepted step (b + i * k) init :=
  chain_slice step init n b k hk i hi

/-- with the same kernel randomness the result is that slice of the un-thinned run -/
theorem C18_slice_of_unthinned (step : Nat → σ → σ × Bool) (init : σ) (n b k : Nat) (hk : 0 < k)
    (i : Nat) (hi : i < (chain step init n b k).nSteps) :
    (chain step init n b k).states.getD i default =
      (chain step init n 0 1).states.getD (b + i * k) default ∧
    (chain step init n b k).accepts.getD i false =
      (chain step init n 0 1).accepts.getD (b + i * k) false :=
  chain_is_slice_of_full step init n b k hk i hi

/-- acceptance_rate = (number of retained accepted steps) / n_steps, i.e. the mean of accepts -/
theorem C18_rate (step : Nat → σ → σ × Bool) (init : σ) (n b k : Nat) :
    (chain step init n b k).acceptCount = ((chain step init n b k).accepts.filter id).length :=
  chain_accept_count step init n b k

/-- non-vacuity: a concrete run -/
example : (chain (fun j (s : Nat) => (s + j + 1, j % 2 == 0)) 0 7 1 3).states = [3, 15] := by decide

end Genjax.Chain
