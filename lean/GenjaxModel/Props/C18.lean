import GenjaxModel.Proofs.Chain
import GenjaxModel.Proofs.ChainMulti
/-!
# C18 — chain returns exactly the burnt-in, thinned kernel iterates and diagnostics

Model `Model/Chain.lean`: the kernel is an arbitrary function `step j s` (application number `j`
— under `seed` its randomness is a function of (key, j) only, which the correspondence run checks
by re-iterating the seeded kernel with the keys `fold_in(sub_key, j)`). All statements hold for
every kernel, initial state, n_steps, burn_in and thinning ≥ 1.
-/
namespace Genjax.Chain
variable {σ : Type} [Inhabited σ]

/-- the un-thinned run lists the states visited after 1, 2, …, n applications with their flags -/
theorem C18_full_run (step : Nat → σ → σ × Bool) (n : Nat) (init : σ) (j : Nat) (hj : j < n) :
    (run step n 0 init).getD j (default, false) = (iter step (j + 1) init, accepted step j init) :=
  run_getD step n init j hj

/-- n_steps counts the retained states: ⌈(n − burn_in)/thinning⌉ of them, one accept flag each -/
theorem C18_count (step : Nat → σ → σ × Bool) (init : σ) (n b k : Nat) (hk : 0 < k) :
    (chain step init n b k).nSteps = (n - b + k - 1) / k ∧
    (chain step init n b k).states.length = (n - b + k - 1) / k ∧
    (chain step init n b k).accepts.length = (n - b + k - 1) / k := chain_count step init n b k hk

/-- retained state i is the state visited after step burn_in + i·thinning, and accepts[i] is the
    flag of that very step -/
theorem C18_slice (step : Nat → σ → σ × Bool) (init : σ) (n b k : Nat) (hk : 0 < k)
    (i : Nat) (hi : i < (chain step init n b k).nSteps) :
    (chain step init n b k).states.getD i default = iter step (b + i * k + 1) init ∧
    (chain step init n b k).accepts.getD i false = accepted step (b + i * k) init :=
  chain_slice step init n b k hk i hi

/-- with the same kernel randomness the result is that slice of the un-thinned run -/
theorem C18_slice_of_unthinned (step : Nat → σ → σ × Bool) (init : σ) (n b k : Nat) (hk : 0 < k)
    (i : Nat) (hi : i < (chain step init n b k).nSteps) :
    (chain step init n b k).states.getD i default =
      (chain step init n 0 1).states.getD (b + i * k) default ∧
    (chain step init n b k).accepts.getD i false =
      (chain step init n 0 1).accepts.getD (b + i * k) false :=
  chain_is_slice_of_full step init n b k hk i hi

/-- acceptance_rate = (number of retained accepted steps) / n_steps, i.e. the mean of accepts -/
theorem C18_rate (step : Nat → σ → σ × Bool) (init : σ) (n b k : Nat) :
    (chain step init n b k).acceptCount = ((chain step init n b k).accepts.filter id).length :=
  chain_accept_count step init n b k

/-- non-vacuity: a concrete run -/
example : (chain (fun j (s : Nat) => (s + j + 1, j % 2 == 0)) 0 7 1 3).states = [3, 15] := by decide


/-! ## Acceptance rate as a mean (with the division), multi-chain branch, seeded-kernel view

`Model/ChainMulti.lean`: `Result.rate` (= `jnp.mean(final_accepts)`), `multiChain` (the
`n_chains != 1` branch: `modular_vmap` of the single-chain code over the replicated initial trace,
lane `ci` running the kernel `steps ci`), `runChain` (dispatch on `n_chains == 1`), `seededStep`. -/

/-- single chain: `acceptance_rate` is the mean of the RETURNED (burnt-in, thinned) flags, as a
    rational number: rate = #True(accepts) / len(accepts); when the result is non-empty
    rate · n_steps = acceptCount (so rate = acceptCount / n_steps is a genuine quotient, not the
    totalised `x / 0 = 0`), 0 ≤ rate ≤ 1, and in terms of the kernel: rate = #{ i < n_steps : step
    number burn_in + i·thinning was accepted } / n_steps with n_steps = ⌈(n − burn_in)/thinning⌉.
    Strengthens `C18_rate` (which only states the count). -/
theorem C18_rate_is_mean (step : Nat → σ → σ × Bool) (init : σ) (n b k : Nat) (hk : 0 < k) :
    (chain step init n b k).rate = meanBool (chain step init n b k).accepts ∧
    (0 < (chain step init n b k).nSteps →
      (chain step init n b k).rate * ((chain step init n b k).nSteps : Rat)
        = ((chain step init n b k).acceptCount : Rat)) ∧
    (0 ≤ (chain step init n b k).rate ∧ (chain step init n b k).rate ≤ 1) ∧
    (chain step init n b k).rate
      = (((List.range ((n - b + k - 1) / k)).filter fun i => accepted step (b + i * k) init).length : Rat)
          / (((n - b + k - 1) / k : Nat) : Rat) := by
  refine ⟨chain_rate_eq_meanBool step init n b k, ?_, ?_, chain_rate_spec step init n b k hk⟩
  · intro h
    rw [chain_rate_eq_meanBool, chain_nSteps_eq, chain_acceptCount_eq]
    exact meanBool_mul_length _ (by rw [← chain_nSteps_eq]; exact h)
  · rw [chain_rate_eq_meanBool]
    exact ⟨meanBool_nonneg _, meanBool_le_one _⟩

/-- the retained flags / states are, in order, those of the step numbers b, b+k, b+2k, … -/
theorem C18_result_lists (step : Nat → σ → σ × Bool) (init : σ) (n b k : Nat) (hk : 0 < k) :
    (chain step init n b k).states
      = (List.range ((n - b + k - 1) / k)).map (fun i => iter step (b + i * k + 1) init) ∧
    (chain step init n b k).accepts
      = (List.range ((n - b + k - 1) / k)).map (fun i => accepted step (b + i * k) init) := by
  have hm := (chain_count step init n b k hk).1
  exact ⟨hm ▸ chain_states_eq_map step init n b k hk, hm ▸ chain_accepts_eq_map step init n b k hk⟩

/-- non-vacuity of `C18_rate_is_mean`: 2 retained steps (numbers 1 and 4 of 7), one accepted -/
example : (chain (fun j (s : Nat) => (s + j + 1, j % 2 == 0)) 0 7 1 3).rate = 1 / 2 ∧
    0 < (chain (fun j (s : Nat) => (s + j + 1, j % 2 == 0)) 0 7 1 3).nSteps := by decide +kernel

/-- multi-chain: lane `ci` of every stacked field is the single-chain result of lane `ci`'s kernel
    on the same initial state with the same n, burn_in, thinning (states, accepts, n_steps, and the
    per-chain rate); in particular it does not depend on the other lanes' kernels. Every n, burn_in,
    thinning, number of chains. -/
theorem C18_multi_lane (steps : Nat → Nat → σ → σ × Bool) (init : σ) (n b k c : Nat)
    (ci : Nat) (hc : ci < c) :
    (multiChain steps init n b k c).states[ci]? = some (chain (steps ci) init n b k).states ∧
    (multiChain steps init n b k c).accepts[ci]? = some (chain (steps ci) init n b k).accepts ∧
    (multiChain steps init n b k c).nSteps = (chain (steps ci) init n b k).nSteps ∧
    (multiChain steps init n b k c).chainRates[ci]? = some (chain (steps ci) init n b k).rate :=
  multiChain_lane steps init n b k c ci hc

/-- shapes: leading axis = n_chains for states, accepts (and the per-chain rates); second axis =
    n_steps = ⌈(n − burn_in)/thinning⌉ in every lane -/
theorem C18_multi_shape (steps : Nat → Nat → σ → σ × Bool) (init : σ) (n b k c : Nat) (hk : 0 < k) :
    (multiChain steps init n b k c).states.length = c ∧
    (multiChain steps init n b k c).accepts.length = c ∧
    (multiChain steps init n b k c).chainRates.length = c ∧
    (multiChain steps init n b k c).nChains = c ∧
    (multiChain steps init n b k c).nSteps = (n - b + k - 1) / k ∧
    (∀ row ∈ (multiChain steps init n b k c).states, row.length = (n - b + k - 1) / k) ∧
    (∀ row ∈ (multiChain steps init n b k c).accepts, row.length = (n - b + k - 1) / k) := by
  obtain ⟨h1, h2, h3, h4⟩ := multiChain_shape_lead steps init n b k c
  obtain ⟨h5, h6, h7⟩ := multiChain_shape_inner steps init n b k c hk
  exact ⟨h1, h2, h3, h4, h5, h6, h7⟩

/-- entry (ci, i) of the stacked result is lane ci's state after its step number
    burn_in + i·thinning, and accepts[ci][i] is the flag of that very step -/
theorem C18_multi_slice (steps : Nat → Nat → σ → σ × Bool) (init : σ) (n b k c : Nat) (hk : 0 < k)
    (ci : Nat) (hc : ci < c) (i : Nat) (hi : i < (multiChain steps init n b k c).nSteps) :
    (((multiChain steps init n b k c).states.getD ci []).getD i default
        = iter (steps ci) (b + i * k + 1) init) ∧
    (((multiChain steps init n b k c).accepts.getD ci []).getD i false
        = accepted (steps ci) (b + i * k) init) :=
  multiChain_slice steps init n b k c hk ci hc i hi

/-- multi-chain rates, as the code computes them: the per-chain rates are the row means of the
    RETURNED flags (`jnp.mean(combined_accepts, axis=1)`, each in [0,1]); the reported
    `acceptance_rate` is the mean of the per-chain rates; and for a non-empty result
    (n_chains > 0, n_steps > 0) that equals the mean of all returned flags
    = (Σ_lanes #True) / (n_chains · n_steps). -/
theorem C18_multi_rate (steps : Nat → Nat → σ → σ × Bool) (init : σ) (n b k c : Nat) (hk : 0 < k) :
    (multiChain steps init n b k c).chainRates = (multiChain steps init n b k c).accepts.map meanBool ∧
    (∀ r ∈ (multiChain steps init n b k c).chainRates, 0 ≤ r ∧ r ≤ 1) ∧
    (multiChain steps init n b k c).rate = meanRat (multiChain steps init n b k c).chainRates ∧
    (0 < c → 0 < (multiChain steps init n b k c).nSteps →
      (multiChain steps init n b k c).rate = meanBool (multiChain steps init n b k c).accepts.flatten ∧
      (multiChain steps init n b k c).rate
        = ((((multiChain steps init n b k c).accepts.map countTrue).sum : Nat) : Rat)
            / ((c * (multiChain steps init n b k c).nSteps : Nat) : Rat)) :=
  ⟨rfl, multiChain_rate_bounds steps init n b k c, rfl,
   fun hc hn => multiChain_rate_overall steps init n b k c hk hc hn⟩

/-- `n_chains = 1` returns the single-chain result of lane 0 without a chain axis; any other
    `n_chains` returns the stacked result -/
theorem C18_multi_dispatch (steps : Nat → Nat → σ → σ × Bool) (init : σ) (n b k c : Nat) :
    runChain steps init n b k 1 = .single (chain (steps 0) init n b k) ∧
    (c ≠ 1 → runChain steps init n b k c = .multi (multiChain steps init n b k c)) :=
  ⟨runChain_one steps init n b k, runChain_multi steps init n b k c⟩

/-- non-vacuity of the multi-chain theorems: 3 lanes with different kernels, n=7, burn_in=1,
    thinning=3: lane rates 1/2, 1, 1/2 and overall rate 2/3 = 4 accepted of 3·2 retained steps -/
example :
    let r := multiChain (fun ci j (s : Nat) => (s + j + ci, j % (ci + 2) == 1)) 0 7 1 3 3
    r.states = [[1, 10], [3, 15], [5, 20]] ∧ r.accepts = [[true, false], [true, true], [true, false]] ∧
    r.nSteps = 2 ∧ r.chainRates = [1 / 2, 1, 1 / 2] ∧ r.rate = 2 / 3 := by decide +kernel

/-- seeded-kernel view: when application number `j` of the kernel is `kern (fold j)` (under `seed`
    the scan body gets the key `fold_in(sub_key, j)`), retained state `i` of `chain` is the state
    obtained by manually iterating the seeded kernel with the keys fold 0, …, fold (b + i·k) from
    the initial state, and the multi-chain lanes likewise with their own key streams -/
theorem C18_seeded_view {κ : Type} (kern : κ → σ → σ × Bool) (fold : Nat → κ) (init : σ)
    (n b k : Nat) (hk : 0 < k) (i : Nat)
    (hi : i < (chain (seededStep kern fold) init n b k).nSteps) :
    (chain (seededStep kern fold) init n b k).states.getD i default
      = iterKeys kern fold (b + i * k + 1) init ∧
    (chain (seededStep kern fold) init n b k).accepts.getD i false
      = (kern (fold (b + i * k)) (iterKeys kern fold (b + i * k) init)).2 := by
  obtain ⟨h1, h2⟩ := chain_slice (seededStep kern fold) init n b k hk i hi
  rw [h1, h2, iter_seeded]
  refine ⟨rfl, ?_⟩
  unfold accepted
  rw [iter_seeded]
  rfl

example : iterKeys (fun (key : Nat) (s : Nat) => (s * 2 + key, key % 2 == 0)) (fun j => 10 + j) 3 1
    = 82 := by decide

end Genjax.Chain
