import GenjaxModel.Model.Vmap
import GenjaxModel.Proofs.GfiCohInv
import GenjaxModel.Proofs.GfiWeight
import GenjaxModel.Proofs.VmapRule
import GenjaxModel.Proofs.VmapRuleNest
import GenjaxModel.Proofs.Interp
/-!
# C08 — modular_vmap and Vmap are lane-wise maps, for densities and for sampling

Two layers.
* Combinator level (`Model/Gfi.lean`): lane i of a Vmap trace is a coherent callee trace on lane i's
  arguments and the combinator's score / weights / retvals are the per-lane sums / stacks — for every
  callee, lane count and axis specification of the model (corollaries of the GFI theorems).
* Rule level (`Model/Vmap.lean`): layout of a vectorised sampling site. The repaired rule declares
  the mapped axis after the site's own sample_shape, so that after jax.vmap moves it to the front
  the result has the lane axis first, for every sample_shape and lane count; the pre-repair rule
  (always axis 0) does so only for an empty sample_shape (proved counterexample).
* Value level (`Model/VmapRule.lean`, theorems `C08_rule_*` at the end of this file): arrays as
  `shape × (index → value)`, the keyful sampler contract (ONE call returns `sample_shape ++
  broadcast(parameter shapes)`, entry at position p drawn from the parameters at the broadcast index
  of p) and the batching rule exactly as `VmapBatchHandler._handle_modular_vmap` is today (drop the
  dummy, `static_dim_length`, move every mapped axis to the front, re-build args / kwargs, extend
  `sample_shape` when nothing is mapped, one call, declared axis, `jax.vmap` moves it to the
  front).  `C08_rule_lanewise`: for every signature, positional / keyword mix, `in_axes`,
  `sample_shape` and axis size, lane i of the result is what the un-mapped site draws from lane
  i's parameter slices, at lane-specific positions of the one call (`C08_rule_one_call`,
  `C08_rule_positions_distinct`: distinct entries, hence — C07 — distinct randomness), provided all
  mapped parameters have the maximal per-lane rank.  Outside that region the open finding
  `vmap-differing-rank` is a proved counterexample (`C08_rule_differing_rank_cex`), as are the two
  repaired defects (`C08_rule_kwargs_positional_cex`: fix b0e536c, `C08_rule_axis_cex`: fix 72f5066).
  Nests of maps (`Model/VmapRuleNest.lean`: the rule applied innermost level first, `jax.vmap` of
  the deterministic `moveaxis` modelled lane-wise, the staged transposes of the enclosing program):
  `C08_rule_nest_one_level` (with one level it IS the one-level model, for every `Cfg`) and the
  evaluated instances `C08_rule_nest_examples` (a repeat inside a map and a doubly mapped site are
  lane-wise; a lane-wise scalar next to an inner-mapped vector is the second form of the open
  finding).  A general lane-wise theorem for nests is NOT proved; the nest model is tied to the
  code by the differential run only.
Independence of the lanes' draws is the sampler/PRNG contract (C07).
-/
namespace Genjax

variable {R : Type} [AddCommGroup R] (P : Prims R)

/-- lane i of a simulated Vmap trace is a coherent trace of the callee on lane i's arguments -/
theorem C08_vmap_lanes_coherent (g : GF) (axes : List Bool) (n : Nat) (args : List Val) (t : Tr R)
    (h : (GF.vmap g axes n).simulate P args = some t) :
    ∃ lanes, t = .vec lanes ∧ lanes.toList.length = n ∧
      lanesCoh (fun a t => g.Coh P a t) axes args 0 lanes.toList := by
  have hc := simulate_coh P (.vmap g axes n) args t h
  cases t with
  | vec lanes => exact ⟨lanes, rfl, by simpa [GF.Coh] using hc⟩
  | leaf _ _ => simp [GF.Coh] at hc
  | fn _ _ _ => simp [GF.Coh] at hc
  | scan _ _ => simp [GF.Coh] at hc
  | cond _ _ _ => simp [GF.Coh] at hc

/-- the combinator's score is the sum of the lane scores, its retval the stack of lane retvals -/
theorem C08_vmap_score_is_lane_sum (lanes : TrL R) :
    (Tr.vec lanes).score = lanes.scoreSum ∧ (Tr.vec lanes).retval = lanes.retvals := by
  simp [Tr.score, Tr.retval]

namespace Vmap

/-- repaired rule: after the declared axis is moved to the front the lane axis is first and the
    site's own sample_shape follows, for every sample_shape, lane count, batched or not -/
theorem C08_layout_lane_axis_first (s : Site) (n : Nat) :
    moveFront (ruleOut ⟨true⟩ s n).1 (ruleOut ⟨true⟩ s n).2 = n :: s.sampleShape := by
  unfold ruleOut moveFront
  split
  · simp [List.getD_eq_getElem?_getD, List.eraseIdx_append_of_length_le]
  · simp

/-- the declared axis is the axis that really indexes the lanes -/
theorem C08_declared_axis_is_lane_axis (s : Site) (n : Nat) :
    (ruleOut ⟨true⟩ s n).2 = laneAxis s := by
  unfold ruleOut laneAxis; split <;> simp

/-- the pre-repair rule agrees only when the site has no sample_shape of its own … -/
theorem C08_layout_asis_partial (s : Site) (n : Nat) (h : s.sampleShape = [] ∨ s.batched = false) :
    (ruleOut ⟨false⟩ s n).2 = laneAxis s := by
  unfold ruleOut laneAxis
  rcases h with h | h <;> simp [h]

/-- … and reads the first sample axis as the lane axis otherwise (proved counterexample:
    sample_shape=(5,) under a 3-lane map with batched parameters) -/
theorem C08_layout_asis_cex :
    moveFront (ruleOut ⟨false⟩ ⟨[5], true⟩ 3).1 (ruleOut ⟨false⟩ ⟨[5], true⟩ 3).2 = [5, 3] ∧
    moveFront (ruleOut ⟨true⟩ ⟨[5], true⟩ 3).1 (ruleOut ⟨true⟩ ⟨[5], true⟩ 3).2 = [3, 5] := by
  decide

end Vmap

namespace VmapRule
open Ex

variable {ν α β κ : Type} [DecidableEq ν]

/-- **the sample batching rule is lane-wise** (current code, `Cfg.spec`).  For every sampler
    signature, every positional / keyword mix of the site's parameters, every `in_axes` (each
    parameter mapped along any of its axes, or not mapped), every `sample_shape` and axis size n:
    if every mapped parameter has the maximal per-lane rank (`LaneAligned`: equal per-lane ranks,
    un-mapped parameters of at most that rank — scalars, constants) and the un-mapped site is
    defined on the lanes' slices (`laneBatchShape s = some B`: the call binds and the per-lane shapes
    broadcast to B), then the vectorised site returns an array R of shape `n :: sample_shape ++ B`
    (lane axis first) and lane i of R IS the array the un-mapped site returns on lane i's
    parameter slices, each entry drawn at the lane-specific position `p.insertIdx (laneAxis s) i`
    of the ONE sampler call: `R[i][p] = site key (p with i inserted) (slice_i params at b(p))`. -/
theorem C08_rule_lanewise (site : κ → List Nat → List (Option α) → β) (key : κ) (s : Site ν α)
    (n : Nat) (B : List Nat) (hv : s.Valid n) (hal : s.LaneAligned)
    (hB : laneBatchShape s = some B) :
    ∃ R, vmapSite Cfg.spec site key s n = some R ∧ R.shape = n :: (s.sampleShape ++ B) ∧
      ∀ i, i < n → ∃ L,
        laneDraw (fun k p v => site k (p.insertIdx (laneAxis s) i) v) key s i = some L ∧
        L.shape = s.sampleShape ++ B ∧
        ∀ p, p.length = (s.sampleShape ++ B).length → R.get (i :: p) = L.get p :=
  rule_lanewise site key s n B hv hal hB

/-- non-vacuity: `sample_shape=(2,)`, a positional parameter with `in_axes=1`, a keyword parameter
    with `in_axes=0`, a constant keyword parameter, 3 lanes — the hypotheses hold, and the result is
    (final index order (lane, s, b); each entry = (position in the one call, parameter values)) -/
example : mixed.Valid 3 ∧ mixed.LaneAligned ∧ laneBatchShape mixed = some [2] := mixed_hyps
example : ((vmapSite Cfg.spec probeSite () mixed 3).map (·.entries)).map (·.take 4) =
    some [([0, 0, 0], [some 11, some 7, some 11]), ([0, 0, 1], [some 21, some 7, some 12]),
          ([1, 0, 0], [some 11, some 7, some 11]), ([1, 0, 1], [some 21, some 7, some 12])] ∧
    (laneDraw probeSite () mixed 0).map (·.entries) =
    some [([0, 0], [some 11, some 7, some 11]), ([0, 1], [some 21, some 7, some 12]),
          ([1, 0], [some 11, some 7, some 11]), ([1, 1], [some 21, some 7, some 12])] := by decide

/-- the sampler is called ONCE; the returned array carries the lanes at axis `laneAxis s` (after the
    site's own sample_shape when a parameter is mapped, in front otherwise) and that is the axis
    the rule declares to `jax.vmap` -/
theorem C08_rule_one_call (site : κ → List Nat → List (Option α) → β) (key : κ) (s : Site ν α)
    (n : Nat) (B : List Nat) (hv : s.Valid n) (hal : s.LaneAligned)
    (hB : laneBatchShape s = some B) (hn : n ≠ 0) :
    ∃ res, rule Cfg.spec site key s n = some (res, some (laneAxis s)) ∧
      res.shape = (s.sampleShape ++ B).insertIdx (laneAxis s) n :=
  rule_one_call site key s n B hv hal hB hn

omit [DecidableEq ν] in
/-- the positions read by the lanes, `(i, p) ↦ p.insertIdx (laneAxis s) i`, are in-range entries of
    the one returned array and pairwise distinct; by `C07_vectorised_draws_distinct` (every entry of
    every sampler call of a seeded run has its own (key, position) coordinate) no two
    (lane, s, b) share randomness.  `lanePos_one_level`: for a site without parameter batch shape
    this is the position `Seed.lanePos` of the C07 model. -/
theorem C08_rule_positions_distinct (s : Site ν α) (n : Nat) (B : List Nat) :
    (∀ i p, i < n → p ∈ Seed.indices (s.sampleShape ++ B) →
      p.insertIdx (laneAxis s) i ∈ Seed.indices ((s.sampleShape ++ B).insertIdx (laneAxis s) n)) ∧
    (∀ i i' p p', p ∈ Seed.indices (s.sampleShape ++ B) → p' ∈ Seed.indices (s.sampleShape ++ B) →
      p.insertIdx (laneAxis s) i = p'.insertIdx (laneAxis s) i' → i = i' ∧ p = p') :=
  rule_positions s n B

/-- the position of lane i is the one the C07 model assigns (one level, no parameter batch shape) -/
theorem C08_rule_position_is_C07_lanePos (n i : Nat) (batched : Bool) (o : List Nat) :
    Seed.lanePos [(n, batched)] [i] o = o.insertIdx (if batched then o.length else 0) i :=
  lanePos_one_level n i batched o

/-- proved counterexample for the code BEFORE fix b0e536c (`kwargsAsKeywords = false`):
    `bernoulli(probs=p)` under a 2-lane map — the keyword parameter lands in the first positional
    slot (`logits`), the current code keeps it in its own slot -/
theorem C08_rule_kwargs_positional_cex :
    (vmapSite Cfg.preKwargs probeSite () kwOnly 2).map (·.entries) =
      some [([0], [some 1, none]), ([1], [some 2, none])] ∧
    (vmapSite Cfg.spec probeSite () kwOnly 2).map (·.entries) =
      some [([0], [none, some 1]), ([1], [none, some 2])] ∧
    (laneDraw probeSite () kwOnly 1).map (·.entries) = some [([], [none, some 2])] := by decide

/-- proved counterexample for the code BEFORE fix 72f5066 (`moveMappedAxes = false`,
    `axisAfterSampleShape = false`): a vector-per-lane parameter mapped with `in_axes=1` next to one
    mapped with `in_axes=0` — lane 0 reads row 0 `[11, 12]` of the first parameter instead of its
    column 0 `[11, 21]`; the current code pairs column i with lane i (the site is inside the
    region of `C08_rule_lanewise`) -/
theorem C08_rule_axis_cex :
    (axis1.Valid 2 ∧ axis1.LaneAligned ∧ laneBatchShape axis1 = some [2]) ∧
    (vmapSite Cfg.preAxis probeSite () axis1 2).map (·.entries) =
      some [([0, 0], [some 11, some 51]), ([0, 1], [some 12, some 52]),
            ([1, 0], [some 21, some 61]), ([1, 1], [some 22, some 62])] ∧
    (vmapSite Cfg.spec probeSite () axis1 2).map (·.entries) =
      some [([0, 0], [some 11, some 51]), ([0, 1], [some 21, some 52]),
            ([1, 0], [some 12, some 61]), ([1, 1], [some 22, some 62])] ∧
    (laneDraw probeSite () axis1 0).map (·.entries) =
      some [([0], [some 11, some 51]), ([1], [some 21, some 52])] :=
  ⟨axis1_hyps, by decide, by decide, by decide⟩

/-- the OPEN finding `vmap-differing-rank` (current code): per lane a scalar `loc` and a vector
    `scale`.  With 3 lanes and vectors of length 3 the moved shapes (3,) and (3,3) broadcast
    trailing-aligned: entry j of lane i is drawn from `loc[j]` — ANOTHER lane's parameter — where
    the un-mapped site on lane 0 uses `loc[0] = 1` throughout; with vectors of length 2 the shapes
    (3,) and (3,2) do not broadcast and the call raises although every lane's own call is fine.
    Both sites violate `LaneAligned`. -/
theorem C08_rule_differing_rank_cex :
    (vmapSite Cfg.spec probeSite () rank33 3).map (·.entries) =
      some [([0, 0], [some 1, some 11]), ([0, 1], [some 2, some 12]), ([0, 2], [some 3, some 13]),
            ([1, 0], [some 1, some 21]), ([1, 1], [some 2, some 22]), ([1, 2], [some 3, some 23]),
            ([2, 0], [some 1, some 31]), ([2, 1], [some 2, some 32]), ([2, 2], [some 3, some 33])] ∧
    (laneDraw probeSite () rank33 0).map (·.entries) =
      some [([0], [some 1, some 11]), ([1], [some 1, some 12]), ([2], [some 1, some 13])] ∧
    (vmapSite Cfg.spec probeSite () rank32 3).isNone = true ∧
    (laneDraw probeSite () rank32 0).map (·.entries) =
      some [([0], [some 1, some 11]), ([1], [some 1, some 12])] ∧
    rank33.validB 3 = true ∧ rank32.validB 3 = true ∧
    ¬ rank33.LaneAligned ∧ ¬ rank32.LaneAligned := by
  refine ⟨by decide, by decide, by decide, by decide, by decide, by decide, ?_, ?_⟩
  · rw [← alignedB_iff]; decide
  · rw [← alignedB_iff]; decide

/-- the nest model (`vmapNest`: `_handle_modular_vmap` applied innermost level first) with ONE level
    is the one-level model `vmapSite` of `C08_rule_lanewise`, for the current code and both
    pre-fix variants: same shape and entries, or both raise -/
theorem C08_rule_nest_one_level (cfg : Cfg) (site : κ → List Nat → List (Option α) → β) (key : κ)
    (s : Site ν α) (n : Nat) (B : List Nat) (hv : s.Valid n) (hB : laneBatchShape s = some B) :
    match vmapSite cfg site key s n, vmapNest cfg site key [n] s.toN with
    | some R, some R' => R'.Same R
    | none, none => True
    | _, _ => False :=
  nest_one_level cfg site key s n B hv hB

/-- evaluated nests (current code; sizes innermost first; entries in final index order, outermost
    lane first; each entry = (position in the ONE call, parameter values)):
    * a repeat (size 2) inside a 3-lane map over `a`: shape (3, 2), lane (i, j) drawn from `a[i]` at
      position (j, i) — unbatched lanes in front, batched lanes behind, as in the C07 model;
    * one parameter mapped `in_axes=1` outside and `0` inside, a keyword parameter mapped `0`/`0`,
      own `sample_shape=(2,)`: lane (2, 1) carries `(m23[1][2], m32[2][1]) = (23, 32)`, the values
      the un-mapped site gets on that lane's slices;
    * the second form of the open finding `vmap-differing-rank`: a lane-wise scalar `a` (outer map)
      next to an inner-mapped vector `w`: with |w| = 2 the moved shapes (3,) and (2,) do not
      broadcast — the call raises although every lane's own call is defined; with |w| = 3 the call
      silently returns shape (3,) pairing `a[i]` with `w[i]` instead of the 3 × 3 lanes. -/
theorem C08_rule_nest_examples :
    (vmapNest Cfg.spec probeSite () [2, 3] nestedRepeat).map (fun a => (a.shape, a.entries)) =
      some ([3, 2], [([0, 0], [some 1, some 5]), ([1, 0], [some 1, some 5]), ([0, 1], [some 2, some 5]),
                     ([1, 1], [some 2, some 5]), ([0, 2], [some 3, some 5]), ([1, 2], [some 3, some 5])]) ∧
    ((vmapNest Cfg.spec probeSite () [2, 3] nestedBoth).map (fun a => (a.shape, a.entries.drop 10))) =
      some ([3, 2, 2], [([0, 2, 1], [some 23, some 32]), ([1, 2, 1], [some 23, some 32])]) ∧
    (nestLaneDraw probeSite () nestedBoth [1, 2]).map (·.entries) =
      some [([0], [some 23, some 32]), ([1], [some 23, some 32])] ∧
    errOf (vmapNestE Cfg.spec probeSite () [2, 3] (nestedBatched w2)) = some .broadcast ∧
    (nestLaneDraw probeSite () (nestedBatched w2) [1, 2]).map (·.entries) = some [([], [some 3, some 8])] ∧
    (vmapNest Cfg.spec probeSite () [3, 3] (nestedBatched w3)).map (fun a => (a.shape, a.entries)) =
      some ([3], [([0], [some 1, some 7]), ([1], [some 2, some 8]), ([2], [some 3, some 9])]) := by
  refine ⟨by decide, by decide, by decide, by decide, by decide, by decide⟩

end VmapRule
/-- the modular_vmap interpreter with the guard of fix df67764 (Model/Interp.lean, kinds: scan / cond interpreted,
    everything else re-bound): if it returns, EVERY sampling site of the mapped function was bound with the
    vectorisation context (so none is one draw shared by the lanes); before the fix a site escaped exactly when
    a re-bound equation (jit, checkpoint, custom_jvp, while) held it -/
theorem C08_mvmap_no_site_escapes (j : Interp.J) :
    (∀ h, Interp.run j = some h → h = j.sites) ∧
    ((Interp.runOld j).2 ≠ [] ↔ Interp.run j = none) :=
  ⟨Interp.run_handles_all j, Interp.runOld_escapes_iff j⟩


end Genjax
