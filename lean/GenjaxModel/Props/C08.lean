import GenjaxModel.Model.Vmap
import GenjaxModel.Proofs.GfiCohInv
import GenjaxModel.Proofs.GfiWeight
/-!
# C08 — modular_vmap and Vmap are lane-wise maps, for densities and for sampling

Two layers.
* Combinator level (`Model/Gfi.lean`): lane i of a Vmap trace is a coherent callee trace on lane i's
  arguments and the combinator's score / weights / retvals are the per-lane sums / stacks — for every
  callee, lane count and axis specification of the model (corollaries of the GFI theorems).
* Rule level (`Model/Vmap.lean`): layout of a vectorised sampling site. The repaired rule declares
  the mapped axis after the site's own sample_shape, so that after jax.vmap moves it to the front
  the result has the lane axis first, for every sample_shape and lane count; the pre-repair rule
  (always axis 0) does so only for an empty sample_shape (proved counterexample).
Lane-wise *parameter pairing* for per-lane shapes of differing rank is an open finding (not
claimed); independence of the lanes' draws is the sampler/PRNG contract (C07).
-/
namespace Genjax

variable {R : Type} [AddCommGroup R] (P : Prims R)

/-- lane i of a simulated Vmap trace is a coherent trace of the callee on lane i's arguments -/
theorem C08_vmap_lanes_coherent (g : GF) (axes : List Bool) (n : Nat) (args : List Val) (t : Tr R)
    (h : (GF.vmap g axes n).simulate P args = some t) :
    ∃ lanes, t = .vec lanes ∧ lanes.toList.length = n ∧
      lanesCoh (fun a t => g.Coh P a t) axes args 0 lanes.toList := by
  have hc := simulate_coh P (.vmap g axes n) args t h
  cases t with
  | vec lanes => exact ⟨lanes, rfl, by simpa [GF.Coh] using hc⟩
  | leaf _ _ => simp [GF.Coh] at hc
  | fn _ _ _ => simp [GF.Coh] at hc
  | scan _ _ => simp [GF.Coh] at hc
  | cond _ _ _ => simp [GF.Coh] at hc

/-- the combinator's score is the sum of the lane scores, its retval the stack of lane retvals -/
theorem C08_vmap_score_is_lane_sum (lanes : TrL R) :
    (Tr.vec lanes).score = lanes.scoreSum ∧ (Tr.vec lanes).retval = lanes.retvals := by
  simp [Tr.score, Tr.retval]

namespace Vmap

/-- repaired rule: after the declared axis is moved to the front the lane axis is first and the
    site's own sample_shape follows, for every sample_shape, lane count, batched or not -/
theorem C08_layout_lane_axis_first (s : Site) (n : Nat) :
    moveFront (ruleOut ⟨true⟩ s n).1 (ruleOut ⟨true⟩ s n).2 = n :: s.sampleShape := by
  unfold ruleOut moveFront
  split
  · simp [List.getD_eq_getElem?_getD, List.eraseIdx_append_of_length_le]
  · simp

/-- the declared axis is the axis that really indexes the lanes -/
theorem C08_declared_axis_is_lane_axis (s : Site) (n : Nat) :
    (ruleOut ⟨true⟩ s n).2 = laneAxis s := by
  unfold ruleOut laneAxis; split <;> simp

/-- the pre-repair rule agrees only when the site has no sample_shape of its own … -/
theorem C08_layout_asis_partial (s : Site) (n : Nat) (h : s.sampleShape = [] ∨ s.batched = false) :
    (ruleOut ⟨false⟩ s n).2 = laneAxis s := by
  unfold ruleOut laneAxis
  rcases h with h | h <;> simp [h]

/-- … and reads the first sample axis as the lane axis otherwise (proved counterexample:
    sample_shape=(5,) under a 3-lane map with batched parameters) -/
theorem C08_layout_asis_cex :
    moveFront (ruleOut ⟨false⟩ ⟨[5], true⟩ 3).1 (ruleOut ⟨false⟩ ⟨[5], true⟩ 3).2 = [5, 3] ∧
    moveFront (ruleOut ⟨true⟩ ⟨[5], true⟩ 3).1 (ruleOut ⟨true⟩ ⟨[5], true⟩ 3).2 = [3, 5] := by
  decide

end Vmap
end Genjax
