import GenjaxModel.Proofs.Mcmc
import GenjaxModel.Proofs.McmcKernels
import GenjaxModel.Proofs.McmcKernelsReal
import GenjaxModel.Proofs.GfiRegenMH   -- (c09gfi block at the end of this file)
import GenjaxModel.Proofs.GfiRegenTie
import GenjaxModel.Proofs.McmcInvariance
import GenjaxModel.Proofs.GfiAssessCond
import Mathlib.Algebra.Order.Field.Rat
import Mathlib.Tactic.NormNum
/-!
# C09 — mh, mala and hmc are reversible with respect to the posterior

Partial. What is proved (any linearly ordered field, any dimension, any force field / drift):
* the accept rule `log u < min(0, w)` is the Metropolis–Hastings rule and satisfies detailed balance;
* n leapfrog steps followed by a momentum flip is an involution;
* a rejected move returns the input state;
* (kernels block, `Model/McmcKernels.lean`) the log acceptance ratio that `mala` computes — model weight
  + backward − forward Gaussian proposal log density, written as the code writes it, two-level sum over
  the leaves of the choice tree, gradient at x for the forward and at x' for the backward density — IS
  the log Metropolis–Hastings ratio [log π(x') + log q(x|x')] − [log π(x) + log q(x'|x)] of the Langevin
  kernel in unnormalised exponent form (the normalisers cancel in every dimension), and it is
  antisymmetric under exchange of x and x'; the log acceptance ratio that `hmc` computes is the energy
  difference H(x,p) − H(x',−p') along the leapfrog trajectory, antisymmetric under the involution
  (leapfrogⁿ then flip), and 0 when the integrator conserves H; over ℝ both give detailed balance of
  `min(1, exp(log alpha))` with respect to π·q resp. exp(−H).
* (invariance block, `Proofs/McmcInvariance.lean`) on every FINITE state set the kernel `mh` realises —
  accepted proposals off the diagonal, the rejection mass on the diagonal because a rejected move
  returns the input — has unit row sums, inherits detailed balance from its off-diagonal part and
  therefore leaves the target invariant after any number of steps; instantiated for the textbook MH
  kernel with non-negative (not only positive) masses and for `mh` on Cond-free GFI programs.
What stays cited mathematics, not formalised: that the Langevin proposal x + (ε²/2)∇ + ε·N(0,I) HAS the
Gaussian density exp(−|y − x − (ε²/2)∇|²/(2ε²))/(ε√(2π))ⁿ (the Gaussian density formula; C13 proves the
normal density normalised), that leapfrog preserves phase-space volume (each sub-step is a shear), and
the passage from detailed balance of densities to invariance of the posterior measure on CONTINUOUS
state spaces (the finite case is proved in the invariance block).
That the proposal actually drawn and the ratio actually applied are those of the model is established per
(state, noise, threshold) by the correspondence run with scripted internal randomness (driver commands
`mala-alpha`, `hmc-alpha` on quadratic targets), and given C03/C04 the model weights are the density ratios.
-/
namespace Genjax.Mcmc
variable {K : Type} [Field K] [LinearOrder K] [IsStrictOrderedRing K]

/-- detailed balance of the MH acceptance probability min(1, b/a) -/
theorem C09_mh_detailed_balance (a b : K) (ha : 0 < a) (hb : 0 < b) :
    a * min 1 (b / a) = b * min 1 (a / b) := mh_detailed_balance a b ha hb

/-- the code's test is exactly "log u below both 0 and the log ratio" -/
theorem C09_accept_rule (logU logW : K) :
    accept logU logW = true ↔ (logU < logW ∧ logU < 0) := accept_iff logU logW

/-- a rejected move returns the input trace unchanged, an accepted one the proposal -/
theorem C09_reject_returns_input {σ : Type} (p c : σ) :
    select false p c = c ∧ select true p c = p := select_reject p c

/-- HMC's proposal map (n leapfrog steps, then momentum flip) is an involution for every force
    field, step size, step count and dimension -/
theorem C09_leapfrog_flip_involution_partial (g : List K → List K)
    (hg : ∀ x, (g x).length = x.length) (eps : K) (n : Nat) (x p : List K)
    (hl : x.length = p.length) :
    flip (leapfrogN g eps n (flip (leapfrogN g eps n (x, p)))) = (x, p) :=
  leapfrogN_flip_involutive g hg eps n x p hl

/-! ## Kernels block: the log acceptance ratios `mala` and `hmc` compute (`Model/McmcKernels.lean`)

`c` is the Gaussian normaliser log(σ√(2π)) kept abstract; `shape` the list of leaf sizes of the selected
choice tree (the code sums per leaf, then over leaves); `logp` / `grad` the target's log density and
gradient as functions of the selected coordinates; `DimPres d grad` says `grad` maps ℝᵈ to ℝᵈ. -/

/-- the code's two-level sum (jnp.sum per leaf, tree_reduce over leaves) is the sum over all coordinates
    whenever the leaf sizes add up to the dimension -/
theorem C09_kernels_leaf_sum (shape : List Nat) (v : List K) (h : shape.sum = v.length) :
    treeSum shape v = vsum v := treeSum_eq_vsum shape v h

/-- `mala`: for ANY pair (x, x') the quantity model_weight + backward − forward that the code forms is
    the log MH ratio of the Langevin kernel written with unnormalised Gaussian exponents -/
theorem C09_mala_ratio_is_mh_ratio (c eps : K) (he : eps ≠ 0) (shape : List Nat) (logp : List K → K)
    (grad : List K → List K) (x x' : List K) (hgrad : DimPres x.length grad)
    (hx : x'.length = x.length) (hs : shape.sum = x.length) :
    malaLogRatio c eps shape logp grad x x'
      = (logp x' + langevinLogQ eps x' (grad x') x) - (logp x + langevinLogQ eps x (grad x) x') :=
  mala_ratio_is_mh_ratio c eps he shape logp grad x x' hgrad hx hs

/-- `mala`: the log alpha of the step made from the noise actually drawn is that MH ratio at the
    Langevin proposal x' = x + (ε²/2)∇(x) + ε·noise -/
theorem C09_mala_alpha_is_mh_ratio (c eps : K) (he : eps ≠ 0) (shape : List Nat) (logp : List K → K)
    (grad : List K → List K) (x noise : List K) (hgrad : DimPres x.length grad)
    (hn : noise.length = x.length) (hs : shape.sum = x.length) :
    malaLogAlpha c eps shape logp grad x noise
      = (logp (malaPropose eps x (grad x) noise)
            + langevinLogQ eps (malaPropose eps x (grad x) noise)
                (grad (malaPropose eps x (grad x) noise)) x)
        - (logp x + langevinLogQ eps x (grad x) (malaPropose eps x (grad x) noise)) :=
  mala_alpha_is_mh_ratio c eps he shape logp grad x noise hgrad hn hs

/-- `mala`: the Gaussian normaliser cancels — log alpha does not depend on `c`, in every dimension -/
theorem C09_mala_normaliser_cancels (c c' eps : K) (he : eps ≠ 0) (shape : List Nat)
    (logp : List K → K) (grad : List K → List K) (x noise : List K)
    (hgrad : DimPres x.length grad) (hn : noise.length = x.length) (hs : shape.sum = x.length) :
    malaLogAlpha c eps shape logp grad x noise = malaLogAlpha c' eps shape logp grad x noise :=
  mala_alpha_normaliser_free c c' eps he shape logp grad x noise hgrad hn hs

/-- `mala`: exchanging x and x' negates the log ratio (antisymmetry of the log MH ratio) -/
theorem C09_mala_reverse_symmetric (c eps : K) (shape : List Nat) (logp : List K → K)
    (grad : List K → List K) (x x' : List K) :
    malaLogRatio c eps shape logp grad x' x = -malaLogRatio c eps shape logp grad x x' :=
  mala_reverse_symmetric c eps shape logp grad x x'

/-- HMC's proposal map is an involution on ℝᵈ × ℝᵈ for a force field that is only required to map ℝᵈ to
    ℝᵈ.  Supersedes `C09_leapfrog_flip_involution_partial` (which asks `(g x).length = x.length` for
    lists of every length and is kept). -/
theorem C09_hmc_leapfrog_flip_involution (d : Nat) (g : List K → List K) (hg : DimPres d g) (eps : K)
    (n : Nat) (x p : List K) (hx : x.length = d) (hp : p.length = d) :
    flip (leapfrogN g eps n (flip (leapfrogN g eps n (x, p)))) = (x, p) :=
  leapfrogN_flip_involutive_d hg eps n (s := (x, p)) ⟨hx, hp⟩

/-- `hmc`: log alpha = (log π(x') − ½|p'|²) − (log π(x) − ½|p|²) with (x', p') the end of the leapfrog
    trajectory; the normalisers of the momentum density cancel -/
theorem C09_hmc_alpha_is_energy_difference (c eps : K) (n : Nat) (shape : List Nat)
    (logp : List K → K) (grad : List K → List K) (x p : List K) (hgrad : DimPres x.length grad)
    (hl : p.length = x.length) (hs : shape.sum = x.length) :
    hmcLogAlpha c eps n shape logp grad x p
      = (logp (leapfrogN grad eps n (x, p)).1 - kinetic (leapfrogN grad eps n (x, p)).2)
        - (logp x - kinetic p) :=
  hmc_alpha_is_energy_difference c eps n shape logp grad x p hgrad hl hs

/-- `hmc`: run from the proposed point (x*, p*) = flip (leapfrogⁿ (x, p)) the kernel proposes (x, p)
    back and computes the negated log alpha (H(x',−p') − H(x,p) on the reversed trajectory) -/
theorem C09_hmc_reverse_symmetric (c eps : K) (n : Nat) (shape : List Nat) (logp : List K → K)
    (grad : List K → List K) (x p : List K) (hgrad : DimPres x.length grad)
    (hl : p.length = x.length) (hs : shape.sum = x.length) :
    hmcStep c eps n shape logp grad (flip (leapfrogN grad eps n (x, p))).1
        (flip (leapfrogN grad eps n (x, p))).2
      = ((x, p), -hmcLogAlpha c eps n shape logp grad x p) :=
  hmc_reverse_symmetric c eps n shape logp grad x p hgrad hl hs

/-- `hmc`: if the integrator conserves the Hamiltonian along the run, log alpha = 0 (always accept) -/
theorem C09_hmc_exact_for_constant_energy (c eps : K) (n : Nat) (shape : List Nat)
    (logp : List K → K) (grad : List K → List K) (x p : List K) (hgrad : DimPres x.length grad)
    (hl : p.length = x.length) (hs : shape.sum = x.length)
    (hH : energy logp (leapfrogN grad eps n (x, p)) = energy logp (x, p)) :
    hmcLogAlpha c eps n shape logp grad x p = 0 :=
  hmc_exact_for_constant_energy c eps n shape logp grad x p hgrad hl hs hH

/-- the driver's quadratic targets satisfy the dimension hypothesis of the theorems above -/
theorem C09_kernels_quadratic_target_dim (A : List (List K)) (b : List K) (d : Nat)
    (hA : A.length = d) (hb : b.length = d) : DimPres d (quadGrad A b) :=
  DimPres_quadGrad A b d hA hb

/-! ### over ℝ: detailed balance of the accept probability min(1, exp(log alpha)) -/

/-- `mala`: π(x) q(x'|x) min(1, e^{α(x→x')}) = π(x') q(x|x') min(1, e^{α(x'→x)}), q the unnormalised
    Langevin Gaussian kernel, α the log alpha the code computes -/
theorem C09_mala_detailed_balance (c eps : ℝ) (he : eps ≠ 0) (shape : List Nat)
    (logp : List ℝ → ℝ) (grad : List ℝ → List ℝ) (x x' : List ℝ) (hgrad : DimPres x.length grad)
    (hx : x'.length = x.length) (hs : shape.sum = x.length) :
    Real.exp (logp x + langevinLogQ eps x (grad x) x')
        * min 1 (Real.exp (malaLogRatio c eps shape logp grad x x'))
      = Real.exp (logp x' + langevinLogQ eps x' (grad x') x)
        * min 1 (Real.exp (malaLogRatio c eps shape logp grad x' x)) :=
  mala_detailed_balance_real c eps he shape logp grad x x' hgrad hx hs

/-- `hmc`: e^{−H(s)} min(1, e^{α(s)}) = e^{−H(s*)} min(1, e^{α(s*)}) for s* = flip (leapfrogⁿ s) -/
theorem C09_hmc_detailed_balance (c eps : ℝ) (n : Nat) (shape : List Nat) (logp : List ℝ → ℝ)
    (grad : List ℝ → List ℝ) (x p : List ℝ) (hgrad : DimPres x.length grad)
    (hl : p.length = x.length) (hs : shape.sum = x.length) :
    Real.exp (-energy logp (x, p)) * min 1 (Real.exp (hmcLogAlpha c eps n shape logp grad x p))
      = Real.exp (-energy logp (flip (leapfrogN grad eps n (x, p))))
        * min 1 (Real.exp (hmcLogAlpha c eps n shape logp grad
            (flip (leapfrogN grad eps n (x, p))).1 (flip (leapfrogN grad eps n (x, p))).2)) :=
  hmc_detailed_balance_real c eps n shape logp grad x p hgrad hl hs

/-! ### non-vacuity: the hypotheses hold and the quantities are non-trivial on concrete instances (ℚ) -/

/-- the 2-d quadratic target −½(x₀² + 2x₁²) of the driver smoke test: hypotheses of the mala theorems -/
example : (1/2 : ℚ) ≠ 0 ∧ DimPres ([1, -1/2] : List ℚ).length (quadGrad ([[1, 0], [0, 2]] : List (List ℚ)) [0, 0])
    ∧ ([1/4, -3/4] : List ℚ).length = ([1, -1/2] : List ℚ).length
    ∧ ([1, 1] : List Nat).sum = ([1, -1/2] : List ℚ).length :=
  ⟨by norm_num, DimPres_quadGrad _ _ 2 rfl rfl, rfl, rfl⟩

/-- … and there the log alpha is a non-zero number that does not depend on the normaliser -/
example : malaLogAlpha (7/3 : ℚ) (1/2) [1, 1] (quadLogp 0 [[1, 0], [0, 2]] [0, 0])
      (quadGrad [[1, 0], [0, 2]] [0, 0]) [1, -1/2] [1/4, -3/4] = -5/128
    ∧ malaLogAlpha (0 : ℚ) (1/2) [2] (quadLogp 0 [[1, 0], [0, 2]] [0, 0])
      (quadGrad [[1, 0], [0, 2]] [0, 0]) [1, -1/2] [1/4, -3/4] = -5/128 := by
  decide +kernel

/-- hmc on the harmonic oscillator log π = −½x², ε = 2, from (x, p) = (1, 1): one leapfrog step lands on
    (1, −1) with the same energy, so `C09_hmc_exact_for_constant_energy` applies non-trivially … -/
example : energy (quadLogp (0 : ℚ) [[1]] [0]) (leapfrogN (quadGrad [[1]] [0]) 2 1 ([1], [1]))
      = energy (quadLogp (0 : ℚ) [[1]] [0]) ([1], [1])
    ∧ leapfrogN (quadGrad [[1]] [0]) (2 : ℚ) 1 ([1], [1]) = ([1], [-1]) := by
  decide +kernel

/-- … while from (1, 1/2) with ε = 1/4, 3 steps, the energy error is non-zero and log alpha with it -/
example : hmcLogAlpha (5 : ℚ) (1/4) 3 [1] (quadLogp 0 [[1]] [0]) (quadGrad [[1]] [0]) [1] [1/2]
    ≠ 0 := by
  decide +kernel

end Genjax.Mcmc

/-! ==============================================================================================
    BEGIN work package `c09gfi`: `mh` on generative-function programs in a PROBABILISTIC semantics
    (model `Model/GfiRegenDist.lean`; proofs `Proofs/GfiRegenLaw.lean`, `GfiRegenLink.lean`,
    `GfiRegenSplit.lean`, `GfiRegenCoh.lean`, `GfiRegenNonneg.lean`, `GfiRegenTie.lean`,
    `GfiRegenMH.lean`).

    `GF.regenerateD e pd P cfg g t s args` is `GF.regenerate` with every SELECTED Distribution site
    drawing from the finite-support distribution `pd` (outcomes: (new trace, weight, discard) or "the
    code raised"), the weight in the LINEAR domain: where the code adds `lp + old_score` the model
    multiplies `pm * e old_score` (`e : R → K` reads a stored log-domain score; the only thing asked
    of it is `hinv`: `e (-(lp)) * pm = 1` where `pm ≠ 0`, "e of the stored score is the reciprocal
    mass").  `E d φ` is the exact expectation, `optK φ` extends `φ` by 0 to "raised".
    `GF.assessS pd g x s args = some ((A, B), r)` splits the joint density `assessP` of `x` along the
    selection: `A` = product of the masses of the selected sites (`selMass`), `B` = product of the
    masses of the unselected ones (`unselMass`), `pmassOf (assessP x) = A * B`.
    `CM.eqOff s x x'`: same shape, equal values at every address the selection does not select.
    Scope: Cond-free programs (Distribution, Fn, Vmap, Scan at any depth), repaired Scan
    (`cfg.scanRegenDefined`).  NOT done: programs with Cond; invariance `Σ_x π(x) K(x → x') = π(x')`
    summed over an enumeration of choice maps; the diagonal (rejection) part of the kernel.
    ============================================================================================== -/
namespace Genjax
open Smc Smc.FinDist

section C09Gfi
variable {K : Type} [Field K]

/-- TIE of `regenerateD` to the executable `GF.regenerate`: when every primitive has the one-point
    support `[P.draw d a]` and the masses are the exponentials of the log densities, `regenerateD`
    has a single outcome: what `GF.regenerate` returns (same trace and discard, or "raises" when it
    raises) with the weight pushed through the exponential — EVERY program (Cond included), every
    `cfg`. -/
theorem C09_regenerateD_point {R : Type} [Zero R] [Add R] [Neg R] (e : R → K) (he0 : e 0 = 1)
    (hadd : ∀ a b, e (a + b) = e a * e b) (pd : PD K) (P : Prims R) (cfg : Cfg)
    (hsupp : ∀ d a, pd.support d a = [P.draw d a]) (hpm : ∀ d a v, pd.pm d a v = e (P.lp d a v))
    (g : GF) (t : Tr R) (s : Sel) (args : List Val) :
    ∃ q, g.regenerateD e pd P cfg t s args
      = [((g.regenerate P cfg t s args).map fun r => (r.1, e r.2.1, r.2.2), q)] :=
  regenerateD_point e he0 hadd pd P cfg hsupp hpm g t s args

/-- non-vacuity of the tie: integer log densities base 2 -/
example : ∃ e : ℤ → ℚ, e 0 = 1 ∧ ∀ a b, e (a + b) = e a * e b :=
  ⟨fun n => (2 : ℚ) ^ n, by simp, fun a b => zpow_add₀ (by norm_num) a b⟩

/-- THE LAW of `regenerate` (`_partial`: Cond-free): for every old trace `t` whatsoever, selection,
    (new) arguments, every choice map `x'` of the program's static shape and every function `Φ` of
    (return value, weight): `E[1{new choices = x'} · Φ(retval, weight)] = q · Φ(r, W)` where
    `((q, W), r) = regenW t s x'` is the executable kernel specification (0 when it is `none`). -/
theorem C09_regenD_law_partial {R : Type} [Zero R] [Add R] [Neg R] (e : R → K) (pd : PD K)
    (P : Prims R) (cfg : Cfg) (hpd : pd.WF) (g : GF) (hcf : g.condFree = true) (t : Tr R) (s : Sel)
    (args : List Val) (x' : CM) (Φ : Val → K → K) (hs : g.skel = some x'.skel) :
    E (g.regenerateD e pd P cfg t s args) (optK (chW x' Φ))
      = massOf2 (g.regenW e pd cfg t s x' args) Φ :=
  regenD_law e pd P cfg hpd g hcf t s args x' Φ hs

variable {R : Type} [AddCommGroup R] (e : R → K) (pd : PD K) (P : Prims R) (cfg : Cfg)

/-- THE PROPOSAL LAW (`_partial`: Cond-free).  `t`: a coherent trace in the shape the operations
    build, with choices `x`; `x'` any choice map of the program's shape.  The probability that
    `regenerate` proposes `x'` is `q(x → x')` = the product over the SELECTED sites of the mass of
    the value `x'` holds there (parameters computed from `x'`) when `x'` agrees with `x` off the
    selection, and 0 when it differs at an unselected address.  (`a`: the arguments `t` was built
    under; `args`: the arguments of the regenerate call — they may differ.) -/
theorem C09_regenD_proposal_law_partial (hpd : pd.WF) (hsr : cfg.scanRegenDefined = true) (g : GF)
    (hcf : g.condFree = true) (t : Tr R) (a : List Val) (s : Sel) (x x' : CM) (args : List Val)
    (hc : g.Coh P a t) (hcan : g.Canon t) (hx : t.choices = some x) (hs' : g.skel = some x'.skel) :
    E (g.regenerateD e pd P cfg t s args) (optK fun r => if r.1.choices = some x' then 1 else 0)
      = if CM.eqOff s x x' then selMass pd g x' s args else 0 := by
  have hs : g.skel = some x.skel := by
    rw [← canon_choices_skel P g a t hcan hc, hx]; rfl
  exact regenD_proposal_law e pd P cfg hpd hsr g hcf t a s x x' args hc hx hs hs'

/-- THE WEIGHT IS THE MH RATIO (`_partial`: Cond-free, unchanged arguments), cross-multiplied so
    that nothing is divided by zero: whenever the kernel reaches `x'` from `t` (choices `x`, whose
    unselected sites have non-zero mass) with proposal mass `q` and weight `W` — by
    `C09_regenD_law_partial` these ARE the probability of proposing `x'` and the weight reported on
    that event — then `x'` agrees with `x` off the selection, `q = q(x → x')`, and
    `W · π(x) · q(x → x') = π(x') · q(x' → x)`. -/
theorem C09_regenD_weight_partial
    (hinv : ∀ d a v, pd.pm d a v ≠ 0 → e (-(P.lp d a v)) * pd.pm d a v = 1)
    (hsr : cfg.scanRegenDefined = true) (g : GF) (hcf : g.condFree = true)
    (t : Tr R) (s : Sel) (x x' : CM) (args : List Val)
    (hc : g.Coh P args t) (hcan : g.Canon t) (hx : t.choices = some x)
    (hs' : g.skel = some x'.skel) (hne : unselMass pd g x s args ≠ 0)
    (q W : K) (r : Val) (h : g.regenW e pd cfg t s x' args = some ((q, W), r)) :
    CM.eqOff s x x' = true ∧ q = selMass pd g x' s args ∧
    W * pmassOf (g.assessP pd x args) * q
      = pmassOf (g.assessP pd x' args) * selMass pd g x s args := by
  have hs : g.skel = some x.skel := by
    rw [← canon_choices_skel P g args t hcan hc, hx]; rfl
  exact regenW_mh_ratio e pd P cfg hinv hsr g hcf t s x x' args hc hx hs hs' hne q W r h

end C09Gfi

section C09GfiDB
variable {K : Type} [Field K] [LinearOrder K] [IsStrictOrderedRing K] {R : Type} [AddCommGroup R]
variable (e : R → K) (pd : PD K) (P : Prims R) (cfg : Cfg)

/-- DETAILED BALANCE of `mh(trace, selection)` with respect to the program's joint density
    (`_partial`: Cond-free programs, unchanged arguments; off-diagonal part of the kernel).
    For any two coherent traces `t`, `t'` of the program (in the shape the operations build) with
    choice maps `x`, `x'`:
        `π(x) · K(x → x') = π(x') · K(x' → x)`,
    `π = assessP` mass, `K(x → x') = mhAcc … t … x' = E[1{regenerate proposes x'} · min(1, w)]`
    `= q(x → x') · min(1, w(x → x'))` — the statement `π(x) q(x→x') α(x→x') = π(x') q(x'→x) α(x'→x)`
    of the property, about the probabilities and the weight `regenerateD` really produces.
    Hypotheses on the primitives: `pd.WF` (support listed once, mass 0 outside), masses `≥ 0`,
    `hinv` (a stored score is the log of the reciprocal mass).  No positivity assumption on `π`.
    What is missing for the full strength of the property: programs with Cond; the rejection mass
    on the diagonal and the passage to invariance `Σ_x π(x) K(x → x') = π(x')`. -/
theorem C09_mh_gfi_detailed_balance_partial (hpd : pd.WF) (hpos : ∀ d a v, 0 ≤ pd.pm d a v)
    (hinv : ∀ d a v, pd.pm d a v ≠ 0 → e (-(P.lp d a v)) * pd.pm d a v = 1)
    (hsr : cfg.scanRegenDefined = true) (g : GF) (hcf : g.condFree = true) (s : Sel)
    (args : List Val) (t t' : Tr R) (x x' : CM)
    (hc : g.Coh P args t) (hc' : g.Coh P args t') (hcan : g.Canon t) (hcan' : g.Canon t')
    (hx : t.choices = some x) (hx' : t'.choices = some x') :
    pmassOf (g.assessP pd x args) * mhAcc e pd P cfg g t s args x'
      = pmassOf (g.assessP pd x' args) * mhAcc e pd P cfg g t' s args x := by
  have hs : g.skel = some x.skel := by
    rw [← canon_choices_skel P g args t hcan hc, hx]; rfl
  have hs' : g.skel = some x'.skel := by
    rw [← canon_choices_skel P g args t' hcan' hc', hx']; rfl
  exact mh_gfi_detailed_balance e pd P cfg hpd hpos hinv hsr g hcf s args t t' x x' hc hc' hx hx'
    hs hs'

end C09GfiDB

/-! ### non-vacuity (exact rationals; `mhExPD`: one primitive on {0,1,2,3} with masses
    1/2, 1/4, 1/8, 1/8, reversed when its parameter is non-zero; scores = integer logs base 2) -/

/-- the hypotheses on the primitives hold -/
example : mhExPD.WF ∧ (∀ d a v, 0 ≤ mhExPD.pm d a v) ∧
    (∀ d a v, mhExPD.pm d a v ≠ 0 → mhExE (-(mhExP.lp d a v)) * mhExPD.pm d a v = 1) :=
  ⟨mhExPD_wf, mhExPD_nonneg, mhEx_inv⟩

/-- the hypotheses on the traces hold for the traces `generate` builds from the two choice maps of
    the next example (coherent, canonical, with those choice maps) -/
example : ∃ tw tw' : Tr ℤ × ℤ,
    mhExG.generate mhExP Cfg.spec (some (mhExX 0 1)) [.num 0] = some tw ∧
    mhExG.generate mhExP Cfg.spec (some (mhExX 3 1)) [.num 0] = some tw' ∧
    mhExG.Coh mhExP [.num 0] tw.1 ∧ mhExG.Coh mhExP [.num 0] tw'.1 ∧
    mhExG.Canon tw.1 ∧ mhExG.Canon tw'.1 ∧
    tw.1.choices = some (mhExX 0 1) ∧ tw'.1.choices = some (mhExX 3 1) ∧
    mhExG.condFree = true := by
  refine ⟨_, _, rfl, rfl, ?_, ?_, ?_, ?_, rfl, rfl, rfl⟩
  · exact generate_coh mhExP Cfg.spec mhExG (some (mhExX 0 1)) [.num 0] _ _ rfl
  · exact generate_coh mhExP Cfg.spec mhExG (some (mhExX 3 1)) [.num 0] _ _ rfl
  · exact generate_canon mhExP Cfg.spec mhExG (some (mhExX 0 1)) [.num 0] _ _ rfl
  · exact generate_canon mhExP Cfg.spec mhExG (some (mhExX 3 1)) [.num 0] _ _ rfl

/-- two sites `x ~ D(0); y ~ D(x)`, selection `"x"`, from `{x: 0, y: 1}` to `{x: 3, y: 1}`: the
    unselected `y` keeps its value but its parameter changes, so the weight is not 1:
    `π(x) = 1/2·1/4`, `q(x→x') = 1/8`, `w = (1/8)/(1/4) = 1/2`; `π(x') = 1/8·1/8`, `q(x'→x) = 1/2`,
    `w' = 2`.  Both sides of detailed balance, computed through `regenerateD`: `1/128`. -/
example : mhDbSides mhExE mhExPD mhExP Cfg.spec mhExG (.str "x") [.num 0] (mhExX 0 1) (mhExX 3 1)
    = some (1/128, 1/128) := by decide +kernel

/-- a Scan whose step draws `a ~ D(carry); b ~ D(a)` and carries `b`; selection `"a"` (the `a` of
    every step is resampled, the `b`s are kept but their parameters change): both sides computed -/
example : mhDbSides mhExE mhExPD mhExP Cfg.spec mhExScan (.str "a") mhExScanArgs
    (mhExScanX 0 1 2 0) (mhExScanX 3 1 0 0) = some (1/16384, 1/16384) := by decide +kernel

/-- … and a pair that differs at an unselected address has kernel mass 0 in both directions -/
example : mhDbSides mhExE mhExPD mhExP Cfg.spec mhExG (.str "x") [.num 0] (mhExX 0 1) (mhExX 3 2)
    = some (0, 0) := by decide +kernel

end Genjax
/-! ==============================================================================================
    END work package `c09gfi`
    ============================================================================================== -/

/-! ==============================================================================================
    Invariance block (`Proofs/McmcInvariance.lean`): from detailed balance to the invariant
    distribution, with the rejection mass on the diagonal — every finite state set.
    ============================================================================================== -/
namespace Genjax.Mcmc
open Finset

section C09Inv
variable {K : Type} [Field K] {σ : Type} [DecidableEq σ]

/-- the kernel of "propose-and-accept, else return the input" has rows summing to 1 -/
theorem C09_rejection_kernel_row_sum (S : Finset σ) (A : σ → σ → K) (x : σ) (hx : x ∈ S) :
    ∑ y ∈ S, withRejection S A x y = 1 := withRejection_row_sum S A x hx

/-- detailed balance + unit row sums ⇒ `Σ_x π x · P x y = π y` -/
theorem C09_reversible_invariant (S : Finset σ) (P : σ → σ → K) (π : σ → K)
    (hrev : ∀ x ∈ S, ∀ y ∈ S, π x * P x y = π y * P y x) (hrow : ∀ x ∈ S, ∑ y ∈ S, P x y = 1)
    (y : σ) (hy : y ∈ S) : pushK S P π y = π y := invariant_of_reversible S P π hrev hrow y hy

/-- INVARIANCE for any kernel of the `mh` form: if the accepted-proposal part `A` is in detailed balance
    with `π` off the diagonal then `π` is unchanged by any number `n` of steps of the completed kernel -/
theorem C09_rejection_kernel_invariant (S : Finset σ) (A : σ → σ → K) (π : σ → K)
    (hA : ∀ x ∈ S, ∀ y ∈ S, x ≠ y → π x * A x y = π y * A y x) (n : Nat) (y : σ) (hy : y ∈ S) :
    (pushK S (withRejection S A))^[n] π y = π y := withRejection_invariant S A π hA n y hy

end C09Inv

section C09InvMH
variable {K : Type} [Field K] [LinearOrder K] [IsStrictOrderedRing K] {σ : Type} [DecidableEq σ]

/-- the MH accept probability balances for NON-NEGATIVE masses (zero-mass states included) -/
theorem C09_mh_detailed_balance_nonneg (a b : K) (ha : 0 ≤ a) (hb : 0 ≤ b) :
    a * min 1 (b / a) = b * min 1 (a / b) := mh_detailed_balance_nonneg a b ha hb

/-- the full Metropolis–Hastings kernel (any target `π ≥ 0`, any proposal `q ≥ 0`, any finite state set):
    a stochastic matrix, reversible, with `π` invariant after any number of steps -/
theorem C09_mh_kernel_invariant (S : Finset σ) (π : σ → K) (q : σ → σ → K) (hπ : ∀ x, 0 ≤ π x)
    (hq : ∀ x y, 0 ≤ q x y) :
    (∀ x ∈ S, ∑ y ∈ S, mhKernel S π q x y = 1) ∧
    (∀ x ∈ S, ∀ y ∈ S, π x * mhKernel S π q x y = π y * mhKernel S π q y x) ∧
    ((∀ x ∈ S, ∑ y ∈ S, q x y ≤ 1) → ∀ x ∈ S, ∀ y, 0 ≤ mhKernel S π q x y) ∧
    (∀ n : Nat, ∀ y ∈ S, (pushK S (mhKernel S π q))^[n] π y = π y) :=
  ⟨fun x hx => mhKernel_row_sum S π q x hx,
   fun x hx y hy => mhKernel_reversible S π q hπ hq x y hx hy,
   fun hrow x hx y => mhKernel_nonneg S π q hπ hq hrow x y hx,
   fun n y hy => mhKernel_invariant S π q hπ hq n y hy⟩

/-- non-vacuity: 3 states, target (1/2, 1/3, 1/6), proposal "uniform over the other two" — one step of the
    completed kernel from the target returns the target, computed -/
example : (List.range 3).map (fun y => pushK (Finset.range 3)
      (mhKernel (Finset.range 3) (fun x => if x = 0 then (1/2 : ℚ) else if x = 1 then 1/3 else 1/6)
        (fun x y => if x = y then 0 else 1/2))
      (fun x => if x = 0 then (1/2 : ℚ) else if x = 1 then 1/3 else 1/6) y) = [1/2, 1/3, 1/6] := by
  decide +kernel

end C09InvMH
end Genjax.Mcmc

namespace Genjax
open Smc Smc.FinDist Mcmc

section C09GfiInv
variable {K : Type} [Field K] [LinearOrder K] [IsStrictOrderedRing K] {R : Type} [AddCommGroup R]
variable (e : R → K) (pd : PD K) (P : Prims R) (cfg : Cfg) [DecidableEq CM]

/-- INVARIANCE of `mh(trace, selection)` on a generative-function program (`_partial`: Cond-free,
    unchanged arguments): for every finite set `S` of choice maps, each carried by a coherent trace
    `tr x` in the shape the operations build, the kernel whose off-diagonal entries are the
    accepted-proposal masses `mhAcc … (tr x) … x'` that `regenerateD` really produces, completed by the
    rejection mass (a rejected `mh` returns the input trace), leaves the program's joint density
    `assessP` invariant on `S` after any number of steps.  What is missing for the full strength of
    the property: programs with Cond; that `S` is closed under the proposal (then the completed kernel
    on `S` is the whole kernel) is a hypothesis the user of the theorem supplies by taking `S` = all
    choice maps of the program's shape over the primitives' finite supports. -/
theorem C09_mh_gfi_invariant_partial (hpd : pd.WF) (hpos : ∀ d a v, 0 ≤ pd.pm d a v)
    (hinv : ∀ d a v, pd.pm d a v ≠ 0 → e (-(P.lp d a v)) * pd.pm d a v = 1)
    (hsr : cfg.scanRegenDefined = true) (g : GF) (hcf : g.condFree = true) (s : Sel)
    (args : List Val) (S : Finset CM) (tr : CM → Tr R)
    (htr : ∀ x ∈ S, g.Coh P args (tr x) ∧ g.Canon (tr x) ∧ (tr x).choices = some x)
    (n : Nat) (y : CM) (hy : y ∈ S) :
    (pushK S (withRejection S fun x x' => mhAcc e pd P cfg g (tr x) s args x'))^[n]
        (fun x => pmassOf (g.assessP pd x args)) y
      = pmassOf (g.assessP pd y args) := by
  apply withRejection_invariant S _ (fun x => pmassOf (g.assessP pd x args))
  · intro x hx x' hx' _
    obtain ⟨hc, hcan, hch⟩ := htr x hx
    obtain ⟨hc', hcan', hch'⟩ := htr x' hx'
    exact C09_mh_gfi_detailed_balance_partial e pd P cfg hpd hpos hinv hsr g hcf s args (tr x) (tr x')
      x x' hc hc' hcan hcan' hch hch'
  · exact hy

end C09GfiInv
end Genjax
