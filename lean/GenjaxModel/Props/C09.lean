import GenjaxModel.Proofs.Mcmc
/-!
# C09 — mh, mala and hmc are reversible with respect to the posterior

Partial. What is proved (any linearly ordered field, any dimension, any force field):
* the accept rule `log u < min(0, w)` is the Metropolis–Hastings rule and satisfies detailed balance;
* n leapfrog steps followed by a momentum flip is an involution (the reversibility HMC's proposal
  needs; volume preservation of leapfrog — each sub-step is a shear — and the Gaussian proposal
  density of MALA are standard mathematics, cited, not formalised);
* a rejected move returns the input state.
That the proposal actually drawn and the ratio actually applied are those of the MH rule for the
stated proposals is established per (state, noise, threshold) by the correspondence run with
scripted internal randomness, and given C03/C04 the model weights are the density ratios.
-/
namespace Genjax.Mcmc
variable {K : Type} [Field K] [LinearOrder K] [IsStrictOrderedRing K]

/-- detailed balance of the MH acceptance probability min(1, b/a) -/
theorem C09_mh_detailed_balance (a b : K) (ha : 0 < a) (hb : 0 < b) :
    a * min 1 (b / a) = b * min 1 (a / b) := mh_detailed_balance a b ha hb

/-- the code's test is exactly "log u below both 0 and the log ratio" -/
theorem C09_accept_rule (logU logW : K) :
    accept logU logW = true ↔ (logU < logW ∧ logU < 0) := accept_iff logU logW

/-- a rejected move returns the input trace unchanged, an accepted one the proposal -/
theorem C09_reject_returns_input {σ : Type} (p c : σ) :
    select false p c = c ∧ select true p c = p := select_reject p c

/-- HMC's proposal map (n leapfrog steps, then momentum flip) is an involution for every force
    field, step size, step count and dimension -/
theorem C09_leapfrog_flip_involution_partial (g : List K → List K)
    (hg : ∀ x, (g x).length = x.length) (eps : K) (n : Nat) (x p : List K)
    (hl : x.length = p.length) :
    flip (leapfrogN g eps n (flip (leapfrogN g eps n (x, p)))) = (x, p) :=
  leapfrogN_flip_involutive g hg eps n x p hl

end Genjax.Mcmc
