import GenjaxModel.Proofs.Mcmc
import GenjaxModel.Proofs.McmcKernels
import GenjaxModel.Proofs.McmcKernelsReal
import Mathlib.Algebra.Order.Field.Rat
import Mathlib.Tactic.NormNum
/-!
# C09 — mh, mala and hmc are reversible with respect to the posterior

Partial. What is proved (any linearly ordered field, any dimension, any force field / drift):
* the accept rule `log u < min(0, w)` is the Metropolis–Hastings rule and satisfies detailed balance;
* n leapfrog steps followed by a momentum flip is an involution;
* a rejected move returns the input state;
* (kernels block, `Model/McmcKernels.lean`) the log acceptance ratio that `mala` computes — model weight
  + backward − forward Gaussian proposal log density, written as the code writes it, two-level sum over
  the leaves of the choice tree, gradient at x for the forward and at x' for the backward density — IS
  the log Metropolis–Hastings ratio [log π(x') + log q(x|x')] − [log π(x) + log q(x'|x)] of the Langevin
  kernel in unnormalised exponent form (the normalisers cancel in every dimension), and it is
  antisymmetric under exchange of x and x'; the log acceptance ratio that `hmc` computes is the energy
  difference H(x,p) − H(x',−p') along the leapfrog trajectory, antisymmetric under the involution
  (leapfrogⁿ then flip), and 0 when the integrator conserves H; over ℝ both give detailed balance of
  `min(1, exp(log alpha))` with respect to π·q resp. exp(−H).
What stays cited mathematics, not formalised: that the Langevin proposal x + (ε²/2)∇ + ε·N(0,I) HAS the
Gaussian density exp(−|y − x − (ε²/2)∇|²/(2ε²))/(ε√(2π))ⁿ (the Gaussian density formula; C13 proves the
normal density normalised), that leapfrog preserves phase-space volume (each sub-step is a shear), and
the passage from detailed balance of densities to invariance of the posterior measure.
That the proposal actually drawn and the ratio actually applied are those of the model is established per
(state, noise, threshold) by the correspondence run with scripted internal randomness (driver commands
`mala-alpha`, `hmc-alpha` on quadratic targets), and given C03/C04 the model weights are the density ratios.
-/
namespace Genjax.Mcmc
variable {K : Type} [Field K] [LinearOrder K] [IsStrictOrderedRing K]

/-- detailed balance of the MH acceptance probability min(1, b/a) -/
theorem C09_mh_detailed_balance (a b : K) (ha : 0 < a) (hb : 0 < b) :
    a * min 1 (b / a) = b * min 1 (a / b) := mh_detailed_balance a b ha hb

/-- the code's test is exactly "log u below both 0 and the log ratio" -/
theorem C09_accept_rule (logU logW : K) :
    accept logU logW = true ↔ (logU < logW ∧ logU < 0) := accept_iff logU logW

/-- a rejected move returns the input trace unchanged, an accepted one the proposal -/
theorem C09_reject_returns_input {σ : Type} (p c : σ) :
    select false p c = c ∧ select true p c = p := select_reject p c

/-- HMC's proposal map (n leapfrog steps, then momentum flip) is an involution for every force
    field, step size, step count and dimension -/
theorem C09_leapfrog_flip_involution_partial (g : List K → List K)
    (hg : ∀ x, (g x).length = x.length) (eps : K) (n : Nat) (x p : List K)
    (hl : x.length = p.length) :
    flip (leapfrogN g eps n (flip (leapfrogN g eps n (x, p)))) = (x, p) :=
  leapfrogN_flip_involutive g hg eps n x p hl

/-! ## Kernels block: the log acceptance ratios `mala` and `hmc` compute (`Model/McmcKernels.lean`)

`c` is the Gaussian normaliser log(σ√(2π)) kept abstract; `shape` the list of leaf sizes of the selected
choice tree (the code sums per leaf, then over leaves); `logp` / `grad` the target's log density and
gradient as functions of the selected coordinates; `DimPres d grad` says `grad` maps ℝᵈ to ℝᵈ. -/

/-- the code's two-level sum (jnp.sum per leaf, tree_reduce over leaves) is the sum over all coordinates
    whenever the leaf sizes add up to the dimension -/
theorem C09_kernels_leaf_sum (shape : List Nat) (v : List K) (h : shape.sum = v.length) :
    treeSum shape v = vsum v := treeSum_eq_vsum shape v h

/-- `mala`: for ANY pair (x, x') the quantity model_weight + backward − forward that the code forms is
    the log MH ratio of the Langevin kernel written with unnormalised Gaussian exponents -/
theorem C09_mala_ratio_is_mh_ratio (c eps : K) (he : eps ≠ 0) (shape : List Nat) (logp : List K → K)
    (grad : List K → List K) (x x' : List K) (hgrad : DimPres x.length grad)
    (hx : x'.length = x.length) (hs : shape.sum = x.length) :
    malaLogRatio c eps shape logp grad x x'
      = (logp x' + langevinLogQ eps x' (grad x') x) - (logp x + langevinLogQ eps x (grad x) x') :=
  mala_ratio_is_mh_ratio c eps he shape logp grad x x' hgrad hx hs

/-- `mala`: the log alpha of the step made from the noise actually drawn is that MH ratio at the
    Langevin proposal x' = x + (ε²/2)∇(x) + ε·noise -/
theorem C09_mala_alpha_is_mh_ratio (c eps : K) (he : eps ≠ 0) (shape : List Nat) (logp : List K → K)
    (grad : List K → List K) (x noise : List K) (hgrad : DimPres x.length grad)
    (hn : noise.length = x.length) (hs : shape.sum = x.length) :
    malaLogAlpha c eps shape logp grad x noise
      = (logp (malaPropose eps x (grad x) noise)
            + langevinLogQ eps (malaPropose eps x (grad x) noise)
                (grad (malaPropose eps x (grad x) noise)) x)
        - (logp x + langevinLogQ eps x (grad x) (malaPropose eps x (grad x) noise)) :=
  mala_alpha_is_mh_ratio c eps he shape logp grad x noise hgrad hn hs

/-- `mala`: the Gaussian normaliser cancels — log alpha does not depend on `c`, in every dimension -/
theorem C09_mala_normaliser_cancels (c c' eps : K) (he : eps ≠ 0) (shape : List Nat)
    (logp : List K → K) (grad : List K → List K) (x noise : List K)
    (hgrad : DimPres x.length grad) (hn : noise.length = x.length) (hs : shape.sum = x.length) :
    malaLogAlpha c eps shape logp grad x noise = malaLogAlpha c' eps shape logp grad x noise :=
  mala_alpha_normaliser_free c c' eps he shape logp grad x noise hgrad hn hs

/-- `mala`: exchanging x and x' negates the log ratio (antisymmetry of the log MH ratio) -/
theorem C09_mala_reverse_symmetric (c eps : K) (shape : List Nat) (logp : List K → K)
    (grad : List K → List K) (x x' : List K) :
    malaLogRatio c eps shape logp grad x' x = -malaLogRatio c eps shape logp grad x x' :=
  mala_reverse_symmetric c eps shape logp grad x x'

/-- HMC's proposal map is an involution on ℝᵈ × ℝᵈ for a force field that is only required to map ℝᵈ to
    ℝᵈ.  Supersedes `C09_leapfrog_flip_involution_partial` (which asks `(g x).length = x.length` for
    lists of every length and is kept). -/
theorem C09_hmc_leapfrog_flip_involution (d : Nat) (g : List K → List K) (hg : DimPres d g) (eps : K)
    (n : Nat) (x p : List K) (hx : x.length = d) (hp : p.length = d) :
    flip (leapfrogN g eps n (flip (leapfrogN g eps n (x, p)))) = (x, p) :=
  leapfrogN_flip_involutive_d hg eps n (s := (x, p)) ⟨hx, hp⟩

/-- `hmc`: log alpha = (log π(x') − ½|p'|²) − (log π(x) − ½|p|²) with (x', p') the end of the leapfrog
    trajectory; the normalisers of the momentum density cancel -/
theorem C09_hmc_alpha_is_energy_difference (c eps : K) (n : Nat) (shape : List Nat)
    (logp : List K → K) (grad : List K → List K) (x p : List K) (hgrad : DimPres x.length grad)
    (hl : p.length = x.length) (hs : shape.sum = x.length) :
    hmcLogAlpha c eps n shape logp grad x p
      = (logp (leapfrogN grad eps n (x, p)).1 - kinetic (leapfrogN grad eps n (x, p)).2)
        - (logp x - kinetic p) :=
  hmc_alpha_is_energy_difference c eps n shape logp grad x p hgrad hl hs

/-- `hmc`: run from the proposed point (x*, p*) = flip (leapfrogⁿ (x, p)) the kernel proposes (x, p)
    back and computes the negated log alpha (H(x',−p') − H(x,p) on the reversed trajectory) -/
theorem C09_hmc_reverse_symmetric (c eps : K) (n : Nat) (shape : List Nat) (logp : List K → K)
    (grad : List K → List K) (x p : List K) (hgrad : DimPres x.length grad)
    (hl : p.length = x.length) (hs : shape.sum = x.length) :
    hmcStep c eps n shape logp grad (flip (leapfrogN grad eps n (x, p))).1
        (flip (leapfrogN grad eps n (x, p))).2
      = ((x, p), -hmcLogAlpha c eps n shape logp grad x p) :=
  hmc_reverse_symmetric c eps n shape logp grad x p hgrad hl hs

/-- `hmc`: if the integrator conserves the Hamiltonian along the run, log alpha = 0 (always accept) -/
theorem C09_hmc_exact_for_constant_energy (c eps : K) (n : Nat) (shape : List Nat)
    (logp : List K → K) (grad : List K → List K) (x p : List K) (hgrad : DimPres x.length grad)
    (hl : p.length = x.length) (hs : shape.sum = x.length)
    (hH : energy logp (leapfrogN grad eps n (x, p)) = energy logp (x, p)) :
    hmcLogAlpha c eps n shape logp grad x p = 0 :=
  hmc_exact_for_constant_energy c eps n shape logp grad x p hgrad hl hs hH

/-- the driver's quadratic targets satisfy the dimension hypothesis of the theorems above -/
theorem C09_kernels_quadratic_target_dim (A : List (List K)) (b : List K) (d : Nat)
    (hA : A.length = d) (hb : b.length = d) : DimPres d (quadGrad A b) :=
  DimPres_quadGrad A b d hA hb

/-! ### over ℝ: detailed balance of the accept probability min(1, exp(log alpha)) -/

/-- `mala`: π(x) q(x'|x) min(1, e^{α(x→x')}) = π(x') q(x|x') min(1, e^{α(x'→x)}), q the unnormalised
    Langevin Gaussian kernel, α the log alpha the code computes -/
theorem C09_mala_detailed_balance (c eps : ℝ) (he : eps ≠ 0) (shape : List Nat)
    (logp : List ℝ → ℝ) (grad : List ℝ → List ℝ) (x x' : List ℝ) (hgrad : DimPres x.length grad)
    (hx : x'.length = x.length) (hs : shape.sum = x.length) :
    Real.exp (logp x + langevinLogQ eps x (grad x) x')
        * min 1 (Real.exp (malaLogRatio c eps shape logp grad x x'))
      = Real.exp (logp x' + langevinLogQ eps x' (grad x') x)
        * min 1 (Real.exp (malaLogRatio c eps shape logp grad x' x)) :=
  mala_detailed_balance_real c eps he shape logp grad x x' hgrad hx hs

/-- `hmc`: e^{−H(s)} min(1, e^{α(s)}) = e^{−H(s*)} min(1, e^{α(s*)}) for s* = flip (leapfrogⁿ s) -/
theorem C09_hmc_detailed_balance (c eps : ℝ) (n : Nat) (shape : List Nat) (logp : List ℝ → ℝ)
    (grad : List ℝ → List ℝ) (x p : List ℝ) (hgrad : DimPres x.length grad)
    (hl : p.length = x.length) (hs : shape.sum = x.length) :
    Real.exp (-energy logp (x, p)) * min 1 (Real.exp (hmcLogAlpha c eps n shape logp grad x p))
      = Real.exp (-energy logp (flip (leapfrogN grad eps n (x, p))))
        * min 1 (Real.exp (hmcLogAlpha c eps n shape logp grad
            (flip (leapfrogN grad eps n (x, p))).1 (flip (leapfrogN grad eps n (x, p))).2)) :=
  hmc_detailed_balance_real c eps n shape logp grad x p hgrad hl hs

/-! ### non-vacuity: the hypotheses hold and the quantities are non-trivial on concrete instances (ℚ) -/

/-- the 2-d quadratic target −½(x₀² + 2x₁²) of the driver smoke test: hypotheses of the mala theorems -/
example : (1/2 : ℚ) ≠ 0 ∧ DimPres ([1, -1/2] : List ℚ).length (quadGrad ([[1, 0], [0, 2]] : List (List ℚ)) [0, 0])
    ∧ ([1/4, -3/4] : List ℚ).length = ([1, -1/2] : List ℚ).length
    ∧ ([1, 1] : List Nat).sum = ([1, -1/2] : List ℚ).length :=
  ⟨by norm_num, DimPres_quadGrad _ _ 2 rfl rfl, rfl, rfl⟩

/-- … and there the log alpha is a non-zero number that does not depend on the normaliser -/
example : malaLogAlpha (7/3 : ℚ) (1/2) [1, 1] (quadLogp 0 [[1, 0], [0, 2]] [0, 0])
      (quadGrad [[1, 0], [0, 2]] [0, 0]) [1, -1/2] [1/4, -3/4] = -5/128
    ∧ malaLogAlpha (0 : ℚ) (1/2) [2] (quadLogp 0 [[1, 0], [0, 2]] [0, 0])
      (quadGrad [[1, 0], [0, 2]] [0, 0]) [1, -1/2] [1/4, -3/4] = -5/128 := by
  decide +kernel

/-- hmc on the harmonic oscillator log π = −½x², ε = 2, from (x, p) = (1, 1): one leapfrog step lands on
    (1, −1) with the same energy, so `C09_hmc_exact_for_constant_energy` applies non-trivially … -/
example : energy (quadLogp (0 : ℚ) [[1]] [0]) (leapfrogN (quadGrad [[1]] [0]) 2 1 ([1], [1]))
      = energy (quadLogp (0 : ℚ) [[1]] [0]) ([1], [1])
    ∧ leapfrogN (quadGrad [[1]] [0]) (2 : ℚ) 1 ([1], [1]) = ([1], [-1]) := by
  decide +kernel

/-- … while from (1, 1/2) with ε = 1/4, 3 steps, the energy error is non-zero and log alpha with it -/
example : hmcLogAlpha (5 : ℚ) (1/4) 3 [1] (quadLogp 0 [[1]] [0]) (quadGrad [[1]] [0]) [1] [1/2]
    ≠ 0 := by
  decide +kernel

end Genjax.Mcmc
