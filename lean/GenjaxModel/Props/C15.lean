import GenjaxModel.Proofs.Adev
/-!
# C15 — on deterministic code ADEV is ordinary forward-mode AD

Partial. Model `Model/AdevDet.lean`: straight-line programs (const/add/sub/mul/neg/cond) over dual
numbers; the ADEV interpreter is continuation-passing, forward-mode AD is a left fold. Proved for
every program and environment. The per-primitive JVP rules, tangent shapes, float0/symbolic-zero
handling and dtype conversions are JAX's / runtime behaviour: they are exercised by the corpus of
the correspondence run against jax.jvp / jax.grad, not modelled.
-/
namespace Genjax.Adev
variable {K : Type} [Field K] [LinearOrder K]

theorem C15_adev_is_forward_mode_partial (es : List (Eqn K)) (env : List (Dual K)) :
    adevEval id es env = jvpEval es env := adev_det_eq_jvp es env

/-- with any final continuation (e.g. the rest of a program after a deterministic block) -/
theorem C15_adev_continuation_partial (kont : Dual K → Dual K) (es : List (Eqn K)) (env : List (Dual K)) :
    adevEval kont es env = kont (jvpEval es env) := adev_det_kont kont es env

theorem C15_dual_arithmetic_rules (a b : Dual K) :
    (Dual.add a b).d = a.d + b.d ∧ (Dual.mul a b).d = a.d * b.v + a.v * b.d ∧ (Dual.neg a).d = -a.d :=
  dual_rules a b

end Genjax.Adev
