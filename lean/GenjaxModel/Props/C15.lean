import GenjaxModel.Proofs.Adev
import GenjaxModel.Proofs.AdevDet2Table
/-!
# C15 — on deterministic code ADEV is ordinary forward-mode AD

Two models.

1. `Model/AdevDet.lean` (first part of this file): straight-line programs (const/add/sub/mul/neg/cond)
   over dual numbers; the ADEV interpreter is continuation-passing, forward-mode AD is a left fold.
   Proved for every program and environment.

2. `Model/AdevDet2.lean` (second part, `C15_adev2_…`): the interpreter's default branch as it is
   written (src/genjax/adev/__init__.py:603-642) - values tagged float | discrete, discrete values
   with float0 tangents canonicalised to the symbolic AD zero, tangents `zero | tan d`, rules that
   receive and return symbolic zeros, instantiation of the returned zeros, the nullary case, the
   "ALL input tangents are symbolic zeros => primal only" fast path as a `Cfg` field (with the two
   seeded wrong conditions as further values of that field), primitives from a table with SEVERAL
   outputs of mixed kind, `call` (pjit) and `fori` (scan with static trip count, carry mixing a
   counter and float state) as ONE multi-output equation whose JVP rule is JAX's forward mode of the
   body, and `cond` on a discrete predicate in continuation-passing style with the rest of the program
   as the continuation of either branch. Proved: for every program, environment and continuation the
   interpreter with the correct fast-path condition equals the reference forward mode (symbolic zero
   read as 0); the wrong conditions have proved counterexamples (the Lean witnesses of seeded C15_2 /
   C11_1 and C15_3, replayed on the implementation by the harness); discrete values never carry a
   tangent; a loop is the n-fold composition of its body in every semantics.

What remains JAX's (assumed, exercised by the correspondence run against jax.jvp / jax.grad, not
proved): the per-primitive JVP rules themselves. The theorems need of a rule only `Prim.Lawful`
(primal outputs = value, one tangent per output, a symbolic zero means 0, zero tangents in give zero
tangents out, discrete outputs get float0); `lawful_needed_cex` shows this cannot be dropped. For the
standard table (arithmetic, division, abstract smooth / piecewise-constant / discretising functions,
select, comparisons, integer arithmetic, int->float, mixed two-output primitives) and for `call` /
`fori` lawfulness is PROVED, so `C15_adev2_is_forward_mode_table` has no hypothesis on primitives.
Not modelled: tangent SHAPES (array-valued programs), dtype conversions between float widths, complex
intermediates (seeded C15_1 - caught by the corpus of the correspondence run only), `cond` branches
with several outputs (the implementation raises on those: `(out_dual,) = …`).
-/
namespace Genjax.Adev
variable {K : Type} [Field K] [LinearOrder K]

theorem C15_adev_is_forward_mode_partial (es : List (Eqn K)) (env : List (Dual K)) :
    adevEval id es env = jvpEval es env := adev_det_eq_jvp es env

/-- with any final continuation (e.g. the rest of a program after a deterministic block) -/
theorem C15_adev_continuation_partial (kont : Dual K → Dual K) (es : List (Eqn K)) (env : List (Dual K)) :
    adevEval kont es env = kont (jvpEval es env) := adev_det_kont kont es env

theorem C15_dual_arithmetic_rules (a b : Dual K) :
    (Dual.add a b).d = a.d + b.d ∧ (Dual.mul a b).d = a.d * b.v + a.v * b.d ∧ (Dual.neg a).d = -a.d :=
  dual_rules a b

end Genjax.Adev

namespace Genjax.Adev2
variable {K : Type} [Field K] [LinearOrder K] {P : Type}

/-- Richer language, full statement. For every program `p` over primitives whose JVP rules are lawful,
    every `Cfg` with the correct fast-path condition, every environment whose discrete entries have
    tangent 0, and every output index: `jvp_estimate` (CPS interpreter with symbolic zeros, float0
    canonicalisation, fast path, multi-output equations, call / fori / cond) returns the primal and
    - reading a symbolic zero as 0 - the tangent of `jax.jvp`. Supersedes
    `C15_adev_is_forward_mode_partial` (which stays: it is about `Model/AdevDet.lean`). -/
theorem C15_adev2_is_forward_mode (cfg : Cfg) (hc : cfg.Good) (sem : P → Prim K) (hl : ∀ p, (sem p).Lawful)
    (p : Prog P) (out : Nat) (env : List (DV K)) (h : WFJ (env.map DV.toRD)) :
    (adevRun cfg sem p out env).toRD = jvpRun sem p out (env.map DV.toRD) :=
  adev2_eq_jvp cfg hc sem hl p out env h

/-- … with any final continuation (the rest of a program after a deterministic block) -/
theorem C15_adev2_continuation {R : Type} (cfg : Cfg) (hc : cfg.Good) (sem : P → Prim K)
    (hl : ∀ p, (sem p).Lawful) (kontA : List (DV K) → R) (kontJ : List (RD K) → R)
    (hk : ∀ env, kontA env = kontJ (env.map DV.toRD)) (p : Prog P) (env : List (DV K))
    (h : WFJ (env.map DV.toRD)) :
    evalAProg cfg sem kontA p env = kontJ (evalJProg sem p (env.map DV.toRD)) :=
  adev2_eq_jvp_kont cfg hc sem hl kontA kontJ hk p env h

/-- the continuation hypothesis is satisfiable: any continuation of the reference semantics, precomposed
    with "read symbolic zeros as 0"; e.g. "return the tangent of the last value" -/
example : ∀ env : List (DV Rat),
    (fun e : List (DV Rat) => ((e.map DV.toRD).getLastD default).d) env = (fun e : List (RD Rat) => (e.getLastD default).d) (env.map DV.toRD) :=
  fun _ => rfl

/-- … and for every program over the standard table, whatever its abstract functions are, with no
    hypothesis on the primitives -/
theorem C15_adev2_is_forward_mode_table (T : Table K) (cfg : Cfg) (hc : cfg.Good) (p : Prog (Op K)) (out : Nat)
    (env : List (DV K)) (h : WFJ (env.map DV.toRD)) :
    (adevRun cfg (Op.prim T) p out env).toRD = jvpRun (Op.prim T) p out (env.map DV.toRD) :=
  adev2_eq_jvp_table T cfg hc p out env h

/-- the hypotheses are satisfiable on a non-trivial instance (`where` on a comparison, the code's
    configuration), and the conclusion can be computed there: value 9/8, tangent 9/4 -/
example : Cfg.code.Good ∧ WFA whereEnv ∧
    (adevRun Cfg.code (Op.prim Table.rat) whereProg 5 whereEnv).toRD = ⟨.flt (9/8), 9/4⟩ :=
  ⟨by decide, by intro x hx hd; simp [whereEnv] at hx; rcases hx with rfl | rfl <;> simp [Val.isDis] at hd,
   by decide +kernel⟩

/-- one equation: the interpreter's default branch = the primitive's JVP rule on materialised tangents -/
theorem C15_adev2_step (cfg : Cfg) (hc : cfg.Good) (p : Prim K) (hp : p.Lawful) (args : List (DV K)) :
    (stepA cfg p args).map DV.toRD = stepJ p (args.map DV.toRD) := stepA_toRD cfg hc p hp args

/-- the standard table is lawful, and so are `call` and `fori` equations over lawful primitives -/
theorem C15_adev2_table_lawful (T : Table K) (o : Op K) : (Op.prim T o).Lawful := Op.prim_lawful T o

theorem C15_adev2_call_loop_lawful (sem : P → Prim K) (hl : ∀ p, (sem p).Lawful) (n nc : Nat) (body : Prog P)
    (outs : List Nat) : (callPrim sem body outs).Lawful ∧ (loopPrim sem n nc body outs).Lawful :=
  ⟨callPrim_lawful sem hl body outs, loopPrim_lawful sem hl n nc body outs⟩

/-- the continuation-passing interpreter computes its direct-style twin, under every configuration -/
theorem C15_adev2_cps_is_direct {R : Type} (cfg : Cfg) (sem : P → Prim K) (p : Prog P)
    (kont : List (DV K) → R) (env : List (DV K)) :
    evalAProg cfg sem kont p env = kont (runAProg cfg sem p env) := evalAProg_eq cfg sem p kont env

/-- Lean witness of seeded C15_2 / C11_1: with "ANY input tangent is a symbolic zero ⇒ primal only"
    `where(x > y, x * y, x - y)` at (3/2, 3/4), tangents (1, 1), gets tangent 0 instead of 9/4 -/
theorem C15_fast_path_any_cex :
    (adevRun Cfg.anyZero (Op.prim Table.rat) whereProg 5 whereEnv).toRD = ⟨.flt (9/8), 0⟩ ∧
    jvpRun (Op.prim Table.rat) whereProg 5 (whereEnv.map DV.toRD) = ⟨.flt (9/8), 9/4⟩ ∧
    (adevRun Cfg.anyZero (Op.prim Table.rat) whereProg 5 whereEnv).toRD ≠
      jvpRun (Op.prim Table.rat) whereProg 5 (whereEnv.map DV.toRD) := fast_path_any_cex

/-- Lean witness of seeded C15_3: with "any discrete OUTPUT ⇒ primal only" a loop with carry
    `(counter, value)` gets tangent 0 instead of 31/4 and a two-output primitive `(index, value)`
    tangent 0 instead of 10 -/
theorem C15_mixed_output_primal_only_cex :
    ((adevRun Cfg.discreteOut (Op.prim Table.rat) counterLoopProg 4 counterLoopEnv).toRD = ⟨.flt (55/8), 0⟩ ∧
     jvpRun (Op.prim Table.rat) counterLoopProg 4 (counterLoopEnv.map DV.toRD) = ⟨.flt (55/8), 31/4⟩) ∧
    ((adevRun Cfg.discreteOut (Op.prim Table.rat) mixedProg 4 mixedEnv).toRD = ⟨.flt (25/2), 0⟩ ∧
     jvpRun (Op.prim Table.rat) mixedProg 4 (mixedEnv.map DV.toRD) = ⟨.flt (25/2), 10⟩) :=
  mixed_output_primal_only_cex

/-- lawfulness of the rules cannot be dropped from `C15_adev2_is_forward_mode` -/
theorem C15_adev2_lawful_needed_cex :
    (adevRun Cfg.code (fun _ : Unit => badPrim) (.ofList [.prim () [0]]) 1 [⟨.dis 3, .zero⟩]).toRD ≠
      jvpRun (fun _ : Unit => badPrim) (.ofList [.prim () [0]]) 1 [⟨.dis 3, 0⟩] := lawful_needed_cex

/-- discrete values (ints, bools, comparison results, counters) carry NO tangent: under every
    configuration - the wrong ones too - every discrete entry of the interpreter's environment and its
    output have the symbolic zero (float0), provided the inputs do -/
theorem C15_discrete_outputs_have_zero_tangent (cfg : Cfg) (sem : P → Prim K) (hl : ∀ p, (sem p).Lawful)
    (p : Prog P) (out : Nat) (env : List (DV K)) (h : WFA env) :
    WFA (runAProg cfg sem p env) ∧
      ((adevRun cfg sem p out env).p.isDis = true → (adevRun cfg sem p out env).t = Tan.zero) :=
  discrete_outputs_have_zero_tangent cfg sem hl p out env h

/-- … and in the reference forward mode they have tangent 0 -/
theorem C15_discrete_outputs_have_zero_tangent_jvp (sem : P → Prim K) (hl : ∀ p, (sem p).Lawful)
    (p : Prog P) (out : Nat) (env : List (RD K)) (h : WFJ env) :
    WFJ (evalJProg sem p env) ∧ ((jvpRun sem p out env).p.isDis = true → (jvpRun sem p out env).d = 0) :=
  discrete_outputs_have_zero_tangent_jvp sem hl p out env h

example : (adevRun Cfg.code (Op.prim Table.rat) counterLoopProg 3 counterLoopEnv) = ⟨.dis 3, .zero⟩ := by
  decide +kernel

/-- a concrete loop (carry `(counter, value)`, three iterations) in the reference forward mode -/
example : evalJEqn (Op.prim Table.rat) (.fori 3 [0] [1, 2]
      (.ofList [.prim (.iconst 1) [], .prim .iadd [1, 3], .prim .mul [2, 0], .prim .toFloat [1], .prim .add [5, 6]]) [4, 7])
      [⟨.flt (3/2), 1⟩, ⟨.dis 0, 0⟩, ⟨.flt 1, 0⟩] = [⟨.dis 3, 0⟩, ⟨.flt (55/8), 31/4⟩] := by decide +kernel

/-- a loop with trip count `n` is the n-fold composition of its body: in the primal evaluation, in the
    reference forward mode, and - for the interpreter, which sees ONE scan equation and decides the
    fast path once on the loop's operands - up to reading symbolic zeros as 0 -/
theorem C15_fori_is_iterate (cfg : Cfg) (hc : cfg.Good) (sem : P → Prim K) (hl : ∀ p, (sem p).Lawful)
    (n : Nat) (consts ins : List Nat) (body : Prog P) (outs : List Nat) (env : List (DV K))
    (h : WFJ (env.map DV.toRD)) :
    evalPEqn sem (.fori n consts ins body outs) (env.map (·.p)) =
      (fun c => gather (evalPProg sem body (gather (env.map (·.p)) consts ++ c)) outs)^[n] (gather (env.map (·.p)) ins) ∧
    evalJEqn sem (.fori n consts ins body outs) (env.map DV.toRD) =
      (fun c => gather (evalJProg sem body (gather (env.map DV.toRD) consts ++ c)) outs)^[n]
        (gather (env.map DV.toRD) ins) ∧
    (runAEqn cfg sem (.fori n consts ins body outs) env).map DV.toRD =
      (fun c => gather (evalJProg sem body (gather (env.map DV.toRD) consts ++ c)) outs)^[n]
        (gather (env.map DV.toRD) ins) :=
  ⟨fori_primal_iterate sem n consts ins body outs _, fori_jvp_iterate sem n consts ins body outs _,
   fori_adev_iterate cfg hc sem hl n consts ins body outs env h⟩

end Genjax.Adev2
