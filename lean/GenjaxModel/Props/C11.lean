import GenjaxModel.Proofs.Adev
/-!
# C11 — ADEV value and gradient estimators are unbiased (exact for enumeration)

Model `Model/Adev.lean`: estimators over dual numbers with continuations. Statements hold over
any field, every parameter value in the open domain, every continuation (i.e. every program that
follows the site). Reparameterised primitives are the pathwise JVP of JAX (trusted; checked per
draw by the correspondence run).
-/
namespace Genjax.Adev
variable {K : Type} [Field K]

/-- flip_enum (and flip_enum_parallel): exact value and exact derivative, zero variance -/
theorem C11_flip_enum_exact (p kT kF : Dual K) :
    (flipEnum p kT kF).v = Eflip p.v kT.v kF.v ∧
    (flipEnum p kT kF).d = p.d * (kT.v - kF.v) + p.v * kT.d + (1 - p.v) * kF.d :=
  flipEnum_exact p kT kF

/-- score-function (REINFORCE) flip: averaging over the outcomes gives the exact value and derivative -/
theorem C11_reinforce_flip_unbiased (p kT kF : Dual K) (h1 : p.v ≠ 0) (h2 : 1 - p.v ≠ 0) :
    Eflip p.v (reinforce (flipProb p true) kT).v (reinforce (flipProb p false) kF).v = (flipEnum p kT kF).v ∧
    Eflip p.v (reinforce (flipProb p true) kT).d (reinforce (flipProb p false) kF).d = (flipEnum p kT kF).d :=
  reinforce_flip_unbiased p kT kF h1 h2

/-- measure-valued flip: unbiased for every p -/
theorem C11_mvd_flip_unbiased (p kT kF : Dual K) :
    Eflip p.v (mvd true p kT kF).v (mvd false p kT kF).v = (flipEnum p kT kF).v ∧
    Eflip p.v (mvd true p kT kF).d (mvd false p kT kF).d = (flipEnum p kT kF).d :=
  mvd_flip_unbiased p kT kF

/-- REINFORCE over any finite distribution (categorical, geometric truncated, …) -/
theorem C11_reinforce_finite_unbiased (ps ks : List (Dual K)) (hl : ps.length = ks.length)
    (hp : ∀ p ∈ ps, p.v ≠ 0) : reinforceExpectedTangent ps ks = (enumAll ps ks).d :=
  reinforce_finite_unbiased ps ks hl hp

/-- every estimator is affine in the continuation's estimate (tower property for compositions) -/
theorem C11_estimators_affine_in_continuation (pb k1 k2 : Dual K) (w : K) (b : Bool)
    (p kT1 kT2 kF1 kF2 : Dual K) :
    (reinforce pb ⟨w * k1.v + (1 - w) * k2.v, w * k1.d + (1 - w) * k2.d⟩).d =
      w * (reinforce pb k1).d + (1 - w) * (reinforce pb k2).d ∧
    (mvd b p ⟨w * kT1.v + (1 - w) * kT2.v, w * kT1.d + (1 - w) * kT2.d⟩
             ⟨w * kF1.v + (1 - w) * kF2.v, w * kF1.d + (1 - w) * kF2.d⟩).d =
      w * (mvd b p kT1 kF1).d + (1 - w) * (mvd b p kT2 kF2).d :=
  ⟨reinforce_affine pb k1 k2 w, mvd_affine b p kT1 kT2 kF1 kF2 w⟩

/-- different primitives composed in one program (outer REINFORCE, inner MVD, arbitrary dependence of
    the continuation on both outcomes): unbiased, cross terms included -/
theorem C11_composition_unbiased (p q : Dual K) (k : Bool → Bool → Dual K)
    (h1 : p.v ≠ 0) (h2 : 1 - p.v ≠ 0) :
    let inner := fun b1 b2 => mvd b2 q (k b1 true) (k b1 false)
    let outer := fun b1 b2 => reinforce (flipProb p b1) (inner b1 b2)
    Eflip p.v (Eflip q.v (outer true true).d (outer true false).d)
              (Eflip q.v (outer false true).d (outer false false).d)
      = (flipEnum p (flipEnum q (k true true) (k true false))
                    (flipEnum q (k false true) (k false false))).d :=
  compose_reinforce_mvd_unbiased p q k h1 h2

end Genjax.Adev
