import GenjaxModel.Proofs.Adev
import GenjaxModel.Proofs.AdevProg
import GenjaxModel.Proofs.AdevProgIO
import Mathlib.Algebra.Field.Rat
import Mathlib.Tactic.NormNum
import GenjaxModel.Proofs.Interp
/-!
# C11 — ADEV value and gradient estimators are unbiased (exact for enumeration)

Model `Model/Adev.lean`: estimators over dual numbers with continuations. Statements hold over
any field, every parameter value in the open domain, every continuation (i.e. every program that
follows the site). Reparameterised primitives are the pathwise JVP of JAX (trusted; checked per
draw by the correspondence run).
-/
namespace Genjax.Adev
variable {K : Type} [Field K]

/-- flip_enum (and flip_enum_parallel): exact value and exact derivative, zero variance -/
theorem C11_flip_enum_exact (p kT kF : Dual K) :
    (flipEnum p kT kF).v = Eflip p.v kT.v kF.v ∧
    (flipEnum p kT kF).d = p.d * (kT.v - kF.v) + p.v * kT.d + (1 - p.v) * kF.d :=
  flipEnum_exact p kT kF

/-- score-function (REINFORCE) flip: averaging over the outcomes gives the exact value and derivative -/
theorem C11_reinforce_flip_unbiased (p kT kF : Dual K) (h1 : p.v ≠ 0) (h2 : 1 - p.v ≠ 0) :
    Eflip p.v (reinforce (flipProb p true) kT).v (reinforce (flipProb p false) kF).v = (flipEnum p kT kF).v ∧
    Eflip p.v (reinforce (flipProb p true) kT).d (reinforce (flipProb p false) kF).d = (flipEnum p kT kF).d :=
  reinforce_flip_unbiased p kT kF h1 h2

/-- measure-valued flip: unbiased for every p -/
theorem C11_mvd_flip_unbiased (p kT kF : Dual K) :
    Eflip p.v (mvd true p kT kF).v (mvd false p kT kF).v = (flipEnum p kT kF).v ∧
    Eflip p.v (mvd true p kT kF).d (mvd false p kT kF).d = (flipEnum p kT kF).d :=
  mvd_flip_unbiased p kT kF

/-- REINFORCE over any finite distribution (categorical, geometric truncated, …) -/
theorem C11_reinforce_finite_unbiased (ps ks : List (Dual K)) (hl : ps.length = ks.length)
    (hp : ∀ p ∈ ps, p.v ≠ 0) : reinforceExpectedTangent ps ks = (enumAll ps ks).d :=
  reinforce_finite_unbiased ps ks hl hp

/-- every estimator is affine in the continuation's estimate (tower property for compositions) -/
theorem C11_estimators_affine_in_continuation (pb k1 k2 : Dual K) (w : K) (b : Bool)
    (p kT1 kT2 kF1 kF2 : Dual K) :
    (reinforce pb ⟨w * k1.v + (1 - w) * k2.v, w * k1.d + (1 - w) * k2.d⟩).d =
      w * (reinforce pb k1).d + (1 - w) * (reinforce pb k2).d ∧
    (mvd b p ⟨w * kT1.v + (1 - w) * kT2.v, w * kT1.d + (1 - w) * kT2.d⟩
             ⟨w * kF1.v + (1 - w) * kF2.v, w * kF1.d + (1 - w) * kF2.d⟩).d =
      w * (mvd b p kT1 kF1).d + (1 - w) * (mvd b p kT2 kF2).d :=
  ⟨reinforce_affine pb k1 k2 w, mvd_affine b p kT1 kT2 kF1 kF2 w⟩

/-- different primitives composed in one program (outer REINFORCE, inner MVD, arbitrary dependence of
    the continuation on both outcomes): unbiased, cross terms included -/
theorem C11_composition_unbiased (p q : Dual K) (k : Bool → Bool → Dual K)
    (h1 : p.v ≠ 0) (h2 : 1 - p.v ≠ 0) :
    let inner := fun b1 b2 => mvd b2 q (k b1 true) (k b1 false)
    let outer := fun b1 b2 => reinforce (flipProb p b1) (inner b1 b2)
    Eflip p.v (Eflip q.v (outer true true).d (outer true false).d)
              (Eflip q.v (outer false true).d (outer false false).d)
      = (flipEnum p (flipEnum q (k true true) (k true false))
                    (flipEnum q (k false true) (k false false))).d :=
  compose_reinforce_mvd_unbiased p q k h1 h2

/-! ## ===== BEGIN work package c11compose: whole programs (any number of composed sites) and more primitives =====

Model `Model/AdevProg.lean`: `Prog` = outcome tree of a discrete ADEV program (`flip e p k`, `cat e ps k`,
`ret r`; `k outcome` = rest of the program, so later parameters / later sites / the result may depend
on all earlier outcomes and, through duals, on θ); `SProg` = straight-line programs (a Jaxpr without
`cond`: parameters are functions of the list of earlier outcomes).  `Prog.exact` = true expectation and
true derivative (nested enumeration in dual arithmetic), `Prog.run` = `kpure` (one forward-sampling
run), `Prog.est` = `kdual` (the Dual the CPS interpreter returns, as a finite distribution; each call of
a continuation draws fresh randomness).  Lemmas in `Proofs/AdevProg.lean`. -/
section Compose
open Genjax.Smc.FinDist (E mass)

/-- the guards of `C11_program_unbiased` (definition `Prog.OK`, unfolded): every categorical site is
    normalised and every outcome probability of a REINFORCE site is non-zero, at every site of the
    tree -/
theorem C11_program_guards (e : FlipEst) (p : Dual K) (k : Bool → Prog K) (c : CatEst)
    (ps : List (Dual K)) (kc : Nat → Prog K) (r : Dual K) :
    ((Prog.ret r).OK ↔ True) ∧
    ((Prog.flip e p k).OK ↔ (e = .reinforce → p.v ≠ 0 ∧ 1 - p.v ≠ 0) ∧ ∀ b, (k b).OK) ∧
    ((Prog.cat c ps kc).OK ↔ (sumD ps).v = 1 ∧ (c = .reinforce → ∀ q ∈ ps, q.v ≠ 0) ∧
        ∀ i, i < ps.length → (kc i).OK) :=
  ⟨Iff.rfl, Iff.rfl, Iff.rfl⟩

/-- THE COMPOSITION THEOREM (supersedes the two-site `C11_composition_unbiased`, which is kept):
    for EVERY discrete ADEV program - any number of sites, any mix of flip_enum, flip_enum_parallel,
    flip_reinforce, flip_mvd, categorical_enum_parallel and finite-support REINFORCE, arbitrary
    dependence of later sites on earlier outcomes - the expectation over all random outcomes of the
    Dual computed by the CPS interpreter is exactly (value) the expectation of the program and
    (tangent) its derivative; all cross terms between different estimators included. -/
theorem C11_program_unbiased (p : Prog K) (h : p.OK) :
    E p.est (fun r => r.v) = p.exact.v ∧ E p.est (fun r => r.d) = p.exact.d :=
  Prog.est_unbiased p h

/-- … the estimate is a normalised distribution (so the expectations above are genuine averages),
    and so is the forward-sampling run used by flip_mvd for the complementary outcome, whose mean is
    the exact value -/
theorem C11_program_normalised (p : Prog K) (h : p.OK) :
    mass p.est = 1 ∧ mass p.run = 1 ∧ E p.run (fun o => o) = p.exact.v :=
  ⟨Prog.mass_est p h, Prog.mass_run p h, Prog.E_run p⟩

/-- the same for straight-line programs (`jaxpr` without `cond`) with any number of sites, started
    after the outcomes `outs` -/
theorem C11_straightline_program_unbiased (sp : SProg K) (outs : List Outcome) (h : sp.OK outs) :
    E (sp.toProg outs).est (fun r => r.v) = (sp.toProg outs).exact.v ∧
    E (sp.toProg outs).est (fun r => r.d) = (sp.toProg outs).exact.d :=
  SProg.est_unbiased sp outs h

/-- non-vacuity: a 3-site straight-line program over ℚ - flip_enum, then flip_reinforce whose
    parameter depends on the first outcome, then flip_mvd whose parameter depends on the second
    outcome, returning a value and tangent that depend on all three outcomes -/
def demo3 : SProg Rat :=
  .flip .enum (fun _ => ⟨1/2, 1⟩) <|
  .flip .reinforce (fun o => if o = [1] then ⟨1/3, 2⟩ else ⟨1/4, -1⟩) <|
  .flip .mvd (fun o => if o.getD 1 0 = 1 then ⟨1/5, 3⟩ else ⟨2/3, 1/2⟩) <|
  .ret fun o => ⟨(o.foldl (fun a b => 2 * a + b) 0 : Nat), (o.foldl (fun a b => 3 * a + b + 1) 0 : Nat)⟩

example : demo3.OK [] := by
  simp [demo3, SProg.OK]
  norm_num

/-- its estimator has 16 weighted outcomes (2 continuation estimates for the enumeration, each
    2 REINFORCE outcomes × 2 MVD outcomes × 1 forward run of the complementary branch) whose mean is
    the exact dual (1121/360, 6007/240) -/
example : (demo3.toProg []).est.length = 16 ∧
    meanD (demo3.toProg []).est = (demo3.toProg []).exact ∧
    (demo3.toProg []).exact = ⟨1121/360, 6007/240⟩ := by decide +kernel

/-- a second instance with categorical sites: categorical_enum_parallel over 3 outcomes, then a
    REINFORCE categorical whose probabilities depend on the first outcome, then flip_mvd -/
def demoCat : SProg Rat :=
  .cat .enumPar (fun _ => [⟨1/2, 1⟩, ⟨1/3, -2⟩, ⟨1/6, 1⟩]) <|
  .cat .reinforce (fun o => if o = [0] then [⟨1/4, 1⟩, ⟨3/4, -1⟩] else [⟨1/5, 2⟩, ⟨2/5, 0⟩, ⟨2/5, -2⟩]) <|
  .flip .mvd (fun o => ⟨1 / ((o.getD 1 0 : Nat) + 2), 1⟩) <|
  .ret fun o => ⟨(o.foldl (fun a b => 3 * a + b) 0 : Nat), (o.sum : Nat)⟩

example : demoCat.OK [] ∧ meanD (demoCat.toProg []).est = (demoCat.toProg []).exact := by
  refine ⟨?_, by decide +kernel⟩
  simp [demoCat, SProg.OK, sumD, Dual.add]
  norm_num
  intro i hi
  split <;> simp [sumD, Dual.add] <;> norm_num

/-- categorical_enum_parallel is exact: the Dual it returns for probability duals `ps`
    (= softmax(logits) and its JVP) and continuation duals `ks` has value Σ_i p_i k_i and tangent
    Σ_i (p_i' k_i + p_i k_i') - no outcome is sampled, zero variance -/
theorem C11_categorical_enum_exact (ps ks : List (Dual K)) :
    (enumAll ps ks).v = sumK (List.zipWith (fun p k => p.v * k.v) ps ks) ∧
    (enumAll ps ks).d = sumK (List.zipWith (fun p k => p.d * k.v + p.v * k.d) ps ks) :=
  ⟨enumAll_v ps ks, enumAll_d ps ks⟩

/-- the softmax probability duals fed to the enumeration are normalised (values sum to 1, tangents
    to 0; `ex` = the exponential), and under normalised probabilities the enumeration of a constant
    continuation returns that constant (no spurious gradient) -/
theorem C11_softmax_normalised (ex : K → K) (ls : List (Dual K))
    (hS : sumK (ls.map fun l => ex l.v) ≠ 0) (c : Dual K) :
    sumD (softmaxD ex ls) = ⟨1, 0⟩ ∧
    enumAll (softmaxD ex ls) (List.replicate (softmaxD ex ls).length c) = c :=
  ⟨softmaxD_normalised ex ls hS, enumAll_const _ c (softmaxD_normalised ex ls hS)⟩

example : sumK (([⟨0, 1⟩, ⟨1, -1⟩, ⟨2, 5⟩] : List (Dual Rat)).map fun l => (fun x => 1 + x) l.v) ≠ 0 := by
  decide +kernel

/-- flip_enum_parallel (Σ [p, 1−p] · kdual([True, False])) returns the same Dual as flip_enum, hence
    is exact as well -/
theorem C11_flip_enum_parallel_exact (p kT kF : Dual K) :
    enumAll [p, Dual.sub (Dual.const 1) p] [kT, kF] = flipEnum p kT kF ∧
    (enumAll [p, Dual.sub (Dual.const 1) p] [kT, kF]).v = Eflip p.v kT.v kF.v ∧
    (enumAll [p, Dual.sub (Dual.const 1) p] [kT, kF]).d
      = p.d * (kT.v - kF.v) + p.v * kT.d + (1 - p.v) * kF.d := by
  rw [flipEnumPar_eq]
  exact ⟨rfl, flipEnum_exact p kT kF⟩

/-- geometric_reinforce, support truncated to {0..n-1} with P(i) = (1−p)^i p: the outcome-average
    of the REINFORCE tangents is the derivative of Σ_{i<n} P(i) k_i (0 < p < 1) -/
theorem C11_geometric_reinforce_unbiased (p : Dual K) (n : Nat) (ks : List (Dual K))
    (hl : ks.length = n) (h1 : p.v ≠ 0) (h2 : 1 - p.v ≠ 0) :
    reinforceExpectedTangent (geomProbs p n) ks = (enumAll (geomProbs p n) ks).d :=
  reinforce_geometric_unbiased p n ks hl h1 h2

example : reinforceExpectedTangent (geomProbs (⟨1/3, 1⟩ : Dual Rat) 4) [⟨1, 0⟩, ⟨2, 1⟩, ⟨5, -1⟩, ⟨7, 2⟩]
    = (enumAll (geomProbs (⟨1/3, 1⟩ : Dual Rat) 4) [⟨1, 0⟩, ⟨2, 1⟩, ⟨5, -1⟩, ⟨7, 2⟩]).d ∧
    (enumAll (geomProbs (⟨1/3, 1⟩ : Dual Rat) 4) [⟨1, 0⟩, ⟨2, 1⟩, ⟨5, -1⟩, ⟨7, 2⟩]).d ≠ 0 := by
  decide +kernel

end Compose
/-! ## ===== END work package c11compose ===== -/

/-! ## ===== BEGIN work package c11tie: the driver command `adev-prog` (whole programs run against the implementation) =====

`Model/AdevProgIO.lean` gives the programs of `Model/AdevProg.lean` a concrete syntax (`PAst`: sites
`flip <estimator> <term>` / `cat <estimator> <terms>`, `branch`, `ret <term>`; `ATerm`: arithmetic over θ,
constants and earlier outcomes, evaluated in dual arithmetic).  The harness (`harness/adevprog.py`,
`harness/props/c11.py: check_described`) generates the JAX program and the driver term from ONE
description and compares every internal outcome path of `jvp_estimate` with `Prog.est`.  The theorems
below say what the driver's answer means for EVERY program text. -/
section Tie
open Genjax.Smc.FinDist (E mass)

/-- the flag `guards T` printed by the driver implies the guards `Prog.OK` of `C11_program_unbiased`
    (every categorical site normalised, every REINFORCE outcome probability non-zero) -/
theorem C11_driver_guards_sound (p : Prog Rat) (h : Prog.okB p = true) : p.OK :=
  Prog.okB_sound p h

/-- a program text without `branch`, read as a straight-line program of the model (`SProg`, a Jaxpr
    without `cond`) and unfolded by `SProg.toProg`, is the outcome tree obtained from the text directly -/
theorem C11_driver_straightline_reading (th : Dual Rat) (a : PAst Rat) (sp : SProg Rat)
    (h : a.toSProg th = some sp) (outs : List Outcome) : sp.toProg outs = a.toProg th outs :=
  PAst.toSProg_toProg th a sp h outs

/-- THE DRIVER ANSWER IS AN UNBIASED ESTIMATOR: for every program text `a` and every θ, when the
    driver answers `guards T`, the `est` entries (probability, value, tangent) it prints - the
    distribution the harness compares with the implementation's enumeration, equal duals merged -
    have total probability 1 and probability-weighted mean equal to the printed `exact` dual (the
    true expectation and derivative, `Prog.exact`); the same for the unmerged `mean` / `mass`. -/
theorem C11_driver_report_unbiased (θ : Rat) (a : PAst Rat) (h : (a.report θ).guards = true) :
    wsum (fun v _ => v) (a.report θ).est = (a.report θ).exact.v ∧
    wsum (fun _ d => d) (a.report θ).est = (a.report θ).exact.d ∧
    wsum (fun _ _ => 1) (a.report θ).est = 1 ∧
    (a.report θ).mean = (a.report θ).exact ∧ (a.report θ).mass = 1 :=
  PAst.report_sound θ a h

/-- non-vacuity / demo: the harness program `three:reinforce>cat3par>mvd` as a driver term - a
    REINFORCE flip with parameter θ, categorical_enum_parallel over weights (θ, 1 or 2, 2 − θ) that depend
    on the first outcome, flip_mvd whose parameter depends on the categorical index, result depending on
    all three outcomes and non-linearly on θ -/
def demoTie : PAst Rat :=
  .flip .reinforce .theta <|
  .cat .enumPar [.theta, .ite 0 (.const 1) (.const 2), .sub (.const 2) .theta] <|
  .flip .mvd (.eqn 1 0 (.mul (.const (1/2)) .theta) (.eqn 1 1 .theta (.sub (.const 1) .theta))) <|
  .ret (.add (.mul (.add (.out 1) (.ite 0 (.const 1) (.const 3))) (.ite 2 .theta (.mul .theta .theta))) (.out 0))

/-- at θ = 1/4: the guards hold, the estimator has 16 outcome paths (2 REINFORCE outcomes × 2 MVD
    outcomes in each of the 3 vectorised lanes), all with distinct duals, and its mean is the exact dual
    (7113/8192, 7085/2048) -/
example : (demoTie.report (1/4)).guards = true ∧ (demoTie.report (1/4)).paths = 16 ∧
    (demoTie.report (1/4)).est.length = 16 ∧ (demoTie.report (1/4)).sprog = true ∧
    (demoTie.report (1/4)).mean = (demoTie.report (1/4)).exact ∧
    (demoTie.report (1/4)).exact = ⟨7113/8192, 7085/2048⟩ := by decide +kernel

end Tie
/-! ## ===== END work package c11tie ===== -/


/-- Lean witness of the REPAIRED defect `adev-site-in-cond-branch` (DESIGN §8, fix b0f97e1): the interpreter gave an enumeration site inside a `lax.cond`
    branch only the rest of the BRANCH as its continuation and applied the computation after the cond to the branch's result.
    For `b = flip_enum(p); x = cond(b, where(flip_enum(q), 2, -1)·q, p); return x²` at (p, q) = (3/10, 3/5):
    the expectation (what the property demands, and what the outcome-tree model `Prog.exact` computes) is 1827/5000 = 0.3654, the
    branch-local evaluation is 3303/25000 = 0.13212 — the value the implementation returned before the fix; `props/c11.py` now
    requires the first value. -/
theorem C11_asis_cond_branch_cex :
    let p : Dual ℚ := ⟨3/10, 0⟩
    let q : Dual ℚ := ⟨3/5, 0⟩
    let x : Bool → Dual ℚ := fun b => Dual.mul (if b then Dual.const 2 else Dual.const (-1)) q
    let sq : Dual ℚ → Dual ℚ := fun d => Dual.mul d d
    (flipEnum p (flipEnum q (sq (x true)) (sq (x false))) (sq p)).v = 1827/5000 ∧
    (flipEnum p (sq (flipEnum q (x true) (x false))) (sq p)).v = 3303/25000 := by
  simp only [flipEnum, Dual.add, Dual.mul, Dual.sub, Dual.const]
  norm_num

/-- where a site gets its estimator semantics (Model/Interp.lean, kinds for ADEV: cond interpreted, nested jit /
    checkpoint evaluated in place since fix d3d169e, scan / while / custom_jvp re-bound): the sites the interpreter
    handles and the sites JAX's own rule inlines partition the program's sites; every site is handled (once, in order)
    iff no re-bound equation holds one (`_partial`: open finding adev-site-in-uninterpreted-call is the other case) -/
theorem C11_sites_reach_the_interpreter_partial (j : Interp.J) :
    ((Interp.runOld j).1 ++ (Interp.runOld j).2).Perm j.sites ∧
    (j.blocked = false → (Interp.runOld j).1 = j.sites) ∧
    ((Interp.runOld j).2 ≠ [] ↔ j.blocked = true) := by
  have hesc := Interp.runOld_escapes_iff j
  have hblk := Interp.run_none_iff_blocked j
  refine ⟨Interp.runOld_partition j, ?_, hesc.trans hblk⟩
  intro h
  have hn : Interp.run j ≠ none := by
    intro hr; have := hblk.mp hr; rw [h] at this; exact Bool.noConfusion this
  exact Interp.run_handles_all j _ (Interp.runOld_eq_run j hn)


/-- the pre-pass of fix d3d169e (`_eval_inlining_site_calls`; `Interp.J.inlineCalls`): splicing the bodies of nested
    jit / checkpoint calls in place of the calls leaves no such call in front of a site, keeps every site, once, in
    order, and does not change which sites reach the interpreter and which are lost -/
theorem C11_inline_prepass_transparent (j : Interp.J) :
    j.inlineCalls.siteInline = false ∧ j.inlineCalls.sites = j.sites ∧
    Interp.runOld j.inlineCalls = Interp.runOld j :=
  ⟨Interp.noInline_siteInline _ (Interp.inlineCalls_noInline j), Interp.inlineCalls_sites j,
   Interp.inlineCalls_runOld j⟩

end Genjax.Adev
