import GenjaxModel.Model.GfiDist
import GenjaxModel.Model.Vi
/-
  The ELBO objective of `elbo_factory` (src/genjax/inference/vi.py:50-89), written with the
  generative-function model of `Model/Gfi.lean` / `Model/GfiDist.lean`:

      tr = variational_family.simulate(constraint, *variational_params)
      q_score = tr.get_score()
      merged_choices, _ = target_gf.merge(constraint, tr.get_choices())
      p_density, _ = target_gf.assess(merged_choices, *target_args)
      return p_density + q_score

  * the family's arguments `(constraint, *params)` are the argument list `qargs` of the model
    program `q` (model programs take values; what the family reads from the constraint is passed as
    values);
  * `target_gf.merge(constraint, z)` is `Fn.merge(x, x_)` WITHOUT a check (core.py:2222-2263): keys of
    either side are kept, nested dicts merge recursively, and on an address both sides carry the SECOND
    argument - the family's draw `z` - wins: `CM.mergeNoCheck xobs z`.  (Modelled for dict-shaped
    choice maps, i.e. `Fn` targets and `Cond`s of `Fn`s; for a top-level `Vmap`/`Scan` target the
    model's `none` means "not modelled", not "raises".)

  `elboDraw`   per-draw objective in the LOG domain, weights in any type with `0, +, -`
  `elboRatio`  per-draw objective in the LINEAR domain: the ratio p(x,z) / q(z) of the masses
  `Lin K`      the linear domain presented as a weight structure (`0 := 1`, `+ := *`, `- := 1/·`), so
               that the very same `elboDraw` runs on rationals
  Mathlib-free and executable.
-/
namespace Genjax.Vi
open Genjax Smc Smc.FinDist

section LogDomain
variable {R : Type} [Zero R] [Add R] [Neg R] (P : Prims R)

/-- the choice map `target_gf.assess` is called on: `merge(constraint, tr.get_choices())`
    (`none`: `get_choices()` or `merge` raises) -/
def elboMerged (xobs : CM) (t : Tr R) : Option CM := do
  let z ← t.choices
  CM.mergeNoCheck xobs z

/-- the body of `elbo` for one trace `t` of the variational family:
    `target.assess(merge(constraint, choices(t))).1 + score(t)`   (log domain) -/
def elboDraw (p : GF) (pargs : List Val) (xobs : CM) (t : Tr R) : Option R := do
  let z ← t.choices
  let m ← CM.mergeNoCheck xobs z
  let (lp, _) ← p.assess P m pargs
  pure (lp + t.score)

/-- the body of `elbo` run with the probe sampler (`q.simulate`) -/
def elboSim (p : GF) (pargs : List Val) (q : GF) (qargs : List Val) (xobs : CM) : Option R := do
  let t ← q.simulate P qargs
  elboDraw P p pargs xobs t

end LogDomain

section LinDomain
variable {K : Type} [One K] [Mul K] [Div K] (pd : PD K)

/-- the joint mass `p(x, z)` the target assigns to the merged map (`none`: `merge`/`assess` raises) -/
def elboJoint (p : GF) (pargs : List Val) (xobs z : CM) : Option K := do
  let m ← CM.mergeNoCheck xobs z
  let (pp, _) ← p.assessP pd m pargs
  pure pp

/-- the linear-domain objective as a function of the family's choice map `z`: `p(x,z) / q(z)` -/
def elboRatioZ (p : GF) (pargs : List Val) (q : GF) (qargs : List Val) (xobs z : CM) : Option K := do
  let pp ← elboJoint pd p pargs xobs z
  let (qq, _) ← q.assessP pd z qargs
  pure (pp / qq)

/-- the linear-domain objective of one draw (trace `t` of the family) -/
def elboRatio {R : Type} (p : GF) (pargs : List Val) (q : GF) (qargs : List Val) (xobs : CM)
    (t : Tr R) : Option K := do
  let z ← t.choices
  elboRatioZ pd p pargs q qargs xobs z

end LinDomain

/-! ### the linear domain as a weight structure -/

/-- linear-domain weights: `0 := 1`, `a + b := a · b`, `-a := 1 / a` -/
structure Lin (K : Type) where
  val : K
  deriving Repr, DecidableEq

instance {K : Type} [One K] : Zero (Lin K) := ⟨⟨1⟩⟩
instance {K : Type} [Mul K] : Add (Lin K) := ⟨fun a b => ⟨a.val * b.val⟩⟩
instance {K : Type} [One K] [Div K] : Neg (Lin K) := ⟨fun a => ⟨1 / a.val⟩⟩

/-- log densities in the linear domain are the masses themselves -/
def linPrims {K : Type} (pd : PD K) : Prims (Lin K) where
  lp := fun d a v => ⟨pd.pm d a v⟩
  draw := fun d a => (pd.support d a).headD .nil

/-! ### the table the driver prints: one row per outcome of the family -/

structure ElboRow (K : Type) where
  choices : Option CM        -- `get_choices()` of the family's trace (`none`: raises)
  prob : K                   -- probability of this run of `simulate`
  qmass : Option K           -- `q.assessP` on the choices
  joint : Option K           -- `p.assessP` on the merged map
  ratio : Option K           -- `elboRatio`
  draw : Option K            -- `elboDraw` at the weight structure `Lin K`

section Table
variable {K : Type} [One K] [Mul K] [Div K] (pd : PD K)

/-- every outcome of `q.simD` (runs that raise are dropped from the table; their probability is
    reported by `elboRaise`) with the objective evaluated both ways -/
def elboTable (p : GF) (pargs : List Val) (q : GF) (qargs : List Val) (xobs : CM) :
    List (ElboRow K) :=
  (q.simD pd (linPrims pd) qargs).filterMap fun (o, pr) =>
    o.map fun t =>
      { choices := t.choices
        prob := pr
        qmass := t.choices.bind fun z => (q.assessP pd z qargs).map (·.1)
        joint := t.choices.bind fun z => elboJoint pd p pargs xobs z
        ratio := elboRatio pd p pargs q qargs xobs t
        draw := (elboDraw (linPrims pd) p pargs xobs t).map (·.val) }

end Table

/-- Σ prob · ratio over the table (rows without a ratio count 0): the exact expectation of the
    linear-domain objective -/
def elboMean {K : Type} [Zero K] [Add K] [Mul K] (rows : List (ElboRow K)) : K :=
  sumK (rows.map fun r => r.prob * r.ratio.getD 0)

end Genjax.Vi
