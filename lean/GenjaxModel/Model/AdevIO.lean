import GenjaxModel.Model.Adev
import GenjaxModel.Model.AdevDet
import GenjaxModel.Model.Vi
import GenjaxModel.Model.HmmIO
/-! driver side of C11 -/
namespace Genjax
open Adev

def stepAdev : SExp → Option SExp
  | .list [.atom "adev-flip", .atom kind, .atom b, .atom p, .atom pd, .atom ktv, .atom ktd, .atom kfv, .atom kfd] => do
      let p : Dual Rat := ⟨← readRat p, ← readRat pd⟩
      let kT : Dual Rat := ⟨← readRat ktv, ← readRat ktd⟩
      let kF : Dual Rat := ⟨← readRat kfv, ← readRat kfd⟩
      let b := b == "T"
      let r : Dual Rat := match kind with
        | "enum" => flipEnum p kT kF
        | "mvd" => mvd b p kT kF
        | _ => reinforce (flipProb p b) (if b then kT else kF)
      pure (.list [.atom "ok", .atom (showRat r.v), .atom (showRat r.d)])
  | .list [.atom "vi-optimize", .atom c, .atom lr, .atom n, .atom p0] => do
      let c ← readRat c
      let hist := Vi.optimize (fun _ p => c - p) (← readRat lr) (← n.toNat?) 0 (← readRat p0)
      pure (.list [.atom "ok", showRats hist])
  | .list [.atom "adev-det", .list eqns, .list env] => do
      let es ← eqns.mapM fun
        | .list [.atom "const", .atom c] => (readRat c).map Eqn.const
        | .list [.atom "add", .atom i, .atom j] => do pure (Eqn.add (← i.toNat?) (← j.toNat?))
        | .list [.atom "sub", .atom i, .atom j] => do pure (Eqn.sub (← i.toNat?) (← j.toNat?))
        | .list [.atom "mul", .atom i, .atom j] => do pure (Eqn.mul (← i.toNat?) (← j.toNat?))
        | .list [.atom "neg", .atom i] => i.toNat?.map Eqn.neg
        | .list [.atom "cond", .atom c, .atom i, .atom j] => do pure (Eqn.cond (← c.toNat?) (← i.toNat?) (← j.toNat?))
        | _ => none
      let env ← env.mapM fun
        | .list [.atom v, .atom d] => do pure (⟨← readRat v, ← readRat d⟩ : Dual Rat)
        | _ => none
      let a := adevEval id es env
      let b := jvpEval es env
      pure (.list [.atom "ok", .atom (showRat a.v), .atom (showRat a.d), showBool (a == b)])
  | _ => none

end Genjax
