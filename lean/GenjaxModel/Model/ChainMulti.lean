import GenjaxModel.Model.Chain
/-
  Model of the `n_chains > 1` path of `chain` (src/genjax/inference/mcmc.py:665-745) and of the
  reported acceptance rates (single chain: :653, multi chain: :692-693), plus the seeded-kernel
  view of the abstract kernel `step j s`.  Mathlib-free, executable (rates are exact `Rat`s).

  Code, multi-chain branch:
      vectorized_run = modular_vmap(lambda trace: run_chain(trace, n_steps, burn_in=..,
                                    autocorrelation_resampling=.., n_chains=const(1)), in_axes=0)
      initial_traces = tree_map(lambda x: jnp.repeat(x[None, ...], n_chains, axis=0), initial_trace)
      multi_chain_results = vectorized_run(initial_traces)
      combined_traces  = multi_chain_results.traces            # (n_chains, n_kept, ...)
      combined_accepts = multi_chain_results.accepts           # (n_chains, n_kept)
      acceptance_rates = jnp.mean(combined_accepts, axis=1)    # (n_chains,)   -- not returned
      overall_acceptance_rate = jnp.mean(acceptance_rates)     # returned as `acceptance_rate`
      final_n_steps = multi_chain_results.n_steps.value        # static: len(indices)
  i.e. every lane runs the single-chain code on the same initial trace with the lane's own kernel
  randomness (`steps c` = the kernel of lane `c`); the per-lane `acceptance_rate` computed inside
  the lane is discarded and recomputed from the stacked (thinned) flags.
-/
namespace Genjax.Chain

variable {σ : Type}

/-- number of `True` entries -/
def countTrue (l : List Bool) : Nat := (l.filter id).length

/-- `jnp.mean` of a boolean vector as an exact rational: (#True) / length.
    (`jnp.mean` of an empty vector is `nan`; here `0 / 0 = 0` — theorems state the guard.) -/
def meanBool (l : List Bool) : Rat := (countTrue l : Rat) / (l.length : Rat)

def sumRat : List Rat → Rat
  | [] => 0
  | x :: xs => x + sumRat xs

/-- `jnp.mean` of a vector of rationals -/
def meanRat (l : List Rat) : Rat := sumRat l / (l.length : Rat)

/-- the `acceptance_rate` field of the single-chain result: `jnp.mean(final_accepts)`,
    which the record `Result` stores as numerator `acceptCount` and denominator `nSteps` -/
def Result.rate (r : Result σ) : Rat := (r.acceptCount : Rat) / (r.nSteps : Rat)

/-- `MCMCResult` of the multi-chain branch: every array field has a leading chain axis -/
structure MultiResult (σ : Type) where
  states : List (List σ)        -- (n_chains, n_kept)
  accepts : List (List Bool)    -- (n_chains, n_kept)
  nSteps : Nat                  -- `const(final_n_steps)`
  nChains : Nat                 -- `n_chains`
  chainRates : List Rat         -- `acceptance_rates` (per chain; intermediate, not returned)
  rate : Rat                    -- `acceptance_rate = overall_acceptance_rate`

/-- `chain(kernel)(init, n_steps=n, burn_in=b, autocorrelation_resampling=k, n_chains=c)`, branch
    `n_chains != 1`; `steps ci` is the kernel (with its randomness) of lane `ci` -/
def multiChain [Inhabited σ] (steps : Nat → Nat → σ → σ × Bool) (init : σ) (n b k c : Nat) :
    MultiResult σ :=
  -- modular_vmap over the replicated initial trace of the single-chain code
  let lanes := (List.range c).map fun ci => chain (steps ci) init n b k
  let accepts := lanes.map (·.accepts)
  let rates := accepts.map meanBool
  { states := lanes.map (·.states)
    accepts := accepts
    nSteps := (arange b n k).length
    nChains := c
    chainRates := rates
    rate := meanRat rates }

/-- what `run_chain` returns: without (n_chains = 1) or with a leading chain axis -/
inductive Out (σ : Type) where
  | single : Result σ → Out σ
  | multi : MultiResult σ → Out σ

/-- the dispatch on `n_chains.value == 1` -/
def runChain [Inhabited σ] (steps : Nat → Nat → σ → σ × Bool) (init : σ) (n b k c : Nat) : Out σ :=
  if c = 1 then .single (chain (steps 0) init n b k) else .multi (multiChain steps init n b k c)

/-- seeded-kernel view: under `seed`, application number `j` of the kernel runs with the key
    `fold j` (`fold_in(sub_key, j)` in the scan rule of `seed`), nothing else varies with `j` -/
def seededStep {κ : Type} (kern : κ → σ → σ × Bool) (fold : Nat → κ) : Nat → σ → σ × Bool :=
  fun j s => kern (fold j) s

/-- manual iteration of the seeded kernel with the keys `fold 0, fold 1, …, fold (m-1)` -/
def iterKeys {κ : Type} (kern : κ → σ → σ × Bool) (fold : Nat → κ) (m : Nat) (init : σ) : σ :=
  (List.range m).foldl (fun s j => (kern (fold j) s).1) init

end Genjax.Chain
