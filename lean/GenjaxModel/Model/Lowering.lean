/-
  Decision model of "where can an unseeded sampling site survive to" (C14):
  a placement is the list of constructs around one sampling site, outermost first.
  The rules summarise (i) JAX lowers every equation nested in a compiled construct, (ii) the
  lowering rule of `sample_p` raises (pjax.py:276-295), (iii) the batch rule raises outside
  modular_vmap (pjax.py:870-879), (iv) Seed rewrites sample/cond/scan and re-binds everything else
  (pjax.py:1327-1399), and — as the code is — (v) the JVP rule of `sample_p` evaluates the keyless
  sampler, i.e. differentiation INLINES the site with a hidden key (pjax.py:440-450), and
  (vi) `jax.vmap` never consults the batch rule when no argument of the site is batched, and
  (vii) an OPAQUE higher-order construct (jax.checkpoint, custom_jvp, custom_vjp: the wrapped function is
  the sub-jaxpr of one equation that JAX evaluates eagerly, without compiling) is interpreted neither by
  Seed nor by modular_vmap, and
  (viii) Seed and modular_vmap raise the site's lowering error when they meet an equation they do not
  interpret (opaque, jit, while, dynamic fori) whose sub-jaxprs still hold a site (pjax.py
  `_nested_sample_params`, fix commits c963c34 / df67764).  Before, both re-bound it unchanged: `seed`
  ignored its key for opaque constructs, modular_vmap shared one draw between the lanes, and a draw
  inlined by (v) below a `jit` inside a modular_vmap was one trace-time constant for all lanes (the
  former rule (vii), found by the exhaustive depth-3 run; that path now raises).
  Validated against real JAX by exhaustive enumeration to depth 3 on every run (harness).
-/
namespace Genjax.Lowering

inductive C where
  | jit | scan | whileL | fori | foriDyn | cond | switch   -- compiling constructs
  | grad
  | vmapB      -- jax.vmap, the site's arguments are batched
  | vmapU      -- jax.vmap, the site's arguments are not batched
  | mvmap      -- modular_vmap
  | opaque     -- jax.checkpoint around the site (rule vii)
  | customD    -- custom_jvp / custom_vjp whose rule differentiates the wrapped function (rules vii, ix)
  deriving DecidableEq, Repr

def C.compiles : C → Bool
  | .jit | .scan | .whileL | .fori | .foriDyn | .cond | .switch => true
  | _ => false

/-- constructs the Seed interpreter interprets (or that leave the site as a plain equation) -/
def C.seedInterprets : C → Bool
  | .scan | .cond | .switch | .fori | .vmapU | .mvmap => true
  | _ => false

structure Cfg where
  gradInlines : Bool          -- (v)  true = the code as it is
  vmapUnbatchedSilent : Bool  -- (vi) true = the code as it is

def Cfg.asis : Cfg := ⟨true, true⟩
def Cfg.spec : Cfg := ⟨false, false⟩

inductive Out where
  | fresh            -- eager call, a fresh draw per call (no compilation involved)
  | loweringError    -- the dedicated LoweringSamplePrimitiveToMLIRException
  | batchError       -- "Only modular_vmap context supported"
  | baked            -- VIOLATION: compiled with hidden/fixed randomness, no error
  | replicated       -- VIOLATION: jax.vmap replicated one draw over the lanes
  | keyFunction      -- seeded: compiles and is a function of the key
  | keyIgnored       -- VIOLATION: seeded, but the result does not depend on the key
  deriving DecidableEq, Repr

/-- constructs strictly inside the innermost `grad` (between it and the site); the whole placement
    if there is no grad -/
def innerOf : List C → List C
  | [] => []
  | c :: rest => if rest.contains .grad then innerOf rest else (if c = .grad then rest else c :: rest)

def hasGrad (pl : List C) : Bool := pl.contains .grad

/-- does a map without batched site arguments occur (one draw would be shared by the lanes) -/
def outerOf : List C → List C
  | [] => []
  | c :: rest => if rest.contains .grad then c :: outerOf rest else (if c = .grad then [] else [])

/-- constructs the modular_vmap interpreter interprets (scan, cond, switch, static fori) or that are not
    equations of the staged jaxpr (transformations) -/
def C.mvmapInterprets : C → Bool
  | .scan | .cond | .switch | .fori | .grad | .vmapB | .vmapU | .mvmap => true
  | _ => false

/-- (viii) the outermost modular_vmap with a construct below it that its interpreter does not interpret:
    anything traced inside it runs first (a plain vmap with batched site arguments raises the batch
    error while the mapped function is staged); otherwise the interpreter raises the lowering error.
    Applied to the part of the placement in which the site is still a site (`innerOf`). -/
def mvmapOpaque : List C → Option Out
  | [] => none
  | c :: rest =>
    if c = .mvmap && rest.any (fun d => !d.mvmapInterprets) then
      some (if rest.contains .vmapB then .batchError else .loweringError)
    else mvmapOpaque rest

def hasUnbatchedMap (pl : List C) (inlined : Bool) : Bool :=
  pl.contains .vmapU ||
    (inlined && ((outerOf pl).contains .mvmap || (outerOf pl).contains .vmapB))

/-- (ix) below a `grad`, a custom-derivative construct is where the differentiation happens; without a
    `grad` above it, it is an opaque construct. A modular_vmap in between stages its function and meets
    the custom-derivative call as an equation before the outer differentiation does (then rule viii). -/
def relocate : Bool → List C → List C
  | _, [] => []
  | seen, c :: rest =>
    (if c = .customD then (if seen then .grad else .opaque) else c) ::
      relocate ((seen || c == .grad) && c != .mvmap) rest

/-- calling a placement without `seed`, custom-derivative constructs already resolved by `relocate` -/
def outcomeR (cfg : Cfg) (pl : List C) : Out :=
  let effGrad := cfg.gradInlines && hasGrad pl
  let inner := if effGrad then innerOf pl else pl
  if let some o := mvmapOpaque inner then o
  else if inner.contains .vmapB then .batchError
  else if effGrad then
    (if pl.any C.compiles then .baked else if hasUnbatchedMap pl true then .replicated else .fresh)
  else if pl.any C.compiles then .loweringError
  else if pl.contains .vmapU then (if cfg.vmapUnbatchedSilent then .replicated else .batchError)
  else .fresh

/-- calling `seed(placement)(key, …)`, custom-derivative constructs already resolved -/
def seededR (cfg : Cfg) (pl : List C) : Out :=
  let effGrad := cfg.gradInlines && hasGrad pl
  let inner := if effGrad then innerOf pl else pl
  if let some o := mvmapOpaque inner then o
  else if inner.contains .vmapB then .batchError
  else if effGrad then (if hasUnbatchedMap pl true then .replicated else .keyIgnored)
  else if !(pl.all (fun c => c.seedInterprets || c = .grad)) then .loweringError
  else if pl.contains .vmapU then (if cfg.vmapUnbatchedSilent then .replicated else .batchError)
  else .keyFunction

/-- calling the placement without `seed` -/
def outcome (cfg : Cfg) (pl : List C) : Out := outcomeR cfg (relocate false pl)

/-- calling `seed(placement)(key, …)` -/
def seeded (cfg : Cfg) (pl : List C) : Out := seededR cfg (relocate false pl)

def Out.ok : Out → Bool
  | .fresh | .loweringError | .batchError | .keyFunction => true
  | _ => false

end Genjax.Lowering
