/-
  Minimal S-expression reader/printer for the line protocol between the Python
  harness and the Lean model driver.  Mathlib-free.
-/
namespace Genjax

inductive SExp where
  | atom (s : String)
  | list (l : List SExp)
  deriving Repr, Inhabited

namespace SExp

def tokenize (s : String) : List String := Id.run do
  let mut toks : Array String := #[]
  let mut cur : String := ""
  for c in s.toList do
    if c == '(' || c == ')' then
      if cur != "" then toks := toks.push cur; cur := ""
      toks := toks.push (String.singleton c)
    else if c == ' ' || c == '\t' || c == '\n' || c == '\r' then
      if cur != "" then toks := toks.push cur; cur := ""
    else cur := cur.push c
  if cur != "" then toks := toks.push cur
  return toks.toList

/-- parse one expression; returns the expression and the remaining tokens -/
partial def parseOne : List String → Option (SExp × List String)
  | [] => none
  | "(" :: rest => parseList rest []
  | ")" :: _ => none
  | t :: rest => some (.atom t, rest)
where
  parseList : List String → List SExp → Option (SExp × List String)
    | [], _ => none
    | ")" :: rest, acc => some (.list acc.reverse, rest)
    | toks, acc =>
      match parseOne toks with
      | some (e, rest) => parseList rest (e :: acc)
      | none => none

def parse (s : String) : Option SExp :=
  match parseOne (tokenize s) with
  | some (e, []) => some e
  | _ => none

partial def toString : SExp → String
  | .atom s => s
  | .list l => "(" ++ " ".intercalate (l.map toString) ++ ")"

instance : ToString SExp := ⟨SExp.toString⟩

end SExp
end Genjax
