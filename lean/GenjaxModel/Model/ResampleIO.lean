import GenjaxModel.Model.Resample
import GenjaxModel.Model.GfiIO
/-! driver side of C12 -/
namespace Genjax
open Resample

def readRats (l : List SExp) : Option (List Rat) :=
  l.mapM fun | .atom a => readRat a | _ => none

def stepResample : SExp → Option SExp
  | .list [.atom "systematic", .list ws, .atom n, .atom u] => do
      let w ← readRats ws
      let n ← n.toNat?
      let u ← readRat u
      let idx := systematic w n u
      pure (.list [.atom "ok", .list (idx.map fun (i : Nat) => SExp.atom (toString i)),
                   .list ((List.range w.length).map fun (i : Nat) => SExp.atom (toString (copies idx i)))])
  | .list [.atom "resample", .list ws, .atom acc, .list idx] => do
      let w ← readRats ws
      let acc ← readRat acc
      let idx ← idx.mapM fun | .atom a => a.toNat? | _ => none
      let c : Coll Rat Nat := { particles := List.range w.length, w := w, acc := acc, diag := [] }
      let c' := c.resample idx
      pure (.list [.atom "ok", .atom (showRat c.lml), .atom (showRat c'.lml), .atom (showRat c'.acc),
                   .list (c'.diag.map fun (q : Rat) => SExp.atom (showRat q)),
                   .list (c'.particles.map fun (i : Nat) => SExp.atom (toString i))])
  | _ => none

end Genjax
