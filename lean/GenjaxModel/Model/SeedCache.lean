/-
  Model of the STAGING CACHES behind `seed` (src/genjax/pjax.py), the only state besides the global key counter that
  survives a seeded call and could make `seed(f)(key, *args)` depend on the call history (property C06):

  * `stage` / `cached_stage_dynamic` (pjax.py:132-198): `@lu.cache` memoises the staged jaxpr of `f` per FUNCTION OBJECT
    (a WeakKeyDictionary on `fun.f`) under the key (transforms = the flattening with `in_tree`, i.e. the pytree structure
    of `(args, kwargs)` INCLUDING the keyword names and every static treedef datum; `in_avals` = `get_shaped_aval` of every
    leaf: shape, dtype and the WEAK-TYPE bit).  Unbounded dictionary.
  * `FlatSamplerCache` (pjax.py:815-858): every sampler created by `sample_binder` owns ONE SLOT holding the flattened
    keyful sampler staged at the argument avals of the call that filled the slot; it is re-staged only when the
    "argument signature" `(len(args), tuple(kwargs.keys()))` changes.  The flat sampler is baked into the jaxpr of the
    function that is being traced (`flat_keyful_sampler=` parameter of the `sample_p` equation), and `Seed` runs exactly that.
    Unseeded calls of the sampler go through `get_flat_sampler` too, so they also move the slot.

  A `Call` is what staging can see of a call; `dyn` (the concrete numbers) is what it cannot see.  A cache is a list of
  (key, staged program); `Cfg` says which components of the call enter the key (the code as it is: `Cfg.code` for the `stage`
  cache — everything; `Cfg.flatAsis` for the flat-sampler slot — binder identity, number of positional arguments, keyword
  names, and NOTHING about shapes, dtypes, weak types, pytree structure or static data).
  Staged programs are abstract (`World`); `World.free` is the free interpretation used by the driver and by the closed
  counterexamples (a program IS the projection of the call it was staged for, a result IS (program run, runtime values)).
  Mathlib-free, executable.
-/
namespace Genjax.SeedCache

/-- pytree structure; `nil`/`cons` spell the children list of an inner node (`node [a, b] = cons a (cons b nil)`), so
    `nil` is also the structure of `None` / `()` -/
inductive Tree where
  | leaf
  | nil
  | cons (hd tl : Tree)
  deriving DecidableEq, Repr, Inhabited

def Tree.node (cs : List Tree) : Tree := cs.foldr .cons .nil

/-- number of children of the top node (number of positional arguments when the tree is the `args` tuple) -/
def Tree.arity : Tree → Nat
  | .cons _ tl => tl.arity + 1
  | _ => 0

/-- number of array leaves -/
def Tree.leaves : Tree → Nat
  | .leaf => 1
  | .nil => 0
  | .cons hd tl => hd.leaves + tl.leaves

/-- abstract value of one leaf as `get_shaped_aval` returns it -/
structure AVal where
  shape : List Nat
  dtype : String
  weak : Bool
  deriving DecidableEq, Repr, Inhabited

/-- static (hashable, non-array) data carried by the treedef: `None`, `Const[…]` payloads, static dataclass fields -/
inductive Val where
  | none
  | int (i : Int)
  | str (s : String)
  | bool (b : Bool)
  deriving DecidableEq, Repr, Inhabited

/-- a call as staging sees it (`fn` … `statics`) plus the runtime values it does not see (`dyn`).
    `fn` identifies the function object INCLUDING whatever it closes over (JAX's purity contract: a function object is never
    mutated between calls); for a sampler site `fn` is the binder (one `FlatSamplerCache` per binder).
    `argTree` is the structure of the positional arguments (a `Tree.node`), keyword arguments are leaves. -/
structure Call where
  fn : Nat
  argTree : Tree
  avals : List AVal
  kwNames : List String
  statics : List Val
  dyn : List Int := []
  deriving DecidableEq, Repr, Inhabited

/-- the projection of a call that staging may depend on -/
structure Rel where
  fn : Nat
  argTree : Tree
  avals : List AVal
  kwNames : List String
  statics : List Val
  deriving DecidableEq, Repr, Inhabited

def relevant (c : Call) : Rel := ⟨c.fn, c.argTree, c.avals, c.kwNames, c.statics⟩

/-- which components of a call enter the cache key, and how many entries the cache keeps -/
structure Cfg where
  fnInKey : Bool          -- the function object / the binder
  treeInKey : Bool        -- the pytree structure (off: only the NUMBER of positional arguments)
  shapeDtypeInKey : Bool  -- shape and dtype of every leaf
  weakTypeInKey : Bool    -- the weak-type bit of every leaf
  kwNamesInKey : Bool     -- the keyword names (off: only their NUMBER)
  staticsInKey : Bool     -- static treedef data
  cap : Option Nat        -- `none`: dictionary; `some n`: the n most recent entries
  deriving DecidableEq, Repr, Inhabited

/-- `cached_stage_dynamic` as it is: function object, flattening (tree, keyword names, statics), avals with weak types -/
def Cfg.code : Cfg := ⟨true, true, true, true, true, true, none⟩
/-- `FlatSamplerCache` as it is: `(len(args), tuple(kwargs.keys()))`, one slot per binder -/
def Cfg.flatAsis : Cfg := ⟨true, false, false, false, true, false, some 1⟩
/-- `FlatSamplerCache` as C06 needs it: the signature determines everything staging depends on -/
def Cfg.flatSpec : Cfg := ⟨true, true, true, true, true, true, some 1⟩
/-- seeded change C06_2: `(len(args), len(kwargs))` -/
def Cfg.flatNoKwNames : Cfg := { Cfg.flatAsis with kwNamesInKey := false }
/-- a `stage` cache that forgot the weak-type bit -/
def Cfg.codeNoWeak : Cfg := { Cfg.code with weakTypeInKey := false }

/-- every component is in the key -/
def Cfg.full (cfg : Cfg) : Bool :=
  cfg.fnInKey && cfg.treeInKey && cfg.shapeDtypeInKey && cfg.weakTypeInKey && cfg.kwNamesInKey && cfg.staticsInKey

structure Key where
  fn : Option Nat
  nargs : Nat
  nkw : Nat
  tree : Option Tree
  shapeDtype : Option (List (List Nat × String))
  weak : Option (List Bool)
  kw : Option (List String)
  statics : Option (List Val)
  deriving DecidableEq, Repr, Inhabited

def sel (b : Bool) (a : α) : Option α := if b then some a else none

def keyOf (cfg : Cfg) (c : Call) : Key where
  fn := sel cfg.fnInKey c.fn
  nargs := c.argTree.arity
  nkw := c.kwNames.length
  tree := sel cfg.treeInKey c.argTree
  shapeDtype := sel cfg.shapeDtypeInKey (c.avals.map fun a => (a.shape, a.dtype))
  weak := sel cfg.weakTypeInKey (c.avals.map (·.weak))
  kw := sel cfg.kwNamesInKey c.kwNames
  statics := sel cfg.staticsInKey c.statics

/-! ## one cache -/

abbrev Cache (Prog : Type) := List (Key × Prog)

def lookup (k : Key) : Cache Prog → Option Prog
  | [] => none
  | (k', p) :: rest => if k = k' then some p else lookup k rest

def trim : Option Nat → List α → List α
  | none, l => l
  | some n, l => l.take n

/-- look the call up; on a miss stage it and insert it -/
def getProg (cfg : Cfg) (stageOf : Call → Prog) (cache : Cache Prog) (c : Call) : Prog × Cache Prog :=
  match lookup (keyOf cfg c) cache with
  | some p => (p, cache)
  | none => (stageOf c, trim cfg.cap ((keyOf cfg c, stageOf c) :: cache))

/-- run one call through the cache -/
def runCached (cfg : Cfg) (stageOf : Call → Prog) (exec : Prog → Call → Res) (cache : Cache Prog) (c : Call) :
    Res × Cache Prog :=
  let r := getProg cfg stageOf cache c
  (exec r.1 c, r.2)

/-- the results of a history of calls, starting from `cache` -/
def runHistory (cfg : Cfg) (stageOf : Call → Prog) (exec : Prog → Call → Res) : Cache Prog → List Call → List Res
  | _, [] => []
  | cache, c :: rest =>
      let r := runCached cfg stageOf exec cache c
      r.1 :: runHistory cfg stageOf exec r.2 rest

/-- the same calls without any cache: stage, run, forget -/
def runUncached (stageOf : Call → Prog) (exec : Prog → Call → Res) (h : List Call) : List Res :=
  h.map fun c => exec (stageOf c) c

/-! ## the two caches of a seeded call -/

/-- what the code around the caches does, abstractly.  A seeded call of `c` that misses the `stage` cache traces `f`:
    every sampler site of the body (`body c`; a site is itself a `Call`, `fn` = the binder) fetches its flat sampler from
    the binder's slot, and the jaxpr of `f` is built with these baked in. -/
structure World (FProg OProg Res : Type) where
  body : Call → List Call
  stageFlat : Call → FProg
  stageOuter : Call → List FProg → OProg
  exec : OProg → Call → Res

structure State (FProg OProg : Type) where
  outer : Cache OProg
  flat : Nat → Cache FProg          -- one cache per binder

def State.empty : State FProg OProg := ⟨[], fun _ => []⟩

/-- `flat_cache.get_flat_sampler(*args, **kwargs)` of the site's binder -/
def siteProg (w : World FProg OProg Res) (cfgF : Cfg) (fl : Nat → Cache FProg) (s : Call) :
    FProg × (Nat → Cache FProg) :=
  let r := getProg cfgF w.stageFlat (fl s.fn) s
  (r.1, fun b => if b = s.fn then r.2 else fl b)

def traceSites (w : World FProg OProg Res) (cfgF : Cfg) :
    (Nat → Cache FProg) → List Call → List FProg × (Nat → Cache FProg)
  | fl, [] => ([], fl)
  | fl, s :: rest =>
      let r := siteProg w cfgF fl s
      let r' := traceSites w cfgF r.2 rest
      (r.1 :: r'.1, r'.2)

/-- `seed(f)(key, *args, **kwargs)` -/
def seededCall (w : World FProg OProg Res) (cfgO cfgF : Cfg) (st : State FProg OProg) (c : Call) :
    Res × State FProg OProg :=
  match lookup (keyOf cfgO c) st.outer with
  | some p => (w.exec p c, st)
  | none =>
      let t := traceSites w cfgF st.flat (w.body c)
      let p := w.stageOuter c t.1
      (w.exec p c, ⟨trim cfgO.cap ((keyOf cfgO c, p) :: st.outer), t.2⟩)

/-- what can happen between two seeded calls -/
inductive Event where
  | seeded (c : Call)        -- a seeded call (eager, or the trace of a jit / vmap of one)
  | unseeded (site : Call)   -- a sampler is called outside any staging (global-counter path)
  deriving Repr, Inhabited

def step (w : World FProg OProg Res) (cfgO cfgF : Cfg) (st : State FProg OProg) :
    Event → Option Res × State FProg OProg
  | .seeded c => let r := seededCall w cfgO cfgF st c; (some r.1, r.2)
  | .unseeded s => (none, { st with flat := (siteProg w cfgF st.flat s).2 })

def run (w : World FProg OProg Res) (cfgO cfgF : Cfg) : State FProg OProg → List Event → List (Option Res)
  | _, [] => []
  | st, e :: rest =>
      let r := step w cfgO cfgF st e
      r.1 :: run w cfgO cfgF r.2 rest

/-- the result of the call in a fresh process: nothing cached anywhere -/
def fresh (w : World FProg OProg Res) (c : Call) : Res :=
  w.exec (w.stageOuter c ((w.body c).map w.stageFlat)) c

def runFresh (w : World FProg OProg Res) : List Event → List (Option Res)
  | [] => []
  | .seeded c :: rest => some (fresh w c) :: runFresh w rest
  | .unseeded _ :: rest => none :: runFresh w rest

/-- free interpretation: a flat sampler is the projection it was staged at, the jaxpr of `f` is the projection of the call
    with the flat samplers of its sites, a result is the program that ran and the runtime values it ran on -/
def World.free (body : Call → List Call) : World Rel (Rel × List Rel) ((Rel × List Rel) × List Int) where
  body := body
  stageFlat := relevant
  stageOuter := fun c ps => (relevant c, ps)
  exec := fun p c => (p, c.dyn)

/-! ## how a user-level call reaches `stage`: eager, under jit, under vmap over keys -/

inductive Mode where
  | eager | jit | vmapKeys | jitVmap
  deriving DecidableEq, Repr, Inhabited

/-- an argument leaf as the user passes it -/
inductive UArg where
  | py (dtype : String)                      -- a Python scalar (its default dtype)
  | arr (shape : List Nat) (dtype : String)  -- a committed array
  deriving DecidableEq, Repr, Inhabited

structure UCall where
  fn : Nat
  argTree : Tree
  args : List UArg
  kwNames : List String
  statics : List Val
  dyn : List Int := []
  deriving DecidableEq, Repr, Inhabited

/-- the two facts about abstract values the argument relies on -/
structure JaxCfg where
  stageScalarWeak : Bool    -- genjax: `get_shaped_aval` gives a Python scalar a WEAK aval (`jax.core.get_aval`); C06_3 turns it off
  tracerKeepsWeak : Bool    -- JAX: the tracer `jit` creates for a Python scalar keeps the weak type, and so does its `.aval`
  deriving DecidableEq, Repr, Inhabited

def JaxCfg.code : JaxCfg := ⟨true, true⟩

/-- does the leaf reach `stage` as a tracer?  (`jit` abstracts every argument; `vmap(in_axes=(0, None))` over keys leaves
    the other arguments untouched) -/
def Mode.traced : Mode → Bool
  | .eager | .vmapKeys => false
  | .jit | .jitVmap => true

def avalOf (j : JaxCfg) (m : Mode) : UArg → AVal
  | .py d => ⟨[], d, if m.traced then j.tracerKeepsWeak else j.stageScalarWeak⟩
  | .arr s d => ⟨s, d, false⟩

/-- the call `stage` sees when the user-level call is made in mode `m` -/
def present (j : JaxCfg) (m : Mode) (u : UCall) : Call :=
  ⟨u.fn, u.argTree, u.args.map (avalOf j m), u.kwNames, u.statics, u.dyn⟩

end Genjax.SeedCache
