/-
  Model of the SMC bookkeeping of src/genjax/inference/smc.py in the linear domain
  (w = exp(log weight), acc = exp(log_marginal_estimate)), with finite-support randomness
  so that expectations are exact sums:
    init (272-371), extend (449-530), rejuvenate (533-600), resample (603-652),
    log_marginal_likelihood (193-204), the adaptive resampling of rejuvenation_smc (655-785).
  Generic over the number type (runs on `Rat`, reasoned about over a field).
-/
namespace Genjax.Smc

variable {K : Type} [Zero K] [One K] [Add K] [Mul K] [Div K] [NatCast K]

/-- finite-support (sub)distributions as weighted lists -/
abbrev FinDist (K : Type) (α : Type) := List (α × K)

def sumK : List K → K
  | [] => 0
  | x :: xs => x + sumK xs

namespace FinDist
variable {α β : Type}

def pure (a : α) : FinDist K α := [(a, 1)]

def bind (d : FinDist K α) (f : α → FinDist K β) : FinDist K β :=
  d.flatMap fun (a, p) => (f a).map fun (b, q) => (b, p * q)

/-- expectation Σ p·f(a) -/
def E (d : FinDist K α) (f : α → K) : K := sumK (d.map fun (a, p) => p * f a)

def mass (d : FinDist K α) : K := E d (fun _ => 1)

/-- independent product of a list of distributions -/
def sequence : List (FinDist K α) → FinDist K (List α)
  | [] => pure []
  | d :: ds => bind d fun a => bind (sequence ds) fun as => pure (a :: as)

end FinDist

/-- particle system: particles with their (linear-domain) weights, and the accumulated estimate -/
structure Sys (K : Type) (X : Type) where
  parts : List (X × K)
  acc : K

variable {X : Type}

/-- exp(log_marginal_likelihood()) = acc · mean(w) -/
def Sys.lml (s : Sys K X) : K := s.acc * (sumK (s.parts.map (·.2)) / (s.parts.length : K))

/-- the estimate-weighted particle average  acc · (1/N) Σ_i w_i φ(x_i)  (an estimator of the
    unnormalised posterior integral γ(φ); lml is the case φ = 1) -/
def Sys.est (s : Sys K X) (φ : X → K) : K :=
  s.acc * (sumK (s.parts.map fun (x, w) => w * φ x) / (s.parts.length : K))

/-- init / extend: every particle x moves to x' ~ q(·|x) and its weight is multiplied by the
    incremental weight G(x, x') = p_incr(x, x') / q(x'|x); acc unchanged -/
def extendStep (q : X → FinDist K X) (G : X → X → K) (s : Sys K X) : FinDist K (Sys K X) :=
  FinDist.bind (FinDist.sequence (s.parts.map fun (x, w) =>
      (q x).map fun (x', p) => ((x', w * G x x'), p)))
    fun parts' => FinDist.pure { parts := parts', acc := s.acc }

/-- rejuvenate: particles move by a kernel, weights and acc untouched -/
def rejuvenateStep (k : X → FinDist K X) (s : Sys K X) : FinDist K (Sys K X) :=
  FinDist.bind (FinDist.sequence (s.parts.map fun (x, w) => (k x).map fun (x', p) => ((x', w), p)))
    fun parts' => FinDist.pure { parts := parts', acc := s.acc }

/-- multinomial resampling: N ancestors drawn i.i.d. from the normalised weights; weights reset to
    1, the mean weight folded into acc -/
def resampleStep (s : Sys K X) : FinDist K (Sys K X) :=
  let tot := sumK (s.parts.map (·.2))
  let one : FinDist K (X × K) := s.parts.map fun (x, w) => ((x, 1), w / tot)
  FinDist.bind (FinDist.sequence (s.parts.map fun _ => one))
    fun parts' => FinDist.pure { parts := parts', acc := s.acc * (tot / (s.parts.length : K)) }

/-- adaptive resampling: resample iff a (arbitrary) predicate of the current weights holds -/
def maybeResample (trigger : List K → Bool) (s : Sys K X) : FinDist K (Sys K X) :=
  if trigger (s.parts.map (·.2)) then resampleStep s else FinDist.pure s

end Genjax.Smc
