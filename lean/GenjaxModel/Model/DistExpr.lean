import GenjaxModel.Model.SExp
/-!
# C13 — the documented densities as an executable expression AST

`Proofs/DistSpec*.lean` state the documented density / mass function of every genjax distribution
as a `noncomputable` real function and prove that it has total mass one.  Nothing executable
connects those definitions with `/repo/src/genjax/distributions.py`.  This file closes the gap
from the Lean side:

* `DE` is a small first-order expression language over the reals (Mathlib-free, executable:
  it can be printed, not evaluated — evaluation happens in Python, `distspec_eval.py`);
* `spec_<name> : DE` is one closed term per distribution;
* `Proofs/DistExpr.lean` gives `DE` its real-valued denotation and proves, for every table
  entry, `spec_<name>.denote [params…] x = <name>Pdf params… x` — the printed term IS the density
  the normalisation theorem talks about;
* the driver command `(distspec)` (see `Model/DistExprIO.lean`) prints the whole table, and the
  Python side evaluates the printed terms numerically and compares them with `dist.logpdf`.

Conventions: `param i` is the `i`-th parameter in the documented (genjax) order; `x` is the point
at which the density is evaluated (`x = xi 0`); `xi i` is the `i`-th coordinate of a vector-valued
point.  Discrete points are embedded into ℝ (`k ↦ (k : ℝ)`, `false ↦ 0`, `true ↦ 1`).
All operations are the TOTALISED real operations of Mathlib (`a / 0 = 0`, `log 0 = 0`,
`log (-a) = log a`, `sqrt a = 0` for `a < 0`, `Γ(-n) = 0`, `0 ^ b = 0` for `b ≠ 0`, `0 ^ 0 = 1`,
`a ^ b = exp (b log a) cos (π b)` for `a < 0`); on the documented parameter domains and supports
none of the totalisations is hit except where the densities say so explicitly with `ifLt`/`ifLe`.
-/
namespace Genjax

/-- real-valued expressions in the parameters `param i` and the point `x` / `xi i` -/
inductive DE where
  /-- rational literal -/
  | const (q : Rat)
  /-- the point at which the density is evaluated (= `xi 0`) -/
  | x
  /-- `i`-th coordinate of a vector-valued point -/
  | xi (i : Nat)
  /-- `i`-th parameter, documented order -/
  | param (i : Nat)
  | add (a b : DE)
  | sub (a b : DE)
  | mul (a b : DE)
  | div (a b : DE)
  | neg (a : DE)
  /-- `a⁻¹` -/
  | inv (a : DE)
  /-- `a ^ n` with a literal natural exponent (monoid power) -/
  | npow (a : DE) (n : Nat)
  | exp (a : DE)
  | log (a : DE)
  | sqrt (a : DE)
  | pi
  /-- real power `a ^ b` (`Real.rpow`) -/
  | rpow (a b : DE)
  /-- Euler's Γ (`Real.Gamma`) -/
  | gamma (a : DE)
  | abs (a : DE)
  /-- `⌊a⌋₊ !` -/
  | natFact (a : DE)
  /-- generalised binomial coefficient `Ring.choose a ⌊k⌋₊ = a (a-1) … (a-⌊k⌋₊+1) / ⌊k⌋₊!` -/
  | chooseR (a k : DE)
  /-- `if a < b then t else e` -/
  | ifLt (a b t e : DE)
  /-- `if a ≤ b then t else e` -/
  | ifLe (a b t e : DE)
  /-- Riemann ζ at a real argument (`(riemannZeta (a : ℂ)).re`) -/
  | zeta (a : DE)
  deriving Repr, Inhabited, BEq

namespace DE

/-- rational literal as an atom: `n` or `n/d` (lowest terms, `d > 1`), readable by Python's
`fractions.Fraction` -/
def ratAtom (q : Rat) : String :=
  if q.den == 1 then toString q.num else toString q.num ++ "/" ++ toString q.den

/-- printer; the grammar is fixed (one production per constructor) — see `distspec_eval.py` -/
def toSExp : DE → SExp
  | const q => .list [.atom "c", .atom (ratAtom q)]
  | x => .list [.atom "x"]
  | xi i => .list [.atom "xi", .atom (toString i)]
  | param i => .list [.atom "p", .atom (toString i)]
  | add a b => .list [.atom "+", a.toSExp, b.toSExp]
  | sub a b => .list [.atom "-", a.toSExp, b.toSExp]
  | mul a b => .list [.atom "*", a.toSExp, b.toSExp]
  | div a b => .list [.atom "/", a.toSExp, b.toSExp]
  | neg a => .list [.atom "neg", a.toSExp]
  | inv a => .list [.atom "inv", a.toSExp]
  | npow a n => .list [.atom "npow", a.toSExp, .atom (toString n)]
  | exp a => .list [.atom "exp", a.toSExp]
  | log a => .list [.atom "log", a.toSExp]
  | sqrt a => .list [.atom "sqrt", a.toSExp]
  | pi => .list [.atom "pi"]
  | rpow a b => .list [.atom "rpow", a.toSExp, b.toSExp]
  | gamma a => .list [.atom "gamma", a.toSExp]
  | abs a => .list [.atom "abs", a.toSExp]
  | natFact a => .list [.atom "fact", a.toSExp]
  | chooseR a k => .list [.atom "choose", a.toSExp, k.toSExp]
  | ifLt a b t e => .list [.atom "iflt", a.toSExp, b.toSExp, t.toSExp, e.toSExp]
  | ifLe a b t e => .list [.atom "ifle", a.toSExp, b.toSExp, t.toSExp, e.toSExp]
  | zeta a => .list [.atom "zeta", a.toSExp]

/-- number of nodes (used by sanity checks only) -/
def size : DE → Nat
  | const _ | x | xi _ | param _ | pi => 1
  | add a b | sub a b | mul a b | div a b | rpow a b | chooseR a b => a.size + b.size + 1
  | neg a | inv a | npow a _ | exp a | log a | sqrt a | gamma a | abs a | natFact a | zeta a =>
      a.size + 1
  | ifLt a b t e | ifLe a b t e => a.size + b.size + t.size + e.size + 1

/-- largest parameter index used, plus one -/
def arity : DE → Nat
  | param i => i + 1
  | const _ | x | xi _ | pi => 0
  | add a b | sub a b | mul a b | div a b | rpow a b | chooseR a b => max a.arity b.arity
  | neg a | inv a | npow a _ | exp a | log a | sqrt a | gamma a | abs a | natFact a | zeta a =>
      a.arity
  | ifLt a b t e | ifLe a b t e => max (max a.arity b.arity) (max t.arity e.arity)

/-- largest point coordinate used, plus one (`x` counts as coordinate 0) -/
def dim : DE → Nat
  | x => 1
  | xi i => i + 1
  | const _ | param _ | pi => 0
  | add a b | sub a b | mul a b | div a b | rpow a b | chooseR a b => max a.dim b.dim
  | neg a | inv a | npow a _ | exp a | log a | sqrt a | gamma a | abs a | natFact a | zeta a =>
      a.dim
  | ifLt a b t e | ifLe a b t e => max (max a.dim b.dim) (max t.dim e.dim)

end DE

namespace DistExpr
open DE

/-- shorthand: `p i` = `param i`, `c q` = `const q` -/
abbrev p (i : Nat) : DE := param i
abbrev c (q : Rat) : DE := const q

/-! ## scalar-valued distributions with scalar parameters (20) -/

/-- bernoulli(logits l): P(1) = 1/(1+e^{−l}); point `x ∈ {0, 1}` -/
def spec_bernoulli : DE :=
  ifLt (c 0) x (div (c 1) (add (c 1) (exp (neg (p 0)))))
    (sub (c 1) (div (c 1) (add (c 1) (exp (neg (p 0))))))

/-- flip(p): P(true) = p; point `x ∈ {0, 1}` -/
def spec_flip : DE := ifLt (c 0) x (p 0) (sub (c 1) (p 0))

/-- beta(concentration1 a, concentration0 b) -/
def spec_beta : DE :=
  ifLt (c 0) x
    (ifLt x (c 1)
      (mul (mul (div (gamma (add (p 0) (p 1))) (mul (gamma (p 0)) (gamma (p 1))))
        (rpow x (sub (p 0) (c 1)))) (rpow (sub (c 1) x) (sub (p 1) (c 1))))
      (c 0))
    (c 0)

/-- geometric(probs p): failures before the first success, (1−p)^k p -/
def spec_geometric : DE := mul (rpow (sub (c 1) (p 0)) x) (p 0)

/-- normal(loc μ, scale σ) -/
def spec_normal : DE :=
  mul (inv (sqrt (mul (mul (c 2) pi) (npow (p 1) 2))))
    (exp (div (neg (npow (sub x (p 0)) 2)) (mul (c 2) (npow (p 1) 2))))

/-- uniform(low a, high b) -/
def spec_uniform : DE :=
  ifLe (p 0) x (ifLe x (p 1) (div (c 1) (sub (p 1) (p 0))) (c 0)) (c 0)

/-- exponential(rate r) -/
def spec_exponential : DE := ifLe (c 0) x (mul (p 0) (exp (neg (mul (p 0) x)))) (c 0)

/-- poisson(rate λ): e^{−λ} λ^k / k! -/
def spec_poisson : DE := div (mul (exp (neg (p 0))) (rpow (p 0) x)) (natFact x)

/-- binomial(total_count n, probs p): C(n,k) p^k (1−p)^{n−k} for k ≤ n, zero beyond -/
def spec_binomial : DE :=
  ifLe x (p 0)
    (mul (mul (chooseR (p 0) x) (rpow (p 1) x)) (rpow (sub (c 1) (p 1)) (sub (p 0) x)))
    (c 0)

/-- gamma(concentration a, rate r) -/
def spec_gamma : DE :=
  ifLt (c 0) x
    (mul (mul (div (rpow (p 1) (p 0)) (gamma (p 0))) (rpow x (sub (p 0) (c 1))))
      (exp (neg (mul (p 1) x))))
    (c 0)

/-- log_normal(loc μ, scale σ) -/
def spec_log_normal : DE :=
  ifLt (c 0) x
    (mul (div (c 1) (mul (mul x (p 1)) (sqrt (mul (c 2) pi))))
      (exp (div (neg (npow (sub (log x) (p 0)) 2)) (mul (c 2) (npow (p 1) 2)))))
    (c 0)

/-- student_t(df ν, loc μ, scale σ) -/
def spec_student_t : DE :=
  mul (div (gamma (div (add (p 0) (c 1)) (c 2)))
      (mul (mul (gamma (div (p 0) (c 2))) (sqrt (mul (p 0) pi))) (p 2)))
    (rpow (add (c 1) (div (npow (div (sub x (p 1)) (p 2)) 2) (p 0)))
      (div (neg (add (p 0) (c 1))) (c 2)))

/-- laplace(loc μ, scale b) -/
def spec_laplace : DE :=
  mul (div (c 1) (mul (c 2) (p 1))) (exp (div (neg (abs (sub x (p 0)))) (p 1)))

/-- half_normal(scale σ) -/
def spec_half_normal : DE :=
  ifLe (c 0) x
    (mul (div (sqrt (c 2)) (mul (p 0) (sqrt pi)))
      (exp (div (neg (npow x 2)) (mul (c 2) (npow (p 0) 2)))))
    (c 0)

/-- inverse_gamma(concentration a, scale b) -/
def spec_inverse_gamma : DE :=
  ifLt (c 0) x
    (mul (mul (div (rpow (p 1) (p 0)) (gamma (p 0))) (rpow x (sub (neg (p 0)) (c 1))))
      (exp (neg (div (p 1) x))))
    (c 0)

/-- weibull(concentration k, scale λ) -/
def spec_weibull : DE :=
  ifLe (c 0) x
    (mul (mul (div (p 0) (p 1)) (rpow (div x (p 1)) (sub (p 0) (c 1))))
      (exp (neg (rpow (div x (p 1)) (p 0)))))
    (c 0)

/-- cauchy(loc x₀, scale γ) -/
def spec_cauchy : DE :=
  div (c 1) (mul (mul pi (p 1)) (add (c 1) (npow (div (sub x (p 0)) (p 1)) 2)))

/-- chi2(df k) -/
def spec_chi2 : DE :=
  ifLt (c 0) x
    (mul (mul (div (c 1) (mul (rpow (c 2) (div (p 0) (c 2))) (gamma (div (p 0) (c 2)))))
        (rpow x (sub (div (p 0) (c 2)) (c 1))))
      (exp (neg (div x (c 2)))))
    (c 0)

/-- negative_binomial(total_count r, probs p): successes (prob. p) before the r-th failure,
C(r+k−1, k) p^k (1−p)^r -/
def spec_negative_binomial : DE :=
  mul (mul (chooseR (sub (add (p 0) x) (c 1)) x) (rpow (p 1) x)) (rpow (sub (c 1) (p 1)) (p 0))

/-- zipf(power s): k^{−s}/ζ(s), k ≥ 1 -/
def spec_zipf : DE := ifLe (c 1) x (div (rpow x (neg (p 0))) (zeta (p 0))) (c 0)

/-! ## vector arguments, fixed small dimension -/

/-- categorical(logits θ₀ θ₁ θ₂), 3 categories; point `x ∈ {0, 1, 2}` -/
def spec_categorical3 : DE :=
  div (exp (ifLt x (c 1) (p 0) (ifLt x (c 2) (p 1) (p 2))))
    (add (add (exp (p 0)) (exp (p 1))) (exp (p 2)))

/-- multinomial(total_count n, probs p₀ p₁ p₂): parameters `[n, p₀, p₁, p₂]`, point
`(k₀, k₁, k₂)` -/
def spec_multinomial3 : DE :=
  ifLe (add (add (xi 0) (xi 1)) (xi 2)) (p 0)
    (ifLe (p 0) (add (add (xi 0) (xi 1)) (xi 2))
      (mul (div (natFact (p 0)) (mul (mul (natFact (xi 0)) (natFact (xi 1))) (natFact (xi 2))))
        (mul (mul (rpow (p 1) (xi 0)) (rpow (p 2) (xi 1))) (rpow (p 3) (xi 2))))
      (c 0))
    (c 0)

/-- dirichlet(concentration α₀ α₁ α₂), point `(x₀, x₁, x₂)` on the simplex -/
def spec_dirichlet3 : DE :=
  mul (div (gamma (add (add (p 0) (p 1)) (p 2)))
      (mul (mul (gamma (p 0)) (gamma (p 1))) (gamma (p 2))))
    (mul (mul (rpow (xi 0) (sub (p 0) (c 1))) (rpow (xi 1) (sub (p 1) (c 1))))
      (rpow (xi 2) (sub (p 2) (c 1))))

/-- determinant of the covariance `[[p2, p3], [p4, p5]]` -/
def mvn2_det : DE := sub (mul (p 2) (p 5)) (mul (p 3) (p 4))

/-- multivariate_normal(loc (μ₀, μ₁), covariance [[s₀₀, s₀₁], [s₁₀, s₁₁]]) in dimension 2:
parameters `[μ₀, μ₁, s₀₀, s₀₁, s₁₀, s₁₁]`, point `(x₀, x₁)`.  The quadratic form is written
with the adjugate: `(x−μ)ᵀ S⁻¹ (x−μ) = (d₀ (s₁₁ d₀ − s₀₁ d₁) + d₁ (s₀₀ d₁ − s₁₀ d₀)) / det S`. -/
def spec_multivariate_normal2 : DE :=
  mul (mul (rpow (mul (c 2) pi) (div (neg (c 2)) (c 2))) (rpow (abs mvn2_det) (neg (div (c 1) (c 2)))))
    (exp (mul (neg (div (c 1) (c 2)))
      (div
        (add
          (mul (sub (xi 0) (p 0))
            (sub (mul (p 5) (sub (xi 0) (p 0))) (mul (p 3) (sub (xi 1) (p 1)))))
          (mul (sub (xi 1) (p 1))
            (sub (mul (p 2) (sub (xi 1) (p 1))) (mul (p 4) (sub (xi 0) (p 0))))))
        mvn2_det)))

/-- The spec table: (genjax name, number of parameters, support kind, density term).

Support kinds (where to put test points; the terms themselves are total):
`"real"` ℝ, `"pos"` (0,∞) (also used for the densities on [0,∞)), `"unit"` (0,1), `"nat"` {0,1,…},
`"nat1"` {1,2,…}, `"bool"` {0,1}; and for the fixed-dimension vector entries `"fin3"` {0,1,2},
`"natvec3"` ℕ³ (counts adding up to parameter 0), `"simplex3"` {x ∈ (0,1)³, Σ x = 1},
`"realvec2"` ℝ². -/
def specTable : List (String × Nat × String × DE) :=
  [ ("bernoulli", 1, "bool", spec_bernoulli),
    ("flip", 1, "bool", spec_flip),
    ("beta", 2, "unit", spec_beta),
    ("geometric", 1, "nat", spec_geometric),
    ("normal", 2, "real", spec_normal),
    ("uniform", 2, "real", spec_uniform),
    ("exponential", 1, "pos", spec_exponential),
    ("poisson", 1, "nat", spec_poisson),
    ("binomial", 2, "nat", spec_binomial),
    ("gamma", 2, "pos", spec_gamma),
    ("log_normal", 2, "pos", spec_log_normal),
    ("student_t", 3, "real", spec_student_t),
    ("laplace", 2, "real", spec_laplace),
    ("half_normal", 1, "pos", spec_half_normal),
    ("inverse_gamma", 2, "pos", spec_inverse_gamma),
    ("weibull", 2, "pos", spec_weibull),
    ("cauchy", 2, "real", spec_cauchy),
    ("chi2", 1, "pos", spec_chi2),
    ("negative_binomial", 2, "nat", spec_negative_binomial),
    ("zipf", 1, "nat1", spec_zipf),
    ("categorical", 3, "fin3", spec_categorical3),
    ("multinomial", 4, "natvec3", spec_multinomial3),
    ("dirichlet", 3, "simplex3", spec_dirichlet3),
    ("multivariate_normal", 6, "realvec2", spec_multivariate_normal2) ]

/-- every entry uses exactly the declared number of parameters -/
theorem specTable_arity : specTable.all (fun e => e.2.2.2.arity == e.2.1) = true := by decide

/-- the term printed under a given genjax name -/
def specLookup (name : String) : Option DE :=
  (specTable.find? (fun e => e.1 == name)).map (fun e => e.2.2.2)

/-- names are unique, so `specLookup` and the printed table determine each other -/
theorem specTable_names_nodup : (specTable.map (·.1)).Nodup := by decide

/-- which term is printed under which name -/
theorem specLookup_table :
    specLookup "bernoulli" = some spec_bernoulli ∧ specLookup "flip" = some spec_flip ∧
    specLookup "beta" = some spec_beta ∧ specLookup "geometric" = some spec_geometric ∧
    specLookup "normal" = some spec_normal ∧ specLookup "uniform" = some spec_uniform ∧
    specLookup "exponential" = some spec_exponential ∧ specLookup "poisson" = some spec_poisson ∧
    specLookup "binomial" = some spec_binomial ∧ specLookup "gamma" = some spec_gamma ∧
    specLookup "log_normal" = some spec_log_normal ∧ specLookup "student_t" = some spec_student_t ∧
    specLookup "laplace" = some spec_laplace ∧ specLookup "half_normal" = some spec_half_normal ∧
    specLookup "inverse_gamma" = some spec_inverse_gamma ∧ specLookup "weibull" = some spec_weibull ∧
    specLookup "cauchy" = some spec_cauchy ∧ specLookup "chi2" = some spec_chi2 ∧
    specLookup "negative_binomial" = some spec_negative_binomial ∧
    specLookup "zipf" = some spec_zipf ∧ specLookup "categorical" = some spec_categorical3 ∧
    specLookup "multinomial" = some spec_multinomial3 ∧
    specLookup "dirichlet" = some spec_dirichlet3 ∧
    specLookup "multivariate_normal" = some spec_multivariate_normal2 := by
  refine ⟨?_, ?_, ?_, ?_, ?_, ?_, ?_, ?_, ?_, ?_, ?_, ?_, ?_, ?_, ?_, ?_, ?_, ?_, ?_, ?_, ?_, ?_, ?_, ?_⟩ <;> rfl

end DistExpr
end Genjax
