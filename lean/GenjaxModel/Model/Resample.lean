/-
  Model of `systematic_resample`, `resample` and `log_marginal_likelihood`
  (src/genjax/inference/smc.py:79-136, 193-204, 603-652).  Generic over the number type so that
  the same definitions run on `Rat` (driver) and are reasoned about over an ordered field.
  Weights are in the *linear* domain here (w_i = exp(log_weights_i) ≥ 0); the log-domain
  bookkeeping is modelled multiplicatively:  exp(log_marginal_likelihood) = Ẑ_acc * mean(w).
-/
namespace Genjax.Resample

variable {K : Type} [Zero K] [One K] [Add K] [Mul K] [Div K] [LT K] [LE K] [NatCast K]
  [DecidableLT K] [DecidableLE K]

def sum : List K → K
  | [] => 0
  | x :: xs => x + sum xs

/-- `jnp.cumsum` -/
def cumsumFrom (acc : K) : List K → List K
  | [] => []
  | x :: xs => (acc + x) :: cumsumFrom (acc + x) xs

def cumsum (w : List K) : List K := cumsumFrom 0 w

/-- `jnp.searchsorted(a, v)` (side='left'): number of entries strictly below `v` -/
def searchsorted (a : List K) (v : K) : Nat := (a.filter (fun c => c < v)).length

/-- normalised weights `exp(lw - logsumexp lw)` -/
def normalize (w : List K) : List K := w.map (· / sum w)

/-- `positions = (arange(n) + u) / n; indices = searchsorted(cumsum(weights), positions)` -/
def systematic (w : List K) (n : Nat) (u : K) : List Nat :=
  (List.range n).map fun (j : Nat) => searchsorted (cumsum (normalize w)) (((j : K) + u) / (n : K))

/-- number of copies of particle `i` among the ancestor indices -/
def copies (idx : List Nat) (i : Nat) : Nat := idx.count i

/-- particle collection in the linear domain: weights and accumulated estimate -/
structure Coll (K : Type) (α : Type) where
  particles : List α
  w : List K
  acc : K          -- exp(log_marginal_estimate)
  diag : List K    -- exp(diagnostic_weights)

/-- exp(log_marginal_likelihood()) = acc * mean w -/
def Coll.lml {α} (c : Coll K α) : K := c.acc * (sum c.w / (c.w.length : K))

/-- `resample` given the ancestor indices: copy, reset weights to 1 (log 0), fold the mean in -/
def Coll.resample {α} [Inhabited α] (c : Coll K α) (idx : List Nat) : Coll K α :=
  { particles := idx.map fun i => c.particles.getD i default
    w := idx.map fun _ => 1
    acc := c.acc * (sum c.w / (c.w.length : K))
    diag := normalize c.w }

end Genjax.Resample
