import GenjaxModel.Model.GfiDist
/-
  `GF.regenerate` (Model/Gfi.lean) with GENUINE randomness, and the Metropolis-Hastings kernel `mh`
  of src/genjax/inference/mcmc.py built on it.

    * `GF.regenerateD e pd P cfg`   `GF.regenerate` in the distribution monad (`FinDist K (Option _)`):
                                    the same five-constructor recursion; a SELECTED Distribution site
                                    draws from `pd.support` with mass `pd.pm`, an unselected one keeps
                                    its value.  The weight is carried in the LINEAR domain: where the
                                    code adds `lp + old_score` the model multiplies `pm * e old_score`
                                    (`e : R → K` is the exponential that reads a stored log-domain score,
                                    `e (-(lp)) = 1 / pm`), where it sums lanes it multiplies.
    * `GF.regenW e pd cfg`          the deterministic SPECIFICATION of that kernel: for an old trace and
                                    a NEW choice map `x'` the pair (proposal mass q(x → x'), weight W),
                                    `none` = `x'` cannot be produced.  (`Proofs/GfiRegenLaw.lean` proves
                                    `regenerateD` has exactly this law.)
    * `GF.assessS pd`               `assessP` split along a selection: (product of the masses of the
                                    SELECTED sites, product of the masses of the unselected sites)
    * `CM.eqOff`                    two choice maps agree off the selection
    * `mhKernelD`                   `mh`: propose with `regenerateD`, accept with probability min(1, w)

  Mathlib-free and executable (runs on `Rat`).
-/
namespace Genjax
open Smc Smc.FinDist

/-- result of `regenerate` in the distribution monad: new trace, linear-domain weight, discard -/
abbrev UpdK (R K : Type) := Tr R × K × Option CM

section Ops
variable {K : Type} [One K] [Mul K] {R : Type} [Zero R] [Add R] [Neg R]
variable (e : R → K) (pd : PD K) (P : Prims R) (cfg : Cfg)

/-- the discard of `Cond.regenerate` (`none` = the code raises) -/
def condRegenDiscard (cOld : Bool) : Option CM → Option CM → Option (Option CM)
  | none, x2 => some x2
  | x1, none => some x1
  | some x1, some x2 =>
      if cfg.condDiscardVisible then (CM.mergeCheck cOld x1 x2).map some
      else (CM.mergeNoCheck x1 x2).map some

mutual
  /-- `regenerate(tr, sel, *args)`: the distribution over (new trace, weight, discard) -/
  def GF.regenerateD : GF → Tr R → Sel → List Val → FinDist K (Option (UpdK R K))
    | .dist d, .leaf vOld sOld, s, args =>
      if s.leaf then
        (pd.support d args).map fun v =>
          (some (.leaf v (-(P.lp d args v)), 1, some (.leaf vOld)), pd.pm d args v)
      else
        pureO (.leaf vOld (-(P.lp d args vOld)), pd.pm d args vOld * e sOld, none)
    | .dist _, _, _, _ => failO
    | .fn body, .fn old _ _, s, args =>
        bindO (body.regenerateD old s args .nil 0 1 .nil) fun r =>
          pureO (.fn r.1 r.2.1 r.2.2.1, r.2.2.2.1, some (.node r.2.2.2.2))
    | .fn _, _, _, _ => failO
    | .vmap g axes n, .vec old, s, args =>
        if old.toList.length = n then
          bindO (forLanesD (fun i (t : Tr R) => g.regenerateD t s (laneArgs axes args i)) 0 old.toList)
            fun rs => pureO (.vec (TrL.ofList (rs.map (·.1))), prodK (rs.map (·.2.1)),
              lanesDiscard (rs.map (·.2.2)))
        else failO
    | .vmap _ _ _, _, _, _ => failO
    | .scan g n, .scan old _, s, args =>
        if !cfg.scanRegenDefined then failO else
        if old.toList.length = n then
          bindO (forStepsD (fun c i (t : Tr R) =>
              bindO (g.regenerateD t s [c, (args.getD 1 .nil).nth i]) fun r =>
                pureO (r, r.1.retval.fst))
            (args.getD 0 .nil) 0 old.toList)
            fun q => pureO (.scan (TrL.ofList (q.1.map (·.1))) q.2, prodK (q.1.map (·.2.1)),
              lanesDiscard (q.1.map (·.2.2)))
        else failO
    | .scan _ _, _, _, _ => failO
    | .cond t f, .cond cOld a b, s, args =>
        bindO (t.regenerateD a s (args.drop 1)) fun ra =>
        bindO (f.regenerateD b s (args.drop 1)) fun rb =>
          match condRegenDiscard cfg cOld ra.2.2 rb.2.2 with
          | none => failO
          | some disc =>
            pureO (.cond (args.getD 0 .nil).truthy ra.1 rb.1,
              (if cfg.condSwitchCorrection
               then (if (args.getD 0 .nil).truthy then ra.2.1 else rb.2.1)
                 * e ((if cOld then a.score else b.score)
                      + -(if (args.getD 0 .nil).truthy then a.score else b.score))
               else (if (args.getD 0 .nil).truthy then ra.2.1 else rb.2.1)),
              disc)
    | .cond _ _, _, _, _ => failO
  /-- Regenerate handler in the distribution monad -/
  def Body.regenerateD : Body → TrL R → Sel → List Val → TrL R → R → K → CML →
      FinDist K (Option (TrL R × Val × R × K × CML))
    | .ret ex, _, _, env, subs, sc, w, d => pureO (subs, ex.eval env, sc, w, d)
    | .call addr g es rest, old, s, env, subs, sc, w, d =>
      if (subs.find? addr).isSome then failO else
      match old.find? addr with
      | none => failO
      | some sub =>
          bindO (g.regenerateD sub (s.matchAddr addr).2 (es.map (·.eval env))) fun r =>
            rest.regenerateD old s (env ++ [r.1.retval]) (subs.snoc addr r.1) (sc + r.1.score)
              (w * r.2.1) (match r.2.2 with | some c => d.snoc addr c | none => d)
end

mutual
  /-- SPECIFICATION of the regenerate kernel (Cond-free programs): for the old trace and a new choice
      map `x'`: ((q, W), retval) with `q` = the probability that `regenerateD` produces `x'` (the
      product over the SELECTED sites of the mass of the value `x'` holds there, parameters computed
      from `x'`) and `W` = the weight it then reports (the product over the unselected sites of
      `pm(new parameters, kept value) * e(old score)`); `none` = `x'` is not reachable (it differs
      from the old trace at an unselected site, has another shape, or the code raises). -/
  def GF.regenW : GF → Tr R → Sel → CM → List Val → Option ((K × K) × Val)
    | .dist d, .leaf vOld sOld, s, .leaf v, args =>
        if s.leaf then some ((pd.pm d args v, 1), v)
        else if v = vOld then some ((1, pd.pm d args vOld * e sOld), vOld) else none
    | .dist _, _, _, _, _ => none
    | .fn body, .fn old _ _, s, .node x, args => body.regenW old s x args []
    | .fn _, _, _, _, _ => none
    | .vmap g axes n, .vec old, s, .lanes x, args => do
        lenIs old.toList n
        lenIs x.toList n
        let rs ← forLanes (fun i (p : Tr R × CM) => g.regenW p.1 s p.2 (laneArgs axes args i)) 0
                  (old.toList.zip x.toList)
        pure ((prodK (rs.map (·.1.1)), prodK (rs.map (·.1.2))), Val.ofList (rs.map (·.2)))
    | .vmap _ _ _, _, _, _, _ => none
    | .scan g n, .scan old _, s, .lanes x, args =>
        if !cfg.scanRegenDefined then none else do
        lenIs old.toList n
        lenIs x.toList n
        let q ← forSteps (fun c i (p : Tr R × CM) =>
            (g.regenW p.1 s p.2 [c, (args.getD 1 .nil).nth i]).bind fun o =>
              some ((o.1, o.2.snd), o.2.fst)) (args.getD 0 .nil) 0 (old.toList.zip x.toList)
        pure ((prodK (q.1.map (·.1.1)), prodK (q.1.map (·.1.2))),
          Val.pair q.2 (Val.ofList (q.1.map (·.2))))
    | .scan _ _, _, _, _, _ => none
    | .cond _ _, _, _, _, _ => none      -- (the specification covers Cond-free programs)
  def Body.regenW : Body → TrL R → Sel → CML → List Val → List String → Option ((K × K) × Val)
    | .ret ex, _, _, _, env, _ => some ((1, 1), ex.eval env)
    | .call addr g es rest, old, s, x, env, seen =>
      if seen.contains addr then none else
      match old.find? addr with
      | none => none
      | some sub =>
        match x.find? addr with
        | none => none
        | some c => do
          let o ← g.regenW sub (s.matchAddr addr).2 c (es.map (·.eval env))
          let o' ← rest.regenW old s x (env ++ [o.2]) (addr :: seen)
          pure ((o.1.1 * o'.1.1, o.1.2 * o'.1.2), o'.2)
end

mutual
  /-- `assessP` split along a selection: ((product of the masses of the SELECTED sites, product of
      the masses of the unselected sites), retval).  The selection is threaded exactly as the
      Regenerate handler threads it (`Sel.matchAddr` at call sites, `Sel.leaf` at the leaf). -/
  def GF.assessS : GF → CM → Sel → List Val → Option ((K × K) × Val)
    | .dist d, .leaf v, s, args =>
        some (if s.leaf then (pd.pm d args v, 1) else (1, pd.pm d args v), v)
    | .dist _, _, _, _ => none
    | .fn body, .node x, s, args => body.assessS x s args []
    | .fn _, _, _, _ => none
    | .vmap g axes n, .lanes x, s, args => do
        lenIs x.toList n
        let rs ← forLanes (fun i xi => g.assessS xi s (laneArgs axes args i)) 0 x.toList
        pure ((prodK (rs.map (·.1.1)), prodK (rs.map (·.1.2))), Val.ofList (rs.map (·.2)))
    | .vmap _ _ _, _, _, _ => none
    | .scan g n, .lanes x, s, args => do
        lenIs x.toList n
        let q ← forSteps (fun c i xi =>
            (g.assessS xi s [c, (args.getD 1 .nil).nth i]).bind fun o =>
              some ((o.1, o.2.snd), o.2.fst)) (args.getD 0 .nil) 0 x.toList
        pure ((prodK (q.1.map (·.1.1)), prodK (q.1.map (·.1.2))),
          Val.pair q.2 (Val.ofList (q.1.map (·.2))))
    | .scan _ _, _, _, _ => none
    | .cond t f, x, s, args => do
        let o ← t.assessS x s (args.drop 1)
        let o' ← f.assessS x s (args.drop 1)
        pure (if (args.getD 0 .nil).truthy then o else o')
  def Body.assessS : Body → CML → Sel → List Val → List String → Option ((K × K) × Val)
    | .ret ex, _, _, env, _ => some ((1, 1), ex.eval env)
    | .call addr g es rest, x, s, env, seen =>
      if seen.contains addr then none else
      match x.find? addr with
      | none => none
      | some c => do
          let o ← g.assessS c (s.matchAddr addr).2 (es.map (·.eval env))
          let o' ← rest.assessS x s (env ++ [o.2]) (addr :: seen)
          pure ((o.1.1 * o'.1.1, o.1.2 * o'.1.2), o'.2)
end

end Ops

mutual
  /-- the choice maps `x`, `x'` have the same shape and hold the same value at every address the
      selection does NOT select (selection threaded along dict keys, lanes positional) -/
  def CM.eqOff : Sel → CM → CM → Bool
    | s, .leaf v, .leaf v' => s.leaf || decide (v = v')
    | s, .node a, .node b => CML.eqOffKeys s a b
    | s, .lanes a, .lanes b => CML.eqOffPos s a b
    | _, _, _ => false
  def CML.eqOffKeys : Sel → CML → CML → Bool
    | _, .nil, .nil => true
    | s, .cons k v r, .cons k' v' r' =>
        decide (k = k') && CM.eqOff (s.matchAddr k).2 v v' && CML.eqOffKeys s r r'
    | _, _, _ => false
  def CML.eqOffPos : Sel → CML → CML → Bool
    | _, .nil, .nil => true
    | s, .cons _ v r, .cons _ v' r' => CM.eqOff s v v' && CML.eqOffPos s r r'
    | _, _, _ => false
end

section UnselE
variable {K : Type} [One K] [Mul K] {R : Type} (e : R → K)

mutual
  /-- the product, over the UNSELECTED Distribution sites of a trace, of `e (stored score)` - for a
      coherent trace (stored score = -(log density)) the reciprocal of the product of their masses.
      Same threading of the selection as `GF.regenerate` (and as `GF.selScore`). -/
  def GF.unselE : GF → Tr R → Sel → K
    | .dist _, .leaf _ sOld, s => if s.leaf then 1 else e sOld
    | .fn body, .fn subs _ _, s => body.unselE subs s
    | .vmap g _ _, .vec lanes, s => prodK (lanes.toList.map fun t => g.unselE t s)
    | .scan g _, .scan steps _, s => prodK (steps.toList.map fun t => g.unselE t s)
    | _, _, _ => 1
  def Body.unselE : Body → TrL R → Sel → K
    | .ret _, _, _ => 1
    | .call addr g _ rest, subs, s =>
        (match subs.find? addr with
         | some t => g.unselE t (s.matchAddr addr).2
         | none => 1) * rest.unselE subs s
end

end UnselE

/-! ### the Metropolis-Hastings kernel `mh(trace, selection)` (inference/mcmc.py) -/

section MH
variable {K : Type} [Zero K] [One K] [Add K] [Sub K] [Mul K] [LT K] [DecidableLT K]
variable {R : Type} [Zero R] [Add R] [Neg R]

/-- acceptance probability min(1, w) -/
def accProb (w : K) : K := if w < 1 then w else 1

/-- `mh`: `(new, w, _) = regenerate(trace, sel, *args)`, accept with probability min(1, exp w)
    (the model's `w` is already in the linear domain); outcomes are traces (`none` = raised) -/
def mhKernelD (e : R → K) (pd : PD K) (P : Prims R) (cfg : Cfg) (g : GF) (t : Tr R) (s : Sel)
    (args : List Val) : FinDist K (Option (Tr R)) :=
  FinDist.bind (g.regenerateD e pd P cfg t s args) fun o =>
    match o with
    | none => FinDist.pure none
    | some r => [(some r.1, accProb r.2.1), (some t, 1 - accProb r.2.1)]

end MH

end Genjax
