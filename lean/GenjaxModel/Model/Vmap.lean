/-
  Layout model of the sample batching rule (src/genjax/pjax.py, VmapBatchHandler): where the
  mapped axis of a vectorised sampling site sits, and which lane's parameters entry i depends on.
  The keyful sampler returns an array of shape  sample_shape ++ parameter-batch-shape ++ event.
-/
namespace Genjax.Vmap

/-- a sampling site under one modular_vmap of size n -/
structure Site where
  sampleShape : List Nat     -- the site's own sample_shape
  batched : Bool             -- does some parameter carry the mapped axis (moved to the front)?

structure Cfg where
  axisAfterSampleShape : Bool   -- true = repaired rule; false = the pre-repair rule (always axis 0)

/-- shape of the array the rebound sampler returns (event shape omitted) and the output axis the
    rule declares as the mapped one -/
def ruleOut (cfg : Cfg) (s : Site) (n : Nat) : List Nat × Nat :=
  if s.batched then (s.sampleShape ++ [n], if cfg.axisAfterSampleShape then s.sampleShape.length else 0)
  else (n :: s.sampleShape, 0)

/-- which axis of the returned array really indexes the lanes -/
def laneAxis (s : Site) : Nat := if s.batched then s.sampleShape.length else 0

/-- jax.vmap moves the declared axis to the front: resulting shape -/
def moveFront (shape : List Nat) (axis : Nat) : List Nat :=
  shape.getD axis 0 :: shape.eraseIdx axis

end Genjax.Vmap
