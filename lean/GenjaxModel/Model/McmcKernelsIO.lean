import GenjaxModel.Model.McmcKernels
import GenjaxModel.Model.HmmIO
/-!
  driver side of C09, kernels: the MALA and HMC log acceptance ratios on exact rationals for a quadratic
  target `k + b·x − ½ xᵀA x` (gradients computed by the model, `b − A x`).

    (mala-alpha c eps (shape…) k ((A row)…) (b…) (x…) (noise…))
        -> (ok (x'…) log_alpha w fwd bwd (grad x…) (grad x'…) rev)
       x' = malaPropose, log_alpha = malaLogAlpha, w = logp x' − logp x, fwd/bwd the two proposal log
       densities, rev = T iff malaLogRatio x' x = −log_alpha (antisymmetry, evaluated)
    (hmc-alpha c eps n (shape…) k ((A row)…) (b…) (x…) (p…))
        -> (ok (x'…) (p'…) log_alpha logp_x logp_x' rev)
       (x', p') = leapfrogN n (x, p) (momentum BEFORE the flip), rev = T iff hmcLogAlpha at
       flip (x', p') equals −log_alpha and the reversed run returns to flip (x, p)
-/
namespace Genjax
open Mcmc

private def readNats (l : List SExp) : Option (List Nat) :=
  l.mapM fun | .atom a => a.toNat? | _ => none

def stepMcmcKernels : SExp → Option SExp
  | .list [.atom "mala-alpha", .atom c, .atom eps, .list shape, .atom k, .list a, .list b, .list x,
           .list noise] => do
      let c ← readRat c
      let eps ← readRat eps
      let shape ← readNats shape
      let k ← readRat k
      let a ← readMat a
      let b ← readRats b
      let x ← readRats x
      let noise ← readRats noise
      let logp := quadLogp k a b
      let grad := quadGrad a b
      let (x', la) := malaStep c eps shape logp grad x noise
      let fwd := malaLogProb c eps shape x x' (grad x)
      let bwd := malaLogProb c eps shape x' x (grad x')
      let rev := malaLogRatio c eps shape logp grad x' x == -la
      pure (.list [.atom "ok", showRats x', .atom (showRat la), .atom (showRat (logp x' - logp x)),
                   .atom (showRat fwd), .atom (showRat bwd), showRats (grad x), showRats (grad x'),
                   showBool rev])
  | .list [.atom "hmc-alpha", .atom c, .atom eps, .atom n, .list shape, .atom k, .list a, .list b,
           .list x, .list p] => do
      let c ← readRat c
      let eps ← readRat eps
      let n ← n.toNat?
      let shape ← readNats shape
      let k ← readRat k
      let a ← readMat a
      let b ← readRats b
      let x ← readRats x
      let p ← readRats p
      let logp := quadLogp k a b
      let grad := quadGrad a b
      let fin := leapfrogN grad eps n (x, p)
      let la := hmcLogAlpha c eps n shape logp grad x p
      let (s', la') := hmcStep c eps n shape logp grad (flip fin).1 (flip fin).2
      let rev := la' == -la && s' == (x, p)
      pure (.list [.atom "ok", showRats fin.1, showRats fin.2, .atom (showRat la),
                   .atom (showRat (logp x)), .atom (showRat (logp fin.1)), showBool rev])
  | _ => none

end Genjax
