import GenjaxModel.Model.AdevProg
import GenjaxModel.Model.AdevIO
/-!
  driver side of C11, whole programs: a concrete syntax for the discrete ADEV programs of
  `Model/AdevProg.lean` (`SProg` / `Prog`), so that the Python harness can hand the SAME program
  to the real interpreter (`genjax.adev.expectation(f).jvp_estimate`) and to the model.

  A program is a sequence of sites followed by a returned term; the parameter of a site and the
  returned term are small arithmetic terms (`ATerm`) over θ (the dual ⟨θ, 1⟩), rational constants
  and the outcomes of EARLIER sites (site `i` counted from 0 in program order; a Bernoulli outcome
  is 1 / 0, a categorical outcome its index).  Terms are evaluated in dual arithmetic - exactly what
  the interpreter's default-JVP rule does for deterministic equations (603-632).

  Grammar (s-expressions, one command per line):

      command ::= (adev-prog <rat θ> <prog>)
      prog    ::= (ret <expr>)
                | (flip <fest> <expr> <prog>)            fest ::= enum | enum_par | reinforce | mvd
                | (cat  <cest> (<expr> ...) <prog>)      cest ::= enum_par | reinforce
                | (branch <i> <prog> <prog>)             `lax.cond` on the earlier outcome i (≠ 0 / = 0)
      expr    ::= th | <rat> | (dual <rat v> <rat d>) | (o <i>) | (+ e e) | (- e e) | (* e e) | (/ e e) | (neg e)
                | (if <i> e e)                           `where(outcome i ≠ 0, e, e)`
                | (eq <i> <n> e e)                       `where(outcome i = n, e, e)`
  (`(dual v d)` is a literal dual: a function of θ the model cannot compute - e.g. sin θ - whose value and
  derivative at θ the harness supplies.)

  The expressions of a `cat` site are unnormalised weights w_j; the site's probabilities are
  w_j / Σ w (in dual arithmetic) - the duals of `softmax(log w)`, which is what the harness feeds
  `categorical_enum_parallel` (its argument is a vector of logits, 1455-1463).

      answer  ::= (ok (exact <v> <d>) (mean <v> <d>) (mass <m>) (paths <n>) (guards T|F) (sprog T|F)
                      (est (<prob> <v> <d>) ...))

  `exact` = `Prog.exact`, `est` = `Prog.est` with equal duals merged and sorted by (value, tangent),
  `mean`/`mass` = mean and total mass of `est` (by `C11_program_unbiased` `mean = exact` whenever
  `guards` = T), `paths` = number of outcome paths of `est` before merging, `sprog` = T when the
  program has no `branch` and was run through `SProg.toProg` (then it is also compared with the
  direct unfolding).
-/
namespace Genjax
namespace Adev

section Ast
variable {K : Type} [Zero K] [One K] [Add K] [Sub K] [Mul K] [Div K] [Neg K] [NatCast K]

/-- quotient rule: the JVP of `x / y` -/
def Dual.divD (a b : Dual K) : Dual K := ⟨a.v / b.v, (a.d * b.v - a.v * b.d) / (b.v * b.v)⟩

/-- arithmetic terms over θ, constants and earlier outcomes -/
inductive ATerm (K : Type) where
  | theta
  | const (c : K)
  | lit (v d : K)
  | out (i : Nat)
  | add (a b : ATerm K)
  | sub (a b : ATerm K)
  | mul (a b : ATerm K)
  | div (a b : ATerm K)
  | neg (a : ATerm K)
  | ite (i : Nat) (a b : ATerm K)
  | eqn (i n : Nat) (a b : ATerm K)

/-- evaluation in dual arithmetic; `outs` are the outcomes drawn so far (missing → 0) -/
def ATerm.eval (th : Dual K) (outs : List Outcome) : ATerm K → Dual K
  | .theta => th
  | .const c => Dual.const c
  | .lit v d => ⟨v, d⟩
  | .out i => Dual.const ((outs.getD i 0 : Nat) : K)
  | .add a b => Dual.add (a.eval th outs) (b.eval th outs)
  | .sub a b => Dual.sub (a.eval th outs) (b.eval th outs)
  | .mul a b => Dual.mul (a.eval th outs) (b.eval th outs)
  | .div a b => Dual.divD (a.eval th outs) (b.eval th outs)
  | .neg a => Dual.neg (a.eval th outs)
  | .ite i a b => if outs.getD i 0 ≠ 0 then a.eval th outs else b.eval th outs
  | .eqn i n a b => if outs.getD i 0 = n then a.eval th outs else b.eval th outs

/-- abstract syntax of programs -/
inductive PAst (K : Type) where
  | ret (e : ATerm K)
  | flip (est : FlipEst) (p : ATerm K) (rest : PAst K)
  | cat (est : CatEst) (ws : List (ATerm K)) (rest : PAst K)
  | branch (i : Nat) (t e : PAst K)

/-- probabilities of a categorical site from its weights: w_j / Σ w in dual arithmetic
    (= the duals of softmax(log w)) -/
def normaliseD (ws : List (Dual K)) : List (Dual K) :=
  ws.map fun w => Dual.divD w (sumD ws)

/-- the outcome tree of a program started after the outcomes `outs` -/
def PAst.toProg (th : Dual K) : PAst K → List Outcome → Prog K
  | .ret e, outs => .ret (e.eval th outs)
  | .flip est p rest, outs => .flip est (p.eval th outs) fun b => rest.toProg th (outs ++ [b.toNat])
  | .cat est ws rest, outs =>
      .cat est (normaliseD (ws.map fun w => w.eval th outs)) fun i => rest.toProg th (outs ++ [i])
  | .branch i t e, outs => if outs.getD i 0 ≠ 0 then t.toProg th outs else e.toProg th outs

/-- a program without `branch` as a straight-line program of the model -/
def PAst.toSProg (th : Dual K) : PAst K → Option (SProg K)
  | .ret e => some (.ret fun outs => e.eval th outs)
  | .flip est p rest => (rest.toSProg th).map fun r => .flip est (fun outs => p.eval th outs) r
  | .cat est ws rest => (rest.toSProg th).map fun r =>
      .cat est (fun outs => normaliseD (ws.map fun w => w.eval th outs)) r
  | .branch _ _ _ => none

end Ast

/-! ### guards, canonical form of a finite distribution of duals (over `Rat`) -/

/-- the guards `Prog.OK` of `C11_program_unbiased`, decided: categorical sites normalised,
    REINFORCE outcome probabilities non-zero, at every site of the tree -/
def Prog.okB : Prog Rat → Bool
  | .ret _ => true
  | .flip e p k =>
      (e != .reinforce || (p.v != 0 && 1 - p.v != 0)) && okB (k true) && okB (k false)
  | .cat e ps k =>
      (sumD ps).v == 1 && (e != .reinforce || ps.all fun q => q.v != 0)
        && (List.range ps.length).all fun i => okB (k i)

/-- insert (value, tangent, probability) into a list sorted by (value, tangent), merging equal duals -/
def canonInsert (v d p : Rat) : List (Rat × Rat × Rat) → List (Rat × Rat × Rat)
  | [] => [(v, d, p)]
  | (v', d', p') :: tl =>
      if v = v' ∧ d = d' then (v, d, p + p') :: tl
      else if v < v' ∨ (v = v' ∧ d < d') then (v, d, p) :: (v', d', p') :: tl
      else (v', d', p') :: canonInsert v d p tl

/-- merge equal duals, sort by (value, tangent) -/
def canon (dist : Genjax.Smc.FinDist Rat (Dual Rat)) : List (Rat × Rat × Rat) :=
  dist.foldl (fun acc (r, p) => canonInsert r.v r.d p acc) []

def sumRat (l : List Rat) : Rat := l.foldl (· + ·) 0

/-- everything the driver reports about a program -/
structure Report where
  exact : Dual Rat
  mean : Dual Rat
  mass : Rat
  paths : Nat
  guards : Bool
  sprog : Bool
  est : List (Rat × Rat × Rat)

/-- the outcome tree a report is about: straight-line programs (no `branch`) go through the model's
    `SProg.toProg`, the others are unfolded directly -/
def PAst.reportProg (theta : Rat) (a : PAst Rat) : Prog Rat :=
  match a.toSProg ⟨theta, 1⟩ with
  | some sp => sp.toProg []
  | none => a.toProg ⟨theta, 1⟩ []

def PAst.report (theta : Rat) (a : PAst Rat) : Report :=
  let prog := a.reportProg theta
  let direct := a.toProg ⟨theta, 1⟩ []
  { exact := prog.exact
    mean := ⟨sumRat (prog.est.map fun (r, p) => p * r.v), sumRat (prog.est.map fun (r, p) => p * r.d)⟩
    mass := sumRat (prog.est.map (·.2))
    paths := prog.est.length
    guards := Prog.okB prog
    -- `sprog`: the program is straight-line and the unfolding through `SProg.toProg` and the direct
    -- one give the same exact dual and the same estimator distribution
    sprog := (a.toSProg ⟨theta, 1⟩).isSome && prog.exact == direct.exact && canon prog.est == canon direct.est
    est := canon prog.est }

end Adev

open Adev

partial def readATerm : SExp → Option (ATerm Rat)
  | .atom "th" => some .theta
  | .atom a => (readRat a).map ATerm.const
  | .list [.atom "dual", .atom v, .atom d] => do pure (.lit (← readRat v) (← readRat d))
  | .list [.atom "o", .atom i] => i.toNat?.map ATerm.out
  | .list [.atom "+", a, b] => do pure (.add (← readATerm a) (← readATerm b))
  | .list [.atom "-", a, b] => do pure (.sub (← readATerm a) (← readATerm b))
  | .list [.atom "*", a, b] => do pure (.mul (← readATerm a) (← readATerm b))
  | .list [.atom "/", a, b] => do pure (.div (← readATerm a) (← readATerm b))
  | .list [.atom "neg", a] => do pure (.neg (← readATerm a))
  | .list [.atom "if", .atom i, a, b] => do pure (.ite (← i.toNat?) (← readATerm a) (← readATerm b))
  | .list [.atom "eq", .atom i, .atom n, a, b] => do
      pure (.eqn (← i.toNat?) (← n.toNat?) (← readATerm a) (← readATerm b))
  | _ => none

def readFlipEst : String → Option FlipEst
  | "enum" => some .enum
  | "enum_par" => some .enumPar
  | "reinforce" => some .reinforce
  | "mvd" => some .mvd
  | _ => none

def readCatEst : String → Option CatEst
  | "enum_par" => some .enumPar
  | "reinforce" => some .reinforce
  | _ => none

partial def readAProg : SExp → Option (PAst Rat)
  | .list [.atom "ret", e] => (readATerm e).map PAst.ret
  | .list [.atom "flip", .atom est, p, rest] => do
      pure (.flip (← readFlipEst est) (← readATerm p) (← readAProg rest))
  | .list [.atom "cat", .atom est, .list ws, rest] => do
      pure (.cat (← readCatEst est) (← ws.mapM readATerm) (← readAProg rest))
  | .list [.atom "branch", .atom i, t, e] => do
      pure (.branch (← i.toNat?) (← readAProg t) (← readAProg e))
  | _ => none

def stepAdevProg : SExp → Option SExp
  | .list [.atom "adev-prog", .atom theta, prog] => do
      let r := (← readAProg prog).report (← readRat theta)
      let pair (tag : String) (x : Dual Rat) : SExp :=
        .list [.atom tag, .atom (showRat x.v), .atom (showRat x.d)]
      pure (.list [.atom "ok", pair "exact" r.exact, pair "mean" r.mean,
        .list [.atom "mass", .atom (showRat r.mass)],
        .list [.atom "paths", .atom (toString r.paths)],
        .list [.atom "guards", showBool r.guards],
        .list [.atom "sprog", showBool r.sprog],
        .list (.atom "est" :: r.est.map fun (v, d, p) =>
          .list [.atom (showRat p), .atom (showRat v), .atom (showRat d)])])
  | _ => none

end Genjax
