import GenjaxModel.Model.Gfi
import GenjaxModel.Model.SelIO
/-! Driver side of the GFI model: readers, printers, the concrete probe distributions over `Rat`,
    and the op-sequence interpreter used by C01–C05. -/
namespace Genjax
open SExp

def readRat (s : String) : Option Rat :=
  match s.splitOn "/" with
  | [n] => n.toInt?.map fun i => (i : Rat)
  | [n, d] => do
      let i ← n.toInt?
      let k ← d.toNat?
      if k = 0 then none else pure (mkRat i k)
  | _ => none

def showRat (q : Rat) : String :=
  if q.den = 1 then toString q.num else s!"{q.num}/{q.den}"

partial def readVal : SExp → Option Val
  | .atom a => (readRat a).map Val.num
  | .list l => (l.mapM readVal).map Val.ofList

partial def showVal : Val → SExp
  | .num q => .atom (showRat q)
  | v => .list (v.toList.map showVal)

partial def readExpr : SExp → Option Expr
  | .list [.atom "c", .atom q] => (readRat q).map Expr.const
  | .list [.atom "v", .atom i] => i.toNat?.map Expr.var
  | .list [.atom "+", a, b] => do pure (.add (← readExpr a) (← readExpr b))
  | .list [.atom "-", a, b] => do pure (.sub (← readExpr a) (← readExpr b))
  | .list [.atom "*", a, b] => do pure (.mul (← readExpr a) (← readExpr b))
  | .list [.atom "<", a, b] => do pure (.lt (← readExpr a) (← readExpr b))
  | .list [.atom "sum", a] => do pure (.sumv (← readExpr a))
  | .list [.atom "pair", a, b] => do pure (.pair (← readExpr a) (← readExpr b))
  | .list [.atom "fst", a] => do pure (.fst (← readExpr a))
  | .list [.atom "snd", a] => do pure (.snd (← readExpr a))
  | _ => none

def readBools : List SExp → Option (List Bool)
  | [] => some []
  | .atom "T" :: r => (readBools r).map (true :: ·)
  | .atom "F" :: r => (readBools r).map (false :: ·)
  | _ => none

mutual
  partial def readGF : SExp → Option GF
    | .list [.atom "dist", .atom d] => d.toNat?.map GF.dist
    | .list [.atom "fn", b] => (readBody b).map GF.fn
    | .list [.atom "vmap", g, .list axes, .atom n] => do
        pure (.vmap (← readGF g) (← readBools axes) (← n.toNat?))
    | .list [.atom "scan", g, .atom n] => do pure (.scan (← readGF g) (← n.toNat?))
    | .list [.atom "cond", t, f] => do pure (.cond (← readGF t) (← readGF f))
    | _ => none
  partial def readBody : SExp → Option Body
    | .list [.atom "ret", e] => (readExpr e).map Body.ret
    | .list [.atom "call", .atom addr, g, .list es, rest] => do
        pure (.call addr (← readGF g) (← es.mapM readExpr) (← readBody rest))
    | _ => none
end

mutual
  partial def readCM : SExp → Option CM
    | .list [.atom "leaf", v] => (readVal v).map CM.leaf
    | .list (.atom "node" :: kvs) => (readCML kvs).map CM.node
    | .list (.atom "lanes" :: xs) => do
        let l ← xs.mapM readCM
        pure (.lanes (CML.ofList l))
    | _ => none
  partial def readCML : List SExp → Option CML
    | [] => some .nil
    | .list [.atom k, v] :: rest => do pure (.cons k (← readCM v) (← readCML rest))
    | _ => none
end

mutual
  partial def showCM : CM → SExp
    | .leaf v => .list [.atom "leaf", showVal v]
    | .node kids => .list (.atom "node" :: showCML kids)
    | .lanes kids => .list (.atom "lanes" :: kids.toList.map showCM)
  partial def showCML : CML → List SExp
    | .nil => []
    | .cons k v rest => .list [.atom k, showCM v] :: showCML rest
end

def readOptCM : SExp → Option (Option CM)
  | .atom "none" => some none
  | e => (readCM e).map some

def showOptCM : Option CM → SExp
  | none => .atom "none"
  | some c => showCM c

/-- the probe distributions shared with the Python harness (harness/probes.py).
    `lp` is a small-integer polynomial (exact in float32 on dyadic inputs);
    `draw` is the deterministic "sample" of the probe sampler. -/
def ratPrims : Prims Rat where
  lp := fun d args v =>
    let x := v.toRat
    let a := (args.getD 0 (.num 0)).toRat
    let b := (args.getD 1 (.num 0)).toRat
    match d with
    | 0 => -((x - a) * (x - a))
    | 1 => -((x - a) * (x - a)) + b * x - 1
    | _ => -(x * x) / 2 - 1 / 4
  draw := fun d args =>
    let a := (args.getD 0 (.num 0)).toRat
    let b := (args.getD 1 (.num 0)).toRat
    match d with
    | 0 => .num (a + 1 / 2)
    | 1 => .num (a - b + 1 / 4)
    | _ => .num (3 / 4)

def readCfg (s : String) : Option Cfg :=
  match s.toList with
  | [a, b, c, d, e] => some ⟨a == 'T', b == 'T', c == 'T', d == 'T', e == 'T'⟩
  | [a, b, c, d] => some ⟨a == 'T', b == 'T', c == 'T', d == 'T', false⟩
  | _ => none

def showTrace (t : Tr Rat) : List SExp :=
  [.list [.atom "choices", match t.choices with | some c => showCM c | none => .atom "err"],
   .list [.atom "score", .atom (showRat t.score)],
   .list [.atom "retval", showVal t.retval]]

/-- interpret one op against the current trace -/
def gfiOp (cfg : Cfg) (g : GF) (cur : Option (Tr Rat)) : SExp → Option (Tr Rat) × SExp
  | .list [.atom "simulate", args] =>
    match readVal args with
    | some a =>
      match g.simulate ratPrims a.toList with
      | some t => (some t, .list (.atom "ok" :: showTrace t))
      | none => (cur, .list [.atom "err"])
    | none => (cur, .list [.atom "bad-op"])
  | .list [.atom "assess", x, args] =>
    match readCM x, readVal args with
    | some x, some a =>
      match g.assess ratPrims x a.toList with
      | some (lp, r) => (cur, .list [.atom "ok", .list [.atom "logp", .atom (showRat lp)], .list [.atom "retval", showVal r]])
      | none => (cur, .list [.atom "err"])
    | _, _ => (cur, .list [.atom "bad-op"])
  | .list [.atom "generate", x, args] =>
    match readOptCM x, readVal args with
    | some x, some a =>
      match g.generate ratPrims cfg x a.toList with
      | some (t, w) => (some t, .list (.atom "ok" :: showTrace t ++ [.list [.atom "w", .atom (showRat w)]]))
      | none => (cur, .list [.atom "err"])
    | _, _ => (cur, .list [.atom "bad-op"])
  | .list [.atom "update", x, args] =>
    match readOptCM x, readVal args, cur with
    | some x, some a, some tr =>
      match g.update ratPrims cfg tr x a.toList with
      | some (t, w, d) => (some t, .list (.atom "ok" :: showTrace t ++ [.list [.atom "w", .atom (showRat w)], .list [.atom "discard", showOptCM d]]))
      | none => (cur, .list [.atom "err"])
    | _, _, _ => (cur, .list [.atom "bad-op"])
  | .list [.atom "regenerate", s, args] =>
    match readSel s, readVal args, cur with
    | some s, some a, some tr =>
      match g.regenerate ratPrims cfg tr s a.toList with
      | some (t, w, d) => (some t, .list (.atom "ok" :: showTrace t ++ [.list [.atom "w", .atom (showRat w)], .list [.atom "discard", showOptCM d]]))
      | none => (cur, .list [.atom "err"])
    | _, _, _ => (cur, .list [.atom "bad-op"])
  | _ => (cur, .list [.atom "bad-op"])

def gfiOps (cfg : Cfg) (g : GF) : Option (Tr Rat) → List SExp → List SExp
  | _, [] => []
  | cur, op :: ops =>
    let (cur', out) := gfiOp cfg g cur op
    out :: gfiOps cfg g cur' ops

def stepGfi : SExp → Option SExp
  | .list (.atom "gfi" :: .atom cfg :: g :: ops) => do
      let cfg ← readCfg cfg
      let g ← readGF g
      pure (.list (.atom "results" :: gfiOps cfg g none ops))
  | _ => none

end Genjax
