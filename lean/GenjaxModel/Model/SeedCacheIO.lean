import GenjaxModel.Model.SeedCache
import GenjaxModel.Model.SExp
/-!
  driver side of the staging-cache model (C06):

  (seedcache (jax sw tk) <cfgO> <cfgF> (<event> …))
     jax    : sw = `get_shaped_aval` keeps Python scalars weak, tk = tracers keep weak types        (T|F)
     cfg    ::= (fn tree shapeDtype weak kwNames statics cap)      six flags T|F, cap ::= none | n
     event  ::= (seeded <mode> <ucall> (<ucall> …))    the seeded call and the sampler sites traced when its function is staged
              | (unseeded <ucall>)                       a sampler called outside any staging
     mode   ::= eager | jit | vmap | jitvmap
     ucall  ::= (fn <tree> (<arg> …) (kw …) (<static> …))          fn of a site = its binder
     tree   ::= L | (<tree> …)
     arg    ::= (py dtype) | (arr (d …) dtype)
     static ::= none | (int i) | (str s) | (bool T|F)
  -> (ok <res> …) one per event;  unseeded: -
     seeded: ((hit|miss) (same|stale) o (s …))
        hit|miss   the `stage` cache lookup of the call
        same|stale does the call return what it returns in a fresh process (model: the program run is the fresh one)
        o          index of the first seeded EVENT whose call has the relevant projection the executed jaxpr was staged at
        s …        per sampler site of the executed jaxpr: index, in the list of all sites of the history (sites of seeded
                   events in order, an unseeded event counts as one site), of the first site with the relevant projection
                   the executed flat sampler was staged at
-/
namespace Genjax
open SeedCache

namespace SeedCacheIO

def readB : SExp → Option Bool
  | .atom "T" => some true
  | .atom "F" => some false
  | _ => none

def readCfg : SExp → Option Cfg
  | .list [a, b, c, d, e, f, .atom cap] => do
      let cap ← if cap == "none" then some none else cap.toNat?.map some
      pure ⟨← readB a, ← readB b, ← readB c, ← readB d, ← readB e, ← readB f, cap⟩
  | _ => none

partial def readTree : SExp → Option Tree
  | .atom "L" => some .leaf
  | .list cs => (cs.mapM readTree).map Tree.node
  | _ => none

def readNatList (l : List SExp) : Option (List Nat) := l.mapM fun | .atom a => a.toNat? | _ => none
def readStrList (l : List SExp) : Option (List String) := l.mapM fun | .atom a => some a | _ => none

def readArg : SExp → Option UArg
  | .list [.atom "py", .atom d] => some (.py d)
  | .list [.atom "arr", .list s, .atom d] => (readNatList s).map fun s => .arr s d
  | _ => none

def readVal : SExp → Option Val
  | .atom "none" => some .none
  | .list [.atom "int", .atom i] => i.toInt?.map Val.int
  | .list [.atom "str", .atom s] => some (.str s)
  | .list [.atom "bool", b] => (readB b).map Val.bool
  | _ => none

def readUCall : SExp → Option UCall
  | .list [.atom fn, t, .list args, .list kw, .list st] => do
      pure ⟨← fn.toNat?, ← readTree t, ← args.mapM readArg, ← readStrList kw, ← st.mapM readVal, []⟩
  | _ => none

def readMode : SExp → Option Mode
  | .atom "eager" => some .eager
  | .atom "jit" => some .jit
  | .atom "vmap" => some .vmapKeys
  | .atom "jitvmap" => some .jitVmap
  | _ => none

/-- an event as read: the presented call with its presented sites -/
inductive Ev where
  | seeded (c : Call) (sites : List Call)
  | unseeded (s : Call)

def readEv (j : JaxCfg) : SExp → Option Ev
  | .list [.atom "seeded", m, c, .list sites] => do
      let m ← readMode m
      pure (.seeded (present j m (← readUCall c)) ((← sites.mapM readUCall).map (present j m)))
  | .list [.atom "unseeded", s] => do pure (.unseeded (present j .eager (← readUCall s)))
  | _ => none

/-- the body function of the history: the sites of the first seeded event with the same relevant projection -/
def bodyOf : List Ev → Call → List Call
  | [], _ => []
  | .seeded c sites :: rest, c' => if relevant c = relevant c' then sites else bodyOf rest c'
  | .unseeded _ :: rest, c' => bodyOf rest c'

def allSites : List Ev → List Call
  | [] => []
  | .seeded _ sites :: rest => sites ++ allSites rest
  | .unseeded s :: rest => s :: allSites rest

def seededCalls : List Ev → List Call
  | [] => []
  | .seeded c _ :: rest => c :: seededCalls rest
  | .unseeded _ :: rest => seededCalls rest

def toEvent : Ev → Event
  | .seeded c _ => .seeded c
  | .unseeded s => .unseeded s

def firstIdx (r : Rel) (l : List Call) : SExp :=
  match l.findIdx? (fun c => relevant c = r) with
  | some i => .atom (toString i)
  | none => .atom "?"

abbrev FreeState := State Rel (Rel × List Rel)

/-- run the history, reporting per seeded event the lookup outcome, transparency and the provenance of the programs run -/
def report (w : World Rel (Rel × List Rel) ((Rel × List Rel) × List Int)) (cfgO cfgF : Cfg) (evs : List Ev) :
    FreeState → List Ev → List SExp
  | _, [] => []
  | st, e :: rest =>
      let r := step w cfgO cfgF st (toEvent e)
      let out : SExp := match e, r.1 with
        | .seeded c _, some res =>
            let hit := (lookup (keyOf cfgO c) st.outer).isSome
            .list [.atom (if hit then "hit" else "miss"),
                   .atom (if res = fresh w c then "same" else "stale"),
                   firstIdx res.1.1 (seededCalls evs),
                   .list (res.1.2.map fun fr => firstIdx fr (allSites evs))]
        | _, _ => .atom "-"
      out :: report w cfgO cfgF evs r.2 rest

end SeedCacheIO

open SeedCacheIO in
def stepSeedCache : SExp → Option SExp
  | .list [.atom "seedcache", .list [.atom "jax", sw, tk], cfgO, cfgF, .list evs] => do
      let j : JaxCfg := ⟨← readB sw, ← readB tk⟩
      let cfgO ← readCfg cfgO
      let cfgF ← readCfg cfgF
      let evs ← evs.mapM (readEv j)
      let w := World.free (bodyOf evs)
      pure (.list (.atom "ok" :: report w cfgO cfgF evs State.empty evs))
  | _ => none

end Genjax
