import GenjaxModel.Model.GfiDist
/-
  One particle of `init` / `extend` of src/genjax/inference/smc.py, written with the
  generative-function model of `Model/Gfi.lean` / `Model/GfiDist.lean` (finite-support randomness,
  weights in the LINEAR domain: `w = exp(log_weight)`).

    init (smc.py:272-371), default proposal:
        target_trace, log_weight = target_gf.generate(constraints, *target_args)
    init, custom proposal:
        proposal_trace   = proposal_gf.simulate(constraints, *target_args)
        proposal_choices = proposal_trace.get_choices()
        proposal_score   = proposal_trace.get_score()                       # log(1 / q(z))
        merged_choices,_ = target_gf.merge(proposal_choices, constraints)   # CONSTRAINTS are second
        target_trace, target_weight = target_gf.generate(merged_choices, *target_args)
        log_weight = target_weight + proposal_score
    extend (smc.py:449-530): the same per particle with the extended target, the particle's own
        argument tuple, the weight accumulated onto the old one, and
        merged_choices,_ = extended_target_gf.merge(constraints, extension_choices)   # PROPOSAL second

  * `target_gf.merge(a, b)` is `Fn.merge` WITHOUT a check (core.py:2222-2264): keys of either side are
    kept, nested dicts merge recursively, and on an address both sides carry the SECOND argument wins:
    `CM.mergeNoCheck a b` (modelled for dict-shaped choice maps, i.e. `Fn` targets; for a top-level
    `Vmap`/`Scan` target the model's `none` means "not modelled").
  * the proposal's arguments `(constraints, *target_args)` resp. `(constraints, old_choices, *args)`
    are the argument list `qargs` of the model program `q` (model programs take values).
  * `exp(proposal_score) = 1 / q(z)`: the mass `q.assessP` assigns to the proposal's choice map `z`
    (`particleScoreD` is the variant that reads the trace's stored score instead, through an
    exponential `e : R → K`; `Proofs/SmcInit.lean` shows that both agree).

  Mathlib-free and executable (runs on `Rat`).
-/
namespace Genjax.Smc
open Genjax Smc.FinDist

section Particle
variable {K : Type} [One K] [Mul K] [Div K] {R : Type} [Zero R] [Add R] [Neg R]
variable (pd : PD K) (P : Prims R) (cfg : Cfg)

/-- the choice map handed to `target.generate`:
    `init`   (`constraintsSecond = true`):  `merge(proposal_choices, constraints)`,
    `extend` (`constraintsSecond = false`): `merge(constraints, extension_choices)` -/
def smcMerge (constraintsSecond : Bool) (obs z : CM) : Option CM :=
  if constraintsSecond then CM.mergeNoCheck z obs else CM.mergeNoCheck obs z

/-- the continuation of a particle once the proposal's choice map `z` is known: merge, look up the
    proposal mass `q(z)`, run `generate` of the target on the merged map, divide the weight -/
def afterProposalD (constraintsSecond : Bool) (target : GF) (targs : List Val) (obs : CM)
    (q : GF) (qargs : List Val) (z : CM) : FinDist K (Option (Tr R × K)) :=
  match smcMerge constraintsSecond obs z, q.assessP pd z qargs with
  | some m, some qr =>
      bindO (target.generateD pd P cfg (some m) targs) fun tw => pureO (tw.1, tw.2 / qr.1)
  | _, _ => failO

/-- one particle with a custom proposal: (trace of the target, importance weight
    `generate weight / q(z)`); `none` = the code raises -/
def proposalParticleD (constraintsSecond : Bool) (target : GF) (targs : List Val) (obs : CM)
    (q : GF) (qargs : List Val) : FinDist K (Option (Tr R × K)) :=
  bindO (q.simD pd P qargs) fun pt =>
    match pt.choices with
    | none => failO
    | some z => afterProposalD pd P cfg constraintsSecond target targs obs q qargs z

/-- **one particle of `init`** (linear domain): default proposal = `generate` under the constraints;
    custom proposal `(q, qargs)` = simulate the proposal, merge its choices with the constraints (the
    constraints win), `generate` the target on the merged map, weight `w / q(z)` -/
def initParticleD (target : GF) (targs : List Val) (obs : CM) :
    Option (GF × List Val) → FinDist K (Option (Tr R × K))
  | none => target.generateD pd P cfg (some obs) targs
  | some qa => proposalParticleD pd P cfg true target targs obs qa.1 qa.2

/-- **one particle of `extend`**: the incremental weight of the step (the code adds its log to the
    particle's old log weight); with a custom extension proposal the PROPOSAL's choices win in the
    merge -/
def extendParticleD (target : GF) (targs : List Val) (obs : CM) :
    Option (GF × List Val) → FinDist K (Option (Tr R × K))
  | none => target.generateD pd P cfg (some obs) targs
  | some qa => proposalParticleD pd P cfg false target targs obs qa.1 qa.2

/-- the variant reading the proposal trace's stored score, as the code does:
    `log_weight = target_weight + proposal_score`, i.e. `w · e(score)` for the exponential `e` -/
def particleScoreD (e : R → K) (constraintsSecond : Bool) (target : GF) (targs : List Val) (obs : CM)
    (q : GF) (qargs : List Val) : FinDist K (Option (Tr R × K)) :=
  bindO (q.simD pd P qargs) fun pt =>
    match pt.choices with
    | none => failO
    | some z =>
      match smcMerge constraintsSecond obs z with
      | none => failO
      | some m =>
        bindO (target.generateD pd P cfg (some m) targs) fun tw => pureO (tw.1, tw.2 * e pt.score)

/-- the seeded regression (/verif/seeded/C10_3): `log_weight = proposal_score − trace.get_score()`,
    i.e. the FULL joint density of the generated trace divided by the proposal mass
    (`assessP(y) / q(z)`); correct only when proposal + constraints cover every address -/
def wrongParticleD (constraintsSecond : Bool) (target : GF) (targs : List Val) (obs : CM)
    (q : GF) (qargs : List Val) : FinDist K (Option (Tr R × K)) :=
  bindO (q.simD pd P qargs) fun pt =>
    match pt.choices with
    | none => failO
    | some z =>
      match smcMerge constraintsSecond obs z, q.assessP pd z qargs with
      | some m, some qr =>
          bindO (target.generateD pd P cfg (some m) targs) fun tw =>
            match tw.1.choices with
            | none => failO
            | some y =>
              match target.assessP pd y targs with
              | none => failO
              | some pr => pureO (tw.1, pr.1 / qr.1)
      | _, _ => failO

end Particle

/-! ### particles as states of the abstract particle system of `Model/Smc.lean` -/

/-- state of one particle in a pipeline of GFI steps -/
inductive Part (K R : Type) where
  | start                          -- before `init`
  | raised                         -- the code raised (absorbing; weight 0)
  | live (t : Tr R) (wIncr : K)    -- current trace, and the incremental weight of the last step

section Pipeline
variable {K : Type} [Zero K] [One K] [Mul K] [Div K] {R : Type} [Zero R] [Add R] [Neg R]

/-- an outcome of a particle computation as a particle state -/
def Part.ofOutcome : Option (Tr R × K) → Part K R
  | none => .raised
  | some tw => .live tw.1 tw.2

/-- the incremental weight a state carries -/
def Part.incr : Part K R → K
  | .start => 1
  | .raised => 0
  | .live _ w => w

def Part.trace? : Part K R → Option (Tr R)
  | .live t _ => some t
  | _ => none

/-- one `init` / `extend` step given by generative functions: the target, its argument tuple as a
    function of the particle's previous trace (`none` before `init`; `rejuvenation_smc` feeds the
    previous return value), the constraints, optionally a proposal with its argument list, and which
    side of the merge the constraints are on (`true` for `init`, `false` for `extend`) -/
structure GfiStep (R : Type) where
  target : GF
  targs : Option (Tr R) → List Val
  obs : CM
  proposal : Option (GF × (Option (Tr R) → List Val))
  constraintsSecond : Bool

variable (pd : PD K) (P : Prims R) (cfg : Cfg)

/-- the particle computation of a step from a previous trace -/
def GfiStep.run (st : GfiStep R) (prev : Option (Tr R)) : FinDist K (Option (Tr R × K)) :=
  match st.proposal with
  | none => st.target.generateD pd P cfg (some st.obs) (st.targs prev)
  | some qa =>
      proposalParticleD pd P cfg st.constraintsSecond st.target (st.targs prev) st.obs qa.1
        (qa.2 prev)

/-- the proposal kernel `q(x' | x)` of `Model/Smc.lean`'s `extendStep`, on particle states -/
def GfiStep.kernel (st : GfiStep R) : Part K R → FinDist K (Part K R)
  | .raised => FinDist.pure .raised
  | x => (st.run pd P cfg x.trace?).map fun (o, p) => (Part.ofOutcome o, p)

/-- the incremental weight `G(x, x')` of `extendStep`: the weight the step's outcome carries -/
def GfiStep.incrWeight (_x x' : Part K R) : K := x'.incr

end Pipeline

end Genjax.Smc
