import GenjaxModel.Model.State
import GenjaxModel.Model.GfiIO
/-! driver side of C19 -/
namespace Genjax
open State

mutual
  partial def readSP : SExp → Option SP
    | .list [.atom "tag", .atom name, .atom id] => id.toNat?.map (SP.tag name)
    | .list [.atom "leaf", .atom id] => id.toNat?.map SP.leafTag
    | .list [.atom "push", .atom ns] => some (.push ns)
    | .atom "pop" => some .pop
    | .atom "other" => some .other
    | .list [.atom "scan", .list body, .atom n] => do pure (.scan (← readSPL body) (← n.toNat?))
    | .list [.atom "vmap", .list body, .atom n] => do pure (.vmap (← readSPL body) (← n.toNat?))
    | _ => none
  partial def readSPL : List SExp → Option SPL
    | [] => some .nil
    | s :: rest => do pure (.cons (← readSP s) (← readSPL rest))
end

partial def showSV : SV → SExp
  | .atom id idx => .list (.atom "a" :: .atom (toString id) :: idx.map fun (i : Nat) => SExp.atom (toString i))
  | .stack l => .list (.atom "s" :: l.map showSV)

def showStore (s : Store) : SExp :=
  .list (s.map fun e => SExp.list [.list (e.1.map SExp.atom), showSV e.2])

def stepState : SExp → Option SExp
  | .list [.atom "state", .atom cfg, .list prog] => do
      let p ← readSPL prog
      match collect ⟨cfg == "T"⟩ p with
      | some st => pure (.list [.atom "ok", showStore st])
      | none => pure (.list [.atom "err"])
  | _ => none

end Genjax
