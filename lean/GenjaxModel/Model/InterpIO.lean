import GenjaxModel.Model.Interp
import GenjaxModel.Model.SExp
namespace Genjax
open Interp

/-- a Jaxpr as the harness's translator prints it: a list of `prim`, `(site n)`, `(call kind (eqns…))` -/
partial def readJ : List SExp → Option J
  | [] => some .done
  | .atom "prim" :: rest => do pure (.prim (← readJ rest))
  | .list [.atom "site", .atom n] :: rest => do pure (.site (← n.toNat?) (← readJ rest))
  | .list [.atom "call", .atom k, .list body] :: rest => do
      let kind ← match k with
        | "interp" => some Kind.interp | "inline" => some Kind.inline | "rebind" => some Kind.rebind
        | _ => none
      pure (.call kind (← readJ body) (← readJ rest))
  | _ => none

private def showNats (l : List Nat) : SExp := .list (l.map fun n => .atom (toString n))

/-- per top-level equation that carries a sub-Jaxpr: does the walker find a site in it -/
def topHolds : J → List Bool
  | .done => []
  | .prim r => topHolds r
  | .site _ r => topHolds r
  | .call _ b r => b.holds :: topHolds r

def stepInterp : SExp → Option SExp
  | .list [.atom "interp", .list eqns] => do
      let j ← readJ eqns
      let r := match run j with
        | some h => SExp.list [.atom "handled", showNats h]
        | none => .list [.atom "raises"]
      let (h, e) := runOld j
      pure (.list [.atom "ok", r, .list [.atom "old", showNats h, showNats e],
        .list ((topHolds j).map fun b => .atom (if b then "T" else "F")), showNats j.sites,
        .atom (if j.siteInline then "T" else "F"), showNats j.inlineCalls.sites,
        .atom (if j.inlineCalls.siteInline then "T" else "F")])
  | _ => none

end Genjax
