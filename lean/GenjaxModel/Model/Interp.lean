/-
  The fall-through of genjax's Jaxpr interpreters (Seed, ModularVmap, State, ADEV), abstractly.

  Every interpreter walks the equations of a staged Jaxpr.  A SITE (sample_p / adev_sample_p for
  Seed, ModularVmap and ADEV; state_p for State) is what the interpreter is there to handle.  An
  equation that carries a sub-Jaxpr is one of three kinds for a given interpreter:
    interp  - the interpreter has a rule for it and runs itself on the body (cond / switch, scan),
    inline  - the interpreter evaluates the body in place of the call (nested jit / checkpoint for
              State and ADEV after fixes 9b3be7d / d3d169e),
    rebind  - everything else (while, custom_jvp / custom_vjp, jit / checkpoint for Seed and
              ModularVmap): the `else:` branch re-binds the equation unchanged, so JAX evaluates
              the body and a site inside it ESCAPES the interpreter.
  `run` is the interpreter with the guard of fixes c963c34 / df67764 (raise when an opaque equation
  holds a site, pjax.py `_nested_sample_params`); `runOld` is the code before them (and what State /
  ADEV still do for their opaque kinds): it returns the handled and the escaped sites.
  A Jaxpr is encoded as its own cons-list so that all definitions are structurally recursive.
-/
namespace Genjax.Interp

inductive Kind where
  | interp | inline | rebind
  deriving DecidableEq, Repr

inductive J where
  | done : J
  | prim : J → J                 -- a first-order equation, then the rest
  | site : Nat → J → J           -- a site with an identifier, then the rest
  | call : Kind → J → J → J      -- a higher-order equation: kind, body, then the rest
  deriving Repr

/-- every site of the Jaxpr, at any depth, in evaluation order -/
def J.sites : J → List Nat
  | .done => []
  | .prim r => r.sites
  | .site i r => i :: r.sites
  | .call _ b r => b.sites ++ r.sites

/-- the walker `_nested_sample_params … is not None` / `_holds_state` / `_holds_sample_site`:
    does a (sub-)Jaxpr hold a site at any depth -/
def J.holds : J → Bool
  | .done => false
  | .prim r => r.holds
  | .site _ _ => true
  | .call _ b r => b.holds || r.holds

/-- the guarded interpreter: the sites it handled, or `none` when it raises -/
def run : J → Option (List Nat)
  | .done => some []
  | .prim r => run r
  | .site i r => (run r).map (i :: ·)
  | .call .rebind b r => if b.holds then none else run r
  | .call _ b r => (run b).bind fun hb => (run r).map fun hr => hb ++ hr

/-- the unguarded interpreter: (handled, escaped) -/
def runOld : J → List Nat × List Nat
  | .done => ([], [])
  | .prim r => runOld r
  | .site i r => let (h, e) := runOld r; (i :: h, e)
  | .call .rebind b r => let (h, e) := runOld r; (h, b.sites ++ e)
  | .call _ b r => let (hb, eb) := runOld b; let (hr, er) := runOld r; (hb ++ hr, eb ++ er)

/-- is there an opaque equation holding a site that the interpreter reaches (through the bodies it
    enters) -/
def J.blocked : J → Bool
  | .done => false
  | .prim r => r.blocked
  | .site _ r => r.blocked
  | .call .rebind b r => b.holds || r.blocked
  | .call _ b r => b.blocked || r.blocked

/-- sequencing of two Jaxprs (the equations of the first, then those of the second) -/
def J.append : J → J → J
  | .done, k => k
  | .prim r, k => .prim (r.append k)
  | .site i r, k => .site i (r.append k)
  | .call kd b r, k => .call kd b (r.append k)

/-- the pre-pass of ADEV (`_eval_inlining_site_calls`, fix d3d169e) and what State does on the fly (fix 9b3be7d):
    the body of every `inline` call is spliced in place of the call, at every depth the interpreter enters -/
def J.inlineCalls : J → J
  | .done => .done
  | .prim r => .prim r.inlineCalls
  | .site i r => .site i r.inlineCalls
  | .call .inline b r => b.inlineCalls.append r.inlineCalls
  | .call .interp b r => .call .interp b.inlineCalls r.inlineCalls
  | .call .rebind b r => .call .rebind b r.inlineCalls

/-- no `inline` call is left where the interpreter looks -/
def J.noInline : J → Bool
  | .done => true
  | .prim r => r.noInline
  | .site _ r => r.noInline
  | .call .inline _ _ => false
  | .call .interp b r => b.noInline && r.noInline
  | .call .rebind _ r => r.noInline

/-- is there, where the interpreter looks, an `inline` call that still holds a site (what the real pre-pass,
    which leaves site-free calls alone, must have removed) -/
def J.siteInline : J → Bool
  | .done => false
  | .prim r => r.siteInline
  | .site _ r => r.siteInline
  | .call .inline b r => b.holds || r.siteInline
  | .call .interp b r => b.siteInline || r.siteInline
  | .call .rebind _ r => r.siteInline

end Genjax.Interp
