import GenjaxModel.Model.ViElbo
import GenjaxModel.Model.GfiIO
/-! Driver side of the ELBO model (C17): exact evaluation of `elboDraw` / `elboRatio` on rational
    discrete programs.

    (vi-elbo <target GF> <target args> <family GF> <family args> <constraint CM>)
      -> (ok (mean <Σ prob·ratio>) (raise <probability that the family's simulate raises>)
             (rows (row (choices <CM|err>) (prob r) (qmass r|err) (joint r|err) (ratio r|err) (draw r|err)) ...))

    Distribution sites (`viPD`):
      `(dist 0)` flip(p):                 values 0/1, P(1) = args[0]
      `(dist 1)` categorical(p_0 … p_n-1): values 0 … n-1, P(k) = args[k]  (the probabilities are the
                                          n scalar arguments of the site) -/
namespace Genjax
open SExp Smc Smc.FinDist

def natVals : Nat → List Val
  | 0 => []
  | n + 1 => natVals n ++ [.num (n : Rat)]

/-- flip and categorical with rational probabilities -/
def viPD : PD Rat where
  support := fun d a => match d with
    | 0 => [.num 0, .num 1]
    | _ => natVals a.length
  pm := fun d a v => match d with
    | 0 =>
      let p := (a.getD 0 .nil).toRat
      if v = .num 1 then p else if v = .num 0 then 1 - p else 0
    | _ =>
      match v with
      | .num k => if k.den = 1 ∧ 0 ≤ k.num ∧ k.num.toNat < a.length then (a.getD k.num.toNat .nil).toRat else 0
      | _ => 0

def showOptRat : Option Rat → SExp
  | some r => .atom (showRat r)
  | none => .atom "err"

def stepViElbo : SExp → Option SExp
  | .list [.atom "vi-elbo", p, pargs, q, qargs, x] => do
      let p ← readGF p
      let pargs ← readVal pargs
      let q ← readGF q
      let qargs ← readVal qargs
      let x ← readCM x
      let rows := Vi.elboTable viPD p pargs.toList q qargs.toList x
      let raise := E (q.simD viPD (Vi.linPrims viPD) qargs.toList)
        (fun o => match o with | none => (1 : Rat) | some _ => 0)
      pure (.list [.atom "ok",
        .list [.atom "mean", .atom (showRat (Vi.elboMean rows))],
        .list [.atom "raise", .atom (showRat raise)],
        .list (.atom "rows" :: rows.map fun r =>
          .list [.atom "row",
            .list [.atom "choices", match r.choices with | some c => showCM c | none => .atom "err"],
            .list [.atom "prob", .atom (showRat r.prob)],
            .list [.atom "qmass", showOptRat r.qmass],
            .list [.atom "joint", showOptRat r.joint],
            .list [.atom "ratio", showOptRat r.ratio],
            .list [.atom "draw", showOptRat r.draw]])])
  | _ => none

end Genjax
