/-
  A richer deterministic language for "ADEV = forward-mode AD" (property C15): the default branch of
  `ADEV.eval_jaxpr_adev` (src/genjax/adev/__init__.py:603-642) with everything it does around a
  primitive's JVP rule:

    * values are tagged `flt | dis`: discrete values (ints, bools, comparison results, floor-to-int,
      argmax indices, loop counters) have a float0 tangent, canonicalised to the symbolic AD zero
      before a rule is called (`_canonicalize_tangent_for_primitive_jvp`, 129-140);
    * a tangent is `zero | tan d` (`ad.Zero` / float0 versus a materialised array); a JVP rule
      receives symbolic zeros and may return symbolic zeros, which are instantiated afterwards
      (`_instantiate_zero_tangents`, 143-149, 632);
    * the fast path (619-623): "if ALL input tangents are symbolic zeros, evaluate the primitive
      primal-only and give every output `_zero_tangent_like`"; nullary equations (608-610);
    * primitives come from a table (value function + JVP rule), may have SEVERAL outputs of mixed
      kind (`frexp`, a jitted helper returning `(index, value)`);
    * `call` (pjit / closed_call) and `fori` (a `scan` with static trip count, carry possibly mixing
      a counter and float state): ONE multi-output equation for the interpreter, whose JVP rule is
      JAX's own forward mode of the body (the interpreter does not recurse into the body);
    * `cond` (574-601): the interpreter does recurse - each branch is transformed by
      `ADEV.forward_mode(branch, kont)` with the REST of the program as continuation
      (continuation-passing style); exactly one output per branch (`(out_dual,) = …`, 643).

  Three semantics by structural recursion over the mutual inductive `Prog`/`Eqn`:
    `evalP`  primal evaluation (`eqn.primitive.bind`);
    `evalJ`  reference forward mode: every equation through its JVP rule, all tangents materialised;
    `evalA`  the ADEV interpreter in CPS with symbolic zeros and the fast path, parameterised by a
             `Cfg` that also expresses the two seeded WRONG fast-path conditions;
    `runA`   the same interpreter in direct style (used to state what the CPS version computes).
  Mathlib-free, generic over the number type (runs on `Rat`, reasoned about over an ordered field).
-/
namespace Genjax.Adev2

/-- a runtime value: a float, or a discrete value (int / bool as 0,1) -/
inductive Val (K : Type) where
  | flt (v : K)
  | dis (n : Int)
  deriving Repr, DecidableEq

/-- a tangent: the symbolic zero (`ad.Zero`, and float0 arrays, which are canonicalised to it) or a
    materialised tangent -/
inductive Tan (K : Type) where
  | zero
  | tan (d : K)
  deriving Repr, DecidableEq

/-- the interpreter's `Dual(primal, tangent)` -/
structure DV (K : Type) where
  p : Val K
  t : Tan K
  deriving Repr, DecidableEq

/-- a classical dual number of the reference forward mode: the tangent is a number -/
structure RD (K : Type) where
  p : Val K
  d : K
  deriving Repr, DecidableEq

section
variable {K : Type}

def Val.isDis : Val K → Bool
  | .dis _ => true
  | .flt _ => false

/-- the integer content of a value (0 for a float: ill-typed use, totalised) -/
def Val.int : Val K → Int
  | .dis n => n
  | .flt _ => 0

def Tan.isZero : Tan K → Bool
  | .zero => true
  | .tan _ => false

end

section
variable {K : Type} [Zero K] [One K] [Add K] [Sub K] [Mul K] [Div K] [Neg K] [IntCast K] [LT K] [DecidableLT K]

/-- the numeric content of a value (an int is promoted) -/
def Val.num : Val K → K
  | .flt v => v
  | .dis n => (n : K)

namespace Tan
/-- materialise: the symbolic zero stands for 0 -/
def mat : Tan K → K
  | .zero => 0
  | .tan d => d
/-- `add_tangents`: the symbolic zero is the unit and is not materialised -/
def add : Tan K → Tan K → Tan K
  | .zero, t => t
  | t, .zero => t
  | .tan a, .tan b => .tan (a + b)
/-- a linear map applied to a tangent: a symbolic zero stays symbolic -/
def scale (c : K) : Tan K → Tan K
  | .zero => .zero
  | .tan d => .tan (c * d)
def neg : Tan K → Tan K
  | .zero => .zero
  | .tan d => .tan (-d)
/-- `select_n`'s rule: symbolic zero if both case tangents are, else a select of the materialised ones -/
def select (c : Bool) : Tan K → Tan K → Tan K
  | .zero, .zero => .zero
  | a, b => .tan (if c then a.mat else b.mat)
end Tan

def DV.toRD (d : DV K) : RD K := ⟨d.p, d.t.mat⟩

/-- `instantiate_zeros`: a symbolic zero of a float becomes an array of zeros, that of a discrete
    value a float0 array (which the next canonicalisation turns into the symbolic zero again) -/
def inst (v : Val K) (t : Tan K) : Tan K :=
  match t, v with
  | .zero, .flt _ => .tan 0
  | t, _ => t

/-- `Dual(v, _zero_tangent_like(v))` -/
def zeroLike (v : Val K) : DV K := ⟨v, inst v .zero⟩

/-- a table entry: the primitive's value function (`bind`) and its JVP rule. The rule receives the
    primals and the canonicalised tangents (some of them symbolic zeros) and returns primal and
    tangent outputs (some of them symbolic zeros). Several outputs are allowed. -/
structure Prim (K : Type) where
  val : List (Val K) → List (Val K)
  jvp : List (Val K) → List (Tan K) → List (Val K) × List (Tan K)

/-- reference forward mode of one equation: all tangents materialised, rule called, result read
    as numbers -/
def stepJ (p : Prim K) (args : List (RD K)) : List (RD K) :=
  let r := p.jvp (args.map (·.p)) (args.map fun a => Tan.tan a.d)
  List.zipWith (fun v t => ⟨v, Tan.mat t⟩) r.1 r.2

/-- which inputs must carry a symbolic zero for the primal-only path -/
inductive ZeroTest where
  | all     -- the code (621)
  | any     -- seeded C15_2 / C11_1
  | never   -- no fast path at all
  deriving Repr, DecidableEq

structure Cfg where
  zeroTest : ZeroTest
  /-- seeded C15_3: an equation with ANY discrete output is evaluated primal-only -/
  discreteOutPrimalOnly : Bool
  deriving Repr, DecidableEq

/-- what /repo does -/
def Cfg.code : Cfg := ⟨.all, false⟩
def Cfg.noFastPath : Cfg := ⟨.never, false⟩
/-- seeded C15_2 / C11_1 -/
def Cfg.anyZero : Cfg := ⟨.any, false⟩
/-- seeded C15_3 -/
def Cfg.discreteOut : Cfg := ⟨.all, true⟩

/-- the configurations for which the interpreter is forward-mode AD -/
def Cfg.Good (c : Cfg) : Prop := c.zeroTest ≠ .any ∧ c.discreteOutPrimalOnly = false

instance (c : Cfg) : Decidable c.Good := by unfold Cfg.Good; exact inferInstance

def primalOnly (cfg : Cfg) (ts : List (Tan K)) (outs : List (Val K)) : Bool :=
  (match cfg.zeroTest with
    | .all => ts.all Tan.isZero
    | .any => ts.any Tan.isZero
    | .never => false)
  || (cfg.discreteOutPrimalOnly && outs.any Val.isDis)

/-- the interpreter's default branch for one equation (603-642) -/
def stepA (cfg : Cfg) (p : Prim K) (args : List (DV K)) : List (DV K) :=
  let vs := args.map (·.p)
  let ts := args.map (·.t)
  if args.isEmpty then (p.val vs).map zeroLike
  else if primalOnly cfg ts (p.val vs) then (p.val vs).map zeroLike
  else
    let r := p.jvp vs ts
    List.zipWith (fun v t => ⟨v, inst v t⟩) r.1 r.2

/-! ### programs -/

mutual
/-- equations; operands are indices into the environment (all values computed so far), the
    outputs of an equation are appended to it. `P` is the type of primitive names. -/
inductive Eqn (P : Type) where
  | prim (p : P) (ins : List Nat)
  /-- pjit / closed_call: the body runs on the selected operands, `outs` index the body's
      environment -/
  | call (ins : List Nat) (body : Prog P) (outs : List Nat)
  /-- scan with a static trip count: the body runs `n` times on `consts ++ carry`, `outs` give the
      next carry; the equation's outputs are the final carry -/
  | fori (n : Nat) (consts ins : List Nat) (body : Prog P) (outs : List Nat)
  /-- lax.cond on a discrete predicate `c` (non-zero = first branch), one output per branch -/
  | cond (c : Nat) (ins : List Nat) (thn : Prog P) (thnOut : Nat) (els : Prog P) (elsOut : Nat)
inductive Prog (P : Type) where
  | nil
  | cons (e : Eqn P) (rest : Prog P)
end

def Prog.ofList {P : Type} : List (Eqn P) → Prog P
  | [] => .nil
  | e :: es => .cons e (Prog.ofList es)

instance : Inhabited (Val K) := ⟨.dis 0⟩
instance : Inhabited (DV K) := ⟨⟨.dis 0, .zero⟩⟩
instance : Inhabited (RD K) := ⟨⟨.dis 0, 0⟩⟩

/-- read operands (an index out of range reads the default `dis 0`: ill-scoped, totalised) -/
def gather {α : Type} [Inhabited α] (env : List α) (ins : List Nat) : List α :=
  ins.map fun i => env.getD i default

/-- `n`-fold application -/
def iter {α : Type} : Nat → (α → α) → α → α
  | 0, _, a => a
  | n + 1, f, a => iter n f (f a)

def truthy (v : Val K) : Bool := v.int != 0

variable {P : Type}

/-! primal evaluation -/
mutual
def evalPProg (sem : P → Prim K) : Prog P → List (Val K) → List (Val K)
  | .nil, env => env
  | .cons e rest, env => evalPProg sem rest (env ++ evalPEqn sem e env)
def evalPEqn (sem : P → Prim K) : Eqn P → List (Val K) → List (Val K)
  | .prim p ins, env => (sem p).val (gather env ins)
  | .call ins body outs, env => gather (evalPProg sem body (gather env ins)) outs
  | .fori n consts ins body outs, env =>
      iter n (fun c => gather (evalPProg sem body (gather env consts ++ c)) outs) (gather env ins)
  | .cond c ins thn thnOut els elsOut, env =>
      if truthy (env.getD c default) then [(evalPProg sem thn (gather env ins)).getD thnOut default]
      else [(evalPProg sem els (gather env ins)).getD elsOut default]
end

/-! reference forward mode -/
mutual
def evalJProg (sem : P → Prim K) : Prog P → List (RD K) → List (RD K)
  | .nil, env => env
  | .cons e rest, env => evalJProg sem rest (env ++ evalJEqn sem e env)
def evalJEqn (sem : P → Prim K) : Eqn P → List (RD K) → List (RD K)
  | .prim p ins, env => stepJ (sem p) (gather env ins)
  | .call ins body outs, env => gather (evalJProg sem body (gather env ins)) outs
  | .fori n consts ins body outs, env =>
      iter n (fun c => gather (evalJProg sem body (gather env consts ++ c)) outs) (gather env ins)
  | .cond c ins thn thnOut els elsOut, env =>
      if truthy (env.getD c default).p then [(evalJProg sem thn (gather env ins)).getD thnOut default]
      else [(evalJProg sem els (gather env ins)).getD elsOut default]
end

/-- tangent JAX's own forward mode returns for an output of a sub-jaxpr: float0 (symbolic zero) for
    a discrete output, a materialised tangent for a float -/
def RD.tanOut (x : RD K) : Tan K := if x.p.isDis then .zero else .tan x.d

def RD.ofVT (v : Val K) (t : Tan K) : RD K := ⟨v, t.mat⟩

/-- a `pjit`/`closed_call` equation as ONE primitive for the interpreter: value = primal evaluation
    of the body, JVP rule = JAX's forward mode of the body -/
def callPrim (sem : P → Prim K) (body : Prog P) (outs : List Nat) : Prim K where
  val vs := gather (evalPProg sem body vs) outs
  jvp vs ts :=
    let r := gather (evalJProg sem body (List.zipWith RD.ofVT vs ts)) outs
    (r.map (·.p), r.map RD.tanOut)

/-- a `scan` with static trip count as ONE primitive (operands = `nc` constants followed by the
    initial carry; outputs = final carry); its JVP rule is JAX's forward mode of the loop -/
def loopPrim (sem : P → Prim K) (n nc : Nat) (body : Prog P) (outs : List Nat) : Prim K where
  val vs := iter n (fun c => gather (evalPProg sem body (vs.take nc ++ c)) outs) (vs.drop nc)
  jvp vs ts :=
    let args := List.zipWith RD.ofVT vs ts
    let r := iter n (fun c => gather (evalJProg sem body (args.take nc ++ c)) outs) (args.drop nc)
    (r.map (·.p), r.map RD.tanOut)

/-! the ADEV interpreter, continuation-passing style (`R` = answer type of the continuation) -/
mutual
def evalAProg {R : Type} (cfg : Cfg) (sem : P → Prim K) (kont : List (DV K) → R) :
    Prog P → List (DV K) → R
  | .nil, env => kont env
  | .cons e rest, env => evalAEqn cfg sem (fun outs => evalAProg cfg sem kont rest (env ++ outs)) e env
def evalAEqn {R : Type} (cfg : Cfg) (sem : P → Prim K) (kont : List (DV K) → R) :
    Eqn P → List (DV K) → R
  | .prim p ins, env => kont (stepA cfg (sem p) (gather env ins))
  | .call ins body outs, env => kont (stepA cfg (callPrim sem body outs) (gather env ins))
  | .fori n consts ins body outs, env =>
      kont (stepA cfg (loopPrim sem n consts.length body outs) (gather env (consts ++ ins)))
  | .cond c ins thn thnOut els elsOut, env =>
      if truthy (env.getD c default).p then
        evalAProg cfg sem (fun env' => kont [env'.getD thnOut default]) thn (gather env ins)
      else
        evalAProg cfg sem (fun env' => kont [env'.getD elsOut default]) els (gather env ins)
end

/-! the same interpreter, direct style -/
mutual
def runAProg (cfg : Cfg) (sem : P → Prim K) : Prog P → List (DV K) → List (DV K)
  | .nil, env => env
  | .cons e rest, env => runAProg cfg sem rest (env ++ runAEqn cfg sem e env)
def runAEqn (cfg : Cfg) (sem : P → Prim K) : Eqn P → List (DV K) → List (DV K)
  | .prim p ins, env => stepA cfg (sem p) (gather env ins)
  | .call ins body outs, env => stepA cfg (callPrim sem body outs) (gather env ins)
  | .fori n consts ins body outs, env =>
      stepA cfg (loopPrim sem n consts.length body outs) (gather env (consts ++ ins))
  | .cond c ins thn thnOut els elsOut, env =>
      if truthy (env.getD c default).p then [(runAProg cfg sem thn (gather env ins)).getD thnOut default]
      else [(runAProg cfg sem els (gather env ins)).getD elsOut default]
end

/-- `expectation(f).jvp_estimate`: run the interpreter with the identity continuation, read the
    single output variable -/
def adevRun (cfg : Cfg) (sem : P → Prim K) (p : Prog P) (out : Nat) (env : List (DV K)) : DV K :=
  evalAProg cfg sem (fun env' => env'.getD out default) p env

/-- `jax.jvp` -/
def jvpRun (sem : P → Prim K) (p : Prog P) (out : Nat) (env : List (RD K)) : RD K :=
  (evalJProg sem p env).getD out default

/-! ### the standard primitive table -/

/-- the abstract functions of the table (the number type is an abstract field, so transcendental
    and rounding functions are parameters) -/
structure Table (K : Type) where
  /-- smooth unary functions and their derivatives (`sin`, `exp`, `integer_pow`, …) -/
  un : Nat → K → K
  un' : Nat → K → K
  /-- piecewise-constant float → float functions (`floor`, `ceil`, `sign`, `round`): their JVP
      rule returns a symbolic zero whatever the input tangent -/
  step : Nat → K → K
  /-- float → discrete (`convert_element_type` to an int dtype, `argmax`) -/
  disc : Nat → K → Int
  /-- two-output primitives with one discrete and one float output (`frexp`: exponent and
      mantissa; a jitted helper returning `(index, value)`): discrete part, float part and the
      derivative of the float part -/
  mixQ : Nat → K → Int
  mixF : Nat → K → K
  mixF' : Nat → K → K

/-- primitive names -/
inductive Op (K : Type) where
  | const (c : K)
  | iconst (n : Int)
  | add | sub | mul | div | neg
  | un (i : Nat)
  | step (i : Nat)
  /-- `select c a b` = `where(c, a, b)`: `a` if the discrete `c` is non-zero, else `b` -/
  | select
  /-- float comparison `a > b`, a discrete (bool) result -/
  | gt
  | disc (i : Nat)
  | iadd | isub | imul
  /-- integer comparison `a > b` -/
  | igt
  /-- `convert_element_type` int → float -/
  | toFloat
  | mixed (i : Nat)
  deriving Repr, DecidableEq

/-- build a table entry from a value function and a tangent rule -/
def Prim.mk' (val : List (Val K) → List (Val K)) (rule : List (Val K) → List (Tan K) → List (Tan K)) : Prim K :=
  ⟨val, fun vs ts => (val vs, rule vs ts)⟩

def Op.prim (T : Table K) : Op K → Prim K
  | .const c => .mk' (fun _ => [.flt c]) (fun _ _ => [.zero])
  | .iconst n => .mk' (fun _ => [.dis n]) (fun _ _ => [.zero])
  | .add => .mk' (fun vs => [.flt ((vs.getD 0 default).num + (vs.getD 1 default).num)])
      (fun _ ts => [Tan.add (ts.getD 0 .zero) (ts.getD 1 .zero)])
  | .sub => .mk' (fun vs => [.flt ((vs.getD 0 default).num - (vs.getD 1 default).num)])
      (fun _ ts => [Tan.add (ts.getD 0 .zero) (Tan.neg (ts.getD 1 .zero))])
  | .mul => .mk' (fun vs => [.flt ((vs.getD 0 default).num * (vs.getD 1 default).num)])
      (fun vs ts => [Tan.add (Tan.scale (vs.getD 1 default).num (ts.getD 0 .zero))
                             (Tan.scale (vs.getD 0 default).num (ts.getD 1 .zero))])
  | .div => .mk' (fun vs => [.flt ((vs.getD 0 default).num / (vs.getD 1 default).num)])
      (fun vs ts =>
        let x := (vs.getD 0 default).num
        let y := (vs.getD 1 default).num
        [Tan.add (Tan.scale (1 / y) (ts.getD 0 .zero)) (Tan.scale (-(x / (y * y))) (ts.getD 1 .zero))])
  | .neg => .mk' (fun vs => [.flt (-(vs.getD 0 default).num)]) (fun _ ts => [Tan.neg (ts.getD 0 .zero)])
  | .un i => .mk' (fun vs => [.flt (T.un i (vs.getD 0 default).num)])
      (fun vs ts => [Tan.scale (T.un' i (vs.getD 0 default).num) (ts.getD 0 .zero)])
  | .step i => .mk' (fun vs => [.flt (T.step i (vs.getD 0 default).num)]) (fun _ _ => [.zero])
  | .select => .mk' (fun vs => [.flt (if truthy (vs.getD 0 default) then (vs.getD 1 default).num else (vs.getD 2 default).num)])
      (fun vs ts => [Tan.select (truthy (vs.getD 0 default)) (ts.getD 1 .zero) (ts.getD 2 .zero)])
  | .gt => .mk' (fun vs => [.dis (if (vs.getD 1 default).num < (vs.getD 0 default).num then 1 else 0)]) (fun _ _ => [.zero])
  | .disc i => .mk' (fun vs => [.dis (T.disc i (vs.getD 0 default).num)]) (fun _ _ => [.zero])
  | .iadd => .mk' (fun vs => [.dis ((vs.getD 0 default).int + (vs.getD 1 default).int)]) (fun _ _ => [.zero])
  | .isub => .mk' (fun vs => [.dis ((vs.getD 0 default).int - (vs.getD 1 default).int)]) (fun _ _ => [.zero])
  | .imul => .mk' (fun vs => [.dis ((vs.getD 0 default).int * (vs.getD 1 default).int)]) (fun _ _ => [.zero])
  | .igt => .mk' (fun vs => [.dis (if (vs.getD 1 default).int < (vs.getD 0 default).int then 1 else 0)]) (fun _ _ => [.zero])
  | .toFloat => .mk' (fun vs => [.flt (vs.getD 0 default).num]) (fun _ _ => [.zero])
  | .mixed i => .mk' (fun vs => [.dis (T.mixQ i (vs.getD 0 default).num), .flt (T.mixF i (vs.getD 0 default).num)])
      (fun vs ts => [.zero, Tan.scale (T.mixF' i (vs.getD 0 default).num) (ts.getD 0 .zero)])

end

end Genjax.Adev2
