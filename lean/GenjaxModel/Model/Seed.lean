/-
  Model of the Seed interpreter's key threading (src/genjax/pjax.py:1277-1411) in the free
  algebra of `jax.random.split` / `fold_in`:
    * every sample site:   (key, sub) := split key;  the site is sampled with `sub`
    * cond:                (key, sub) := split key;  the taken branch runs under a fresh Seed(sub)
    * scan:                (key, sub) := split key;  iteration j runs under a fresh Seed(fold_in(sub, j))
    * anything else leaves the key alone.
  Mathlib-free, executable.
-/
namespace Genjax.Seed

/-- key paths: `L`/`R` are the two halves of `split` (new running key / sub key) -/
inductive KP where
  | root
  | L (k : KP)
  | R (k : KP)
  | fold (k : KP) (j : Nat)
  deriving DecidableEq, Repr, Inhabited

mutual
  /-- seeded programs as the interpreter sees them -/
  inductive Stmt where
    | site (id : Nat)                 -- a sample site (vectorised sites are one site: one key)
    | cond (taken : Prog)             -- a cond whose taken branch is `taken`
    | scan (body : Prog) (n : Nat)
    | other
  inductive Prog where
    | nil
    | cons (s : Stmt) (rest : Prog)
end

mutual
  /-- keys handed to the sample sites of one run, in execution order, as (site id, iteration
      indices of the enclosing scans, key path); returns the final running key as well -/
  def Stmt.keys : Stmt → KP → List Nat → List (Nat × List Nat × KP) × KP
    | .site id, k, it => ([(id, it, .R k)], .L k)
    | .cond taken, k, it => ((taken.keys (.R k) it).1, .L k)
    | .scan body n, k, it =>
        ((List.range n).flatMap fun j => (body.keys (.fold (.R k) j) (it ++ [j])).1, .L k)
    | .other, k, _ => ([], k)
  def Prog.keys : Prog → KP → List Nat → List (Nat × List Nat × KP) × KP
    | .nil, k, _ => ([], k)
    | .cons s rest, k, it =>
        let (a, k') := s.keys k it
        let (b, k'') := rest.keys k' it
        (a ++ b, k'')
end

/-- `seed(f)(key, …)`: the key paths of all sites of the run -/
def siteKeys (p : Prog) : List (Nat × List Nat × KP) := (p.keys .root []).1

/-- `k` equals `base` or is obtained from `base` by L/R/fold steps (descendant relation) -/
def KP.under (base : KP) : KP → Bool
  | .root => base == .root
  | .L k' => (base == .L k') || KP.under base k'
  | .R k' => (base == .R k') || KP.under base k'
  | .fold k' j => (base == .fold k' j) || KP.under base k'

end Genjax.Seed
