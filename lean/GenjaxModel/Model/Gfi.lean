import GenjaxModel.Model.Sel
/-
  Model of the generative function interface of genjax (src/genjax/core.py):
  Distribution / Fn (the five handlers) / Vmap / Scan / Cond, their traces and
  choice maps.  Follows the code that exists, handler by handler.
  Mathlib-free and executable.  Weights live in any type `R` with 0, +, -.
-/
namespace Genjax

/-- runtime values: scalars, and cons-lists for vectors / tuples -/
inductive Val where
  | num (q : Rat)
  | nil
  | cons (h t : Val)
  deriving DecidableEq, Repr, Inhabited

namespace Val
def ofList : List Val → Val
  | [] => .nil
  | x :: xs => .cons x (ofList xs)
def toList : Val → List Val
  | .cons h t => h :: toList t
  | _ => []
def nth : Val → Nat → Val
  | .cons h _, 0 => h
  | .cons _ t, n + 1 => nth t n
  | _, _ => .nil
def pair (a b : Val) : Val := .cons a (.cons b .nil)
def fst : Val → Val | .cons a _ => a | _ => .nil
def snd : Val → Val | .cons _ (.cons b _) => b | _ => .nil
def toRat : Val → Rat | .num q => q | _ => 0
def truthy : Val → Bool | .num q => q != 0 | _ => false
def sum : Val → Rat
  | .num q => q
  | .nil => 0
  | .cons h t => sum h + sum t
end Val

/-- deterministic argument expressions of `@gen` bodies -/
inductive Expr where
  | const (q : Rat)
  | var (i : Nat)
  | add (a b : Expr)
  | sub (a b : Expr)
  | mul (a b : Expr)
  | lt (a b : Expr)
  | sumv (a : Expr)
  | pair (a b : Expr)
  | fst (a : Expr)
  | snd (a : Expr)
  deriving Repr, Inhabited

def Expr.eval : Expr → List Val → Val
  | .const q, _ => .num q
  | .var i, env => env.getD i .nil
  | .add a b, env => .num ((a.eval env).toRat + (b.eval env).toRat)
  | .sub a b, env => .num ((a.eval env).toRat - (b.eval env).toRat)
  | .mul a b, env => .num ((a.eval env).toRat * (b.eval env).toRat)
  | .lt a b, env => .num (if (a.eval env).toRat < (b.eval env).toRat then 1 else 0)
  | .sumv a, env => .num (a.eval env).sum
  | .pair a b, env => Val.pair (a.eval env) (b.eval env)
  | .fst a, env => (a.eval env).fst
  | .snd a, env => (a.eval env).snd

mutual
  /-- generative functions -/
  inductive GF where
    | dist (d : Nat)
    | fn (body : Body)
    | vmap (g : GF) (axes : List Bool) (n : Nat)   -- axes[j] = arg j is mapped over axis 0
    | scan (g : GF) (n : Nat)
    | cond (t f : GF)
  /-- body of an `@gen` function: a sequence of traced calls, then a return expression -/
  inductive Body where
    | ret (e : Expr)
    | call (addr : String) (g : GF) (args : List Expr) (rest : Body)
end

mutual
  /-- choice maps (model form: vectorised maps are lists of lanes) -/
  inductive CM where
    | leaf (v : Val)
    | node (kids : CML)
    | lanes (kids : CML)      -- keys ignored
  inductive CML where
    | nil
    | cons (k : String) (v : CM) (rest : CML)
end

def CML.find? : CML → String → Option CM
  | .nil, _ => none
  | .cons k v rest, a => if a = k then some v else rest.find? a

def CML.has (l : CML) (a : String) : Bool := (l.find? a).isSome

def CML.toList : CML → List CM
  | .nil => []
  | .cons _ v rest => v :: rest.toList

def CML.ofList : List CM → CML
  | [] => .nil
  | v :: vs => .cons "" v (CML.ofList vs)

mutual
  /-- traces -/
  inductive Tr (R : Type) where
    | leaf (v : Val) (score : R)                      -- Distribution: choices = retval = v
    | fn (subs : TrL R) (ret : Val) (score : R)       -- Fn: trace_map, retval, accumulated score
    | vec (lanes : TrL R)                             -- Vmap (keys ignored)
    | scan (steps : TrL R) (carry : Val)              -- Scan (keys ignored)
    | cond (check : Bool) (t f : Tr R)                -- Cond keeps both branch traces
  inductive TrL (R : Type) where
    | nil
    | cons (k : String) (t : Tr R) (rest : TrL R)
end

variable {R : Type}

def TrL.find? : TrL R → String → Option (Tr R)
  | .nil, _ => none
  | .cons k t rest, a => if a = k then some t else rest.find? a

def TrL.toList : TrL R → List (Tr R)
  | .nil => []
  | .cons _ t rest => t :: rest.toList

def TrL.ofList : List (Tr R) → TrL R
  | [] => .nil
  | t :: ts => .cons "" t (TrL.ofList ts)

def TrL.snoc : TrL R → String → Tr R → TrL R
  | .nil, k, t => .cons k t .nil
  | .cons k' t' rest, k, t => .cons k' t' (rest.snoc k t)

def CML.snoc : CML → String → CM → CML
  | .nil, k, t => .cons k t .nil
  | .cons k' t' rest, k, t => .cons k' t' (rest.snoc k t)

section Obs
variable [Zero R] [Add R]

mutual
  /-- `get_score` -/
  def Tr.score : Tr R → R
    | .leaf _ s => s
    | .fn _ _ s => s
    | .vec lanes => lanes.scoreSum
    | .scan steps _ => steps.scoreSum
    | .cond c t f => if c then t.score else f.score
  def TrL.scoreSum : TrL R → R
    | .nil => 0
    | .cons _ t rest => t.score + rest.scoreSum
end

mutual
  /-- `get_retval` -/
  def Tr.retval : Tr R → Val
    | .leaf v _ => v
    | .fn _ r _ => r
    | .vec lanes => lanes.retvals
    | .scan steps c => Val.pair c steps.outs
    | .cond c t f => if c then t.retval else f.retval
  def TrL.retvals : TrL R → Val
    | .nil => .nil
    | .cons _ t rest => .cons t.retval rest.retvals
  /-- per-step outputs of a scan: second component of each step's retval -/
  def TrL.outs : TrL R → Val
    | .nil => .nil
    | .cons _ t rest => .cons t.retval.snd rest.outs
end
end Obs

mutual
  /-- `Fn.merge(x, x_, check)` / `Distribution.merge` with a check: leafwise `where`;
      keys present on one side only are kept. `none` = the code raises. -/
  def CM.mergeCheck (c : Bool) : CM → CM → Option CM
    | .leaf a, .leaf b => some (.leaf (if c then a else b))
    | .node a, .node b => (CML.mergeCheck c a b).map .node
    | .lanes a, .lanes b => (CML.mergeLanes c a b).map .lanes
    | _, _ => none
  def CML.mergeCheck (c : Bool) : CML → CML → Option CML
    | .nil, b => some b
    | .cons k v rest, b =>
      match b.find? k with
      | some v' => do
          let m ← CM.mergeCheck c v v'
          let r ← CML.mergeCheck c rest (b.erase k)
          pure (.cons k m r)
      | none => do
          let r ← CML.mergeCheck c rest b
          pure (.cons k v r)
  def CML.mergeLanes (c : Bool) : CML → CML → Option CML
    | .nil, .nil => some .nil
    | .cons k v rest, .cons _ v' rest' => do
        let m ← CM.mergeCheck c v v'
        let r ← CML.mergeLanes c rest rest'
        pure (.cons k m r)
    | _, _ => none
  def CML.erase : CML → String → CML
    | .nil, _ => .nil
    | .cons k v rest, a => if a = k then rest else .cons k v (rest.erase a)
end

end Genjax

namespace Genjax
variable {R : Type}

mutual
  /-- `get_choices` (a CondTr merges its two branch maps leafwise by the check) -/
  def Tr.choices : Tr R → Option CM
    | .leaf v _ => some (.leaf v)
    | .fn subs _ _ => subs.choices.map .node
    | .vec lanes => lanes.choices.map .lanes
    | .scan steps _ => steps.choices.map .lanes
    | .cond c t f => do CM.mergeCheck c (← t.choices) (← f.choices)
  def TrL.choices : TrL R → Option CML
    | .nil => some .nil
    | .cons k t rest => do pure (.cons k (← t.choices) (← rest.choices))
end

/-- primitive distributions: log density and the (deterministic, probe) sampler -/
structure Prims (R : Type) where
  lp : Nat → List Val → Val → R
  draw : Nat → List Val → Val

/-- deviations of the code as it is from what the properties demand; `asis` = /repo today -/
structure Cfg where
  condSwitchCorrection : Bool   -- Cond.update/regenerate account for a branch switch
  scanRegenDefined : Bool       -- Scan.regenerate returns instead of raising
  condDiscardVisible : Bool     -- Cond.update's discard holds the visible old values
  vmapEmptyConstraint : Bool    -- Vmap.generate accepts None / {} when the axis size is inferred
  condUpdateFill : Bool         -- Cond.update completes the constraint with the VISIBLE old choices
  deriving Repr, DecidableEq

def Cfg.asis : Cfg := ⟨false, false, false, false, false⟩
def Cfg.spec : Cfg := ⟨true, true, true, true, true⟩

/-- lane `i` of the argument list of a Vmap call -/
def laneArgs : List Bool → List Val → Nat → List Val
  | b :: bs, a :: as, i => (if b then a.nth i else a) :: laneArgs bs as i
  | [], as, _ => as
  | _, [], _ => []

/-- run `f` on every lane (index, element) -/
def forLanes {α β : Type} (f : Nat → α → Option β) : Nat → List α → Option (List β)
  | _, [] => some []
  | i, a :: as => do
      let b ← f i a
      let bs ← forLanes f (i + 1) as
      pure (b :: bs)

/-- run `f` on every scan step, threading the carry -/
def forSteps {α β : Type} (f : Val → Nat → α → Option (β × Val)) : Val → Nat → List α → Option (List β × Val)
  | c, _, [] => some ([], c)
  | c, i, a :: as => do
      let (b, c') ← f c i a
      let (bs, c'') ← forSteps f c' (i + 1) as
      pure (b :: bs, c'')

def sumR [Zero R] [Add R] : List R → R
  | [] => 0
  | x :: xs => x + sumR xs

def lenIs {α : Type} (l : List α) (n : Nat) : Option Unit := if l.length = n then some () else none

section Ops
variable [Zero R] [Add R] [Neg R] (P : Prims R) (cfg : Cfg)

mutual
  /-- `assess(x, *args)`: (log density, retval); `none` = the code raises -/
  def GF.assess : GF → CM → List Val → Option (R × Val)
    | .dist d, .leaf v, args => some (P.lp d args v, v)
    | .dist _, _, _ => none
    | .fn body, .node x, args => body.assess x args []
    | .fn _, _, _ => none
    | .vmap g axes n, .lanes x, args => do
        lenIs x.toList n
        let rs ← forLanes (fun i xi => g.assess xi (laneArgs axes args i)) 0 x.toList
        pure (sumR (rs.map (·.1)), Val.ofList (rs.map (·.2)))
    | .vmap _ _ _, _, _ => none
    | .scan g n, .lanes x, args => do
        lenIs x.toList n
        let (rs, c) ← forSteps (fun c i xi => do
            let (lp, r) ← g.assess xi [c, (args.getD 1 .nil).nth i]
            pure ((lp, r.snd), r.fst)) (args.getD 0 .nil) 0 x.toList
        pure (sumR (rs.map (·.1)), Val.pair c (Val.ofList (rs.map (·.2))))
    | .scan _ _, _, _ => none
    | .cond t f, x, args => do
        let (lp, r) ← t.assess x (args.drop 1)
        let (lp', r') ← f.assess x (args.drop 1)
        let c := (args.getD 0 .nil).truthy
        pure (if c then lp else lp', if c then r else r')
  /-- Assess handler; `seen` = visited addresses (collision check) -/
  def Body.assess : Body → CML → List Val → List String → Option (R × Val)
    | .ret e, _, env, _ => some (0, e.eval env)
    | .call addr g es rest, x, env, seen =>
      if seen.contains addr then none else
      match x.find? addr with
      | none => none
      | some sub => do
          let (lp, r) ← g.assess sub (es.map (·.eval env))
          let (lp', r') ← rest.assess x (env ++ [r]) (addr :: seen)
          pure (lp + lp', r')
end

mutual
  /-- `simulate(*args)` with the probe sampler -/
  def GF.simulate : GF → List Val → Option (Tr R)
    | .dist d, args => let v := P.draw d args; some (.leaf v (-(P.lp d args v)))
    | .fn body, args => do
        let (subs, r, s) ← body.simulate args .nil 0
        pure (.fn subs r s)
    | .vmap g axes n, args => do
        let ts ← forLanes (fun i (_ : Unit) => g.simulate (laneArgs axes args i)) 0 (List.replicate n ())
        pure (.vec (TrL.ofList ts))
    | .scan g n, args => do
        let (ts, c) ← forSteps (fun c i (_ : Unit) => do
            let t ← g.simulate [c, (args.getD 1 .nil).nth i]
            pure (t, t.retval.fst)) (args.getD 0 .nil) 0 (List.replicate n ())
        pure (.scan (TrL.ofList ts) c)
    | .cond t f, args => do
        let a ← t.simulate (args.drop 1)
        let b ← f.simulate (args.drop 1)
        pure (.cond (args.getD 0 .nil).truthy a b)
  def Body.simulate : Body → List Val → TrL R → R → Option (TrL R × Val × R)
    | .ret e, env, subs, s => some (subs, e.eval env, s)
    | .call addr g es rest, env, subs, s =>
      if (subs.find? addr).isSome then none else do
        let t ← g.simulate (es.map (·.eval env))
        rest.simulate (env ++ [t.retval]) (subs.snoc addr t) (s + t.score)
end

mutual
  /-- `generate(x, *args)`: (trace, weight) -/
  def GF.generate : GF → Option CM → List Val → Option (Tr R × R)
    | .dist d, none, args =>
        let v := P.draw d args; some (.leaf v (-(P.lp d args v)), 0)
    | .dist d, some (.leaf v), args => let lp := P.lp d args v; some (.leaf v (-lp), lp)
    | .dist _, some _, _ => none
    | .fn body, none, args => do
        let (subs, r, s) ← body.simulate P args .nil 0
        pure (.fn subs r s, 0)
    | .fn body, some (.node x), args => do
        let (subs, r, s, w) ← body.generate x args .nil 0 0
        pure (.fn subs r s, w)
    | .fn _, some _, _ => none
    | .vmap g axes n, none, args =>
        if cfg.vmapEmptyConstraint || !axes.any id then do
          let ts ← forLanes (fun i (_ : Unit) => g.generate none (laneArgs axes args i)) 0 (List.replicate n ())
          pure (.vec (TrL.ofList (ts.map (·.1))), sumR (ts.map (·.2)))
        else none
    | .vmap g axes n, some (.lanes xs), args => do
        lenIs xs.toList n
        let ts ← forLanes (fun i xi => g.generate (some xi) (laneArgs axes args i)) 0 xs.toList
        pure (.vec (TrL.ofList (ts.map (·.1))), sumR (ts.map (·.2)))
    | .vmap _ _ _, some _, _ => none
    | .scan g n, none, args => do
        let (ts, c) ← forSteps (fun c i (_ : Unit) => do
            let (t, w) ← g.generate none [c, (args.getD 1 .nil).nth i]
            pure ((t, w), t.retval.fst)) (args.getD 0 .nil) 0 (List.replicate n ())
        pure (.scan (TrL.ofList (ts.map (·.1))) c, sumR (ts.map (·.2)))
    | .scan g n, some (.lanes xs), args => do
        lenIs xs.toList n
        let (ts, c) ← forSteps (fun c i xi => do
            let (t, w) ← g.generate (some xi) [c, (args.getD 1 .nil).nth i]
            pure ((t, w), t.retval.fst)) (args.getD 0 .nil) 0 xs.toList
        pure (.scan (TrL.ofList (ts.map (·.1))) c, sumR (ts.map (·.2)))
    | .scan _ _, some _, _ => none
    | .cond t f, none, args => do
        let a ← t.simulate P (args.drop 1)
        let b ← f.simulate P (args.drop 1)
        pure (.cond (args.getD 0 .nil).truthy a b, 0)
    | .cond t f, some x, args => do
        let (a, w) ← t.generate (some x) (args.drop 1)
        let (b, w') ← f.generate (some x) (args.drop 1)
        let c := (args.getD 0 .nil).truthy
        pure (.cond c a b, if c then w else w')
  def Body.generate : Body → CML → List Val → TrL R → R → R → Option (TrL R × Val × R × R)
    | .ret e, _, env, subs, s, w => some (subs, e.eval env, s, w)
    | .call addr g es rest, x, env, subs, s, w =>
      if (subs.find? addr).isSome then none else do
        let (t, w') ← g.generate (x.find? addr) (es.map (·.eval env))
        rest.generate x (env ++ [t.retval]) (subs.snoc addr t) (s + t.score) (w + w')
end

end Ops
end Genjax

namespace Genjax
variable {R : Type}

/- `Fn.merge(x, x_)` without a check (used on discards): recursive on dicts, otherwise
   the second wins; two bare leaves (`Distribution.merge` without check) raise. -/
mutual
  def CM.mergeNoCheck : CM → CM → Option CM
    | .node a, .node b => (CML.mergeNoCheck a b).map .node
    | _, _ => none
  def CML.mergeNoCheck : CML → CML → Option CML
    | .nil, b => some b
    | .cons k v rest, b =>
      match b.find? k with
      | some v' =>
        match v, v' with
        | .node a, .node a' => do
            let m ← CML.mergeNoCheck a a'
            let r ← CML.mergeNoCheck rest (b.erase k)
            pure (.cons k (.node m) r)
        | _, _ => do
            let r ← CML.mergeNoCheck rest (b.erase k)
            pure (.cons k v' r)
      | none => do
          let r ← CML.mergeNoCheck rest b
          pure (.cons k v r)
end

/- `_keep_visible(visible, x)` of `Cond.update` (repaired code): the constraint completed with the
   visible old choices - recursive on dicts (`{**visible, **{k: keep(visible.get(k), v)}}`),
   any other value of the constraint wins outright; vectorised sub-maps lane by lane. -/
mutual
  def CM.fill : CM → CM → CM
    | .node vis, .node x => .node (CML.fill vis x)
    | .lanes vis, .lanes x => .lanes (CML.fillLanes vis x)
    | _, x => x
  def CML.fill : CML → CML → CML
    | .nil, x => x
    | .cons k v rest, x =>
      match x.find? k with
      | some xv => .cons k (CM.fill v xv) (CML.fill rest (x.erase k))
      | none => .cons k v (CML.fill rest x)
  def CML.fillLanes : CML → CML → CML
    | .cons k v rest, .cons _ xv xrest => .cons k (CM.fill v xv) (CML.fillLanes rest xrest)
    | _, x => x
end

/-- discards of a list of lanes / steps: `none` entries are kept positionally as empty nodes
    only when some lane has a discard (a vectorised discard is one pytree) -/
def lanesDiscard (ds : List (Option CM)) : Option CM :=
  if ds.all (·.isNone) then none
  else some (.lanes (CML.ofList (ds.map fun | some c => c | none => .node .nil)))

/-- result of update / regenerate: new trace, weight, discard (`none` = Python `None`) -/
abbrev Upd (R : Type) := Tr R × R × Option CM

section Ops3
variable [Zero R] [Add R] [Neg R] (P : Prims R) (cfg : Cfg)

mutual
  /-- `update(tr, x_, *args)`: (new trace, weight, discard) -/
  def GF.update : GF → Tr R → Option CM → List Val → Option (Upd R)
    | .dist d, .leaf vOld sOld, x, args =>
      match x with
      | none =>
        let lp := P.lp d args vOld
        some (.leaf vOld (-lp), lp + sOld, some (.leaf vOld))
      | some (.leaf v) =>
        let lp := P.lp d args v
        some (.leaf v (-lp), lp + sOld, some (.leaf vOld))
      | some _ => none
    | .dist _, _, _, _ => none
    | .fn body, .fn old _ _, x, args =>
      match (match x with | none => some CML.nil | some (.node kids) => some kids | some _ => none) with
      | none => none
      | some kids => do
          let (subs, r, s, w, d) ← body.update old kids args .nil 0 0 .nil
          pure (.fn subs r s, w, some (.node d))
    | .fn _, _, _, _ => none
    | .vmap g axes n, .vec old, x, args => do
        lenIs old.toList n
        let xs ← (match x with
                  | none => some (List.replicate n none)
                  | some (.lanes l) => if l.toList.length = n then some (l.toList.map some) else none
                  | some _ => none)
        let rs ← forLanes (fun i (p : Tr R × Option CM) => g.update p.1 p.2 (laneArgs axes args i))
                  0 (old.toList.zip xs)
        pure (.vec (TrL.ofList (rs.map (·.1))), sumR (rs.map (·.2.1)), lanesDiscard (rs.map (·.2.2)))
    | .vmap _ _ _, _, _, _ => none
    | .scan g n, .scan old _, x, args => do
        lenIs old.toList n
        let xs ← (match x with
                  | none => some (List.replicate n none)
                  | some (.lanes l) => if l.toList.length = n then some (l.toList.map some) else none
                  | some _ => none)
        let (rs, c) ← forSteps (fun c i (p : Tr R × Option CM) => do
            let (t, w, d) ← g.update p.1 p.2 [c, (args.getD 1 .nil).nth i]
            pure ((t, w, d), t.retval.fst)) (args.getD 0 .nil) 0 (old.toList.zip xs)
        pure (.scan (TrL.ofList (rs.map (·.1))) c, sumR (rs.map (·.2.1)), lanesDiscard (rs.map (·.2.2)))
    | .scan _ _, _, _, _ => none
    | .cond t f, .cond cOld a b, x0, args => do
        -- repaired code: addresses the constraint does not mention keep their VISIBLE old value
        let x ← (if cfg.condUpdateFill then
                    (Tr.cond cOld a b).choices.map fun vis =>
                      some (match x0 with | none => vis | some xc => CM.fill vis xc)
                  else some x0)
        let (a', w, d) ← t.update a x (args.drop 1)
        let (b', w', d') ← f.update b x (args.drop 1)
        let c := (args.getD 0 .nil).truthy
        let w0 := if c then w else w'
        let wt := if cfg.condSwitchCorrection
                  then w0 + ((if cOld then a.score else b.score) + -(if c then a.score else b.score))
                  else w0
        let disc ← (match d, d' with
                    | some x1, some x2 =>
                        if cfg.condDiscardVisible then (CM.mergeCheck cOld x1 x2).map some
                        else (CM.mergeNoCheck x1 x2).map some
                    | _, _ => none)   -- `merge(None, …)` raises (never produced by update)
        pure (.cond c a' b', wt, disc)
    | .cond _ _, _, _, _ => none
  /-- Update handler -/
  def Body.update : Body → TrL R → CML → List Val → TrL R → R → R → CML →
      Option (TrL R × Val × R × R × CML)
    | .ret e, _, _, env, subs, s, w, d => some (subs, e.eval env, s, w, d)
    | .call addr g es rest, old, x, env, subs, s, w, d =>
      if (subs.find? addr).isSome then none else
      match old.find? addr with
      | none => none
      | some sub => do
          let xsub ← (match x.find? addr with
                      | some c => some c
                      | none => sub.choices)
          let (t, w', dsub) ← g.update sub (some xsub) (es.map (·.eval env))
          rest.update old x (env ++ [t.retval]) (subs.snoc addr t) (s + t.score) (w + w')
            (match dsub with | some c => d.snoc addr c | none => d)
end

mutual
  /-- `regenerate(tr, sel, *args)` -/
  def GF.regenerate : GF → Tr R → Sel → List Val → Option (Upd R)
    | .dist d, .leaf vOld sOld, s, args =>
      if s.leaf then
        let v := P.draw d args
        some (.leaf v (-(P.lp d args v)), 0, some (.leaf vOld))
      else
        let lp := P.lp d args vOld
        some (.leaf vOld (-lp), lp + sOld, none)
    | .dist _, _, _, _ => none
    | .fn body, .fn old _ _, s, args => do
        let (subs, r, sc, w, d) ← body.regenerate old s args .nil 0 0 .nil
        pure (.fn subs r sc, w, some (.node d))
    | .fn _, _, _, _ => none
    | .vmap g axes n, .vec old, s, args => do
        lenIs old.toList n
        let rs ← forLanes (fun i (t : Tr R) => g.regenerate t s (laneArgs axes args i)) 0 old.toList
        pure (.vec (TrL.ofList (rs.map (·.1))), sumR (rs.map (·.2.1)), lanesDiscard (rs.map (·.2.2)))
    | .vmap _ _ _, _, _, _ => none
    | .scan g n, .scan old _, s, args =>
        if !cfg.scanRegenDefined then none else do
        lenIs old.toList n
        let (rs, c) ← forSteps (fun c i (t : Tr R) => do
            let (t', w, d) ← g.regenerate t s [c, (args.getD 1 .nil).nth i]
            pure ((t', w, d), t'.retval.fst)) (args.getD 0 .nil) 0 old.toList
        pure (.scan (TrL.ofList (rs.map (·.1))) c, sumR (rs.map (·.2.1)), lanesDiscard (rs.map (·.2.2)))
    | .scan _ _, _, _, _ => none
    | .cond t f, .cond cOld a b, s, args => do
        let (a', w, d) ← t.regenerate a s (args.drop 1)
        let (b', w', d') ← f.regenerate b s (args.drop 1)
        let c := (args.getD 0 .nil).truthy
        let w0 := if c then w else w'
        let wt := if cfg.condSwitchCorrection
                  then w0 + ((if cOld then a.score else b.score) + -(if c then a.score else b.score))
                  else w0
        let disc ← (match d, d' with
                    | none, x2 => some x2
                    | x1, none => some x1
                    | some x1, some x2 =>
                        if cfg.condDiscardVisible then (CM.mergeCheck cOld x1 x2).map some
                        else (CM.mergeNoCheck x1 x2).map some)
        pure (.cond c a' b', wt, disc)
    | .cond _ _, _, _, _ => none
  /-- Regenerate handler: the sub-selection is the remainder of `match(addr)` -/
  def Body.regenerate : Body → TrL R → Sel → List Val → TrL R → R → R → CML →
      Option (TrL R × Val × R × R × CML)
    | .ret e, _, _, env, subs, sc, w, d => some (subs, e.eval env, sc, w, d)
    | .call addr g es rest, old, s, env, subs, sc, w, d =>
      if (subs.find? addr).isSome then none else
      match old.find? addr with
      | none => none
      | some sub => do
          let (t, w', dsub) ← g.regenerate sub (s.matchAddr addr).2 (es.map (·.eval env))
          rest.regenerate old s (env ++ [t.retval]) (subs.snoc addr t) (sc + t.score) (w + w')
            (match dsub with | some c => d.snoc addr c | none => d)
end

end Ops3
end Genjax
